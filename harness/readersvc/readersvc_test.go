package readersvc

import (
	"context"
	"database/sql/driver"
	"testing"

	"qrynverif/fakesql"
)

// Smoke test: every read route answers 200 over an empty database and reaches it.
func TestRoutesSmoke(t *testing.T) {
	restore := Quiet()
	defer restore()
	urls := []string{
		`/loki/api/v1/query_range?query=%7Ba%3D%22b%22%7D&start=1700000000000000000&end=1700000100000000000&limit=10`,
		`/loki/api/v1/query_range?query=rate(%7Ba%3D%22b%22%7D%5B1m%5D)&start=1700000000000000000&end=1700000100000000000&step=60`,
		`/loki/api/v1/query?query=rate(%7Ba%3D%22b%22%7D%5B1m%5D)&time=1700000000000000000`,
		`/loki/api/v1/labels?start=1700000000000000000&end=1700000100000000000`,
		`/loki/api/v1/label/foo/values?start=1700000000000000000&end=1700000100000000000`,
		`/loki/api/v1/series?match[]=%7Ba%3D%22b%22%7D&start=1700000000000000000&end=1700000100000000000`,
		`/api/traces/0123456789abcdef0123456789abcdef`,
		`/api/search?tags=a%3Db&limit=5`,
		`/api/search?q=%7B.a%3D%22b%22%7D&limit=5`,
		`/api/search/tags`,
		`/api/search/tag/foo/values`,
		`/api/v2/search/tags?start=1&end=2`,
		`/api/v2/search/tag/foo/values?start=1&end=2&q=%7B.a%3D%22b%22%7D`,
		`/api/v1/query_range?query=up&start=1700000000&end=1700000100&step=15`,
		`/api/v1/query?query=up&time=1700000000`,
		`/api/v1/labels`,
		`/api/v1/label/foo/values`,
		`/api/v1/series?match[]=up`,
	}
	for _, u := range urls {
		rd := NewReader(Scripted(func(ctx context.Context, q string, args []driver.NamedValue) (*fakesql.Result, error) {
			return fakesql.Rows(nil), nil
		}))
		resp := rd.Get(u)
		if resp.Code != 200 {
			t.Errorf("%s: status %d body %s", u, resp.Code, resp.Body)
		}
		if len(rd.DB.Log()) == 0 {
			t.Errorf("%s: no statement reached the database", u)
		}
		if n := rd.DB.OpenResultSets(); n != 0 {
			t.Errorf("%s: %d result sets left open", u, n)
		}
		rd.Close()
	}
}

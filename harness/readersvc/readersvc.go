// Package readersvc builds the real qryn reader (services, controllers and the route table
// of reader.Init) over the scripted database/sql fake of package fakesql, so property
// checks can drive the read side exactly the way HTTP clients do.
//
//	rd := readersvc.NewReader(handler)      // handler answers every SQL statement
//	defer rd.Close()
//	resp := rd.Get("/loki/api/v1/labels?start=1&end=2")   // in-process, body = all chunks
//	rd.DB.Log()                                           // every statement that reached the DB
//
// The route table is the one reader.performV1APIRouting registers (the same exported
// apirouterv1.Route* functions, in the same order) minus dbRegistry.Init / watchdog.Init,
// which need a live ClickHouse. The services are also exposed directly (constructed the
// way the Route* functions construct them) for checks that bypass HTTP.
//
// Process globals touched: reader/config.Cloki is set once (an all-defaults configuration),
// the reader's logrus logger is silenced. qryn prints SQL and debug text to os.Stdout with
// fmt.Println (GenericLabelReq, dbVersion); Quiet() redirects os.Stdout to /dev/null while
// a predicate runs so the driver's log stays readable.
package readersvc

import (
	"context"
	"database/sql/driver"
	"io"
	"net/http"
	"net/http/httptest"
	"os"
	"strings"
	"sync"

	"github.com/gorilla/mux"
	clconfig "github.com/metrico/cloki-config"
	clcfg "github.com/metrico/cloki-config/config"
	"github.com/metrico/qryn/reader/config"
	"github.com/metrico/qryn/reader/model"
	apirouterv1 "github.com/metrico/qryn/reader/router"
	"github.com/metrico/qryn/reader/service"
	"github.com/metrico/qryn/reader/utils/logger"

	"qrynverif/fakesql"
)

// Reader is one assembled read side over one fake database.
type Reader struct {
	Router   *mux.Router  // the real reader route table
	Handler  http.Handler // == Router (what reader.Init hands to http.Serve)
	DB       *fakesql.DB  // the fake database with its statement log
	Registry model.IDBRegistry

	// Services constructed exactly as the Route* functions construct them.
	QueryRange *service.QueryRangeService
	Labels     *service.QueryLabelsService
	Tempo      model.ITempoService
	Prom       *service.CLokiQueriable
	Prof       *service.ProfService
}

var once sync.Once

func initGlobals() {
	once.Do(func() {
		// reader.Init: config.Cloki = cnf. Only SYSTEM_SETTINGS.MetricsMaxSamples is read by
		// the route table (router/prometheusQueryRangeRouter.go:23); 5000000 is the default
		// of cloki-config.
		st := &clcfg.ClokiBaseSettingServer{}
		st.SYSTEM_SETTINGS.MetricsMaxSamples = 5000000
		config.Cloki = &clconfig.ClokiConfig{Setting: st}
		logger.Logger.SetOutput(io.Discard)
	})
}

// NewReader assembles the reader over a fresh fake database answered by h.
func NewReader(h fakesql.Handler) *Reader {
	return NewReaderCfg(h, nil)
}

// NewReaderCfg is NewReader with a database configuration (ClusterName != "" selects the
// distributed table names).
func NewReaderCfg(h fakesql.Handler, dbCfg *clcfg.ClokiBaseDataBase) *Reader {
	initGlobals()
	db := fakesql.New(h)
	reg := db.Registry(dbCfg)
	app := mux.NewRouter()
	// reader/main.go performV1APIRouting, same order
	apirouterv1.RouteQueryRangeApis(app, reg)
	apirouterv1.RouteSelectLabels(app, reg)
	apirouterv1.RouteSelectPrometheusLabels(app, reg)
	apirouterv1.RoutePrometheusQueryRange(app, reg, config.Cloki.Setting.SYSTEM_SETTINGS.QueryStats)
	apirouterv1.RouteTempo(app, reg)
	apirouterv1.RouteMiscApis(app)
	apirouterv1.RouteProf(app, reg)
	apirouterv1.PluggableRoutes(app, reg)

	sd := model.ServiceData{Session: reg}
	return &Reader{
		Router: app, Handler: app, DB: db, Registry: reg,
		QueryRange: &service.QueryRangeService{ServiceData: sd},
		Labels:     service.NewQueryLabelsService(&sd),
		Tempo:      service.NewTempoService(sd),
		Prom:       &service.CLokiQueriable{ServiceData: sd},
		Prof:       &service.ProfService{DataSession: reg},
	}
}

// Close releases the fake database.
func (r *Reader) Close() { r.DB.Close() }

// Response is an in-process response: Body is the concatenation of every chunk written.
type Response struct {
	Code   int
	Header http.Header
	Body   []byte
}

// Do serves one request in-process through the route table (no network, no net/http
// recover: a handler panic propagates to the caller).
func (r *Reader) Do(req *http.Request) *Response {
	rec := httptest.NewRecorder()
	r.Handler.ServeHTTP(rec, req)
	return &Response{Code: rec.Code, Header: rec.Header(), Body: rec.Body.Bytes()}
}

// Get is Do for a GET of target (path?query, already escaped).
func (r *Reader) Get(target string) *Response {
	return r.Do(httptest.NewRequest("GET", target, nil))
}

// Serve starts a real HTTP server on loopback with the route table.
func (r *Reader) Serve() *httptest.Server { return httptest.NewServer(r.Handler) }

// ---- statement recognition -------------------------------------------------------------

// Kind classifies a statement issued by the reader by its text alone.
type Kind int

const (
	KindOther      Kind = iota
	KindVersion         // dbVersion.GetVersionInfo: settings lookup or SHOW TABLES
	KindLabelsOf        // promQueryable labelsGetter.Fetch: (fingerprint, JSONExtractKeysAndValues)
	KindComplexity      // TraceQL complexity estimate ("SELECT _count as _count ...") / KV estimate (COUNT(1)): one integer column
)

// Classify recognises the auxiliary statements; everything else is the main query of the
// request.
func Classify(q string) Kind {
	switch {
	case fakesql.IsVersionQuery(q):
		return KindVersion
	case strings.Contains(q, "JSONExtractKeysAndValues(labels, 'String')"):
		return KindLabelsOf
	case strings.Contains(q, "_count as _count") || strings.Contains(q, "COUNT(1)"):
		return KindComplexity
	}
	return KindOther
}

// Scripted returns a handler that answers the version statements for an up-to-date schema
// and hands every other statement to main.
func Scripted(main fakesql.Handler) fakesql.Handler {
	return func(ctx context.Context, q string, args []driver.NamedValue) (*fakesql.Result, error) {
		if fakesql.IsVersionQuery(q) {
			return fakesql.AnswerVersion(q), nil
		}
		return main(ctx, q, args)
	}
}

// ---- stdout ------------------------------------------------------------------------------

var (
	quietMu sync.Mutex
	devnull *os.File
)

// Quiet redirects os.Stdout to /dev/null until the returned function is called. qryn's
// read side prints every label SQL statement and debug text with fmt.Println. Not
// reentrant-safe across goroutines that print concurrently with the switch; call it at the
// top of a predicate: restore := readersvc.Quiet(); defer restore().
func Quiet() (restore func()) {
	quietMu.Lock()
	if devnull == nil {
		devnull, _ = os.OpenFile(os.DevNull, os.O_WRONLY, 0)
	}
	old := os.Stdout
	if devnull != nil {
		os.Stdout = devnull
	}
	quietMu.Unlock()
	return func() {
		quietMu.Lock()
		os.Stdout = old
		quietMu.Unlock()
	}
}

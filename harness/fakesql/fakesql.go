// Package fakesql is a database/sql driver whose answers come from the test: a scripted
// handler per database name (or, for the semantic properties, the reference SQL
// interpreter). It lets the real reader services, scanners and controllers run unchanged.
//
// Rows may carry any Go values, exactly as clickhouse-go does: database/sql assigns them
// to the Scan destinations by reflection (map[string]string, [][]any, []string, uint64 ...).
package fakesql

import (
	"context"
	"database/sql"
	"database/sql/driver"
	"errors"
	"fmt"
	"io"
	"strings"
	"sync"
	"sync/atomic"

	"github.com/metrico/cloki-config/config"
	"github.com/metrico/qryn/reader/model"
)

// Result is what a handler returns for one statement.
type Result struct {
	Cols []string
	Rows [][]any
	// FailAfter >= 0: rows.Next returns NextErr after that many rows.
	FailAfter int
	NextErr   error
	// Gate, if non-nil, is received from before the first row is delivered (stall).
	Gate <-chan struct{}
}

// Rows is a convenience constructor (no mid-stream failure).
func Rows(cols []string, rows ...[]any) *Result {
	return &Result{Cols: cols, Rows: rows, FailAfter: -1}
}

// Handler answers one statement; returning an error fails QueryCtx itself.
type Handler func(ctx context.Context, query string, args []driver.NamedValue) (*Result, error)

// DB is one fake database: handler + log of every statement that reached it.
type DB struct {
	Name    string
	handler atomic.Value // Handler
	mu      sync.Mutex
	log     []string
	open    int64 // result sets opened and not yet closed
	sqlDB   *sql.DB
}

var (
	regMu sync.Mutex
	reg   = map[string]*DB{}
	seq   int64
)

func init() { sql.Register("qrynfake", drv{}) }

// New creates a fresh fake database with a unique name.
func New(h Handler) *DB {
	n := atomic.AddInt64(&seq, 1)
	d := &DB{Name: fmt.Sprintf("fake%d", n)}
	d.handler.Store(h)
	regMu.Lock()
	reg[d.Name] = d
	regMu.Unlock()
	s, err := sql.Open("qrynfake", d.Name)
	if err != nil {
		panic(err)
	}
	d.sqlDB = s
	return d
}

// SetHandler swaps the handler.
func (d *DB) SetHandler(h Handler) { d.handler.Store(h) }

// Close releases the database.
func (d *DB) Close() {
	_ = d.sqlDB.Close()
	regMu.Lock()
	delete(reg, d.Name)
	regMu.Unlock()
}

// Log returns a copy of the statements seen so far.
func (d *DB) Log() []string {
	d.mu.Lock()
	defer d.mu.Unlock()
	return append([]string(nil), d.log...)
}

// ResetLog clears the statement log.
func (d *DB) ResetLog() { d.mu.Lock(); d.log = nil; d.mu.Unlock() }

// OpenResultSets is the number of result sets handed out and not closed yet.
func (d *DB) OpenResultSets() int64 { return atomic.LoadInt64(&d.open) }

// SQL gives the *sql.DB.
func (d *DB) SQL() *sql.DB { return d.sqlDB }

// Session wraps the database as the reader's model.ISqlxDB.
func (d *DB) Session() model.ISqlxDB { return &session{d} }

// Registry wraps it as model.IDBRegistry (single node; cfg may be nil).
func (d *DB) Registry(cfg *config.ClokiBaseDataBase) model.IDBRegistry {
	if cfg == nil {
		cfg = &config.ClokiBaseDataBase{}
	}
	return &registry{m: &model.DataDatabasesMap{Config: cfg, DSN: d.Name, Session: d.Session()}}
}

type registry struct{ m *model.DataDatabasesMap }

func (r *registry) GetDB(ctx context.Context) (*model.DataDatabasesMap, error) { return r.m, nil }
func (r *registry) Run()                                                     {}
func (r *registry) Stop()                                                    {}
func (r *registry) Ping() error                                              { return nil }

type session struct{ d *DB }

func (s *session) GetName() string { return s.d.Name }
func (s *session) QueryCtx(ctx context.Context, query string, args ...any) (*sql.Rows, error) {
	return s.d.sqlDB.QueryContext(ctx, query, args...)
}
func (s *session) ExecCtx(ctx context.Context, query string, args ...any) error {
	_, err := s.d.sqlDB.ExecContext(ctx, query, args...)
	return err
}
func (s *session) Conn(ctx context.Context) (*sql.Conn, error) { return s.d.sqlDB.Conn(ctx) }
func (s *session) Begin() (*sql.Tx, error)                      { return s.d.sqlDB.Begin() }
func (s *session) Close()                                       {}

// ---- driver ---------------------------------------------------------------------------

type drv struct{}

func (drv) Open(name string) (driver.Conn, error) {
	regMu.Lock()
	d := reg[name]
	regMu.Unlock()
	if d == nil {
		return nil, errors.New("fakesql: unknown database " + name)
	}
	return &conn{d}, nil
}

type conn struct{ d *DB }

func (c *conn) Prepare(q string) (driver.Stmt, error) { return nil, errors.New("fakesql: prepare unsupported") }
func (c *conn) Close() error                          { return nil }
func (c *conn) Begin() (driver.Tx, error)             { return tx{}, nil }

type tx struct{}

func (tx) Commit() error   { return nil }
func (tx) Rollback() error { return nil }

func (c *conn) QueryContext(ctx context.Context, q string, args []driver.NamedValue) (driver.Rows, error) {
	c.d.mu.Lock()
	c.d.log = append(c.d.log, q)
	c.d.mu.Unlock()
	h, _ := c.d.handler.Load().(Handler)
	if h == nil {
		return nil, errors.New("fakesql: no handler")
	}
	res, err := h(ctx, q, args)
	if err != nil {
		return nil, err
	}
	if res == nil {
		res = &Result{FailAfter: -1}
	}
	atomic.AddInt64(&c.d.open, 1)
	return &rows{d: c.d, res: res, ctx: ctx}, nil
}

func (c *conn) ExecContext(ctx context.Context, q string, args []driver.NamedValue) (driver.Result, error) {
	c.d.mu.Lock()
	c.d.log = append(c.d.log, q)
	c.d.mu.Unlock()
	h, _ := c.d.handler.Load().(Handler)
	if h != nil {
		if _, err := h(ctx, q, args); err != nil {
			return nil, err
		}
	}
	return driver.RowsAffected(0), nil
}

// CheckNamedValue lets any Go value through as an argument (clickhouse-go does the same).
func (c *conn) CheckNamedValue(*driver.NamedValue) error { return nil }

type rows struct {
	d      *DB
	res    *Result
	i      int
	closed bool
	ctx    context.Context
	gated  bool
}

func (r *rows) Columns() []string {
	if len(r.res.Cols) == 0 && len(r.res.Rows) > 0 {
		cols := make([]string, len(r.res.Rows[0]))
		for i := range cols {
			cols[i] = fmt.Sprintf("c%d", i)
		}
		return cols
	}
	return r.res.Cols
}

func (r *rows) Close() error {
	if !r.closed {
		r.closed = true
		atomic.AddInt64(&r.d.open, -1)
	}
	return nil
}

func (r *rows) Next(dest []driver.Value) error {
	if r.res.Gate != nil && !r.gated {
		r.gated = true
		select {
		case <-r.res.Gate:
		case <-r.ctx.Done():
			return r.ctx.Err()
		}
	}
	if r.res.FailAfter >= 0 && r.i >= r.res.FailAfter {
		if r.res.NextErr != nil {
			return r.res.NextErr
		}
		return errors.New("fakesql: scripted mid-stream failure")
	}
	if r.i >= len(r.res.Rows) {
		return io.EOF
	}
	row := r.res.Rows[r.i]
	r.i++
	for k := range dest {
		if k < len(row) {
			dest[k] = row[k]
		} else {
			dest[k] = nil
		}
	}
	return nil
}

// IsVersionQuery recognises the two auxiliary statements every reader service issues
// through dbVersion.GetVersionInfo; AnswerVersion answers them for an up-to-date schema.
func IsVersionQuery(q string) bool {
	t := strings.TrimSpace(q)
	return strings.HasPrefix(t, "SHOW TABLES") || (strings.Contains(t, "argMax(name, inserted_at)") && strings.Contains(t, "type='update'"))
}

// AnswerVersion answers the auxiliary statements: all feature versions present long ago,
// tables of the current schema.
func AnswerVersion(q string) *Result {
	if strings.HasPrefix(strings.TrimSpace(q), "SHOW TABLES") {
		return Rows([]string{"name"}, []any{"samples_v3"}, []any{"time_series"}, []any{"time_series_gin"}, []any{"metrics_15s"}, []any{"metrics_15s_mv"}, []any{"tempo_traces"}, []any{"tempo_traces_attrs_gin"}, []any{"tempo_traces_kv"}, []any{"profiles"}, []any{"profiles_series"}, []any{"profiles_series_gin"}, []any{"profiles_series_keys"})
	}
	return Rows([]string{"_name", "_value"},
		[]any{"v3_1", "1"}, []any{"v3_2", "1"}, []any{"tempo_traces_v1", "1"}, []any{"tempo_traces_v2", "1"},
		[]any{"profiles_v1", "1"}, []any{"profiles_v2", "1"}, []any{"v5", "1"}, []any{"tempo_v2", "1"}, []any{"v1", "1"}, []any{"v3", "1"}, []any{"v4", "1"})
}

// Package refeval is a direct evaluator of LogQL over plain Go tables, written from the
// LogQL language definition (Grafana Loki documentation: log stream selector, log pipeline,
// metric queries). It shares no code with qryn's planners; it does not even use qryn's
// parser: queries are built as values of the AST below (plain, JSON-serialisable structs,
// so they can live inside a replayable case) and printed to LogQL text with String().
//
// Where qryn deliberately differs from Loki and both of qryn's engines agree, the evaluator
// follows qryn and records the fact in Flags.Deviations; where the right answer is not
// settled (the two engines differ from each other and from Loki, or the definition leaves
// it open) it records a reason in Flags.DontCare and the caller is expected to skip the
// comparison (counted). See DESIGN.md sections 2.5 and 5.
package refeval

import (
	"fmt"
	"sort"
	"strconv"
	"strings"
)

// ---- data model ---------------------------------------------------------------------

// Entry is one log line (or one sample of a metric-typed stream).
type Entry struct {
	TsNs  int64   `json:"ts"`
	Line  string  `json:"line"`
	Value float64 `json:"v,omitempty"`
}

// Series is a stream: a label set with its entries.
type Series struct {
	Labels  map[string]string `json:"labels"`
	Entries []Entry           `json:"entries"`
}

// ---- query AST ----------------------------------------------------------------------

// Matcher is one stream-selector matcher; Op is one of = != =~ !~.
type Matcher struct {
	Name string `json:"name"`
	Op   string `json:"op"`
	Val  string `json:"val"`
}

// LabelFilter is a label-filter expression tree. Inner nodes have Bool "and"/"or" and
// L, R; leaves have Label, Cmp and either Str (string comparison: = != =~ !~) or Num
// (numeric comparison: == != > >= < <=; Num is the literal as printed).
type LabelFilter struct {
	Bool  string       `json:"bool,omitempty"`
	L     *LabelFilter `json:"l,omitempty"`
	R     *LabelFilter `json:"r,omitempty"`
	Label string       `json:"label,omitempty"`
	Cmp   string       `json:"cmp,omitempty"`
	Str   *string      `json:"str,omitempty"`
	Num   string       `json:"num,omitempty"`
}

// Param is a generic "name [= value]" parameter:
//   - json / logfmt / regexp parameters: Name = label, Val = path / key
//   - drop: Name = label, HasVal+Val = value to match
//   - label_format: Name = destination; Src = source label (copy) or HasVal+Val = template
type Param struct {
	Name   string `json:"name"`
	Val    string `json:"val,omitempty"`
	HasVal bool   `json:"has_val,omitempty"`
	Src    string `json:"src,omitempty"`
}

// Stage kinds.
const (
	KLineFilter  = "line_filter"
	KLabelFilter = "label_filter"
	KJSON        = "json"
	KLogfmt      = "logfmt"
	KRegexp      = "regexp"
	KLabelFormat = "label_format"
	KLineFormat  = "line_format"
	KDrop        = "drop"
	KUnwrap      = "unwrap"
)

// Stage is one pipeline stage.
type Stage struct {
	Kind   string       `json:"kind"`
	Op     string       `json:"op,omitempty"`  // line filter: |= != |~ !~
	Val    string       `json:"val,omitempty"` // line filter text, line_format template, regexp pattern
	Filter *LabelFilter `json:"filter,omitempty"`
	Params []Param      `json:"params,omitempty"`
	Label  string       `json:"label,omitempty"` // unwrap
}

// Grouping is a by (...) / without (...) clause.
type Grouping struct {
	Without bool     `json:"without,omitempty"`
	Labels  []string `json:"labels"`
	Suffix  bool     `json:"suffix,omitempty"` // printed after the parenthesis instead of before
}

// Comparison is a trailing "<op> <number>" filter on values.
type Comparison struct {
	Op  string `json:"op"`
	Val string `json:"val"` // literal as printed (digits[.digits])
}

// Expr is a whole query. A log query has only Matchers and Stages. RangeFn != "" makes it
// a range aggregation over [RangeN RangeUnit]; AggFn != "" wraps that in a vector
// aggregation; TopFn != "" wraps the result in topk/bottomk.
type Expr struct {
	Matchers []Matcher `json:"matchers"`
	Stages   []Stage   `json:"stages,omitempty"`

	RangeFn    string      `json:"range_fn,omitempty"`
	RangeN     int64       `json:"range_n,omitempty"`
	RangeUnit  string      `json:"range_unit,omitempty"` // ns us ms s m h
	RangeGroup *Grouping   `json:"range_group,omitempty"`
	RangeCmp   *Comparison `json:"range_cmp,omitempty"`
	Quantile   string      `json:"quantile,omitempty"` // quantile_over_time parameter

	AggFn    string      `json:"agg_fn,omitempty"`
	AggGroup *Grouping   `json:"agg_group,omitempty"`
	AggCmp   *Comparison `json:"agg_cmp,omitempty"`

	TopFn  string      `json:"top_fn,omitempty"` // topk | bottomk
	TopK   int         `json:"top_k,omitempty"`
	TopCmp *Comparison `json:"top_cmp,omitempty"`
}

// RangeNs is the range duration in nanoseconds.
func (e *Expr) RangeNs() int64 {
	m := map[string]int64{"ns": 1, "us": 1e3, "ms": 1e6, "s": 1e9, "m": 60e9, "h": 3600e9}
	return e.RangeN * m[e.RangeUnit]
}

// IsMetric says whether the query yields a matrix.
func (e *Expr) IsMetric() bool { return e.RangeFn != "" }

// ---- printer ------------------------------------------------------------------------

// Quote prints a LogQL double-quoted string literal using only escapes that mean the same
// in Go (Loki), JSON (qryn unquotes literals with encoding/json) and the lexers of both.
func Quote(s string) string {
	var b strings.Builder
	b.WriteByte('"')
	for _, r := range s {
		switch {
		case r == '"':
			b.WriteString(`\"`)
		case r == '\\':
			b.WriteString(`\\`)
		case r == '\n':
			b.WriteString(`\n`)
		case r == '\t':
			b.WriteString(`\t`)
		case r == '\r':
			b.WriteString(`\r`)
		case r < 0x20 || r == 0x7f:
			fmt.Fprintf(&b, `\u%04x`, r)
		default:
			b.WriteRune(r)
		}
	}
	b.WriteByte('"')
	return b.String()
}

func (f *LabelFilter) String() string {
	if f == nil {
		return ""
	}
	if f.Bool == "" {
		if f.Str != nil {
			return f.Label + " " + f.Cmp + " " + Quote(*f.Str)
		}
		return f.Label + " " + f.Cmp + " " + f.Num
	}
	// Children that are themselves inner nodes are always parenthesised, so the reading
	// does not depend on operator precedence/associativity (Loki gives "and" precedence,
	// qryn's grammar is right-associative without precedence).
	side := func(c *LabelFilter) string {
		if c.Bool != "" {
			return "(" + c.String() + ")"
		}
		return c.String()
	}
	return side(f.L) + " " + f.Bool + " " + side(f.R)
}

func (s Stage) String() string {
	switch s.Kind {
	case KLineFilter:
		return s.Op + " " + Quote(s.Val)
	case KLabelFilter:
		return "| " + s.Filter.String()
	case KJSON, KLogfmt:
		ps := make([]string, len(s.Params))
		for i, p := range s.Params {
			ps[i] = p.Name + "=" + Quote(p.Val)
		}
		if len(ps) == 0 {
			return "| " + s.Kind
		}
		return "| " + s.Kind + " " + strings.Join(ps, ", ")
	case KRegexp:
		return "| regexp " + Quote(s.Val)
	case KLabelFormat:
		ps := make([]string, len(s.Params))
		for i, p := range s.Params {
			if p.HasVal {
				ps[i] = p.Name + "=" + Quote(p.Val)
			} else {
				ps[i] = p.Name + "=" + p.Src
			}
		}
		return "| label_format " + strings.Join(ps, ", ")
	case KLineFormat:
		return "| line_format " + Quote(s.Val)
	case KDrop:
		ps := make([]string, len(s.Params))
		for i, p := range s.Params {
			ps[i] = p.Name
			if p.HasVal {
				ps[i] += "=" + Quote(p.Val)
			}
		}
		return "| drop " + strings.Join(ps, ", ")
	case KUnwrap:
		return "| unwrap " + s.Label
	}
	return "| ?" + s.Kind
}

func (g *Grouping) String() string {
	kw := "by"
	if g.Without {
		kw = "without"
	}
	return kw + " (" + strings.Join(g.Labels, ", ") + ")"
}

func (c *Comparison) String() string { return " " + c.Op + " " + c.Val }

// Selector prints the log-query part: {matchers} stages...
func (e *Expr) Selector() string {
	ms := make([]string, len(e.Matchers))
	for i, m := range e.Matchers {
		ms[i] = m.Name + m.Op + Quote(m.Val)
	}
	var b strings.Builder
	b.WriteString("{" + strings.Join(ms, ", ") + "}")
	for _, s := range e.Stages {
		b.WriteString(" " + s.String())
	}
	return b.String()
}

// String prints the query as LogQL text (the subset of the grammar qryn's parser accepts).
func (e *Expr) String() string {
	if e.RangeFn == "" {
		return e.Selector()
	}
	var b strings.Builder
	b.WriteString(e.RangeFn)
	if e.RangeGroup != nil && !e.RangeGroup.Suffix {
		b.WriteString(" " + e.RangeGroup.String())
	}
	b.WriteString(" (")
	if e.RangeFn == "quantile_over_time" {
		b.WriteString(e.Quantile + ", ")
	}
	b.WriteString(e.Selector())
	b.WriteString(" [" + strconv.FormatInt(e.RangeN, 10) + e.RangeUnit + "])")
	if e.RangeGroup != nil && e.RangeGroup.Suffix {
		b.WriteString(" " + e.RangeGroup.String())
	}
	if e.RangeCmp != nil {
		b.WriteString(e.RangeCmp.String())
	}
	res := b.String()
	if e.AggFn != "" {
		var a strings.Builder
		a.WriteString(e.AggFn)
		if e.AggGroup != nil && !e.AggGroup.Suffix {
			a.WriteString(" " + e.AggGroup.String())
		}
		a.WriteString(" (" + res + ")")
		if e.AggGroup != nil && e.AggGroup.Suffix {
			a.WriteString(" " + e.AggGroup.String())
		}
		if e.AggCmp != nil {
			a.WriteString(e.AggCmp.String())
		}
		res = a.String()
	}
	if e.TopFn != "" {
		res = e.TopFn + "(" + strconv.Itoa(e.TopK) + ", " + res + ")"
		if e.TopCmp != nil {
			res += e.TopCmp.String()
		}
	}
	return res
}

// ---- helpers ------------------------------------------------------------------------

// LabelsKey is a canonical, injective text form of a label set (sorted, quoted).
func LabelsKey(m map[string]string) string {
	ks := make([]string, 0, len(m))
	for k := range m {
		ks = append(ks, k)
	}
	sort.Strings(ks)
	var b strings.Builder
	b.WriteByte('{')
	for i, k := range ks {
		if i > 0 {
			b.WriteByte(',')
		}
		b.WriteString(strconv.Quote(k) + "=" + strconv.Quote(m[k]))
	}
	b.WriteByte('}')
	return b.String()
}

func cloneLabels(m map[string]string) map[string]string {
	r := make(map[string]string, len(m)+4)
	for k, v := range m {
		r[k] = v
	}
	return r
}

package refeval

import (
	"bytes"
	"fmt"
	"regexp"
	"strconv"
	"strings"
	"text/template"
)

// Full line_format / label_format templates. LogQL defines the template language as Go's
// text/template plus a documented list of functions; the engine used here is the standard
// library's, the functions are written below from their documentation (they are NOT qryn's
// function map and not the sprig library). Only the functions the generators use are
// provided; a template that names another function does not parse and the query is reported
// Unsupported.
//
// A template can fail at run time for one entry and not for the next (division by zero, a
// negative repeat count). LogQL: the entry stays in the stream with the line / label as it
// was and carries __error__="TemplateFormatErr". The evaluator reports such entries through
// Row.Err; whatever an engine does with the failing entry, the other entries are not
// concerned.

type fullTpl struct {
	t         *template.Template
	readsLine bool
	exotic    *bool // set when a conversion met a string whose numeric reading is parser-dependent
}

var plainIntRe = regexp.MustCompile(`^-?(0|[1-9][0-9]*)$`)

func tplToInt64(exotic *bool) func(v any) int64 {
	return func(v any) int64 {
		switch x := v.(type) {
		case int:
			return int64(x)
		case int64:
			return x
		case string:
			if plainIntRe.MatchString(x) {
				n, err := strconv.ParseInt(x, 10, 64)
				if err == nil {
					return n
				}
			}
			// documented: a value that is not an integer converts to 0. Spellings some
			// converters accept and others do not (hex, octal, "1.0", "+1", "1e3", blanks)
			// are flagged.
			if x != "" && !clearlyNotNumRe.MatchString(x) {
				*exotic = true
			}
			return 0
		case bool:
			if x {
				return 1
			}
			return 0
		}
		*exotic = true
		return 0
	}
}

func compileFullTemplate(text string) (*fullTpl, error) {
	ex := new(bool)
	toI := tplToInt64(ex)
	fm := template.FuncMap{
		"ToLower":   strings.ToLower,
		"ToUpper":   strings.ToUpper,
		"lower":     strings.ToLower,
		"upper":     strings.ToUpper,
		"TrimSpace": strings.TrimSpace,
		"trim":      strings.TrimSpace,
		"Replace":   func(s, old, new string, n int) string { return strings.Replace(s, old, new, n) },
		"replace":   func(old, new, src string) string { return strings.ReplaceAll(src, old, new) },
		"trunc": func(n int, s string) string {
			if n < 0 {
				panic("negative trunc")
			}
			if len(s) <= n {
				return s
			}
			return s[:n]
		},
		"contains":  func(sub, s string) bool { return strings.Contains(s, sub) },
		"hasPrefix": func(pre, s string) bool { return strings.HasPrefix(s, pre) },
		"hasSuffix": func(suf, s string) bool { return strings.HasSuffix(s, suf) },
		"repeat":    func(n int, s string) string { return strings.Repeat(s, n) }, // negative count: run-time error
		"int":       func(v any) int { return int(toI(v)) },
		"add": func(vs ...any) int64 {
			var s int64
			for _, v := range vs {
				s += toI(v)
			}
			return s
		},
		"sub": func(a, b any) int64 { return toI(a) - toI(b) },
		"mul": func(a any, vs ...any) int64 {
			p := toI(a)
			for _, v := range vs {
				p *= toI(v)
			}
			return p
		},
		"div": func(a, b any) int64 { return toI(a) / toI(b) }, // division by zero: run-time error
		"mod": func(a, b any) int64 { return toI(a) % toI(b) },
	}
	t, err := template.New("t").Option("missingkey=zero").Funcs(fm).Parse(text)
	if err != nil {
		return nil, err
	}
	return &fullTpl{t: t, exotic: ex, readsLine: strings.Contains(text, "._entry") || strings.Contains(text, "__line__")}, nil
}

// exec runs the template over the labels (plus the line under "_entry", qryn's spelling, when
// withLine). A missing field reads as "" (labels are a map of strings).
func (f *fullTpl) exec(r *Row, withLine bool, fl *Flags) (string, error) {
	data := make(map[string]string, len(r.Labels)+1)
	for k, v := range r.Labels {
		data[k] = v
	}
	if withLine {
		data["_entry"] = r.Line
	}
	var buf bytes.Buffer
	*f.exotic = false
	err := f.t.Execute(&buf, data)
	if *f.exotic {
		fl.dontCare("template-exotic-number")
	}
	if err != nil {
		return "", fmt.Errorf("TemplateFormatErr: %w", err)
	}
	return buf.String(), nil
}

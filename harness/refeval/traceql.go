package refeval

// Direct evaluator of TraceQL over Go trace tables (no SQL, no qryn code). It follows the
// statement of property C11:
//
//   - a span matches a selector when its attributes satisfy the boolean combination of the
//     selector's conditions (string equality / inequality / regex, numeric comparisons on
//     attributes and name, duration comparisons);
//   - matching spans are grouped per trace; a trace passes the selector when it has a
//     matching span and, with an aggregator, when count/avg/min/max/sum over its matching
//     spans passes the comparison;
//   - `&&` keeps the traces passed by both selectors, `||` by either;
//   - only spans with From <= timestamp < To count;
//   - at most `limit` traces, the most recent (latest matching span) first.
//
// Conventions taken from qryn where the languages leave room (documented in NOTES.md):
// regex matching is unanchored RE2 (`match`), a comparison on a missing attribute or on a
// value of the wrong type is false (also for != and !~), span./resource./. scopes address
// the same flat attribute map (the writer merges resource attributes into the span's).

import (
	"errors"
	"fmt"
	"math"
	"regexp"
	"sort"
	"strconv"
	"strings"
)

// TQKV is one stored attribute.
type TQKV struct {
	K string `json:"k"`
	V string `json:"v"`
}

// TQSpan is one stored span.
type TQSpan struct {
	ID      string `json:"id"` // 16 hex digits
	TS      int64  `json:"ts"` // start, ns
	Dur     int64  `json:"dur"`
	Name    string `json:"name"`
	Service string `json:"service"`
	Attrs   []TQKV `json:"attrs,omitempty"` // distinct keys, none of name / service.name / remoteService.name
}

// TQTrace is one trace.
type TQTrace struct {
	ID    string   `json:"id"` // 32 hex digits
	Spans []TQSpan `json:"spans"`
}

// TQDB is the whole store.
type TQDB struct {
	Traces []TQTrace `json:"traces"`
}

// AllAttrs is the flat attribute list the writer indexes for a span: the OTLP decoder
// (writer/utils/unmarshal/otlpUnmarshal.go Decode) merges span and resource attributes into
// one map, adds service.name / remoteService.name when absent and sets "name" to the span
// name; onSpan stores one index row per map entry.
func (s *TQSpan) AllAttrs() []TQKV {
	out := make([]TQKV, 0, len(s.Attrs)+3)
	out = append(out, s.Attrs...)
	out = append(out, TQKV{"service.name", s.Service}, TQKV{"remoteService.name", ""}, TQKV{"name", s.Name})
	return out
}

func (s *TQSpan) attr(key string) (string, bool) {
	for _, kv := range s.AllAttrs() {
		if kv.K == key {
			return kv.V, true
		}
	}
	return "", false
}

// ErrTQUnsupported marks queries outside the supported language (qryn answers them with an
// error instead of SQL): ordering operators on strings, regex on numbers, unknown
// intrinsics, `d` unit, unit on a non-duration aggregate, ...
var ErrTQUnsupported = errors.New("traceql: outside the supported language")

func tqUnsup(format string, a ...any) error {
	return fmt.Errorf("%w: %s", ErrTQUnsupported, fmt.Sprintf(format, a...))
}

var tqNumRe = regexp.MustCompile(`^-?[0-9]+(\.[0-9]+)?$`)

// TQNumericAttr says whether a stored attribute value counts as a number, and its value.
// Only the unambiguous shapes the writer produces for int and double attributes (%d, %f)
// are numbers; generators do not produce borderline spellings ("1e3", " 1", "inf", "+1").
func TQNumericAttr(v string) (float64, bool) {
	if !tqNumRe.MatchString(v) {
		return 0, false
	}
	f, err := strconv.ParseFloat(v, 64)
	return f, err == nil
}

var tqUnitNs = map[string]int64{"ns": 1, "us": 1e3, "ms": 1e6, "s": 1e9, "m": 60e9, "h": 3600e9}

// TQDurationNs converts `num unit` to nanoseconds (truncating), for the units Go's
// time.ParseDuration knows; `d` is accepted by the grammar but not by the planner.
func TQDurationNs(num, unit string) (int64, error) {
	u, ok := tqUnitNs[unit]
	if !ok {
		return 0, tqUnsup("time unit %q", unit)
	}
	neg := strings.HasPrefix(num, "-")
	num = strings.TrimPrefix(num, "-")
	ip, fp, _ := strings.Cut(num, ".")
	if ip == "" || len(ip) > 9 || len(fp) > 9 {
		return 0, tqUnsup("duration literal %q", num)
	}
	iv, err := strconv.ParseInt(ip, 10, 64)
	if err != nil {
		return 0, tqUnsup("duration literal %q", num)
	}
	res := iv * u
	if fp != "" {
		fv, err := strconv.ParseInt(fp, 10, 64)
		if err != nil {
			return 0, tqUnsup("duration literal %q", num)
		}
		scale := int64(1)
		for range fp {
			scale *= 10
		}
		// time.ParseDuration: v*unit + int64(float64(f) * (float64(unit) / scale))
		res += int64(float64(fv) * (float64(u) / float64(scale)))
	}
	if neg {
		res = -res
	}
	return res, nil
}

func tqCmp(a float64, op string, b float64) (bool, error) {
	switch op {
	case "=":
		return a == b, nil
	case "!=":
		return a != b, nil
	case "<":
		return a < b, nil
	case "<=":
		return a <= b, nil
	case ">":
		return a > b, nil
	case ">=":
		return a >= b, nil
	}
	return false, tqUnsup("operator %s on a number", op)
}

// TQKeyOfLabel maps a query label to the stored attribute key ("" + false for duration).
func TQKeyOfLabel(label string) (key string, isDuration bool, err error) {
	switch {
	case strings.HasPrefix(label, "span."):
		return label[5:], false, nil
	case strings.HasPrefix(label, "resource."):
		return label[9:], false, nil
	case strings.HasPrefix(label, "."):
		return label[1:], false, nil
	case label == "duration":
		return "", true, nil
	case label == "name":
		return "name", false, nil
	}
	return "", false, tqUnsup("intrinsic %q", label)
}

func tqEvalTerm(t *TQTerm, s *TQSpan) (bool, error) {
	key, isDur, err := TQKeyOfLabel(t.Label)
	if err != nil {
		return false, err
	}
	if isDur {
		if t.Val.Kind != "dur" {
			return false, tqUnsup("duration compared with a non-duration literal")
		}
		ns, err := TQDurationNs(t.Val.Num, t.Val.Unit)
		if err != nil {
			return false, err
		}
		return tqCmp(float64(s.Dur), t.Op, float64(ns))
	}
	val, present := s.attr(key)
	switch t.Val.Kind {
	case "str":
		switch t.Op {
		case "=":
			return present && val == t.Val.Str, nil
		case "!=":
			return present && val != t.Val.Str, nil
		case "=~", "!~":
			re, err := regexp.Compile(t.Val.Str)
			if err != nil {
				return false, tqUnsup("regex %q: %v", t.Val.Str, err)
			}
			m := re.MatchString(val)
			if t.Op == "!~" {
				m = !m
			}
			return present && m, nil
		}
		return false, tqUnsup("operator %s on a string", t.Op)
	case "num":
		want, err := strconv.ParseFloat(t.Val.Num, 64)
		if err != nil {
			return false, tqUnsup("number %q", t.Val.Num)
		}
		if t.Op == "=~" || t.Op == "!~" {
			return false, tqUnsup("regex on a number")
		}
		f, isNum := TQNumericAttr(val)
		if !present || !isNum {
			// still validate the operator
			_, err := tqCmp(0, t.Op, 0)
			return false, err
		}
		return tqCmp(f, t.Op, want)
	}
	return false, tqUnsup("attribute compared with a duration literal")
}

// TQReading selects how an unparenthesised chain mixing && and || is grouped.
type TQReading int

const (
	// TQReadStd: && binds tighter than || (TraceQL / Tempo).
	TQReadStd TQReading = iota
	// TQReadRight: equal precedence, right associative (what qryn's grammar produces).
	TQReadRight
	// TQReadLeft: equal precedence, left associative.
	TQReadLeft
)

// tri-state truth for traces (aggregates over nothing are "don't care").
type TQTri int

const (
	TQNo TQTri = iota
	TQYes
	TQDontCare
)

func tqTriAnd(a, b TQTri) TQTri {
	if a == TQNo || b == TQNo {
		return TQNo
	}
	if a == TQYes && b == TQYes {
		return TQYes
	}
	return TQDontCare
}

func tqTriOr(a, b TQTri) TQTri {
	if a == TQYes || b == TQYes {
		return TQYes
	}
	if a == TQNo && b == TQNo {
		return TQNo
	}
	return TQDontCare
}

// tqFold groups vals joined by ops according to the reading.
func tqFold[T any](vals []T, ops []string, r TQReading, and, or func(a, b T) T) T {
	apply := func(a T, op string, b T) T {
		if op == "&&" {
			return and(a, b)
		}
		return or(a, b)
	}
	switch r {
	case TQReadRight:
		acc := vals[len(vals)-1]
		for i := len(vals) - 2; i >= 0; i-- {
			acc = apply(vals[i], ops[i], acc)
		}
		return acc
	case TQReadLeft:
		acc := vals[0]
		for i := 1; i < len(vals); i++ {
			acc = apply(acc, ops[i-1], vals[i])
		}
		return acc
	}
	// standard precedence: fold runs of && first, then ||
	var groups []T
	cur := vals[0]
	for i := 1; i < len(vals); i++ {
		if ops[i-1] == "&&" {
			cur = and(cur, vals[i])
		} else {
			groups = append(groups, cur)
			cur = vals[i]
		}
	}
	groups = append(groups, cur)
	acc := groups[0]
	for _, g := range groups[1:] {
		acc = or(acc, g)
	}
	return acc
}

func tqEvalExpr(e *TQExpr, s *TQSpan, r TQReading) (bool, error) {
	vals := make([]bool, len(e.Heads))
	for i, h := range e.Heads {
		var err error
		switch {
		case h.Term != nil:
			vals[i], err = tqEvalTerm(h.Term, s)
		case h.Paren != nil:
			vals[i], err = tqEvalExpr(h.Paren, s, r)
		default:
			err = fmt.Errorf("empty head")
		}
		if err != nil {
			return false, err
		}
	}
	return tqFold(vals, e.Ops, r, func(a, b bool) bool { return a && b }, func(a, b bool) bool { return a || b }), nil
}

// tqSelResult is the outcome of one selector (or of the whole script) on one trace.
type tqSelResult struct {
	State TQTri
	Spans map[string]bool // matching spans (ids)
	// Exact: the span set is determined (false below a && of selectors or a don't-care aggregate).
	Exact bool
	// Sure: spans that are certainly shown (those of operands that certainly pass).
	Sure map[string]bool
}

// tqAggRelTol: an aggregate closer than this (relative) to the comparison value is don't-care
// (summation order of floats is not part of the property).
// TQSpanCap is the number of spans qryn shows per trace at most (groupArray(100)(span_id) in
// index_groupby.go / complex_or.go); counts and aggregates are computed over all matching spans.
const TQSpanCap = 100

const tqAggRelTol = 1e-9

func tqEvalAgg(a *TQAgg, spans []*TQSpan) (TQTri, error) {
	if a == nil {
		return TQYes, nil
	}
	var vals []float64
	var want float64
	switch {
	case a.Fn == "count":
		if a.Attr != "" {
			return TQNo, tqUnsup("count with an argument")
		}
		if a.Unit != "" {
			return TQNo, tqUnsup("count compared with a duration")
		}
		f, err := strconv.ParseFloat(a.Num, 64)
		if err != nil {
			return TQNo, tqUnsup("number %q", a.Num)
		}
		ok, err := tqCmp(float64(len(spans)), a.Cmp, f)
		if err != nil {
			return TQNo, err
		}
		if ok {
			return TQYes, nil
		}
		return TQNo, nil
	case a.Attr == "duration":
		if a.Unit == "" {
			return TQNo, tqUnsup("duration aggregate compared with a plain number")
		}
		ns, err := TQDurationNs(a.Num, a.Unit)
		if err != nil {
			return TQNo, err
		}
		want = float64(ns)
		for _, s := range spans {
			vals = append(vals, float64(s.Dur))
		}
	default:
		key, isDur, err := TQKeyOfLabel(a.Attr)
		if err != nil || isDur || a.Attr == "name" {
			return TQNo, tqUnsup("aggregate over %q", a.Attr)
		}
		if a.Unit != "" {
			return TQNo, tqUnsup("attribute aggregate compared with a duration")
		}
		want, err = strconv.ParseFloat(a.Num, 64)
		if err != nil {
			return TQNo, tqUnsup("number %q", a.Num)
		}
		for _, s := range spans {
			if v, ok := s.attr(key); ok {
				if f, isNum := TQNumericAttr(v); isNum {
					vals = append(vals, f)
				}
			}
		}
	}
	if _, err := tqCmp(0, a.Cmp, 0); err != nil {
		return TQNo, err
	}
	if len(vals) == 0 {
		// aggregate over nothing: NULL / NaN / 0 depending on the function — not stated
		return TQDontCare, nil
	}
	var agg float64
	switch a.Fn {
	case "sum", "avg":
		for _, v := range vals {
			agg += v
		}
		if a.Fn == "avg" {
			agg /= float64(len(vals))
		}
	case "min":
		agg = vals[0]
		for _, v := range vals {
			agg = math.Min(agg, v)
		}
	case "max":
		agg = vals[0]
		for _, v := range vals {
			agg = math.Max(agg, v)
		}
	default:
		return TQNo, tqUnsup("aggregator %q", a.Fn)
	}
	if d := math.Abs(agg - want); d != 0 && d <= tqAggRelTol*math.Max(1, math.Abs(want)) {
		return TQDontCare, nil
	}
	ok, err := tqCmp(agg, a.Cmp, want)
	if err != nil {
		return TQNo, err
	}
	if ok {
		return TQYes, nil
	}
	return TQNo, nil
}

// tqEvalSelector evaluates one selector on one trace (only spans inside the window).
func tqEvalSelector(sel *TQSelector, tr *TQTrace, from, to int64, r TQReading) (tqSelResult, error) {
	res := tqSelResult{Spans: map[string]bool{}, Exact: true}
	var matched []*TQSpan
	for i := range tr.Spans {
		s := &tr.Spans[i]
		ok := true
		if sel.Expr != nil {
			var err error
			// evaluate on every span (also outside the window) so that an unsupported query is
			// reported independently of the data
			ok, err = tqEvalExpr(sel.Expr, s, r)
			if err != nil {
				return res, err
			}
		}
		if s.TS < from || s.TS >= to {
			continue
		}
		if ok {
			matched = append(matched, s)
			res.Spans[s.ID] = true
		}
	}
	if sel.Expr == nil && sel.Agg != nil {
		return res, tqUnsup("aggregate over the empty selector")
	}
	st, err := tqEvalAgg(sel.Agg, matched)
	if err != nil {
		return res, err
	}
	if len(matched) == 0 {
		res.State = TQNo
		return res, nil
	}
	res.State = st
	if st == TQDontCare {
		res.Exact = false
	} else if st == TQYes {
		res.Sure = res.Spans
	}
	return res, nil
}

// TQTraceResult is the reference's verdict on one trace.
type TQTraceResult struct {
	ID    string
	State TQTri
	// Spans: ids of the spans the result must show for this trace (when Exact), or the
	// superset it may show (when !Exact).
	Spans []string
	Exact bool
	// Must: the spans the result has to show in any case: those matched by operands that
	// certainly pass (a `||` shows every span matched by any passing operand; only the spans
	// of an operand whose aggregate is don't-care, and what a `&&` shows, are undetermined).
	Must []string
	// Recent is the latest timestamp among Spans (recency key of the trace); RecentLo the
	// latest among the spans that are certainly shown. They differ when an operand of `||`
	// is don't-care: the recency key is then only known to lie in [RecentLo, Recent].
	Recent   int64
	RecentLo int64
}

// EvalTraceQL evaluates the script over the database under one reading of tqMixed chains.
func EvalTraceQL(q *TQScript, db *TQDB, from, to int64, r TQReading) ([]TQTraceResult, error) {
	if len(q.Sels) == 0 || len(q.Ops) != len(q.Sels)-1 {
		return nil, fmt.Errorf("malformed script")
	}
	if len(q.Sels) > 1 {
		for i := range q.Sels {
			if q.Sels[i].Expr == nil {
				return nil, tqUnsup("empty selector inside a chain")
			}
		}
	}
	var out []TQTraceResult
	for ti := range db.Traces {
		tr := &db.Traces[ti]
		vals := make([]tqSelResult, len(q.Sels))
		for i := range q.Sels {
			v, err := tqEvalSelector(&q.Sels[i], tr, from, to, r)
			if err != nil {
				return nil, err
			}
			if v.State == TQNo {
				v.Spans = map[string]bool{}
			}
			vals[i] = v
		}
		union := func(a, b map[string]bool) map[string]bool {
			m := map[string]bool{}
			for k := range a {
				m[k] = true
			}
			for k := range b {
				m[k] = true
			}
			return m
		}
		and := func(a, b tqSelResult) tqSelResult {
			st := tqTriAnd(a.State, b.State)
			if st == TQNo {
				return tqSelResult{State: TQNo, Spans: map[string]bool{}, Exact: true}
			}
			// which spans a && shows (both sides' spans, or only common ones) is not stated
			return tqSelResult{State: st, Spans: union(a.Spans, b.Spans), Exact: false}
		}
		or := func(a, b tqSelResult) tqSelResult {
			st := tqTriOr(a.State, b.State)
			if st == TQNo {
				return tqSelResult{State: TQNo, Spans: map[string]bool{}, Exact: true}
			}
			return tqSelResult{State: st, Spans: union(a.Spans, b.Spans), Sure: union(a.Sure, b.Sure), Exact: a.Exact && b.Exact && a.State != TQDontCare && b.State != TQDontCare}
		}
		res := tqFold(vals, q.Ops, r, and, or)
		t := TQTraceResult{ID: tr.ID, State: res.State, Exact: res.Exact && res.State == TQYes}
		for id := range res.Spans {
			t.Spans = append(t.Spans, id)
		}
		sort.Strings(t.Spans)
		for id := range res.Sure {
			t.Must = append(t.Must, id)
		}
		sort.Strings(t.Must)
		t.Recent, t.RecentLo = math.MinInt64, math.MinInt64
		for i := range tr.Spans {
			if res.Spans[tr.Spans[i].ID] && tr.Spans[i].TS > t.Recent {
				t.Recent = tr.Spans[i].TS
			}
			if res.Sure[tr.Spans[i].ID] && tr.Spans[i].TS > t.RecentLo {
				t.RecentLo = tr.Spans[i].TS
			}
		}
		out = append(out, t)
	}
	return out, nil
}

// TQCheckSearchResult compares what the SQL returned (trace id -> span ids) with the
// reference verdicts under `limit`. It returns "" when the result is acceptable, else a
// description. skipRecency relaxes "most recent first" to "any `limit` of the selected
// traces" (used where the ordering key is not determined, e.g. the empty selector).
func TQCheckSearchResult(ref []TQTraceResult, limit int, got map[string][]string, skipRecency bool) string {
	byID := map[string]*TQTraceResult{}
	var yes, dc []*TQTraceResult
	for i := range ref {
		t := &ref[i]
		byID[t.ID] = t
		switch t.State {
		case TQYes:
			yes = append(yes, t)
		case TQDontCare:
			dc = append(dc, t)
		}
	}
	// membership and span sets
	for id, spans := range got {
		t := byID[id]
		if t == nil {
			return fmt.Sprintf("result contains unknown trace %s", id)
		}
		if t.State == TQNo {
			return fmt.Sprintf("trace %s is returned but does not satisfy the query", id)
		}
		gs := append([]string(nil), spans...)
		sort.Strings(gs)
		for i := 1; i < len(gs); i++ {
			if gs[i] == gs[i-1] {
				return fmt.Sprintf("trace %s: span %s returned twice", id, gs[i])
			}
		}
		allowed := map[string]bool{}
		for _, s := range t.Spans {
			allowed[s] = true
		}
		for _, s := range gs {
			if !allowed[s] {
				return fmt.Sprintf("trace %s: span %s returned but it does not match (matching spans: %v)", id, s, t.Spans)
			}
		}
		if len(gs) == 0 {
			return fmt.Sprintf("trace %s returned without spans", id)
		}
		have := map[string]bool{}
		for _, s := range gs {
			have[s] = true
		}
		if len(t.Spans) > TQSpanCap {
			// qryn shows at most 100 spans of a trace (groupArray(100) in every stage): which
			// 100 of the matching spans is not determined, their number is
			if len(gs) != TQSpanCap {
				return fmt.Sprintf("trace %s: %d spans returned, %d match (a trace shows %d spans at most)", id, len(gs), len(t.Spans), TQSpanCap)
			}
			continue
		}
		for _, s := range t.Must {
			if !have[s] {
				return fmt.Sprintf("trace %s: span %s matches a selector that selects the trace but is not returned (returned %v, matching spans %v)", id, s, gs, t.Spans)
			}
		}
		if t.Exact && len(gs) != len(t.Spans) {
			return fmt.Sprintf("trace %s: spans %v returned, matching spans are %v", id, gs, t.Spans)
		}
	}
	if limit > 0 && len(got) > limit {
		return fmt.Sprintf("%d traces returned, limit is %d", len(got), limit)
	}
	if limit <= 0 || len(yes)+len(dc) <= limit {
		for _, t := range yes {
			if _, ok := got[t.ID]; !ok {
				return fmt.Sprintf("trace %s satisfies the query (spans %v) but is not returned", t.ID, t.Spans)
			}
		}
		return ""
	}
	// the limit binds
	if len(dc) > 0 {
		// which don't-care traces take slots is open: only require a full page when enough certain traces exist
		if len(yes) >= limit && len(got) < limit {
			return fmt.Sprintf("%d traces returned, %d satisfy the query and the limit is %d", len(got), len(yes), limit)
		}
		return ""
	}
	if len(got) != limit {
		return fmt.Sprintf("%d traces returned, %d satisfy the query and the limit is %d", len(got), len(yes), limit)
	}
	for _, t := range yes {
		if t.RecentLo != t.Recent {
			skipRecency = true // some recency key is not determined
		}
	}
	if skipRecency {
		return ""
	}
	sort.Slice(yes, func(i, j int) bool { return yes[i].Recent > yes[j].Recent })
	cut := yes[limit-1].Recent
	for _, t := range yes {
		_, in := got[t.ID]
		if t.Recent > cut && !in {
			return fmt.Sprintf("limit %d: trace %s (latest matching span at %d) is more recent than the cut (%d) but is not returned", limit, t.ID, t.Recent, cut)
		}
		if t.Recent < cut && in {
			return fmt.Sprintf("limit %d: trace %s (latest matching span at %d) is returned although %d more recent traces match", limit, t.ID, t.Recent, limit)
		}
	}
	return ""
}

// TQEvalExprWith evaluates the boolean structure of e under the reading with the given
// truth value of each term (used to delimit regions of the query space).
func TQEvalExprWith(e *TQExpr, r TQReading, term func(*TQTerm) bool) bool {
	vals := make([]bool, len(e.Heads))
	for i, h := range e.Heads {
		if h.Term != nil {
			vals[i] = term(h.Term)
		} else if h.Paren != nil {
			vals[i] = TQEvalExprWith(h.Paren, r, term)
		}
	}
	return tqFold(vals, e.Ops, r, func(a, b bool) bool { return a && b }, func(a, b bool) bool { return a || b })
}

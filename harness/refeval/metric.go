package refeval

import (
	"math"
	"sort"
	"strconv"
)

// Sample is one point of a metric series.
type Sample struct {
	TsNs  int64   `json:"ts"`
	Value float64 `json:"v"`
}

// MetricSeries is one output series of a metric query.
type MetricSeries struct {
	Labels  map[string]string `json:"labels"`
	Samples []Sample          `json:"samples"`
}

// MetricParams are the request parameters of a range query.
type MetricParams struct {
	FromNs, ToNs, StepNs int64
}

// Window is the time window qryn scans for a metric query: the requested window widened to
// whole range-duration buckets of the epoch-aligned grid, [floor(from), floor(to)+range).
// (Documented bucket widening. The pinned qryn computed the floor with time.Truncate, which
// counts from year 1 and coincides with the epoch-based floor only when the duration divides
// 24 h; fixed on branch fix/c09, finding C09-range-grid-year-one.)
func Window(p MetricParams, rangeNs int64, fl *Flags) (int64, int64) {
	if rangeNs <= 0 {
		return p.FromNs, p.ToNs
	}
	return p.FromNs / rangeNs * rangeNs, p.ToNs/rangeNs*rangeNs + rangeNs
}

func applyGrouping(labels map[string]string, g *Grouping) map[string]string {
	out := map[string]string{}
	in := map[string]bool{}
	for _, l := range g.Labels {
		in[l] = true
	}
	for k, v := range labels {
		if in[k] != g.Without {
			out[k] = v
		}
	}
	return out
}

func cmpFloat(op string, a, b float64) bool {
	switch op {
	case "==":
		return a == b
	case "!=":
		return a != b
	case ">":
		return a > b
	case ">=":
		return a >= b
	case "<":
		return a < b
	case "<=":
		return a <= b
	}
	return false
}

type bucketKey struct {
	series string
	ts     int64
}

type acc struct {
	labels map[string]string
	vals   map[int64][]float64 // bucket start -> values in time order
}

// IsUnwrapFn says whether a range function works on unwrapped values.
func IsUnwrapFn(fn string) bool {
	switch fn {
	case "sum_over_time", "avg_over_time", "min_over_time", "max_over_time", "first_over_time",
		"last_over_time", "stddev_over_time", "stdvar_over_time", "quantile_over_time":
		return true
	}
	return false
}

// RangeBuckets evaluates the range aggregation of e over rows that already went through the
// pipeline: tumbling windows [k*range, (k+1)*range) aligned on the Unix epoch (qryn's
// bucketing convention for both engines: intDiv(timestamp, range) * range), one sample per
// non-empty window stamped with the window start.
func RangeBuckets(e *Expr, rows []Row, fl *Flags) []MetricSeries {
	rng := e.RangeNs()
	if rng <= 0 {
		fl.unsupported("range duration")
		return nil
	}
	fl.deviation("tumbling-windows")
	unwrapped := len(e.Stages) > 0 && e.Stages[len(e.Stages)-1].Kind == KUnwrap
	if IsUnwrapFn(e.RangeFn) && !unwrapped {
		fl.unsupported(e.RangeFn + " without unwrap")
		return nil
	}
	if unwrapped {
		fl.deviation("unwrap-keeps-unwrapped-label")
	}
	rs := append([]Row(nil), rows...)
	sort.SliceStable(rs, func(i, j int) bool { return rs[i].TsNs < rs[j].TsNs })
	accs := map[string]*acc{}
	var order []string
	tie := map[bucketKey]int64{}
	for _, r := range rs {
		if r.Err != "" {
			// Loki fails a metric query that meets an entry with __error__
			fl.dontCare("error-entry-in-metric-query")
		}
		lbl := r.Labels
		if unwrapped && e.RangeGroup != nil {
			lbl = applyGrouping(lbl, e.RangeGroup)
		}
		k := LabelsKey(lbl)
		a := accs[k]
		if a == nil {
			a = &acc{labels: cloneLabels(lbl), vals: map[int64][]float64{}}
			accs[k] = a
			order = append(order, k)
		}
		b := r.TsNs / rng * rng
		if r.TsNs < 0 && r.TsNs%rng != 0 {
			b -= rng
		}
		var v float64
		switch {
		case unwrapped:
			v = r.Value
		case e.RangeFn == "bytes_rate" || e.RangeFn == "bytes_over_time":
			v = float64(len(r.Line))
		default:
			v = 1
		}
		if e.RangeFn == "first_over_time" || e.RangeFn == "last_over_time" {
			bk := bucketKey{k, b}
			if t, ok := tie[bk]; ok && t == r.TsNs {
				fl.dontCare("first-last-timestamp-tie")
			}
			tie[bk] = r.TsNs
		}
		a.vals[b] = append(a.vals[b], v)
	}
	secs := float64(rng) / 1e9
	var out []MetricSeries
	for _, k := range order {
		a := accs[k]
		ms := MetricSeries{Labels: a.labels}
		var bs []int64
		for b := range a.vals {
			bs = append(bs, b)
		}
		sort.Slice(bs, func(i, j int) bool { return bs[i] < bs[j] })
		for _, b := range bs {
			vs := a.vals[b]
			var sum float64
			for _, v := range vs {
				sum += v
			}
			n := float64(len(vs))
			var val float64
			switch e.RangeFn {
			case "rate", "bytes_rate":
				val = sum / secs
			case "count_over_time":
				if unwrapped {
					val = n
				} else {
					val = sum
				}
			case "bytes_over_time", "sum_over_time":
				val = sum
			case "avg_over_time":
				val = sum / n
			case "min_over_time":
				val = vs[0]
				for _, v := range vs {
					val = math.Min(val, v)
				}
			case "max_over_time":
				val = vs[0]
				for _, v := range vs {
					val = math.Max(val, v)
				}
			case "first_over_time":
				val = vs[0]
			case "last_over_time":
				val = vs[len(vs)-1]
			case "stdvar_over_time", "stddev_over_time":
				mean := sum / n
				var s2 float64
				for _, v := range vs {
					s2 += (v - mean) * (v - mean)
				}
				val = s2 / n
				if e.RangeFn == "stddev_over_time" {
					val = math.Sqrt(val)
				}
			case "quantile_over_time":
				q, err := strconv.ParseFloat(e.Quantile, 64)
				if err != nil {
					fl.unsupported("quantile parameter")
					return nil
				}
				fl.dontCare("quantile-interpolation")
				sv := append([]float64(nil), vs...)
				sort.Float64s(sv)
				pos := q * (n - 1)
				lo := math.Floor(pos)
				hi := math.Ceil(pos)
				if lo < 0 {
					lo, hi = 0, 0
				}
				if hi > n-1 {
					lo, hi = n-1, n-1
				}
				val = sv[int(lo)] + (sv[int(hi)]-sv[int(lo)])*(pos-lo)
			default:
				fl.unsupported("range function " + e.RangeFn)
				return nil
			}
			if e.RangeCmp != nil {
				lim, err := strconv.ParseFloat(e.RangeCmp.Val, 64)
				if err != nil {
					fl.unsupported("comparison literal")
					return nil
				}
				if !cmpFloat(e.RangeCmp.Op, val, lim) {
					continue
				}
			}
			ms.Samples = append(ms.Samples, Sample{b, val})
		}
		if len(ms.Samples) > 0 {
			out = append(out, ms)
		}
	}
	return out
}

// VectorAgg applies e's vector aggregation (if any) to the range-aggregation output, per
// timestamp. Without a by/without clause qryn (both engines) aggregates each series on its
// own, i.e. keeps the series apart; Loki would merge everything into one series.
func VectorAgg(e *Expr, in []MetricSeries, fl *Flags) []MetricSeries {
	if e.AggFn == "" {
		return in
	}
	type g struct {
		labels map[string]string
		vals   map[int64][]float64
	}
	gs := map[string]*g{}
	var order []string
	if e.AggGroup == nil && len(in) > 1 {
		fl.deviation("vector-aggregation-without-grouping-keeps-series")
	}
	for _, s := range in {
		lbl := s.Labels
		if e.AggGroup != nil {
			lbl = applyGrouping(lbl, e.AggGroup)
		}
		k := LabelsKey(lbl)
		x := gs[k]
		if x == nil {
			x = &g{labels: cloneLabels(lbl), vals: map[int64][]float64{}}
			gs[k] = x
			order = append(order, k)
		}
		for _, sm := range s.Samples {
			x.vals[sm.TsNs] = append(x.vals[sm.TsNs], sm.Value)
		}
	}
	var out []MetricSeries
	for _, k := range order {
		x := gs[k]
		ms := MetricSeries{Labels: x.labels}
		var ts []int64
		for t := range x.vals {
			ts = append(ts, t)
		}
		sort.Slice(ts, func(i, j int) bool { return ts[i] < ts[j] })
		for _, t := range ts {
			vs := x.vals[t]
			var sum float64
			for _, v := range vs {
				sum += v
			}
			n := float64(len(vs))
			var val float64
			switch e.AggFn {
			case "sum":
				val = sum
			case "avg":
				val = sum / n
			case "count":
				val = n
			case "min":
				val = vs[0]
				for _, v := range vs {
					val = math.Min(val, v)
				}
			case "max":
				val = vs[0]
				for _, v := range vs {
					val = math.Max(val, v)
				}
			case "stdvar", "stddev":
				mean := sum / n
				var s2 float64
				for _, v := range vs {
					s2 += (v - mean) * (v - mean)
				}
				val = s2 / n
				if e.AggFn == "stddev" {
					val = math.Sqrt(val)
				}
			default:
				fl.unsupported("vector aggregation " + e.AggFn)
				return nil
			}
			if e.AggCmp != nil {
				lim, err := strconv.ParseFloat(e.AggCmp.Val, 64)
				if err != nil {
					fl.unsupported("comparison literal")
					return nil
				}
				if !cmpFloat(e.AggCmp.Op, val, lim) {
					continue
				}
			}
			ms.Samples = append(ms.Samples, Sample{t, val})
		}
		if len(ms.Samples) > 0 {
			out = append(out, ms)
		}
	}
	return out
}

// TopK keeps, per timestamp, the k series with the largest (topk) or smallest (bottomk)
// values. Ties at the cut are flagged don't-care.
func TopK(e *Expr, in []MetricSeries, fl *Flags) []MetricSeries {
	if e.TopFn == "" {
		return in
	}
	type pt struct {
		si int
		v  float64
	}
	at := map[int64][]pt{}
	for si, s := range in {
		for _, sm := range s.Samples {
			at[sm.TsNs] = append(at[sm.TsNs], pt{si, sm.Value})
		}
	}
	keep := make([]map[int64]bool, len(in))
	for i := range keep {
		keep[i] = map[int64]bool{}
	}
	for t, ps := range at {
		sort.SliceStable(ps, func(i, j int) bool {
			if e.TopFn == "topk" {
				return ps[i].v > ps[j].v
			}
			return ps[i].v < ps[j].v
		})
		k := e.TopK
		if k < len(ps) && k > 0 && ps[k-1].v == ps[k].v {
			fl.dontCare("topk-tie-at-cut")
		}
		for i := 0; i < k && i < len(ps); i++ {
			keep[ps[i].si][t] = true
		}
	}
	var out []MetricSeries
	for si, s := range in {
		ms := MetricSeries{Labels: s.Labels}
		for _, sm := range s.Samples {
			if !keep[si][sm.TsNs] {
				continue
			}
			if e.TopCmp != nil {
				lim, _ := strconv.ParseFloat(e.TopCmp.Val, 64)
				if !cmpFloat(e.TopCmp.Op, sm.Value, lim) {
					continue
				}
			}
			ms.Samples = append(ms.Samples, sm)
		}
		if len(ms.Samples) > 0 {
			out = append(out, ms)
		}
	}
	return out
}

// StepPostProcess models what qryn does to bucket samples before answering (common to both
// engines: zero values are dropped, then every bucket value is spread over the step grid
// from + i*step for the grid points lying in [bucket, bucket+range], a later bucket
// overwriting an earlier one on a shared grid point; grid points that stay 0 are not
// reported).
func StepPostProcess(in []MetricSeries, p MetricParams, rangeNs int64, fl *Flags) []MetricSeries {
	if p.StepNs <= 0 || rangeNs <= 0 {
		fl.unsupported("step")
		return nil
	}
	if p.StepNs > rangeNs {
		// the SQL engine first re-buckets to the step taking the earliest bucket, the
		// in-process engine does not: not settled
		fl.dontCare("step-larger-than-range")
	}
	n := (p.ToNs-p.FromNs)/p.StepNs + 1
	if n <= 0 || n > 1<<22 {
		fl.unsupported("grid size")
		return nil
	}
	var out []MetricSeries
	for _, s := range in {
		vals := make([]float64, n)
		for _, sm := range s.Samples {
			if sm.Value == 0 {
				continue
			}
			b := sm.TsNs / rangeNs * rangeNs
			iFrom := (b - p.FromNs) / p.StepNs
			iTo := (b + rangeNs - p.FromNs) / p.StepNs
			if iTo < 0 || iFrom >= n {
				continue
			}
			if iFrom < 0 {
				iFrom = 0
			}
			if iTo >= n {
				iTo = n - 1
			}
			for i := iFrom; i <= iTo; i++ {
				vals[i] = sm.Value
			}
		}
		ms := MetricSeries{Labels: s.Labels}
		for i, v := range vals {
			if v != 0 {
				ms.Samples = append(ms.Samples, Sample{p.FromNs + int64(i)*p.StepNs, v})
			}
		}
		if len(ms.Samples) > 0 {
			out = append(out, ms)
		}
	}
	return out
}

// LogResult is the answer to a log query.
type LogResult struct {
	Rows    []Row    // surviving entries in result order (by timestamp, direction), limit applied
	AllRows []Row    // the same before the limit
	Streams []Series // Rows grouped by label set
	Flags   Flags
}

// EvalLog evaluates a log query over data for the window [fromNs, toNs).
func EvalLog(e *Expr, data []Series, fromNs, toNs int64, forward bool, limit int64) (LogResult, error) {
	var res LogResult
	rows, err := Select(data, e.Matchers, fromNs, toNs, &res.Flags)
	if err != nil {
		return res, err
	}
	SortRows(rows, forward)
	rows, err = RunStages(e.Stages, rows, &res.Flags)
	if err != nil {
		return res, err
	}
	res.AllRows = rows
	res.Rows = ApplyLimit(rows, limit)
	if limit > 0 && int64(len(rows)) > limit && rows[limit-1].TsNs == rows[limit].TsNs {
		res.Flags.dontCare("limit-cuts-through-equal-timestamps")
	}
	res.Streams = GroupStreams(res.Rows)
	return res, nil
}

// MetricResult is the answer to a metric query.
type MetricResult struct {
	Buckets []MetricSeries // after range/vector aggregation, comparison, topk: one sample per bucket
	Series  []MetricSeries // after qryn's step post-processing
	Flags   Flags
}

// EvalMetric evaluates a metric query the way qryn defines it (see RangeBuckets,
// StepPostProcess).
func EvalMetric(e *Expr, data []Series, p MetricParams) (MetricResult, error) {
	var res MetricResult
	from, to := Window(p, e.RangeNs(), &res.Flags)
	rows, err := Select(data, e.Matchers, from, to, &res.Flags)
	if err != nil {
		return res, err
	}
	rows, err = RunStages(e.Stages, rows, &res.Flags)
	if err != nil {
		return res, err
	}
	res.Buckets = MetricFromRows(e, rows, &res.Flags)
	res.Series = StepPostProcess(res.Buckets, p, e.RangeNs(), &res.Flags)
	return res, nil
}

// MetricFromRows runs range aggregation, vector aggregation and k-selection over rows that
// already went through the pipeline.
func MetricFromRows(e *Expr, rows []Row, fl *Flags) []MetricSeries {
	b := RangeBuckets(e, rows, fl)
	b = VectorAgg(e, b, fl)
	return TopK(e, b, fl)
}

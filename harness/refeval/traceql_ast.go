package refeval

// TraceQL abstract syntax kept by the harness (not qryn's parser model) and its printer.
//
// The grammar mirrors what qryn's participle grammar accepts
// (/repo/reader/traceql/parser/model_v2.go): a script is a chain of selectors joined by
// && / ||; a selector is `{ expr? } [ | fn(attr?) cmp num unit? ]`; an expression is a flat
// chain `head op head op ...` where a head is a term `label op value` or a parenthesised
// expression. Everything is plain data (JSON-serialisable) so cases shrink and replay.

import (
	"strconv"
	"strings"
)

// TQValue is a literal on the right-hand side of a term.
type TQValue struct {
	// Kind: "str" (quoted string), "num" (number), "dur" (number with a time unit).
	Kind string `json:"kind"`
	// Str is the decoded string of Kind "str".
	Str string `json:"str,omitempty"`
	// Tick prints Kind "str" between back-ticks instead of double quotes.
	Tick bool `json:"tick,omitempty"`
	// Num is the literal text of Kind "num"/"dur" without the unit: -?digits[.digits]
	Num string `json:"num,omitempty"`
	// Unit of Kind "dur": ns us ms s m h d
	Unit string `json:"unit,omitempty"`
}

// TQTerm is `label op value`.
type TQTerm struct {
	Label string  `json:"label"`
	Op    string  `json:"op"`
	Val   TQValue `json:"val"`
}

// TQExpr is a flat chain of heads joined by Ops (len(Ops) == len(Heads)-1).
type TQExpr struct {
	Heads []TQHead `json:"heads"`
	Ops   []string `json:"ops,omitempty"`
}

// TQHead is either a term or a parenthesised sub-expression.
type TQHead struct {
	Term  *TQTerm `json:"term,omitempty"`
	Paren *TQExpr `json:"paren,omitempty"`
}

// TQAgg is `| fn(attr) cmp num unit`.
type TQAgg struct {
	Fn   string `json:"fn"`
	Attr string `json:"attr,omitempty"`
	Cmp  string `json:"cmp"`
	Num  string `json:"num"`
	Unit string `json:"unit,omitempty"`
}

// TQSelector is `{ expr? } agg?`.
type TQSelector struct {
	Expr *TQExpr `json:"expr,omitempty"`
	Agg  *TQAgg  `json:"agg,omitempty"`
}

// TQScript is a chain of selectors joined by Ops ("&&" / "||").
type TQScript struct {
	Sels []TQSelector `json:"sels"`
	Ops  []string     `json:"ops,omitempty"`
}

// TQQuoteDouble renders s as a TraceQL double-quoted string. qryn decodes such a token with
// json.Unmarshal (QuotedString.Unquote), so the escapes are JSON's.
func TQQuoteDouble(s string) string {
	var b strings.Builder
	b.WriteByte('"')
	for _, r := range s {
		switch {
		case r == '"':
			b.WriteString(`\"`)
		case r == '\\':
			b.WriteString(`\\`)
		case r == '\n':
			b.WriteString(`\n`)
		case r == '\t':
			b.WriteString(`\t`)
		case r < 0x20:
			b.WriteString(`\u00`)
			b.WriteString(strconv.FormatInt(int64(r)>>4, 16))
			b.WriteString(strconv.FormatInt(int64(r)&15, 16))
		default:
			b.WriteRune(r)
		}
	}
	b.WriteByte('"')
	return b.String()
}

// TQCanTick says whether s can be written between back-ticks: no back-tick, no control
// characters, and no trailing backslash (the lexer rule `([^`\\]|\\.)*` lets a backslash
// swallow the next character, and Unquote only un-escapes "\`").
func TQCanTick(s string) bool {
	if strings.ContainsAny(s, "`\n\r\t") || strings.HasSuffix(s, `\`) {
		return false
	}
	for _, r := range s {
		if r < 0x20 {
			return false
		}
	}
	return true
}

func (v TQValue) String() string {
	switch v.Kind {
	case "str":
		if v.Tick && TQCanTick(v.Str) {
			return "`" + v.Str + "`"
		}
		return TQQuoteDouble(v.Str)
	case "dur":
		return v.Num + v.Unit
	}
	return v.Num
}

func (t TQTerm) String() string { return t.Label + " " + t.Op + " " + t.Val.String() }

func (e *TQExpr) String() string {
	var b strings.Builder
	for i, h := range e.Heads {
		if i > 0 {
			b.WriteString(" " + e.Ops[i-1] + " ")
		}
		if h.Paren != nil {
			b.WriteString("(" + h.Paren.String() + ")")
		} else if h.Term != nil {
			b.WriteString(h.Term.String())
		}
	}
	return b.String()
}

func (a *TQAgg) String() string {
	return "| " + a.Fn + "(" + a.Attr + ") " + a.Cmp + " " + a.Num + a.Unit
}

func (s TQSelector) String() string {
	r := "{"
	if s.Expr != nil {
		r += s.Expr.String()
	}
	r += "}"
	if s.Agg != nil {
		r += " " + s.Agg.String()
	}
	return r
}

func (s TQScript) String() string {
	var b strings.Builder
	for i, sel := range s.Sels {
		if i > 0 {
			b.WriteString(" " + s.Ops[i-1] + " ")
		}
		b.WriteString(sel.String())
	}
	return b.String()
}

// Terms calls f for every term of the expression, depth first, left to right.
func (e *TQExpr) Terms(f func(*TQTerm)) {
	if e == nil {
		return
	}
	for _, h := range e.Heads {
		if h.Term != nil {
			f(h.Term)
		}
		if h.Paren != nil {
			h.Paren.Terms(f)
		}
	}
}

// MixedOps says whether some chain of the expression joins heads with both && and ||
// without parentheses (the reading then depends on operator precedence).
func (e *TQExpr) MixedOps() bool {
	if e == nil {
		return false
	}
	if tqMixed(e.Ops) {
		return true
	}
	for _, h := range e.Heads {
		if h.Paren != nil && h.Paren.MixedOps() {
			return true
		}
	}
	return false
}

func tqMixed(ops []string) bool {
	and, or := false, false
	for _, o := range ops {
		if o == "&&" {
			and = true
		} else {
			or = true
		}
	}
	return and && or
}

// MixedChain says whether the selector chain uses both && and ||.
func (s TQScript) MixedChain() bool { return tqMixed(s.Ops) }

package refeval

import (
	"bytes"
	"encoding/json"
	"fmt"
	"io"
	"regexp"
	"sort"
	"strconv"
	"strings"
	"unicode/utf8"
)

// Flags collects what the evaluator had to assume while computing a result.
type Flags struct {
	// DontCare: the expected result is not settled for this case; skip the comparison.
	DontCare []string
	// Deviations: qryn conventions followed where Loki would answer differently.
	Deviations []string
	// Unsupported: the evaluator cannot evaluate this query (discard the case).
	Unsupported string
}

func (f *Flags) dontCare(r string)  { f.DontCare = appendUniq(f.DontCare, r) }
func (f *Flags) deviation(r string) { f.Deviations = appendUniq(f.Deviations, r) }
func (f *Flags) unsupported(r string) {
	if f.Unsupported == "" {
		f.Unsupported = r
	}
}

func appendUniq(l []string, s string) []string {
	for _, x := range l {
		if x == s {
			return l
		}
	}
	return append(l, s)
}

// Row is one entry travelling through a pipeline together with its (current) label set.
type Row struct {
	Labels map[string]string
	TsNs   int64
	Line   string
	Value  float64
	// Err is the LogQL __error__ the stages raised for this entry ("JSONParserErr",
	// "LogfmtParserErr"); such an entry stays in the stream with its labels as they
	// were before the failing stage. qryn has no __error__ label: what it does with such
	// entries is for the caller to judge (Loki keeps them).
	Err string
	// Src identifies the input entry (series index, entry index) for callers that want
	// to trace rows back.
	SrcSeries, SrcEntry int
}

// setErr records the first error an entry raises (later stages do not overwrite it).
func (r *Row) setErr(e string) {
	if r.Err == "" {
		r.Err = e
	}
}

// ---- stream selector ------------------------------------------------------------------

// MatchSeries decides the stream selector against one label set. Conventions (qryn, both
// engines): regular expressions are not anchored; a missing label reads as "".
func MatchSeries(ms []Matcher, labels map[string]string, fl *Flags) (bool, error) {
	for _, m := range ms {
		v, present := labels[m.Name]
		var ok bool
		switch m.Op {
		case "=":
			ok = v == m.Val
		case "!=":
			ok = v != m.Val
		case "=~", "!~":
			re, err := regexp.Compile(m.Val)
			if err != nil {
				return false, err
			}
			ok = re.MatchString(v)
			if anch, err := regexp.Compile("^(?:" + m.Val + ")$"); err == nil && anch.MatchString(v) != ok {
				fl.deviation("unanchored-regex-matcher")
			}
			if m.Op == "!~" {
				ok = !ok
			}
		default:
			return false, fmt.Errorf("matcher op %q", m.Op)
		}
		if !present && ok {
			// qryn's index only knows labels that exist: a matcher satisfied by the
			// *absence* of a label selects differently than in Loki, by design.
			fl.dontCare("matcher-satisfied-by-absent-label")
		}
		if !ok {
			return false, nil
		}
	}
	return true, nil
}

// Select flattens the series the selector matches into rows with fromNs <= ts < toNs, in
// input order (series by series). Every row gets its own copy of the label map.
func Select(data []Series, ms []Matcher, fromNs, toNs int64, fl *Flags) ([]Row, error) {
	var rows []Row
	for si, s := range data {
		ok, err := MatchSeries(ms, s.Labels, fl)
		if err != nil {
			return nil, err
		}
		if !ok {
			continue
		}
		for ei, e := range s.Entries {
			if e.TsNs < fromNs || e.TsNs >= toNs {
				continue
			}
			rows = append(rows, Row{Labels: cloneLabels(s.Labels), TsNs: e.TsNs, Line: e.Line, Value: e.Value, SrcSeries: si, SrcEntry: ei})
		}
	}
	return rows, nil
}

// SortRows orders rows by timestamp (stable), descending unless forward.
func SortRows(rows []Row, forward bool) {
	sort.SliceStable(rows, func(i, j int) bool {
		if forward {
			return rows[i].TsNs < rows[j].TsNs
		}
		return rows[i].TsNs > rows[j].TsNs
	})
}

// ---- pipeline ---------------------------------------------------------------------------

type compiledStage struct {
	st   Stage
	re   *regexp.Regexp
	filt func(map[string]string, *Flags) bool
	tpl  []tplPart
	ltpl [][]tplPart // label_format templates per param
	// templates outside the field-access subset (function calls, if/else): see template.go
	ftpl  *fullTpl
	lftpl []*fullTpl
	path [][]any     // json parameter paths
}

// Pipeline is a compiled list of stages.
type Pipeline struct {
	stages []compiledStage
	// KeepErrRows: entries that carry an error (Row.Err) are never removed by a line or label
	// filter. Used to learn which input entries can still be around when an engine keeps
	// failing entries with labels / line of its own choosing.
	KeepErrRows bool
}

// Compile prepares stages; an error means the query itself is invalid (bad regexp...).
func Compile(stages []Stage, fl *Flags) (*Pipeline, error) {
	p := &Pipeline{}
	for _, st := range stages {
		cs := compiledStage{st: st}
		var err error
		switch st.Kind {
		case KLineFilter:
			if st.Op == "|~" || st.Op == "!~" {
				cs.re, err = regexp.Compile(st.Val)
			}
		case KLabelFilter:
			cs.filt, err = compileFilter(st.Filter)
		case KRegexp:
			cs.re, err = regexp.Compile(st.Val)
		case KLineFormat:
			cs.tpl, err = parseTemplate(st.Val)
			if err != nil {
				cs.ftpl, err = compileFullTemplate(st.Val)
			}
			if err != nil {
				fl.unsupported("line_format template: " + err.Error())
				err = nil
			}
		case KLabelFormat:
			cs.ltpl = make([][]tplPart, len(st.Params))
			cs.lftpl = make([]*fullTpl, len(st.Params))
			for i, prm := range st.Params {
				if prm.HasVal {
					cs.ltpl[i], err = parseTemplate(prm.Val)
					if err != nil {
						cs.lftpl[i], err = compileFullTemplate(prm.Val)
					}
					if err != nil {
						fl.unsupported("label_format template: " + err.Error())
						err = nil
					}
				}
			}
		case KJSON:
			cs.path = make([][]any, len(st.Params))
			for i, prm := range st.Params {
				cs.path[i], err = parseJSONPath(prm.Val)
				if err != nil {
					fl.unsupported("json path: " + err.Error())
					err = nil
				}
			}
		case KLogfmt, KDrop, KUnwrap:
		default:
			fl.unsupported("stage " + st.Kind)
		}
		if err != nil {
			return nil, err
		}
		p.stages = append(p.stages, cs)
	}
	return p, nil
}

// Run applies the pipeline to rows (which it may modify in place) and returns the rows
// that survive, in the same order.
func (p *Pipeline) Run(rows []Row, fl *Flags) []Row {
	out := rows[:0:0]
	for _, r := range rows {
		if p.apply(&r, fl) {
			out = append(out, r)
		}
	}
	return out
}

// RunStages = Compile + Run.
func RunStages(stages []Stage, rows []Row, fl *Flags) ([]Row, error) {
	p, err := Compile(stages, fl)
	if err != nil {
		return nil, err
	}
	return p.Run(rows, fl), nil
}

func (p *Pipeline) apply(r *Row, fl *Flags) bool {
	for i := range p.stages {
		cs := &p.stages[i]
		st := cs.st
		switch st.Kind {
		case KLineFilter:
			var m bool
			switch st.Op {
			case "|=", "!=":
				m = strings.Contains(r.Line, st.Val)
			default:
				m = cs.re.MatchString(r.Line)
			}
			if st.Op == "!=" || st.Op == "!~" {
				m = !m
			}
			if !m && !(p.KeepErrRows && r.Err != "") {
				return false
			}
		case KLabelFilter:
			if r.Err != "" {
				// LogQL: entries carrying __error__ are not dropped by ordinary label
				// filters' failure to extract; whether they pass is not settled here.
				fl.dontCare("label-filter-on-error-entry")
			}
			if !cs.filt(r.Labels, fl) && !(p.KeepErrRows && r.Err != "") {
				return false
			}
		case KJSON:
			if len(st.Params) == 0 {
				extractJSON(r, fl)
			} else {
				extractJSONParams(r, st.Params, cs.path, fl)
			}
		case KLogfmt:
			extractLogfmt(r, st.Params, fl)
		case KRegexp:
			m := cs.re.FindStringSubmatch(r.Line)
			if m != nil {
				for gi, name := range cs.re.SubexpNames() {
					if name != "" {
						setExtracted(r.Labels, name, m[gi], fl)
					}
				}
			}
		case KLabelFormat:
			for pi, prm := range st.Params {
				if prm.HasVal && cs.lftpl[pi] != nil {
					if cs.lftpl[pi].readsLine {
						fl.dontCare("label_format-template-reads-line")
					}
					v, err := cs.lftpl[pi].exec(r, false, fl)
					if err != nil {
						// LogQL and qryn's in-process engine agree: the label stays as it was and
						// the entry stays (Loki adds __error__, which qryn does not have)
						fl.deviation("label_format-template-error-leaves-label")
						continue
					}
					r.Labels[prm.Name] = v
					continue
				}
				if prm.HasVal {
					for _, part := range cs.ltpl[pi] {
						if part.line || part.field == "_entry" {
							// the line is not among the template's fields in either engine of
							// qryn (Loki: __line__ is a function)
							fl.dontCare("label_format-template-reads-line")
						}
					}
					r.Labels[prm.Name] = execTemplate(cs.ltpl[pi], r)
					continue
				}
				// qryn (both engines): dst = src copies; Loki renames (removes src).
				fl.deviation("label_format-copy-not-rename")
				v, ok := r.Labels[prm.Src]
				if !ok || v == "" {
					// Loki and qryn's in-process engine leave dst alone, qryn's SQL engine
					// sets dst = "".
					fl.dontCare("label_format-missing-source")
					continue
				}
				r.Labels[prm.Name] = v
			}
		case KLineFormat:
			if cs.ftpl != nil {
				v, err := cs.ftpl.exec(r, true, fl)
				if err != nil {
					// LogQL: line unchanged, entry kept with __error__; qryn's in-process engine
					// drops the entry. The entry is reported as an error entry.
					if r.Err == "" {
						r.Err = "TemplateFormatErr"
					}
					break
				}
				r.Line = v
				break
			}
			r.Line = execTemplate(cs.tpl, r)
		case KDrop:
			for _, prm := range st.Params {
				if v, ok := r.Labels[prm.Name]; ok && (!prm.HasVal || v == prm.Val) {
					delete(r.Labels, prm.Name)
				}
			}
		case KUnwrap:
			v, ok := r.Labels[st.Label]
			if !ok || v == "" {
				// qryn (both engines): value 0, sample counted; Loki: SampleExtractionErr.
				fl.deviation("unwrap-missing-label-is-zero")
				r.Value = 0
				break
			}
			f, kind := parseNumber(v)
			switch kind {
			case numPlain:
				r.Value = f
			case numNone:
				fl.deviation("unwrap-unparsable-is-zero")
				r.Value = 0
			default:
				fl.dontCare("unwrap-exotic-number")
				r.Value = f
			}
		}
	}
	return true
}

// setExtracted writes an extracted label. qryn overwrites an existing label of the same
// name (both engines); Loki would write name_extracted instead.
func setExtracted(labels map[string]string, k, v string, fl *Flags) {
	if old, ok := labels[k]; ok && old != v {
		fl.deviation("extracted-label-overwrites")
	}
	if v == "" {
		// an empty-valued label is "absent" in Loki's model but a distinct series in qryn
		fl.dontCare("empty-label-value")
	}
	labels[k] = v
}

var sanitizeRe = regexp.MustCompile(`[^a-zA-Z0-9_]`)

func sanitizeKey(k string, fl *Flags) string {
	s := sanitizeRe.ReplaceAllString(k, "_")
	if s == "" || (s[0] >= '0' && s[0] <= '9') {
		fl.dontCare("extracted-key-starts-with-digit-or-empty")
	}
	return s
}

// ---- json ---------------------------------------------------------------------------------

// decodeJSONObject decodes the line as ONE json value followed by nothing but white
// space. ok=false: not valid JSON.
func decodeJSON(line string) (any, bool) {
	if !utf8.ValidString(line) {
		return nil, false
	}
	dec := json.NewDecoder(strings.NewReader(line))
	dec.UseNumber()
	v, err := decodeOrdered(dec)
	if err != nil {
		return nil, false
	}
	// trailing data
	if _, err := dec.Token(); err != io.EOF {
		return v, false
	}
	return v, true
}

// ordered object: keys in document order (duplicates kept)
type jObj struct {
	keys []string
	vals []any
}

func decodeOrdered(dec *json.Decoder) (any, error) {
	t, err := dec.Token()
	if err != nil {
		return nil, err
	}
	switch d := t.(type) {
	case json.Delim:
		switch d {
		case '{':
			o := &jObj{}
			for dec.More() {
				kt, err := dec.Token()
				if err != nil {
					return nil, err
				}
				k, ok := kt.(string)
				if !ok {
					return nil, fmt.Errorf("key")
				}
				v, err := decodeOrdered(dec)
				if err != nil {
					return nil, err
				}
				o.keys = append(o.keys, k)
				o.vals = append(o.vals, v)
			}
			if _, err := dec.Token(); err != nil {
				return nil, err
			}
			return o, nil
		case '[':
			var a []any
			for dec.More() {
				v, err := decodeOrdered(dec)
				if err != nil {
					return nil, err
				}
				a = append(a, v)
			}
			if _, err := dec.Token(); err != nil {
				return nil, err
			}
			if a == nil {
				a = []any{}
			}
			return a, nil
		}
		return nil, fmt.Errorf("delim")
	}
	return t, nil
}

// trailingGarbage: the line starts with a complete JSON value but something else follows.
func trailingGarbage(line string) bool {
	dec := json.NewDecoder(strings.NewReader(line))
	if _, err := decodeOrdered(dec); err != nil {
		return false
	}
	rest, _ := io.ReadAll(dec.Buffered())
	return len(bytes.TrimSpace(rest)) > 0 || func() bool { _, err := dec.Token(); return err != io.EOF }()
}

func scalarText(v any, fl *Flags) (string, bool) {
	switch x := v.(type) {
	case string:
		return x, true
	case json.Number:
		return x.String(), true
	case bool:
		if x {
			return "true", true
		}
		return "false", true
	case nil:
		// Loki skips null; qryn's in-process engine writes the text "null"
		fl.dontCare("json-null-value")
		return "null", true
	}
	return "", false
}

// extractJSON: `| json` without parameters. Nested objects are flattened with "_", keys
// are sanitised, arrays are skipped, scalars become their text.
func extractJSON(r *Row, fl *Flags) {
	v, ok := decodeJSON(r.Line)
	obj, isObj := v.(*jObj)
	if !ok || !isObj {
		if trailingGarbage(r.Line) {
			fl.dontCare("json-trailing-data")
		}
		r.setErr("JSONParserErr")
		return
	}
	seen := map[string]bool{}
	var walk func(prefix string, o *jObj)
	walk = func(prefix string, o *jObj) {
		for i, k := range o.keys {
			key := k
			if prefix != "" {
				key = prefix + "_" + k
			}
			switch x := o.vals[i].(type) {
			case *jObj:
				walk(key, x)
			case []any:
				// skipped
			default:
				txt, _ := scalarText(x, fl)
				sk := sanitizeKey(key, fl)
				if seen[sk] {
					fl.dontCare("json-duplicate-key")
				}
				seen[sk] = true
				setExtracted(r.Labels, sk, txt, fl)
			}
		}
	}
	walk("", obj)
}

// parseJSONPath parses  a.b["c d"][0]  into []any{string|int}.
func parseJSONPath(p string) ([]any, error) {
	var parts []any
	i := 0
	for i < len(p) {
		switch {
		case p[i] == '.':
			i++
		case p[i] == '[':
			j := strings.IndexByte(p[i:], ']')
			if j < 0 {
				return nil, fmt.Errorf("unterminated [")
			}
			in := p[i+1 : i+j]
			i += j + 1
			if len(in) >= 2 && in[0] == '"' {
				s, err := strconv.Unquote(in)
				if err != nil {
					return nil, err
				}
				parts = append(parts, s)
			} else {
				n, err := strconv.Atoi(in)
				if err != nil {
					return nil, err
				}
				parts = append(parts, n)
			}
		default:
			j := i
			for j < len(p) && p[j] != '.' && p[j] != '[' {
				j++
			}
			id := p[i:j]
			if !regexp.MustCompile(`^[A-Za-z_][A-Za-z0-9_]*$`).MatchString(id) {
				return nil, fmt.Errorf("identifier %q", id)
			}
			parts = append(parts, id)
			i = j
		}
	}
	if len(parts) == 0 {
		return nil, fmt.Errorf("empty path")
	}
	return parts, nil
}

func extractJSONParams(r *Row, params []Param, paths [][]any, fl *Flags) {
	v, ok := decodeJSON(r.Line)
	if !ok {
		if trailingGarbage(r.Line) {
			fl.dontCare("json-trailing-data")
		}
		r.setErr("JSONParserErr")
		return
	}
	for i, prm := range params {
		cur := v
		found := true
		for _, part := range paths[i] {
			switch x := cur.(type) {
			case *jObj:
				k, isStr := part.(string)
				found = false
				if isStr {
					for j := len(x.keys) - 1; j >= 0; j-- {
						if x.keys[j] == k {
							cur, found = x.vals[j], true
							break
						}
					}
				}
			case []any:
				n, isInt := part.(int)
				if isInt && n >= 0 && n < len(x) {
					cur = x[n]
				} else {
					found = false
				}
			default:
				found = false
			}
			if !found {
				break
			}
		}
		if !found {
			// Loki and the SQL engine set an empty value, the in-process engine sets nothing
			fl.dontCare("json-param-missing-path")
			continue
		}
		txt, scalar := scalarText(cur, fl)
		if !scalar {
			fl.dontCare("json-param-non-scalar")
			continue
		}
		setExtracted(r.Labels, prm.Name, txt, fl)
	}
}

// ---- logfmt -----------------------------------------------------------------------------

// extractLogfmt: key=value pairs separated by white space; values may be double-quoted
// (Go escapes). A key without "=" gets an empty value.
func extractLogfmt(r *Row, params []Param, fl *Flags) {
	want := map[string]string{}
	for _, p := range params {
		want[p.Val] = p.Name
	}
	s := r.Line
	type kv struct{ k, v string }
	var kvs []kv
	i := 0
	for i < len(s) {
		c := s[i]
		if c <= ' ' {
			i++
			continue
		}
		if c == '=' || c == '"' {
			// garbage at a key position: parsers disagree on how to resynchronise
			fl.dontCare("logfmt-garbage")
			i++
			continue
		}
		j := i
		for j < len(s) && s[j] > ' ' && s[j] != '=' && s[j] != '"' {
			j++
		}
		key := s[i:j]
		val := ""
		if j < len(s) && s[j] == '"' {
			fl.dontCare("logfmt-quote-in-key")
		}
		if j < len(s) && s[j] == '=' {
			j++
			if j < len(s) && s[j] == '"' {
				k := j + 1
				esc := false
				for k < len(s) && (esc || s[k] != '"') {
					esc = !esc && s[k] == '\\'
					k++
				}
				if k >= len(s) {
					r.setErr("LogfmtParserErr")
					return
				}
				u, err := strconv.Unquote(s[j : k+1])
				if err != nil {
					r.setErr("LogfmtParserErr")
					return
				}
				val = u
				j = k + 1
			} else {
				k := j
				for k < len(s) && s[k] > ' ' {
					if s[k] == '"' || s[k] == '=' {
						fl.dontCare("logfmt-special-in-bare-value")
					}
					k++
				}
				val = s[j:k]
				j = k
			}
		}
		kvs = append(kvs, kv{key, val})
		i = j
	}
	seen := map[string]bool{}
	for _, e := range kvs {
		if len(params) > 0 {
			if name, ok := want[e.k]; ok {
				setExtracted(r.Labels, name, e.v, fl)
			}
			continue
		}
		sk := sanitizeKey(e.k, fl)
		if seen[sk] {
			fl.dontCare("logfmt-duplicate-key")
		}
		seen[sk] = true
		setExtracted(r.Labels, sk, e.v, fl)
	}
}

// ---- label filters --------------------------------------------------------------------------

const (
	numNone   = iota // not a number at all
	numPlain         // [-+]?digits[.digits]
	numExotic        // something some parsers take as a number and others do not
)

var plainNumRe = regexp.MustCompile(`^-?[0-9]+(\.[0-9]+)?$`)

// a letter that occurs in no numeric syntax (decimal, hex, exponent, inf/infinity, nan)
var clearlyNotNumRe = regexp.MustCompile(`[ghjklmoqrsuvwzGHJKLMOQRSUVWZ]`)

// parseNumber classifies a label value read as a number. Plain decimals are numbers for
// every parser involved (Go strconv, ClickHouse toFloat64OrNull/OrZero, Loki); strings
// with a letter that occurs in no numeric syntax are numbers for none; the rest ("1e3",
// "0x1f", "inf", " 1", "1_0", "+1", ".5", "") is parser-dependent.
func parseNumber(s string) (float64, int) {
	if plainNumRe.MatchString(s) {
		f, _ := strconv.ParseFloat(s, 64)
		return f, numPlain
	}
	if s != "" && clearlyNotNumRe.MatchString(s) {
		return 0, numNone
	}
	f, err := strconv.ParseFloat(s, 64)
	if err != nil {
		f = 0
	}
	return f, numExotic
}

func compileFilter(f *LabelFilter) (func(map[string]string, *Flags) bool, error) {
	if f == nil {
		return nil, fmt.Errorf("empty label filter")
	}
	if f.Bool != "" {
		l, err := compileFilter(f.L)
		if err != nil {
			return nil, err
		}
		r, err := compileFilter(f.R)
		if err != nil {
			return nil, err
		}
		if f.Bool == "and" {
			return func(m map[string]string, fl *Flags) bool {
				a, b := l(m, fl), r(m, fl) // no short circuit: flags of both sides count
				return a && b
			}, nil
		}
		return func(m map[string]string, fl *Flags) bool {
			a, b := l(m, fl), r(m, fl)
			return a || b
		}, nil
	}
	name := f.Label
	if f.Str != nil {
		val := *f.Str
		switch f.Cmp {
		case "=":
			return func(m map[string]string, fl *Flags) bool { return m[name] == val }, nil
		case "!=":
			return func(m map[string]string, fl *Flags) bool { return m[name] != val }, nil
		case "=~", "!~":
			re, err := regexp.Compile(val)
			if err != nil {
				return nil, err
			}
			anch, _ := regexp.Compile("^(?:" + val + ")$")
			neg := f.Cmp == "!~"
			return func(m map[string]string, fl *Flags) bool {
				ok := re.MatchString(m[name])
				if anch != nil && anch.MatchString(m[name]) != ok {
					fl.deviation("unanchored-regex-label-filter")
				}
				return ok != neg
			}, nil
		}
		return nil, fmt.Errorf("string label filter op %q", f.Cmp)
	}
	lim, err := strconv.ParseFloat(f.Num, 64)
	if err != nil {
		return nil, err
	}
	var cmp func(a float64) bool
	switch f.Cmp {
	case "==":
		cmp = func(a float64) bool { return a == lim }
	case "!=":
		cmp = func(a float64) bool { return a != lim }
	case ">":
		cmp = func(a float64) bool { return a > lim }
	case ">=":
		cmp = func(a float64) bool { return a >= lim }
	case "<":
		cmp = func(a float64) bool { return a < lim }
	case "<=":
		cmp = func(a float64) bool { return a <= lim }
	default:
		return nil, fmt.Errorf("numeric label filter op %q", f.Cmp)
	}
	return func(m map[string]string, fl *Flags) bool {
		v, ok := m[name]
		if !ok || v == "" {
			// qryn (both engines): a missing label never satisfies a numeric comparison
			return false
		}
		x, kind := parseNumber(v)
		switch kind {
		case numNone:
			// qryn (both engines): not a number => filtered out; Loki keeps the entry
			// with __error__=LabelFilterErr
			fl.deviation("numeric-filter-on-non-number-drops")
			return false
		case numExotic:
			fl.dontCare("numeric-filter-exotic-number")
		}
		return cmp(x)
	}, nil
}

// ---- templates (subset of Go text/template that LogQL documents for line_format) ------------

type tplPart struct {
	lit   string
	field string // {{.field}}; "_entry" / "__line__" style access handled by caller
	line  bool   // {{__line__}}
}

var tplActionRe = regexp.MustCompile(`^\s*(?:\.([A-Za-z_][A-Za-z0-9_]*)|(__line__))\s*$`)

func parseTemplate(t string) ([]tplPart, error) {
	var parts []tplPart
	for {
		i := strings.Index(t, "{{")
		if i < 0 {
			if strings.Contains(t, "}}") {
				// harmless for text/template, but keep the subset tight
			}
			if t != "" {
				parts = append(parts, tplPart{lit: t})
			}
			return parts, nil
		}
		if i > 0 {
			parts = append(parts, tplPart{lit: t[:i]})
		}
		j := strings.Index(t[i:], "}}")
		if j < 0 {
			return nil, fmt.Errorf("unterminated action")
		}
		act := t[i+2 : i+j]
		m := tplActionRe.FindStringSubmatch(act)
		if m == nil {
			return nil, fmt.Errorf("action %q outside the supported subset", act)
		}
		if m[2] != "" {
			parts = append(parts, tplPart{line: true})
		} else {
			parts = append(parts, tplPart{field: m[1]})
		}
		t = t[i+j+2:]
	}
}

// execTemplate: {{.name}} is the label's value ("" when missing). qryn exposes the line as
// {{._entry}} (Loki: {{__line__}}); both spellings are accepted here.
func execTemplate(parts []tplPart, r *Row) string {
	var b strings.Builder
	for _, p := range parts {
		switch {
		case p.line || p.field == "_entry":
			b.WriteString(r.Line)
		case p.field != "":
			b.WriteString(r.Labels[p.field])
		default:
			b.WriteString(p.lit)
		}
	}
	return b.String()
}

// ---- grouping rows into streams ----------------------------------------------------------------

// GroupStreams groups rows by their label set; streams in order of first appearance,
// entries in row order.
func GroupStreams(rows []Row) []Series {
	idx := map[string]int{}
	var out []Series
	for _, r := range rows {
		k := LabelsKey(r.Labels)
		i, ok := idx[k]
		if !ok {
			i = len(out)
			idx[k] = i
			out = append(out, Series{Labels: cloneLabels(r.Labels)})
		}
		out[i].Entries = append(out[i].Entries, Entry{TsNs: r.TsNs, Line: r.Line, Value: r.Value})
	}
	return out
}

// ApplyLimit keeps the first limit rows (rows are in result order); limit <= 0 means no
// limit, as on qryn's SQL path (and Loki's "limit" is a number of entries, not per stream).
func ApplyLimit(rows []Row, limit int64) []Row {
	if limit <= 0 || int64(len(rows)) <= limit {
		return rows
	}
	return rows[:limit]
}

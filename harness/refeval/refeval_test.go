package refeval

import (
	"reflect"
	"testing"
)

// Examples taken from the LogQL documentation (log pipeline, parser expressions, metric
// queries), adapted to qryn's conventions where they are documented in this package.

func str(s string) *string { return &s }

func TestPrinter(t *testing.T) {
	e := Expr{
		Matchers: []Matcher{{"app", "=", "x"}, {"env", "=~", "a.+"}},
		Stages: []Stage{
			{Kind: KLineFilter, Op: "|=", Val: `er"r`},
			{Kind: KJSON},
			{Kind: KLabelFilter, Filter: &LabelFilter{Bool: "or",
				L: &LabelFilter{Label: "level", Cmp: "=", Str: str("error")},
				R: &LabelFilter{Bool: "and", L: &LabelFilter{Label: "dur", Cmp: ">", Num: "5"}, R: &LabelFilter{Label: "a", Cmp: "!~", Str: str("x")}}}},
			{Kind: KDrop, Params: []Param{{Name: "a"}, {Name: "b", Val: "v", HasVal: true}}},
			{Kind: KUnwrap, Label: "dur"},
		},
		RangeFn: "sum_over_time", RangeN: 5, RangeUnit: "s", RangeGroup: &Grouping{Labels: []string{"app"}},
		AggFn: "max", AggGroup: &Grouping{Without: true, Labels: []string{"env"}, Suffix: true}, AggCmp: &Comparison{">", "1.5"},
	}
	want := `max (sum_over_time by (app) ({app="x", env=~"a.+"} |= "er\"r" | json | level = "error" or (dur > 5 and a !~ "x") | drop a, b="v" | unwrap dur [5s])) without (env) > 1.5`
	if got := e.String(); got != want {
		t.Fatalf("printer:\n got  %s\n want %s", got, want)
	}
}

func TestJSONExtraction(t *testing.T) {
	// documentation example of the json parser
	line := `{"protocol": "HTTP/2.0","servers": ["129.0.1.1","10.2.1.3"],"request": {"time": "6.032","method": "GET","host": "foo.grafana.net","size": "55"},"response": {"status": 401,"size": "228","latency_seconds": "6.031"}}`
	var fl Flags
	rows, err := RunStages([]Stage{{Kind: KJSON}}, []Row{{Labels: map[string]string{"job": "j"}, Line: line}}, &fl)
	if err != nil || len(rows) != 1 {
		t.Fatal(err, rows)
	}
	want := map[string]string{"job": "j", "protocol": "HTTP/2.0", "request_time": "6.032", "request_method": "GET",
		"request_host": "foo.grafana.net", "request_size": "55", "response_status": "401", "response_size": "228",
		"response_latency_seconds": "6.031"}
	if !reflect.DeepEqual(rows[0].Labels, want) {
		t.Fatalf("got %v", rows[0].Labels)
	}
	// malformed line: kept, __error__
	rows, _ = RunStages([]Stage{{Kind: KJSON}}, []Row{{Labels: map[string]string{"job": "j"}, Line: `{"a":`}}, &fl)
	if len(rows) != 1 || rows[0].Err != "JSONParserErr" || len(rows[0].Labels) != 1 {
		t.Fatalf("malformed: %+v", rows)
	}
}

func TestLogfmtAndFilters(t *testing.T) {
	line := `at=info method=GET path=/ host=grafana.net fwd="124.133.124.161" service=8ms status=200`
	var fl Flags
	st := []Stage{{Kind: KLogfmt}, {Kind: KLabelFilter, Filter: &LabelFilter{Bool: "and",
		L: &LabelFilter{Label: "status", Cmp: ">=", Num: "200"}, R: &LabelFilter{Label: "method", Cmp: "=~", Str: str("GE")}}}}
	rows, err := RunStages(st, []Row{{Labels: map[string]string{}, Line: line}}, &fl)
	if err != nil || len(rows) != 1 {
		t.Fatal(err, rows)
	}
	if rows[0].Labels["fwd"] != "124.133.124.161" || rows[0].Labels["service"] != "8ms" {
		t.Fatalf("got %v", rows[0].Labels)
	}
	st[1].Filter.L.Num = "201"
	rows, _ = RunStages(st, []Row{{Labels: map[string]string{}, Line: line}}, &fl)
	if len(rows) != 0 {
		t.Fatalf("filter should reject: %v", rows)
	}
}

func TestMetric(t *testing.T) {
	data := []Series{
		{Labels: map[string]string{"app": "x"}, Entries: []Entry{{TsNs: 10e9, Line: `{"n":1}`}, {TsNs: 11e9, Line: `{"n":5}`}, {TsNs: 16e9, Line: `{"n":2}`}}},
		{Labels: map[string]string{"app": "y"}, Entries: []Entry{{TsNs: 12e9, Line: `{"n":7}`}}},
	}
	e := Expr{Matchers: []Matcher{{"app", "=~", ".+"}}, Stages: []Stage{{Kind: KJSON}, {Kind: KUnwrap, Label: "n"}},
		RangeFn: "max_over_time", RangeN: 5, RangeUnit: "s", RangeGroup: &Grouping{Labels: []string{"app"}},
		AggFn: "sum", AggGroup: &Grouping{Labels: []string{"nosuch"}}}
	res, err := EvalMetric(&e, data, MetricParams{FromNs: 10e9, ToNs: 20e9, StepNs: 5e9})
	if err != nil || len(res.Flags.DontCare) > 0 || res.Flags.Unsupported != "" {
		t.Fatal(err, res.Flags)
	}
	// buckets: [10,15): x max 5, y 7 -> sum 12 ; [15,20): x 2
	want := []MetricSeries{{Labels: map[string]string{}, Samples: []Sample{{10e9, 12}, {15e9, 2}}}}
	if !reflect.DeepEqual(res.Buckets, want) {
		t.Fatalf("buckets %+v", res.Buckets)
	}
	// step grid from=10s, step 5s: 10->12, 15->2 (overwrites 12 at the shared point), 20->2
	wantS := []Sample{{10e9, 12}, {15e9, 2}, {20e9, 2}}
	if len(res.Series) != 1 || !reflect.DeepEqual(res.Series[0].Samples, wantS) {
		t.Fatalf("series %+v", res.Series)
	}
}

func TestLimitAndDirection(t *testing.T) {
	data := []Series{{Labels: map[string]string{"a": "b"}, Entries: []Entry{{TsNs: 1, Line: "one"}, {TsNs: 3, Line: "three"}, {TsNs: 2, Line: "two err"}}}}
	e := Expr{Matchers: []Matcher{{"a", "=", "b"}}, Stages: []Stage{{Kind: KLineFilter, Op: "!=", Val: "err"}}}
	res, err := EvalLog(&e, data, 0, 10, false, 1)
	if err != nil || len(res.Rows) != 1 || res.Rows[0].Line != "three" || len(res.AllRows) != 2 {
		t.Fatalf("%v %+v", err, res.Rows)
	}
	res, _ = EvalLog(&e, data, 0, 10, true, 0)
	if len(res.Rows) != 2 || res.Rows[0].Line != "one" {
		t.Fatalf("%+v", res.Rows)
	}
}

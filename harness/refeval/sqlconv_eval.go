package refeval

// sqlconv_eval.go (owner: C07/C08 builder) — the log pipeline under the conventions of
// qryn's SQL engine, for the differential checks of the SQL planners (C07, C08). It reuses
// the stage implementations of pipeline.go and replaces only the points where the LogQL
// definition leaves room and the pipeline.go evaluator (written for the comparison of the
// two engines, C09) marks the case don't-care although the property of the SQL planner is
// decidable:
//
//   - there is no __error__ label in qryn: a line a parser stage cannot read simply
//     contributes no extracted labels and travels on (LogQL keeps such entries too);
//     label filters after it are evaluated normally;
//   - `| json name="path"`: a path that does not exist extracts nothing. An absent label
//     and a label with the empty value are the same thing in LogQL, so callers compare label
//     sets modulo empty values (the SQL writes name="");
//   - `| regexp`: a capture that is empty extracts nothing (same remark); a line the
//     expression matches several times with different captures is don't-care (LogQL: first
//     match; qryn SQL: last match of extractAllGroupsHorizontal);
//   - an extraction into a name the entry already carries is don't-care when the extraction
//     yields nothing (LogQL would leave the old label, qryn's mapUpdate writes "") and a
//     deviation ("extracted-label-overwrites") otherwise.

import "sort"

// RunStagesSQL applies stages to rows under the SQL engine's conventions.
func RunStagesSQL(stages []Stage, rows []Row, fl *Flags) ([]Row, error) {
	type one struct {
		st Stage
		p  *Pipeline
	}
	cs := make([]one, len(stages))
	for i, st := range stages {
		p, err := Compile([]Stage{st}, fl)
		if err != nil {
			return nil, err
		}
		cs[i] = one{st, p}
	}
	out := rows[:0:0]
rows:
	for _, r := range rows {
		for _, c := range cs {
			switch c.st.Kind {
			case KJSON:
				if len(c.st.Params) == 0 {
					fl.unsupported("json without parameters runs in-process")
					return nil, nil
				}
				sqlJSONParams(&r, c.st.Params, c.p.stages[0].path, fl)
			case KRegexp:
				sqlRegexp(&r, &c.p.stages[0], fl)
			case KLabelFilter:
				if !c.p.stages[0].filt(r.Labels, fl) {
					continue rows
				}
			case KLogfmt, KLineFormat, KLabelFormat:
				fl.unsupported(c.st.Kind + " is outside the SQL planner's grammar")
				return nil, nil
			default:
				if !c.p.apply(&r, fl) {
					continue rows
				}
			}
		}
		out = append(out, r)
	}
	return out, nil
}

func sqlSet(r *Row, name, val string, found bool, fl *Flags) {
	old, had := r.Labels[name]
	if !found || val == "" {
		if had && old != "" {
			fl.dontCare("extraction-of-nothing-into-existing-label")
		}
		return
	}
	if had && old != val {
		fl.deviation("extracted-label-overwrites")
	}
	r.Labels[name] = val
}

func sqlJSONParams(r *Row, params []Param, paths [][]any, fl *Flags) {
	v, ok := decodeJSON(r.Line)
	if !ok {
		if trailingGarbage(r.Line) {
			fl.dontCare("json-trailing-data")
		}
		for _, prm := range params {
			sqlSet(r, prm.Name, "", false, fl)
		}
		return
	}
	for i, prm := range params {
		cur := v
		found := true
		for _, part := range paths[i] {
			switch x := cur.(type) {
			case *jObj:
				k, isStr := part.(string)
				found = false
				if !isStr {
					// ClickHouse's JSON functions take an integer as "n-th member" of an
					// object too; LogQL has no such thing: whoever indexes an object gets
					// what he deserves
					fl.dontCare("json-index-into-object")
				}
				if isStr {
					n := 0
					for j := range x.keys {
						if x.keys[j] == k {
							cur, found = x.vals[j], true
							n++
						}
					}
					if n > 1 {
						fl.dontCare("json-duplicate-key")
					}
				}
			case []any:
				n, isInt := part.(int)
				if isInt && n >= 0 && n < len(x) {
					cur = x[n]
				} else {
					found = false
				}
			default:
				found = false
			}
			if !found {
				break
			}
		}
		if !found {
			sqlSet(r, prm.Name, "", false, fl)
			continue
		}
		txt, scalar := scalarText(cur, fl)
		if !scalar {
			// LogQL and the SQL engine both hand back the JSON text of the value; its white
			// space and number spelling are not pinned down
			fl.dontCare("json-param-non-scalar")
			continue
		}
		sqlSet(r, prm.Name, txt, true, fl)
	}
}

func sqlRegexp(r *Row, cs *compiledStage, fl *Flags) {
	ms := cs.re.FindAllStringSubmatch(r.Line, -1)
	names := cs.re.SubexpNames()
	if len(ms) == 0 {
		for _, name := range names {
			if name != "" {
				sqlSet(r, name, "", false, fl)
			}
		}
		return
	}
	for i := 1; i < len(ms); i++ {
		for gi, name := range names {
			if name != "" && ms[i][gi] != ms[0][gi] {
				fl.dontCare("regexp-multiple-matches")
			}
		}
	}
	seen := map[string]bool{}
	for gi, name := range names {
		if name == "" {
			continue
		}
		if seen[name] {
			fl.dontCare("regexp-duplicate-group-name")
		}
		seen[name] = true
		sqlSet(r, name, ms[0][gi], true, fl)
	}
}

// EvalLogSQL is EvalLog (no limit) under the SQL engine's conventions.
func EvalLogSQL(e *Expr, data []Series, fromNs, toNs int64, forward bool) (LogResult, error) {
	var res LogResult
	rows, err := Select(data, e.Matchers, fromNs, toNs, &res.Flags)
	if err != nil {
		return res, err
	}
	SortRows(rows, forward)
	rows, err = RunStagesSQL(e.Stages, rows, &res.Flags)
	if err != nil {
		return res, err
	}
	res.AllRows = rows
	res.Rows = rows
	return res, nil
}

// NormLabels returns the label set without empty-valued labels (LogQL: an empty value is an
// absent label).
func NormLabels(m map[string]string) map[string]string {
	n := make(map[string]string, len(m))
	for k, v := range m {
		if v != "" {
			n[k] = v
		}
	}
	return n
}

// SortedKeys is a helper for deterministic iteration.
func SortedKeys[V any](m map[string]V) []string {
	ks := make([]string, 0, len(m))
	for k := range m {
		ks = append(ks, k)
	}
	sort.Strings(ks)
	return ks
}

// ---- metric queries under the SQL engine's conventions ----------------------------------------

// StepFixSQL models clickhouse_planner/planner_step_fix.go: when the step is larger than the
// range, the bucket samples of a series are regrouped by floor(ts/step)*step and each group
// keeps the value of its earliest bucket.
func StepFixSQL(in []MetricSeries, stepNs, rangeNs int64) []MetricSeries {
	if rangeNs >= stepNs {
		return in
	}
	out := make([]MetricSeries, 0, len(in))
	for _, s := range in {
		ss := append([]Sample(nil), s.Samples...)
		sort.SliceStable(ss, func(i, j int) bool { return ss[i].TsNs < ss[j].TsNs })
		ms := MetricSeries{Labels: s.Labels}
		for _, sm := range ss {
			t := sm.TsNs / stepNs * stepNs
			if n := len(ms.Samples); n > 0 && ms.Samples[n-1].TsNs == t {
				continue // argMin(value, timestamp): the earliest bucket wins
			}
			ms.Samples = append(ms.Samples, Sample{t, sm.Value})
		}
		out = append(out, ms)
	}
	return out
}

// StepFillSQL models ZeroEaterPlanner + FixPeriodPlanner (planner_zero_eater.go,
// planner_from_fix.go): zero values are dropped; every remaining value is written to the
// grid points from + i*step, i in [(b - from)/step, (b + range - from)/step] with b the
// range bucket of the sample's timestamp, clipped to the grid of (to-from)/step+1 points; a
// later sample overwrites an earlier one; grid points left at 0 are not reported.
func StepFillSQL(in []MetricSeries, p MetricParams, rangeNs int64, fl *Flags) []MetricSeries {
	if p.StepNs <= 0 || rangeNs <= 0 {
		fl.unsupported("step")
		return nil
	}
	n := (p.ToNs-p.FromNs)/p.StepNs + 1
	if n <= 0 || n > 1<<20 {
		fl.unsupported("grid size")
		return nil
	}
	var out []MetricSeries
	for _, s := range in {
		vals := make([]float64, n)
		ss := append([]Sample(nil), s.Samples...)
		sort.SliceStable(ss, func(i, j int) bool { return ss[i].TsNs < ss[j].TsNs })
		for _, sm := range ss {
			if sm.Value == 0 {
				continue
			}
			iFrom := (sm.TsNs/rangeNs*rangeNs - p.FromNs) / p.StepNs
			iTo := ((sm.TsNs/rangeNs+1)*rangeNs - p.FromNs) / p.StepNs
			if iTo < 0 || iFrom >= n {
				continue
			}
			if iFrom < 0 {
				iFrom = 0
			}
			if iTo >= n {
				iTo = n - 1
			}
			for i := iFrom; i <= iTo; i++ {
				vals[i] = sm.Value
			}
		}
		ms := MetricSeries{Labels: s.Labels}
		for i, v := range vals {
			if v != 0 {
				ms.Samples = append(ms.Samples, Sample{p.FromNs + int64(i)*p.StepNs, v})
			}
		}
		if len(ms.Samples) > 0 {
			out = append(out, ms)
		}
	}
	return out
}

// MetricResultSQL is the answer of EvalMetricSQL.
type MetricResultSQL struct {
	Selected int            // entries the selector admits in the widened window
	Passed   int            // entries that survive the pipeline
	Buckets  []MetricSeries // one sample per range bucket, after aggregation / comparison / k-selection
	Series   []MetricSeries // after step regrouping and grid filling: what the API answers
	Flags    Flags
}

// EvalMetricSQL evaluates a metric query: entries of [floor(from/range)*range,
// floor(to/range)*range + range) -> pipeline (SQL conventions) -> tumbling range buckets ->
// vector aggregation -> comparison -> top/bottom-k -> step handling.
func EvalMetricSQL(e *Expr, data []Series, p MetricParams) (MetricResultSQL, error) {
	var res MetricResultSQL
	from, to := Window(p, e.RangeNs(), &res.Flags)
	rows, err := Select(data, e.Matchers, from, to, &res.Flags)
	if err != nil {
		return res, err
	}
	res.Selected = len(rows)
	rows, err = RunStagesSQL(e.Stages, rows, &res.Flags)
	if err != nil {
		return res, err
	}
	res.Passed = len(rows)
	res.Buckets = MetricFromRows(e, rows, &res.Flags)
	res.Series = StepFillSQL(StepFixSQL(res.Buckets, p.StepNs, e.RangeNs()), p, e.RangeNs(), &res.Flags)
	return res, nil
}

package refeval

// sqlconv_chain.go (owner: C07/C08 builder) — label-filter chains written WITHOUT parentheses.
//
// LabelFilter.String (ast.go) parenthesises every inner child, so that the reading does not
// depend on precedence. C07 also has to exercise what users type: `a or b and c`. qryn's
// grammar (logql_parser/model_v2.go LabelFilter: Head, Op, Tail) is right-recursive without
// precedence: `a and b or c` IS `a and (b or c)` (LogQL proper gives `and` precedence:
// `(a and b) or c`); both of qryn's engines walk the same parse tree, so the convention is
// qryn's and the property of the SQL renderer is that it keeps the grouping the parser
// produced. A chain is therefore represented as the right-nested tree the parser builds
// (L = term, R = rest of the chain) and printed flat by FlatFilterString.

// FlatFilterString prints a filter tree without parentheses wherever qryn's right-recursive
// grammar reads the text back as the same tree: a right child is printed bare, a left child
// that is itself an inner node keeps its parentheses.
func FlatFilterString(f *LabelFilter) string {
	if f == nil {
		return ""
	}
	if f.Bool == "" {
		return f.String()
	}
	l := f.L.String()
	if f.L.Bool != "" {
		l = "(" + l + ")"
	}
	return l + " " + f.Bool + " " + FlatFilterString(f.R)
}

// ChainTerms returns the leaves of a right-nested chain and the operators between them
// (ok=false if some left child is not a leaf).
func ChainTerms(f *LabelFilter) (terms []*LabelFilter, ops []string, ok bool) {
	for f != nil && f.Bool != "" {
		if f.L == nil || f.L.Bool != "" {
			return nil, nil, false
		}
		terms = append(terms, f.L)
		ops = append(ops, f.Bool)
		f = f.R
	}
	if f == nil {
		return nil, nil, false
	}
	return append(terms, f), ops, true
}

// RegroupLogQL rebuilds a chain with LogQL's precedence (`and` binds tighter than `or`,
// both left-associative); RegroupLeft rebuilds it strictly left-associative. Used to
// classify chains whose groupings can be told apart by the data.
func RegroupLogQL(terms []*LabelFilter, ops []string) *LabelFilter {
	// split at "or", fold each "and" run to the left
	var ors []*LabelFilter
	cur := terms[0]
	for i, op := range ops {
		if op == "and" {
			cur = &LabelFilter{Bool: "and", L: cur, R: terms[i+1]}
		} else {
			ors = append(ors, cur)
			cur = terms[i+1]
		}
	}
	ors = append(ors, cur)
	res := ors[0]
	for _, o := range ors[1:] {
		res = &LabelFilter{Bool: "or", L: res, R: o}
	}
	return res
}

func RegroupLeft(terms []*LabelFilter, ops []string) *LabelFilter {
	res := terms[0]
	for i, op := range ops {
		res = &LabelFilter{Bool: op, L: res, R: terms[i+1]}
	}
	return res
}

// EvalFilter decides a filter tree on one label set (flags of the leaves go to fl).
func EvalFilter(f *LabelFilter, labels map[string]string, fl *Flags) (bool, error) {
	fn, err := compileFilter(f)
	if err != nil {
		return false, err
	}
	return fn(labels, fl), nil
}

// ParenFilterString prints a filter tree with extra parentheses that do not change its
// reading (qryn's grammar: Head = "(" LabelFilter ")" | simple term). style is a bit set:
// 1 = wrap the whole filter, 2 = wrap every leaf, 4 = wrap leaves that are right operands.
// Inner children are parenthesised as in LabelFilter.String.
func ParenFilterString(f *LabelFilter, style int) string {
	var rec func(f *LabelFilter, right bool) string
	rec = func(f *LabelFilter, right bool) string {
		if f.Bool == "" {
			s := f.String()
			if style&2 != 0 || (right && style&4 != 0) {
				return "(" + s + ")"
			}
			return s
		}
		l := rec(f.L, false)
		if f.L.Bool != "" {
			l = "(" + l + ")"
		}
		r := rec(f.R, true)
		if f.R.Bool != "" {
			r = "(" + r + ")"
		}
		return l + " " + f.Bool + " " + r
	}
	if f == nil {
		return ""
	}
	s := rec(f, false)
	if style&1 != 0 {
		s = "(" + s + ")"
	}
	return s
}

package logdb

import (
	"context"
	"database/sql/driver"
	"errors"
	"strings"
	"sync"

	"qrynverif/chsim"
	"qrynverif/fakesql"
)

// Exec is one statement that reached the backend, with what the reference interpreter
// made of it.
type Exec struct {
	SQL string
	Res *chsim.Result // nil on error
	Err error         // chsim.ErrUnsupported / ErrSyntax / ErrExec (test with errors.Is)
	// Rewritten: executed under Backend.HavingAsFilter (HAVING without aggregation as a filter).
	Rewritten bool
}

// Backend answers the statements of the real reader from a chsim database: the two
// auxiliary statements of dbVersion.GetVersionInfo from fakesql.AnswerVersion (up-to-date
// schema), everything else by parsing and executing the SQL text. Result cells are handed
// to database/sql as plain Go values (chsim.Native: Map -> map[string]string, ...), the way
// clickhouse-go hands them over, so the real scanners run unchanged.
//
// database/sql wraps driver errors, so predicates should not rely on the error the reader
// returns: inspect Log() (or FirstErr) instead.
type Backend struct {
	CH *chsim.DB
	// HavingAsFilter selects the reading of the new ClickHouse analyzer (default since 24.3)
	// for a SELECT that has HAVING but neither GROUP BY nor any function call in its select
	// list: HAVING is a row filter (the old analyzer rejects such a statement with
	// NOT_AN_AGGREGATE, which is why chsim itself refuses to choose and answers
	// ErrUnsupported). qryn renders this shape for `topk(k, X) > v`. With the option on, such
	// a statement is re-executed with the HAVING condition and-ed to WHERE (both are
	// evaluated after ARRAY JOIN, both see the SELECT aliases); Exec.Rewritten marks it.
	HavingAsFilter bool
	mu             sync.Mutex
	log            []Exec
}

// NewBackend wraps a chsim database.
func NewBackend(ch *chsim.DB) *Backend { return &Backend{CH: ch} }

// Handler is the fakesql handler (use with fakesql.New or readersvc.NewReader).
func (b *Backend) Handler() fakesql.Handler {
	return func(ctx context.Context, q string, args []driver.NamedValue) (*fakesql.Result, error) {
		if fakesql.IsVersionQuery(q) {
			return fakesql.AnswerVersion(q), nil
		}
		res, err := b.CH.Query(q)
		rewritten := false
		if err != nil && b.HavingAsFilter && errors.Is(err, chsim.ErrUnsupported) && strings.Contains(err.Error(), "HAVING without GROUP BY") {
			if pq, perr := chsim.Parse(q); perr == nil && havingToWhere(pq) {
				res, err = b.CH.Exec(pq)
				rewritten = true
			}
		}
		b.mu.Lock()
		b.log = append(b.log, Exec{SQL: q, Res: res, Err: err, Rewritten: rewritten})
		b.mu.Unlock()
		if err != nil {
			return nil, err
		}
		out := &fakesql.Result{Cols: res.Cols, FailAfter: -1}
		for _, r := range res.Rows {
			nr := make([]any, len(r))
			for i, c := range r {
				nr[i] = chsim.Native(c)
			}
			out.Rows = append(out.Rows, nr)
		}
		return out, nil
	}
}

// Log returns the statements executed so far (version statements excluded).
func (b *Backend) Log() []Exec {
	b.mu.Lock()
	defer b.mu.Unlock()
	return append([]Exec(nil), b.log...)
}

// Reset clears the log.
func (b *Backend) Reset() { b.mu.Lock(); b.log = nil; b.mu.Unlock() }

// FirstErr returns the first interpreter error in the log and its statement.
func (b *Backend) FirstErr() (string, error) {
	for _, e := range b.Log() {
		if e.Err != nil {
			return e.SQL, e.Err
		}
	}
	return "", nil
}

// Unsupported says whether any statement fell outside the interpreter's subset (the case
// must then be discarded, never reported).
func (b *Backend) Unsupported() bool {
	for _, e := range b.Log() {
		if e.Err != nil && errors.Is(e.Err, chsim.ErrUnsupported) {
			return true
		}
	}
	return false
}

// plainExpr: column references, literals, tuple elements, array/map elements and aliases of
// those — nothing that could be an aggregate function.
func plainExpr(e chsim.Expr) bool {
	switch x := e.(type) {
	case *chsim.Ident, *chsim.Lit:
		return true
	case *chsim.Alias:
		return plainExpr(x.X)
	case *chsim.TupleElem:
		return plainExpr(x.X)
	case *chsim.Index:
		return plainExpr(x.X) && plainExpr(x.I)
	}
	return false
}

// havingToWhere applies the HavingAsFilter reading to every SELECT of q that has HAVING, no
// GROUP BY and a select list of plain expressions; reports whether anything changed.
func havingToWhere(q *chsim.Query) bool {
	if q == nil {
		return false
	}
	if q.Select == nil {
		l := havingToWhere(q.Left)
		r := havingToWhere(q.Right)
		return l || r
	}
	s := q.Select
	changed := false
	for i := range s.With {
		if havingToWhere(s.With[i].Q) {
			changed = true
		}
	}
	if s.From != nil && havingToWhere(s.From.Sub) {
		changed = true
	}
	for i := range s.Joins {
		if s.Joins[i].Table != nil && havingToWhere(s.Joins[i].Table.Sub) {
			changed = true
		}
	}
	if s.Having != nil && len(s.GroupBy) == 0 {
		plain := true
		for _, c := range s.Cols {
			if !plainExpr(c) {
				plain = false
			}
		}
		if plain {
			if s.Where == nil {
				s.Where = s.Having
			} else {
				s.Where = &chsim.Binary{Op: "AND", L: s.Where, R: s.Having}
			}
			s.Having = nil
			changed = true
		}
	}
	return changed
}

package logdb

import (
	"context"
	"database/sql/driver"
	"errors"
	"sync"

	"qrynverif/chsim"
	"qrynverif/fakesql"
)

// Exec is one statement that reached the backend, with what the reference interpreter
// made of it.
type Exec struct {
	SQL string
	Res *chsim.Result // nil on error
	Err error         // chsim.ErrUnsupported / ErrSyntax / ErrExec (test with errors.Is)
}

// Backend answers the statements of the real reader from a chsim database: the two
// auxiliary statements of dbVersion.GetVersionInfo from fakesql.AnswerVersion (up-to-date
// schema), everything else by parsing and executing the SQL text. Result cells are handed
// to database/sql as plain Go values (chsim.Native: Map -> map[string]string, ...), the way
// clickhouse-go hands them over, so the real scanners run unchanged.
//
// database/sql wraps driver errors, so predicates should not rely on the error the reader
// returns: inspect Log() (or FirstErr) instead.
type Backend struct {
	CH  *chsim.DB
	mu  sync.Mutex
	log []Exec
}

// NewBackend wraps a chsim database.
func NewBackend(ch *chsim.DB) *Backend { return &Backend{CH: ch} }

// Handler is the fakesql handler (use with fakesql.New or readersvc.NewReader).
func (b *Backend) Handler() fakesql.Handler {
	return func(ctx context.Context, q string, args []driver.NamedValue) (*fakesql.Result, error) {
		if fakesql.IsVersionQuery(q) {
			return fakesql.AnswerVersion(q), nil
		}
		res, err := b.CH.Query(q)
		b.mu.Lock()
		b.log = append(b.log, Exec{SQL: q, Res: res, Err: err})
		b.mu.Unlock()
		if err != nil {
			return nil, err
		}
		out := &fakesql.Result{Cols: res.Cols, FailAfter: -1}
		for _, r := range res.Rows {
			nr := make([]any, len(r))
			for i, c := range r {
				nr[i] = chsim.Native(c)
			}
			out.Rows = append(out.Rows, nr)
		}
		return out, nil
	}
}

// Log returns the statements executed so far (version statements excluded).
func (b *Backend) Log() []Exec {
	b.mu.Lock()
	defer b.mu.Unlock()
	return append([]Exec(nil), b.log...)
}

// Reset clears the log.
func (b *Backend) Reset() { b.mu.Lock(); b.log = nil; b.mu.Unlock() }

// FirstErr returns the first interpreter error in the log and its statement.
func (b *Backend) FirstErr() (string, error) {
	for _, e := range b.Log() {
		if e.Err != nil {
			return e.SQL, e.Err
		}
	}
	return "", nil
}

// Unsupported says whether any statement fell outside the interpreter's subset (the case
// must then be discarded, never reported).
func (b *Backend) Unsupported() bool {
	for _, e := range b.Log() {
		if e.Err != nil && errors.Is(e.Err, chsim.ErrUnsupported) {
			return true
		}
	}
	return false
}

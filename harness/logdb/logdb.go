// Package logdb is the generated small log/metric database shared by the read-side
// semantic properties (C07, C08, C13, C17): a plain, JSON-serialisable description of
// streams and samples, laid out on demand as the ClickHouse tables qryn's SQL reads —
// exactly the rows qryn's writer and the materialized views of ctrl/qryn/sql/log.sql would
// have produced for them.
//
//	db := logdb.DB{Series: []logdb.Series{{
//	    Labels:  []logdb.Label{{"app", "x"}, {"env", "prod"}},          // stored key order
//	    Samples: []logdb.Sample{{TsNs: 1700000000e9, Line: "hello", Type: logdb.TypeLog}},
//	}}}
//	ch := db.CH()                       // *chsim.DB with samples_v3, time_series, time_series_gin,
//	                                    // metrics_15s and the *_dist aliases
//	ref := db.Ref()                     // []refeval.Series: what a log reader must see
//	be := logdb.NewBackend(ch)          // chsim-backed fakesql handler (see backend.go)
//
// How rows are derived (file:line = qryn code that does the same):
//
//   - samples_v3 (fingerprint, timestamp_ns, value, string, type [, type_v2 alias]): one row
//     per sample. Log entries: value 0, string = line, type 1; metric samples: string "",
//     type 2; Loki-JSON entries carrying both a line and a value: type 0
//     (writer/utils/unmarshal/unmarshal.go:130-170, writer/model SAMPLE_TYPE_*;
//     samplesInsertService.go / metricsInsertService.go column lists).
//   - time_series (date, fingerprint, labels, name, type): one row per (UTC day of a
//     sample, fingerprint, sample type seen in the push) — builder.go:298 onEntries:
//     `dates[time.Unix(ts/1e9,0).Truncate(24h)]`, one row per type in `tps`. labels is the
//     JSON document of encodeLabels (unmarshal.go:246): `{"k":"v",...}` in *ingestion
//     order* (never sorted), each side written with strconv.Quote. name is never inserted
//     (default ''). The table is a ReplacingMergeTree: identical rows coexist until a merge;
//     Series.Reannounce adds such duplicates.
//   - time_series_gin (date, key, val, fingerprint, type): materialized view
//     time_series_gin_view (log.sql): one row per pair of
//     JSONExtractKeysAndValues(labels,'String') of every time_series row.
//   - metrics_15s (fingerprint, timestamp_ns, last, max, min, count, sum, bytes, type):
//     materialized view metrics_15s_mv: GROUP BY fingerprint, intDiv(timestamp_ns,15e9)*15e9,
//     type *per inserted block*. An AggregatingMergeTree keeps one partial-state row per
//     block until merged: Sample.Batch selects the block, so `count` holds partial counts
//     that only countMerge adds up. State columns use chsim's representation (chsim README
//     "Cell values"): count = partial count (uint64), sum/min/max/bytes = partial value,
//     last = Tuple{value, timestamp} of argMaxState(value, timestamp_ns).
//   - fingerprint: unmarshal.go:254 fingerprintLabels in its default CityHash mode, which is
//     independent of label order.
//
// Preconditions (Validate): label names match [a-zA-Z_][a-zA-Z0-9_]* and are distinct
// inside a series (sanitizeLabels, and distinct JSON keys); label values are valid UTF-8 of
// at most 100 bytes without control characters other than \n \t \r (so that strconv.Quote
// yields JSON — the rest is C04's subject, findings C04-label-doc-*); label sets of
// different Series entries are different; timestamps are positive.
//
// Row order of every table is first-appearance order unless DB.RowSeed != 0, which permutes
// the rows of each table deterministically: ClickHouse promises no physical order, so no
// property may depend on it.
package logdb

import (
	"fmt"
	"regexp"
	"sort"
	"strconv"
	"strings"
	"unicode/utf8"
	"unsafe"

	"github.com/go-faster/city"
	"github.com/metrico/qryn/writer/utils/heputils/cityhash102"

	"qrynverif/chsim"
	"qrynverif/refeval"
)

// Sample types as stored in the `type` columns.
const (
	TypeBoth   uint8 = 0 // entry with a line and a value (Loki JSON third element)
	TypeLog    uint8 = 1
	TypeMetric uint8 = 2
)

// Label is one stored label; the order of a []Label is the stored JSON key order.
type Label struct {
	Name  string `json:"n"`
	Value string `json:"v"`
}

// Sample is one row of samples_v3.
type Sample struct {
	TsNs  int64   `json:"ts"`
	Line  string  `json:"line,omitempty"`
	Value float64 `json:"v,omitempty"`
	Type  uint8   `json:"type"`
	// Batch is the insert block the sample arrived in; it only matters for metrics_15s
	// (one partial row per fingerprint, bucket, type and batch).
	Batch int `json:"batch,omitempty"`
}

// Series is one stream.
type Series struct {
	Labels  []Label  `json:"labels"`
	Samples []Sample `json:"samples"`
	// Reannounce extra identical time_series rows per (day, type): the writer announces a
	// series again after a restart / cache expiry and ReplacingMergeTree merges lazily.
	Reannounce int `json:"reannounce,omitempty"`
}

// DB is the whole database.
type DB struct {
	Series []Series `json:"series"`
	// RowSeed != 0 permutes the physical row order of every table.
	RowSeed uint64 `json:"row_seed,omitempty"`
}

// NsPerDay / Bucket15s are the constants of the schema.
const (
	NsPerDay  = int64(86400) * 1e9
	Bucket15s = int64(15e9)
)

var nameRe = regexp.MustCompile(`^[a-zA-Z_][a-zA-Z0-9_]*$`)

// Validate checks the preconditions listed in the package comment.
func (db *DB) Validate() error {
	seen := map[string]int{}
	for si, s := range db.Series {
		names := map[string]bool{}
		for _, l := range s.Labels {
			if !nameRe.MatchString(l.Name) {
				return fmt.Errorf("series %d: label name %q", si, l.Name)
			}
			if names[l.Name] {
				return fmt.Errorf("series %d: duplicate label %q", si, l.Name)
			}
			names[l.Name] = true
			if !utf8.ValidString(l.Value) || len(l.Value) > 100 {
				return fmt.Errorf("series %d: label value %q", si, l.Value)
			}
			for _, r := range l.Value {
				if (r < 0x20 && r != '\n' && r != '\t' && r != '\r') || r == 0x7f || !strconv.IsPrint(r) && r >= 0x80 {
					return fmt.Errorf("series %d: label value %q is not JSON-safe under strconv.Quote", si, l.Value)
				}
			}
		}
		k := refeval.LabelsKey(s.LabelMap())
		if o, dup := seen[k]; dup {
			return fmt.Errorf("series %d and %d carry the same label set %s", o, si, k)
		}
		seen[k] = si
		for _, sm := range s.Samples {
			if sm.TsNs <= 0 {
				return fmt.Errorf("series %d: timestamp %d", si, sm.TsNs)
			}
			if sm.Type > 2 {
				return fmt.Errorf("series %d: type %d", si, sm.Type)
			}
		}
	}
	return nil
}

// LabelMap is the label set as a map.
func (s Series) LabelMap() map[string]string {
	m := make(map[string]string, len(s.Labels))
	for _, l := range s.Labels {
		m[l.Name] = l.Value
	}
	return m
}

// LabelsJSON is the stored labels document: writer/utils/unmarshal/unmarshal.go:246.
func (s Series) LabelsJSON() string {
	arr := make([]string, len(s.Labels))
	for i, l := range s.Labels {
		arr[i] = fmt.Sprintf("%s:%s", strconv.Quote(l.Name), strconv.Quote(l.Value))
	}
	return fmt.Sprintf("{%s}", strings.Join(arr, ","))
}

// Fingerprint is the stored series fingerprint (unmarshal.go:254, CityHash mode).
func (s Series) Fingerprint() uint64 { return Fingerprint(s.Labels) }

// Fingerprint of a label list; independent of the order.
func Fingerprint(lbls []Label) uint64 {
	determs := []uint64{0, 0, 1}
	for _, lbl := range lbls {
		hash := cityhash102.Hash128to64(cityhash102.Uint128{
			city.CH64([]byte(lbl.Name)),
			city.CH64([]byte(lbl.Value)),
		})
		determs[0] = determs[0] + hash
		determs[1] = determs[1] ^ hash
		determs[2] = determs[2] * (1779033703 + 2*hash)
	}
	fingerByte := unsafe.Slice((*byte)(unsafe.Pointer(&determs[0])), 24)
	return city.CH64(fingerByte)
}

// Day is the stored `date` of a sample: days since the epoch of its UTC day.
func Day(tsNs int64) chsim.Date { return chsim.Date(tsNs / NsPerDay) }

// Column lists of the tables CH builds.
var (
	SamplesCols    = []string{"fingerprint", "timestamp_ns", "value", "string", "type", "type_v2"}
	TimeSeriesCols = []string{"date", "fingerprint", "labels", "name", "type", "type_v2"}
	GinCols        = []string{"date", "key", "val", "fingerprint", "type", "type_v2"}
	Metrics15sCols = []string{"fingerprint", "timestamp_ns", "last", "max", "min", "count", "sum", "bytes", "type", "type_v2"}
)

// Tables are the rows of the four tables, before they are handed to chsim.
type Tables struct {
	Samples, TimeSeries, Gin, Metrics15s [][]any
}

// Rows derives the table rows (see the package comment for the rules).
func (db *DB) Rows() Tables {
	var t Tables
	for _, s := range db.Series {
		fp := s.Fingerprint()
		doc := s.LabelsJSON()
		type dt struct {
			day chsim.Date
			tp  uint8
		}
		var announced []dt
		seen := map[dt]bool{}
		type bk struct {
			bucket int64
			tp     uint8
			batch  int
		}
		type agg struct {
			lastV          float64
			lastT          int64
			max, min, sum  float64
			bytes          float64
			count          uint64
		}
		aggs := map[bk]*agg{}
		var order []bk
		for _, sm := range s.Samples {
			t.Samples = append(t.Samples, []any{fp, sm.TsNs, sm.Value, sm.Line, sm.Type, sm.Type})
			k := dt{Day(sm.TsNs), sm.Type}
			if !seen[k] {
				seen[k] = true
				announced = append(announced, k)
			}
			b := bk{sm.TsNs / Bucket15s * Bucket15s, sm.Type, sm.Batch}
			a := aggs[b]
			if a == nil {
				a = &agg{lastV: sm.Value, lastT: sm.TsNs, max: sm.Value, min: sm.Value}
				aggs[b] = a
				order = append(order, b)
			}
			if sm.TsNs > a.lastT {
				a.lastT, a.lastV = sm.TsNs, sm.Value
			}
			if sm.Value > a.max {
				a.max = sm.Value
			}
			if sm.Value < a.min {
				a.min = sm.Value
			}
			a.sum += sm.Value
			a.bytes += float64(len(sm.Line))
			a.count++
		}
		for _, k := range announced {
			for r := 0; r <= s.Reannounce; r++ {
				t.TimeSeries = append(t.TimeSeries, []any{k.day, fp, doc, "", k.tp, k.tp})
				// time_series_gin_view: ARRAY JOIN JSONExtractKeysAndValues(labels,'String')
				for _, l := range s.Labels {
					t.Gin = append(t.Gin, []any{k.day, l.Name, l.Value, fp, k.tp, k.tp})
				}
			}
		}
		for _, b := range order {
			a := aggs[b]
			t.Metrics15s = append(t.Metrics15s, []any{fp, b.bucket, chsim.Tuple{a.lastV, a.lastT}, a.max, a.min, a.count, a.sum, a.bytes, b.tp, b.tp})
		}
	}
	if db.RowSeed != 0 {
		t.Samples = permute(t.Samples, db.RowSeed)
		t.TimeSeries = permute(t.TimeSeries, db.RowSeed+1)
		t.Gin = permute(t.Gin, db.RowSeed+2)
		t.Metrics15s = permute(t.Metrics15s, db.RowSeed+3)
	}
	return t
}

// CH lays the database out as chsim tables, with the *_dist aliases of a cluster setup.
func (db *DB) CH() *chsim.DB {
	t := db.Rows()
	ch := chsim.NewDB()
	ch.AddTable("samples_v3", SamplesCols, t.Samples)
	ch.AddTable("time_series", TimeSeriesCols, t.TimeSeries)
	ch.AddTable("time_series_gin", GinCols, t.Gin)
	ch.AddTable("metrics_15s", Metrics15sCols, t.Metrics15s)
	for _, n := range []string{"samples_v3", "time_series", "time_series_gin", "metrics_15s"} {
		ch.Alias(n+"_dist", n)
	}
	return ch
}

// Ref is the database as the direct evaluator sees it: one refeval.Series per stream with
// the samples of the given types (default: what a log query may read, types 1 and 0 —
// clickhouse_planner/sql_misc.go GetTypes), in stored order.
func (db *DB) Ref(types ...uint8) []refeval.Series {
	if len(types) == 0 {
		types = []uint8{TypeLog, TypeBoth}
	}
	want := map[uint8]bool{}
	for _, t := range types {
		want[t] = true
	}
	out := make([]refeval.Series, 0, len(db.Series))
	for _, s := range db.Series {
		rs := refeval.Series{Labels: s.LabelMap()}
		for _, sm := range s.Samples {
			if want[sm.Type] {
				rs.Entries = append(rs.Entries, refeval.Entry{TsNs: sm.TsNs, Line: sm.Line, Value: sm.Value})
			}
		}
		out = append(out, rs)
	}
	return out
}

// LabelNames returns every label name used, sorted.
func (db *DB) LabelNames() []string {
	m := map[string]bool{}
	for _, s := range db.Series {
		for _, l := range s.Labels {
			m[l.Name] = true
		}
	}
	out := make([]string, 0, len(m))
	for k := range m {
		out = append(out, k)
	}
	sort.Strings(out)
	return out
}

// permute: Fisher-Yates driven by splitmix64 (a case stores one integer).
func permute(rows [][]any, seed uint64) [][]any {
	out := append([][]any(nil), rows...)
	x := seed
	for i := len(out) - 1; i > 0; i-- {
		x += 0x9e3779b97f4a7c15
		z := x
		z = (z ^ (z >> 30)) * 0xbf58476d1ce4e5b9
		z = (z ^ (z >> 27)) * 0x94d049bb133111eb
		z ^= z >> 31
		j := int(z % uint64(i+1))
		out[i], out[j] = out[j], out[i]
	}
	return out
}

package gen

// jsonenc.go: a hand-written JSON text writer for arbitrary byte strings, with the
// spelling choices a client is free to make (short escapes or \u00XX, non-ASCII runes raw or
// as \uXXXX / surrogate pairs, optional white space).

import (
	"fmt"
	"strings"
	"unicode/utf8"
)

// JSONStr writes s as a JSON string literal. Bytes that are not valid UTF-8 are copied
// through unchanged (jx, the decoder qryn uses, accepts them; a strict client cannot
// produce them). style bit 0: escape control bytes as \u00XX even when a short escape
// exists; bit 1: escape non-ASCII runes as \uXXXX; bit 2: escape '/' as '\/'.
func JSONStr(s string, style uint16) string {
	var sb strings.Builder
	sb.Grow(len(s) + 2)
	sb.WriteByte('"')
	for i := 0; i < len(s); {
		c := s[i]
		if c >= 0x20 && c < utf8.RuneSelf && c != '"' && c != '\\' && c != '/' {
			j := i + 1 // copy a run of plain bytes at once (padded lines are long)
			for j < len(s) && s[j] >= 0x20 && s[j] < utf8.RuneSelf && s[j] != '"' && s[j] != '\\' && s[j] != '/' {
				j++
			}
			sb.WriteString(s[i:j])
			i = j
			continue
		}
		if c < utf8.RuneSelf {
			switch {
			case c == '"':
				sb.WriteString(`\"`)
			case c == '\\':
				sb.WriteString(`\\`)
			case c == '/' && style&4 != 0:
				sb.WriteString(`\/`)
			case c < 0x20:
				short := ""
				switch c {
				case '\n':
					short = `\n`
				case '\r':
					short = `\r`
				case '\t':
					short = `\t`
				case '\b':
					short = `\b`
				case '\f':
					short = `\f`
				}
				if short != "" && style&1 == 0 {
					sb.WriteString(short)
				} else {
					fmt.Fprintf(&sb, `\u%04x`, c)
				}
			default:
				sb.WriteByte(c)
			}
			i++
			continue
		}
		r, w := utf8.DecodeRuneInString(s[i:])
		if r == utf8.RuneError && w == 1 {
			sb.WriteByte(c) // stray byte, copied through
			i++
			continue
		}
		if style&2 != 0 {
			if r > 0xffff {
				r -= 0x10000
				fmt.Fprintf(&sb, `\u%04x\u%04x`, 0xd800+(r>>10), 0xdc00+(r&0x3ff))
			} else {
				fmt.Fprintf(&sb, `\u%04X`, r)
			}
		} else {
			sb.WriteString(s[i : i+w])
		}
		i += w
	}
	sb.WriteByte('"')
	return sb.String()
}

// jsonObj writes an object from already encoded "key":value members in the order
// selected by seed.
type jsonMember struct{ k, v string }

func jsonObj(ms []jsonMember, seed uint64, sp string) string {
	var sb strings.Builder
	sb.WriteByte('{')
	n := len(ms)
	idx := PermIdx(n, seed)
	for i := 0; i < n; i++ {
		m := ms[idx[i]]
		if i > 0 {
			sb.WriteByte(',')
			sb.WriteString(sp)
		}
		sb.WriteString(JSONStr(m.k, 0))
		sb.WriteByte(':')
		sb.WriteString(sp)
		sb.WriteString(m.v)
	}
	sb.WriteByte('}')
	return sb.String()
}

package gen

// strings.go: hostile byte strings (for label values, log lines) with a per-wire-format
// restriction, and a classifier used for evidence tags.

import (
	"strings"
	"unicode"
	"unicode/utf8"

	"pgregory.net/rapid"
)

// StrOpt restricts HostileStr to what a wire format can carry.
type StrOpt struct {
	Max      int    // rough upper bound of the length in bytes (0 = 24)
	UTF8Only bool   // protobuf string fields and strict JSON text reject anything else
	Exclude  string // bytes the format cannot carry at all (e.g. "\n" in a line protocol)
	NoEmpty  bool
}

// bytePieces extends the shared hostilePieces with byte sequences that are not UTF-8 and
// with the runes strconv.Quote and JSON escape differently (\a \v \x7f, C1 controls,
// non-printable runes above U+FFFF).
var bytePieces = []string{
	"\xff", "\xfe\xfd", "\xc3", "\xe2\x82", "\xed\xa0\x80", "a\x80b", "\xc0\xaf",
	"\a", "\v", "\x1b[0m", "\x00", "\x7f", "\u0080", "\u009f", "​", "\U000e0001", "�",
}

var quotePieces = []string{`"`, `\`, `\"`, `\\`, `"}`, `","`, `":"`, `A`, `\x41`, "'", "`", `{a="b"}`, "\n", "\t", "\r"}

// HostileStr draws a byte string biased towards whatever breaks quoting, escaping and
// framing. With UTF8Only the result is valid UTF-8.
func HostileStr(rt *rapid.T, label string, o StrOpt) string {
	max := o.Max
	if max == 0 {
		max = 24
	}
	var s string
	switch rapid.IntRange(0, 11).Draw(rt, label+"-k") {
	case 0, 1, 2:
		s = rapid.StringMatching(`[a-z0-9]{1,8}`).Draw(rt, label)
	case 3:
		s = rapid.SampledFrom(hostilePieces).Draw(rt, label)
	case 4, 5:
		n := rapid.IntRange(1, 4).Draw(rt, label+"-n")
		var sb strings.Builder
		for i := 0; i < n; i++ {
			switch rapid.IntRange(0, 3).Draw(rt, label+"-p") {
			case 0:
				sb.WriteString(rapid.SampledFrom(hostilePieces).Draw(rt, label))
			case 1:
				sb.WriteString(rapid.SampledFrom(bytePieces).Draw(rt, label))
			case 2:
				sb.WriteString(rapid.SampledFrom(quotePieces).Draw(rt, label))
			default:
				sb.WriteString(rapid.StringMatching(`[a-z]{1,3}`).Draw(rt, label))
			}
		}
		s = sb.String()
	case 6:
		s = string(rapid.SliceOfN(rapid.Byte(), 0, 10).Draw(rt, label))
	case 7:
		s = rapid.StringN(0, 10, -1).Draw(rt, label)
	case 8:
		s = rapid.SampledFrom(quotePieces).Draw(rt, label) + rapid.StringMatching(`[a-z]{0,3}`).Draw(rt, label)
	case 9:
		s = rapid.StringMatching(`[ -~]{0,16}`).Draw(rt, label)
	case 10:
		s = ""
	default:
		s = rapid.StringMatching(`[A-Za-z_][A-Za-z0-9_.-]{0,10}`).Draw(rt, label)
	}
	if o.UTF8Only && !utf8.ValidString(s) {
		s = strings.ToValidUTF8(s, "�")
	}
	if o.Exclude != "" {
		s = strings.Map(func(r rune) rune {
			if r < utf8.RuneSelf && strings.IndexByte(o.Exclude, byte(r)) >= 0 {
				return -1
			}
			return r
		}, s)
		if !o.UTF8Only && strings.ContainsAny(s, o.Exclude) { // bytes inside invalid sequences
			b := []byte(s)
			out := b[:0]
			for _, c := range b {
				if strings.IndexByte(o.Exclude, c) < 0 {
					out = append(out, c)
				}
			}
			s = string(out)
		}
	}
	if len(s) > max {
		s = s[:max]
		if o.UTF8Only {
			s = strings.ToValidUTF8(s, "")
		}
	}
	if o.NoEmpty && s == "" {
		s = "x"
	}
	return s
}

// JSONSafeUnderGoQuote reports whether strconv.Quote(s) happens to be a JSON string that
// decodes back to s: no byte/rune that Go escapes with \a \v \xNN \UNNNNNNNN and valid
// UTF-8. (Region of the label-document finding, DESIGN.md section 4 item 8.)
func JSONSafeUnderGoQuote(s string) bool {
	if !utf8.ValidString(s) {
		return false
	}
	for _, r := range s {
		switch {
		case r == '\a' || r == '\v' || r == 0x7f:
			return false
		case r < 0x20 && r != '\b' && r != '\f' && r != '\n' && r != '\r' && r != '\t':
			return false
		case r > 0xffff && !unicode.IsPrint(r):
			return false
		}
	}
	return true
}

// StrClasses classifies a string for evidence tags.
func StrClasses(s string) []string {
	var out []string
	if !utf8.ValidString(s) {
		out = append(out, "invalid-utf8")
	}
	ctrl, quote, bs, nonascii := false, false, false, false
	for i := 0; i < len(s); i++ {
		c := s[i]
		switch {
		case c < 0x20 || c == 0x7f:
			ctrl = true
		case c == '"':
			quote = true
		case c == '\\':
			bs = true
		case c >= 0x80:
			nonascii = true
		}
	}
	if ctrl {
		out = append(out, "ctrl")
	}
	if quote {
		out = append(out, "quote")
	}
	if bs {
		out = append(out, "backslash")
	}
	if nonascii {
		out = append(out, "nonascii")
	}
	if len(s) > 100 {
		out = append(out, "over100")
	}
	if s == "" {
		out = append(out, "empty")
	}
	return out
}

// NonAlnum reports whether s holds at least one byte outside [A-Za-z0-9].
func NonAlnum(s string) bool {
	for i := 0; i < len(s); i++ {
		c := s[i]
		if !(c >= 'a' && c <= 'z' || c >= 'A' && c <= 'Z' || c >= '0' && c <= '9') {
			return true
		}
	}
	return false
}

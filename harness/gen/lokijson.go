package gen

// lokijson.go: Loki JSON push bodies in both layouts.
//
//   v1:     {"streams":[{"stream":{"name":"value"},"values":[["<ns>","line"(,third)]]}]}
//   legacy: {"streams":[{"labels":"{name=\"value\"}","entries":[{"ts":"<RFC3339|ns>","line":"..","value":1.5}]}]}
//
// Decoder: writer/utils/unmarshal/unmarshal.go pushRequestDec. Key order inside every
// object, white space, unknown members, string escape spelling, timestamp syntax and the
// optional third element are all chosen by Style bits of the chunk / entry.

import (
	"strconv"
	"strings"
	"time"
	"unicode"
	"unicode/utf8"
)

// Chunk style bits understood by the Loki JSON encoder.
const (
	LokiLegacy = 1 << 0 // use the labels/entries layout (needs Go-identifier names)
)

// IsGoIdent reports whether s is scanned as one identifier by text/scanner with its
// default settings (unmarshal.go:342 reads label names that way).
func IsGoIdent(s string) bool {
	if s == "" || !utf8.ValidString(s) {
		return false
	}
	for i, r := range s {
		if r == '_' || unicode.IsLetter(r) || (i > 0 && unicode.IsDigit(r)) {
			continue
		}
		return false
	}
	return true
}

// GoIdentSet reports whether every name of the set can be written in the legacy layout.
func GoIdentSet(ls []Label) bool {
	for _, l := range ls {
		if !IsGoIdent(string(l.Name)) {
			return false
		}
	}
	return true
}

// LokiLabelString renders {a="b",c="d"} the way Loki clients do (Go-quoted values).
func LokiLabelString(ls []Label, spaced bool) string {
	var sb strings.Builder
	sb.WriteByte('{')
	for i, l := range ls {
		if i > 0 {
			sb.WriteByte(',')
			if spaced {
				sb.WriteByte(' ')
			}
		}
		sb.WriteString(string(l.Name))
		sb.WriteByte('=')
		sb.WriteString(strconv.Quote(string(l.Value)))
	}
	sb.WriteByte('}')
	return sb.String()
}

// LokiUsesLegacy tells which layout the encoder picks for a chunk.
func LokiUsesLegacy(c FlatChunk) bool {
	if c.Style&LokiLegacy != 0 && GoIdentSet(c.Labels) {
		return true
	}
	// a metric-only entry cannot be written in the v1 layout (element 1 is always a string)
	for _, e := range c.Entries {
		if e.Kind == KindMetric && GoIdentSet(c.Labels) {
			return true
		}
	}
	return false
}

var rfcZones = []*time.Location{time.UTC, time.FixedZone("", 2*3600), time.FixedZone("", -(9*3600 + 30*60)), time.FixedZone("", 13*3600)}

func jsonFloat(v float64) string { return strconv.FormatFloat(v, 'g', -1, 64) }

// EncodeLokiJSON serialises the body.
func EncodeLokiJSON(b Body) []byte {
	var sb strings.Builder
	sp := ""
	if b.Style&1 != 0 {
		sp = " "
	}
	var streams []string
	for _, c := range b.Expand() {
		streams = append(streams, lokiStream(c, sp))
	}
	ms := []jsonMember{{"streams", "[" + strings.Join(streams, ","+sp) + "]"}}
	if b.Style&2 != 0 {
		ms = append(ms, jsonMember{"meta", `{"a":[1,{"streams":[]}],"b":"x"}`})
	}
	if b.Style&4 != 0 {
		ms = append(ms, jsonMember{"zz", `null`})
	}
	sb.WriteString(jsonObj(ms, uint64(b.Style>>3), sp))
	if b.Style&1 != 0 {
		sb.WriteString("\n")
	}
	return []byte(sb.String())
}

func lokiStream(c FlatChunk, sp string) string {
	st := c.Style
	var ms []jsonMember
	if LokiUsesLegacy(c) {
		var es []string
		for _, e := range c.Entries {
			es = append(es, lokiLegacyEntry(e, sp))
		}
		ms = []jsonMember{
			{"labels", JSONStr(LokiLabelString(c.Labels, st&2 != 0), st>>8)},
			{"entries", "[" + strings.Join(es, ","+sp) + "]"},
		}
	} else {
		var lm []jsonMember
		for _, l := range c.Labels {
			lm = append(lm, jsonMember{string(l.Name), JSONStr(string(l.Value), st>>8)})
		}
		var vs []string
		for _, e := range c.Entries {
			vs = append(vs, lokiValue(e, sp))
		}
		ms = []jsonMember{
			{"stream", jsonObjKeepOrder(lm, sp, st>>11)},
			{"values", "[" + strings.Join(vs, ","+sp) + "]"},
		}
	}
	if st&4 != 0 {
		ms = append(ms, jsonMember{"unknown", `[{"values":[["1","x"]]}]`})
	}
	return jsonObj(ms, uint64(st>>3)&7, sp)
}

// jsonObjKeepOrder keeps the member order (label order is the chunk's permutation) but
// spells the keys with the given string style.
func jsonObjKeepOrder(ms []jsonMember, sp string, kstyle uint16) string {
	var sb strings.Builder
	sb.WriteByte('{')
	for i, m := range ms {
		if i > 0 {
			sb.WriteByte(',')
			sb.WriteString(sp)
		}
		sb.WriteString(JSONStr(m.k, kstyle))
		sb.WriteByte(':')
		sb.WriteString(sp)
		sb.WriteString(m.v)
	}
	sb.WriteByte('}')
	return sb.String()
}

func lokiValue(e FlatEntry, sp string) string {
	parts := []string{JSONStr(strconv.FormatInt(e.Ts, 10), 0), JSONStr(e.Line, e.Style>>8)}
	switch {
	case e.Kind == KindBoth || e.Kind == KindMetric:
		parts = append(parts, jsonFloat(e.Val))
	case e.Style&6 == 2:
		parts = append(parts, `{"trace_id":"abc","n":"1"}`) // structured metadata: ignored
	case e.Style&6 == 4:
		parts = append(parts, `null`)
	case e.Style&6 == 6:
		parts = append(parts, `{}`, `"extra"`)
	}
	return "[" + strings.Join(parts, ","+sp) + "]"
}

func lokiLegacyEntry(e FlatEntry, sp string) string {
	key := "ts"
	if e.Style&1 != 0 {
		key = "timestamp"
	}
	var ts string
	if e.Style&2 != 0 && e.Ts >= 0 {
		z := rfcZones[(e.Style>>2)&3]
		ts = time.Unix(0, e.Ts).In(z).Format(time.RFC3339Nano)
	} else {
		ts = strconv.FormatInt(e.Ts, 10)
	}
	ms := []jsonMember{{key, JSONStr(ts, 0)}}
	if e.Kind != KindMetric {
		ms = append(ms, jsonMember{"line", JSONStr(e.Line, e.Style>>8)})
	}
	if e.Kind != KindLog {
		ms = append(ms, jsonMember{"value", jsonFloat(e.Val)})
	}
	if e.Style&128 != 0 {
		ms = append(ms, jsonMember{"structuredMetadata", `{"line":"no","ts":"1"}`})
	}
	return jsonObj(ms, uint64(e.Style>>4)&7, sp)
}

package gen

// model.go: the logical model of a push body (label sets, chunks of entries) that every
// per-protocol encoder serialises and every ingest oracle compares against. The stored
// form is compact (Bulk / Pad / Fan are integers) so that bodies crossing qryn's internal
// thresholds (1 000 points, 1 MiB) stay small as JSON cases and shrink well.

import (
	"fmt"
	"math"
	"strings"

	"qrynverif/evid"
)

// Sample kinds (values of model.SAMPLE_TYPE_* in writer/model/insertRequestModel.go:8).
const (
	KindBoth   = 0 // line and value in one entry (Loki JSON only): qryn stores type 0
	KindLog    = 1
	KindMetric = 2
)

// Entry is one submitted log line or metric point.
type Entry struct {
	Ts   int64    `json:"ts"` // nanoseconds
	Kind uint8    `json:"kind"`
	Line evid.Str `json:"line,omitempty"`
	Pad  int      `json:"pad,omitempty"` // the line is extended by Pad filler bytes
	Val  float64  `json:"val,omitempty"`
	// Special: 1 NaN (Prometheus stale marker bits), 2 +Inf, 3 -Inf; binary protocols only.
	Special uint8 `json:"special,omitempty"`
	// Style bits are encoder hints (timestamp syntax, key order, third element…).
	Style uint16 `json:"style,omitempty"`
}

// Chunk is one stream object / time series / group of records in the body.
type Chunk struct {
	Set     int     `json:"set"`  // index into Body.Sets
	Perm    uint64  `json:"perm"` // label order inside this chunk
	Entries []Entry `json:"entries"`
	// Bulk appends that many synthetic entries (timestamps BulkTs + i*BulkStep, kind
	// BulkKind, line "b<chunk>-<i>" or value i).
	Bulk     int   `json:"bulk,omitempty"`
	BulkTs   int64 `json:"bulk_ts,omitempty"`
	BulkStep int64 `json:"bulk_step,omitempty"`
	BulkKind uint8 `json:"bulk_kind,omitempty"`
	BulkPad  int   `json:"bulk_pad,omitempty"`
	// Fan replicates the chunk: replica k (1..Fan) carries the extra label
	// qvfan<chunk>="<k>", i.e. it is a different series, and timestamps shifted by k*FanStep.
	Fan     int    `json:"fan,omitempty"`
	FanStep int64  `json:"fan_step,omitempty"`
	Style   uint16 `json:"style,omitempty"`
}

// Body is a whole request.
type Body struct {
	Sets   [][]Label `json:"sets"`
	Chunks []Chunk   `json:"chunks"`
	Style  uint16    `json:"style,omitempty"`
}

// FlatEntry is an expanded entry.
type FlatEntry struct {
	Ts    int64
	Kind  uint8
	Line  string
	Val   float64 // already NaN/Inf when Special was set
	Style uint16
}

// FlatChunk is an expanded chunk: labels in wire order.
type FlatChunk struct {
	Labels  []Label
	Entries []FlatEntry
	Style   uint16
	Index   int // index of the originating Chunk
}

// StaleNaN is Prometheus' stale marker.
var StaleNaN = math.Float64frombits(0x7ff0000000000002)

func (e Entry) flat() FlatEntry {
	f := FlatEntry{Ts: e.Ts, Kind: e.Kind, Line: string(e.Line), Val: e.Val, Style: e.Style}
	if e.Pad > 0 {
		f.Line += Filler(e.Pad, uint64(e.Ts))
	}
	switch e.Special {
	case 1:
		f.Val = StaleNaN
	case 2:
		f.Val = math.Inf(1)
	case 3:
		f.Val = math.Inf(-1)
	}
	if e.Kind == KindLog {
		f.Val = 0
	}
	if e.Kind == KindMetric {
		f.Line = ""
	}
	return f
}

// Filler returns n printable bytes that depend on seed (so two padded lines differ).
func Filler(n int, seed uint64) string {
	unit := fmt.Sprintf("<%x>abcdefghijklmnopqrstuvwxyz ", seed)
	var sb strings.Builder
	sb.Grow(n + len(unit))
	for sb.Len() < n {
		sb.WriteString(unit)
	}
	return sb.String()[:n]
}

// Expand turns the compact body into the list of chunks as they appear on the wire.
func (b Body) Expand() []FlatChunk {
	var out []FlatChunk
	for ci, c := range b.Chunks {
		if c.Set < 0 || c.Set >= len(b.Sets) {
			continue
		}
		base := b.Sets[c.Set]
		var ents []FlatEntry
		for _, e := range c.Entries {
			ents = append(ents, e.flat())
		}
		for i := 0; i < c.Bulk; i++ {
			e := Entry{Ts: c.BulkTs + int64(i)*c.BulkStep, Kind: c.BulkKind, Pad: c.BulkPad, Style: uint16(i * 7)}
			if c.BulkKind != KindMetric {
				e.Line = evid.Str(fmt.Sprintf("b%d-%d", ci, i))
			}
			if c.BulkKind != KindLog {
				e.Val = float64(i) + 0.5
			}
			ents = append(ents, e.flat())
		}
		out = append(out, FlatChunk{Labels: Permute(base, c.Perm), Entries: ents, Style: c.Style, Index: ci})
		for k := 1; k <= c.Fan; k++ {
			ls := append(append([]Label(nil), base...), L(fmt.Sprintf("qvfan%d", ci), fmt.Sprint(k)))
			fe := make([]FlatEntry, len(ents))
			for i, e := range ents {
				e.Ts += int64(k) * c.FanStep
				fe[i] = e
			}
			out = append(out, FlatChunk{Labels: Permute(ls, c.Perm+uint64(k)), Entries: fe, Style: c.Style + uint16(k), Index: ci})
		}
	}
	return out
}

// Points is the number of entries of the expanded body.
func Points(fc []FlatChunk) int {
	n := 0
	for _, c := range fc {
		n += len(c.Entries)
	}
	return n
}

package gen

// ttl.go: the special label __ttl_days__ (writer/utils/unmarshal/builder.go:301 onEntries).
// When the request context carries no TTL (header absent, TTL_DAYS == 0) the builder removes
// that label from the label set before fingerprinting and uses its value, parsed as a 16-bit
// decimal integer, as the TTL of the stream's rows (an unparsable value: label removed, TTL 0).
// When the context carries a TTL the label is left alone (it stays an ordinary label) and the
// context value is the TTL. The model follows exactly that.

import (
	"strconv"

	"pgregory.net/rapid"
)

// TTLLabel is the name of the special label.
const TTLLabel = "__ttl_days__"

// TTLValues are the values the generators use: valid small integers and invalid texts.
var TTLValues = []string{"1", "7", "30", "365", "abc", "7d", "1.5", "99999"}

// CarriesTTLLabel reports whether the protocol can spell a label named __ttl_days__
// (Datadog log tags must start with a letter; Datadog metric labels are resource<i>_<k>).
func CarriesTTLLabel(p Proto) bool { return p != DDLogs && p != DDMetrics }

// TTLOf models the value parsing of builder.go:306.
func TTLOf(v string) uint16 {
	n, err := strconv.ParseInt(v, 10, 16)
	if err != nil {
		return 0
	}
	return uint16(n)
}

// HasTTLLabel returns the index of the __ttl_days__ label, or -1.
func HasTTLLabel(ls []Label) int { return HasLabel(ls, TTLLabel) }

// HasLabel returns the index of the label called name, or -1.
func HasLabel(ls []Label, name string) int {
	for i, l := range ls {
		if string(l.Name) == name {
			return i
		}
	}
	return -1
}

// ExpectedStored is the label set and the TTL qryn is expected to store for a chunk whose
// wire labels are ls when the request context carries ctxTTL (0 = none).
func ExpectedStored(p Proto, ls []Label, ctxTTL uint16) ([]Label, uint16) {
	exp := ExpectedLabels(p, ls)
	if ctxTTL != 0 {
		return exp, ctxTTL
	}
	ttl := uint16(0)
	out := exp[:0:0]
	for _, l := range exp {
		if l.Name == TTLLabel {
			if v := TTLOf(string(l.Value)); v != 0 || string(l.Value) == "0" {
				ttl = v
			}
			continue
		}
		out = append(out, l)
	}
	return out, ttl
}

// InsertTTLLabel returns ls with a __ttl_days__ label at index pos (clamped to lo..len-hi).
func InsertTTLLabel(ls []Label, pos int, value string, lo, hi int) []Label {
	if pos < lo {
		pos = lo
	}
	if pos > len(ls)-hi {
		pos = len(ls) - hi
	}
	out := make([]Label, 0, len(ls)+1)
	out = append(out, ls[:pos]...)
	out = append(out, L(TTLLabel, value))
	return append(out, ls[pos:]...)
}

// DrawTTLValue draws a value for the label: valid three times out of four.
func DrawTTLValue(rt *rapid.T) string {
	if rapid.IntRange(0, 3).Draw(rt, "ttl-invalid") == 0 {
		return rapid.SampledFrom(TTLValues[4:]).Draw(rt, "ttl-value")
	}
	return rapid.SampledFrom(TTLValues[:4]).Draw(rt, "ttl-value")
}

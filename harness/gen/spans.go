package gen

import (
	"encoding/hex"
	"fmt"
	"math"
	"strconv"
	"strings"

	common "go.opentelemetry.io/proto/otlp/common/v1"
	resource "go.opentelemetry.io/proto/otlp/resource/v1"
	trace "go.opentelemetry.io/proto/otlp/trace/v1"
	"google.golang.org/protobuf/proto"
	"pgregory.net/rapid"
)

// ---- OTLP span batches ------------------------------------------------------------------
//
// Plain-data model of an OTLP TracesData message. Soundness restrictions (what every real
// exporter respects, and what qryn's decoder relies on without checking):
//   * every ResourceSpans carries a Resource (writer/utils/unmarshal/otlpUnmarshal.go:79
//     dereferences res.Resource), every KeyValue carries a Value (…:133 kv.Value.Value);
//   * trace ids are 16 bytes and span ids 8 bytes (wrong lengths are C05's subject: they
//     panic in ColFixedStr.Append), parent ids are 8 bytes or absent;
//   * strings are valid UTF-8 (proto3 string fields; proto.Unmarshal rejects anything else);
//   * the same attribute key may occur on the span, on its scope and on its resource, with
//     equal or different values (legal OTLP: e.g. resource deployment.environment=prod, span
//     deployment.environment=canary; qryn merges the resource's attributes into the span).
//     In a small measured fraction a key also occurs twice within one list: the OTLP
//     specification says keys MUST be unique there, but the wire format and qryn's decoder
//     accept it, so the two sides must still agree on the one value they keep;
//   * end >= start and start < 2^63 (the row column is Int64).

// AnyVal is an OTLP AnyValue. K: s(tring) b(ool) i(nt) d(ouble) y(bytes) a(rray) m(ap/kvlist) e(mpty).
type AnyVal struct {
	K string   `json:"k"`
	S string   `json:"s,omitempty"`
	// Pad appends that many 'x' to S (large string values without large case files).
	Pad int `json:"pad,omitempty"`
	B bool     `json:"b,omitempty"`
	I int64    `json:"i,omitempty"`
	D string   `json:"d,omitempty"` // strconv float text: NaN and Inf are not JSON numbers
	Y string   `json:"y,omitempty"` // hex
	A []AnyVal `json:"a,omitempty"`
	M []KeyVal `json:"m,omitempty"`
}

type KeyVal struct {
	Key string `json:"key"`
	Val AnyVal `json:"val"`
}

type OTLPSpan struct {
	TraceID  string   `json:"trace_id"`  // hex, 32 digits
	SpanID   string   `json:"span_id"`   // hex, 16 digits
	ParentID string   `json:"parent_id"` // hex, 16 digits or ""
	Name     string   `json:"name"`
	Kind     int32    `json:"kind"`
	Start    uint64   `json:"start"`
	End      uint64   `json:"end"`
	Attrs    []KeyVal `json:"attrs"`
	Events   int      `json:"events,omitempty"`
	Status   int32    `json:"status,omitempty"`
}

type OTLPScope struct {
	Name string `json:"name"`
	// Attrs are the instrumentation scope's own attributes (qryn ignores them).
	Attrs []KeyVal   `json:"attrs,omitempty"`
	Spans []OTLPSpan `json:"spans"`
}

type OTLPResource struct {
	Attrs  []KeyVal    `json:"attrs"`
	Scopes []OTLPScope `json:"scopes"`
}

type OTLPBatch struct {
	Resources []OTLPResource `json:"resources"`
}

// ServiceFamily are the attribute keys qryn consults for a service name.
var ServiceFamily = []string{"peer.service", "service.name", "faas.name", "k8s.deployment.name", "process.executable.name"}

var attrKeyPool = []string{
	"a", "b", "a.b", "a.0", "a.1", "a.b.c", "http.method", "http.status_code", "name", "remoteService.name",
	"", ".", "x y", "k\"q", "日本", "arr", "arr.0", "map", "map.k", "nested",
}

// Str is the string value (S plus padding).
func (v AnyVal) Str() string {
	if v.Pad > 0 {
		return v.S + strings.Repeat("x", v.Pad)
	}
	return v.S
}

func (v AnyVal) Proto() *common.AnyValue {
	switch v.K {
	case "s":
		return &common.AnyValue{Value: &common.AnyValue_StringValue{StringValue: v.Str()}}
	case "b":
		return &common.AnyValue{Value: &common.AnyValue_BoolValue{BoolValue: v.B}}
	case "i":
		return &common.AnyValue{Value: &common.AnyValue_IntValue{IntValue: v.I}}
	case "d":
		f, _ := strconv.ParseFloat(v.D, 64)
		return &common.AnyValue{Value: &common.AnyValue_DoubleValue{DoubleValue: f}}
	case "y":
		b, _ := hex.DecodeString(v.Y)
		return &common.AnyValue{Value: &common.AnyValue_BytesValue{BytesValue: b}}
	case "a":
		arr := &common.ArrayValue{}
		for _, e := range v.A {
			arr.Values = append(arr.Values, e.Proto())
		}
		return &common.AnyValue{Value: &common.AnyValue_ArrayValue{ArrayValue: arr}}
	case "m":
		return &common.AnyValue{Value: &common.AnyValue_KvlistValue{KvlistValue: &common.KeyValueList{Values: KVProto(v.M)}}}
	}
	return &common.AnyValue{}
}

func KVProto(kvs []KeyVal) []*common.KeyValue {
	var out []*common.KeyValue
	for _, kv := range kvs {
		out = append(out, &common.KeyValue{Key: kv.Key, Value: kv.Val.Proto()})
	}
	return out
}

// Nested reports whether the value is an array or a kvlist.
func (v AnyVal) Nested() bool { return v.K == "a" || v.K == "m" }

func (s OTLPSpan) Proto() *trace.Span {
	tid, _ := hex.DecodeString(s.TraceID)
	sid, _ := hex.DecodeString(s.SpanID)
	var pid []byte
	if s.ParentID != "" {
		pid, _ = hex.DecodeString(s.ParentID)
	}
	sp := &trace.Span{
		TraceId: tid, SpanId: sid, ParentSpanId: pid, Name: s.Name, Kind: trace.Span_SpanKind(s.Kind),
		StartTimeUnixNano: s.Start, EndTimeUnixNano: s.End, Attributes: KVProto(s.Attrs),
	}
	for i := 0; i < s.Events; i++ {
		sp.Events = append(sp.Events, &trace.Span_Event{TimeUnixNano: s.Start + uint64(i), Name: fmt.Sprintf("ev%d", i),
			Attributes: []*common.KeyValue{{Key: "i", Value: &common.AnyValue{Value: &common.AnyValue_IntValue{IntValue: int64(i)}}}}})
	}
	if s.Status != 0 {
		sp.Status = &trace.Status{Code: trace.Status_StatusCode(s.Status), Message: "st"}
	}
	return sp
}

func (b OTLPBatch) Proto() *trace.TracesData {
	td := &trace.TracesData{}
	for _, r := range b.Resources {
		rs := &trace.ResourceSpans{Resource: &resource.Resource{Attributes: KVProto(r.Attrs)}}
		for _, sc := range r.Scopes {
			ss := &trace.ScopeSpans{Scope: &common.InstrumentationScope{Name: sc.Name, Attributes: KVProto(sc.Attrs)}}
			for _, sp := range sc.Spans {
				ss.Spans = append(ss.Spans, sp.Proto())
			}
			rs.ScopeSpans = append(rs.ScopeSpans, ss)
		}
		td.ResourceSpans = append(td.ResourceSpans, rs)
	}
	return td
}

// Body is the protobuf request body.
func (b OTLPBatch) Body() []byte {
	body, err := proto.Marshal(b.Proto())
	if err != nil {
		panic("gen: OTLP batch does not marshal: " + err.Error())
	}
	return body
}

// NumSpans counts the spans of the batch.
func (b OTLPBatch) NumSpans() int {
	n := 0
	for _, r := range b.Resources {
		for _, s := range r.Scopes {
			n += len(s.Spans)
		}
	}
	return n
}

func genScalar(rt *rapid.T) AnyVal {
	switch rapid.IntRange(0, 9).Draw(rt, "scalar-kind") {
	case 0, 1, 2, 3:
		return AnyVal{K: "s", S: HostileUTF8(rt, "sval")}
	case 4:
		return AnyVal{K: "b", B: rapid.Bool().Draw(rt, "bval")}
	case 5, 6:
		return AnyVal{K: "i", I: rapid.OneOf(rapid.Int64Range(-5, 500), rapid.Int64()).Draw(rt, "ival")}
	case 7, 8:
		f := rapid.OneOf(rapid.Float64Range(-1000, 1000), rapid.Float64(),
			rapid.SampledFrom([]float64{0, math.Copysign(0, -1), 0.5, 1e-9, 1e21, math.MaxFloat64, math.SmallestNonzeroFloat64, math.Inf(1), math.Inf(-1), math.NaN()})).Draw(rt, "dval")
		return AnyVal{K: "d", D: strconv.FormatFloat(f, 'g', -1, 64)}
	default:
		if rapid.Bool().Draw(rt, "bytes") {
			return AnyVal{K: "y", Y: hex.EncodeToString(rapid.SliceOfN(rapid.Byte(), 0, 6).Draw(rt, "yval"))}
		}
		return AnyVal{K: "e"}
	}
}

func genAnyVal(rt *rapid.T, depth int) AnyVal {
	if depth <= 0 || rapid.IntRange(0, 9).Draw(rt, "nest") < 6 {
		return genScalar(rt)
	}
	n := rapid.IntRange(0, 3).Draw(rt, "nlen")
	if rapid.Bool().Draw(rt, "is-array") {
		v := AnyVal{K: "a"}
		for i := 0; i < n; i++ {
			v.A = append(v.A, genAnyVal(rt, depth-1))
		}
		return v
	}
	v := AnyVal{K: "m"}
	v.M = genAttrs(rt, n, depth-1, false)
	return v
}

// genAttrs draws n attributes with distinct keys. family: sprinkle service-name family keys.
func genAttrs(rt *rapid.T, n int, depth int, family bool) []KeyVal {
	seen := map[string]bool{}
	var out []KeyVal
	add := func(k string, v AnyVal) {
		if seen[k] {
			return
		}
		seen[k] = true
		out = append(out, KeyVal{Key: k, Val: v})
	}
	for i := 0; i < n; i++ {
		var k string
		if rapid.IntRange(0, 3).Draw(rt, "key-kind") == 0 {
			k = HostileUTF8(rt, "key")
		} else {
			k = rapid.SampledFrom(attrKeyPool).Draw(rt, "key")
		}
		add(k, genAnyVal(rt, depth))
	}
	if family {
		for _, k := range ServiceFamily {
			if rapid.IntRange(0, 5).Draw(rt, "fam-"+k) == 0 {
				// family members are scalars (semantic conventions: strings); a non-string
				// scalar is drawn now and then
				var v AnyVal
				switch rapid.IntRange(0, 9).Draw(rt, "fam-kind") {
				case 0:
					v = AnyVal{K: "i", I: rapid.Int64Range(0, 9).Draw(rt, "fam-i")}
				case 1:
					v = AnyVal{K: "s", S: ""}
				default:
					v = AnyVal{K: "s", S: rapid.SampledFrom([]string{"svc-a", "svc-b", "front end", "ü"}).Draw(rt, "fam-s")}
				}
				add(k, v)
			}
		}
	}
	return out
}

func genID(rt *rapid.T, n int, label string) string {
	switch rapid.IntRange(0, 11).Draw(rt, label+"-kind") {
	case 0:
		return hex.EncodeToString(make([]byte, n)) // "empty" id: all zero
	case 1:
		b := make([]byte, n)
		for i := range b {
			b[i] = 0xff
		}
		return hex.EncodeToString(b) // maximal id
	case 2:
		b := make([]byte, n)
		b[n-1] = byte(rapid.IntRange(1, 3).Draw(rt, label+"-low"))
		return hex.EncodeToString(b) // small: leading zeros
	default:
		return hex.EncodeToString(rapid.SliceOfN(rapid.Byte(), n, n).Draw(rt, label))
	}
}

func genTimes(rt *rapid.T) (uint64, uint64) {
	var start uint64
	switch rapid.IntRange(0, 9).Draw(rt, "start-kind") {
	case 0:
		start = 0
	case 1:
		start = rapid.Uint64Range(0, 1<<62).Draw(rt, "start")
	default:
		start = 1_700_000_000_000_000_000 + rapid.Uint64Range(0, 3_000_000_000).Draw(rt, "start")
	}
	dur := rapid.OneOf(rapid.Uint64Range(0, 5), rapid.Uint64Range(0, 1_000_000_000_000)).Draw(rt, "dur")
	return start, start + dur
}

// collisionKeys are drawn for attributes that sit on a resource and again on its spans
// (and scopes); they include the service-name family.
var collisionKeys = []string{"deployment.environment", "host.name", "service.name", "peer.service", "faas.name",
	"k8s.deployment.name", "process.executable.name", "a", "http.method"}

var collisionVals = []string{"prod", "canary", "svc-a", "svc-b", "eu-1", "front end"}

func genCollisionVal(rt *rapid.T, label string, not *AnyVal) AnyVal {
	for try := 0; ; try++ {
		var v AnyVal
		if rapid.IntRange(0, 9).Draw(rt, label+"-kind") == 7 {
			v = AnyVal{K: "i", I: rapid.Int64Range(0, 9).Draw(rt, label+"-i")}
		} else {
			v = AnyVal{K: "s", S: rapid.SampledFrom(collisionVals).Draw(rt, label)}
		}
		if not == nil || try > 4 || v.K != not.K || v.S != not.S || v.I != not.I {
			return v
		}
	}
}

func setAttr(kvs []KeyVal, k string, v AnyVal) []KeyVal {
	for i := range kvs {
		if kvs[i].Key == k {
			kvs[i].Val = v
			return kvs
		}
	}
	return append(kvs, KeyVal{Key: k, Val: v})
}

func getAttr(kvs []KeyVal, k string) *AnyVal {
	for i := range kvs {
		if kvs[i].Key == k {
			return &kvs[i].Val
		}
	}
	return nil
}

// maybeDuplicate repeats, in about one list out of ten, a key within the list itself, with a
// different (mostly) or equal scalar value, in front of or behind the rest.
func maybeDuplicate(rt *rapid.T, kvs []KeyVal, label string) []KeyVal {
	if rapid.IntRange(0, 9).Draw(rt, label+"-dup") != 4 {
		return kvs
	}
	k := "dup.key"
	var other *AnyVal
	if len(kvs) > 0 && rapid.Bool().Draw(rt, label+"-dup-existing") {
		e := kvs[rapid.IntRange(0, len(kvs)-1).Draw(rt, label+"-dup-pick")]
		k, other = e.Key, &e.Val
	} else {
		v := genCollisionVal(rt, label+"-dup-first", nil)
		kvs = append(kvs, KeyVal{Key: k, Val: v})
		other = &v
	}
	var v AnyVal
	if rapid.IntRange(0, 3).Draw(rt, label+"-dup-equal") == 2 && !other.Nested() {
		v = *other
	} else {
		v = genCollisionVal(rt, label+"-dup-val", other)
	}
	if rapid.Bool().Draw(rt, label+"-dup-front") {
		return append([]KeyVal{{Key: k, Val: v}}, kvs...)
	}
	return append(kvs, KeyVal{Key: k, Val: v})
}

// GenOTLPBatch draws a batch: 1-3 resources, 1-2 scopes each, 0-4 spans per scope; spans
// share trace ids and point at each other as parents. About 60 % of the resources share 1-3
// keys (collisionKeys) with their spans/scopes, with different values in ~70 % of the
// occurrences; about one attribute list in ten repeats a key; about one batch in fifty is
// larger than 1 MiB.
func GenOTLPBatch(rt *rapid.T) OTLPBatch {
	var b OTLPBatch
	// now and then every span carries a large string attribute, so that the batch passes the
	// parser's 1 MiB flush mark and comes back in two or more portions
	big := rapid.IntRange(0, 24).Draw(rt, "big-batch") == 13
	nres := rapid.IntRange(1, 3).Draw(rt, "nres")
	traces := []string{genID(rt, 16, "trace")}
	var spanIDs []string
	for r := 0; r < nres; r++ {
		res := OTLPResource{}
		res.Attrs = genAttrs(rt, rapid.IntRange(0, 3).Draw(rt, "nresattr"), 1, false)
		if rapid.IntRange(0, 9).Draw(rt, "res-svc") < 7 {
			res.Attrs = append(res.Attrs, KeyVal{Key: "service.name", Val: AnyVal{K: "s", S: rapid.SampledFrom([]string{"svc-a", "svc-b", "shop", ""}).Draw(rt, "svc")}})
			// keep keys unique within the list
			seen := map[string]bool{}
			var uniq []KeyVal
			for i := len(res.Attrs) - 1; i >= 0; i-- {
				if !seen[res.Attrs[i].Key] {
					seen[res.Attrs[i].Key] = true
					uniq = append([]KeyVal{res.Attrs[i]}, uniq...)
				}
			}
			res.Attrs = uniq
		}
		// keys this resource shares with (some of) its scopes and spans
		var shared []string
		if rapid.IntRange(0, 9).Draw(rt, "res-shared") < 6 {
			n := rapid.IntRange(1, 3).Draw(rt, "res-nshared")
			for i := 0; i < n; i++ {
				k := rapid.SampledFrom(collisionKeys).Draw(rt, "shared-key")
				res.Attrs = setAttr(res.Attrs, k, genCollisionVal(rt, "res-shared-val", nil))
				shared = append(shared, k)
			}
		}
		res.Attrs = maybeDuplicate(rt, res.Attrs, "res")
		nsc := rapid.IntRange(1, 2).Draw(rt, "nscope")
		for s := 0; s < nsc; s++ {
			sc := OTLPScope{Name: rapid.SampledFrom([]string{"", "lib", "io.otel"}).Draw(rt, "scope")}
			for _, k := range shared {
				if rapid.IntRange(0, 9).Draw(rt, "scope-shared") < 3 {
					sc.Attrs = setAttr(sc.Attrs, k, genCollisionVal(rt, "scope-shared-val", getAttr(res.Attrs, k)))
				}
			}
			nsp := rapid.IntRange(0, 4).Draw(rt, "nspans")
			for i := 0; i < nsp; i++ {
				sp := OTLPSpan{}
				if rapid.IntRange(0, 3).Draw(rt, "new-trace") == 0 {
					traces = append(traces, genID(rt, 16, "trace"))
				}
				sp.TraceID = rapid.SampledFrom(traces).Draw(rt, "trace-pick")
				sp.SpanID = genID(rt, 8, "span")
				switch rapid.IntRange(0, 5).Draw(rt, "parent-kind") {
				case 0, 1:
				case 2:
					sp.ParentID = genID(rt, 8, "parent")
				default:
					if len(spanIDs) > 0 {
						sp.ParentID = rapid.SampledFrom(spanIDs).Draw(rt, "parent-pick")
					}
				}
				spanIDs = append(spanIDs, sp.SpanID)
				sp.Name = HostileUTF8(rt, "span-name")
				sp.Kind = int32(rapid.IntRange(0, 5).Draw(rt, "span-kind"))
				sp.Start, sp.End = genTimes(rt)
				sp.Attrs = genAttrs(rt, rapid.IntRange(0, 5).Draw(rt, "nattr"), 2, true)
				for _, k := range shared {
					if rapid.IntRange(0, 9).Draw(rt, "span-shared") < 6 {
						rv := getAttr(res.Attrs, k)
						if rapid.IntRange(0, 9).Draw(rt, "span-shared-equal") < 3 && rv != nil {
							sp.Attrs = setAttr(sp.Attrs, k, *rv)
						} else {
							sp.Attrs = setAttr(sp.Attrs, k, genCollisionVal(rt, "span-shared-val", rv))
						}
					}
				}
				sp.Attrs = maybeDuplicate(rt, sp.Attrs, "span")
				if big {
					sp.Attrs = append(sp.Attrs, KeyVal{Key: "blob", Val: AnyVal{K: "s", S: "b", Pad: rapid.IntRange(150_000, 400_000).Draw(rt, "blob-pad")}})
				}
				sp.Events = rapid.IntRange(0, 2).Draw(rt, "events")
				sp.Status = int32(rapid.IntRange(0, 2).Draw(rt, "status"))
				sc.Spans = append(sc.Spans, sp)
			}
			res.Scopes = append(res.Scopes, sc)
		}
		b.Resources = append(b.Resources, res)
	}
	return b
}

package gen

import (
	"encoding/hex"
	"fmt"
	"math"
	"strconv"

	common "go.opentelemetry.io/proto/otlp/common/v1"
	resource "go.opentelemetry.io/proto/otlp/resource/v1"
	trace "go.opentelemetry.io/proto/otlp/trace/v1"
	"google.golang.org/protobuf/proto"
	"pgregory.net/rapid"
)

// ---- OTLP span batches ------------------------------------------------------------------
//
// Plain-data model of an OTLP TracesData message. Soundness restrictions (what every real
// exporter respects, and what qryn's decoder relies on without checking):
//   * every ResourceSpans carries a Resource (writer/utils/unmarshal/otlpUnmarshal.go:79
//     dereferences res.Resource), every KeyValue carries a Value (…:133 kv.Value.Value);
//   * trace ids are 16 bytes and span ids 8 bytes (wrong lengths are C05's subject: they
//     panic in ColFixedStr.Append), parent ids are 8 bytes or absent;
//   * strings are valid UTF-8 (proto3 string fields; proto.Unmarshal rejects anything else);
//   * attribute keys are unique within one attribute list (OTLP specification: "attribute
//     keys MUST be unique"); the same key may occur on the span and on its resource;
//   * end >= start and start < 2^63 (the row column is Int64).

// AnyVal is an OTLP AnyValue. K: s(tring) b(ool) i(nt) d(ouble) y(bytes) a(rray) m(ap/kvlist) e(mpty).
type AnyVal struct {
	K string   `json:"k"`
	S string   `json:"s,omitempty"`
	B bool     `json:"b,omitempty"`
	I int64    `json:"i,omitempty"`
	D string   `json:"d,omitempty"` // strconv float text: NaN and Inf are not JSON numbers
	Y string   `json:"y,omitempty"` // hex
	A []AnyVal `json:"a,omitempty"`
	M []KeyVal `json:"m,omitempty"`
}

type KeyVal struct {
	Key string `json:"key"`
	Val AnyVal `json:"val"`
}

type OTLPSpan struct {
	TraceID  string   `json:"trace_id"`  // hex, 32 digits
	SpanID   string   `json:"span_id"`   // hex, 16 digits
	ParentID string   `json:"parent_id"` // hex, 16 digits or ""
	Name     string   `json:"name"`
	Kind     int32    `json:"kind"`
	Start    uint64   `json:"start"`
	End      uint64   `json:"end"`
	Attrs    []KeyVal `json:"attrs"`
	Events   int      `json:"events,omitempty"`
	Status   int32    `json:"status,omitempty"`
}

type OTLPScope struct {
	Name  string     `json:"name"`
	Spans []OTLPSpan `json:"spans"`
}

type OTLPResource struct {
	Attrs  []KeyVal    `json:"attrs"`
	Scopes []OTLPScope `json:"scopes"`
}

type OTLPBatch struct {
	Resources []OTLPResource `json:"resources"`
}

// ServiceFamily are the attribute keys qryn consults for a service name.
var ServiceFamily = []string{"peer.service", "service.name", "faas.name", "k8s.deployment.name", "process.executable.name"}

var attrKeyPool = []string{
	"a", "b", "a.b", "a.0", "a.1", "a.b.c", "http.method", "http.status_code", "name", "remoteService.name",
	"", ".", "x y", "k\"q", "日本", "arr", "arr.0", "map", "map.k", "nested",
}

func (v AnyVal) Proto() *common.AnyValue {
	switch v.K {
	case "s":
		return &common.AnyValue{Value: &common.AnyValue_StringValue{StringValue: v.S}}
	case "b":
		return &common.AnyValue{Value: &common.AnyValue_BoolValue{BoolValue: v.B}}
	case "i":
		return &common.AnyValue{Value: &common.AnyValue_IntValue{IntValue: v.I}}
	case "d":
		f, _ := strconv.ParseFloat(v.D, 64)
		return &common.AnyValue{Value: &common.AnyValue_DoubleValue{DoubleValue: f}}
	case "y":
		b, _ := hex.DecodeString(v.Y)
		return &common.AnyValue{Value: &common.AnyValue_BytesValue{BytesValue: b}}
	case "a":
		arr := &common.ArrayValue{}
		for _, e := range v.A {
			arr.Values = append(arr.Values, e.Proto())
		}
		return &common.AnyValue{Value: &common.AnyValue_ArrayValue{ArrayValue: arr}}
	case "m":
		return &common.AnyValue{Value: &common.AnyValue_KvlistValue{KvlistValue: &common.KeyValueList{Values: KVProto(v.M)}}}
	}
	return &common.AnyValue{}
}

func KVProto(kvs []KeyVal) []*common.KeyValue {
	var out []*common.KeyValue
	for _, kv := range kvs {
		out = append(out, &common.KeyValue{Key: kv.Key, Value: kv.Val.Proto()})
	}
	return out
}

// Nested reports whether the value is an array or a kvlist.
func (v AnyVal) Nested() bool { return v.K == "a" || v.K == "m" }

func (s OTLPSpan) Proto() *trace.Span {
	tid, _ := hex.DecodeString(s.TraceID)
	sid, _ := hex.DecodeString(s.SpanID)
	var pid []byte
	if s.ParentID != "" {
		pid, _ = hex.DecodeString(s.ParentID)
	}
	sp := &trace.Span{
		TraceId: tid, SpanId: sid, ParentSpanId: pid, Name: s.Name, Kind: trace.Span_SpanKind(s.Kind),
		StartTimeUnixNano: s.Start, EndTimeUnixNano: s.End, Attributes: KVProto(s.Attrs),
	}
	for i := 0; i < s.Events; i++ {
		sp.Events = append(sp.Events, &trace.Span_Event{TimeUnixNano: s.Start + uint64(i), Name: fmt.Sprintf("ev%d", i),
			Attributes: []*common.KeyValue{{Key: "i", Value: &common.AnyValue{Value: &common.AnyValue_IntValue{IntValue: int64(i)}}}}})
	}
	if s.Status != 0 {
		sp.Status = &trace.Status{Code: trace.Status_StatusCode(s.Status), Message: "st"}
	}
	return sp
}

func (b OTLPBatch) Proto() *trace.TracesData {
	td := &trace.TracesData{}
	for _, r := range b.Resources {
		rs := &trace.ResourceSpans{Resource: &resource.Resource{Attributes: KVProto(r.Attrs)}}
		for _, sc := range r.Scopes {
			ss := &trace.ScopeSpans{Scope: &common.InstrumentationScope{Name: sc.Name}}
			for _, sp := range sc.Spans {
				ss.Spans = append(ss.Spans, sp.Proto())
			}
			rs.ScopeSpans = append(rs.ScopeSpans, ss)
		}
		td.ResourceSpans = append(td.ResourceSpans, rs)
	}
	return td
}

// Body is the protobuf request body.
func (b OTLPBatch) Body() []byte {
	body, err := proto.Marshal(b.Proto())
	if err != nil {
		panic("gen: OTLP batch does not marshal: " + err.Error())
	}
	return body
}

// NumSpans counts the spans of the batch.
func (b OTLPBatch) NumSpans() int {
	n := 0
	for _, r := range b.Resources {
		for _, s := range r.Scopes {
			n += len(s.Spans)
		}
	}
	return n
}

func genScalar(rt *rapid.T) AnyVal {
	switch rapid.IntRange(0, 9).Draw(rt, "scalar-kind") {
	case 0, 1, 2, 3:
		return AnyVal{K: "s", S: HostileUTF8(rt, "sval")}
	case 4:
		return AnyVal{K: "b", B: rapid.Bool().Draw(rt, "bval")}
	case 5, 6:
		return AnyVal{K: "i", I: rapid.OneOf(rapid.Int64Range(-5, 500), rapid.Int64()).Draw(rt, "ival")}
	case 7, 8:
		f := rapid.OneOf(rapid.Float64Range(-1000, 1000), rapid.Float64(),
			rapid.SampledFrom([]float64{0, math.Copysign(0, -1), 0.5, 1e-9, 1e21, math.MaxFloat64, math.SmallestNonzeroFloat64, math.Inf(1), math.Inf(-1), math.NaN()})).Draw(rt, "dval")
		return AnyVal{K: "d", D: strconv.FormatFloat(f, 'g', -1, 64)}
	default:
		if rapid.Bool().Draw(rt, "bytes") {
			return AnyVal{K: "y", Y: hex.EncodeToString(rapid.SliceOfN(rapid.Byte(), 0, 6).Draw(rt, "yval"))}
		}
		return AnyVal{K: "e"}
	}
}

func genAnyVal(rt *rapid.T, depth int) AnyVal {
	if depth <= 0 || rapid.IntRange(0, 9).Draw(rt, "nest") < 6 {
		return genScalar(rt)
	}
	n := rapid.IntRange(0, 3).Draw(rt, "nlen")
	if rapid.Bool().Draw(rt, "is-array") {
		v := AnyVal{K: "a"}
		for i := 0; i < n; i++ {
			v.A = append(v.A, genAnyVal(rt, depth-1))
		}
		return v
	}
	v := AnyVal{K: "m"}
	v.M = genAttrs(rt, n, depth-1, false)
	return v
}

// genAttrs draws n attributes with distinct keys. family: sprinkle service-name family keys.
func genAttrs(rt *rapid.T, n int, depth int, family bool) []KeyVal {
	seen := map[string]bool{}
	var out []KeyVal
	add := func(k string, v AnyVal) {
		if seen[k] {
			return
		}
		seen[k] = true
		out = append(out, KeyVal{Key: k, Val: v})
	}
	for i := 0; i < n; i++ {
		var k string
		if rapid.IntRange(0, 3).Draw(rt, "key-kind") == 0 {
			k = HostileUTF8(rt, "key")
		} else {
			k = rapid.SampledFrom(attrKeyPool).Draw(rt, "key")
		}
		add(k, genAnyVal(rt, depth))
	}
	if family {
		for _, k := range ServiceFamily {
			if rapid.IntRange(0, 5).Draw(rt, "fam-"+k) == 0 {
				// family members are scalars (semantic conventions: strings); a non-string
				// scalar is drawn now and then
				var v AnyVal
				switch rapid.IntRange(0, 9).Draw(rt, "fam-kind") {
				case 0:
					v = AnyVal{K: "i", I: rapid.Int64Range(0, 9).Draw(rt, "fam-i")}
				case 1:
					v = AnyVal{K: "s", S: ""}
				default:
					v = AnyVal{K: "s", S: rapid.SampledFrom([]string{"svc-a", "svc-b", "front end", "ü"}).Draw(rt, "fam-s")}
				}
				add(k, v)
			}
		}
	}
	return out
}

func genID(rt *rapid.T, n int, label string) string {
	switch rapid.IntRange(0, 11).Draw(rt, label+"-kind") {
	case 0:
		return hex.EncodeToString(make([]byte, n)) // "empty" id: all zero
	case 1:
		b := make([]byte, n)
		for i := range b {
			b[i] = 0xff
		}
		return hex.EncodeToString(b) // maximal id
	case 2:
		b := make([]byte, n)
		b[n-1] = byte(rapid.IntRange(1, 3).Draw(rt, label+"-low"))
		return hex.EncodeToString(b) // small: leading zeros
	default:
		return hex.EncodeToString(rapid.SliceOfN(rapid.Byte(), n, n).Draw(rt, label))
	}
}

func genTimes(rt *rapid.T) (uint64, uint64) {
	var start uint64
	switch rapid.IntRange(0, 9).Draw(rt, "start-kind") {
	case 0:
		start = 0
	case 1:
		start = rapid.Uint64Range(0, 1<<62).Draw(rt, "start")
	default:
		start = 1_700_000_000_000_000_000 + rapid.Uint64Range(0, 3_000_000_000).Draw(rt, "start")
	}
	dur := rapid.OneOf(rapid.Uint64Range(0, 5), rapid.Uint64Range(0, 1_000_000_000_000)).Draw(rt, "dur")
	return start, start + dur
}

// GenOTLPBatch draws a batch: 1-3 resources, 1-2 scopes each, 0-4 spans per scope; spans
// share trace ids and point at each other as parents.
func GenOTLPBatch(rt *rapid.T) OTLPBatch {
	var b OTLPBatch
	nres := rapid.IntRange(1, 3).Draw(rt, "nres")
	traces := []string{genID(rt, 16, "trace")}
	var spanIDs []string
	for r := 0; r < nres; r++ {
		res := OTLPResource{}
		res.Attrs = genAttrs(rt, rapid.IntRange(0, 3).Draw(rt, "nresattr"), 1, false)
		if rapid.IntRange(0, 9).Draw(rt, "res-svc") < 7 {
			res.Attrs = append(res.Attrs, KeyVal{Key: "service.name", Val: AnyVal{K: "s", S: rapid.SampledFrom([]string{"svc-a", "svc-b", "shop", ""}).Draw(rt, "svc")}})
			// keep keys unique within the list
			seen := map[string]bool{}
			var uniq []KeyVal
			for i := len(res.Attrs) - 1; i >= 0; i-- {
				if !seen[res.Attrs[i].Key] {
					seen[res.Attrs[i].Key] = true
					uniq = append([]KeyVal{res.Attrs[i]}, uniq...)
				}
			}
			res.Attrs = uniq
		}
		nsc := rapid.IntRange(1, 2).Draw(rt, "nscope")
		for s := 0; s < nsc; s++ {
			sc := OTLPScope{Name: rapid.SampledFrom([]string{"", "lib", "io.otel"}).Draw(rt, "scope")}
			nsp := rapid.IntRange(0, 4).Draw(rt, "nspans")
			for i := 0; i < nsp; i++ {
				sp := OTLPSpan{}
				if rapid.IntRange(0, 3).Draw(rt, "new-trace") == 0 {
					traces = append(traces, genID(rt, 16, "trace"))
				}
				sp.TraceID = rapid.SampledFrom(traces).Draw(rt, "trace-pick")
				sp.SpanID = genID(rt, 8, "span")
				switch rapid.IntRange(0, 5).Draw(rt, "parent-kind") {
				case 0, 1:
				case 2:
					sp.ParentID = genID(rt, 8, "parent")
				default:
					if len(spanIDs) > 0 {
						sp.ParentID = rapid.SampledFrom(spanIDs).Draw(rt, "parent-pick")
					}
				}
				spanIDs = append(spanIDs, sp.SpanID)
				sp.Name = HostileUTF8(rt, "span-name")
				sp.Kind = int32(rapid.IntRange(0, 5).Draw(rt, "span-kind"))
				sp.Start, sp.End = genTimes(rt)
				sp.Attrs = genAttrs(rt, rapid.IntRange(0, 5).Draw(rt, "nattr"), 2, true)
				sp.Events = rapid.IntRange(0, 2).Draw(rt, "events")
				sp.Status = int32(rapid.IntRange(0, 2).Draw(rt, "status"))
				sc.Spans = append(sc.Spans, sp)
			}
			res.Scopes = append(res.Scopes, sc)
		}
		b.Resources = append(b.Resources, res)
	}
	return b
}

package gen

// labeldoc.go: strict decoding of the label document qryn stores in time_series.labels.

import (
	"bytes"
	"encoding/json"
	"fmt"
	"unicode/utf8"
)

// DecodeLabelDoc decodes a stored label document: it must be valid JSON (RFC 8259:
// encoding/json's validator plus valid UTF-8, which ClickHouse's JSON functions and every
// strict parser demand), an object whose values are all strings. Duplicate keys are kept,
// so the result can be compared as a multiset.
func DecodeLabelDoc(doc string) ([]Label, error) {
	if !json.Valid([]byte(doc)) {
		return nil, fmt.Errorf("label document is not valid JSON: %q", clip(doc, 300))
	}
	if !utf8.ValidString(doc) {
		return nil, fmt.Errorf("label document is not valid UTF-8 (hence not JSON): %q", clip(doc, 300))
	}
	dec := json.NewDecoder(bytes.NewReader([]byte(doc)))
	tok, err := dec.Token()
	if err != nil {
		return nil, err
	}
	if d, ok := tok.(json.Delim); !ok || d != '{' {
		return nil, fmt.Errorf("label document is not an object: %q", clip(doc, 300))
	}
	var out []Label
	for dec.More() {
		k, err := dec.Token()
		if err != nil {
			return nil, err
		}
		ks, ok := k.(string)
		if !ok {
			return nil, fmt.Errorf("label document key is not a string: %q", clip(doc, 300))
		}
		v, err := dec.Token()
		if err != nil {
			return nil, err
		}
		vs, ok := v.(string)
		if !ok {
			return nil, fmt.Errorf("label document value of %q is not a string: %q", ks, clip(doc, 300))
		}
		out = append(out, L(ks, vs))
	}
	if _, err := dec.Token(); err != nil {
		return nil, err
	}
	if dec.More() {
		return nil, fmt.Errorf("trailing data after label document: %q", clip(doc, 300))
	}
	return out, nil
}

// DocRepresentable reports whether a label set can be written as a JSON document at all:
// every name and value must be valid UTF-8 (JSON text cannot carry other bytes).
func DocRepresentable(ls []Label) bool {
	for _, l := range ls {
		if !utf8.ValidString(string(l.Name)) || !utf8.ValidString(string(l.Value)) {
			return false
		}
	}
	return true
}

// DocSafeUnderGoQuote reports whether strconv.Quote happens to produce valid JSON for
// every name and value of the set (see JSONSafeUnderGoQuote).
func DocSafeUnderGoQuote(ls []Label) bool {
	for _, l := range ls {
		if !JSONSafeUnderGoQuote(string(l.Name)) || !JSONSafeUnderGoQuote(string(l.Value)) {
			return false
		}
	}
	return true
}

func clip(s string, n int) string {
	if len(s) > n {
		return s[:n] + "…"
	}
	return s
}

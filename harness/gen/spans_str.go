// Package gen holds generators shared between property packages. Files spans*.go: span
// batches (OTLP protobuf, Zipkin JSON); pprof*.go: pprof profiles.
package gen

import (
	"strings"
	"unicode/utf8"

	"pgregory.net/rapid"
)

var hostilePieces = []string{
	"", " ", "a", "0", "-1", "true", "null", "\"", "\\", "'", "a\"b", "a\\", "\\n", "\x00", "\x01\x1f", "\n", "\r\n", "\t",
	"\u00e9", "\u65e5\u672c\u8a9e", "\U0001f600", "\u2028", "\ufeff", "{}", "[]", "{", "}", ",", ":", "a.b", "a b", "%s", "%d", "\x7f", "</script>",
	"e\u0301", "\U0010ffff", "/", "\b\f", "=", "`", "$", ";", "--", "\u0085",
}

// HostileUTF8 draws a valid-UTF-8 string biased towards characters that break quoting,
// escaping and framing (quotes, backslashes, control bytes, separators, astral runes).
// Use it where the wire format requires valid UTF-8 (protobuf string fields, JSON text).
func HostileUTF8(rt *rapid.T, label string) string {
	switch rapid.IntRange(0, 9).Draw(rt, label+"-kind") {
	case 0, 1, 2:
		return rapid.StringMatching(`[a-z]{1,8}`).Draw(rt, label)
	case 3, 4:
		return rapid.SampledFrom(hostilePieces).Draw(rt, label)
	case 5, 6:
		n := rapid.IntRange(1, 4).Draw(rt, label+"-n")
		var sb strings.Builder
		for i := 0; i < n; i++ {
			sb.WriteString(rapid.SampledFrom(hostilePieces).Draw(rt, label))
		}
		return sb.String()
	case 7:
		s := rapid.StringN(0, 12, -1).Draw(rt, label)
		if !utf8.ValidString(s) {
			s = strings.ToValidUTF8(s, "?")
		}
		return s
	case 8:
		return rapid.StringMatching(`[A-Za-z_][A-Za-z0-9_.-]{0,12}`).Draw(rt, label)
	default:
		return rapid.StringMatching(`[ -~]{0,16}`).Draw(rt, label)
	}
}

package gen

// datadog.go: Datadog v2 logs and metrics JSON.
//
// Logs (decoder writer/utils/unmarshal/datadogJsonUnmarshal.go): an array of objects; the
// labels of an entry are its ddtags ("k:v,k2:v2", pattern datadogJsonUnmarshal.go:24) plus
// the non-empty members ddsource, service, hostname, source_type. Convention of the model:
// labels of the set with those four names travel as members, every other label as a tag.
// qryn adds type="datadog" (DDLogsExpected).
//
// Metrics (datadogMetricsJsonUnmarshal.go): {"series":[{"metric":m,"resources":[{k:v}],
// "points":[{"timestamp":<s>,"value":v}]}]}; labels are __name__=m and
// resource<i>_<k>=v. Convention: the set holds "__name__" and labels literally named
// resource<i>_<k> with i contiguous from 1.

import (
	"regexp"
	"sort"
	"strconv"
	"strings"
)

var ddMembers = map[string]bool{"ddsource": true, "service": true, "hostname": true, "source_type": true}

// DDLogsReserved are the label names a tag must not use.
var DDLogsReserved = []string{"ddsource", "service", "hostname", "source_type", "type"}

// DDLogsExpected is the label set qryn stores for a Datadog log entry of this set.
func DDLogsExpected(ls []Label) []Label {
	return append(append([]Label(nil), ls...), L("type", "datadog"))
}

// EncodeDDLogs serialises the body; timestamps are written in milliseconds.
func EncodeDDLogs(b Body) []byte {
	sp := ""
	if b.Style&1 != 0 {
		sp = " "
	}
	var objs []string
	for _, c := range b.Expand() {
		var tags []string
		var ms0 []jsonMember
		for _, l := range c.Labels {
			if ddMembers[string(l.Name)] {
				ms0 = append(ms0, jsonMember{string(l.Name), JSONStr(string(l.Value), c.Style>>8)})
			} else {
				tags = append(tags, string(l.Name)+":"+string(l.Value))
			}
		}
		for _, e := range c.Entries {
			ms := append([]jsonMember(nil), ms0...)
			if len(tags) > 0 || e.Style&1 != 0 {
				t := strings.Join(tags, ",")
				if e.Style&2 != 0 && t != "" {
					t += "," // trailing comma as in the decoder's own test
				}
				ms = append(ms, jsonMember{"ddtags", JSONStr(t, 0)})
			}
			ms = append(ms, jsonMember{"message", JSONStr(e.Line, e.Style>>8)}, jsonMember{"timestamp", strconv.FormatInt(e.Ts/1e6, 10)})
			if e.Style&4 != 0 {
				ms = append(ms, jsonMember{"status", `"info"`})
			}
			objs = append(objs, jsonObj(ms, uint64(e.Style>>3)&31, sp))
		}
	}
	return []byte("[" + strings.Join(objs, ","+sp) + "]")
}

var ddResRe = regexp.MustCompile(`^resource([0-9]+)_(.*)$`)

// EncodeDDMetrics serialises the body; timestamps are written in seconds.
func EncodeDDMetrics(b Body) []byte {
	sp := ""
	if b.Style&1 != 0 {
		sp = " "
	}
	var series []string
	for _, c := range b.Expand() {
		var ms []jsonMember
		res := map[int][]jsonMember{}
		for _, l := range c.Labels {
			if l.Name == "__name__" {
				ms = append(ms, jsonMember{"metric", JSONStr(string(l.Value), c.Style>>8)})
				continue
			}
			if m := ddResRe.FindStringSubmatch(string(l.Name)); m != nil {
				i, _ := strconv.Atoi(m[1])
				res[i] = append(res[i], jsonMember{m[2], JSONStr(string(l.Value), c.Style>>8)})
			}
		}
		var idx []int
		for i := range res {
			idx = append(idx, i)
		}
		sort.Ints(idx)
		var ros []string
		for _, i := range idx {
			ros = append(ros, jsonObj(res[i], 0, sp))
		}
		if len(ros) > 0 || c.Style&1 != 0 {
			ms = append(ms, jsonMember{"resources", "[" + strings.Join(ros, ","+sp) + "]"})
		}
		var pts []string
		for _, e := range c.Entries {
			pm := []jsonMember{{"timestamp", strconv.FormatInt(e.Ts/1e9, 10)}, {"value", jsonFloat(e.Val)}}
			pts = append(pts, jsonObj(pm, uint64(e.Style&1), sp))
		}
		ms = append(ms, jsonMember{"points", "[" + strings.Join(pts, ","+sp) + "]"})
		if c.Style&2 != 0 {
			ms = append(ms, jsonMember{"type", "3"}, jsonMember{"unit", `"byte"`})
		}
		series = append(series, jsonObj(ms, uint64(c.Style>>2)&31, sp))
	}
	top := []jsonMember{{"series", "[" + strings.Join(series, ","+sp) + "]"}}
	if b.Style&2 != 0 {
		top = append(top, jsonMember{"extra", `{"series":[1]}`})
	}
	return []byte(jsonObj(top, uint64(b.Style>>2), sp))
}

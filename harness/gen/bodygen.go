package gen

// bodygen.go: rapid generators of logical bodies per ingest protocol, with size classes
// that cross qryn's internal thresholds: the remote-write decoder flushes every 1 000
// points (metricsProtobuf.go:21) and the response builder starts a new response above
// 1 MiB of accumulated rows (builder.go:355, 26 bytes + len(line) per sample).

import (
	"fmt"

	"pgregory.net/rapid"

	"qrynverif/evid"
)

// Proto names an ingest protocol.
type Proto string

const (
	LokiJSON  Proto = "loki-json"
	LokiProto Proto = "loki-proto"
	PromRW    Proto = "prom-rw"
	Influx    Proto = "influx"
	DDLogs    Proto = "dd-logs"
	DDMetrics Proto = "dd-metrics"
	OTLPLogs  Proto = "otlp-logs"
)

// Protos lists all protocols with a body encoder.
var Protos = []Proto{LokiJSON, LokiProto, PromRW, Influx, DDLogs, DDMetrics, OTLPLogs}

// Encode serialises the body for the protocol (protobuf bodies uncompressed: the
// exported parsers receive them after withUnsnappyRequest; use Snappy for HTTP).
func Encode(p Proto, b Body) []byte {
	switch p {
	case LokiJSON:
		return EncodeLokiJSON(b)
	case LokiProto:
		return EncodeLokiProto(b)
	case PromRW:
		return EncodePromRW(b)
	case Influx:
		return EncodeInflux(b)
	case DDLogs:
		return EncodeDDLogs(b)
	case DDMetrics:
		return EncodeDDMetrics(b)
	case OTLPLogs:
		return EncodeOTLPLogs(b)
	}
	panic("gen: unknown protocol " + string(p))
}

// TsUnit is the timestamp resolution of the protocol in nanoseconds.
func TsUnit(p Proto, b Body) int64 {
	switch p {
	case PromRW, DDLogs:
		return 1e6
	case DDMetrics:
		return 1e9
	case Influx:
		return int64(InfluxPrecision(b))
	}
	return 1
}

// ExpectedLabels is the label set qryn is expected to store for a chunk's labels.
func ExpectedLabels(p Proto, ls []Label) []Label {
	switch p {
	case LokiJSON, LokiProto, PromRW:
		return Sanitized(ls)
	case Influx:
		// influxUnmarshal.go:55 sanitizeLabels on measurement+tags; :85 the field key is
		// sanitised like a name and becomes the value of __name__
		out := make([]Label, 0, len(ls))
		for _, l := range ls {
			if l.Name == "__name__" {
				out = append(out, L("__name__", SanitizeName(string(l.Value))))
			} else {
				out = append(out, L(SanitizeName(string(l.Name)), TruncValue(string(l.Value))))
			}
		}
		return out
	case DDLogs:
		return DDLogsExpected(ls)
	case DDMetrics:
		return append([]Label(nil), ls...)
	case OTLPLogs:
		out := make([]Label, len(ls))
		for i, l := range ls {
			out[i] = L(OTLPSanitizeKey(string(l.Name)), string(l.Value))
		}
		return out
	}
	panic("gen: unknown protocol " + string(p))
}

// ExpectedLine is the text qryn is expected to store for an entry.
func ExpectedLine(p Proto, e FlatEntry) string {
	if p == Influx && InfluxHasExtraField(e) {
		return "message=" + e.Line + " extra=5"
	}
	return e.Line
}

// Size classes of BodyOf.
const (
	SizeSmall  = "small"
	SizePoints = "points" // more than 1 000 points
	SizeBytes  = "bytes"  // more than 1 MiB of sample rows
)

func labelOptFor(p Proto) LabelOpt {
	switch p {
	case LokiProto:
		// Loki rejects a stream without labels; "{}" is not accepted by unmarshal.go:340 either
		return LabelOpt{Min: 1, Max: 6, Names: NamesGoIdent, Val: StrOpt{UTF8Only: true}, Long: true}
	case PromRW:
		return LabelOpt{Min: 1, Max: 6, Names: NamesUTF8, Val: StrOpt{UTF8Only: true}, Long: true}
	case Influx:
		return LabelOpt{Min: 0, Max: 4, Names: NamesAny, NameExclude: InfluxExclude, Val: StrOpt{Exclude: InfluxExclude, NoEmpty: true}, Long: true,
			Reserved: []string{"measurement", "__name__"}}
	case DDMetrics:
		return LabelOpt{Min: 0, Max: 4, Names: NamesPlain, Val: StrOpt{}}
	case OTLPLogs:
		return LabelOpt{Min: 0, Max: 6, Names: NamesUTF8, Val: StrOpt{UTF8Only: true}, Sanitizer: OTLPSanitizeKey}
	}
	return LabelOpt{Min: 1, Max: 6, Names: NamesAny, Val: StrOpt{}, Long: true}
}

func drawSet(rt *rapid.T, p Proto, metric bool) []Label {
	o := labelOptFor(p)
	switch p {
	case LokiJSON:
		if metric || rapid.Bool().Draw(rt, "ident-names") {
			o.Names = NamesGoIdent
		}
		return LabelSet(rt, o)
	case Influx:
		tags := LabelSet(rt, o)
		for i := range tags { // an empty tag key or value is a syntax error in the line protocol
			if tags[i].Value == "" {
				tags[i].Value = "v"
			}
		}
		m := HostileStr(rt, "measurement", StrOpt{Exclude: InfluxExclude, NoEmpty: true, Max: 12})
		ls := append([]Label{L("measurement", m)}, tags...)
		if metric {
			f := HostileStr(rt, "field", StrOpt{Exclude: InfluxExclude, NoEmpty: true, Max: 10})
			if f == "message" { // a field "message" makes the line a log line (influxUnmarshal.go:59)
				f = "message_"
			}
			ls = append(ls, L("__name__", f))
		}
		return ls
	case DDLogs:
		var ls []Label
		seen := map[string]bool{}
		for _, r := range DDLogsReserved {
			seen[r] = true
		}
		n := rapid.IntRange(0, 4).Draw(rt, "ntags")
		for i := 0; i < n; i++ {
			name := rapid.StringMatching(`[a-zA-Z][a-zA-Z0-9_]{0,6}`).Draw(rt, "tag")
			if seen[name] || len(name) >= 5 && name[:5] == "qvfan" {
				continue
			}
			seen[name] = true
			// value alphabet of the decoder's tag pattern: [\p{L}_0-9\-.\\/:]+
			v := rapid.StringMatching(`[a-zA-Z0-9_./:\\éñ-]{1,10}`).Draw(rt, "tagv")
			ls = append(ls, L(name, v))
		}
		for _, m := range []string{"ddsource", "service", "hostname", "source_type"} {
			if rapid.IntRange(0, 2).Draw(rt, "has-"+m) > 0 {
				ls = append(ls, L(m, HostileStr(rt, m, StrOpt{NoEmpty: true, Max: 12})))
			}
		}
		return ls
	case DDMetrics:
		ls := []Label{L("__name__", HostileStr(rt, "metric", StrOpt{Max: 16}))}
		nres := rapid.IntRange(0, 3).Draw(rt, "nres")
		for i := 1; i <= nres; i++ {
			o.Min, o.Max = 1, 2
			for _, kv := range LabelSet(rt, o) {
				ls = append(ls, L(fmt.Sprintf("resource%d_%s", i, kv.Name), string(kv.Value)))
			}
		}
		return ls
	}
	return LabelSet(rt, o)
}

// kindsOf lists the entry kinds a protocol can carry.
func kindsOf(p Proto) []uint8 {
	switch p {
	case LokiJSON:
		return []uint8{KindLog, KindLog, KindMetric, KindBoth}
	case PromRW, DDMetrics:
		return []uint8{KindMetric}
	case Influx:
		return []uint8{KindLog, KindMetric}
	}
	return []uint8{KindLog}
}

func lineOpt(p Proto) StrOpt {
	switch p {
	case LokiProto, OTLPLogs:
		return StrOpt{UTF8Only: true, Max: 60}
	}
	return StrOpt{Max: 60}
}

// day0 is 2023-11-14T00:00:00Z; generated timestamps lie within a few days of it.
const day0 = int64(1699920000) * 1e9
const dayNs = int64(86400) * 1e9

func drawTs(rt *rapid.T, unit int64) int64 {
	day := int64(rapid.IntRange(0, 3).Draw(rt, "day"))
	var off int64
	switch rapid.IntRange(0, 4).Draw(rt, "ts-k") {
	case 0: // right at / next to a UTC midnight
		off = int64(rapid.IntRange(-2, 2).Draw(rt, "ts-edge")) * unit
	case 1:
		off = int64(rapid.IntRange(0, 20).Draw(rt, "ts-small")) * unit
	default:
		off = rapid.Int64Range(0, dayNs/unit-1).Draw(rt, "ts-off") * unit
	}
	return day0 + day*dayNs + off
}

func drawVal(rt *rapid.T) float64 {
	switch rapid.IntRange(0, 5).Draw(rt, "val-k") {
	case 0:
		return float64(rapid.IntRange(-1000, 1000).Draw(rt, "val-i"))
	case 1:
		return float64(rapid.IntRange(0, 100).Draw(rt, "val-h")) / 8
	case 2:
		return 0
	case 3:
		return rapid.Float64Range(-1e12, 1e12).Draw(rt, "val-f")
	default:
		return rapid.Float64Range(-100, 100).Draw(rt, "val-g")
	}
}

func drawEntry(rt *rapid.T, p Proto, kind uint8, unit int64, seq *int) Entry {
	e := Entry{Ts: drawTs(rt, unit), Kind: kind, Style: rapid.Uint16().Draw(rt, "estyle")}
	*seq++
	if kind != KindMetric {
		// every line carries a sequence marker so that a line stored under another
		// stream or twice cannot cancel out
		e.Line = evid.Str(HostileStr(rt, "line", lineOpt(p)) + fmt.Sprintf("#%d", *seq))
		if rapid.IntRange(0, 19).Draw(rt, "empty-line") == 0 && p != Influx {
			e.Line = ""
		}
	}
	if kind != KindLog {
		e.Val = drawVal(rt)
		if p == PromRW && rapid.IntRange(0, 9).Draw(rt, "special") == 0 {
			e.Special = uint8(rapid.IntRange(1, 3).Draw(rt, "special-k"))
		}
	}
	return e
}

// BodyOf draws a body for protocol p. size "" draws the class itself (about 55 % small).
func BodyOf(rt *rapid.T, p Proto, size string) Body {
	if size == "" {
		switch k := rapid.IntRange(0, 19).Draw(rt, "size"); {
		case k < 11:
			size = SizeSmall
		case k < 17 && p == PromRW || k < 12 && p != PromRW || k < 17 && p == DDMetrics:
			// (Datadog metrics: 1 MiB of 26-byte rows is 40 000 points per body - kept rarer)
			size = SizePoints
		default:
			size = SizeBytes
		}
	}
	b := Body{Style: rapid.Uint16().Draw(rt, "bstyle")}
	unit := TsUnit(p, b)
	kinds := kindsOf(p)
	nsets := rapid.IntRange(1, 4).Draw(rt, "nsets")
	sibling := make([]bool, nsets+1)
	// one body in five carries the special label __ttl_days__ (ttl.go)
	ttlBody := CarriesTTLLabel(p) && rapid.IntRange(0, 4).Draw(rt, "ttl-body") == 0
	setKind := make([]uint8, nsets) // Influx, Loki JSON: kind is tied to the set (metric chunks need __name__ / identifier names)
	for i := 0; i < nsets; i++ {
		k := rapid.SampledFrom(kinds).Draw(rt, "set-kind")
		setKind[i] = k
		if p == Influx && ttlBody && i > 0 && setKind[i-1] == KindMetric {
			k = KindMetric // lines with two numeric fields: the label buffer reaches the builder twice
			setKind[i] = k
		}
		if p == Influx && i > 0 && setKind[i-1] == KindMetric && k == KindMetric && (ttlBody || rapid.Bool().Draw(rt, "sibling")) {
			// sibling field of the previous set: same measurement and tags, other field
			prev := b.Sets[i-1]
			ls := append([]Label(nil), prev[:len(prev)-1]...)
			f := string(prev[len(prev)-1].Value) + "2"
			b.Sets = append(b.Sets, append(ls, L("__name__", f)))
			sibling[i] = true
			continue
		}
		set := drawSet(rt, p, k == KindMetric)
		if ttlBody && (i == 0 || rapid.Bool().Draw(rt, "ttl-here")) {
			// position first / middle / last of the set (the chunk's Perm then decides the
			// wire order); Influx keeps measurement first and __name__ last
			lo, hi := 0, 0
			if p == Influx {
				lo = 1
				if k == KindMetric {
					hi = 1
				}
			}
			pos := []int{0, len(set) / 2, len(set)}[rapid.IntRange(0, 2).Draw(rt, "ttl-pos")]
			set = InsertTTLLabel(set, pos, DrawTTLValue(rt), lo, hi)
		}
		b.Sets = append(b.Sets, set)
	}
	if ttlBody && rapid.Bool().Draw(rt, "ttl-twin") {
		// the same stream pushed without the special label (and, when no TTL comes with the
		// request, therefore the same series)
		var twin []Label
		for _, l := range b.Sets[0] {
			if l.Name != TTLLabel {
				twin = append(twin, l)
			}
		}
		if len(twin) > 0 {
			b.Sets = append(b.Sets, twin)
			setKind = append(setKind, setKind[0])
			sibling = append(sibling, false)
		}
	}
	// a set equal to another after sanitisation (the same series by definition) for the
	// protocols that sanitise arbitrary names: see AliasSpelling
	if (p == LokiJSON && setKind[0] != KindMetric || p == PromRW) && rapid.IntRange(0, 5).Draw(rt, "alias") == 0 {
		if al, ok := AliasSpelling(b.Sets[0]); ok {
			b.Sets = append(b.Sets, al)
			setKind = append(setKind, setKind[0])
		}
	}
	minChunks := 1
	switch size {
	case SizePoints:
		minChunks = 2
	case SizeBytes:
		minChunks = 3
	}
	nchunks := rapid.IntRange(minChunks, 6).Draw(rt, "nchunks")
	heavyMetric := rapid.IntRange(0, 3).Draw(rt, "heavy-metric") == 0
	// row-size budget of one chunk in the bytes class: all chunks but the last together
	// exceed 1 MiB, so the flush falls between two chunks and not after the last one
	budget := rapid.IntRange(1100, 1500).Draw(rt, "kib") * 1024 / max(nchunks-1, 1)
	seq := 0
	for ci := 0; ci < nchunks; ci++ {
		si := rapid.IntRange(0, len(b.Sets)-1).Draw(rt, "set")
		if p == Influx && ttlBody && ci > 0 {
			if ps := b.Chunks[ci-1].Set; ps+1 < len(b.Sets) && ps+1 < len(sibling) && sibling[ps+1] {
				si = ps + 1 // follow a set with its sibling field: one line, two fields
			}
		}
		c := Chunk{Set: si, Perm: rapid.Uint64().Draw(rt, "perm"), Style: rapid.Uint16().Draw(rt, "cstyle")}
		kind := setKind[si]
		legacy := p == LokiJSON && GoIdentSet(b.Sets[si]) && (kind == KindMetric || c.Style&LokiLegacy != 0)
		if p == LokiJSON && !legacy {
			c.Style &^= LokiLegacy
		}
		nent := rapid.IntRange(0, 5).Draw(rt, "nent")
		if nent == 0 && rapid.IntRange(0, 3).Draw(rt, "allow-empty") != 0 {
			nent = 1
		}
		for i := 0; i < nent; i++ {
			k := kind
			if p == LokiJSON {
				switch {
				case legacy:
					k = rapid.SampledFrom([]uint8{kind, KindLog, KindMetric, KindBoth}).Draw(rt, "ekind")
				case kind == KindMetric:
					k = KindBoth
				default:
					k = rapid.SampledFrom([]uint8{KindLog, KindLog, KindBoth}).Draw(rt, "ekind")
				}
			}
			c.Entries = append(c.Entries, drawEntry(rt, p, k, unit, &seq))
		}
		bulkKind := kind
		if p == LokiJSON && !legacy && kind == KindMetric {
			bulkKind = KindBoth
		}
		switch size {
		case SizePoints:
			switch rapid.IntRange(0, 2).Draw(rt, "points-shape") {
			case 0: // few series x many points
				c.Bulk = rapid.IntRange(200, 1300).Draw(rt, "bulk")
			case 1: // many series x few points
				c.Fan = rapid.IntRange(100, 500).Draw(rt, "fan")
				c.Bulk = rapid.IntRange(0, 3).Draw(rt, "bulk")
			default:
				c.Fan = rapid.IntRange(1, 4).Draw(rt, "fan")
				c.Bulk = rapid.IntRange(150, 600).Draw(rt, "bulk")
			}
		case SizeBytes:
			if bulkKind == KindMetric && p == Influx && !heavyMetric {
				// 40 000 one-point lines cost ~100 ms in the decoder: only every fourth body
				c.Bulk = rapid.IntRange(1, 50).Draw(rt, "bulk")
			} else if bulkKind == KindMetric { // rows of 26 bytes: only volume helps
				c.Fan = rapid.IntRange(0, 2).Draw(rt, "fan")
				if p == DDMetrics {
					c.Fan = 0
				}
				c.Bulk = budget / 26 / (c.Fan + 1)
			} else {
				switch rapid.IntRange(0, 2).Draw(rt, "bytes-shape") {
				case 0: // a few very long lines
					if len(c.Entries) > 0 {
						for i := range c.Entries {
							c.Entries[i].Pad = budget / len(c.Entries)
						}
					} else {
						c.Bulk, c.BulkPad = 1, budget
					}
				case 1: // many medium lines
					c.Bulk = rapid.IntRange(20, 120).Draw(rt, "bulk")
					c.BulkPad = budget / c.Bulk
				default: // several series with medium lines
					c.Fan = rapid.IntRange(2, 12).Draw(rt, "fan")
					c.Bulk = rapid.IntRange(2, 10).Draw(rt, "bulk")
					c.BulkPad = budget / (c.Bulk * (c.Fan + 1))
				}
			}
		default:
			if rapid.IntRange(0, 5).Draw(rt, "small-fan") == 0 {
				c.Fan = rapid.IntRange(1, 3).Draw(rt, "fan")
			}
			if rapid.IntRange(0, 5).Draw(rt, "small-bulk") == 0 {
				c.Bulk = rapid.IntRange(1, 8).Draw(rt, "bulk")
			}
		}
		if p == PromRW && ttlBody && HasTTLLabel(b.Sets[si]) >= 0 && c.Bulk < 1001 && rapid.Bool().Draw(rt, "ttl-flush") {
			c.Bulk = rapid.IntRange(1001, 1300).Draw(rt, "bulk") // the series is flushed in two pieces
		}
		if c.Bulk > 0 {
			c.BulkKind = bulkKind
			c.BulkTs = drawTs(rt, unit)
			c.BulkStep = unit * int64(rapid.IntRange(0, 3).Draw(rt, "bstep"))
			if rapid.IntRange(0, 3).Draw(rt, "bulk-days") == 0 {
				c.BulkStep = dayNs / 400 / unit * unit
			}
		}
		if p == DDMetrics {
			c.Fan = 0 // the replica label has no place in a resources array
		}
		if c.Fan > 0 {
			c.FanStep = unit * int64(rapid.IntRange(0, 2).Draw(rt, "fstep"))
		}
		if p == Influx && ci > 0 && sibling[si] && b.Chunks[ci-1].Set == si-1 && (ttlBody || rapid.Bool().Draw(rt, "multi-field")) {
			// same timestamps as the previous chunk: written as one line with two fields
			prev := &b.Chunks[ci-1]
			prev.Fan, prev.Style = 0, prev.Style|8
			c.Fan, c.Bulk, c.BulkTs, c.BulkStep, c.BulkKind = 0, prev.Bulk, prev.BulkTs, prev.BulkStep, prev.BulkKind
			c.Entries = nil
			for _, pe := range prev.Entries {
				e := drawEntry(rt, p, KindMetric, unit, &seq)
				e.Ts = pe.Ts
				c.Entries = append(c.Entries, e)
			}
		}
		b.Chunks = append(b.Chunks, c)
	}
	return b
}

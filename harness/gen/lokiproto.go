package gen

// lokiproto.go: Loki protobuf push (logproto.PushRequest), hand-encoded with protowire so
// the encoder shares no generated code with the decoder
// (writer/utils/unmarshal/logsProtobuf.go; message layout writer/utils/proto/loki.proto).
// The HTTP body is the snappy block compression of this (controller/middleware.go
// withUnsnappyRequest); the exported parser receives the uncompressed bytes.

import (
	"github.com/golang/snappy"
	"google.golang.org/protobuf/encoding/protowire"
)

// Snappy compresses a protobuf body the way Loki and Prometheus clients do.
func Snappy(b []byte) []byte { return snappy.Encode(nil, b) }

func pbBytes(b []byte, num protowire.Number, v []byte) []byte {
	b = protowire.AppendTag(b, num, protowire.BytesType)
	return protowire.AppendBytes(b, v)
}

func pbString(b []byte, num protowire.Number, v string) []byte {
	b = protowire.AppendTag(b, num, protowire.BytesType)
	return protowire.AppendString(b, v)
}

func pbVarint(b []byte, num protowire.Number, v uint64) []byte {
	b = protowire.AppendTag(b, num, protowire.VarintType)
	return protowire.AppendVarint(b, v)
}

func pbFixed64(b []byte, num protowire.Number, v uint64) []byte {
	b = protowire.AppendTag(b, num, protowire.Fixed64Type)
	return protowire.AppendFixed64(b, v)
}

// EncodeLokiProto serialises the body as an uncompressed logproto.PushRequest. Every
// entry is a log line (the format has no value field). Names must be Go identifiers.
func EncodeLokiProto(b Body) []byte {
	var out []byte
	for _, c := range b.Expand() {
		var st []byte
		st = pbString(st, 1, LokiLabelString(c.Labels, c.Style&2 != 0))
		for _, e := range c.Entries {
			sec, ns := e.Ts/1e9, e.Ts%1e9
			if ns < 0 {
				sec, ns = sec-1, ns+1e9
			}
			var ts []byte
			if sec != 0 || e.Style&1 != 0 { // proto3 writers omit zero fields; both spellings are legal
				ts = pbVarint(ts, 1, uint64(sec))
			}
			if ns != 0 || e.Style&1 != 0 {
				ts = pbVarint(ts, 2, uint64(ns))
			}
			var en []byte
			if e.Style&2 != 0 { // field order inside a message is free
				en = pbString(en, 2, e.Line)
				en = pbBytes(en, 1, ts)
			} else {
				en = pbBytes(en, 1, ts)
				if e.Line != "" || e.Style&4 != 0 {
					en = pbString(en, 2, e.Line)
				}
			}
			st = pbBytes(st, 2, en)
		}
		out = pbBytes(out, 1, st)
	}
	return out
}

package gen

// otlplogs.go: OTLP logs (opentelemetry.proto.logs.v1.LogsData), hand-encoded. Resource
// and scope are always present (writer/utils/unmarshal/otlplogs.go:23,26 dereference them
// and every exporter sends them). Each label of a chunk is placed at resource, scope or
// record level by a hash of its name, so chunks sharing their resource/scope attributes
// are merged into one ResourceLogs / ScopeLogs like a batching exporter does. A label named
// exactly "level" may travel as severity_text (otlplogs.go:43).

import (
	"hash/fnv"
	"strconv"
	"strings"
)

// OTLPSanitizeKey models otlplogs.go:90 SanitizeKey: [^a-zA-Z0-9_] -> '_' per rune, then a
// leading digit (or an empty key) gets a '_' prefix.
func OTLPSanitizeKey(s string) string {
	var sb strings.Builder
	for _, r := range s { // invalid bytes cannot occur: protobuf strings are valid UTF-8
		if r == '_' || r >= 'a' && r <= 'z' || r >= 'A' && r <= 'Z' || r >= '0' && r <= '9' {
			sb.WriteRune(r)
		} else {
			sb.WriteByte('_')
		}
	}
	out := sb.String()
	if out == "" || out[0] >= '0' && out[0] <= '9' {
		out = "_" + out
	}
	return out
}

// OTLPLevel is where a label travels: 0 resource, 1 scope, 2 log record.
func OTLPLevel(name string) int {
	h := fnv.New32a()
	h.Write([]byte(name))
	return int(h.Sum32() % 3)
}

func otlpAny(v string, typed bool) []byte {
	var a []byte
	if typed { // typed spelling of values whose decimal / boolean text is canonical
		if v == "true" || v == "false" {
			x := uint64(0)
			if v == "true" {
				x = 1
			}
			return pbVarint(a, 2, x)
		}
		if n, err := strconv.ParseInt(v, 10, 64); err == nil && strconv.FormatInt(n, 10) == v {
			return pbVarint(a, 3, uint64(n))
		}
	}
	return pbString(a, 1, v)
}

func otlpKV(l Label, typed bool) []byte {
	var kv []byte
	kv = pbString(kv, 1, string(l.Name))
	return pbBytes(kv, 2, otlpAny(string(l.Value), typed))
}

func levelAttrs(ls []Label, lvl int) []Label {
	var out []Label
	for _, l := range ls {
		if OTLPLevel(string(l.Name)) == lvl {
			out = append(out, l)
		}
	}
	return out
}

// EncodeOTLPLogs serialises the body as LogsData.
func EncodeOTLPLogs(b Body) []byte {
	var out []byte
	chunks := b.Expand()
	for i := 0; i < len(chunks); {
		resAttrs := levelAttrs(chunks[i].Labels, 0)
		rk := CanonKey(resAttrs)
		var rl, res []byte
		for _, l := range resAttrs {
			res = pbBytes(res, 1, otlpKV(l, chunks[i].Style&8 != 0))
		}
		rl = pbBytes(rl, 1, res)
		j := i
		for j < len(chunks) && CanonKey(levelAttrs(chunks[j].Labels, 0)) == rk {
			scAttrs := levelAttrs(chunks[j].Labels, 1)
			sk := CanonKey(scAttrs)
			var sl, scope []byte
			if chunks[j].Style&4 != 0 {
				scope = pbString(scope, 1, "scope-name")
				scope = pbString(scope, 2, "1.0")
			}
			for _, l := range scAttrs {
				scope = pbBytes(scope, 3, otlpKV(l, chunks[j].Style&8 != 0))
			}
			sl = pbBytes(sl, 1, scope)
			for j < len(chunks) && CanonKey(levelAttrs(chunks[j].Labels, 0)) == rk && CanonKey(levelAttrs(chunks[j].Labels, 1)) == sk {
				c := chunks[j]
				for _, e := range c.Entries {
					var lr []byte
					lr = pbFixed64(lr, 1, uint64(e.Ts))
					if e.Style&1 != 0 {
						lr = pbFixed64(lr, 11, uint64(e.Ts)+5)
						lr = pbVarint(lr, 2, 9)
					}
					var attrs [][]byte
					for _, l := range levelAttrs(c.Labels, 2) {
						if l.Name == "level" && l.Value != "" && c.Style&2 != 0 {
							lr = pbString(lr, 3, string(l.Value))
							continue
						}
						attrs = append(attrs, otlpKV(l, c.Style&8 != 0))
					}
					lr = pbBytes(lr, 5, otlpAny(e.Line, false))
					for _, a := range attrs {
						lr = pbBytes(lr, 6, a)
					}
					if e.Style&2 != 0 {
						lr = pbBytes(lr, 9, []byte("0123456789abcdef"))
						lr = pbBytes(lr, 10, []byte("01234567"))
					}
					sl = pbBytes(sl, 2, lr)
				}
				j++
			}
			rl = pbBytes(rl, 2, sl)
		}
		out = pbBytes(out, 1, rl)
		i = j
	}
	return out
}

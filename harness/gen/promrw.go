package gen

// promrw.go: Prometheus remote-write (prompb.WriteRequest), hand-encoded
// (decoder: writer/utils/unmarshal/metricsProtobuf.go; layout writer/utils/proto/prompb.proto).

import "math"

// EncodePromRW serialises the body as an uncompressed WriteRequest. Timestamps are
// written in milliseconds (model timestamps must be multiples of 1e6 ns).
func EncodePromRW(b Body) []byte {
	var out []byte
	for _, c := range b.Expand() {
		var ts []byte
		samplesFirst := c.Style&1 != 0
		lbls := func() {
			for _, l := range c.Labels {
				var lb []byte
				lb = pbString(lb, 1, string(l.Name))
				if l.Value != "" || c.Style&2 != 0 {
					lb = pbString(lb, 2, string(l.Value))
				}
				ts = pbBytes(ts, 1, lb)
			}
		}
		spls := func() {
			for _, e := range c.Entries {
				var s []byte
				if e.Val != 0 || math.Signbit(e.Val) || e.Style&1 != 0 {
					s = pbFixed64(s, 1, math.Float64bits(e.Val))
				}
				ms := e.Ts / 1e6
				if ms != 0 || e.Style&1 != 0 {
					s = pbVarint(s, 2, uint64(ms))
				}
				ts = pbBytes(ts, 2, s)
			}
		}
		if samplesFirst {
			spls()
			lbls()
		} else {
			lbls()
			spls()
		}
		out = pbBytes(out, 1, ts)
	}
	return out
}

package gen

// influx.go: Influx line protocol (decoder: writer/utils/unmarshal/influxUnmarshal.go,
// which uses telegraf's influx stream parser). Convention of the model: a chunk's label
// set holds exactly one label "measurement"; a chunk whose set holds "__name__" is a
// metric chunk (one numeric field named by that label per entry), otherwise a log chunk
// (field message="<line>"); every other label is a tag. Body.Style bits 0-1 select the
// precision the timestamps are written in (ns, us, ms, s) - the request's ?precision=.

import (
	"strconv"
	"strings"
	"time"
)

// InfluxPrecision returns the precision the body is written in.
func InfluxPrecision(b Body) time.Duration {
	switch b.Style & 3 {
	case 1:
		return time.Microsecond
	case 2:
		return time.Millisecond
	case 3:
		return time.Second
	}
	return time.Nanosecond
}

// InfluxExclude lists the bytes the generators keep out of measurement names, tag keys,
// tag values and field keys: the line protocol has no escape for a backslash or a line
// break there, and control bytes are not portable across parsers.
const InfluxExclude = "\\\n\r\t\f\v\x00\x01\x02\x03\x04\x05\x06\x07\x08\x0e\x0f\x10\x11\x12\x13\x14\x15\x16\x17\x18\x19\x1a\x1b\x1c\x1d\x1e\x1f\x7f\"'#"

func influxEsc(s string, set string) string {
	var sb strings.Builder
	for i := 0; i < len(s); i++ {
		if strings.IndexByte(set, s[i]) >= 0 {
			sb.WriteByte('\\')
		}
		sb.WriteByte(s[i])
	}
	return sb.String()
}

func influxStrField(s string) string {
	var sb strings.Builder
	sb.Grow(len(s) + 2)
	sb.WriteByte('"')
	for i := 0; i < len(s); {
		j := i
		for j < len(s) && s[j] != '"' && s[j] != '\\' {
			j++
		}
		sb.WriteString(s[i:j])
		if j < len(s) {
			sb.WriteByte('\\')
			sb.WriteByte(s[j])
			j++
		}
		i = j
	}
	sb.WriteByte('"')
	return sb.String()
}

// InfluxSimpleLine reports whether logfmt writes s without quoting.
func InfluxSimpleLine(s string) bool {
	if s == "" {
		return false
	}
	for i := 0; i < len(s); i++ {
		c := s[i]
		if !(c >= 'a' && c <= 'z' || c >= 'A' && c <= 'Z' || c >= '0' && c <= '9' || c == '_' || c == '-') {
			return false
		}
	}
	return true
}

// InfluxHasExtraField: a log entry with Style bit 1 and a simple line carries a second
// field extra=5i; qryn then stores the logfmt text "message=<line> extra=5"
// (influxUnmarshal.go:14 getMessage).
func InfluxHasExtraField(e FlatEntry) bool {
	return e.Kind == KindLog && e.Style&2 != 0 && InfluxSimpleLine(e.Line)
}

func influxSplit(ls []Label) (measurement, field string, tags []Label) {
	for _, l := range ls {
		switch l.Name {
		case "measurement":
			measurement = string(l.Value)
		case "__name__":
			field = string(l.Value)
		default:
			tags = append(tags, l)
		}
	}
	return
}

func influxNum(e FlatEntry) string {
	if e.Style&1 != 0 && e.Val == float64(int64(e.Val)) && e.Val > -1e15 && e.Val < 1e15 {
		s := strconv.FormatInt(int64(e.Val), 10)
		if e.Style&4 != 0 && e.Val >= 0 {
			return s + "u" // unsigned integer field
		}
		return s + "i"
	}
	return strconv.FormatFloat(e.Val, 'f', -1, 64)
}

// InfluxUnsigned reports whether the entry is written as an unsigned integer field.
func InfluxUnsigned(e FlatEntry) bool {
	return e.Kind == KindMetric && e.Style&1 != 0 && e.Style&4 != 0 && e.Val == float64(int64(e.Val)) && e.Val >= 0 && e.Val < 1e15
}

// InfluxMergesWithNext reports whether the encoder writes chunk i and chunk i+1 as lines
// with two fields: both metric chunks, chunk i has Style bit 3, same measurement and tags,
// different field keys, same timestamps.
func InfluxMergesWithNext(chunks []FlatChunk, i int) bool {
	if i+1 >= len(chunks) {
		return false
	}
	c, n := chunks[i], chunks[i+1]
	if c.Style&8 == 0 || HasLabel(c.Labels, "__name__") < 0 || HasLabel(n.Labels, "__name__") < 0 {
		return false
	}
	m, field, tags := influxSplit(c.Labels)
	m2, f2, t2 := influxSplit(n.Labels)
	if m2 != m || f2 == field || SanitizeName(f2) == SanitizeName(field) || CanonKey(t2) != CanonKey(tags) || len(n.Entries) != len(c.Entries) || len(c.Entries) == 0 {
		return false
	}
	for k := range n.Entries {
		if n.Entries[k].Ts != c.Entries[k].Ts || n.Entries[k].Kind != KindMetric || c.Entries[k].Kind != KindMetric {
			return false
		}
	}
	return true
}

// EncodeInflux serialises the body. Adjacent metric chunks with the same measurement,
// tags and timestamps are written as one line with several fields when the first has
// Style bit 3.
func EncodeInflux(b Body) []byte {
	prec := int64(InfluxPrecision(b))
	var sb strings.Builder
	chunks := b.Expand()
	for ci := 0; ci < len(chunks); ci++ {
		c := chunks[ci]
		m, field, tags := influxSplit(c.Labels)
		var head strings.Builder
		head.WriteString(influxEsc(m, ", "))
		for _, t := range tags {
			head.WriteByte(',')
			head.WriteString(influxEsc(string(t.Name), ",= "))
			head.WriteByte('=')
			head.WriteString(influxEsc(string(t.Value), ",= "))
		}
		isMetric := false
		for _, l := range c.Labels {
			if l.Name == "__name__" {
				isMetric = true
			}
		}
		var merged *FlatChunk
		if InfluxMergesWithNext(chunks, ci) {
			merged = &chunks[ci+1]
			ci++
		}
		for i, e := range c.Entries {
			sb.WriteString(head.String())
			sb.WriteByte(' ')
			if isMetric {
				sb.WriteString(influxEsc(field, ",= "))
				sb.WriteByte('=')
				sb.WriteString(influxNum(e))
				if merged != nil {
					_, f2, _ := influxSplit(merged.Labels)
					sb.WriteByte(',')
					sb.WriteString(influxEsc(f2, ",= "))
					sb.WriteByte('=')
					sb.WriteString(influxNum(merged.Entries[i]))
				}
			} else {
				msg := "message=" + influxStrField(e.Line)
				if InfluxHasExtraField(e) {
					if e.Style&8 != 0 {
						msg = "extra=5i," + msg
					} else {
						msg += ",extra=5i"
					}
				}
				sb.WriteString(msg)
			}
			sb.WriteByte(' ')
			sb.WriteString(strconv.FormatInt(e.Ts/prec, 10))
			sb.WriteByte('\n')
			if e.Style&16 != 0 {
				sb.WriteString("# a comment line\n")
			}
		}
	}
	return []byte(sb.String())
}

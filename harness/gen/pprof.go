package gen

import (
	"bytes"
	"fmt"
	"mime/multipart"
	"net/textproto"
	"strings"

	"github.com/google/pprof/profile"
	"pgregory.net/rapid"
)

// ---- pprof profiles ------------------------------------------------------------------------
//
// Plain-data model of a pprof profile, encoded with github.com/google/pprof/profile.
// Soundness restrictions (what pprof's own Parse/CheckValid demands, and what every
// producer respects):
//   * one value per sample type in every sample (CheckValid; golangPprof.go:390 indexes
//     sample.Value[j] for every sample type);
//   * every line has a function (CheckValid); a location may have zero lines (no symbol
//     information), one, or several (inlined frames, innermost first);
//   * sample types are distinct "type:unit" pairs (the reader selects a sample type's
//     values by that name: planner_merge_raw.go arrayFirst(y -> y.1 == 'type:unit', …));
//   * a period type is present;
//   * values are non-negative and sums stay far below 2^63.

type PprofValueType struct {
	Type string `json:"type"`
	Unit string `json:"unit"`
}

type PprofSample struct {
	// Stack holds location indices, leaf first (the pprof convention).
	Stack  []int   `json:"stack"`
	Values []int64 `json:"values"`
}

type Pprof struct {
	SampleTypes []PprofValueType `json:"sample_types"`
	Period      PprofValueType   `json:"period"`
	Funcs       []string         `json:"funcs"`
	// Locs[i] lists function indices of the lines of location i (innermost first); empty: no line info.
	Locs    [][]int       `json:"locs"`
	Samples []PprofSample `json:"samples"`
	// PadUnit appends that many KiB of 'x' to the unit of the first sample type (profiles
	// with very large string tables without large case files).
	PadUnitKB int `json:"pad_unit_kb,omitempty"`
}

// TypeName is the "type:unit" name qryn stores for sample type i.
func (p Pprof) TypeName(i int) string {
	return fmt.Sprintf("%s:%s", p.SampleTypes[i].Type, p.unit(i))
}

func (p Pprof) unit(i int) string {
	u := p.SampleTypes[i].Unit
	if i == 0 && p.PadUnitKB > 0 {
		u += strings.Repeat("x", p.PadUnitKB*1024)
	}
	return u
}

// Build assembles the profile.Profile.
func (p Pprof) Build() *profile.Profile {
	pr := &profile.Profile{
		PeriodType: &profile.ValueType{Type: p.Period.Type, Unit: p.Period.Unit},
		Period:     10_000_000,
		TimeNanos:  1_700_000_000_000_000_000,
	}
	for i, st := range p.SampleTypes {
		pr.SampleType = append(pr.SampleType, &profile.ValueType{Type: st.Type, Unit: p.unit(i)})
	}
	m := &profile.Mapping{ID: 1, Start: 0x1000, Limit: 0x100000, File: "/bin/app", HasFunctions: true}
	pr.Mapping = []*profile.Mapping{m}
	for i, name := range p.Funcs {
		pr.Function = append(pr.Function, &profile.Function{ID: uint64(i + 1), Name: name, SystemName: name, Filename: "f.go"})
	}
	for i, lines := range p.Locs {
		loc := &profile.Location{ID: uint64(i + 1), Mapping: m, Address: uint64(0x1000 + i*16)}
		for k, fi := range lines {
			loc.Line = append(loc.Line, profile.Line{Function: pr.Function[fi], Line: int64(10 + k)})
		}
		pr.Location = append(pr.Location, loc)
	}
	for _, s := range p.Samples {
		smp := &profile.Sample{Value: append([]int64(nil), s.Values...)}
		for _, li := range s.Stack {
			smp.Location = append(smp.Location, pr.Location[li])
		}
		pr.Sample = append(pr.Sample, smp)
	}
	return pr
}

// Encode serialises the profile (gzip or raw protobuf).
func (p Pprof) Encode(gz bool) []byte {
	var buf bytes.Buffer
	pr := p.Build()
	var err error
	if gz {
		err = pr.Write(&buf)
	} else {
		err = pr.WriteUncompressed(&buf)
	}
	if err != nil {
		panic("gen: pprof does not encode: " + err.Error())
	}
	return buf.Bytes()
}

// Multipart wraps an encoded profile the way pyroscope's Go client posts it to /ingest:
// multipart/form-data with a file field "profile". Returns the body and its content type.
func Multipart(encoded []byte, extraField bool) ([]byte, string) {
	var buf bytes.Buffer
	w := multipart.NewWriter(&buf)
	_ = w.SetBoundary("43ba238906960207d409d77db17b9ae9fe6c9fd5c3a5e3aa7d3a6f3d5d7c")
	if extraField {
		h := textproto.MIMEHeader{}
		h.Set("Content-Disposition", `form-data; name="sample_type_config"; filename="sample_type_config.json"`)
		h.Set("Content-Type", "application/octet-stream")
		fw, _ := w.CreatePart(h)
		_, _ = fw.Write([]byte(`{"alloc_objects":{"units":"objects"}}`))
	}
	fw, _ := w.CreateFormFile("profile", "profile.pprof")
	_, _ = fw.Write(encoded)
	_ = w.Close()
	return buf.Bytes(), w.FormDataContentType()
}

// FrameName is the name qryn gives the frame of location li: the function of its first
// line, "n/a" without line information (golangPprof.go postProcessProf).
func (p Pprof) FrameName(li int) string {
	if len(p.Locs[li]) == 0 {
		return "n/a"
	}
	return p.Funcs[p.Locs[li][0]]
}

var pprofTypePool = []PprofValueType{
	{"cpu", "nanoseconds"}, {"samples", "count"}, {"alloc_objects", "count"}, {"alloc_space", "bytes"},
	{"inuse_objects", "count"}, {"inuse_space", "bytes"}, {"contentions", "count"}, {"delay", "nanoseconds"}, {"goroutine", "count"},
}

var pprofFuncPool = []string{
	"main.main", "main.run", "runtime.mallocgc", "net/http.(*conn).serve", "f", "g", "h", "main.(*T).Do", "runtime.gcBgMarkWorker",
	"n/a", "total", "", "a b", "fn\"q", "日本.関数", "very/long/pkg/path.(*Type[go.shape.int]).Method.func1",
}

// PprofShape fixes what the profiles of one series share.
type PprofShape struct {
	SampleTypes []PprofValueType
	Period      PprofValueType
	Funcs       []string
}

// GenPprofShape draws 1-4 distinct sample types, a period type and a function table.
func GenPprofShape(rt *rapid.T) PprofShape {
	sh := PprofShape{}
	nst := rapid.IntRange(1, 4).Draw(rt, "nsampletypes")
	perm := rapid.Permutation(pprofTypePool).Draw(rt, "sampletypes")
	sh.SampleTypes = append(sh.SampleTypes, perm[:nst]...)
	if rapid.IntRange(0, 7).Draw(rt, "hostile-type") == 0 {
		sh.SampleTypes[0] = PprofValueType{HostileUTF8(rt, "stype"), HostileUTF8(rt, "sunit")}
		for i := 1; i < len(sh.SampleTypes); i++ { // keep the names distinct
			if sh.SampleTypes[i] == sh.SampleTypes[0] {
				sh.SampleTypes[0].Type += "_"
			}
		}
	}
	sh.Period = rapid.SampledFrom([]PprofValueType{{"cpu", "nanoseconds"}, {"wall", "nanoseconds"}, {"space", "bytes"}, {"mutex", "count"}, {"goroutine", "count"}, {"block", "count"}, {"", ""}, {"custom", "things"}}).Draw(rt, "period")
	nf := rapid.IntRange(1, 8).Draw(rt, "nfuncs")
	seen := map[string]bool{}
	for i := 0; i < nf; i++ {
		var name string
		if rapid.IntRange(0, 9).Draw(rt, "hostile-fn") == 0 {
			name = HostileUTF8(rt, "fn")
		} else {
			name = rapid.SampledFrom(pprofFuncPool).Draw(rt, "fn")
		}
		if !seen[name] || rapid.IntRange(0, 4).Draw(rt, "dup-fn") == 0 { // two Function entries may share a name
			seen[name] = true
			sh.Funcs = append(sh.Funcs, name)
		}
	}
	return sh
}

// GenPprof draws a profile of the given shape: 0-40 samples, depth 0-600, stacks that
// share prefixes with earlier samples, recursion, locations with 0/1/many lines.
func GenPprof(rt *rapid.T, sh PprofShape) Pprof {
	p := Pprof{SampleTypes: sh.SampleTypes, Period: sh.Period, Funcs: sh.Funcs}
	nloc := rapid.IntRange(1, 10).Draw(rt, "nlocs")
	withInlining := rapid.IntRange(0, 9).Draw(rt, "with-inlining") < 3
	withZeros := rapid.IntRange(0, 9).Draw(rt, "with-zero-values") < 3
	// delta heap profiles: many samples have 0 for the first sample type (alloc_objects of
	// the interval) and something for a later one (inuse_*)
	deltaHeap := len(sh.SampleTypes) >= 2 && rapid.IntRange(0, 9).Draw(rt, "delta-heap") < 3
	for i := 0; i < nloc; i++ {
		var lines []int
		k := rapid.IntRange(0, 9).Draw(rt, "loc-lines")
		if !withInlining && (k == 1 || k == 2) {
			k = 3
		}
		switch k {
		case 0:
		case 1, 2:
			n := rapid.IntRange(2, 3).Draw(rt, "inlined")
			for k := 0; k < n; k++ {
				lines = append(lines, rapid.IntRange(0, len(sh.Funcs)-1).Draw(rt, "line-fn"))
			}
		default:
			lines = []int{rapid.IntRange(0, len(sh.Funcs)-1).Draw(rt, "line-fn")}
		}
		p.Locs = append(p.Locs, lines)
	}
	var ns int
	if rapid.IntRange(0, 9).Draw(rt, "many-samples") == 0 {
		ns = rapid.IntRange(0, 40).Draw(rt, "nsamples")
	} else {
		ns = rapid.IntRange(0, 8).Draw(rt, "nsamples")
	}
	var rootFirst [][]int
	for i := 0; i < ns; i++ {
		var st []int // root first while building
		if len(rootFirst) > 0 && rapid.IntRange(0, 9).Draw(rt, "share-prefix") < 7 {
			base := rootFirst[rapid.IntRange(0, len(rootFirst)-1).Draw(rt, "prefix-of")]
			if len(base) > 0 {
				st = append(st, base[:rapid.IntRange(0, len(base)).Draw(rt, "prefix-len")]...)
			}
		}
		var extra int
		switch rapid.IntRange(0, 19).Draw(rt, "depth-kind") {
		case 0:
			extra = 0
		case 1:
			extra = rapid.IntRange(100, 600).Draw(rt, "deep")
		default:
			extra = rapid.IntRange(0, 6).Draw(rt, "depth")
		}
		if extra > 50 {
			// deep stacks are recursion: a short cycle of locations repeated
			cyc := rapid.SliceOfN(rapid.IntRange(0, nloc-1), 1, 3).Draw(rt, "cycle")
			for k := 0; k < extra; k++ {
				st = append(st, cyc[k%len(cyc)])
			}
		} else {
			for k := 0; k < extra; k++ {
				st = append(st, rapid.IntRange(0, nloc-1).Draw(rt, "frame"))
			}
		}
		rootFirst = append(rootFirst, st)
		s := PprofSample{}
		for k := len(st) - 1; k >= 0; k-- {
			s.Stack = append(s.Stack, st[k])
		}
		for range sh.SampleTypes {
			v := rapid.OneOf(rapid.Int64Range(0, 3), rapid.Int64Range(0, 1000), rapid.Int64Range(0, 1_000_000_000_000)).Draw(rt, "value")
			if v == 0 && !withZeros {
				v = 1
			}
			s.Values = append(s.Values, v)
		}
		if deltaHeap && rapid.IntRange(0, 9).Draw(rt, "first-zero") < 6 {
			s.Values[0] = 0
			last := len(s.Values) - 1
			if s.Values[last] == 0 {
				s.Values[last] = int64(rapid.IntRange(1, 4096).Draw(rt, "later-value"))
			}
		}
		p.Samples = append(p.Samples, s)
	}
	return p
}

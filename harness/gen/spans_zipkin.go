package gen

import (
	"encoding/hex"
	"fmt"
	"strconv"
	"strings"
	"unicode/utf16"
	"unicode/utf8"

	"pgregory.net/rapid"
)

// ---- Zipkin v2 JSON span batches ---------------------------------------------------------
//
// Plain-data model of a POST /api/v2/spans (or /tempo/spans) body. Soundness restrictions:
//   * the body is valid JSON (one array, or one object per line for NDJSON) with unique object
//     keys and valid UTF-8;
//   * traceId is 16..32 hex digits (left-padded by the decoder, zipkinJsonUnmarshal.go
//     decodeHexStr), id and parentId exactly 16 (zipkin2-api.yaml: minLength = maxLength = 16).
//     Shorter span/parent ids are accepted and padded by the writer but a parentId shorter
//     than 16 digits is read back as "no parent" (reader decodeParentId): outside the
//     schema, so not generated (hand-written cases may still use them);
//   * timestamp/duration are integers (microseconds) or decimal strings, small enough that
//     x1000 fits an int64;
//   * every span has traceId and id (required by the Zipkin schema; their absence is C05's);
//   * tag keys do not collide with the four index keys the decoder synthesises itself
//     ("name", "service.name", "local_endpoint_service_name", "remote_endpoint_service_name");
//   * an NDJSON line holds exactly one span and no raw line break.

type ZipkinEndpoint struct {
	Present     bool   `json:"present,omitempty"`
	HasName     bool   `json:"has_name,omitempty"`
	ServiceName string `json:"service_name,omitempty"`
	IPv4        string `json:"ipv4,omitempty"`
	Port        int    `json:"port,omitempty"`
}

type ZipkinTag struct {
	K string `json:"k"`
	V string `json:"v"`
	// Raw, when not empty, is a non-string JSON value used instead of V (ignored by qryn on
	// both sides: Zipkin tags are strings).
	Raw string `json:"raw,omitempty"`
	// Pad appends that many 'x' to V (large tags without large case files).
	Pad int `json:"pad,omitempty"`
}

func (t ZipkinTag) Value() string { return t.V + strings.Repeat("x", t.Pad) }

type ZipkinSpan struct {
	TraceID     string         `json:"trace_id"`
	ID          string         `json:"id"`
	HasParent   bool           `json:"has_parent,omitempty"`
	ParentID    string         `json:"parent_id,omitempty"`
	HasName     bool           `json:"has_name,omitempty"`
	Name        string         `json:"name,omitempty"`
	Kind        string         `json:"kind,omitempty"`
	HasTS       bool           `json:"has_ts,omitempty"`
	TS          int64          `json:"ts,omitempty"`
	TSString    bool           `json:"ts_string,omitempty"`
	HasDur      bool           `json:"has_dur,omitempty"`
	Dur         int64          `json:"dur,omitempty"`
	DurString   bool           `json:"dur_string,omitempty"`
	Local       ZipkinEndpoint `json:"local"`
	Remote      ZipkinEndpoint `json:"remote"`
	HasTags     bool           `json:"has_tags,omitempty"`
	Tags        []ZipkinTag    `json:"tags,omitempty"`
	Annotations int            `json:"annotations,omitempty"`
	Extra       bool           `json:"extra,omitempty"`
	// Order and Order2 are two permutations of the top-level field slots (see zipkinSlots).
	Order  []int `json:"order"`
	Order2 []int `json:"order2"`
	Esc    int   `json:"esc,omitempty"` // string escaping style 0..2
	WS     int   `json:"ws,omitempty"`  // whitespace style 0..2 (2 = line breaks, array framing only)
}

type ZipkinBatch struct {
	Spans      []ZipkinSpan `json:"spans"`
	ND         bool         `json:"nd,omitempty"`
	TrailingNL bool         `json:"trailing_nl,omitempty"`
	CRLF       bool         `json:"crlf,omitempty"`
}

const zipkinSlots = 13

// ZipkinReservedTagKeys are produced by the decoder itself.
var ZipkinReservedTagKeys = map[string]bool{"name": true, "service.name": true, "local_endpoint_service_name": true, "remote_endpoint_service_name": true}

// JSONString renders s as a JSON string literal in one of three escaping styles:
// 0 minimal (only what RFC 8259 requires), 1 everything outside printable ASCII as \uXXXX
// (surrogate pairs for astral runes), 2 short escapes plus "\/".
func JSONString(s string, style int) string {
	var sb strings.Builder
	sb.WriteByte('"')
	for _, r := range s {
		switch {
		case r == '"':
			sb.WriteString(`\"`)
		case r == '\\':
			sb.WriteString(`\\`)
		case r == '/' && style == 2:
			sb.WriteString(`\/`)
		case r == '\n' && style != 1:
			sb.WriteString(`\n`)
		case r == '\r' && style != 1:
			sb.WriteString(`\r`)
		case r == '\t' && style != 1:
			sb.WriteString(`\t`)
		case r == '\b' && style == 2:
			sb.WriteString(`\b`)
		case r == '\f' && style == 2:
			sb.WriteString(`\f`)
		case r < 0x20 || r == 0x7f:
			fmt.Fprintf(&sb, `\u%04x`, r)
		case r == utf8.RuneError:
			sb.WriteString("\ufffd")
		case r > 0x7e && style == 1:
			if r > 0xffff {
				a, b := utf16.EncodeRune(r)
				fmt.Fprintf(&sb, `\u%04X\u%04x`, a, b)
			} else {
				fmt.Fprintf(&sb, `\u%04x`, r)
			}
		default:
			sb.WriteRune(r)
		}
	}
	sb.WriteByte('"')
	return sb.String()
}

type jsonField struct{ k, v string }

func renderObj(fields []jsonField, ws int, esc int, indent string) string {
	var sb strings.Builder
	sb.WriteByte('{')
	for i, f := range fields {
		if i > 0 {
			sb.WriteByte(',')
		}
		switch ws {
		case 1:
			sb.WriteByte(' ')
		case 2:
			sb.WriteString("\n" + indent + "  ")
		}
		sb.WriteString(JSONString(f.k, esc))
		if ws == 1 {
			sb.WriteString(" : ")
		} else if ws == 2 {
			sb.WriteString(":\t")
		} else {
			sb.WriteByte(':')
		}
		sb.WriteString(f.v)
	}
	switch ws {
	case 1:
		sb.WriteByte(' ')
	case 2:
		sb.WriteString("\n" + indent)
	}
	sb.WriteByte('}')
	return sb.String()
}

func (e ZipkinEndpoint) render(ws, esc int, alt bool) string {
	var f []jsonField
	if e.HasName {
		f = append(f, jsonField{"serviceName", JSONString(e.ServiceName, esc)})
	}
	if e.IPv4 != "" {
		f = append(f, jsonField{"ipv4", JSONString(e.IPv4, esc)})
	}
	if e.Port != 0 {
		f = append(f, jsonField{"port", strconv.Itoa(e.Port)})
	}
	if alt {
		for i, j := 0, len(f)-1; i < j; i, j = i+1, j-1 {
			f[i], f[j] = f[j], f[i]
		}
	}
	return renderObj(f, ws, esc, "  ")
}

// Render gives the JSON text of the span. alt selects the second key permutation (top-level
// keys by Order2, nested object keys reversed): the same span, another field order.
func (s ZipkinSpan) Render(alt bool, nd bool) string {
	ws := s.WS
	if nd && ws == 2 {
		ws = 1
	}
	slots := make([]*jsonField, zipkinSlots)
	set := func(i int, k, v string) { slots[i] = &jsonField{k, v} }
	num := func(v int64, asString bool) string {
		if asString {
			return `"` + strconv.FormatInt(v, 10) + `"`
		}
		return strconv.FormatInt(v, 10)
	}
	set(0, "traceId", JSONString(s.TraceID, 0))
	set(1, "id", JSONString(s.ID, 0))
	if s.HasParent {
		set(2, "parentId", JSONString(s.ParentID, 0))
	}
	if s.HasName {
		set(3, "name", JSONString(s.Name, s.Esc))
	}
	if s.Kind != "" {
		set(4, "kind", JSONString(s.Kind, 0))
	}
	if s.HasTS {
		set(5, "timestamp", num(s.TS, s.TSString))
	}
	if s.HasDur {
		set(6, "duration", num(s.Dur, s.DurString))
	}
	if s.Local.Present {
		set(7, "localEndpoint", s.Local.render(ws, s.Esc, alt))
	}
	if s.Remote.Present {
		set(8, "remoteEndpoint", s.Remote.render(ws, s.Esc, alt))
	}
	if s.HasTags {
		var f []jsonField
		for _, t := range s.Tags {
			if t.Raw != "" {
				f = append(f, jsonField{t.K, t.Raw})
			} else {
				f = append(f, jsonField{t.K, JSONString(t.Value(), s.Esc)})
			}
		}
		if alt {
			for i, j := 0, len(f)-1; i < j; i, j = i+1, j-1 {
				f[i], f[j] = f[j], f[i]
			}
		}
		set(9, "tags", renderObj(f, ws, s.Esc, "  "))
	}
	if s.Annotations > 0 {
		var parts []string
		for i := 0; i < s.Annotations; i++ {
			parts = append(parts, fmt.Sprintf(`{"timestamp":%d,"value":"ann%d"}`, s.TS+int64(i)+1, i))
		}
		set(10, "annotations", "["+strings.Join(parts, ",")+"]")
	}
	if s.Extra {
		set(11, "debug", "true")
		// an unknown member that looks like span fields must be skipped as a whole
		set(12, "x-unknown", `{"traceId":"ffff","id":"1","name":"inner","tags":{"q":"r"},"localEndpoint":{"serviceName":"inner"},"a":[1,{"b":null}]}`)
	}
	order := s.Order
	if alt {
		order = s.Order2
	}
	var fields []jsonField
	used := map[int]bool{}
	for _, i := range order {
		if i >= 0 && i < zipkinSlots && !used[i] && slots[i] != nil {
			fields = append(fields, *slots[i])
			used[i] = true
		}
	}
	for i := range slots { // tolerate hand-written cases with a partial order
		if !used[i] && slots[i] != nil {
			fields = append(fields, *slots[i])
		}
	}
	return renderObj(fields, ws, s.Esc, "")
}

// Body renders the request body (array or newline-delimited framing).
func (b ZipkinBatch) Body(alt bool) []byte {
	var sb strings.Builder
	nl := "\n"
	if b.CRLF {
		nl = "\r\n"
	}
	if b.ND {
		for i, s := range b.Spans {
			if i > 0 {
				sb.WriteString(nl)
			}
			sb.WriteString(s.Render(alt, true))
		}
		if b.TrailingNL && len(b.Spans) > 0 {
			sb.WriteString(nl)
		}
		return []byte(sb.String())
	}
	sb.WriteByte('[')
	for i, s := range b.Spans {
		if i > 0 {
			sb.WriteByte(',')
			if s.WS == 2 {
				sb.WriteString(nl)
			}
		}
		sb.WriteString(s.Render(alt, false))
	}
	sb.WriteByte(']')
	if b.TrailingNL {
		sb.WriteString(nl)
	}
	return []byte(sb.String())
}

// PadHex left-pads a hex id to n digits and decodes it (the decoder's documented reading).
func PadHex(h string, n int) []byte {
	if len(h) < n {
		h = strings.Repeat("0", n-len(h)) + h
	}
	b, _ := hex.DecodeString(h[:n])
	return b
}

func genHexID(rt *rapid.T, digits int, label string, allowShort bool) string {
	var h string
	switch rapid.IntRange(0, 11).Draw(rt, label+"-kind") {
	case 0:
		h = strings.Repeat("0", digits)
	case 1:
		h = strings.Repeat("f", digits)
	case 2:
		h = strings.Repeat("0", digits-1) + "1"
	default:
		h = hex.EncodeToString(rapid.SliceOfN(rapid.Byte(), digits/2, digits/2).Draw(rt, label))
	}
	if allowShort && rapid.IntRange(0, 9).Draw(rt, label+"-short") == 0 {
		// Zipkin API: traceId is 16..32 hex digits; id and parentId are exactly 16
		n := rapid.IntRange(16, digits-1).Draw(rt, label+"-len")
		h = h[digits-n:]
	}
	if rapid.IntRange(0, 14).Draw(rt, label+"-upper") == 0 {
		h = strings.ToUpper(h)
	}
	return h
}

func genEndpoint(rt *rapid.T, label string) ZipkinEndpoint {
	e := ZipkinEndpoint{}
	if rapid.IntRange(0, 9).Draw(rt, label+"-present") < 4 {
		return e
	}
	e.Present = true
	if rapid.IntRange(0, 9).Draw(rt, label+"-has-name") < 8 {
		e.HasName = true
		if rapid.IntRange(0, 9).Draw(rt, label+"-name-kind") == 0 {
			e.ServiceName = ""
		} else if rapid.IntRange(0, 4).Draw(rt, label+"-name-kind2") == 0 {
			e.ServiceName = HostileUTF8(rt, label+"-name")
		} else {
			e.ServiceName = rapid.SampledFrom([]string{"frontend", "backend", "db", "svc-ü"}).Draw(rt, label+"-name")
		}
	}
	if rapid.Bool().Draw(rt, label+"-ip") {
		e.IPv4 = "10.0.0." + strconv.Itoa(rapid.IntRange(1, 9).Draw(rt, label+"-ipd"))
	}
	if rapid.Bool().Draw(rt, label+"-port") {
		e.Port = rapid.IntRange(1, 65535).Draw(rt, label+"-portv")
	}
	return e
}

// GenZipkinBatch draws 0-6 spans; spans share trace ids and reference each other as parents.
// bigTags allows a tag value beyond 64 KiB now and then.
func GenZipkinBatch(rt *rapid.T, bigTags bool) ZipkinBatch {
	b := ZipkinBatch{ND: rapid.Bool().Draw(rt, "nd"), TrailingNL: rapid.Bool().Draw(rt, "trailing-nl"), CRLF: rapid.IntRange(0, 5).Draw(rt, "crlf") == 0}
	n := rapid.IntRange(0, 6).Draw(rt, "nspans")
	// now and then every tag is large, so that the batch passes the parser's 1 MiB flush mark
	allBig := bigTags && rapid.IntRange(0, 79).Draw(rt, "all-big") == 41
	traces := []string{genHexID(rt, 32, "trace", true)}
	var ids []string
	perm := make([]int, zipkinSlots)
	for i := range perm {
		perm[i] = i
	}
	for i := 0; i < n; i++ {
		s := ZipkinSpan{}
		if rapid.IntRange(0, 3).Draw(rt, "new-trace") == 0 {
			if rapid.Bool().Draw(rt, "trace64") {
				traces = append(traces, genHexID(rt, 16, "trace", false)) // 64-bit trace id: standard
			} else {
				traces = append(traces, genHexID(rt, 32, "trace", true))
			}
		}
		s.TraceID = rapid.SampledFrom(traces).Draw(rt, "trace-pick")
		s.ID = genHexID(rt, 16, "id", false)
		switch rapid.IntRange(0, 5).Draw(rt, "parent-kind") {
		case 0, 1:
		case 2:
			s.HasParent, s.ParentID = true, genHexID(rt, 16, "parent", false)
		default:
			if len(ids) > 0 {
				s.HasParent, s.ParentID = true, rapid.SampledFrom(ids).Draw(rt, "parent-pick")
			}
		}
		ids = append(ids, s.ID)
		if rapid.IntRange(0, 9).Draw(rt, "has-name") < 9 {
			s.HasName, s.Name = true, HostileUTF8(rt, "name")
		}
		s.Kind = rapid.SampledFrom([]string{"", "CLIENT", "SERVER", "PRODUCER", "CONSUMER"}).Draw(rt, "kind")
		if rapid.IntRange(0, 9).Draw(rt, "has-ts") < 9 {
			s.HasTS = true
			s.TS = rapid.OneOf(rapid.Int64Range(1_700_000_000_000_000, 1_700_000_003_000_000), rapid.Int64Range(0, 9_000_000_000_000_000)).Draw(rt, "ts")
			s.TSString = rapid.IntRange(0, 2).Draw(rt, "ts-string") == 0
		}
		if rapid.IntRange(0, 9).Draw(rt, "has-dur") < 9 {
			s.HasDur = true
			s.Dur = rapid.OneOf(rapid.Int64Range(0, 5), rapid.Int64Range(0, 3_600_000_000)).Draw(rt, "dur")
			s.DurString = rapid.IntRange(0, 2).Draw(rt, "dur-string") == 0
		}
		s.Local = genEndpoint(rt, "local")
		s.Remote = genEndpoint(rt, "remote")
		if rapid.IntRange(0, 9).Draw(rt, "has-tags") < 8 {
			s.HasTags = true
			nt := rapid.IntRange(0, 4).Draw(rt, "ntags")
			seen := map[string]bool{}
			for k := 0; k < nt; k++ {
				t := ZipkinTag{}
				if rapid.IntRange(0, 2).Draw(rt, "tag-key-kind") == 0 {
					t.K = HostileUTF8(rt, "tag-key")
				} else {
					t.K = rapid.SampledFrom([]string{"http.method", "http.path", "error", "a", "a.b", "peer.service", "q"}).Draw(rt, "tag-key")
				}
				if seen[t.K] || ZipkinReservedTagKeys[t.K] {
					continue
				}
				seen[t.K] = true
				if rapid.IntRange(0, 7).Draw(rt, "tag-raw") == 0 {
					t.Raw = rapid.SampledFrom([]string{"5", "true", "null", "{}", "[\"x\"]", "1.5", "{\"a\":\"b\"}"}).Draw(rt, "tag-rawv")
				} else {
					t.V = HostileUTF8(rt, "tag-val")
					if allBig {
						t.Pad = rapid.IntRange(150_000, 400_000).Draw(rt, "tag-pad")
					} else if bigTags && rapid.IntRange(0, 199).Draw(rt, "tag-big") == 97 {
						t.Pad = rapid.IntRange(60_000, 200_000).Draw(rt, "tag-pad")
					}
				}
				s.Tags = append(s.Tags, t)
			}
		}
		s.Annotations = rapid.IntRange(0, 2).Draw(rt, "annotations")
		s.Extra = rapid.IntRange(0, 3).Draw(rt, "extra") == 0
		s.Order = rapid.Permutation(perm).Draw(rt, "order")
		s.Order2 = rapid.Permutation(perm).Draw(rt, "order2")
		s.Esc = rapid.IntRange(0, 2).Draw(rt, "esc")
		s.WS = rapid.IntRange(0, 2).Draw(rt, "ws")
		b.Spans = append(b.Spans, s)
	}
	return b
}

package gen

// labels.go: label sets whose names stay distinct after qryn's sanitisation, the model of
// that sanitisation, canonical keys, permutations and adversarial neighbours.

import (
	"fmt"
	"sort"
	"strings"
	"unicode/utf8"

	"pgregory.net/rapid"

	"qrynverif/evid"
)

// Label is one name/value pair (bytes, not necessarily UTF-8).
type Label struct {
	Name  evid.Str `json:"n"`
	Value evid.Str `json:"v"`
}

// L is shorthand for a Label literal.
func L(n, v string) Label { return Label{evid.Str(n), evid.Str(v)} }

// SanitizeName models writer/utils/unmarshal/unmarshal.go:276 sanitizeRe
// "(^[^a-zA-Z_]|[^a-zA-Z0-9_])" -> "_": every rune (or stray byte) outside the Prometheus
// label alphabet becomes one underscore; a leading digit too.
func SanitizeName(s string) string {
	var sb strings.Builder
	for i := 0; i < len(s); {
		r, w := utf8.DecodeRuneInString(s[i:])
		ok := r < utf8.RuneSelf && (r == '_' || r >= 'a' && r <= 'z' || r >= 'A' && r <= 'Z' || (i > 0 && r >= '0' && r <= '9'))
		if ok {
			sb.WriteByte(byte(r))
		} else {
			sb.WriteByte('_')
		}
		i += w
	}
	return sb.String()
}

// TruncValue models unmarshal.go:281: values longer than 100 bytes are cut to 100 bytes
// plus "...".
func TruncValue(v string) string {
	if len(v) > 100 {
		return v[:100] + "..."
	}
	return v
}

// Sanitized returns the label set qryn stores for a set pushed through a protocol that
// calls sanitizeLabels (Loki JSON/protobuf, remote-write, Influx).
func Sanitized(ls []Label) []Label {
	out := make([]Label, len(ls))
	for i, l := range ls {
		out[i] = L(SanitizeName(string(l.Name)), TruncValue(string(l.Value)))
	}
	return out
}

// CanonKey is an order-independent injective key of a label set (a multiset of pairs).
func CanonKey(ls []Label) string {
	ps := make([]string, len(ls))
	for i, l := range ls {
		ps[i] = fmt.Sprintf("%d:%s=%d:%s", len(l.Name), l.Name, len(l.Value), l.Value)
	}
	sort.Strings(ps)
	return strings.Join(ps, ",")
}

// Permute returns the set in the order selected by seed (Fisher-Yates driven by a
// splitmix sequence, so a case only has to store one integer).
func Permute(ls []Label, seed uint64) []Label {
	out := make([]Label, len(ls))
	for i, j := range PermIdx(len(ls), seed) {
		out[i] = ls[j]
	}
	return out
}

// PermIdx returns a permutation of 0..n-1 selected by seed (seed 0 = identity).
func PermIdx(n int, seed uint64) []int {
	out := make([]int, n)
	for i := range out {
		out[i] = i
	}
	if seed == 0 {
		return out
	}
	x := seed
	for i := n - 1; i > 0; i-- {
		x += 0x9e3779b97f4a7c15
		z := x
		z = (z ^ (z >> 30)) * 0xbf58476d1ce4e5b9
		z = (z ^ (z >> 27)) * 0x94d049bb133111eb
		z ^= z >> 31
		j := int(z % uint64(i+1))
		out[i], out[j] = out[j], out[i]
	}
	return out
}

// Name alphabets.
const (
	NamesAny     = iota // any non-empty bytes (JSON object keys, remote-write label names)
	NamesUTF8           // any non-empty valid UTF-8 (protobuf string fields)
	NamesGoIdent        // Go identifiers: the Loki label-string syntax is read with text/scanner (unmarshal.go:342)
	NamesPlain          // [a-zA-Z_][a-zA-Z0-9_]*: unchanged by sanitisation
)

// LabelOpt controls LabelSet.
type LabelOpt struct {
	Min, Max int
	Names    int
	Val      StrOpt
	Long     bool // allow values longer than 100 bytes
	// LongNames stretches about one name in six to 60..400 bytes (lengths around 64, 100,
	// 128 and 255 are favoured). Sanitisation caps values, not names (unmarshal.go
	// sanitizeLabels), so the whole name is part of the series identity.
	LongNames bool
	Reserved  []string // sanitised names that must not be produced
	// Exclude lists bytes a name cannot carry on the wire.
	NameExclude string
	// Sanitizer is the name sanitisation of the target protocol (default SanitizeName).
	Sanitizer func(string) string
}

var plainNames = []string{"job", "app", "host", "level", "env", "pod", "instance", "le", "a", "b", "c", "x_y", "_z", "A", "Job"}
var dottedNames = []string{"k8s.pod.name", "service.name", "a.b", "a-b", "a b", "a/b", "0a", "9", "a:b", "a\"b", "a\\b", "é", "日本", "a.b.c", "-", ".", "a\n", "ab", "a\xffb", "\xc3"}
var goIdentNames = []string{"é", "日本", "aé", "ñ_1", "Ωmega", "a1", "_0"}

func drawName(rt *rapid.T, kind int) string {
	switch kind {
	case NamesPlain:
		if rapid.Bool().Draw(rt, "name-list") {
			return rapid.SampledFrom(plainNames).Draw(rt, "name")
		}
		return rapid.StringMatching(`[a-zA-Z_][a-zA-Z0-9_]{0,8}`).Draw(rt, "name")
	case NamesGoIdent:
		switch rapid.IntRange(0, 3).Draw(rt, "name-k") {
		case 0:
			return rapid.SampledFrom(plainNames).Draw(rt, "name")
		case 1:
			return rapid.SampledFrom(goIdentNames).Draw(rt, "name")
		default:
			return rapid.StringMatching(`[a-zA-Z_][a-zA-Z0-9_]{0,8}`).Draw(rt, "name")
		}
	default:
		switch rapid.IntRange(0, 5).Draw(rt, "name-k") {
		case 0, 1:
			return rapid.SampledFrom(plainNames).Draw(rt, "name")
		case 2:
			return rapid.SampledFrom(dottedNames).Draw(rt, "name")
		case 3:
			return rapid.StringMatching(`[a-zA-Z_][a-zA-Z0-9_]{0,8}`).Draw(rt, "name")
		case 4:
			return rapid.StringMatching(`[a-z0-9][a-z0-9_.:-]{0,8}`).Draw(rt, "name")
		default:
			return HostileStr(rt, "name", StrOpt{Max: 10, NoEmpty: true, UTF8Only: kind == NamesUTF8})
		}
	}
}

// LabelSet draws a set of labels whose sanitised names are pairwise distinct, non-empty
// and not reserved. (Precondition every real client respects: Loki, Prometheus and the
// OTLP SDKs all send label sets as maps; two names that collapse after sanitisation are
// outside the property's quantifier, properties.jsonl C04.)
func LabelSet(rt *rapid.T, o LabelOpt) []Label {
	n := rapid.IntRange(o.Min, o.Max).Draw(rt, "nlabels")
	seen := map[string]bool{"": true, "__ttl_days__": true} // builder.go:305 strips __ttl_days__
	for _, r := range o.Reserved {
		seen[r] = true
	}
	var out []Label
	for tries := 0; len(out) < n && tries < 4*n+4; tries++ {
		name := drawName(rt, o.Names)
		if o.Names == NamesUTF8 && !utf8.ValidString(name) {
			name = strings.ToValidUTF8(name, "?")
		}
		if o.NameExclude != "" {
			name = strings.Map(func(r rune) rune {
				if r < utf8.RuneSelf && strings.IndexByte(o.NameExclude, byte(r)) >= 0 {
					return -1
				}
				return r
			}, name)
		}
		if name == "" {
			continue
		}
		if o.LongNames && rapid.IntRange(0, 5).Draw(rt, "long-name") == 3 {
			name = StretchName(name, rapid.SampledFrom(longNameLens).Draw(rt, "name-len")+rapid.IntRange(-3, 9).Draw(rt, "name-len-d"))
		}
		sn := SanitizeName(name)
		if o.Sanitizer != nil {
			sn = o.Sanitizer(name)
		}
		if seen[sn] || strings.HasPrefix(sn, "qvfan") {
			continue
		}
		seen[sn] = true
		vo := o.Val
		var v string
		if o.Long && rapid.IntRange(0, 9).Draw(rt, "long") == 0 {
			vo.Max = 140
			v = HostileStr(rt, "val", vo)
			pad := rapid.IntRange(95, 130).Draw(rt, "vlen")
			for len(v) < pad {
				v += "0123456789"
			}
			// the cut at byte 100 may split a rune: qryn cuts bytes (unmarshal.go:282)
			if len(v) > 101 && rapid.IntRange(0, 3).Draw(rt, "rune-at-cut") == 0 {
				v = strings.ToValidUTF8(v[:99], "?") + "é" + strings.ToValidUTF8(v[101:], "?")
			}
		} else {
			v = HostileStr(rt, "val", vo)
		}
		out = append(out, L(name, v))
	}
	if len(out) < o.Min { // only when every candidate collided; fall back to plain fresh names
		for i := 0; len(out) < o.Min; i++ {
			nm := fmt.Sprintf("l%d", i)
			if !seen[nm] {
				seen[nm] = true
				out = append(out, L(nm, "v"))
			}
		}
	}
	return out
}

var longNameLens = []int{64, 100, 128, 255, 70, 140, 300, 400}

const namePad = "abcdefghij_0123456789_klmnopqrstuvwxyz_ABCDEFGHIJKLMNOPQRSTUVWXYZ_"

// StretchName pads a name with plain label bytes (unchanged by sanitisation, valid in
// every name alphabet) up to n bytes.
func StretchName(name string, n int) string {
	var sb strings.Builder
	sb.WriteString(name)
	for i := 0; sb.Len() < n; i++ {
		sb.WriteByte(namePad[i%len(namePad)])
	}
	return sb.String()
}

// capPositions are the byte offsets at which sloppy hashing or copying tends to stop.
var capPositions = []int{63, 64, 99, 100, 127, 128, 254, 255}

func otherPlain(c byte) byte {
	if c == 'Q' {
		return 'R'
	}
	return 'Q'
}

// tailNeighbours are the neighbours aimed at length limits: a long name changed only in its
// last byte or at / right after one of capPositions, a long name with one byte appended or
// removed; a value changed just before the 100-byte cap of sanitizeLabels, and a value of
// exactly 100 bytes against the longer one with the same first 100 bytes (the latter is
// stored with "..." appended, so the sets differ).
func tailNeighbours(ls []Label) [][]Label {
	var out [][]Label
	cp := func() []Label { return append([]Label(nil), ls...) }
	for i, l := range ls {
		n, v := string(l.Name), string(l.Value)
		if len(n) > 32 {
			b := []byte(n)
			b[len(b)-1] = otherPlain(b[len(b)-1])
			c := cp()
			c[i].Name = evid.Str(b)
			out = append(out, c)
			for k := len(capPositions) - 1; k >= 0; k-- {
				if pos := capPositions[k]; pos < len(n)-1 {
					b := []byte(n)
					b[pos] = otherPlain(b[pos])
					c := cp()
					c[i].Name = evid.Str(b)
					out = append(out, c)
					break // the highest position inside the name: the longest common prefix
				}
			}
			c2 := cp()
			c2[i].Name = evid.Str(n + "Q")
			out = append(out, c2)
			c3 := cp()
			c3[i].Name = evid.Str(n[:len(n)-1])
			out = append(out, c3)
		}
		if len(v) >= 100 {
			b := []byte(v)
			b[99] = otherPlain(b[99])
			c := cp()
			c[i].Value = evid.Str(b)
			out = append(out, c)
			if len(v) > 100 {
				c2 := cp()
				c2[i].Value = evid.Str(v[:100])
				out = append(out, c2)
			}
		}
	}
	return out
}

// SameSanitized returns spellings of ls that differ from it only behind the 100-byte cap of
// a value: by the documented sanitisation (value cut to 100 bytes plus "...") they are the
// same stored label set and must share its fingerprint.
func SameSanitized(ls []Label) [][]Label {
	var out [][]Label
	base := CanonKey(Sanitized(ls))
	for i, l := range ls {
		v := string(l.Value)
		if len(v) <= 100 {
			continue
		}
		for _, alt := range []string{v + "Z", v[:100] + "#another-tail", v[:100] + "..."} {
			if alt == v {
				continue
			}
			c := append([]Label(nil), ls...)
			c[i].Value = evid.Str(alt)
			if CanonKey(Sanitized(c)) == base {
				out = append(out, c)
			}
		}
	}
	return out
}

// Neighbours returns label sets that differ from ls in at least one sanitised pair but are
// built to collide under sloppy hashing: a character moved across the name/value
// boundary, two values swapped, an empty-valued label added, a label dropped, name and
// value exchanged, two pairs merged into one, and (first in the list) the length-limit
// neighbours of tailNeighbours. Sets whose sanitised form equals that of ls
// (or whose names collide after sanitisation) are filtered out.
func Neighbours(ls []Label) [][]Label {
	// the length-limit neighbours come first: callers that only take the first few keep them
	cands := tailNeighbours(ls)
	cp := func() []Label { return append([]Label(nil), ls...) }
	for i, l := range ls {
		n, v := string(l.Name), string(l.Value)
		if len(n) > 1 && isPlainByte(n[len(n)-1]) { // ab=c -> a=bc
			c := cp()
			c[i] = L(n[:len(n)-1], n[len(n)-1:]+v)
			cands = append(cands, c)
		}
		if len(v) > 0 && isPlainByte(v[0]) { // a=bc -> ab=c
			c := cp()
			c[i] = L(n+v[:1], v[1:])
			cands = append(cands, c)
		}
		if n != v && v != "" {
			c := cp()
			c[i] = L(v, n)
			cands = append(cands, c)
		}
		for j := i + 1; j < len(ls); j++ {
			if ls[j].Value != l.Value {
				c := cp()
				c[i].Value, c[j].Value = ls[j].Value, l.Value
				cands = append(cands, c)
			}
			// merge two pairs into one: a=b,c=d -> a=bc=d / ab=cd
			c := append(append([]Label(nil), ls[:j]...), ls[j+1:]...)
			c[i] = L(n, v+string(ls[j].Name)+string(ls[j].Value))
			cands = append(cands, c)
		}
		c := append(append([]Label(nil), ls[:i]...), ls[i+1:]...)
		cands = append(cands, c)
		c2 := cp()
		c2[i].Value = evid.Str(v + "\x00")
		cands = append(cands, c2)
	}
	for _, extra := range []Label{L("zz_extra", ""), L("_", ""), L("zz_extra", "0")} {
		cands = append(cands, append(cp(), extra))
	}
	base := CanonKey(Sanitized(ls))
	seenKeys := map[string]bool{base: true}
	var out [][]Label
	for _, c := range cands {
		s := Sanitized(c)
		names := map[string]bool{"": true, "__ttl_days__": true}
		ok := true
		for _, l := range s {
			if names[string(l.Name)] {
				ok = false
			}
			names[string(l.Name)] = true
		}
		k := CanonKey(s)
		if !ok || seenKeys[k] {
			continue
		}
		seenKeys[k] = true
		out = append(out, c)
	}
	return out
}

func isPlainByte(c byte) bool {
	return c >= 'a' && c <= 'z' || c >= 'A' && c <= 'Z'
}

// AliasSpelling returns the set with one name spelled differently but sanitising to the
// same name (one of the bytes "_.-:" replaced by another of them); ok=false when no name
// holds such a byte.
func AliasSpelling(ls []Label) (out []Label, ok bool) {
	const alts = "_.-:"
	for i, l := range ls {
		n := []byte(l.Name)
		for k := len(n) - 1; k >= 0; k-- {
			if j := strings.IndexByte(alts, n[k]); j >= 0 {
				n[k] = alts[(j+1)%len(alts)]
				out = append([]Label(nil), ls...)
				out[i].Name = evid.Str(n)
				return out, true
			}
		}
	}
	return nil, false
}

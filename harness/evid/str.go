package evid

import (
	"encoding/hex"
	"encoding/json"
	"unicode/utf8"
)

// Str is a byte string that survives JSON: valid UTF-8 is written as a JSON string,
// anything else as {"hex": "..."}; use it in case structs for hostile strings.
type Str string

func (s Str) MarshalJSON() ([]byte, error) {
	if utf8.ValidString(string(s)) {
		return json.Marshal(string(s))
	}
	return json.Marshal(map[string]string{"hex": hex.EncodeToString([]byte(s))})
}

func (s *Str) UnmarshalJSON(b []byte) error {
	var str string
	if err := json.Unmarshal(b, &str); err == nil {
		*s = Str(str)
		return nil
	}
	var m map[string]string
	if err := json.Unmarshal(b, &m); err != nil {
		return err
	}
	raw, err := hex.DecodeString(m["hex"])
	if err != nil {
		return err
	}
	*s = Str(raw)
	return nil
}

// Package evid is the shared runner of every property check: it drives rapid with the
// seed / tier / shard the driver chose, counts and classifies every case, writes the
// shrunk failing case as a plain-JSON replay file, replays known-finding witnesses and
// writes the per-shard evidence the driver merges into /verif/evidence/<id>.json.
//
// A property is split in two: Gen draws a plain, JSON-serialisable case from rapid
// (every random choice lives there, so shrinking and replay work), Pred decides the
// case against the real code. A replay file is just {prop, check, case}; replaying it
// unmarshals the case and calls Pred, bypassing rapid.
package evid

import (
	"crypto/sha256"
	"encoding/hex"
	"encoding/json"
	"flag"
	"fmt"
	"os"
	"path/filepath"
	"runtime/debug"
	"sort"
	"strconv"
	"strings"
	"sync"
	"testing"
	"time"

	"pgregory.net/rapid"
)

// Obs is handed to every Pred call; the predicate uses it to classify the case.
type Obs struct {
	tags       []string
	nontrivial bool
	discard    string
	known      []string
	// Witness is true when the predicate is called to replay a known-finding witness or
	// a replay file: exclusions of known-finding regions must be switched off.
	Witness bool
}

// Tag adds class labels (histogram in evidence).
func (o *Obs) Tag(tags ...string) { o.tags = append(o.tags, tags...) }

// NonTrivial marks the case as non-trivial by the property's stated rule.
func (o *Obs) NonTrivial() { o.nontrivial = true }

// Discard marks the case as not evaluated (outside the oracle's domain); counted, never reported.
func (o *Obs) Discard(reason string) { o.discard = reason }

// Known says the case (or part of it) lies in the region of known finding id and that
// part of the comparison was skipped; counted as excluded.
func (o *Obs) Known(id string) { o.known = append(o.known, id) }

// Config describes one property run.
type Config struct {
	Level       string // exploration | fault_enumeration | ...
	Rule        string
	Assumptions []string
	Exhaustive  bool
}

type check struct {
	name     string
	quick    int
	thorough int
	run      func(rt *rapid.T)
	replay   func(raw json.RawMessage, o *Obs) error
	enum     func(r *Run) // optional exhaustive enumeration instead of rapid
	wal      bool
}

// Prop is a generated check: Gen draws a case, Pred decides it.
type Prop[T any] struct {
	Name string
	// Cases per run in the quick tier and per shard in the thorough tier.
	Quick, Thorough int
	Gen             func(rt *rapid.T) T
	Pred            func(c T, o *Obs) error
	// WAL makes the runner append every case to a write-ahead log before Pred runs, so
	// the driver can re-run the last case alone if the process dies.
	WAL bool
	// Enumerate, if set, is used instead of Gen: it must call yield for every case of a
	// finite space (thorough tier: all of them; quick tier: the runner samples by seed
	// when more than Quick cases exist).
	Enumerate func(yield func(T))
}

type failRec struct {
	Check string          `json:"check"`
	Case  json.RawMessage `json:"case"`
	Err   string          `json:"error"`
}

type sample struct {
	hash string
	val  json.RawMessage
	chk  string
}

// Run is the state of one property run in one process.
type Run struct {
	t      *testing.T
	Prop   string
	cfg    Config
	Tier   string
	Seed   uint64
	Shard  int
	NShard int
	Root   string // /verif
	outDir string // shard evidence directory
	repDir string // replay directory

	checks []*check

	mu          sync.Mutex
	evals       int
	discards    map[string]int
	knownEx     map[string]int
	tags        map[string]int
	ntHashes    map[string]struct{}
	samples     []sample
	perCheck    map[string]int
	violations  []string
	knownHits   []string
	lastFail    map[string]failRec
	start       time.Time
	wal         *os.File
	enumerated  map[string]int
	exhaustive  bool
	replayFile  string
	notes       []string
	walOn       bool
	lastFlush   time.Time
}

func env(k, d string) string {
	if v := os.Getenv(k); v != "" {
		return v
	}
	return d
}

// New reads the driver's environment. Without a driver it behaves as quick tier, seed 1.
func New(t *testing.T, prop string, cfg Config) *Run {
	seed, _ := strconv.ParseUint(env("VERIF_SEED", "1"), 10, 64)
	if seed == 0 {
		seed = 1 // rapid treats 0 as "random"
	}
	shard, _ := strconv.Atoi(env("VERIF_SHARD", "0"))
	nshard, _ := strconv.Atoi(env("VERIF_NSHARDS", "1"))
	root := env("VERIF_ROOT", "/verif")
	out := env("VERIF_OUT", filepath.Join(root, "evidence", ".shards"))
	r := &Run{
		t: t, Prop: prop, cfg: cfg,
		Tier: env("VERIF_TIER", "quick"), Seed: seed, Shard: shard, NShard: nshard,
		Root: root, outDir: out, repDir: env("VERIF_REPLAYS", filepath.Join(root, "replays", prop)),
		discards: map[string]int{}, knownEx: map[string]int{}, tags: map[string]int{},
		ntHashes: map[string]struct{}{}, perCheck: map[string]int{}, lastFail: map[string]failRec{},
		enumerated: map[string]int{}, exhaustive: true,
		start:      time.Now(), replayFile: os.Getenv("VERIF_REPLAY"),
	}
	if r.Tier != "quick" && r.Tier != "thorough" {
		r.Tier = "quick"
	}
	return r
}

// Note adds a free-text note to the evidence.
func (r *Run) Note(format string, a ...any) {
	r.mu.Lock()
	r.notes = append(r.notes, fmt.Sprintf(format, a...))
	r.mu.Unlock()
}

func hashOf(chk string, raw []byte) string {
	h := sha256.New()
	h.Write([]byte(chk))
	h.Write([]byte{0})
	h.Write(raw)
	return hex.EncodeToString(h.Sum(nil)[:8])
}

func safe(f func() error) (err error) {
	defer func() {
		if p := recover(); p != nil {
			st := string(debug.Stack())
			// keep the frames below the panic, drop the runner's own
			err = fmt.Errorf("panic: %v\n%s", p, trimStack(st))
		}
	}()
	return f()
}

func trimStack(s string) string {
	lines := strings.Split(s, "\n")
	if len(lines) > 40 {
		lines = lines[:40]
	}
	return strings.Join(lines, "\n")
}

func (r *Run) record(chk string, raw []byte, o *Obs, err error) {
	r.mu.Lock()
	defer r.mu.Unlock()
	if r.walOn && time.Since(r.lastFlush) > 3*time.Second {
		// a process-killing case leaves no chance to write evidence: keep a recent copy on disk
		r.lastFlush = time.Now()
		r.writeShardLocked()
	}
	r.evals++
	r.perCheck[chk]++
	for _, tg := range o.tags {
		r.tags[chk+":"+tg]++
	}
	for _, k := range o.known {
		r.knownEx[k]++
	}
	if o.discard != "" {
		r.discards[chk+":"+o.discard]++
		return
	}
	if !o.nontrivial {
		return
	}
	h := hashOf(chk, raw)
	if _, ok := r.ntHashes[h]; ok {
		return
	}
	r.ntHashes[h] = struct{}{}
	if len(raw) <= 6000 {
		// keep the samples with the smallest hashes: deterministic, spread over the run
		r.samples = append(r.samples, sample{h, append([]byte(nil), raw...), chk})
		if len(r.samples) > 64 {
			sort.Slice(r.samples, func(i, j int) bool { return r.samples[i].hash < r.samples[j].hash })
			r.samples = r.samples[:12]
		}
	}
}

// Add registers a generated check.
func Add[T any](r *Run, p Prop[T]) {
	c := &check{name: p.Name, quick: p.Quick, thorough: p.Thorough, wal: p.WAL}
	eval := func(cs T, raw []byte, witness bool) (*Obs, error) {
		o := &Obs{Witness: witness}
		if p.WAL && !witness {
			r.walOn = true
			r.walWrite(p.Name, raw)
		}
		err := safe(func() error { return p.Pred(cs, o) })
		return o, err
	}
	c.run = func(rt *rapid.T) {
		cs := p.Gen(rt)
		raw, jerr := json.Marshal(cs)
		if jerr != nil {
			panic("evid: case not serialisable: " + jerr.Error())
		}
		o, err := eval(cs, raw, false)
		r.record(p.Name, raw, o, err)
		if err != nil {
			r.mu.Lock()
			r.lastFail[p.Name] = failRec{p.Name, raw, err.Error()}
			r.mu.Unlock()
			rt.Fatalf("property %s/%s failed: %v", r.Prop, p.Name, err)
		}
	}
	c.replay = func(raw json.RawMessage, o *Obs) error {
		var cs T
		if err := json.Unmarshal(raw, &cs); err != nil {
			return fmt.Errorf("replay: cannot decode case: %w", err)
		}
		o.Witness = true
		return safe(func() error { return p.Pred(cs, o) })
	}
	if p.Enumerate != nil {
		c.enum = func(r *Run) {
			var all []T
			p.Enumerate(func(x T) { all = append(all, x) })
			total := len(all)
			idx := make([]int, 0, total)
			for i := 0; i < total; i++ {
				if i%r.NShard == r.Shard {
					idx = append(idx, i)
				}
			}
			full := true
			limit := p.Thorough
			if r.Tier == "quick" {
				limit = p.Quick
			}
			if limit > 0 && len(idx) > limit {
				// deterministic sample by seed: stride through the index list
				full = false
				step := len(idx) / limit
				off := int(r.Seed % uint64(step+1))
				var sel []int
				for k := off; k < len(idx) && len(sel) < limit; k += step {
					sel = append(sel, idx[k])
				}
				idx = sel
			}
			for _, i := range idx {
				cs := all[i]
				raw, _ := json.Marshal(cs)
				o, err := eval(cs, raw, false)
				r.record(p.Name, raw, o, err)
				if err != nil {
					r.violation(p.Name, raw, err)
					break
				}
			}
			r.mu.Lock()
			r.enumerated[p.Name] = total
			if !full {
				r.exhaustive = false
			}
			r.mu.Unlock()
		}
	}
	r.checks = append(r.checks, c)
}

func (r *Run) walWrite(chk string, raw []byte) {
	if r.wal == nil {
		_ = os.MkdirAll(r.outDir, 0o755)
		f, err := os.OpenFile(filepath.Join(r.outDir, fmt.Sprintf("%s.%d.wal", r.Prop, r.Shard)), os.O_CREATE|os.O_TRUNC|os.O_WRONLY, 0o644)
		if err != nil {
			return
		}
		r.wal = f
	}
	// one record per line; only the last one matters, so rewrite in place
	rec, _ := json.Marshal(replayFile{Property: r.Prop, Check: chk, Case: raw})
	_, _ = r.wal.Seek(0, 0)
	_ = r.wal.Truncate(0)
	_, _ = r.wal.Write(append(rec, '\n'))
}

type replayFile struct {
	Property string          `json:"property"`
	Check    string          `json:"check"`
	Case     json.RawMessage `json:"case"`
	Error    string          `json:"error,omitempty"`
	Seed     uint64          `json:"seed,omitempty"`
	Tier     string          `json:"tier,omitempty"`
}

func (r *Run) violation(chk string, raw []byte, err error) {
	_ = os.MkdirAll(r.repDir, 0o755)
	name := filepath.Join(r.repDir, chk+"-"+hashOf(chk, raw)+".json")
	b, _ := json.MarshalIndent(replayFile{Property: r.Prop, Check: chk, Case: raw, Error: err.Error(), Seed: r.Seed, Tier: r.Tier}, "", " ")
	_ = os.WriteFile(name, b, 0o644)
	fmt.Printf("VIOLATION property=%s replay=%s\n", r.Prop, name)
	msg := err.Error()
	if len(msg) > 3000 {
		msg = msg[:3000] + "…"
	}
	fmt.Printf("  check=%s error: %s\n", chk, strings.ReplaceAll(msg, "\n", "\n  "))
	r.mu.Lock()
	r.violations = append(r.violations, name)
	r.mu.Unlock()
}

// Known finding file format (committed, never written at run time).
type Finding struct {
	Property string `json:"property"`
	ID       string `json:"id"`
	Status   string `json:"status"` // "known" | "fixed"
	Check    string `json:"check"`
	Witness  string `json:"witness"` // replay file relative to /verif
	What     string `json:"what"`
	Commit   string `json:"commit,omitempty"`
}

func (r *Run) findings() []Finding {
	files := []string{filepath.Join(r.Root, "known_findings.json")}
	more, _ := filepath.Glob(filepath.Join(r.Root, "known_findings.d", "*.json"))
	sort.Strings(more)
	files = append(files, more...)
	var out []Finding
	for _, fn := range files {
		b, err := os.ReadFile(fn)
		if err != nil {
			continue
		}
		var doc struct {
			Findings []Finding `json:"findings"`
		}
		if err := json.Unmarshal(b, &doc); err != nil {
			fmt.Printf("INCONCLUSIVE property=%s: %s unreadable: %v\n", r.Prop, fn, err)
			continue
		}
		for _, f := range doc.Findings {
			if f.Property == r.Prop {
				out = append(out, f)
			}
		}
	}
	return out
}

func (r *Run) findCheck(name string) *check {
	for _, c := range r.checks {
		if c.name == name {
			return c
		}
	}
	return nil
}

func (r *Run) replayPath(path string) (chk string, raw json.RawMessage, err error) {
	if !filepath.IsAbs(path) {
		path = filepath.Join(r.Root, path)
	}
	b, e := os.ReadFile(path)
	if e != nil {
		return "", nil, e
	}
	// WAL files hold one record on the first line
	var rf replayFile
	if e := json.Unmarshal(b, &rf); e != nil {
		line := b
		if i := strings.IndexByte(string(b), '\n'); i >= 0 {
			line = b[:i]
		}
		if e2 := json.Unmarshal(line, &rf); e2 != nil {
			return "", nil, e
		}
	}
	return rf.Check, rf.Case, nil
}

// witnesses replays the witness of every listed finding of this property (shard 0 only).
func (r *Run) witnesses() {
	if r.Shard != 0 {
		return
	}
	for _, f := range r.findings() {
		if f.Witness == "" {
			continue
		}
		chk, raw, err := r.replayPath(f.Witness)
		if err != nil {
			r.t.Logf("finding %s: witness unreadable: %v", f.ID, err)
			continue
		}
		c := r.findCheck(chk)
		if c == nil {
			r.t.Logf("finding %s: unknown check %q", f.ID, chk)
			continue
		}
		o := &Obs{}
		if c.wal {
			// a witness of a process-killing defect: log it first so that, if it regresses and
			// kills this process, the driver re-runs it alone and reports the violation
			r.walOn = true
			r.walWrite(chk, raw)
		}
		perr := c.replay(raw, o)
		switch {
		case f.Status == "known" && perr != nil:
			fmt.Printf("KNOWN-FINDING: property=%s %s: %s\n", r.Prop, f.ID, f.What)
			r.mu.Lock()
			r.knownHits = append(r.knownHits, f.ID)
			r.mu.Unlock()
		case f.Status == "known" && perr == nil:
			r.Note("finding %s no longer reproduces from its witness", f.ID)
		case f.Status == "fixed" && perr != nil:
			// a fixed entry suppresses nothing: the regression is a violation again
			r.violation(chk, raw, fmt.Errorf("regression of fixed finding %s: %w", f.ID, perr))
		}
		r.mu.Lock()
		r.evals++
		r.perCheck["witness:"+f.ID]++
		r.mu.Unlock()
	}
}

// Main runs replay mode, or witnesses + campaign, then writes the shard evidence.
func (r *Run) Main() {
	defer r.finish()
	if r.replayFile != "" {
		chk, raw, err := r.replayPath(r.replayFile)
		if err != nil {
			r.t.Fatalf("replay: %v", err)
		}
		c := r.findCheck(chk)
		if c == nil {
			r.t.Fatalf("replay: unknown check %q", chk)
		}
		o := &Obs{}
		if perr := c.replay(raw, o); perr != nil {
			fmt.Printf("VIOLATION property=%s replay=%s\n  check=%s error: %s\n", r.Prop, r.replayFile, chk, strings.ReplaceAll(perr.Error(), "\n", "\n  "))
			r.t.Fail()
		} else {
			fmt.Printf("REPLAY-OK property=%s check=%s\n", r.Prop, chk)
		}
		return
	}
	r.witnesses()
	only := os.Getenv("VERIF_ONLY") // development aid: run a single sub-check
	for _, c := range r.checks {
		if only != "" && only != c.name {
			continue
		}
		if c.enum != nil {
			c.enum(r)
			continue
		}
		n := c.quick
		if r.Tier == "thorough" {
			n = c.thorough
		}
		if n <= 0 {
			continue
		}
		if s := os.Getenv("VERIF_CASES"); s != "" { // development aid
			if v, err := strconv.Atoi(s); err == nil {
				n = v
			}
		}
		_ = flag.Set("rapid.checks", strconv.Itoa(n))
		_ = flag.Set("rapid.seed", strconv.FormatUint(r.Seed*1000003+uint64(r.Shard)*7919+uint64(len(c.name)), 10))
		_ = flag.Set("rapid.nofailfile", "true")
		if os.Getenv("VERIF_SHRINKTIME") != "" {
			_ = flag.Set("rapid.shrinktime", os.Getenv("VERIF_SHRINKTIME"))
		}
		cc := c
		ok := r.t.Run(cc.name, func(st *testing.T) { rapid.Check(st, cc.run) })
		if !ok {
			r.mu.Lock()
			fr, have := r.lastFail[cc.name]
			r.mu.Unlock()
			if have {
				r.violation(cc.name, fr.Case, fmt.Errorf("%s", fr.Err))
			} else {
				// rapid itself failed (generator error, too many discards): infrastructure
				fmt.Printf("INCONCLUSIVE property=%s check=%s: rapid failed without a recorded case\n", r.Prop, cc.name)
			}
		}
	}
}

type shardEvidence struct {
	Property    string            `json:"property_id"`
	Tier        string            `json:"tier"`
	Seed        uint64            `json:"seed"`
	Shard       int               `json:"shard"`
	Level       string            `json:"level"`
	Rule        string            `json:"rule"`
	Assumptions []string          `json:"assumptions"`
	Evaluations int               `json:"evaluations"`
	NTHashes    []string          `json:"nontrivial_hashes"`
	Samples     []json.RawMessage `json:"samples"`
	Tags        map[string]int    `json:"classes"`
	Discards    map[string]int    `json:"discarded"`
	KnownEx     map[string]int    `json:"known_finding_region_excluded"`
	PerCheck    map[string]int    `json:"per_check"`
	Enumerated  map[string]int    `json:"enumerated_space,omitempty"`
	Exhaustive  bool              `json:"exhaustive"`
	Violations  []string          `json:"violations"`
	KnownHits   []string          `json:"known_finding_hits"`
	Notes       []string          `json:"notes,omitempty"`
	WallS       float64           `json:"wall_s"`
}

func (r *Run) finish() {
	if r.wal != nil {
		_ = r.wal.Close()
	}
	if r.replayFile != "" {
		return
	}
	r.mu.Lock()
	defer r.mu.Unlock()
	r.writeShardLocked()
}

func (r *Run) writeShardLocked() {
	sort.Slice(r.samples, func(i, j int) bool { return r.samples[i].hash < r.samples[j].hash })
	ev := shardEvidence{
		Property: r.Prop, Tier: r.Tier, Seed: r.Seed, Shard: r.Shard, Level: r.cfg.Level, Rule: r.cfg.Rule,
		Assumptions: r.cfg.Assumptions, Evaluations: r.evals, Tags: r.tags, Discards: r.discards,
		KnownEx: r.knownEx, PerCheck: r.perCheck, Violations: r.violations, KnownHits: r.knownHits,
		Enumerated: r.enumerated, Exhaustive: r.exhaustive && r.cfg.Exhaustive && len(r.enumerated) > 0,
		Notes: r.notes, WallS: time.Since(r.start).Seconds(),
	}
	for h := range r.ntHashes {
		ev.NTHashes = append(ev.NTHashes, h)
	}
	sort.Strings(ev.NTHashes)
	// spread the samples over the checks
	seen := map[string]int{}
	for _, s := range r.samples {
		if seen[s.chk] >= 3 || len(ev.Samples) >= 10 {
			continue
		}
		seen[s.chk]++
		wrapped, _ := json.Marshal(map[string]json.RawMessage{"check": json.RawMessage(strconv.Quote(s.chk)), "case": s.val})
		ev.Samples = append(ev.Samples, wrapped)
	}
	_ = os.MkdirAll(r.outDir, 0o755)
	b, _ := json.MarshalIndent(ev, "", " ")
	_ = os.WriteFile(filepath.Join(r.outDir, fmt.Sprintf("%s.%d.json", r.Prop, r.Shard)), b, 0o644)
}

module qrynverif

go 1.24.0

toolchain go1.24.2

replace (
	cloud.google.com/go/compute v0.2.0 => cloud.google.com/go/compute v1.7.0
	github.com/docker/distribution v2.7.1+incompatible => github.com/docker/distribution v2.8.0+incompatible
	github.com/metrico/qryn => /repo
	github.com/pascaldekloe/mqtt v1.0.0 => github.com/metrico/mqtt v1.0.1-0.20220314083119-cb53cdb0fcbe
	github.com/prometheus/common v0.63.0 => github.com/prometheus/common v0.61.0
	github.com/prometheus/prometheus v0.300.1 => github.com/prometheus/prometheus v1.8.2-0.20220714142409-b41e0750abf5
	//TODO: remove this
	go.opentelemetry.io/collector/pdata v1.12.0 => go.opentelemetry.io/collector/pdata v0.62.1
	go.opentelemetry.io/otel v1.19.0 => go.opentelemetry.io/otel v1.7.0
	go.opentelemetry.io/otel/internal/global v1.19.0 => go.opentelemetry.io/otel/internal/global v1.7.0
	go.opentelemetry.io/otel/metric v1.21.0 => go.opentelemetry.io/otel/metric v0.30.0
	google.golang.org/grpc v1.47.0 => google.golang.org/grpc v1.45.0
	gopkg.in/fatih/pool.v2 v2.0.0 => gopkg.in/fatih/pool.v3 v3.0.0
	k8s.io/api v0.32.3 => k8s.io/api v0.24.17
	k8s.io/apimachinery v0.32.3 => k8s.io/apimachinery v0.24.17
	k8s.io/client-go v12.0.0+incompatible => k8s.io/client-go v0.22.1
)

require (
	github.com/metrico/qryn v0.0.0
	pgregory.net/rapid v1.3.0
)

require (
	github.com/beorn7/perks v1.0.1 // indirect
	github.com/cespare/xxhash/v2 v2.3.0 // indirect
	github.com/davecgh/go-spew v1.1.2-0.20180830191138-d8f796af33cc // indirect
	github.com/dennwc/varint v1.0.0 // indirect
	github.com/go-kit/log v0.2.1 // indirect
	github.com/go-logfmt/logfmt v0.6.0 // indirect
	github.com/go-playground/locales v0.14.0 // indirect
	github.com/go-playground/universal-translator v0.18.0 // indirect
	github.com/grafana/regexp v0.0.0-20240518133315-a468a5bfb3bc // indirect
	github.com/jmoiron/sqlx v1.4.0 // indirect
	github.com/kylelemons/godebug v1.1.0 // indirect
	github.com/leodido/go-urn v1.2.1 // indirect
	github.com/metrico/cloki-config v0.0.82 // indirect
	github.com/munnerz/goautoneg v0.0.0-20191010083416-a7dc8b61c822 // indirect
	github.com/pkg/errors v0.9.1 // indirect
	github.com/pmezard/go-difflib v1.0.1-0.20181226105442-5d4384ee4fb2 // indirect
	github.com/prometheus/client_golang v1.20.5 // indirect
	github.com/prometheus/client_model v0.6.1 // indirect
	github.com/prometheus/common v0.63.0 // indirect
	github.com/prometheus/procfs v0.15.1 // indirect
	github.com/prometheus/prometheus v1.8.2-0.20220714142409-b41e0750abf5 // indirect
	github.com/stretchr/testify v1.10.0 // indirect
	go.opentelemetry.io/proto/otlp v1.4.0 // indirect
	go.uber.org/atomic v1.11.0 // indirect
	go.uber.org/goleak v1.3.0 // indirect
	golang.org/x/sys v0.31.0 // indirect
	google.golang.org/protobuf v1.36.5 // indirect
	gopkg.in/go-playground/validator.v9 v9.31.0 // indirect
	gopkg.in/yaml.v3 v3.0.1 // indirect
)

package c20

import (
	"net/http"
	"os"
	"path/filepath"
	"regexp"
	"strings"
	"sync"

	"github.com/gorilla/mux"
	clconfig "github.com/metrico/cloki-config"
	"github.com/metrico/cloki-config/config"
	"github.com/metrico/qryn/reader"
	"github.com/metrico/qryn/reader/dbRegistry"
	rmodel "github.com/metrico/qryn/reader/model"
	"github.com/metrico/qryn/reader/utils/middleware"
	rwatchdog "github.com/metrico/qryn/reader/watchdog"
	"github.com/metrico/qryn/shared/commonroutes"
	"github.com/metrico/qryn/view"
	"github.com/metrico/qryn/writer"
	controllerv1 "github.com/metrico/qryn/writer/controller"
	wplugin "github.com/metrico/qryn/writer/plugin"
	wservice "github.com/metrico/qryn/writer/service"
	"github.com/metrico/qryn/writer/service/registry"
)

// Settings is the part of the configuration the property quantifies over.
type Settings struct {
	Login    string `json:"login"`
	Password string `json:"password"`
	Cors     bool   `json:"cors"`
	Origin   string `json:"cors_origin"`
	Mode     string `json:"mode"`                 // all | writer | reader | "" (SYSTEM_SETTINGS.Mode)
	Prefix   string `json:"api_prefix,omitempty"` // HTTP_SETTINGS.ApiPrefix (not read by the pinned main.go)
}

// repoDir is the tree under test (VERIF_REPO; the harness is compiled against the same tree).
func repoDir() string {
	if v := os.Getenv("VERIF_REPO"); v != "" {
		return v
	}
	return "/repo"
}

// newConfig builds the configuration object main() would hold after
// clconfig.New + ReadConfig + portEnv (main.go:229-243) for the given settings: defaults of
// cloki-config, one DATABASE_DATA entry shaped by portCHEnv (main.go:77-147) that points at
// the harness' listener, credentials / CORS / mode / host / port as portEnv sets them.
func newConfig(s Settings) *clconfig.ClokiConfig {
	cfg := clconfig.New(clconfig.CLOKI_READER, nil, "", "")
	cfg.Setting.DATABASE_DATA = []config.ClokiBaseDataBase{{
		ReadTimeout: 30, WriteTimeout: 30,
		Name: "cloki", Host: "127.0.0.1", Port: uint32(backend.port),
		TTLDays: 7, Node: "clokinode", User: "default",
		MaxIdleConn: 5, MaxOpenConn: 50,
	}}
	cfg.Setting.AUTH_SETTINGS.BASIC.Username = s.Login
	cfg.Setting.AUTH_SETTINGS.BASIC.Password = s.Password
	if s.Cors {
		cfg.Setting.HTTP_SETTINGS.Cors.Enable = true
		cfg.Setting.HTTP_SETTINGS.Cors.Origin = s.Origin
	}
	cfg.Setting.HTTP_SETTINGS.ApiPrefix = s.Prefix
	cfg.Setting.HTTP_SETTINGS.Host = "0.0.0.0"
	cfg.Setting.HTTP_SETTINGS.Port = 3100
	cfg.Setting.SYSTEM_SETTINGS.Mode = s.Mode
	// both Init functions call runtime.GOMAXPROCS(CPUMaxProcs or NumCPU); the checks are
	// sequential and 16 shards share the machine
	cfg.Setting.SYSTEM_SETTINGS.CPUMaxProcs = 2
	// flush interval of the insert services. Only the tempo-tags service is a real one (no
	// plugin hook) and nothing is ever sent to it (assemble.go: writerInit); an interval it
	// never reaches keeps it from creating a client, hence from pinging the database every
	// second in the background (genericInsertService.go:170).
	cfg.Setting.SYSTEM_SETTINGS.DBTimer = 1e6
	return cfg
}

// ---- the three Init functions main() calls, with the back end made observable ----------

// recRegistry wraps the writer's service registry: every look-up is a log entry (it only
// happens inside a writer handler), and the tempo-tags service - the one insert service
// qryn offers no plugin hook for - is a recording one like the others.
type recRegistry struct{ inner registry.IServiceRegistry }

func (r recRegistry) note(s string) { backend.add("writer-registry " + s) }
func (r recRegistry) GetTimeSeriesService(id string) (wservice.IInsertServiceV2, error) {
	r.note("GetTimeSeriesService")
	return r.inner.GetTimeSeriesService(id)
}
func (r recRegistry) GetSamplesService(id string) (wservice.IInsertServiceV2, error) {
	r.note("GetSamplesService")
	return r.inner.GetSamplesService(id)
}
func (r recRegistry) GetMetricsService(id string) (wservice.IInsertServiceV2, error) {
	r.note("GetMetricsService")
	return r.inner.GetMetricsService(id)
}
func (r recRegistry) GetSpansService(id string) (wservice.IInsertServiceV2, error) {
	r.note("GetSpansService")
	return r.inner.GetSpansService(id)
}
func (r recRegistry) GetSpansSeriesService(id string) (wservice.IInsertServiceV2, error) {
	r.note("GetSpansSeriesService")
	return r.inner.GetSpansSeriesService(id)
}
func (r recRegistry) GetProfileInsertService(id string) (wservice.IInsertServiceV2, error) {
	r.note("GetProfileInsertService")
	return r.inner.GetProfileInsertService(id)
}
func (r recRegistry) Run()  {}
func (r recRegistry) Stop() {}

// writerInit is the real writer.Init (router registration included) followed by making
// the tempo-tags service a recording one.
func writerInit(cfg *clconfig.ClokiConfig, router *mux.Router) {
	installWriterPlugins()
	// writer.Init was written to run once per process: CreateStaticServiceRegistry writes
	// into the package-level service maps that the watchdog goroutine of an earlier Init
	// (writer/watchdog.Check, every 5 s, cannot be stopped) iterates over - "concurrent map
	// iteration and map write" kills the process. Fresh maps per Init: the earlier
	// goroutines keep reading maps nobody writes any more.
	wplugin.TsSvcs, wplugin.SplSvcs, wplugin.MtrSvcs = wservice.InsertSvcMap{}, wservice.InsertSvcMap{}, wservice.InsertSvcMap{}
	wplugin.TempoSamplesSvcs, wplugin.TempoTagsSvcs, wplugin.ProfileInsertSvcs = wservice.InsertSvcMap{}, wservice.InsertSvcMap{}, wservice.InsertSvcMap{}
	writer.Init(cfg, router)
	tags := wservice.InsertSvcMap{}
	for node, svc := range wplugin.TempoTagsSvcs {
		svc.Stop() // real service: never connected, never used
		tags[node] = &recSvc{kind: "tempo_tags", node: node}
	}
	controllerv1.Registry = recRegistry{registry.NewStaticServiceRegistry(
		wplugin.TsSvcs, wplugin.SplSvcs, wplugin.MtrSvcs, wplugin.TempoSamplesSvcs, tags, wplugin.ProfileInsertSvcs)}
}

// pingOK is what the reader's watchdog pings instead of the static registry: the real one
// starts dialling the database 30 s after start-up (dbRegistry/staticDBRegistry.go:46) and
// panics the process after six failures (watchdog/watchdog.go:28), which has nothing to
// do with requests.
type pingOK struct{ rmodel.IDBRegistry }

func (pingOK) Ping() error { return nil }

var openReaderDBs []rmodel.ISqlxDB

// readerInit is the real reader.Init followed by neutralising the watchdog's database ping.
func readerInit(cfg *clconfig.ClokiConfig, app *mux.Router) {
	reader.Init(cfg, app)
	// the watchdog goroutine reads the package variable on every tick: a second Init swaps it
	rwatchdog.Init(&rmodel.ServiceData{Session: pingOK{dbRegistry.Registry}})
	openReaderDBs = append(openReaderDBs, dbRegistry.DataDBSession...)
}

// Close releases what the assembly allocated (the sql.DB pools of the reader). Handlers of
// a closed App answer "database is closed" instead of dialling.
func (a *App) Close() {
	for _, db := range a.dbs {
		func() {
			defer func() { _ = recover() }()
			db.Close()
		}()
	}
	a.dbs = nil
}

// ---- assembly ---------------------------------------------------------------------------

// App is an assembled router plus what the assembly observed.
type App struct {
	Router   *mux.Router
	Settings Settings
	Trace    []string // calls executed, in order (evidence / diagnostics)
	Source   string   // "main.go" (interpreted) or "replica"
	Routes   []RouteInfo
	dbs      []rmodel.ISqlxDB
	Noisy    bool // a handler was abandoned while running: the back-end log is no longer attributable
}

type RouteInfo struct {
	Template string   `json:"template"`
	Prefix   bool     `json:"prefix,omitempty"` // PathPrefix route
	Methods  []string `json:"methods"`          // empty = any
}

var asmMu sync.Mutex

// assembleReplica mirrors main.go:246-274 by hand. It is only the fall-back when the
// statements of main() cannot be interpreted (the run is then reported INCONCLUSIVE).
func assembleReplica(cfg *clconfig.ClokiConfig) *mux.Router {
	app := mux.NewRouter()
	if cfg.Setting.AUTH_SETTINGS.BASIC.Username != "" &&
		cfg.Setting.AUTH_SETTINGS.BASIC.Password != "" {
		app.Use(middleware.BasicAuthMiddleware(cfg.Setting.AUTH_SETTINGS.BASIC.Username,
			cfg.Setting.AUTH_SETTINGS.BASIC.Password))
	}
	app.Use(middleware.AcceptEncodingMiddleware)
	if cfg.Setting.HTTP_SETTINGS.Cors.Enable {
		app.Use(middleware.CorsMiddleware(cfg.Setting.HTTP_SETTINGS.Cors.Origin))
	}
	app.Use(middleware.LoggingMiddleware("[{{.status}}] {{.method}} {{.url}} - LAT:{{.latency}}"))
	commonroutes.RegisterCommonRoutes(app)
	cfg.Setting.LOG_SETTINGS.Level = "debug"
	cfg.Setting.LOG_SETTINGS.Stdout = true
	if cfg.Setting.SYSTEM_SETTINGS.Mode == "all" ||
		cfg.Setting.SYSTEM_SETTINGS.Mode == "writer" ||
		cfg.Setting.SYSTEM_SETTINGS.Mode == "" {
		writerInit(cfg, app)
	}
	if cfg.Setting.SYSTEM_SETTINGS.Mode == "all" ||
		cfg.Setting.SYSTEM_SETTINGS.Mode == "reader" ||
		cfg.Setting.SYSTEM_SETTINGS.Mode == "" {
		readerInit(cfg, app)
		view.Init(cfg, app)
	}
	return app
}

var (
	interpFailOnce sync.Once
	interpFailure  string
)

var devNull, _ = os.OpenFile(os.DevNull, os.O_WRONLY, 0)

// Assemble builds the router the way main() does for the given settings. qryn's loggers
// are pointed at os.Stdout by the assembly itself (main sets LOG_SETTINGS.Stdout); the
// variable is swapped for /dev/null while the loggers are initialised so that the
// per-request log lines do not drown the runner's output.
func Assemble(s Settings) (*App, error) {
	asmMu.Lock()
	defer asmMu.Unlock()
	openReaderDBs = nil
	cfg := newConfig(s)
	a := &App{Settings: s}
	defer func() { a.dbs, openReaderDBs = openReaderDBs, nil }()
	saved := os.Stdout
	if devNull != nil && os.Getenv("C20_LOGS") == "" {
		os.Stdout = devNull
	}
	defer func() { os.Stdout = saved }()

	prog, err := loadMainProgram(filepath.Join(repoDir(), "main.go"))
	if err == nil {
		var r *mux.Router
		r, a.Trace, err = prog.run(cfg)
		if err == nil {
			a.Router, a.Source = r, "main.go"
		}
	}
	if err != nil {
		interpFailOnce.Do(func() { interpFailure = err.Error() })
		a.Router, a.Source = assembleReplica(cfg), "replica"
	}
	backend.Reset()
	a.Routes, err = walkRoutes(a.Router)
	if err == nil {
		instrument(a.Router)
	}
	return a, err
}

// AssemblePair assembles the router for s and its twin: the same settings with no
// credentials configured (main() then installs no BasicAuthMiddleware). For a request
// carrying the right credentials the two must be indistinguishable.
func AssemblePair(s Settings) (app, twin *App, err error) {
	t := s
	t.Login, t.Password = "", ""
	if twin, err = Assemble(t); err != nil {
		return nil, nil, err
	}
	if app, err = Assemble(s); err != nil {
		twin.Close()
		return nil, nil, err
	}
	return app, twin, nil
}

// ---- handler instrumentation ------------------------------------------------------------------
//
// After the assembly every route's handler is wrapped by a recorder: "the handler of route
// T started" is observed exactly, not inferred from status, body or database traffic. The
// wrapper sits *inside* everything main() installed (mux applies the middlewares around
// route.GetHandler() at match time), so it changes nothing about who gets to the handler.

type reachLog struct {
	mu sync.Mutex
	tp []string
}

var reached reachLog

func (r *reachLog) add(t string) { r.mu.Lock(); r.tp = append(r.tp, t); r.mu.Unlock() }
func (r *reachLog) Reset()       { r.mu.Lock(); r.tp = nil; r.mu.Unlock() }
func (r *reachLog) Get() []string {
	r.mu.Lock()
	defer r.mu.Unlock()
	return append([]string(nil), r.tp...)
}

func instrument(r *mux.Router) {
	_ = r.Walk(func(route *mux.Route, router *mux.Router, ancestors []*mux.Route) error {
		h := route.GetHandler()
		if h == nil {
			return nil
		}
		if _, isRouter := h.(*mux.Router); isRouter {
			return nil
		}
		tpl, _ := route.GetPathTemplate()
		route.Handler(http.HandlerFunc(func(w http.ResponseWriter, req *http.Request) {
			reached.add(tpl)
			h.ServeHTTP(w, req)
		}))
		return nil
	})
}

// InterpFailure reports why main.go could not be interpreted ("" if it could).
func InterpFailure() string { return interpFailure }

func walkRoutes(r *mux.Router) ([]RouteInfo, error) {
	var out []RouteInfo
	err := r.Walk(func(route *mux.Route, router *mux.Router, ancestors []*mux.Route) error {
		if route.GetHandler() == nil {
			return nil // a pure sub-router mount point; its children are walked
		}
		if _, isRouter := route.GetHandler().(*mux.Router); isRouter {
			return nil
		}
		tpl, terr := route.GetPathTemplate()
		if terr != nil {
			tpl = ""
		}
		ms, _ := route.GetMethods()
		ri := RouteInfo{Template: tpl, Methods: append([]string(nil), ms...)}
		if rx, e := route.GetPathRegexp(); e == nil && !strings.HasSuffix(rx, "$") {
			ri.Prefix = true
		}
		out = append(out, ri)
		return nil
	})
	return out, err
}

var varRe = regexp.MustCompile(`\{([^{}:]+)(?::((?:[^{}]|\{[^{}]*\})*))?\}`)

// FillTemplate replaces the i-th path variable by vals[i] (callers generate values that
// match mux's default variable pattern [^/]+; templates with a custom pattern are filled
// with the same values and simply fail to match if they do not fit).
func FillTemplate(tpl string, vals []string) string {
	i := 0
	return varRe.ReplaceAllStringFunc(tpl, func(string) string {
		v := "x"
		if i < len(vals) && vals[i] != "" {
			v = vals[i]
		}
		i++
		return v
	})
}

package c20

import (
	"fmt"
	"net"
	"sync"
	"time"

	"github.com/metrico/qryn/writer/ch_wrapper"
	wmodel "github.com/metrico/qryn/writer/model"
	wplugins "github.com/metrico/qryn/writer/plugins"
	wservice "github.com/metrico/qryn/writer/service"
	"github.com/metrico/qryn/writer/utils/helpers"
	"github.com/metrico/qryn/writer/utils/promise"
)

// ---- back-end call log ----------------------------------------------------------------
//
// Everything qryn can do to a database goes through one of two doors in this harness:
//
//   - the reader (and every lazily connected ch_wrapper.SmartDatabaseAdapter of the
//     writer) is configured, exactly as main() configures it, through
//     cfg.Setting.DATABASE_DATA[0].Host/Port. They point at a loopback TCP listener owned
//     by the harness: every accepted connection is one log entry and is closed at once
//     (the query fails, the handler answers 5xx - the status of an authorised request is
//     "whatever the handler returns");
//   - the writer's insert services are replaced through qryn's own plugin registry
//     (writer/plugins: Register*InsertServicePlugin) by services whose Request() is a log
//     entry. The one service without a plugin hook (tempo tags) is replaced in
//     controllerv1.Registry after writer.Init (see assemble.go).
//
// The log is read with Sync(): a probe connection is pushed through the listener first, so
// every connection dialled before the probe has been accepted and recorded (accepts are
// handled one at a time, in order).

type backendLog struct {
	mu      sync.Mutex
	entries []string
	ln      net.Listener
	port    int
	probe   chan struct{}
}

var backend = newBackend()

func newBackend() *backendLog {
	ln, err := net.Listen("tcp", "127.0.0.1:0")
	if err != nil {
		panic("c20: cannot listen on loopback: " + err.Error())
	}
	b := &backendLog{ln: ln, port: ln.Addr().(*net.TCPAddr).Port}
	go b.acceptLoop()
	return b
}

const probeMagic = "C20-PROBE\n"

func (b *backendLog) acceptLoop() {
	for {
		c, err := b.ln.Accept()
		if err != nil {
			return
		}
		// A probe announces itself at once; a ClickHouse client sends its hello packet
		// at once too, so a short read deadline never waits in practice.
		_ = c.SetReadDeadline(time.Now().Add(2 * time.Second))
		buf := make([]byte, len(probeMagic))
		n, _ := c.Read(buf)
		if string(buf[:n]) == probeMagic {
			_, _ = c.Write([]byte("ok"))
			_ = c.Close()
			continue
		}
		b.add(fmt.Sprintf("db-connect(%d bytes: %q)", n, string(buf[:n])))
		_ = c.Close()
	}
}

func (b *backendLog) add(s string) {
	b.mu.Lock()
	b.entries = append(b.entries, s)
	b.mu.Unlock()
}

// Sync waits until every connection dialled so far has been recorded and returns the log.
func (b *backendLog) Sync() []string {
	c, err := net.Dial("tcp", b.ln.Addr().String())
	if err == nil {
		_, _ = c.Write([]byte(probeMagic))
		_ = c.SetReadDeadline(time.Now().Add(10 * time.Second))
		buf := make([]byte, 2)
		_, _ = c.Read(buf)
		_ = c.Close()
	}
	b.mu.Lock()
	defer b.mu.Unlock()
	return append([]string(nil), b.entries...)
}

func (b *backendLog) Reset() {
	b.mu.Lock()
	b.entries = nil
	b.mu.Unlock()
}

// ---- recording insert service ----------------------------------------------------------

type recSvc struct {
	kind string
	node string
}

func (s *recSvc) Run()  {}
func (s *recSvc) Stop() {}
func (s *recSvc) Request(req helpers.SizeGetter, insertMode int) *promise.Promise[uint32] {
	backend.add("insert-service " + s.kind + ".Request")
	return promise.Fulfilled[uint32](nil, 0)
}
func (s *recSvc) Ping() (time.Time, error)    { return time.Now(), nil }
func (s *recSvc) GetState(insertMode int) int { return 0 }
func (s *recSvc) GetNodeName() string         { return s.node }
func (s *recSvc) Init()                       {}
func (s *recSvc) PlanFlush()                  {}

var _ wservice.IInsertServiceV2 = (*recSvc)(nil)

func recFactory(kind string) func(opts wmodel.InsertServiceOpts) wservice.IInsertServiceV2 {
	return func(opts wmodel.InsertServiceOpts) wservice.IInsertServiceV2 {
		node := ""
		if opts.Node != nil {
			node = opts.Node.Node
		}
		return &recSvc{kind: kind, node: node}
	}
}

var pluginsOnce sync.Once

// installWriterPlugins registers the recording services and a health check that does not
// need tables (writer/plugin/qryn_writer_impl.go:76 consults the plugin first; the default
// health check panics unless `SELECT 1 FROM time_series` succeeds).
func installWriterPlugins() {
	pluginsOnce.Do(func() {
		wplugins.RegisterTimeSeriesInsertServicePlugin(recFactory("time_series"))
		wplugins.RegisterSamplesInsertServicePlugin(recFactory("samples"))
		wplugins.RegisterMetricInsertServicePlugin(recFactory("metrics"))
		wplugins.RegisterTracesInsertServicePlugin(recFactory("tempo_traces"))
		wplugins.RegisterProfileInsertServicePlugin(recFactory("profiles"))
		wplugins.RegisterHealthCheckPlugin(func(conn ch_wrapper.IChClient, isDistributed bool) {
			backend.add("health-check")
		})
	})
}

package c20

import (
	"bytes"
	"compress/gzip"
	"context"
	"encoding/base64"
	"errors"
	"fmt"
	"io"
	"net/http"
	"net/http/httptest"
	"net/url"
	"path"
	"sort"
	"strings"
	"time"

	"github.com/gorilla/mux"
	"github.com/metrico/qryn/reader/utils/middleware"

	"qrynverif/evid"
)

// ---- which Authorization headers carry "exactly those credentials" ---------------------
//
// MustPass : the canonical RFC 7617 form, "Basic " + base64-std(login ":" password).
// DontCare : forms a lenient but standard-minded server may or may not accept and that do
//            denote the right pair: scheme in another case, several blanks / tabs between
//            scheme and token, blanks around the value or inside the token, unpadded or
//            URL-safe base64. qryn rejects all of them today (400/401); accepting them
//            would not let anybody in who does not know the password.
// MustDeny : everything else - absent/empty header, other schemes, tokens that are not
//            base64 at all (including the right token followed by junk), other users or
//            passwords. 401, or 400 for a malformed header; both are accepted for every
//            denied request (the property does not say which malformations deserve 400).

type Verdict int

const (
	MustDeny Verdict = iota
	MustPass
	DontCare
)

func (v Verdict) String() string { return [...]string{"must-deny", "must-pass", "dont-care"}[v] }

func Canonical(login, pass string) string {
	return "Basic " + base64.StdEncoding.EncodeToString([]byte(login+":"+pass))
}

func Classify(login, pass string, has bool, hdr string) Verdict {
	if !has || hdr == "" {
		return MustDeny
	}
	if hdr == Canonical(login, pass) {
		return MustPass
	}
	h := strings.Trim(hdr, " \t")
	i := strings.IndexAny(h, " \t")
	if i < 0 {
		return MustDeny
	}
	if !strings.EqualFold(h[:i], "basic") {
		return MustDeny
	}
	tok := strings.Map(func(r rune) rune {
		if r == ' ' || r == '\t' || r == '\r' || r == '\n' {
			return -1
		}
		return r
	}, h[i:])
	want := login + ":" + pass
	for _, enc := range []*base64.Encoding{base64.StdEncoding, base64.RawStdEncoding, base64.URLEncoding, base64.RawURLEncoding} {
		if b, err := enc.Strict().DecodeString(tok); err == nil && string(b) == want {
			return DontCare
		}
		if b, err := enc.DecodeString(tok); err == nil && string(b) == want {
			return DontCare // non-zero trailing padding bits: still the same byte string
		}
	}
	return MustDeny
}

// strictDecode returns the "user:pass" string a header denotes under the canonical reading.
func strictDecode(hdr string) (string, bool) {
	if !strings.HasPrefix(hdr, "Basic ") {
		return "", false
	}
	b, err := base64.StdEncoding.DecodeString(hdr[len("Basic "):])
	if err != nil {
		return "", false
	}
	return string(b), true
}

// editDistance1 reports whether a and b differ by exactly one insertion, deletion or
// substitution of a byte.
func editDistance1(a, b string) bool {
	if a == b {
		return false
	}
	if len(a) > len(b) {
		a, b = b, a
	}
	if len(b)-len(a) > 1 {
		return false
	}
	i := 0
	for i < len(a) && a[i] == b[i] {
		i++
	}
	if len(a) == len(b) {
		return a[i+1:] == b[i+1:]
	}
	return a[i:] == b[i+1:]
}

// OneEdit is the property's non-trivial rule: the header is one edit away from the right
// one, either as a header string or as the decoded "login:password".
func OneEdit(login, pass string, has bool, hdr string) bool {
	if !has {
		return false
	}
	if editDistance1(hdr, Canonical(login, pass)) {
		return true
	}
	if d, ok := strictDecode(hdr); ok && editDistance1(d, login+":"+pass) {
		return true
	}
	return false
}

// ---- one request -----------------------------------------------------------------------

type Req struct {
	Method    string   `json:"method"`
	Path      string   `json:"path"`
	Query     string   `json:"query,omitempty"`
	HasAuth   bool     `json:"has_auth"`
	Auth      evid.Str `json:"auth,omitempty"`
	AuthKind  string   `json:"auth_kind,omitempty"` // how the generator built it (histogram only)
	AE        string   `json:"accept_encoding,omitempty"`
	HasOrigin bool     `json:"has_origin,omitempty"`
	Origin    string   `json:"origin,omitempty"`
	ACRM      string   `json:"acrm,omitempty"` // Access-Control-Request-Method (preflight)
	CT        string   `json:"content_type,omitempty"`
	Body      string   `json:"body,omitempty"`
}

func (q Req) String() string {
	a := "<absent>"
	if q.HasAuth {
		a = fmt.Sprintf("%q", string(q.Auth))
	}
	return fmt.Sprintf("%s %s%s Authorization=%s Accept-Encoding=%q Origin=%v/%q ACRM=%q", q.Method, q.Path,
		map[bool]string{true: "?" + q.Query, false: ""}[q.Query != ""], a, q.AE, q.HasOrigin, q.Origin, q.ACRM)
}

func (q Req) build(base string) (*http.Request, error) {
	target := base + q.Path
	if q.Query != "" {
		target += "?" + q.Query
	}
	var body io.Reader
	if q.Body != "" {
		body = strings.NewReader(q.Body)
	}
	r, err := http.NewRequest(q.Method, target, body)
	if err != nil {
		return nil, err
	}
	if q.HasAuth {
		r.Header["Authorization"] = []string{string(q.Auth)}
	}
	if q.AE != "" {
		r.Header.Set("Accept-Encoding", q.AE)
	}
	if q.HasOrigin {
		r.Header.Set("Origin", q.Origin)
	}
	if q.ACRM != "" {
		r.Header.Set("Access-Control-Request-Method", q.ACRM)
	}
	if q.CT != "" {
		r.Header.Set("Content-Type", q.CT)
	}
	return r, nil
}

type Resp struct {
	Status int
	Header http.Header
	Body   []byte
	Panic  string // a handler panicked (in-process transport only; net/http's server swallows it)
	Hang   bool   // no answer within the patience given
	// Reached: templates of the routes whose handler started (instrumented in-process
	// assemblies only; ReachKnown is false for the child-process checks).
	Reached    []string
	ReachKnown bool
}

func (p Resp) plainBody() []byte {
	if strings.Contains(p.Header.Get("Content-Encoding"), "gzip") {
		if zr, err := gzip.NewReader(bytes.NewReader(p.Body)); err == nil {
			if b, err := io.ReadAll(zr); err == nil {
				return b
			}
		}
	}
	return p.Body
}

// serveDirect runs the request through h in-process.
func serveDirect(h http.Handler, q Req, patience time.Duration) (Resp, error) {
	r, err := q.build("http://qryn.test")
	if err != nil {
		return Resp{}, err
	}
	// what net/http's server guarantees to a handler
	r.RequestURI = r.URL.RequestURI()
	r.RemoteAddr = "192.0.2.1:1234"
	if r.Body == nil {
		r.Body = http.NoBody
	}
	run := func() (resp Resp) {
		w := httptest.NewRecorder()
		defer func() {
			if p := recover(); p != nil {
				// a panic inside a handler: the server would drop the connection. Whether
				// that is acceptable depends on who asked (judge).
				resp = Resp{Header: http.Header{}, Panic: fmt.Sprint(p)}
			}
		}()
		h.ServeHTTP(w, r)
		res := w.Result()
		b, _ := io.ReadAll(res.Body)
		return Resp{Status: res.StatusCode, Header: res.Header, Body: b}
	}
	if patience <= 0 {
		return run(), nil
	}
	done := make(chan Resp, 1)
	go func() { done <- run() }()
	t := time.NewTimer(patience)
	defer t.Stop()
	select {
	case resp := <-done:
		return resp, nil
	case <-t.C:
		// Some reader handlers never answer when the database is unreachable (e.g.
		// TempoController.ValuesV2 ranges over the nil channel Service.Values returned
		// with an error). The goroutine is abandoned; judge decides whether the request
		// was allowed to reach a handler at all.
		return Resp{Header: http.Header{}, Hang: true}, nil
	}
}

// Patience. A request that may legitimately reach a handler (right credentials) is given
// up after hangShort: that only ever *excuses* it. A request that must be denied is waited
// for hangLong - normal latency is 20 microseconds, the middlewares cannot block - so a
// loaded machine cannot turn slowness into "a handler ran".
const (
	hangShort = 3 * time.Second
	hangLong  = 120 * time.Second
)

var wireClient = &http.Client{
	Transport:     &http.Transport{DisableCompression: true, MaxIdleConnsPerHost: 4},
	CheckRedirect: func(*http.Request, []*http.Request) error { return http.ErrUseLastResponse },
}

// serveWire sends the request to a real net/http server on loopback.
func serveWire(base string, q Req, patience time.Duration) (Resp, error) {
	r, err := q.build(base)
	if err != nil {
		return Resp{}, err
	}
	ctx, cancel := context.WithTimeout(context.Background(), patience)
	defer cancel()
	r = r.WithContext(ctx)
	res, err := wireClient.Do(r)
	if err != nil {
		if ue, ok := err.(*url.Error); ok && (ue.Timeout() || errors.Is(err, context.DeadlineExceeded)) {
			return Resp{Header: http.Header{}, Hang: true}, nil
		}
		if errors.Is(err, io.EOF) || strings.Contains(err.Error(), "EOF") || strings.Contains(err.Error(), "connection reset") {
			// net/http's server recovered a handler panic and dropped the connection
			return Resp{Header: http.Header{}, Panic: "connection dropped by the server: " + err.Error()}, nil
		}
		return Resp{}, err
	}
	defer res.Body.Close()
	b, _ := io.ReadAll(res.Body)
	return Resp{Status: res.StatusCode, Header: res.Header, Body: b}, nil
}

// reference runs the real BasicAuthMiddleware alone around a sentinel: what a denied
// response looks like when nothing but the authentication layer produced it.
func reference(login, pass string, q Req) (resp Resp, reached bool) {
	h := middleware.BasicAuthMiddleware(login, pass)(http.HandlerFunc(func(w http.ResponseWriter, r *http.Request) {
		reached = true
		w.WriteHeader(299)
	}))
	resp, _ = serveDirect(h, q, 0) // synchronous: nothing in there can block
	return resp, reached
}

// Registered reports whether the router has a route for the request (method included).
func Registered(router *mux.Router, q Req) (bool, string) {
	r, err := q.build("http://qryn.test")
	if err != nil {
		return false, ""
	}
	// mux redirects (301) to the canonical path before it looks for a route
	if cleanPath(r.URL.Path) != r.URL.Path {
		return false, ""
	}
	var m mux.RouteMatch
	if router.Match(r, &m) && m.MatchErr == nil && m.Route != nil {
		tpl, _ := m.Route.GetPathTemplate()
		return true, tpl
	}
	return false, ""
}

// judge applies the oracle to one exchange. log is the back-end call log of the request.
func judge(s Settings, q Req, registered bool, tpl string, got Resp, log []string, wire bool) error {
	return judgeX(s, q, registered, tpl, got, log, wire, nil)
}

// sentinelPath is a path nobody registers: what the router answers for it (same method,
// same headers) is what "no route" looks like for this assembly, custom NotFoundHandler
// included.
const sentinelPath = "/c20/no/such/route"

// judgeX is judge with, for a request without a route, the response of the same request
// to sentinelPath.
func judgeX(s Settings, q Req, registered bool, tpl string, got Resp, log []string, wire bool, sentinel *Resp) error {
	if wire && q.HasAuth {
		// net/http (textproto) strips optional white space around a field value: the
		// server-side handler chain sees the trimmed header
		q.Auth = evid.Str(strings.Trim(string(q.Auth), " \t"))
	}
	v := Classify(s.Login, s.Password, q.HasAuth, string(q.Auth))
	where := fmt.Sprintf("%s [route %q, %s, cors=%v, mode=%q, login=%q password=%q]", q, tpl, v, s.Cors, s.Mode, s.Login, s.Password)
	if got.Panic != "" || got.Hang {
		// only a handler can panic or block (the middlewares do neither): acceptable
		// behind the right credentials only
		if registered && v != MustDeny {
			return nil
		}
		return fmt.Errorf("a handler ran (panic %q, hang %v) for a request that must not reach one: %s", got.Panic, got.Hang, where)
	}
	if !registered {
		// no route: nothing may run, whoever asks
		if got.ReachKnown && len(got.Reached) > 0 {
			return fmt.Errorf("request without a registered route ran the handler of %q (status %d): %s", got.Reached, got.Status, where)
		}
		if len(log) > 0 {
			return fmt.Errorf("request without a registered route reached the back end %v: %s", log, where)
		}
		switch got.Status {
		case 405, 301:
			return nil // mux: method mismatch / redirect to the clean path, before anything else
		case 401, 400:
			// an authentication layer in front of the routing: must be its own answer
			if ref, reachedRef := reference(s.Login, s.Password, q); !reachedRef && (bytes.Equal(got.plainBody(), ref.Body) || (q.Method == "HEAD" && wire)) {
				return nil
			}
		case 404:
			// mux's own 404, or a custom not-found page - then the same page a path nobody
			// registered gets (a not-found handler that dispatches on the path is a router
			// of its own, outside the middlewares)
			if sentinel == nil || (sentinel.Status == 404 && bytes.Equal(got.plainBody(), sentinel.plainBody())) {
				return nil
			}
			return fmt.Errorf("request without a registered route answered 404 with body %q where a path nobody registered (%s) gets %d %q: the not-found handling dispatches on the path: %s",
				clip(got.plainBody()), sentinelPath, sentinel.Status, clip(sentinel.plainBody()), where)
		}
		return fmt.Errorf("request without a registered route answered %d (body %q): %s", got.Status, clip(got.Body), where)
	}
	denied := got.Status == 401 || got.Status == 400
	checkDenied := func() error {
		if got.ReachKnown && len(got.Reached) > 0 {
			return fmt.Errorf("denied request (%d) still ran the handler of %q: %s", got.Status, got.Reached, where)
		}
		if len(log) > 0 {
			return fmt.Errorf("denied request (%d) still reached the back end %v: %s", got.Status, log, where)
		}
		ref, reached := reference(s.Login, s.Password, q)
		if reached {
			return nil // the middleware itself lets it through; judged by the caller
		}
		if q.Method != "HEAD" || !wire {
			if !bytes.Equal(got.plainBody(), ref.Body) {
				return fmt.Errorf("denied request (%d) carries a body the authentication layer did not write: %q (authentication layer alone: %d %q): %s",
					got.Status, clip(got.plainBody()), ref.Status, clip(ref.Body), where)
			}
		}
		return nil
	}
	switch v {
	case MustPass:
		if got.Status == 401 {
			return fmt.Errorf("right credentials answered 401: %s", where)
		}
		if ref, reached := reference(s.Login, s.Password, q); !reached {
			return fmt.Errorf("the authentication layer refuses the right credentials (%d %q): %s", ref.Status, clip(ref.Body), where)
		}
		// "lets a request with the right credentials through": through to the handler. A
		// layer in front of it that answers by itself (403 for an unlisted Origin, say)
		// does not. OPTIONS is exempt: a CORS layer may answer a preflight on its own.
		if got.ReachKnown && len(got.Reached) == 0 && q.Method != "OPTIONS" {
			return fmt.Errorf("right credentials, yet the handler of the route never started (status %d, body %q): something in front of it answered: %s",
				got.Status, clip(got.plainBody()), where)
		}
		return nil
	case DontCare:
		if denied {
			// a handler may answer 400 of its own when the form was accepted: only a
			// response that is the authentication layer's must leave the back end alone
			if ref, reached := reference(s.Login, s.Password, q); !reached && bytes.Equal(got.plainBody(), ref.Body) && len(log) > 0 {
				return fmt.Errorf("denied request (%d) still reached the back end %v: %s", got.Status, log, where)
			}
		}
		return nil
	default:
		if !denied {
			return fmt.Errorf("request lacking the credentials answered %d instead of 401/400 (body %q, back end %v): %s",
				got.Status, clip(got.Body), log, where)
		}
		return checkDenied()
	}
}

func clip(b []byte) string {
	if len(b) > 160 {
		return string(b[:160]) + "…"
	}
	return string(b)
}

// cleanPath is gorilla/mux's (mux.go cleanPath): path.Clean that keeps a trailing slash.
func cleanPath(p string) string {
	if p == "" {
		return "/"
	}
	if p[0] != '/' {
		p = "/" + p
	}
	np := path.Clean(p)
	if p[len(p)-1] == '/' && np != "/" {
		np += "/"
	}
	return np
}

// backendKinds reduces a back-end log to the kinds of entries (details such as byte counts
// and the number of reconnects are not comparable between two runs).
func backendKinds(log []string) string {
	set := map[string]bool{}
	for _, e := range log {
		if i := strings.IndexByte(e, '('); i > 0 {
			e = e[:i]
		}
		set[e] = true
	}
	var ks []string
	for k := range set {
		ks = append(ks, k)
	}
	sort.Strings(ks)
	return strings.Join(ks, ",")
}

// diffTwin: for a request with the right credentials the assembly with authentication and
// its twin without must be indistinguishable: status, whether a body came back, the CORS
// answer, which handler started, which kinds of back-end calls were made.
func diffTwin(q Req, wire bool, got, twin Resp, log, twinLog []string, compareLogs bool) error {
	if got.Hang || twin.Hang {
		return nil // not comparable (and only ever behind the right credentials)
	}
	var d []string
	if (got.Panic != "") != (twin.Panic != "") {
		d = append(d, fmt.Sprintf("handler panic %q vs %q", got.Panic, twin.Panic))
	}
	if got.Status != twin.Status {
		d = append(d, fmt.Sprintf("status %d vs %d", got.Status, twin.Status))
	}
	if !(q.Method == "HEAD" && wire) && (len(got.Body) > 0) != (len(twin.Body) > 0) {
		d = append(d, fmt.Sprintf("body %q vs %q", clip(got.plainBody()), clip(twin.plainBody())))
	}
	if a, b := got.Header.Get("Access-Control-Allow-Origin"), twin.Header.Get("Access-Control-Allow-Origin"); a != b {
		d = append(d, fmt.Sprintf("Access-Control-Allow-Origin %q vs %q", a, b))
	}
	if got.ReachKnown && twin.ReachKnown && strings.Join(got.Reached, ",") != strings.Join(twin.Reached, ",") {
		d = append(d, fmt.Sprintf("handlers started %q vs %q", got.Reached, twin.Reached))
	}
	if compareLogs && backendKinds(log) != backendKinds(twinLog) {
		d = append(d, fmt.Sprintf("back end %q vs %q", backendKinds(log), backendKinds(twinLog)))
	}
	if len(d) == 0 {
		return nil
	}
	return fmt.Errorf("authentication is not transparent for the right credentials (with auth vs. the same assembly without credentials configured): %s: %s", strings.Join(d, "; "), q)
}

package c20

import (
	"bytes"
	"crypto/sha1"
	"encoding/hex"
	"encoding/json"
	"fmt"
	"net"
	"os"
	"os/exec"
	"path/filepath"
	"strings"
	"sync"
	"syscall"
	"time"
	"unicode/utf8"

	"pgregory.net/rapid"

	"qrynverif/evid"
)

// ---- C20(e) "config" / "config-rand": from configuration sources to the installed guard ----
//
// The in-process checks start where main() creates the router and hand it a finished
// configuration object. What main() does before that - clconfig.ReadConfig (config file,
// viper), portEnv (QRYN_LOGIN / CLOKI_LOGIN / QRYN_PASSWORD / CLOKI_PASSWORD over the file),
// the `Username != "" && Password != ""` guard - decides *whether and with which pair*
// BasicAuthMiddleware is installed, and the property quantifies over configurations. That
// part is not interpreted (portEnv & co use far more of Go than the assembly window):
// the REAL package main of the tree under test is built (`go build`, offline, output outside
// the tree) and run as a child process per generated configuration:
//
//   MODE=reader (writer/all need a ClickHouse that answers the start-up health check),
//   key=true and OMIT_CREATE_TABLES=true (initDB is skipped; main.go boolEnv reads the
//   variable literally called "key"), PORT=<free loopback port>, HOST=127.0.0.1,
//   CLICKHOUSE_SERVER/PORT = the harness' recording listener, a minimal environment
//   otherwise, `-config <file>.json` when the case has file-sourced values.
//
// Configuration sources per variable (login, password), independently: new-style env name
// (QRYN_*), legacy env name (CLOKI_*), config file (auth_settings.basic.username/password),
// each absent / empty / a value distinct from the other sources' values.
//
// Effective configuration, pinned from the unchanged main.go (no README documents it;
// scripts/test/e2e/docker-compose.yml uses QRYN_LOGIN/QRYN_PASSWORD): an environment value
// that is not empty overrides the file (portEnv runs after ReadConfig, main.go:157-168);
// either prefix is accepted for each variable on its own; an empty environment variable is
// the same as an absent one. When BOTH prefixes carry different non-empty values main.go
// lets CLOKI_* win - nothing documents that order, so such a case has two candidate
// values ("ambiguous"): requests carrying neither candidate pair must be denied, at least
// one candidate pair must be let in.
//
// Oracle: effective login and password both non-empty => every probed route denies every
// request that does not carry exactly the effective pair (judge(), same as the other
// checks: status, back-end log, body) and lets the effective pair in; otherwise Discard.

type Src struct {
	Set   bool     `json:"set"`             // variable / key present at all
	Value evid.Str `json:"value,omitempty"` // may be empty
}

func (s Src) val() string {
	if !s.Set {
		return ""
	}
	return string(s.Value)
}

type VarSources struct {
	New    Src `json:"env_qryn"`  // QRYN_LOGIN / QRYN_PASSWORD
	Legacy Src `json:"env_cloki"` // CLOKI_LOGIN / CLOKI_PASSWORD
	File   Src `json:"file"`      // auth_settings.basic.username / password
}

// candidates returns the possible effective values ("" = not configured).
func (v VarSources) candidates() []string {
	n, l := v.New.val(), v.Legacy.val()
	switch {
	case n != "" && l != "" && n != l:
		return []string{l, n} // main.go: CLOKI_* assigned last
	case l != "":
		return []string{l}
	case n != "":
		return []string{n}
	}
	return []string{v.File.val()}
}

func (v VarSources) class() string {
	var parts []string
	for _, p := range []struct {
		n string
		s Src
	}{{"qryn", v.New}, {"cloki", v.Legacy}, {"file", v.File}} {
		switch {
		case !p.s.Set:
		case p.s.Value == "":
			parts = append(parts, p.n+"(empty)")
		default:
			parts = append(parts, p.n)
		}
	}
	if len(parts) == 0 {
		return "absent"
	}
	return strings.Join(parts, "+")
}

type configCase struct {
	Login    VarSources `json:"login"`
	Password VarSources `json:"password"`
	// the other http related settings main() reads next to the credentials
	Prefix string `json:"api_prefix,omitempty"` // http_settings.api_prefix in the file ("" = not set)
	Cors   string `json:"cors,omitempty"`       // CORS_ALLOW_ORIGIN ("" = unset, CORS off)
	Mode   string `json:"mode,omitempty"`       // MODE ("" = unset: READONLY makes it reader, see startMain)
}

var (
	cfgPrefixes = []string{"", "/qryn", "/a/b"}
	cfgCors     = []string{"", "*", "http://grafana.local", "http://grafana.local,https://other.example:3000"}
	// modes that start without a ClickHouse: reader, unset (key=true makes READONLY true,
	// which turns the default "all" into "reader", main.go:197-204) and a mode main() does
	// not know (common routes only)
	cfgModes = []string{"reader", "", "other"}
)

// refMode is the mode of the in-process assembly that tells which paths have a route.
func (c configCase) refMode() string {
	if c.Mode == "" {
		return "reader"
	}
	return c.Mode
}

// ---- the real main, built once per tree state ------------------------------------------------

var (
	mainOnce sync.Once
	mainPath string
	mainErr  error
)

func cleanGoEnv() []string {
	var env []string
	for _, kv := range os.Environ() {
		k := kv[:strings.IndexByte(kv+"=", '=')]
		switch k {
		case "GOFLAGS", "GOTOOLCHAIN", "GOSUMDB", "GONOSUMDB", "GONOSUMCHECK", "GOPROXY":
			continue
		}
		env = append(env, kv)
	}
	// readonly: never touches go.mod / go.sum of the tree under test
	return append(env, "GOFLAGS=-mod=readonly", "GOPROXY=off")
}

func treeFingerprint(root string) string {
	h := sha1.New()
	for _, args := range [][]string{{"rev-parse", "HEAD"}, {"diff", "HEAD"}, {"status", "--porcelain"}} {
		out, err := exec.Command("git", append([]string{"-C", root}, args...)...).Output()
		if err != nil {
			return "" // not a git tree: always rebuild
		}
		h.Write(out)
	}
	return hex.EncodeToString(h.Sum(nil))
}

// mainBinary builds package main of the tree under test (shards serialise on a lock file;
// the build is skipped when the tree is unchanged since the last one).
func mainBinary() (string, error) {
	mainOnce.Do(func() {
		root := repoDir()
		sum := sha1.Sum([]byte(root))
		dir := filepath.Join(os.TempDir(), "c20-main-"+hex.EncodeToString(sum[:5]))
		if mainErr = os.MkdirAll(dir, 0o755); mainErr != nil {
			return
		}
		lock, err := os.OpenFile(filepath.Join(dir, "lock"), os.O_CREATE|os.O_RDWR, 0o644)
		if err != nil {
			mainErr = err
			return
		}
		defer lock.Close()
		if err := syscall.Flock(int(lock.Fd()), syscall.LOCK_EX); err != nil {
			mainErr = err
			return
		}
		defer syscall.Flock(int(lock.Fd()), syscall.LOCK_UN)
		bin, stamp := filepath.Join(dir, "qryn"), filepath.Join(dir, "stamp")
		fp := treeFingerprint(root)
		if old, err := os.ReadFile(stamp); err == nil && fp != "" && string(old) == fp {
			if _, err := os.Stat(bin); err == nil {
				mainPath = bin
				return
			}
		}
		_ = os.Remove(stamp)
		cmd := exec.Command("go", "build", "-o", bin, ".")
		cmd.Dir = root
		cmd.Env = cleanGoEnv()
		if out, err := cmd.CombinedOutput(); err != nil {
			mainErr = fmt.Errorf("go build of package main in %s failed: %v: %s", root, err, clip(out))
			return
		}
		_ = os.WriteFile(stamp, []byte(fp), 0o644)
		mainPath = bin
	})
	return mainPath, mainErr
}

// ---- one child process ---------------------------------------------------------------------------

type child struct {
	cmd  *exec.Cmd
	base string
	out  *bytes.Buffer
	done chan error
	dir  string
}

// Ports. qryn binds the port itself (PORT=...), so the harness can only pick a number
// that is free right now. Shards run in parallel: each takes its ports from its own range
// (no two shards can pick the same number), probes the port first, and - because another
// process of the machine may still grab it in between - verifies after start-up that the
// listening socket really belongs to its child (listenerOwnedBy). Talking to somebody
// else's qryn would look exactly like "the right credentials are refused".
var portSeq int

func freePort() (int, error) {
	shard := 0
	fmt.Sscanf(os.Getenv("VERIF_SHARD"), "%d", &shard)
	base := 21000 + (shard%40)*1000
	for i := 0; i < 1000; i++ {
		p := base + portSeq%1000
		portSeq++
		l, err := net.Listen("tcp", fmt.Sprintf("127.0.0.1:%d", p))
		if err != nil {
			continue
		}
		l.Close()
		return p, nil
	}
	return 0, fmt.Errorf("no free port in %d-%d", base, base+999)
}

// listenerOwnedBy reports whether pid holds the socket listening on 127.0.0.1:port
// (/proc/net/tcp gives the inode of the listening socket, /proc/<pid>/fd the sockets of
// the process).
func listenerOwnedBy(pid, port int) bool {
	b, err := os.ReadFile("/proc/net/tcp")
	if err != nil {
		return true // no procfs: cannot tell, trust the port probe
	}
	inode := ""
	for _, ln := range strings.Split(string(b), "\n")[1:] {
		f := strings.Fields(ln)
		if len(f) < 10 || f[3] != "0A" {
			continue
		}
		if strings.HasSuffix(f[1], fmt.Sprintf(":%04X", port)) {
			inode = f[9]
			break
		}
	}
	if inode == "" {
		return false
	}
	fds, err := os.ReadDir(fmt.Sprintf("/proc/%d/fd", pid))
	if err != nil {
		return false
	}
	for _, fd := range fds {
		if t, err := os.Readlink(fmt.Sprintf("/proc/%d/fd/%s", pid, fd.Name())); err == nil && t == "socket:["+inode+"]" {
			return true
		}
	}
	return false
}

// startMain starts the real main for the case, retrying on another port when the port
// was lost to another process.
func startMain(c configCase) (ch *child, err error) {
	for try := 0; try < 5; try++ {
		ch, err = startMainOnce(c)
		if err == nil || !strings.Contains(err.Error(), "port was taken") {
			return ch, err
		}
	}
	return ch, err
}

func startMainOnce(c configCase) (*child, error) {
	bin, err := mainBinary()
	if err != nil {
		return nil, err
	}
	port, err := freePort()
	if err != nil {
		return nil, err
	}
	dir, err := os.MkdirTemp("", "c20-child-")
	if err != nil {
		return nil, err
	}
	env := []string{
		"PATH=" + os.Getenv("PATH"), "HOME=" + dir, "TMPDIR=" + dir,
		"key=true", "OMIT_CREATE_TABLES=true", // skip initDB (boolEnv reads "key", main.go:44)
		"HOST=127.0.0.1", fmt.Sprintf("PORT=%d", port),
		"CLICKHOUSE_SERVER=127.0.0.1", fmt.Sprintf("CLICKHOUSE_PORT=%d", backend.port),
	}
	if c.Mode != "" {
		env = append(env, "MODE="+c.Mode)
	}
	if c.Cors != "" {
		env = append(env, "CORS_ALLOW_ORIGIN="+c.Cors)
	}
	add := func(name string, s Src) {
		if s.Set {
			env = append(env, name+"="+string(s.Value))
		}
	}
	add("QRYN_LOGIN", c.Login.New)
	add("CLOKI_LOGIN", c.Login.Legacy)
	add("QRYN_PASSWORD", c.Password.New)
	add("CLOKI_PASSWORD", c.Password.Legacy)
	var args []string
	if c.Login.File.Set || c.Password.File.Set || c.Prefix != "" {
		basic := map[string]string{}
		if c.Login.File.Set {
			basic["username"] = string(c.Login.File.Value)
		}
		if c.Password.File.Set {
			basic["password"] = string(c.Password.File.Value)
		}
		file := map[string]any{"auth_settings": map[string]any{"basic": basic}}
		if c.Prefix != "" {
			file["http_settings"] = map[string]any{"api_prefix": c.Prefix}
		}
		doc, _ := json.Marshal(file)
		p := filepath.Join(dir, "qryn.json")
		if err := os.WriteFile(p, doc, 0o644); err != nil {
			return nil, err
		}
		args = []string{"-config", p}
	}
	ch := &child{cmd: exec.Command(bin, args...), out: &bytes.Buffer{}, done: make(chan error, 1), dir: dir,
		base: fmt.Sprintf("http://127.0.0.1:%d", port)}
	ch.cmd.Env = env
	ch.cmd.Dir = dir
	ch.cmd.Stdout = ch.out
	ch.cmd.Stderr = ch.out
	if err := ch.cmd.Start(); err != nil {
		os.RemoveAll(dir)
		return nil, err
	}
	go func() { ch.done <- ch.cmd.Wait() }()
	deadline := time.Now().Add(30 * time.Second)
	for {
		conn, err := net.DialTimeout("tcp", fmt.Sprintf("127.0.0.1:%d", port), time.Second)
		if err == nil {
			conn.Close()
			if !listenerOwnedBy(ch.cmd.Process.Pid, port) {
				ch.stop()
				return nil, fmt.Errorf("port was taken by another process (%d)", port)
			}
			return ch, nil
		}
		select {
		case werr := <-ch.done:
			ch.done <- werr
			tail := ch.out.String()
			ch.stop()
			if strings.Contains(tail, "address already in use") {
				return nil, fmt.Errorf("port was taken by another process (%d)", port)
			}
			return nil, fmt.Errorf("main exited before listening (%v): %s", werr, lastBytes(tail, 600))
		default:
		}
		if time.Now().After(deadline) {
			tail := ch.out.String()
			ch.stop()
			return nil, fmt.Errorf("main does not listen after 30 s: %s", lastBytes(tail, 600))
		}
		time.Sleep(10 * time.Millisecond)
	}
}

func lastBytes(s string, n int) string {
	if len(s) > n {
		return "…" + s[len(s)-n:]
	}
	return s
}

func (ch *child) stop() {
	if ch.cmd.Process != nil {
		_ = ch.cmd.Process.Kill()
	}
	select {
	case <-ch.done:
	case <-time.After(10 * time.Second):
	}
	os.RemoveAll(ch.dir)
}

// ---- predicate -------------------------------------------------------------------------------------

var configRoutes = []Req{
	{Method: "GET", Path: "/ready"},                // common route table
	{Method: "GET", Path: "/api/status/buildinfo"}, // common
	{Method: "GET", Path: "/loki/api/v1/labels"},   // reader; talks to the database when let in
}

var (
	infraOnce sync.Once
)

func infraNote(format string, a ...any) {
	infraOnce.Do(func() {
		fmt.Printf("INCONCLUSIVE property=C20 check=config: "+format+"\n", a...)
	})
}

func predConfig(c configCase, o *evid.Obs) error {
	o.Tag("login-from:"+c.Login.class(), "password-from:"+c.Password.class())
	logins, passes := c.Login.candidates(), c.Password.candidates()
	if logins[0] == "" || passes[0] == "" {
		o.Tag("effective:not-configured")
		o.Discard("authentication-not-configured")
		return nil
	}
	for _, l := range logins {
		if strings.Contains(l, ":") {
			o.Discard("login-with-colon")
			return nil
		}
	}
	ambiguous := len(logins) > 1 || len(passes) > 1
	envL := c.Login.New.val() != "" || c.Login.Legacy.val() != ""
	envP := c.Password.New.val() != "" || c.Password.Legacy.val() != ""
	mixedPrefix := (c.Login.New.val() != "" && c.Login.Legacy.val() == "" && c.Password.Legacy.val() != "" && c.Password.New.val() == "") ||
		(c.Login.Legacy.val() != "" && c.Login.New.val() == "" && c.Password.New.val() != "" && c.Password.Legacy.val() == "")
	switch {
	case ambiguous:
		o.Tag("effective:ambiguous-prefix-order")
	case mixedPrefix:
		o.Tag("effective:login-and-password-from-different-prefixes")
	case envL != envP:
		o.Tag("effective:one-from-env-one-from-file")
	case envL:
		o.Tag("effective:both-from-env")
	default:
		o.Tag("effective:both-from-file")
	}
	if mixedPrefix || envL != envP || c.Login.Legacy.val() != "" || c.Password.Legacy.val() != "" {
		o.NonTrivial()
	}

	ch, err := startMain(c)
	if err != nil {
		// build failure / the child dies at start-up: infrastructure, not this property
		infraNote("%v", err)
		o.Discard("main-did-not-start")
		return nil
	}
	defer ch.stop()
	o.Tag("api-prefix:"+c.Prefix, "cors:"+c.Cors, "mode:"+c.Mode)
	ref, err := sweepApp(c.refMode(), 0) // only to ask whether a path has a route
	if err != nil {
		return fmt.Errorf("assembly: %w", err)
	}

	// Authorization headers: nothing, every pair that can be formed from the values the
	// sources carry (the effective pair is one of them, the others are what a wrong
	// precedence or pairing rule would install), and near misses of the effective pair.
	type hdr struct {
		has  bool
		v    string
		kind string
	}
	hdrs := []hdr{{false, "", "absent"}}
	seen := map[string]bool{}
	vals := func(v VarSources) []string {
		var out []string
		for _, s := range []Src{v.New, v.Legacy, v.File} {
			if s.val() != "" {
				out = append(out, s.val())
			}
		}
		return out
	}
	for _, l := range vals(c.Login) {
		for _, p := range vals(c.Password) {
			h := Canonical(l, p)
			if !seen[h] {
				seen[h] = true
				hdrs = append(hdrs, hdr{true, h, "source-pair"})
			}
		}
	}
	l0, p0 := logins[0], passes[0]
	for _, h := range []hdr{
		{true, Canonical(l0, p0) + "!", "right-junk"},
		{true, Canonical(l0, p0+"x"), "wrong-pass-edit"},
		{true, Canonical(l0+"x", p0), "wrong-user-edit"},
		{true, "Basic " + b64(l0+":"), "empty-pass"},
		{true, "Basic " + b64(":"+p0), "empty-user"},
		{true, "Basic " + b64(":"), "empty-both"},
		{true, "Bearer " + b64(l0+":"+p0), "other-scheme"},
		{true, "Basic " + b64(l0[:len(l0)-1]+":"+l0[len(l0)-1:]+p0), "resplit"},
		{true, "Basic " + b64(l0+p0[:1]+":"+p0[1:]), "resplit"},
		{true, "Basic " + b64(l0+p0+":"), "resplit"},
		{true, "Basic " + b64(":"+l0+p0), "resplit"},
	} {
		if !seen[h.v] {
			seen[h.v] = true
			hdrs = append(hdrs, h)
		}
	}

	candidateLetIn := false
	for _, rq := range configRoutes {
		for _, h := range hdrs {
			q := rq
			q.HasAuth, q.Auth, q.AuthKind = h.has, evid.Str(h.v), h.kind
			registered, tpl := Registered(ref.Router, q)
			// the verdict over all candidate pairs
			verdict := MustDeny
			var s Settings
			for _, l := range logins {
				for _, p := range passes {
					switch Classify(l, p, q.HasAuth, string(q.Auth)) {
					case MustPass:
						verdict, s = MustPass, Settings{Login: l, Password: p, Mode: c.refMode()}
					case DontCare:
						if verdict == MustDeny {
							verdict = DontCare
						}
					}
				}
			}
			if verdict != MustPass {
				s = Settings{Login: l0, Password: p0, Mode: c.refMode()}
			}
			if verdict == DontCare {
				continue
			}
			patience := hangLong
			if verdict == MustPass {
				patience = hangShort
			}
			exchange := func() (Resp, []string, error) {
				backend.Reset()
				got, err := serveWire(ch.base, q, patience)
				if err != nil {
					return got, nil, err
				}
				return got, backend.Sync(), nil
			}
			got, log, err := exchange()
			if err != nil {
				select {
				case werr := <-ch.done:
					ch.done <- werr
					infraNote("main died while serving (%v): %s", werr, lastBytes(ch.out.String(), 600))
					o.Discard("main-died")
					return nil
				default:
				}
				o.Tag("transport-error")
				continue
			}
			o.Tag("auth:"+h.kind, "verdict:"+verdict.String(), fmt.Sprintf("status:%d", got.Status))
			if verdict == MustPass && ambiguous {
				// one of several candidate pairs: being refused is acceptable as long as
				// another candidate is let in
				if got.Status != 401 && got.Status != 400 {
					candidateLetIn = true
				}
				continue
			}
			if verdict == MustPass && got.Status != 401 {
				candidateLetIn = true
			}
			if jerr := judge(s, q, registered, tpl, got, log, true); jerr != nil {
				if got2, log2, err2 := exchange(); err2 == nil {
					if jerr2 := judge(s, q, registered, tpl, got2, log2, true); jerr2 != nil {
						return fmt.Errorf("configuration {login from %s, password from %s; effective login %q password %q}: %w",
							c.Login.class(), c.Password.class(), logins, passes, jerr2)
					}
				}
				o.Tag("not-reproduced")
			}
		}
	}
	if err := sweepChildPaths(c, ch, logins, passes, o); err != nil {
		return err
	}
	if !candidateLetIn {
		return fmt.Errorf("configuration {login from %s, password from %s}: none of the effective credentials (logins %q, passwords %q) is let in",
			c.Login.class(), c.Password.class(), logins, passes)
	}
	return nil
}

// sweepChildPaths: the well-known common routes and a few API routes, at the root and
// under every prefix of the domain (the configured one included), without credentials and
// with the right ones. Nothing is assumed about where main() mounts what: whatever path
// answers with more than "no such route" must have required the credentials. Without
// credentials a response is acceptable only if it is mux's 405/301, the authentication
// layer's own 401/400, or the 404 the sentinel path gets (judgeX, route-less branch); and
// a path that demands credentials must accept the right ones.
var childPaths = []Req{
	{Method: "GET", Path: "/ready"}, {Method: "GET", Path: "/config"}, {Method: "GET", Path: "/metrics"},
	{Method: "GET", Path: "/api/status/buildinfo"},
	{Method: "GET", Path: "/loki/api/v1/labels"}, {Method: "GET", Path: "/api/v1/metadata"},
	{Method: "GET", Path: "/api/v1/status/buildinfo"}, {Method: "POST", Path: "/loki/api/v1/push", CT: "application/json", Body: "{}"},
	{Method: "GET", Path: "/api/search/tags", Query: "start=1&end=2"},
}

func sweepChildPaths(c configCase, ch *child, logins, passes []string, o *evid.Obs) error {
	s := Settings{Login: logins[0], Password: passes[0], Mode: c.refMode()}
	ambiguous := len(logins) > 1 || len(passes) > 1
	ctx := fmt.Sprintf("configuration {login from %s, password from %s, api_prefix %q, cors %q, mode %q; effective login %q password %q}",
		c.Login.class(), c.Password.class(), c.Prefix, c.Cors, c.Mode, logins, passes)
	for _, prefix := range cfgPrefixes {
		for _, base := range childPaths {
			q := base
			q.Path = prefix + base.Path
			where := "root"
			if prefix != "" {
				where = "under-other-prefix"
				if prefix == c.Prefix {
					where = "under-configured-prefix"
				}
			}
			if c.Cors != "" {
				q.HasOrigin, q.Origin = true, "http://evil.example"
			}
			observe := func(q Req) (Resp, []string, *Resp, error) {
				backend.Reset()
				got, err := serveWire(ch.base, q, hangShort)
				if err != nil {
					return got, nil, nil, err
				}
				log := backend.Sync()
				sq := q
				sq.Path, sq.Query = sentinelPath, ""
				var sentinel *Resp
				if sg, serr := serveWire(ch.base, sq, hangShort); serr == nil {
					sentinel = &sg
				}
				return got, log, sentinel, nil
			}
			// without credentials
			judgeNone := func() error {
				got, log, sentinel, err := observe(q)
				if err != nil {
					return nil
				}
				if got.Hang {
					return fmt.Errorf("a handler ran (and never answered) without credentials: %s", q)
				}
				o.Tag(fmt.Sprintf("path-sweep:%s:no-credentials:%d", where, got.Status))
				return judgeX(s, q, false, "", got, log, true, sentinel)
			}
			if err := judgeNone(); err != nil {
				if err2 := judgeNone(); err2 != nil {
					return fmt.Errorf("%s: %w", ctx, err2)
				}
				o.Tag("not-reproduced")
			}
			if ambiguous {
				continue
			}
			// with the right credentials: a path that demands credentials accepts them
			qa := q
			qa.HasAuth, qa.Auth, qa.AuthKind = true, evid.Str(Canonical(logins[0], passes[0])), "right"
			if got, _, _, err := observe(qa); err == nil && !got.Hang {
				o.Tag(fmt.Sprintf("path-sweep:%s:right-credentials:%d", where, got.Status))
				if got.Status == 401 {
					if got2, _, _, err2 := observe(qa); err2 == nil && got2.Status == 401 {
						return fmt.Errorf("%s: right credentials answered 401: %s", ctx, qa)
					}
				}
			}
		}
	}
	return nil
}

// ---- enumeration: every presence pattern, distinct values -----------------------------------------

func enumConfig(yield func(configCase)) {
	mk := func(mask int, vals [3]string) VarSources {
		var v VarSources
		if mask&1 != 0 {
			v.New = Src{true, evid.Str(vals[0])}
		}
		if mask&2 != 0 {
			v.Legacy = Src{true, evid.Str(vals[1])}
		}
		if mask&4 != 0 {
			v.File = Src{true, evid.Str(vals[2])}
		}
		return v
	}
	// the other settings rotate over the source patterns (each prefix x CORS x mode
	// combination occurs with several source patterns; the random check draws them freely)
	n := 0
	emit := func(c configCase) {
		c.Prefix = cfgPrefixes[n%len(cfgPrefixes)]
		c.Cors = cfgCors[(n/len(cfgPrefixes))%len(cfgCors)]
		c.Mode = cfgModes[(n/(len(cfgPrefixes)*len(cfgCors)))%len(cfgModes)]
		n++
		yield(c)
	}
	for lm := 0; lm < 8; lm++ {
		for pm := 0; pm < 8; pm++ {
			emit(configCase{
				Login:    mk(lm, [3]string{"login-qryn", "login-cloki", "login-file"}),
				Password: mk(pm, [3]string{"pw:qryn", "pw:cloki", "pw:file"}),
			})
			if lm&3 == 3 || pm&3 == 3 {
				// both prefixes present: the variant with equal values has one effective
				// pair (full oracle) where the one above is ambiguous
				emit(configCase{
					Login:    mk(lm, [3]string{"login-env", "login-env", "login-file"}),
					Password: mk(pm, [3]string{"pw:env", "pw:env", "pw:file"}),
				})
			}
		}
	}
}

// ---- random: empty strings, equal values in both prefixes, generated values -----------------------

func genSrc(rt *rapid.T, label string, value func() string) Src {
	switch rapid.IntRange(0, 3).Draw(rt, label+"-state") {
	case 0:
		return Src{}
	case 1:
		return Src{Set: true}
	}
	return Src{Set: true, Value: evid.Str(value())}
}

func genConfig(rt *rapid.T) configCase {
	// values: no NUL (environment), valid UTF-8 (the file is JSON), login without ':'
	cred := func(label string, colon bool) func() string {
		return func() string {
			for i := 0; ; i++ {
				s := genCredential(rt, fmt.Sprintf("%s-%d", label, i), colon)
				if utf8.ValidString(s) && !strings.ContainsRune(s, 0) {
					return s
				}
			}
		}
	}
	var c configCase
	c.Login.New = genSrc(rt, "login-qryn", cred("lq", false))
	c.Login.Legacy = genSrc(rt, "login-cloki", cred("lc", false))
	c.Login.File = genSrc(rt, "login-file", cred("lf", false))
	c.Password.New = genSrc(rt, "pw-qryn", cred("pq", true))
	c.Password.Legacy = genSrc(rt, "pw-cloki", cred("pc", true))
	c.Password.File = genSrc(rt, "pw-file", cred("pf", true))
	c.Prefix = rapid.SampledFrom(cfgPrefixes).Draw(rt, "api-prefix")
	c.Cors = rapid.SampledFrom(cfgCors).Draw(rt, "cors")
	c.Mode = rapid.SampledFrom(cfgModes).Draw(rt, "mode")
	if rapid.Bool().Draw(rt, "same-in-both-prefixes") {
		// the same value under both names: no ambiguity, full oracle
		if c.Login.New.val() != "" && c.Login.Legacy.val() != "" {
			c.Login.Legacy.Value = c.Login.New.Value
		}
		if c.Password.New.val() != "" && c.Password.Legacy.val() != "" {
			c.Password.Legacy.Value = c.Password.New.Value
		}
	}
	return c
}

func addConfig(r *evid.Run) {
	evid.Add(r, evid.Prop[configCase]{Name: "config", Quick: 100, Thorough: 100, Pred: predConfig, Enumerate: enumConfig})
	evid.Add(r, evid.Prop[configCase]{Name: "config-rand", Quick: 100, Thorough: 200, Gen: genConfig, Pred: predConfig})
}

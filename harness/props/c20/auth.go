package c20

import (
	"fmt"
	"net/http/httptest"
	"strings"
	"time"

	"pgregory.net/rapid"

	"qrynverif/evid"
)

// ---- C20(a) "header": the authentication layer alone --------------------------------------
//
// Domain: generated login/password and one Authorization header. The real
// middleware.BasicAuthMiddleware(login, password) wraps a sentinel handler.
// Oracle: Classify - must-pass headers reach the sentinel, must-deny headers do not and get
// 401 or 400, don't-care headers may do either.

type headerCase struct {
	Login    evid.Str `json:"login"`
	Password evid.Str `json:"password"`
	HasAuth  bool     `json:"has_auth"`
	Auth     evid.Str `json:"auth,omitempty"`
	Kind     string   `json:"kind,omitempty"`
}

func genHeader(rt *rapid.T) headerCase {
	l, p := genCredential(rt, "login", false), genCredential(rt, "password", true)
	has, hdr, kind := genAuth(rt, l, p)
	return headerCase{Login: evid.Str(l), Password: evid.Str(p), HasAuth: has, Auth: evid.Str(hdr), Kind: kind}
}

func predHeader(c headerCase, o *evid.Obs) error {
	l, p := string(c.Login), string(c.Password)
	if l == "" || p == "" || strings.Contains(l, ":") {
		o.Discard("authentication-not-configurable")
		return nil
	}
	q := Req{Method: "GET", Path: "/x", HasAuth: c.HasAuth, Auth: c.Auth}
	v := Classify(l, p, c.HasAuth, string(c.Auth))
	resp, reached := reference(l, p, q)
	o.Tag("kind:"+c.Kind, "verdict:"+v.String())
	if OneEdit(l, p, c.HasAuth, string(c.Auth)) {
		o.NonTrivial()
		o.Tag("one-edit")
	}
	switch v {
	case MustPass:
		if !reached {
			return fmt.Errorf("the right credentials are refused (%d %q): login=%q password=%q Authorization=%q", resp.Status, clip(resp.Body), l, p, string(c.Auth))
		}
	case MustDeny:
		if reached {
			return fmt.Errorf("a header that does not carry the configured credentials is let through: login=%q password=%q Authorization=%q (canonical %q)",
				l, p, string(c.Auth), Canonical(l, p))
		}
		if resp.Status != 401 && resp.Status != 400 {
			return fmt.Errorf("denied with status %d instead of 401/400: Authorization=%q", resp.Status, string(c.Auth))
		}
		o.Tag(fmt.Sprintf("denied:%d", resp.Status))
	default:
		o.Tag(fmt.Sprintf("dont-care-reached:%v", reached))
	}
	return nil
}

func addHeader(r *evid.Run) {
	evid.Add(r, evid.Prop[headerCase]{Name: "header", Quick: 30000, Thorough: 400000, Gen: genHeader, Pred: predHeader})
}

// ---- C20(b) "router": the router main() assembles ------------------------------------------
//
// Domain: settings (credentials, CORS, mode) and a batch of requests aimed at walked
// routes (path variables filled), at other methods (OPTIONS preflight included) and at
// paths without a route; served in-process or by a real net/http server on loopback.
// Oracle: judge() - see oracle.go.

type routerCase struct {
	Login    evid.Str `json:"login"`
	Password evid.Str `json:"password"`
	Cors     bool     `json:"cors"`
	Origin   string   `json:"cors_origin,omitempty"`
	Mode     string   `json:"mode"`
	Prefix   string   `json:"api_prefix,omitempty"`
	Wire     bool     `json:"wire"`
	Reqs     []Req    `json:"reqs"`
}

func (c routerCase) settings() Settings {
	return Settings{Login: string(c.Login), Password: string(c.Password), Cors: c.Cors, Origin: c.Origin, Mode: c.Mode, Prefix: c.Prefix}
}

func genRouter(rt *rapid.T) routerCase {
	s := genSettings(rt)
	c := routerCase{Login: evid.Str(s.Login), Password: evid.Str(s.Password), Cors: s.Cors, Origin: s.Origin, Mode: s.Mode, Prefix: s.Prefix}
	c.Wire = rapid.IntRange(0, 3).Draw(rt, "wire") == 0
	n := rapid.IntRange(1, 40).Draw(rt, "nreq")
	for i := 0; i < n; i++ {
		c.Reqs = append(c.Reqs, genReq(rt, s))
	}
	return c
}

func predRouter(c routerCase, o *evid.Obs) error {
	s := c.settings()
	if s.Login == "" || s.Password == "" || strings.Contains(s.Login, ":") {
		o.Discard("authentication-not-configurable")
		return nil
	}
	app, twin, err := AssemblePair(s)
	if err != nil {
		return fmt.Errorf("assembly: %w", err)
	}
	defer app.Close()
	defer twin.Close()
	return runRequests(app, twin, c.Reqs, c.Wire, o)
}

// exchanged is one request/response with everything observed about it.
type exchanged struct {
	got Resp
	log []string
}

// runRequests sends the requests one by one and judges each. twin (may be nil) is the same
// assembly without credentials configured: requests carrying the right credentials are
// sent to both and must be indistinguishable.
func runRequests(app, twin *App, reqs []Req, wire bool, o *evid.Obs) error {
	s := app.Settings
	base, twinBase := "", ""
	if wire {
		srv := httptest.NewServer(app.Router)
		defer srv.Close()
		base = srv.URL
		if twin != nil {
			tsrv := httptest.NewServer(twin.Router)
			defer tsrv.Close()
			twinBase = tsrv.URL
		}
		o.Tag("transport:wire")
	} else {
		o.Tag("transport:direct")
	}
	o.Tag("assembly:"+app.Source, "mode:"+s.Mode, fmt.Sprintf("cors:%v", s.Cors))
	if s.Cors {
		o.Tag("cors-origin:" + s.Origin)
	}
	send := func(a *App, b string, q Req, patience time.Duration) (exchanged, error) {
		backend.Reset()
		reached.Reset()
		var got Resp
		var err error
		if wire {
			got, err = serveWire(b, q, patience)
		} else {
			got, err = serveDirect(a.Router, q, patience)
		}
		if err != nil {
			return exchanged{}, err
		}
		log := backend.Sync()
		got.Reached, got.ReachKnown = reached.Get(), true
		if got.Hang {
			// the abandoned handler may do anything whenever it likes
			a.Noisy = true
		}
		if a.Noisy {
			log, got.ReachKnown, got.Reached = nil, false, nil
		}
		return exchanged{got, log}, nil
	}
	for i, q := range reqs {
		if _, err := q.build("http://qryn.test"); err != nil {
			o.Tag("unbuildable-request")
			continue
		}
		registered, tpl := Registered(app.Router, q)
		v := Classify(s.Login, s.Password, q.HasAuth, string(q.Auth))
		if wire && q.HasAuth {
			v = Classify(s.Login, s.Password, true, strings.Trim(string(q.Auth), " \t"))
		}
		patience := hangLong
		if registered && v != MustDeny {
			patience = hangShort
		}
		// one full observation: the request, for a route-less request the same request to
		// the sentinel path, for the right credentials the same request to the twin
		observe := func() (x exchanged, sentinel *Resp, tw *exchanged, err error) {
			if x, err = send(app, base, q, patience); err != nil {
				return
			}
			if !registered && !x.got.Hang && x.got.Panic == "" && x.got.Status != 405 && x.got.Status != 301 {
				sq := q
				sq.Path = sentinelPath
				if sx, serr := send(app, base, sq, patience); serr == nil {
					sentinel = &sx.got
				}
			}
			if twin != nil && registered && v == MustPass {
				if tx, terr := send(twin, twinBase, q, patience); terr == nil {
					tw = &tx
				}
			}
			return
		}
		check := func(x exchanged, sentinel *Resp, tw *exchanged) error {
			if jerr := judgeX(s, q, registered, tpl, x.got, x.log, wire, sentinel); jerr != nil {
				return jerr
			}
			if tw != nil {
				if derr := diffTwin(q, wire, x.got, tw.got, x.log, tw.log, !app.Noisy && !twin.Noisy); derr != nil {
					return fmt.Errorf("%w [route %q, cors=%v cors-origin=%q, mode=%q, login=%q password=%q]", derr, tpl, s.Cors, s.Origin, s.Mode, s.Login, s.Password)
				}
			}
			return nil
		}
		x, sentinel, tw, err := observe()
		if err != nil {
			// transport refused to send it (e.g. a method token net/http rejects): not an exchange
			o.Tag("transport-error")
			continue
		}
		got, log := x.got, x.log
		if got.Panic != "" {
			o.Tag("handler-panic")
		}
		if got.Hang {
			o.Tag("handler-hang:" + tpl)
		}
		if app.Noisy {
			o.Tag("back-end-log-ignored-after-hang")
		}
		o.Tag("auth:"+q.AuthKind, "verdict:"+v.String(), fmt.Sprintf("status:%d", got.Status))
		if registered {
			o.Tag("target:route")
			if v == MustPass {
				if len(log) > 0 {
					o.Tag("authorised:back-end-reached")
				} else {
					o.Tag("authorised:no-back-end")
				}
				if tw != nil {
					o.Tag("twin-compared")
					if q.HasOrigin {
						o.Tag("twin-compared:with-origin")
					}
				}
			}
		} else {
			o.Tag("target:no-route")
			if sentinel != nil {
				o.Tag("sentinel-compared")
			}
		}
		if q.Method == "OPTIONS" {
			o.Tag("preflight")
		}
		if q.AE != "" {
			o.Tag("ae:" + q.AE)
		}
		if q.HasOrigin {
			o.Tag("origin:" + q.Origin)
		}
		if registered && OneEdit(s.Login, s.Password, q.HasAuth, string(q.Auth)) {
			o.NonTrivial()
			o.Tag("one-edit")
		}
		if jerr := check(x, sentinel, tw); jerr != nil {
			// A violation of this property is deterministic. Anything that does not happen
			// again on the spot (a background connection of some goroutine qryn started)
			// is noise, not evidence.
			if x2, s2, tw2, err2 := observe(); err2 == nil {
				if jerr2 := check(x2, s2, tw2); jerr2 != nil {
					return fmt.Errorf("request #%d: %w", i, jerr2)
				}
			}
			o.Tag("not-reproduced:" + strings.SplitN(jerr.Error(), ":", 2)[0])
		}
	}
	return nil
}

func addRouter(r *evid.Run) {
	evid.Add(r, evid.Prop[routerCase]{Name: "router", Quick: 400, Thorough: 1200, Gen: genRouter, Pred: predRouter})
}

package c20

import (
	"encoding/base64"
	"strings"
	"sync"

	"pgregory.net/rapid"

	"qrynverif/evid"
)

// ---- generators --------------------------------------------------------------------------

// Credentials. main() takes them from QRYN_LOGIN / QRYN_PASSWORD (or CLOKI_*) or from the
// JSON configuration (main.go:157-168); authentication is installed only when both are
// non-empty (main.go:247). Restrictions:
//   - no NUL byte (cannot be in an environment variable);
//   - no ':' in the login: RFC 7617 forbids it and BasicAuthMiddleware splits the decoded
//     pair at the first colon, so such a login could never authenticate (a configuration
//     error, not a way in). The password may contain colons.
var credRunes = []rune("abcxyzABZ019 _-.:/@!$%&*+=?~#'\"\\,;<>()[]{}|^`éß€\u00a0\t")

func genCredential(rt *rapid.T, label string, colon bool) string {
	var s string
	switch rapid.IntRange(0, 9).Draw(rt, label+"-shape") {
	case 0: // arbitrary bytes, possibly invalid UTF-8
		b := rapid.SliceOfN(rapid.ByteRange(1, 255), 1, 10).Draw(rt, label+"-bytes")
		s = string(b)
	case 1:
		s = rapid.SampledFrom([]string{"admin", "a", "qryn", "user", "p", "secret", "pass word", "Aa"}).Draw(rt, label+"-common")
	default:
		s = rapid.StringOfN(rapid.SampledFrom(credRunes), 1, 12, -1).Draw(rt, label+"-str")
	}
	if !colon {
		s = strings.ReplaceAll(s, ":", "_")
	}
	return s
}

func b64(s string) string { return base64.StdEncoding.EncodeToString([]byte(s)) }

// validFieldValue: what net/http accepts as a header value on the wire (no control bytes
// except TAB, no DEL). Headers that cannot reach a real server are not generated.
func validFieldValue(s string) bool {
	for i := 0; i < len(s); i++ {
		c := s[i]
		if (c < 0x20 && c != '\t') || c == 0x7f {
			return false
		}
	}
	return true
}

func editOnce(rt *rapid.T, s string, label string) string {
	alphabet := "abzAZ09:=+/ !,-_.\t"
	ch := func() byte { return alphabet[rapid.IntRange(0, len(alphabet)-1).Draw(rt, label+"-ch")] }
	if s == "" {
		return string(ch())
	}
	pos := rapid.IntRange(0, len(s)).Draw(rt, label+"-pos")
	switch rapid.IntRange(0, 2).Draw(rt, label+"-op") {
	case 0: // insert
		return s[:pos] + string(ch()) + s[pos:]
	case 1: // delete
		if pos == len(s) {
			pos--
		}
		return s[:pos] + s[pos+1:]
	default: // substitute
		if pos == len(s) {
			pos--
		}
		c := ch()
		if c == s[pos] {
			c ^= 1
		}
		return s[:pos] + string(c) + s[pos+1:]
	}
}

// capFirst upper-cases the first letter of the path ("/ready" -> "/Ready").
func capFirst(p string) string {
	for i := 0; i < len(p); i++ {
		if p[i] >= 'a' && p[i] <= 'z' {
			return p[:i] + string(p[i]-32) + p[i+1:]
		}
	}
	return p
}

func flipCase(s string) string {
	b := []byte(s)
	for i, c := range b {
		switch {
		case c >= 'a' && c <= 'z':
			b[i] = c - 32
		case c >= 'A' && c <= 'Z':
			b[i] = c + 32
		}
	}
	return string(b)
}

var authKinds = []string{
	"absent", "empty", "right", "right", "right-junk", "right-junk", "right-prefix", "right-suffix",
	"wrong-user-edit", "wrong-pass-edit", "wrong-user", "wrong-pass", "pass-prefix", "pass-suffix", "user-prefix",
	"empty-pass", "empty-user", "extra-colon", "no-colon", "swapped", "scheme-case", "cred-case",
	"other-scheme", "no-scheme", "scheme-only", "bad-base64", "token-edit", "unpadded", "urlsafe",
	"spacing", "header-edit", "random", "resplit", "resplit", "resplit-swapped", "colon-moved",
}

// Resplits returns every "u:p" with u+p == whole, split anywhere (the separator at
// position k), except the split at skip (the genuine one; -1 = none to skip). A comparison
// of user+password without the separator (a digest of the concatenation, say) accepts them.
func Resplits(whole string, skip int) []string {
	var out []string
	for k := 0; k <= len(whole); k++ {
		if k != skip {
			out = append(out, whole[:k]+":"+whole[k:])
		}
	}
	return out
}

// ColonMoves returns the strings obtained from login:password by taking one colon out and
// putting it back somewhere else (same characters, one colon moved).
func ColonMoves(login, pass string) []string {
	c := login + ":" + pass
	seen := map[string]bool{c: true}
	var out []string
	for i := 0; i < len(c); i++ {
		if c[i] != ':' {
			continue
		}
		rest := c[:i] + c[i+1:]
		for j := 0; j <= len(rest); j++ {
			v := rest[:j] + ":" + rest[j:]
			if !seen[v] {
				seen[v] = true
				out = append(out, v)
			}
		}
	}
	return out
}

var junkSamples = []string{"!", "*", ",", ", Bearer x", " ", "  x", "=", "==", "====", "\t", "-", "_", "%3D", ".", "\"", "AAAA!", "A", "AA", "QUJD", "é"}

// genAuth draws one Authorization header (has=false: no header at all).
func genAuth(rt *rapid.T, login, pass string) (has bool, hdr string, kind string) {
	kind = rapid.SampledFrom(authKinds).Draw(rt, "auth-kind")
	tok := b64(login + ":" + pass)
	right := "Basic " + tok
	pick := func(label string, n int) int { return rapid.IntRange(0, n).Draw(rt, label) }
	switch kind {
	case "absent":
		return false, "", kind
	case "empty":
		hdr = ""
	case "right":
		hdr = right
	case "right-junk":
		j := rapid.OneOf(rapid.SampledFrom(junkSamples), rapid.StringMatching(`[ -~]{1,6}`)).Draw(rt, "junk")
		hdr = right + j
	case "right-prefix":
		hdr = right[:pick("cut", len(right)-1)]
	case "right-suffix":
		hdr = "Basic " + tok[1+pick("cut", len(tok)-1):]
	case "wrong-user-edit":
		hdr = "Basic " + b64(editOnce(rt, login, "u")+":"+pass)
	case "wrong-pass-edit":
		hdr = "Basic " + b64(login+":"+editOnce(rt, pass, "p"))
	case "wrong-user":
		hdr = "Basic " + b64(genCredential(rt, "other-user", false)+":"+pass)
	case "wrong-pass":
		hdr = "Basic " + b64(login+":"+genCredential(rt, "other-pass", true))
	case "pass-prefix":
		hdr = "Basic " + b64(login+":"+pass[:pick("cut", len(pass)-1)])
	case "pass-suffix":
		hdr = "Basic " + b64(login+":"+pass[1+pick("cut", len(pass)-1):])
	case "user-prefix":
		hdr = "Basic " + b64(login[:pick("cut", len(login)-1)]+":"+pass)
	case "empty-pass":
		hdr = "Basic " + b64(login+":")
	case "empty-user":
		hdr = "Basic " + b64(":"+pass)
	case "extra-colon":
		hdr = "Basic " + b64([]string{login + "::" + pass, login + ":" + pass + ":", ":" + login + ":" + pass,
			login + ":" + pass + ":x", login + ":" + ":" + pass + ":"}[pick("which", 4)])
	case "no-colon":
		hdr = "Basic " + b64([]string{login + pass, login, pass, login + " " + pass, login + ";" + pass}[pick("which", 4)])
	case "swapped":
		hdr = "Basic " + b64(pass+":"+login)
	case "resplit": // the concatenation login+password cut at another place
		rs := Resplits(login+pass, len(login))
		hdr = "Basic " + b64(rs[pick("split", len(rs)-1)])
	case "resplit-swapped": // the concatenation password+login cut anywhere
		rs := Resplits(pass+login, -1)
		hdr = "Basic " + b64(rs[pick("split", len(rs)-1)])
	case "colon-moved":
		cm := ColonMoves(login, pass)
		if len(cm) == 0 {
			cm = Resplits(login+pass, len(login))
		}
		hdr = "Basic " + b64(cm[pick("move", len(cm)-1)])
	case "scheme-case":
		hdr = []string{"basic ", "BASIC ", "bAsIc ", "Basic\t", "BasiC "}[pick("which", 4)] + tok
	case "cred-case":
		if pick("which", 1) == 0 {
			hdr = "Basic " + b64(flipCase(login)+":"+pass)
		} else {
			hdr = "Basic " + b64(login+":"+flipCase(pass))
		}
	case "other-scheme":
		hdr = []string{"Bearer " + tok, "Digest " + tok, "Negotiate " + tok, "Basi " + tok, "Basicc " + tok,
			"Bearer " + login + ":" + pass, "Token " + pass}[pick("which", 6)]
	case "no-scheme":
		hdr = []string{tok, login + ":" + pass, " " + tok}[pick("which", 2)]
	case "scheme-only":
		hdr = []string{"Basic", "Basic ", "Basic  ", "Basic ="}[pick("which", 3)]
	case "bad-base64":
		hdr = "Basic " + rapid.StringMatching(`[ -~]{0,24}`).Draw(rt, "garbage")
	case "token-edit":
		hdr = "Basic " + editOnce(rt, tok, "t")
	case "unpadded":
		hdr = "Basic " + strings.TrimRight(tok, "=")
	case "urlsafe":
		hdr = "Basic " + base64.URLEncoding.EncodeToString([]byte(login+":"+pass))
	case "spacing":
		hdr = []string{"Basic  " + tok, " Basic " + tok, "Basic " + tok + " ", "Basic \t" + tok, "Basic " + tok[:len(tok)/2] + " " + tok[len(tok)/2:]}[pick("which", 4)]
	case "header-edit":
		hdr = editOnce(rt, right, "h")
	default:
		hdr = rapid.StringMatching(`[ -~]{0,40}`).Draw(rt, "random-header")
	}
	if !validFieldValue(hdr) {
		// cannot be sent to a real server; fall back to the absent header
		return false, "", "absent"
	}
	return true, hdr, kind
}

// ---- route table (for the generator only) ------------------------------------------------

var (
	tableOnce sync.Once
	table     []RouteInfo
	tableErr  error
)

// routeTable is the walked route list of a mode=all assembly; generators use it to aim
// requests at registered routes. The predicate never trusts it: it asks the router of its
// own assembly whether a request has a route.
func routeTable() []RouteInfo {
	tableOnce.Do(func() {
		a, err := Assemble(Settings{Login: "u", Password: "p", Mode: "all"})
		if err != nil {
			tableErr = err
			return
		}
		table = a.Routes
	})
	if tableErr != nil || len(table) == 0 {
		panic("c20: no route table")
	}
	return table
}

var segGen = rapid.OneOf(
	rapid.SampledFrom([]string{"x", "job", "0", "app", "a.b", "d41d8cd98f00b204e9800998ecf8427e", "%41", "a%20b", "..a", "~"}),
	rapid.StringMatching(`[A-Za-z0-9._~-]{1,8}`),
)

var allMethods = []string{"GET", "POST", "PUT", "DELETE", "PATCH", "HEAD", "OPTIONS"}

func genReq(rt *rapid.T, s Settings) Req {
	tbl := routeTable()
	q := Req{}
	if rapid.IntRange(0, 99).Draw(rt, "target") < 85 {
		ri := tbl[rapid.IntRange(0, len(tbl)-1).Draw(rt, "route")]
		vals := rapid.SliceOfN(segGen, 3, 3).Draw(rt, "vars")
		q.Path = FillTemplate(ri.Template, vals)
		if ri.Prefix {
			q.Path += rapid.SampledFrom([]string{"", "index.html", "x/y"}).Draw(rt, "below-prefix")
		}
		switch m := rapid.IntRange(0, 9).Draw(rt, "method-class"); {
		case m < 8 && len(ri.Methods) > 0:
			q.Method = rapid.SampledFrom(ri.Methods).Draw(rt, "method")
		case m == 8:
			q.Method = "OPTIONS"
			q.ACRM = rapid.SampledFrom([]string{"GET", "POST", ""}).Draw(rt, "acrm")
		default:
			q.Method = rapid.SampledFrom(allMethods).Draw(rt, "any-method")
		}
	} else {
		base := tbl[rapid.IntRange(0, len(tbl)-1).Draw(rt, "near")].Template
		base = FillTemplate(base, []string{"x", "y", "z"})
		q.Path = rapid.OneOf(
			rapid.SampledFrom([]string{"/", "/x", "/ready/", "/READY", "/api", "/loki/api/v1", "/metrics/x", "/favicon.ico",
				"//ready", "/./ready", "/a/../ready", base + "/extra", strings.ToUpper(base), base + "x",
				base + "/", flipCase(base), capFirst(base), "/loki/api/v1/push/", "/Ready"}),
			rapid.StringMatching(`(/[a-z0-9_.-]{1,6}){1,4}`),
		).Draw(rt, "odd-path")
		q.Method = rapid.SampledFrom(allMethods).Draw(rt, "any-method")
	}
	if s.Prefix != "" && rapid.IntRange(0, 3).Draw(rt, "under-prefix") == 0 {
		q.Path = s.Prefix + q.Path // where a main() honouring api_prefix would mount it
	}
	q.HasAuth, _, q.AuthKind = false, "", ""
	has, hdr, kind := genAuth(rt, s.Login, s.Password)
	q.HasAuth, q.Auth, q.AuthKind = has, evid.Str(hdr), kind
	q.AE = rapid.SampledFrom([]string{"", "gzip", "br", "gzip;q=0", "gzip, deflate, br", "identity"}).Draw(rt, "ae")
	if rapid.Bool().Draw(rt, "has-origin") {
		q.HasOrigin = true
		// listed (in corsOrigins below), unlisted, null, case / trailing-slash variants
		q.Origin = rapid.SampledFrom([]string{"http://evil.example", "http://grafana.local", "https://other.example:3000", "null",
			"HTTP://GRAFANA.LOCAL", "http://grafana.local/", "http://grafana.local:80", "*", ""}).Draw(rt, "origin")
	}
	if q.ACRM == "" && rapid.IntRange(0, 6).Draw(rt, "stray-acrm") == 0 {
		// a preflight header on a request that is not OPTIONS (sloppy preflight detection)
		q.ACRM = "GET"
	}
	if q.Method == "POST" || q.Method == "PUT" {
		q.CT = rapid.SampledFrom([]string{"", "application/json", "application/x-protobuf", "text/plain"}).Draw(rt, "ct")
		q.Body = rapid.SampledFrom([]string{"", "{}", "x", "{\"streams\":[]}"}).Draw(rt, "body")
	}
	if strings.Contains(q.Path, "/api/v2/search/tag") {
		// TempoController.ValuesV2 / TagsV2 range over a nil channel - for ever - when the
		// database is unreachable and no start/end is given (tempoController.go:259-271: the
		// error of Service.Values is not looked at). Behind the credentials, not C20's
		// business; every such request would cost the hang time-out.
		q.Query = "start=1&end=2"
	} else if rapid.IntRange(0, 3).Draw(rt, "has-query") == 0 {
		q.Query = rapid.SampledFrom([]string{"query=up&start=1&end=2&step=1", "query=%7Ba%3D%22b%22%7D", "db=x", "match[]=up"}).Draw(rt, "query")
	}
	return q
}

// corsOrigins: CORS_ALLOW_ORIGIN / http_settings.cors.origin values: any origin, empty
// (CorsMiddleware turns it into "*"), one explicit origin, a comma-separated list.
var corsOrigins = []string{"*", "", "http://grafana.local", "http://grafana.local,https://other.example:3000"}

func genSettings(rt *rapid.T) Settings {
	s := Settings{
		Login:    genCredential(rt, "login", false),
		Password: genCredential(rt, "password", true),
		Mode:     rapid.SampledFrom([]string{"all", "all", "", "writer", "reader", "other"}).Draw(rt, "mode"),
	}
	s.Prefix = rapid.SampledFrom([]string{"", "", "/qryn", "/a/b"}).Draw(rt, "api-prefix")
	if rapid.Bool().Draw(rt, "cors") {
		s.Cors = true
		s.Origin = rapid.SampledFrom(corsOrigins).Draw(rt, "cors-origin")
	}
	return s
}

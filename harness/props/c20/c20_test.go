package c20

import (
	"fmt"
	"os"
	"strings"
	"testing"

	"qrynverif/evid"
)

func TestProp(t *testing.T) {
	r := evid.New(t, "C20", evid.Config{
		Level: "exploration",
		Rule: "generated credentials / Authorization headers / request batches against the router assembled by interpreting main()'s statements over the real Init functions; " +
			"non-trivial: a request to a registered route whose Authorization header is one byte edit away from the right one (as a header or as the decoded login:password); config: login and password from different sources/prefixes or a legacy name involved",
		Assumptions: []string{
			"the login contains no ':' (RFC 7617; BasicAuthMiddleware splits at the first colon) and neither credential contains NUL",
			"header values are valid HTTP field values (no control bytes except TAB): others never reach a handler of net/http",
			"non-canonical spellings of the right credentials (scheme case, extra blanks, unpadded or URL-safe base64) are don't-care",
			"the binary is built without the `view` tag, like the default build: view.Init registers nothing",
			"effective credentials per the unchanged main.go: a non-empty QRYN_*/CLOKI_* variable overrides the config file, each variable on its own; empty = absent; both prefixes set to different values is ambiguous (either value may be the effective one)",
			"config/config-rand run the real package main as a child process in MODE=reader (writer/all need a live ClickHouse at start-up)",
			"a request with the right credentials must start the route's handler (observed by wrapping every walked route's handler) and be indistinguishable from the same request to the same assembly without credentials configured; OPTIONS is exempt from the first rule",
			"database interaction = a TCP connection to DATABASE_DATA[0].Host:Port, a look-up in the writer's service registry or a Request() on an insert service",
		},
	})
	addHeader(r)
	addSweep(r)
	addRouter(r)
	addConfig(r)
	if os.Getenv("VERIF_REPLAY") == "" {
		// one assembly up front: what was interpreted goes to the evidence
		if a, err := Assemble(Settings{Login: "u", Password: "p", Mode: "all", Cors: true, Origin: "*"}); err == nil {
			r.Note("assembly source: %s; %d routes walked (mode=all); statements executed: %s", a.Source, len(a.Routes), strings.Join(a.Trace, " | "))
		}
	}
	r.Main()
	if f := InterpFailure(); f != "" {
		// never a violation: the assembly fell back to the checked-in replica of main()
		fmt.Printf("INCONCLUSIVE property=C20: %s (fell back to the replica of main(); the router under test may not be the one main() builds)\n", f)
	}
}

package c20

import (
	"fmt"
	"go/ast"
	"go/build"
	"go/parser"
	"go/token"
	"os"
	"path/filepath"
	"sort"
	"strconv"
	"strings"
	"sync"

	"github.com/metrico/qryn/view"

	"qrynverif/evid"
)

// ---- C20(c) "sweep": every walked route x every method class x a fixed header table -------
//
// Enumerated, not sampled: for each mode (all, writer, reader) and CORS on/off, each route
// found by mux.Router.Walk is requested with each of its methods, with OPTIONS (preflight)
// and with a method it does not have, under a fixed table of Authorization headers, and -
// for the four headers that matter most - under every Accept-Encoding x Origin combination.

const sweepLogin, sweepPassword = "qryn-user", "s3:cr et/+"

type sweepCase struct {
	Mode  string    `json:"mode"`
	Cors  int       `json:"cors"` // index into sweepCors
	Route RouteInfo `json:"route"`
}

func fixedAuths(login, pass string) [][2]string {
	tok := b64(login + ":" + pass)
	t := [][2]string{
		{"absent", ""}, {"empty", ""},
		{"right", "Basic " + tok},
		{"right-junk", "Basic " + tok + "!"}, {"right-junk", "Basic " + tok + ", Bearer x"}, {"right-junk", "Basic " + tok + "===="},
		{"right-prefix", "Basic " + tok[:len(tok)-4]}, {"right-suffix", "Basic " + tok[4:]},
		{"wrong-user-edit", "Basic " + b64(login+"x:"+pass)}, {"wrong-pass-edit", "Basic " + b64(login+":"+pass+"x")},
		{"wrong-pass-edit", "Basic " + b64(login+":"+pass[1:])}, {"user-prefix", "Basic " + b64(login[:len(login)-1]+":"+pass)},
		{"empty-pass", "Basic " + b64(login+":")}, {"empty-user", "Basic " + b64(":"+pass)},
		{"extra-colon", "Basic " + b64(login+"::"+pass)}, {"extra-colon", "Basic " + b64(login+":"+pass+":")},
		{"no-colon", "Basic " + b64(login+pass)}, {"swapped", "Basic " + b64(pass+":"+login)},
		{"scheme-case", "basic " + tok}, {"scheme-case", "BASIC " + tok},
		{"cred-case", "Basic " + b64(flipCase(login)+":"+pass)}, {"cred-case", "Basic " + b64(login+":"+flipCase(pass))},
		{"other-scheme", "Bearer " + tok}, {"no-scheme", tok}, {"scheme-only", "Basic"}, {"scheme-only", "Basic "},
		{"bad-base64", "Basic !!!!"}, {"bad-base64", "Basic " + login + ":" + pass},
		{"unpadded", "Basic " + strings.TrimRight(tok, "=")}, {"spacing", "Basic  " + tok}, {"spacing", " Basic " + tok},
	}
	// index-stable table above (sweepRequests refers to positions); appended: the
	// concatenation cut elsewhere, and one colon moved
	whole := login + pass
	for _, k := range []int{0, 1, len(login) - 1, len(login) + 1, len(whole) - 1, len(whole)} {
		if k >= 0 && k <= len(whole) && k != len(login) {
			t = append(t, [2]string{"resplit", "Basic " + b64(whole[:k]+":"+whole[k:])})
		}
	}
	t = append(t, [2]string{"resplit-swapped", "Basic " + b64(pass+login+":")}, [2]string{"resplit-swapped", "Basic " + b64(pass[:1]+":"+pass[1:]+login)})
	for i, v := range ColonMoves(login, pass) {
		if i%7 == 0 { // a spread of them; the header check draws all
			t = append(t, [2]string{"colon-moved", "Basic " + b64(v)})
		}
	}
	return t
}

// sweepOrigins: Origin header variants against sweepCors[2] (a list): listed, unlisted,
// null, case and trailing-slash variants of a listed one.
var sweepOrigins = []string{"http://grafana.local", "https://other.example:3000", "http://evil.example", "null", "HTTP://GRAFANA.LOCAL", "http://grafana.local/"}

func sweepRequests(ri RouteInfo) []Req {
	path := FillTemplate(ri.Template, []string{"x", "y", "z"})
	if ri.Prefix {
		path += "index.html"
	}
	methods := append([]string(nil), ri.Methods...)
	if len(methods) == 0 {
		methods = []string{"GET", "POST"}
	}
	own := len(methods)
	has := map[string]bool{}
	for _, m := range methods {
		has[m] = true
	}
	if !has["OPTIONS"] {
		methods = append(methods, "OPTIONS")
	}
	for _, m := range []string{"DELETE", "HEAD", "PUT"} {
		if !has[m] {
			methods = append(methods, m)
			break
		}
	}
	var out []Req
	auths := fixedAuths(sweepLogin, sweepPassword)
	mk := func(m, path string, a [2]string, ae string, origin string, hasOrigin bool) Req {
		// start/end: TempoController.ValuesV2 never answers without them when the
		// database is unreachable (its own defect, behind the credentials)
		q := Req{Method: m, Path: path, Query: "start=1&end=2", AuthKind: a[0], AE: ae, HasOrigin: hasOrigin, Origin: origin}
		if a[0] != "absent" {
			q.HasAuth, q.Auth = true, evid.Str(a[1])
		}
		if m == "OPTIONS" || origin == "http://evil.example" {
			q.ACRM = "POST" // preflight, or a stray preflight header on an ordinary request
		}
		return q
	}
	for mi, m := range methods {
		for _, a := range auths {
			out = append(out, mk(m, path, a, "", "", false))
		}
		for _, ai := range []int{0, 2, 3, 9} { // absent, right, right+junk, wrong password
			for _, ae := range []string{"", "gzip", "br", "gzip;q=0"} {
				for _, origin := range []bool{false, true} {
					if ae == "" && !origin {
						continue
					}
					o := ""
					if origin {
						o = "http://evil.example"
					}
					out = append(out, mk(m, path, auths[ai], ae, o, origin))
				}
			}
		}
		for _, ai := range []int{0, 2} { // absent, right: every Origin variant
			for _, origin := range sweepOrigins {
				if origin == "http://evil.example" {
					continue // above
				}
				out = append(out, mk(m, path, auths[ai], "", origin, true))
			}
		}
		if mi >= own || ri.Prefix || path == sentinelPath || path == "/" {
			continue
		}
		// trailing-slash and case variants of the registered path, with the route's own
		// methods: nobody registered them, so no handler may run for them - not through a
		// router-wide not-found / redirect handler either - with or without credentials
		for _, vp := range []string{path + "/", flipCase(path), capFirst(path)} {
			if vp == path {
				continue
			}
			for _, ai := range []int{0, 2, 3, 9} {
				out = append(out, mk(m, vp, auths[ai], "", "", false))
			}
			out = append(out, mk(m, vp, auths[0], "gzip", "http://evil.example", true))
		}
	}
	return out
}

// sweepCors: CORS disabled, any origin, a comma-separated list (its first element alone is
// the "one explicit origin" configuration, which the random check also draws).
var sweepCors = []struct {
	on     bool
	origin string
}{{false, ""}, {true, "*"}, {true, "http://grafana.local,https://other.example:3000"}, {true, "http://grafana.local"}}

type appPair struct{ app, twin *App }

var (
	sweepMu   sync.Mutex
	sweepApps = map[string]appPair{}
)

// sweepPair caches one assembly (and its twin without credentials) per (mode, cors): routes
// do not depend on anything else and a router keeps no per-request state.
func sweepPair(mode string, cors int) (appPair, error) {
	sweepMu.Lock()
	defer sweepMu.Unlock()
	k := fmt.Sprintf("%s/%d", mode, cors)
	if p, ok := sweepApps[k]; ok {
		return p, nil
	}
	a, t, err := AssemblePair(Settings{Login: sweepLogin, Password: sweepPassword, Cors: sweepCors[cors].on, Origin: sweepCors[cors].origin, Mode: mode})
	if err != nil {
		return appPair{}, err
	}
	sweepApps[k] = appPair{a, t}
	return sweepApps[k], nil
}

func sweepApp(mode string, cors int) (*App, error) {
	p, err := sweepPair(mode, cors)
	return p.app, err
}

var sweepModes = []string{"all", "writer", "reader"}

func enumSweep(yield func(sweepCase)) {
	for _, mode := range sweepModes {
		for cors := range sweepCors {
			if cors == 3 && mode != "all" {
				continue // single explicit origin: mode all only
			}
			a, err := sweepApp(mode, cors)
			if err != nil {
				panic("c20: assembly failed: " + err.Error())
			}
			for _, ri := range a.Routes {
				yield(sweepCase{Mode: mode, Cors: cors, Route: ri})
			}
			// and two paths nobody registered (NotFoundHandler / catch-all mistakes)
			yield(sweepCase{Mode: mode, Cors: cors, Route: RouteInfo{Template: "/", Methods: []string{"GET"}}})
			yield(sweepCase{Mode: mode, Cors: cors, Route: RouteInfo{Template: sentinelPath, Methods: []string{"GET", "POST"}}})
		}
	}
}

func predSweep(c sweepCase, o *evid.Obs) error {
	if c.Cors < 0 || c.Cors >= len(sweepCors) {
		o.Discard("unknown-cors-configuration")
		return nil
	}
	p, err := sweepPair(c.Mode, c.Cors)
	if err != nil {
		return fmt.Errorf("assembly: %w", err)
	}
	o.NonTrivial() // the table contains one-edit headers for every route
	return runRequests(p.app, p.twin, sweepRequests(c.Route), false, o)
}

// ---- C20(d) "routes": every registration is behind the authenticated router ---------------
//
// The walked route table is compared with the registration call sites (X.HandleFunc,
// X.Handle, <route>.Handler) found in the route tables' source. A site whose receiver is
// the router the enclosing function received is reached through whoever passes the router
// down (main's router, observed by Walk). A site whose receiver is something else - a
// router made on the spot, a package variable - is probed: it must show up in the walk of
// the authenticated router (as a sub-router route) or answer through it; otherwise the
// route lives on a router that does not carry the authentication middleware.

type regSite struct {
	File      string `json:"file"`
	Line      int    `json:"line"`
	Group     string `json:"group"` // common | writer | reader | view
	Call      string `json:"call"`
	Path      string `json:"path,omitempty"` // literal path, if any
	Literal   bool   `json:"literal"`
	RecvParam bool   `json:"recv_is_router_param"`
	InLoop    bool   `json:"in_loop"`
}

type routesCase struct {
	Mode string `json:"mode"`
}

var scanDirs = []struct{ dir, group string }{
	{".", "common"}, {"shared/commonroutes", "common"},
	{"writer", "writer"}, {"writer/plugin", "writer"}, {"writer/router", "writer"},
	{"reader", "reader"}, {"reader/router", "reader"}, {"view", "view"},
}

func scanRegistrations(root string) ([]regSite, error) {
	var sites []regSite
	ctx := build.Default
	ctx.BuildTags = []string{"verif"}
	for _, sd := range scanDirs {
		dir := filepath.Join(root, sd.dir)
		ents, err := os.ReadDir(dir)
		if err != nil {
			return nil, err
		}
		for _, e := range ents {
			name := e.Name()
			if e.IsDir() || !strings.HasSuffix(name, ".go") || strings.HasSuffix(name, "_test.go") {
				continue
			}
			if ok, err := ctx.MatchFile(dir, name); err != nil || !ok {
				continue
			}
			fset := token.NewFileSet()
			f, err := parser.ParseFile(fset, filepath.Join(dir, name), nil, 0)
			if err != nil {
				return nil, err
			}
			httpName := ""
			for _, im := range f.Imports {
				if p, _ := strconv.Unquote(im.Path.Value); p == "net/http" {
					httpName = "http"
					if im.Name != nil {
						httpName = im.Name.Name
					}
				}
			}
			for _, d := range f.Decls {
				fd, ok := d.(*ast.FuncDecl)
				if !ok || fd.Body == nil {
					continue
				}
				params := map[string]bool{}
				for _, p := range fd.Type.Params.List {
					if strings.HasSuffix(exprString(fset, p.Type), "mux.Router") || strings.HasSuffix(exprString(fset, p.Type), "Router") {
						for _, n := range p.Names {
							params[n.Name] = true
						}
					}
				}
				var stack []ast.Node
				ast.Inspect(fd.Body, func(n ast.Node) bool {
					if n == nil {
						stack = stack[:len(stack)-1]
						return true
					}
					stack = append(stack, n)
					c, ok := n.(*ast.CallExpr)
					if !ok {
						return true
					}
					sel, ok := c.Fun.(*ast.SelectorExpr)
					if !ok {
						return true
					}
					isReg := false
					switch sel.Sel.Name {
					case "HandleFunc", "Handle":
						isReg = len(c.Args) == 2
					case "Handler", "HandlerFunc":
						_, chained := sel.X.(*ast.CallExpr)
						isReg = chained && len(c.Args) == 1
					}
					if !isReg {
						return true
					}
					// root receiver of the chain
					root := sel.X
					for {
						if cc, ok := root.(*ast.CallExpr); ok {
							if s2, ok := cc.Fun.(*ast.SelectorExpr); ok {
								root = s2.X
								continue
							}
						}
						break
					}
					rid, _ := root.(*ast.Ident)
					if rid != nil && rid.Name == httpName && rid.Obj == nil {
						return true // http.Handle on DefaultServeMux: interp.go reports it
					}
					s := regSite{File: filepath.Join(sd.dir, name), Line: fset.Position(c.Pos()).Line, Group: sd.group,
						Call: exprString(fset, c.Fun), RecvParam: rid != nil && params[rid.Name]}
					pathArg := c.Args[0]
					if sel.Sel.Name == "Handler" || sel.Sel.Name == "HandlerFunc" {
						if cc, ok := sel.X.(*ast.CallExpr); ok && len(cc.Args) == 1 {
							pathArg = cc.Args[0]
						}
					}
					if bl, ok := pathArg.(*ast.BasicLit); ok && bl.Kind == token.STRING {
						s.Path, _ = strconv.Unquote(bl.Value)
						s.Literal = true
					}
					for _, anc := range stack {
						switch anc.(type) {
						case *ast.ForStmt, *ast.RangeStmt:
							s.InLoop = true
						}
					}
					sites = append(sites, s)
					return true
				})
			}
		}
	}
	sort.Slice(sites, func(i, j int) bool {
		if sites[i].File != sites[j].File {
			return sites[i].File < sites[j].File
		}
		return sites[i].Line < sites[j].Line
	})
	return sites, nil
}

func activeGroups(mode string) map[string]bool {
	g := map[string]bool{"common": true}
	if mode == "all" || mode == "" || mode == "writer" {
		g["writer"] = true
	}
	if mode == "all" || mode == "" || mode == "reader" {
		g["reader"] = true
		if view.HaveStatic {
			g["view"] = true
		}
	}
	return g
}

func predRoutes(c routesCase, o *evid.Obs) error {
	sites, err := scanRegistrations(repoDir())
	if err != nil {
		o.Discard("route tables unreadable: " + err.Error())
		return nil
	}
	a, err := sweepApp(c.Mode, 0)
	if err != nil {
		return fmt.Errorf("assembly: %w", err)
	}
	groups := activeGroups(c.Mode)
	expected, loops := 0, 0
	walked := map[string]bool{}
	for _, r := range a.Routes {
		walked[r.Template] = true
	}
	o.NonTrivial()
	for _, s := range sites {
		if !groups[s.Group] {
			continue
		}
		if s.InLoop {
			loops++
		} else {
			expected++
		}
		if s.RecvParam {
			continue
		}
		// registered on something that is not the router handed down by main()
		o.Tag("site:foreign-receiver")
		if !s.Literal {
			if len(a.Routes) < expected {
				return fmt.Errorf("%s:%d %s registers a route on a router that is not the one main() hands down, and the walk of the authenticated router (%d routes) misses registrations (%d call sites so far)",
					s.File, s.Line, s.Call, len(a.Routes), expected)
			}
			continue
		}
		served := false
		for tpl := range walked {
			if strings.HasSuffix(tpl, s.Path) {
				served = true
			}
		}
		if served {
			continue
		}
		// not in the walk: does the authenticated router answer for it at all?
		path := FillTemplate(s.Path, []string{"x", "y", "z"})
		reach := false
		for _, m := range []string{"GET", "POST", "PUT"} {
			q := Req{Method: m, Path: path, HasAuth: true, Auth: evid.Str(Canonical(sweepLogin, sweepPassword))}
			if got, err := serveDirect(a.Router, q, hangShort); err == nil && got.Status != 404 && got.Status != 405 {
				q.HasAuth = false
				if denied, err := serveDirect(a.Router, q, hangShort); err == nil && denied.Status == 401 {
					reach = true
				}
			}
		}
		if !reach {
			return fmt.Errorf("route %q is registered at %s:%d (%s) on a router that is not the one main() protects with BasicAuthMiddleware: the authenticated router neither lists it (Walk: %d routes) nor answers for it",
				s.Path, s.File, s.Line, s.Call, len(a.Routes))
		}
	}
	o.Tag(fmt.Sprintf("mode:%s walked:%d sites:%d loop-sites:%d", c.Mode, len(a.Routes), expected, loops))
	if loops == 0 && len(a.Routes) != expected {
		// every receiver is the handed-down router, yet the numbers differ: a registration
		// function that is not called (fewer) or a table outside the scanned files (more).
		// Neither makes a route reachable without credentials; recorded, not reported.
		o.Tag("count-mismatch")
		addNote(fmt.Sprintf("mode %s: walked %d routes, %d registration call sites in the route tables", c.Mode, len(a.Routes), expected))
	}
	return nil
}

var (
	notesMu sync.Mutex
	notes   []string
)

func addNote(s string) {
	notesMu.Lock()
	defer notesMu.Unlock()
	for _, n := range notes {
		if n == s {
			return
		}
	}
	notes = append(notes, s)
}

func assemblyNotes() []string {
	notesMu.Lock()
	defer notesMu.Unlock()
	return append([]string(nil), notes...)
}

func addSweep(r *evid.Run) {
	evid.Add(r, evid.Prop[routesCase]{Name: "routes", Quick: 10, Thorough: 10, Pred: predRoutes,
		Enumerate: func(yield func(routesCase)) {
			for _, m := range append(append([]string(nil), sweepModes...), "other") {
				yield(routesCase{Mode: m})
			}
		}})
	evid.Add(r, evid.Prop[sweepCase]{Name: "sweep", Quick: 4000, Thorough: 4000, Pred: predSweep, Enumerate: enumSweep})
}

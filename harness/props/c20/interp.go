package c20

import (
	"fmt"
	"go/ast"
	"go/parser"
	"go/token"
	"net/http"
	"os"
	"reflect"
	"strconv"
	"strings"
	"sync"

	"github.com/gorilla/mux"
	clconfig "github.com/metrico/cloki-config"
	"github.com/metrico/qryn/reader/utils/middleware"
	"github.com/metrico/qryn/shared/commonroutes"
	"github.com/metrico/qryn/view"
)

// ---- main() as data -----------------------------------------------------------------------
//
// main() cannot be called (flags, environment, ClickHouse, ListenAndServe) and Go cannot
// compile at test time, so the harness *interprets* the part of main() that assembles the
// router: the statements from `app := mux.NewRouter()` up to the call that serves it. The
// statements are read from the tree under test with go/ast on every run, and executed with
// reflection against the REAL functions they name (mux, middleware.*, commonroutes.*,
// writer.Init, reader.Init, view.Init). An edit of main.go - middleware order, a dropped or
// conditional Use, a route added on another router, an Init call moved - is therefore
// exercised, not pattern-matched. Constructs outside the small statement language below
// make the run INCONCLUSIVE (and fall back to the checked-in replica), never a violation.
//
// Supported: := / = with one target (identifier or field path), expression statements,
// if/else, blocks, return; identifiers, string/int literals, field selection, package
// functions from the table below, method calls on any value, && || ! == !=, parentheses,
// function literals with the http.HandlerFunc signature (executed as a recording marker
// handler: their body is not interpreted, but reaching them is observed), and calls of
// package-main functions that receive the router (interpreted recursively; the one that
// calls http.Serve ends the window and must serve the router it was given).

type mainProgram struct {
	fset    *token.FileSet
	file    *ast.File
	imports map[string]string // local name -> import path
	funcs   map[string]*ast.FuncDecl
	path    string
}

var (
	progMu    sync.Mutex
	progCache = map[string]*mainProgram{}
)

func loadMainProgram(path string) (*mainProgram, error) {
	progMu.Lock()
	defer progMu.Unlock()
	if p, ok := progCache[path]; ok {
		return p, nil
	}
	fset := token.NewFileSet()
	dir := path[:strings.LastIndex(path, "/")]
	pkgs, err := parser.ParseDir(fset, dir, func(fi os.FileInfo) bool {
		return !strings.HasSuffix(fi.Name(), "_test.go")
	}, parser.ParseComments)
	if err != nil {
		return nil, fmt.Errorf("parse %s: %w", dir, err)
	}
	pkg := pkgs["main"]
	if pkg == nil {
		return nil, fmt.Errorf("no package main in %s", dir)
	}
	p := &mainProgram{fset: fset, imports: map[string]string{}, funcs: map[string]*ast.FuncDecl{}, path: path}
	for name, f := range pkg.Files {
		if name == path {
			p.file = f
		}
		for _, d := range f.Decls {
			if fd, ok := d.(*ast.FuncDecl); ok && fd.Recv == nil {
				p.funcs[fd.Name.Name] = fd
			}
		}
	}
	if p.file == nil {
		return nil, fmt.Errorf("%s not found in package main", path)
	}
	for _, im := range p.file.Imports {
		ip, _ := strconv.Unquote(im.Path.Value)
		name := ip[strings.LastIndex(ip, "/")+1:]
		if im.Name != nil {
			name = im.Name.Name
		}
		p.imports[name] = ip
	}
	if p.funcs["main"] == nil {
		return nil, fmt.Errorf("func main not found")
	}
	progCache[path] = p
	return p, nil
}

const qryn = "github.com/metrico/qryn/"

// pkgFuncs: what a package-qualified identifier in main() may resolve to.
func pkgFuncs() map[string]any {
	return map[string]any{
		"github.com/gorilla/mux.NewRouter":                        mux.NewRouter,
		qryn + "reader/utils/middleware.BasicAuthMiddleware":      middleware.BasicAuthMiddleware,
		qryn + "reader/utils/middleware.AcceptEncodingMiddleware": middleware.AcceptEncodingMiddleware,
		qryn + "reader/utils/middleware.CorsMiddleware":           middleware.CorsMiddleware,
		qryn + "reader/utils/middleware.LoggingMiddleware":        middleware.LoggingMiddleware,
		qryn + "shared/commonroutes.RegisterCommonRoutes":         commonroutes.RegisterCommonRoutes,
		qryn + "shared/commonroutes.Ready":                        commonroutes.Ready,
		qryn + "shared/commonroutes.Config":                       commonroutes.Config,
		qryn + "shared/commonroutes.BuildInfo":                    commonroutes.BuildInfo,
		qryn + "writer.Init":                                      writerInit, // real writer.Init + observable back end
		qryn + "reader.Init":                                      readerInit, // real reader.Init + quiet watchdog
		qryn + "view.Init":                                        view.Init,
		"fmt.Sprintf":                                             fmt.Sprintf,
		"fmt.Sprint":                                              fmt.Sprint,
		"strings.TrimSpace":                                       strings.TrimSpace,
		"strings.ToLower":                                         strings.ToLower,
		"strings.TrimSuffix":                                      strings.TrimSuffix,
		"strings.TrimPrefix":                                      strings.TrimPrefix,
		"os.Getenv":                                               func(string) string { return "" },
		"net/http.MethodGet":                                      http.MethodGet,
		"net/http.MethodPost":                                     http.MethodPost,
		"net/http.MethodPut":                                      http.MethodPut,
		"net/http.MethodDelete":                                   http.MethodDelete,
		"net/http.MethodOptions":                                  http.MethodOptions,
		"net/http.MethodHead":                                     http.MethodHead,
		"net/http.MethodPatch":                                    http.MethodPatch,
		"net/http.NotFoundHandler":                                http.NotFoundHandler,
		"net/http.StatusOK":                                       http.StatusOK,
		"net/http.StatusNoContent":                                http.StatusNoContent,
	}
}

type unsupported struct{ msg string }

func (u unsupported) Error() string { return u.msg }

type stopWindow struct{}

type interp struct {
	p      *mainProgram
	funcs  map[string]any
	trace  []string
	router *mux.Router // the first router created in the window
	served *mux.Router
	depth  int
	litOK  int // > 0 while the arguments of a route registration are evaluated
}

func (in *interp) pos(n ast.Node) string {
	ps := in.p.fset.Position(n.Pos())
	return fmt.Sprintf("%s:%d", ps.Filename[strings.LastIndex(ps.Filename, "/")+1:], ps.Line)
}

func (in *interp) fail(n ast.Node, format string, a ...any) {
	panic(unsupported{in.pos(n) + ": " + fmt.Sprintf(format, a...)})
}

func exprString(fset *token.FileSet, e ast.Node) string {
	switch x := e.(type) {
	case *ast.Ident:
		return x.Name
	case *ast.SelectorExpr:
		return exprString(fset, x.X) + "." + x.Sel.Name
	case *ast.CallExpr:
		var as []string
		for _, a := range x.Args {
			as = append(as, exprString(fset, a))
		}
		return exprString(fset, x.Fun) + "(" + strings.Join(as, ", ") + ")"
	case *ast.BasicLit:
		return x.Value
	case *ast.FuncLit:
		return "func{…}"
	case *ast.BinaryExpr:
		return exprString(fset, x.X) + " " + x.Op.String() + " " + exprString(fset, x.Y)
	case *ast.UnaryExpr:
		return x.Op.String() + exprString(fset, x.X)
	case *ast.ParenExpr:
		return "(" + exprString(fset, x.X) + ")"
	case *ast.StarExpr:
		return "*" + exprString(fset, x.X)
	}
	return fmt.Sprintf("%T", e)
}

// run interprets main()'s assembly window with cfg bound to main's configuration variable.
func (p *mainProgram) run(cfg *clconfig.ClokiConfig) (r *mux.Router, trace []string, err error) {
	in := &interp{p: p, funcs: pkgFuncs()}
	defer func() {
		trace = in.trace
		if e := recover(); e != nil {
			if u, ok := e.(unsupported); ok {
				err = fmt.Errorf("main.go is outside the interpreter's statement language: %s", u.msg)
				return
			}
			panic(e)
		}
	}()
	body := p.funcs["main"].Body.List
	env := map[string]reflect.Value{}
	// the configuration variable: `X := clconfig.New(...)`
	cfgName := ""
	start := -1
	for i, st := range body {
		as, ok := st.(*ast.AssignStmt)
		if !ok || len(as.Lhs) != 1 || len(as.Rhs) != 1 {
			continue
		}
		call, ok := as.Rhs[0].(*ast.CallExpr)
		if !ok {
			continue
		}
		id, _ := as.Lhs[0].(*ast.Ident)
		switch in.qualified(call.Fun) {
		case "github.com/metrico/cloki-config.New":
			if id != nil {
				cfgName = id.Name
			}
		case "github.com/gorilla/mux.NewRouter":
			if start < 0 {
				start = i
			}
		}
	}
	if cfgName == "" {
		in.fail(p.funcs["main"], "no `cfg := clconfig.New(...)` in main()")
	}
	if start < 0 {
		in.fail(p.funcs["main"], "no `app := mux.NewRouter()` in main()")
	}
	env[cfgName] = reflect.ValueOf(cfg)
	in.execBlock(body[start:], env)
	if in.router == nil {
		in.fail(p.funcs["main"], "no router was created")
	}
	if in.served == nil {
		in.fail(p.funcs["main"], "main() never serves the router (no call reaching http.Serve with it)")
	}
	if in.served != in.router {
		// main serves a different router than the one the window decorates: the harness
		// must test what is served
		in.trace = append(in.trace, "NOTE: served router differs from the first router created")
	}
	return in.served, in.trace, nil
}

func (in *interp) qualified(fun ast.Expr) string {
	sel, ok := fun.(*ast.SelectorExpr)
	if !ok {
		return ""
	}
	id, ok := sel.X.(*ast.Ident)
	if !ok {
		return ""
	}
	if ip, ok := in.p.imports[id.Name]; ok && id.Obj == nil {
		return ip + "." + sel.Sel.Name
	}
	return ""
}

// execBlock returns true when the window ended (serve call or return).
func (in *interp) execBlock(list []ast.Stmt, env map[string]reflect.Value) (stop bool) {
	for _, st := range list {
		stop, u := in.tryExec(st, env)
		if u != nil {
			if in.skippable(st, env) {
				in.trace = append(in.trace, in.pos(st)+" [skipped: "+u.msg+"; touches neither the router nor the configuration]")
				continue
			}
			panic(*u)
		}
		if stop {
			return true
		}
	}
	return false
}

func (in *interp) tryExec(st ast.Stmt, env map[string]reflect.Value) (stop bool, u *unsupported) {
	defer func() {
		if r := recover(); r != nil {
			if uu, ok := r.(unsupported); ok {
				u = &uu
				return
			}
			panic(r)
		}
	}()
	return in.exec(st, env), nil
}

// skippable: a statement the interpreter cannot execute may be left out only if it cannot
// influence the assembly: it names no router, and the configuration object appears only as
// the root of a field path that is read (not assigned, not a method receiver, not passed
// whole, not address-taken).
func (in *interp) skippable(st ast.Stmt, env map[string]reflect.Value) bool {
	ok := true
	isCfg := func(e ast.Expr) bool {
		id, is := e.(*ast.Ident)
		if !is {
			return false
		}
		v, has := env[id.Name]
		return has && v.IsValid() && v.Type() == reflect.TypeOf((*clconfig.ClokiConfig)(nil))
	}
	var rootIsCfg func(e ast.Expr) bool
	rootIsCfg = func(e ast.Expr) bool {
		switch x := e.(type) {
		case *ast.SelectorExpr:
			return rootIsCfg(x.X)
		case *ast.ParenExpr:
			return rootIsCfg(x.X)
		case *ast.StarExpr:
			return rootIsCfg(x.X)
		}
		return isCfg(e)
	}
	selRoots := map[*ast.Ident]bool{} // cfg identifiers that are roots of a read field path
	ast.Inspect(st, func(n ast.Node) bool {
		switch x := n.(type) {
		case *ast.AssignStmt:
			for _, l := range x.Lhs {
				if rootIsCfg(l) {
					ok = false
				}
			}
		case *ast.IncDecStmt:
			if rootIsCfg(x.X) {
				ok = false
			}
		case *ast.UnaryExpr:
			if x.Op == token.AND && rootIsCfg(x.X) {
				ok = false
			}
		case *ast.CallExpr:
			if rootIsCfg(x.Fun) {
				ok = false // method call on (part of) the configuration
			}
		case *ast.ReturnStmt, *ast.GoStmt, *ast.DeferStmt:
			ok = false
		case *ast.SelectorExpr:
			e := ast.Expr(x)
			for {
				if s, is := e.(*ast.SelectorExpr); is {
					e = s.X
					continue
				}
				break
			}
			if id, is := e.(*ast.Ident); is && isCfg(id) {
				selRoots[id] = true
			}
		case *ast.Ident:
			if v, has := env[x.Name]; has && v.IsValid() && v.Type() == routerType {
				ok = false
			}
		}
		return true
	})
	ast.Inspect(st, func(n ast.Node) bool {
		if id, is := n.(*ast.Ident); is && isCfg(id) && !selRoots[id] {
			ok = false // the configuration object passed whole
		}
		return true
	})
	return ok
}

func (in *interp) exec(st ast.Stmt, env map[string]reflect.Value) bool {
	switch s := st.(type) {
	case *ast.ExprStmt:
		call, ok := s.X.(*ast.CallExpr)
		if !ok {
			in.fail(s, "expression statement %s", exprString(in.p.fset, s.X))
		}
		_, stop := in.call(call, env)
		return stop
	case *ast.AssignStmt:
		if len(s.Lhs) != 1 || len(s.Rhs) != 1 {
			in.fail(s, "multi-value assignment")
		}
		v := in.eval(s.Rhs[0], env)
		switch s.Tok {
		case token.DEFINE:
			id, ok := s.Lhs[0].(*ast.Ident)
			if !ok {
				in.fail(s, "define of a non-identifier")
			}
			if !v.IsValid() {
				in.fail(s, "define from an untyped nil / void call")
			}
			nv := reflect.New(v.Type()).Elem()
			nv.Set(v)
			env[id.Name] = nv
		case token.ASSIGN:
			if id, ok := s.Lhs[0].(*ast.Ident); ok && id.Name == "_" {
				return false
			}
			dst := in.eval(s.Lhs[0], env)
			if !dst.CanSet() {
				in.fail(s, "assignment target %s is not settable", exprString(in.p.fset, s.Lhs[0]))
			}
			dst.Set(in.convert(s, v, dst.Type()))
		default:
			in.fail(s, "assignment operator %s", s.Tok)
		}
		return false
	case *ast.IfStmt:
		sub := env
		if s.Init != nil {
			sub = copyEnv(env)
			if in.exec(s.Init, sub) {
				return true
			}
		}
		c := in.eval(s.Cond, sub)
		if c.Kind() != reflect.Bool {
			in.fail(s, "non-boolean condition")
		}
		if c.Bool() {
			return in.execBlock(s.Body.List, copyEnvShared(sub))
		}
		if s.Else != nil {
			return in.exec(s.Else, copyEnvShared(sub))
		}
		return false
	case *ast.BlockStmt:
		return in.execBlock(s.List, copyEnvShared(env))
	case *ast.ReturnStmt:
		return true
	case *ast.DeclStmt, *ast.EmptyStmt:
		if _, ok := s.(*ast.EmptyStmt); ok {
			return false
		}
	}
	in.fail(st, "statement %T", st)
	return false
}

func copyEnv(env map[string]reflect.Value) map[string]reflect.Value {
	out := make(map[string]reflect.Value, len(env))
	for k, v := range env {
		out[k] = v
	}
	return out
}

// variables are addressable reflect.Values, so an inner scope that copies the map still
// assigns to the outer variables; only new definitions stay local.
func copyEnvShared(env map[string]reflect.Value) map[string]reflect.Value { return copyEnv(env) }

func (in *interp) convert(n ast.Node, v reflect.Value, t reflect.Type) reflect.Value {
	if !v.IsValid() {
		switch t.Kind() {
		case reflect.Ptr, reflect.Interface, reflect.Map, reflect.Slice, reflect.Func, reflect.Chan:
			return reflect.Zero(t)
		}
		in.fail(n, "nil for %s", t)
	}
	if v.Type().AssignableTo(t) {
		return v
	}
	if v.Type().ConvertibleTo(t) && v.Kind() == t.Kind() {
		return v.Convert(t)
	}
	if t.Kind() == reflect.Interface && v.Type().Implements(t) {
		return v
	}
	// untyped integer constant to another numeric kind
	if v.Kind() == reflect.Int && v.Type().ConvertibleTo(t) && t.Kind() >= reflect.Int && t.Kind() <= reflect.Float64 {
		return v.Convert(t)
	}
	// a plain function where an http.Handler is wanted never compiles; but a function
	// with the handler signature where http.HandlerFunc is wanted does
	in.fail(n, "cannot use %s as %s", v.Type(), t)
	return reflect.Value{}
}

var (
	handlerFuncType = reflect.TypeOf(http.HandlerFunc(nil))
	routerType      = reflect.TypeOf((*mux.Router)(nil))
)

func (in *interp) eval(e ast.Expr, env map[string]reflect.Value) reflect.Value {
	switch x := e.(type) {
	case *ast.ParenExpr:
		return in.eval(x.X, env)
	case *ast.BasicLit:
		switch x.Kind {
		case token.STRING:
			s, err := strconv.Unquote(x.Value)
			if err != nil {
				in.fail(x, "string literal")
			}
			return reflect.ValueOf(s)
		case token.INT:
			n, err := strconv.ParseInt(x.Value, 0, 64)
			if err != nil {
				in.fail(x, "int literal")
			}
			return reflect.ValueOf(int(n))
		}
		in.fail(x, "literal %s", x.Value)
	case *ast.Ident:
		switch x.Name {
		case "true":
			return reflect.ValueOf(true)
		case "false":
			return reflect.ValueOf(false)
		case "nil":
			return reflect.Value{}
		}
		if v, ok := env[x.Name]; ok {
			return v
		}
		in.fail(x, "identifier %s", x.Name)
	case *ast.SelectorExpr:
		if q := in.qualified(x); q != "" {
			f, ok := in.funcs[q]
			if !ok {
				in.fail(x, "package member %s is not in the interpreter's table", q)
			}
			return reflect.ValueOf(f)
		}
		recv := in.eval(x.X, env)
		if !recv.IsValid() {
			in.fail(x, "selector on nil")
		}
		if m := recv.MethodByName(x.Sel.Name); m.IsValid() {
			return m
		}
		if recv.CanAddr() {
			if m := recv.Addr().MethodByName(x.Sel.Name); m.IsValid() {
				return m
			}
		}
		v := recv
		for v.Kind() == reflect.Ptr || v.Kind() == reflect.Interface {
			if v.IsNil() {
				in.fail(x, "nil dereference in %s", exprString(in.p.fset, x))
			}
			v = v.Elem()
		}
		if v.Kind() == reflect.Struct {
			if f := v.FieldByName(x.Sel.Name); f.IsValid() {
				return f
			}
		}
		in.fail(x, "no field or method %s", x.Sel.Name)
	case *ast.CallExpr:
		v, _ := in.call(x, env)
		return v
	case *ast.UnaryExpr:
		if x.Op == token.NOT {
			v := in.eval(x.X, env)
			if v.Kind() != reflect.Bool {
				in.fail(x, "! of non-bool")
			}
			return reflect.ValueOf(!v.Bool())
		}
		in.fail(x, "unary %s", x.Op)
	case *ast.BinaryExpr:
		switch x.Op {
		case token.LAND, token.LOR:
			l := in.eval(x.X, env)
			if l.Kind() != reflect.Bool {
				in.fail(x, "non-bool operand")
			}
			if (x.Op == token.LAND && !l.Bool()) || (x.Op == token.LOR && l.Bool()) {
				return reflect.ValueOf(l.Bool())
			}
			r := in.eval(x.Y, env)
			if r.Kind() != reflect.Bool {
				in.fail(x, "non-bool operand")
			}
			return reflect.ValueOf(r.Bool())
		case token.EQL, token.NEQ:
			l, r := in.eval(x.X, env), in.eval(x.Y, env)
			eq := false
			switch {
			case !l.IsValid() || !r.IsValid():
				o := l
				if !o.IsValid() {
					o = r
				}
				eq = !o.IsValid() || ((o.Kind() == reflect.Ptr || o.Kind() == reflect.Interface ||
					o.Kind() == reflect.Map || o.Kind() == reflect.Slice || o.Kind() == reflect.Func) && o.IsNil())
			case l.Kind() == reflect.String && r.Kind() == reflect.String:
				eq = l.String() == r.String()
			case l.Kind() == reflect.Bool && r.Kind() == reflect.Bool:
				eq = l.Bool() == r.Bool()
			case l.CanInt() && r.CanInt():
				eq = l.Int() == r.Int()
			case l.CanUint() && r.CanInt():
				eq = r.Int() >= 0 && l.Uint() == uint64(r.Int())
			case l.CanInt() && r.CanUint():
				eq = l.Int() >= 0 && r.Uint() == uint64(l.Int())
			case l.CanUint() && r.CanUint():
				eq = l.Uint() == r.Uint()
			default:
				in.fail(x, "comparison of %s and %s", l.Type(), r.Type())
			}
			return reflect.ValueOf(eq == (x.Op == token.EQL))
		}
		in.fail(x, "binary %s", x.Op)
	case *ast.FuncLit:
		// only the handler signature; the body is not interpreted: reaching it is recorded
		// ... and only where it is registered as the handler of a route (a route handler
		// must sit behind the authentication whatever it does). A literal used as
		// NotFoundHandler, as a middleware, ... may be perfectly harmless or not - that
		// depends on its body, which is not interpreted: INCONCLUSIVE.
		if in.litOK == 0 {
			in.fail(x, "function literal outside a route registration (its body is not interpreted)")
		}
		ft := x.Type
		if ft.Results == nil && ft.Params != nil && len(ft.Params.List) == 2 {
			where := in.pos(x)
			return reflect.ValueOf(func(w http.ResponseWriter, r *http.Request) {
				backend.add("handler literal at " + where + " ran")
				_, _ = w.Write([]byte("C20-MARKER-HANDLER " + where))
			})
		}
		in.fail(x, "function literal that is not a handler")
	}
	in.fail(e, "expression %T", e)
	return reflect.Value{}
}

// call evaluates a call; stop is true when it was the serve call that ends the window.
func (in *interp) call(c *ast.CallExpr, env map[string]reflect.Value) (res reflect.Value, stop bool) {
	// package-main function?
	if id, ok := c.Fun.(*ast.Ident); ok {
		if _, isVar := env[id.Name]; !isVar {
			return in.callLocal(c, id, env)
		}
	}
	// conversion http.HandlerFunc(f)
	if in.qualified(c.Fun) == "net/http.HandlerFunc" && len(c.Args) == 1 {
		v := in.eval(c.Args[0], env)
		if !v.IsValid() || !v.Type().ConvertibleTo(handlerFuncType) {
			in.fail(c, "http.HandlerFunc(%s)", exprString(in.p.fset, c.Args[0]))
		}
		return v.Convert(handlerFuncType), false
	}
	if q := in.qualified(c.Fun); q == "net/http.Serve" || q == "net/http.ListenAndServe" || q == "net/http.ListenAndServeTLS" {
		h := in.eval(c.Args[1], env)
		in.noteServe(c, h)
		return reflect.Value{}, true
	}
	if q := in.qualified(c.Fun); q == "net/http.Handle" || q == "net/http.HandleFunc" {
		// registration on http.DefaultServeMux: not what http.Serve(listener, router) serves
		in.trace = append(in.trace, in.pos(c)+" "+exprString(in.p.fset, c)+" [DefaultServeMux, not served]")
		return reflect.Value{}, false
	}
	fn := in.eval(c.Fun, env)
	if !fn.IsValid() || fn.Kind() != reflect.Func {
		in.fail(c, "call of non-function %s", exprString(in.p.fset, c.Fun))
	}
	ft := fn.Type()
	if sel, ok := c.Fun.(*ast.SelectorExpr); ok && in.qualified(c.Fun) == "" {
		switch sel.Sel.Name {
		case "HandleFunc", "Handle", "Handler", "HandlerFunc":
			in.litOK++
			defer func() { in.litOK-- }()
		}
	}
	var args []reflect.Value
	for i, a := range c.Args {
		v := in.eval(a, env)
		var pt reflect.Type
		switch {
		case ft.IsVariadic() && i >= ft.NumIn()-1:
			pt = ft.In(ft.NumIn() - 1).Elem()
		case i < ft.NumIn():
			pt = ft.In(i)
		default:
			in.fail(c, "too many arguments")
		}
		args = append(args, in.convert(a, v, pt))
	}
	if len(args) < ft.NumIn()-1 || (!ft.IsVariadic() && len(args) != ft.NumIn()) {
		in.fail(c, "argument count")
	}
	in.trace = append(in.trace, in.pos(c)+" "+exprString(in.p.fset, c))
	out := fn.Call(args)
	if len(out) > 0 {
		res = out[0]
		if res.Type() == routerType && in.router == nil && in.qualified(c.Fun) == "github.com/gorilla/mux.NewRouter" {
			in.router = res.Interface().(*mux.Router)
		}
	}
	return res, false
}

func (in *interp) noteServe(c *ast.CallExpr, h reflect.Value) {
	in.trace = append(in.trace, in.pos(c)+" "+exprString(in.p.fset, c)+" [serve]")
	if h.IsValid() {
		for h.Kind() == reflect.Interface && !h.IsNil() {
			h = h.Elem()
		}
		if r, ok := h.Interface().(*mux.Router); ok {
			in.served = r
			return
		}
	}
	in.fail(c, "the served handler is not a *mux.Router (nil = DefaultServeMux, or a wrapper): cannot be walked")
}

// callLocal handles calls of functions declared in package main.
func (in *interp) callLocal(c *ast.CallExpr, id *ast.Ident, env map[string]reflect.Value) (reflect.Value, bool) {
	fd := in.p.funcs[id.Name]
	if fd == nil {
		in.fail(c, "call of %s (neither a variable nor a function of package main)", id.Name)
	}
	var args []reflect.Value
	takesRouter := false
	for _, a := range c.Args {
		v, ok := in.tryEval(a, env)
		if ok && v.IsValid() && v.Type() == routerType {
			takesRouter = true
		}
		args = append(args, v)
	}
	if !takesRouter {
		// e.g. initPyro(): does not see the router, cannot add routes to it
		in.trace = append(in.trace, in.pos(c)+" "+exprString(in.p.fset, c)+" [skipped: does not receive the router]")
		return reflect.Value{}, false
	}
	if in.depth > 4 {
		in.fail(c, "call depth")
	}
	sub := map[string]reflect.Value{}
	i := 0
	for _, f := range fd.Type.Params.List {
		for _, n := range f.Names {
			if i < len(args) && args[i].IsValid() {
				nv := reflect.New(args[i].Type()).Elem()
				nv.Set(args[i])
				sub[n.Name] = nv
			}
			i++
		}
	}
	in.trace = append(in.trace, in.pos(c)+" "+exprString(in.p.fset, c)+" [package main]")
	in.depth++
	defer func() { in.depth-- }()
	if containsServe(in, fd) {
		// interpret only far enough to find what is served: statements that are not the
		// serve call and do not touch the router are skipped (logger calls, net.Listen)
		return reflect.Value{}, in.execServeFunc(fd, sub)
	}
	return reflect.Value{}, in.execBlock(fd.Body.List, sub)
}

func (in *interp) tryEval(e ast.Expr, env map[string]reflect.Value) (v reflect.Value, ok bool) {
	defer func() {
		if r := recover(); r != nil {
			if _, is := r.(unsupported); is {
				ok = false
				return
			}
			panic(r)
		}
	}()
	return in.eval(e, env), true
}

func isServeName(q string) bool {
	return q == "net/http.Serve" || q == "net/http.ListenAndServe" || q == "net/http.ListenAndServeTLS" || q == "net/http.ServeTLS"
}

func containsServe(in *interp, fd *ast.FuncDecl) bool {
	found := false
	ast.Inspect(fd.Body, func(n ast.Node) bool {
		if c, ok := n.(*ast.CallExpr); ok && isServeName(in.qualified(c.Fun)) {
			found = true
		}
		return true
	})
	return found
}

// execServeFunc walks the serving function (httpStart) looking for the http.Serve call and
// for anything done to the router before it.
func (in *interp) execServeFunc(fd *ast.FuncDecl, env map[string]reflect.Value) bool {
	done := false
	var visit func(list []ast.Stmt)
	visit = func(list []ast.Stmt) {
		for _, st := range list {
			if done {
				return
			}
			var serve *ast.CallExpr
			mentionsRouter := false
			ast.Inspect(st, func(n ast.Node) bool {
				switch x := n.(type) {
				case *ast.CallExpr:
					if isServeName(in.qualified(x.Fun)) && serve == nil {
						serve = x
					}
				case *ast.Ident:
					if v, ok := env[x.Name]; ok && v.IsValid() && v.Type() == routerType {
						mentionsRouter = true
					}
				}
				return true
			})
			switch {
			case serve != nil:
				idx := 1
				if q := in.qualified(serve.Fun); q == "net/http.ServeTLS" {
					idx = 1
				}
				if len(serve.Args) <= idx {
					in.fail(serve, "serve call shape")
				}
				in.noteServe(serve, in.eval(serve.Args[idx], env))
				done = true
			case mentionsRouter:
				if es, ok := st.(*ast.ExprStmt); ok {
					if c, ok := es.X.(*ast.CallExpr); ok {
						q := in.qualified(c.Fun)
						if q == "net/http.Handle" || q == "net/http.HandleFunc" {
							in.trace = append(in.trace, in.pos(c)+" "+exprString(in.p.fset, c)+" [DefaultServeMux, not served]")
							continue
						}
					}
				}
				in.exec(st, env)
			default:
				// listener set-up, logging: irrelevant to routing
			}
		}
	}
	visit(fd.Body.List)
	return done
}

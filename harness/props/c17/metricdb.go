package c17

// metricdb.go: a small database of metric series as the writer stores them, its layout in
// chsim tables, a chsim-backed fakesql handler, and the generators shared by the selection
// (a), assembly (b) and end-to-end (d) sub-checks.
//
// Layout (writer/utils/unmarshal/metricsProtobuf.go + builder.go onEntries, ctrl/qryn/sql/log.sql):
//   samples_v3(fingerprint UInt64, timestamp_ns Int64 = ms*1e6, value Float64, string '', type 2)
//   time_series(date = UTC day of the sample, fingerprint, labels JSON object, name '', type)
//   time_series_gin(date, key, val, fingerprint, type)     -- one row per label pair (MV rule)
// One time_series row (and its gin rows) per UTC day on which the series has a sample.

import (
	"context"
	"database/sql/driver"
	"encoding/json"
	"errors"
	"fmt"
	"sort"
	"strings"
	"sync"
	"time"

	"github.com/prometheus/prometheus/model/labels"
	"pgregory.net/rapid"

	"qrynverif/chsim"
	"qrynverif/fakesql"
)

// baseMs is 2023-11-14 12:00:00 UTC: a multiple of 15 s (the query_range controller floors
// start to 15 s: promQueryRangeController.go:51) and 12 h away from any UTC day boundary, so
// the date predicates of the generated SQL (C13's subject) never decide a case here.
const baseMs int64 = 1_699_963_200_000

const dayMs int64 = 86_400_000

type mSeries struct {
	Fp     uint64      `json:"fp"`
	Labels [][2]string `json:"labels"` // document order as stored; names distinct, values non-empty
	Ts     []int64     `json:"ts"`     // ms relative to baseMs, strictly ascending
	Vals   []float64   `json:"vals"`
	// Kind: 2 metric (default, stored as 0 in the case), 1 = a log stream with the same label
	// vocabulary (type 1 rows): never part of a metric selection.
	Log bool `json:"log,omitempty"`
}

type mDB struct {
	Series []mSeries `json:"series"`
}

func (s *mSeries) get(name string) (string, bool) {
	for _, l := range s.Labels {
		if l[0] == name {
			return l[1], true
		}
	}
	return "", false
}

func (s *mSeries) promLabels() labels.Labels {
	ls := make(labels.Labels, 0, len(s.Labels))
	for _, l := range s.Labels {
		ls = append(ls, labels.Label{Name: l[0], Value: l[1]})
	}
	sort.Sort(ls)
	return ls
}

func (s *mSeries) labelsJSON() string {
	var sb strings.Builder
	sb.WriteByte('{')
	for i, l := range s.Labels {
		if i > 0 {
			sb.WriteByte(',')
		}
		k, _ := json.Marshal(l[0])
		v, _ := json.Marshal(l[1])
		sb.Write(k)
		sb.WriteByte(':')
		sb.Write(v)
	}
	sb.WriteByte('}')
	return sb.String()
}

func (s *mSeries) kind() uint8 {
	if s.Log {
		return 1
	}
	return 2
}

// buildCH lays the database out in chsim tables.
func (db *mDB) buildCH() *chsim.DB {
	var samples, series, gin [][]any
	for i := range db.Series {
		s := &db.Series[i]
		days := map[int64]bool{}
		add := func(tsMs int64, v float64) {
			str := ""
			if s.Log {
				str = "line"
			}
			samples = append(samples, []any{s.Fp, tsMs * 1_000_000, v, str, s.kind()})
			days[tsMs/dayMs] = true
		}
		for k, t := range s.Ts {
			add(baseMs+t, s.Vals[k])
		}
		var ds []int64
		for d := range days {
			ds = append(ds, d)
		}
		sort.Slice(ds, func(a, b int) bool { return ds[a] < ds[b] })
		doc := s.labelsJSON()
		for _, d := range ds {
			series = append(series, []any{chsim.Date(d), s.Fp, doc, "", s.kind()})
			for _, l := range s.Labels {
				gin = append(gin, []any{chsim.Date(d), l[0], l[1], s.Fp, s.kind()})
			}
		}
	}
	// Physical row order is not the query's business: interleave the series (by descending
	// timestamp) so that grouping rows into series depends on the statement's ORDER BY.
	sort.SliceStable(samples, func(a, b int) bool { return samples[a][1].(int64) > samples[b][1].(int64) })
	c := chsim.NewDB()
	c.AddTable("samples_v3", []string{"fingerprint", "timestamp_ns", "value", "string", "type"}, samples)
	c.AddTable("time_series", []string{"date", "fingerprint", "labels", "name", "type"}, series)
	c.AddTable("time_series_gin", []string{"date", "key", "val", "fingerprint", "type"}, gin)
	// metrics_15s: materialized view metrics_15s_mv of ctrl/qryn/sql/log.sql - GROUP BY fingerprint,
	// intDiv(timestamp_ns, 15e9) * 15e9, type (one insert block; state columns in chsim's
	// representation: count = partial count, last = Tuple{value, timestamp_ns} of argMaxState).
	// It is there so that a Select sent to the roll-up table by mistake yields other numbers
	// (bucket-start timestamps, one value per 15 s) instead of an unknown-table error.
	c.AddTable("metrics_15s", []string{"fingerprint", "timestamp_ns", "last", "max", "min", "count", "sum", "bytes", "type", "type_v2"}, rollup15s(samples))
	c.Alias("metrics_15s_dist", "metrics_15s")
	c.Alias("samples_v3_dist", "samples_v3")
	c.Alias("time_series_dist", "time_series")
	c.Alias("time_series_gin_dist", "time_series_gin")
	return c
}

func rollup15s(samples [][]any) [][]any {
	type key struct {
		fp     uint64
		bucket int64
		tp     uint8
	}
	type agg struct {
		lastV, max, min, sum, bytes float64
		lastT                       int64
		count                       uint64
	}
	aggs := map[key]*agg{}
	var order []key
	for _, r := range samples {
		fp, ts, v, str, tp := r[0].(uint64), r[1].(int64), r[2].(float64), r[3].(string), r[4].(uint8)
		k := key{fp, ts / 15_000_000_000 * 15_000_000_000, tp}
		a := aggs[k]
		if a == nil {
			a = &agg{lastV: v, lastT: ts, max: v, min: v}
			aggs[k] = a
			order = append(order, k)
		}
		if ts > a.lastT {
			a.lastT, a.lastV = ts, v
		}
		if v > a.max {
			a.max = v
		}
		if v < a.min {
			a.min = v
		}
		a.sum += v
		a.bytes += float64(len(str))
		a.count++
	}
	var out [][]any
	for _, k := range order {
		a := aggs[k]
		out = append(out, []any{k.fp, k.bucket, chsim.Tuple{a.lastV, a.lastT}, a.max, a.min, a.count, a.sum, a.bytes, k.tp, k.tp})
	}
	return out
}

// ---- chsim-backed handler ---------------------------------------------------------------

type stmtRec struct {
	SQL string
	Err error
}

// backend answers every statement with chsim (the two dbVersion statements by script).
type backend struct {
	mu    sync.Mutex
	db    *chsim.DB
	stmts []stmtRec
}

func nativeCell(v any) any {
	n := chsim.Native(v)
	// Array(Tuple(String,String)) arrives from clickhouse-go as [][]interface{}
	// (labelsGetter.Fetch scans into that type): rebuild the static type.
	if arr, ok := n.([]any); ok {
		all := true
		out := make([][]any, len(arr))
		for i, e := range arr {
			in, ok := e.([]any)
			if !ok {
				all = false
				break
			}
			out[i] = in
		}
		if all {
			return out
		}
	}
	return n
}

func (b *backend) handle(ctx context.Context, q string, args []driver.NamedValue) (*fakesql.Result, error) {
	if fakesql.IsVersionQuery(q) {
		return fakesql.AnswerVersion(q), nil
	}
	res, err := b.db.Query(q)
	b.mu.Lock()
	b.stmts = append(b.stmts, stmtRec{SQL: q, Err: err})
	b.mu.Unlock()
	if err != nil {
		return nil, err
	}
	out := &fakesql.Result{Cols: res.Cols, FailAfter: -1}
	for _, r := range res.Rows {
		row := make([]any, len(r))
		for i, c := range r {
			row[i] = nativeCell(c)
		}
		out.Rows = append(out.Rows, row)
	}
	return out, nil
}

// firstErr returns the first statement chsim could not run: unsupported (discard) or
// rejected (ClickHouse would fail the statement).
func (b *backend) firstErr() (unsupported bool, rec *stmtRec) {
	b.mu.Lock()
	defer b.mu.Unlock()
	for i := range b.stmts {
		if b.stmts[i].Err != nil {
			return errors.Is(b.stmts[i].Err, chsim.ErrUnsupported), &b.stmts[i]
		}
	}
	return false, nil
}

func (b *backend) sqlLog() []string {
	b.mu.Lock()
	defer b.mu.Unlock()
	out := make([]string, len(b.stmts))
	for i, s := range b.stmts {
		out[i] = s.SQL
	}
	return out
}

// resetGlobals: qryn's read side formats dates in time.Local (C13's subject); pin it.
func resetGlobals() { time.Local = time.UTC }

// ---- matchers -------------------------------------------------------------------------------

type mMatcher struct {
	Name string `json:"name"`
	Op   string `json:"op"` // = != =~ !~
	Val  string `json:"val"`
}

func (m mMatcher) String() string { return fmt.Sprintf("%s%s%q", m.Name, m.Op, m.Val) }

func (m mMatcher) prom() (*labels.Matcher, error) {
	var t labels.MatchType
	switch m.Op {
	case "=":
		t = labels.MatchEqual
	case "!=":
		t = labels.MatchNotEqual
	case "=~":
		t = labels.MatchRegexp
	case "!~":
		t = labels.MatchNotRegexp
	default:
		return nil, fmt.Errorf("bad op %q", m.Op)
	}
	return labels.NewMatcher(t, m.Name, m.Val)
}

func promMatchers(ms []mMatcher) ([]*labels.Matcher, error) {
	out := make([]*labels.Matcher, len(ms))
	for i, m := range ms {
		pm, err := m.prom()
		if err != nil {
			return nil, err
		}
		out[i] = pm
	}
	return out, nil
}

// verdict of the direct evaluation for one stored series.
type verdict int

const (
	vReject verdict = iota
	vSelect
	vDontCare
)

// directSelect is the oracle of the selection: Prometheus' own labels.Matcher.Matches
// (fully anchored regular expressions, a missing label is the empty string) applied to the
// stored label set.
//
// Don't-care (DESIGN section 5): a matcher that accepts the empty string applied to a series
// that lacks the label. Prometheus selects such a series; qryn's label index has no row for
// an absent label, so no planner of qryn (LogQL, PromQL, Pyroscope) selects it; consistent
// convention of the code base, not decided here.
func directSelect(s *mSeries, pms []*labels.Matcher) verdict {
	if s.Log {
		return vReject
	}
	dontCare := false
	for _, m := range pms {
		v, has := s.get(m.Name)
		if !has {
			if m.Matches("") {
				dontCare = true
				continue
			}
			return vReject
		}
		if !m.Matches(v) {
			return vReject
		}
	}
	if dontCare {
		return vDontCare
	}
	return vSelect
}

// ---- generators -----------------------------------------------------------------------------

// Vocabulary: few names and values so that matchers hit; values related by prefix /
// substring / regex metacharacters (anchoring, '.' vs literal), values that need SQL
// escaping (quote, backslash), non-ASCII.
var (
	metricNames = []string{"up", "http_requests_total", "http_requests", "cpu", "cpu_seconds"}
	labelNames  = []string{"job", "instance", "env", "le", "a_b", "path"}
	labelVals   = []string{"api", "api-server", "apiserver", "prod", "pro", "a.b", "aXb", "1", "10", "it's", `a\b`, `q"q`, "ü", "x y", "+Inf", "0.5"}
	// per-name pools (small, so that series share values and selections are neither empty nor total)
	labelVocab = map[string][]string{
		"job":      {"api", "api-server", "apiserver", "prod", "api_server", "API", "a%i"},
		"instance": {"1", "10", "a.b", "aXb"},
		"env":      {"prod", "pro", "it's", "pr_d", "Prod", "p.od"},
		"le":       {"+Inf", "0.5", "1", "10"},
		"a_b":      {`a\b`, `q"q`, "ü", "a.b"},
		"path":     {"x y", "api", "a.b", "/api/%", "/api/v1", "a+b", "a|b"},
	}
)

func valsOf(name string) []string {
	if name == "__name__" {
		return metricNames
	}
	if v, ok := labelVocab[name]; ok {
		return v
	}
	return labelVals
}

// rapid's integer generators favour small and boundary values, which would make the first
// pool element and the rare branches dominate. spread maps the drawn value through a
// multiplicative hash (0 stays 0, so cases still shrink towards the first element / the
// "false" branch) to get a near-uniform choice. (Same helper as props/c14.)
func spread(rt *rapid.T, label string) uint64 {
	x := rapid.Uint64().Draw(rt, label)
	return (x * 0x9E3779B97F4A7C15) >> 24
}

func pick[T any](rt *rapid.T, xs []T, label string) T {
	return xs[int(spread(rt, label)%uint64(len(xs)))]
}

// uniform integer in [lo, hi]
func between(rt *rapid.T, lo, hi int, label string) int {
	return lo + int(spread(rt, label)%uint64(hi-lo+1))
}

func chance(rt *rapid.T, pct int, label string) bool {
	return int(spread(rt, label)%100) >= 100-pct
}

// genSeriesLabels draws distinct label sets; fingerprints are a function of the label set
// (C04) and distinct: drawn, then de-duplicated.
func genMDB(rt *rapid.T, maxSeries int, genSamples func(rt *rapid.T, i int) ([]int64, []float64)) mDB {
	n := rapid.IntRange(2, maxSeries).Draw(rt, "nseries")
	db := mDB{}
	seen := map[string]bool{}
	fps := map[uint64]bool{}
	for i := 0; i < n; i++ {
		var ls [][2]string
		if len(db.Series) > 0 && chance(rt, 55, "mutant") {
			// near-collision: a copy of an earlier series in which one label value is replaced
			// by a neighbour under pattern semantics (neighbours.go), or one label is dropped
			parent := &db.Series[between(rt, 0, len(db.Series)-1, "parent")]
			ls = append(ls, parent.Labels...)
			k := between(rt, 0, len(ls)-1, "mutLabel")
			if len(ls) > 1 && chance(rt, 12, "dropLabel") {
				ls = append(ls[:k:k], ls[k+1:]...)
			} else {
				ls[k] = [2]string{ls[k][0], pick(rt, neighbours(ls[k][1]), "neighbour")}
			}
		} else {
			// almost every Prometheus series has a name; remote write does not enforce it
			if chance(rt, 92, "hasName") {
				ls = append(ls, [2]string{"__name__", pick(rt, metricNames, "metric")})
			}
			for _, ln := range labelNames {
				if chance(rt, 45, "hasLabel") {
					ls = append(ls, [2]string{ln, pick(rt, valsOf(ln), "val")})
				}
			}
			if len(ls) == 0 {
				ls = append(ls, [2]string{"job", pick(rt, labelVals, "val")})
			}
		}
		// stored document order is the order the client sent: any permutation
		if chance(rt, 30, "permute") && len(ls) > 1 {
			k := between(rt, 1, len(ls)-1, "rot")
			ls = append(append([][2]string{}, ls[k:]...), ls[:k]...)
		}
		s := mSeries{Labels: ls}
		key := s.promLabels().String()
		if seen[key] {
			continue
		}
		seen[key] = true
		// fingerprints: full 64-bit range, including values above MaxInt64
		fp := rapid.Uint64().Draw(rt, "fp")
		if chance(rt, 30, "smallFp") {
			fp %= 1000
		}
		for fps[fp] {
			fp++
		}
		fps[fp] = true
		s.Fp = fp
		s.Ts, s.Vals = genSamples(rt, i)
		if chance(rt, 10, "old") && len(s.Ts) > 0 {
			// one more sample exactly a day before the first: index rows on two days
			s.Ts = append([]int64{s.Ts[0] - dayMs}, s.Ts...)
			s.Vals = append([]float64{s.Vals[0]}, s.Vals...)
		}
		s.Log = chance(rt, 6, "log")
		db.Series = append(db.Series, s)
	}
	return db
}

// genMatchers draws 1..max matchers. Most are derived from a stored series so that the
// selection is not empty; the PromQL parser guarantees at least one matcher that does not
// accept the empty string (promql/parser/parse.go: "vector selector must contain at least one
// non-empty matcher"), the generator keeps that precondition.
func genMatchers(rt *rapid.T, db *mDB, max int) []mMatcher {
	n := rapid.IntRange(1, max).Draw(rt, "nmatchers")
	if max > 8 {
		n = between(rt, 9, max, "manyMatchers") // wider than the UInt8 HAVING bit mask used to be
	}
	var out []mMatcher
	// most matchers describe one "focus" series, so that their conjunction is satisfiable
	focus := between(rt, 0, len(db.Series)-1, "focus")
	for i := 0; i < n; i++ {
		out = append(out, genMatcher(rt, db, focus))
	}
	ok := false
	for _, m := range out {
		pm, err := m.prom()
		if err == nil && !pm.Matches("") {
			ok = true
		}
	}
	if !ok {
		s := &db.Series[rapid.IntRange(0, len(db.Series)-1).Draw(rt, "anchorSeries")]
		l := s.Labels[rapid.IntRange(0, len(s.Labels)-1).Draw(rt, "anchorLabel")]
		out = append(out, mMatcher{Name: l[0], Op: "=", Val: l[1]})
	}
	return out
}

func genMatcher(rt *rapid.T, db *mDB, focus int) mMatcher {
	var name, val string
	positive := true
	switch k := between(rt, 0, 99, "mSource"); {
	case k < 70:
		s := &db.Series[focus]
		l := pick(rt, s.Labels, "mLabel")
		name, val = l[0], l[1]
	case k < 92:
		// a label of another series: used negatively it keeps the focus series selected
		s := &db.Series[between(rt, 0, len(db.Series)-1, "mSeries")]
		cand := s.Labels
		if chance(rt, 80, "sharedName") {
			// prefer a name the focus series carries too (otherwise the focus is don't-care)
			var shared [][2]string
			for _, l := range s.Labels {
				if _, ok := db.Series[focus].get(l[0]); ok {
					shared = append(shared, l)
				}
			}
			if len(shared) > 0 {
				cand = shared
			}
		}
		l := pick(rt, cand, "mLabel")
		name, val = l[0], l[1]
		positive = chance(rt, 30, "positive")
		if fv, ok := db.Series[focus].get(name); ok && fv == val {
			positive = true
		}
	default:
		name = pick(rt, append([]string{"__name__", "missing"}, labelNames...), "mName")
		val = pick(rt, valsOf(name), "mVal")
		positive = chance(rt, 50, "positive")
	}
	other := pick(rt, valsOf(name), "otherVal")
	q := regexpQuote(val)
	shape := between(rt, 0, 13, "mShape")
	if positive && chance(rt, 95, "keepPositive") {
		shape = []int{0, 1, 2, 4, 5, 6, 7, 10, 11, 0, 5, 6, 4, 7}[shape]
	} else {
		shape = []int{3, 8, 9, 12, 3, 8, 9, 12, 13, 3, 8, 9, 12, 13}[shape]
	}
	switch shape {
	case 0, 1, 2:
		return mMatcher{name, "=", val}
	case 3:
		return mMatcher{name, "!=", val}
	case 4:
		return mMatcher{name, "=~", q} // exact; unanchored matching also accepts super-strings
	case 5:
		return mMatcher{name, "=~", q + "|" + regexpQuote(other)}
	case 6:
		return mMatcher{name, "=~", q + ".*"}
	case 7:
		return mMatcher{name, "=~", val} // metacharacters of the value taken as regex ('.', '+')
	case 8:
		return mMatcher{name, "!~", q}
	case 9:
		return mMatcher{name, "!~", q + "|" + regexpQuote(other)}
	case 10:
		return mMatcher{name, "=~", ".+"}
	case 11:
		if rs := []rune(val); len(rs) > 1 {
			return mMatcher{name, "=~", regexpQuote(string(rs[:len(rs)/2])) + ".+"}
		}
		return mMatcher{name, "=~", "[a-z]+"}
	case 12:
		return mMatcher{name, "!~", regexpQuote(other) + ".*"}
	default:
		return mMatcher{name, "!=", other}
	}
}

// regexpQuote is regexp.QuoteMeta restricted to valid UTF-8 input (the vocabulary).
func regexpQuote(s string) string {
	var sb strings.Builder
	for _, r := range s {
		if strings.ContainsRune(`\.+*?()|[]{}^$`, r) {
			sb.WriteByte('\\')
		}
		sb.WriteRune(r)
	}
	return sb.String()
}

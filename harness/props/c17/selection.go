package c17

// C17(a), metrics: the label-index query the PromQL storage adapter builds for a matcher set
// (reader/promql/transpiler/shared.go fingerprintsQuery, reached through
// transpiler.TranspileLabelMatchers exactly as CLokiQuerier.Select reaches it; the statement
// is the WITH fp_sel of the rendered query) is executed by chsim over a generated metric
// database; the fingerprints it returns must be exactly the stored series whose label sets
// satisfy every matcher, decided directly with Prometheus' labels.Matcher.

import (
	"errors"
	"fmt"
	"sort"
	"strings"
	"time"

	"github.com/metrico/qryn/reader/logql/logql_transpiler_v2/shared"
	"github.com/metrico/qryn/reader/promql/transpiler"
	sql "github.com/metrico/qryn/reader/utils/sql_select"
	"github.com/prometheus/prometheus/storage"
	"pgregory.net/rapid"

	"qrynverif/chsim"
	"qrynverif/evid"
)

type selCase struct {
	DB mDB        `json:"db"`
	Ms []mMatcher `json:"matchers"`
}

func genSel(rt *rapid.T) selCase {
	db := genMDB(rt, 12, func(rt *rapid.T, i int) ([]int64, []float64) {
		return []int64{int64(i) * 1000}, []float64{float64(i)}
	})
	max := 4
	if chance(rt, 2, "manyMatchers") {
		max = 11
	}
	return selCase{DB: db, Ms: genMatchers(rt, &db, max)}
}

// fpSelSQL renders the fingerprint selection statement of the raw path for the matchers.
func fpSelSQL(ms []mMatcher, fromMs, toMs int64) (string, error) {
	pms, err := promMatchers(ms)
	if err != nil {
		return "", err
	}
	// the planner context CLokiQuerier.transpileLabelMatchers builds (promQueryable.go:146),
	// table names as tables.PopulateTableNames gives them on a single node
	ctx := shared.PlannerContext{
		From: time.Unix(0, fromMs*1000000), To: time.Unix(0, toMs*1000000), Type: 2,
		SamplesTableName: "samples_v3", TimeSeriesGinTableName: "time_series_gin",
		TimeSeriesTableName: "time_series", TimeSeriesDistTableName: "time_series",
		Metrics15sTableName: "metrics_15s",
	}
	resp, err := transpiler.TranspileLabelMatchers(&storage.SelectHints{Start: fromMs, End: toMs}, &ctx, pms...)
	if err != nil {
		return "", err
	}
	for _, w := range resp.Query.GetWith() {
		if w.GetAlias() == "fp_sel" {
			return w.GetQuery().String(&sql.Ctx{Params: map[string]sql.SQLObject{}})
		}
	}
	return "", fmt.Errorf("rendered query has no fp_sel")
}

// tagCollisions classifies the case: does the database hold, for some matcher, a value that is
// not the queried one but that a pattern reading of the matcher would accept (neighbours.go)?
func tagCollisions(o *evid.Obs, ms []mMatcher, values func(name string, f func(v string))) {
	eq, re := false, false
	for _, m := range ms {
		values(m.Name, func(v string) {
			switch m.Op {
			case "=", "!=":
				eq = eq || collides(m.Val, v)
			default:
				re = re || collidesRe(m.Val, v)
			}
		})
	}
	if eq {
		o.Tag("near-collision:eq")
	}
	if re {
		o.Tag("near-collision:re")
	}
	if eq || re {
		o.Tag("near-collision")
	}
}

func predSel(c selCase, o *evid.Obs) error {
	resetGlobals()
	if len(c.DB.Series) == 0 || len(c.Ms) == 0 {
		o.Discard("empty-case")
		return nil
	}
	pms, err := promMatchers(c.Ms)
	if err != nil {
		o.Discard("invalid-regex") // the PromQL parser rejects the query before Select
		return nil
	}
	stmt, err := fpSelSQL(c.Ms, baseMs-60_000, baseMs+600_000)
	if err != nil {
		return fmt.Errorf("transpile %v: %v", c.Ms, err)
	}
	res, err := c.DB.buildCH().Query(stmt)
	if err != nil {
		if errors.Is(err, chsim.ErrUnsupported) {
			o.Discard("chsim-unsupported")
			return nil
		}
		return fmt.Errorf("ClickHouse would reject the selection statement for %v: %v\n%s", c.Ms, err, stmt)
	}
	got := map[uint64]int{}
	for _, r := range res.Rows {
		fp, ok := r[0].(uint64)
		if !ok {
			return fmt.Errorf("fingerprint column is %T", r[0])
		}
		got[fp]++
	}
	nsel, nrej, ndc := 0, 0, 0
	var errs []string
	for i := range c.DB.Series {
		s := &c.DB.Series[i]
		v := directSelect(s, pms)
		n := got[s.Fp]
		delete(got, s.Fp)
		switch v {
		case vDontCare:
			ndc++
		case vSelect:
			nsel++
			if n != 1 {
				errs = append(errs, fmt.Sprintf("series %s satisfies every matcher but is returned %d times", s.promLabels(), n))
			}
		case vReject:
			nrej++
			if n != 0 {
				errs = append(errs, fmt.Sprintf("series %s (log stream: %v) does not satisfy the matchers but is selected", s.promLabels(), s.Log))
			}
		}
	}
	for fp := range got {
		errs = append(errs, fmt.Sprintf("unknown fingerprint %d returned", fp))
	}
	tagCollisions(o, c.Ms, func(name string, f func(v string)) {
		for i := range c.DB.Series {
			if v, ok := c.DB.Series[i].get(name); ok && !c.DB.Series[i].Log {
				f(v)
			}
		}
	})
	for _, m := range c.Ms {
		o.Tag("op" + m.Op)
		if m.Name == "__name__" {
			o.Tag("on-__name__")
		}
	}
	o.Tag(fmt.Sprintf("matchers-%d", min(len(c.Ms), 5)))
	if len(c.Ms) > 8 {
		o.Tag("matchers>8") // HAVING bit mask wider than UInt8 (C07's fix 21d4cf3)
	}
	if ndc > 0 {
		o.Tag("absent-label-dontcare")
	}
	switch {
	case nsel == 0:
		o.Tag("selects-none")
	case nrej == 0:
		o.Tag("selects-all")
	case nsel == 1:
		o.Tag("selects-one")
	}
	if nsel >= 2 && nrej >= 1 {
		o.NonTrivial()
	}
	if len(errs) > 0 {
		sort.Strings(errs)
		return fmt.Errorf("matchers %v: %s\nSQL: %s", c.Ms, strings.Join(errs, "; "), stmt)
	}
	return nil
}

func addSelection(r *evid.Run) {
	evid.Add(r, evid.Prop[selCase]{Name: "select-prom", Quick: 4000, Thorough: 30000, Gen: genSel, Pred: predSel})
}

package c17

import (
	"fmt"

	"github.com/metrico/qryn/reader/model"
	"pgregory.net/rapid"

	"qrynverif/evid"
)

// ---- C17(c): the series cursor honours the seek/next contract --------------------------
//
// Domain: a strictly ascending sample array (what Select builds: rows are ordered by
// timestamp and the down-sampling/argMax grouping yields one row per timestamp) and a
// sequence of Next()/Seek(t) calls. Oracle: a plain slice model.
//
// chunkenc.Iterator contract (prometheus tsdb/chunkenc): Seek advances to the first
// sample with timestamp >= t; if the current sample already satisfies that, Seek does not
// move. The engine only seeks forward. A Seek whose target lies before the current
// position is therefore "don't care": both staying and going back to the first sample
// >= t are accepted.

type cursorOp struct {
	Seek bool  `json:"seek"`
	T    int64 `json:"t,omitempty"`
}

type cursorCase struct {
	Ts  []int64    `json:"ts"`
	Ops []cursorOp `json:"ops"`
}

func genCursor(rt *rapid.T) cursorCase {
	n := rapid.IntRange(0, 12).Draw(rt, "n")
	c := cursorCase{}
	cur := int64(rapid.IntRange(-5, 50).Draw(rt, "t0"))
	for i := 0; i < n; i++ {
		c.Ts = append(c.Ts, cur)
		cur += int64(rapid.IntRange(1, 20).Draw(rt, "dt"))
	}
	nops := rapid.IntRange(1, 12).Draw(rt, "nops")
	for i := 0; i < nops; i++ {
		if rapid.Bool().Draw(rt, "seek") {
			c.Ops = append(c.Ops, cursorOp{Seek: true, T: int64(rapid.IntRange(-10, int(cur)+10).Draw(rt, "t"))})
		} else {
			c.Ops = append(c.Ops, cursorOp{})
		}
	}
	return c
}

func predCursor(c cursorCase, o *evid.Obs) error {
	if len(c.Ts) == 0 {
		// Select never builds a series without samples (a series is created on its first row).
		o.Discard("empty-series")
		return nil
	}
	s := &model.Series{}
	for i, t := range c.Ts {
		s.Samples = append(s.Samples, model.Sample{TimestampMs: t, Value: float64(i)})
	}
	it := s.Iterator()
	pos := -1 // model: index of the current sample, len = exhausted
	n := len(c.Ts)
	between := false
	for k, op := range c.Ops {
		if pos >= n {
			break // exhausted iterators are not used again by the engine
		}
		var ok bool
		var accept []int
		if op.Seek {
			ok = it.Seek(op.T)
			first := n
			for i, t := range c.Ts {
				if t >= op.T {
					first = i
					break
				}
			}
			if first > 0 && first < n && c.Ts[first] != op.T {
				between = true
			}
			switch {
			case pos >= 0 && first <= pos:
				accept = []int{pos, first} // backward / no-op seek: don't care which
				o.Tag("seek-backward")
			default:
				accept = []int{first}
				o.Tag("seek-forward")
			}
		} else {
			ok = it.Next()
			accept = []int{pos + 1}
		}
		matched := -1
		for _, a := range accept {
			if a >= n {
				if !ok {
					matched = a
				}
				continue
			}
			if ok {
				ts, v := it.At()
				if ts == c.Ts[a] && v == float64(a) {
					matched = a
				}
			}
		}
		if matched < 0 {
			got := "end"
			if ok {
				ts, v := it.At()
				got = fmt.Sprintf("sample #%v at t=%d", v, ts)
			}
			return fmt.Errorf("op %d (%+v) on samples %v from position %d: cursor reports %s, model expects index in %v", k, op, c.Ts, pos, got, accept)
		}
		pos = matched
	}
	if between {
		o.NonTrivial()
	}
	return nil
}

func addCursor(r *evid.Run) {
	evid.Add(r, evid.Prop[cursorCase]{Name: "cursor", Quick: 3000, Thorough: 40000, Gen: genCursor, Pred: predCursor})
}

package c17

import (
	"testing"

	"qrynverif/evid"
)

func TestProp(t *testing.T) {
	r := evid.New(t, "C17", evid.Config{
		Level: "exploration",
		Rule: "generated matcher sets / metric and profile series tables / select-hint combinations / PromQL expressions / cursor call sequences; " +
			"non-trivial: >=2 series selected and >=1 rejected (select-prom, select-prof; assembly additionally drops >=1 sample outside the range; " +
			"e2e additionally compares >=1 non-boundary-sensitive point of a non-empty result), a Seek target strictly between two samples (cursor)",
		Assumptions: []string{
			"chsim executes the generated SQL the way ClickHouse does (match = unanchored RE2, bitShiftLeft keeps UInt8, ResultOfModulo typing, GROUP BY/argMax/intDiv semantics)",
			"a stored series' fingerprint is a function of its label set (C04); label values are non-empty and valid UTF-8 without newlines",
			"a matcher accepting the empty string on a series lacking the label is don't-care (qryn's index has no row for an absent label; consistent in all its planners)",
			"profile selectors: only cases on which the anchored/unanchored and same-element/per-matcher readings agree are decided",
			"series handed to the engine have strictly ascending timestamps (Select orders and groups rows by timestamp)",
			"a Seek behind the current position may either stay or go back (engine never does it)",
			"e2e: output points whose reference value changes when the look-back is perturbed by +-1 step are skipped; timestamp(), topk/bottomk, subqueries and @ are not generated",
		},
	})
	addCursor(r)
	addSelection(r)
	addProfSelection(r)
	addAssembly(r)
	addE2E(r)
	r.Main()
}

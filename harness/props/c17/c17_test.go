package c17

import (
	"testing"

	"qrynverif/evid"
)

func TestProp(t *testing.T) {
	r := evid.New(t, "C17", evid.Config{
		Level: "exploration",
		Rule:  "generated matcher sets / sample arrays / cursor call sequences; non-trivial: a Seek target strictly between two samples (cursor), >=2 series selected and >=1 rejected (selection)",
		Assumptions: []string{
			"series handed to the engine have strictly ascending timestamps (Select orders and groups rows by timestamp)",
			"a Seek behind the current position may either stay or go back (engine never does it)",
		},
	})
	addCursor(r)
	r.Main()
}

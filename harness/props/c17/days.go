package c17

// days.go: windows that span one or more UTC midnights, with series that stop before the
// window's last day and series that exist only on it. The labels of a handed-over series are
// looked up in time_series by a DATE range (promQueryable.go labelsGetter.getFetchRequest), and
// the writer stores one index row per (series, UTC day with samples) - buildCH lays the rows out
// that way - so a series whose samples all lie on an earlier day of the window has no row dated
// with the window's last day.

import (
	"sort"

	"github.com/prometheus/prometheus/storage"
	"pgregory.net/rapid"
)

// midnightRel: the next UTC midnight after baseMs, relative to baseMs (baseMs is 12:00 UTC).
const midnightRel int64 = 43_200_000

var dayRanges = []int64{86_400_000, 129_600_000, 172_800_000, 259_200_000, 90_000_000}

func dayOf(absMs int64) int64 {
	if absMs < 0 {
		return (absMs - dayMs + 1) / dayMs
	}
	return absMs / dayMs
}

// genSamplesAcrossDays draws few samples per series for the window [lo, hi] (ms relative to
// baseMs) by class: 0 = all samples before the last UTC midnight inside the window (the series
// stopped early), 1 = all on the window's last day, 2 = anywhere in and around the window.
func genSamplesAcrossDays(lo, hi int64) func(rt *rapid.T, i int) ([]int64, []float64) {
	lastMidnight := dayOf(baseMs+hi)*dayMs - baseMs
	return func(rt *rapid.T, i int) ([]int64, []float64) {
		a, b := lo-(hi-lo)/10-1000, hi+(hi-lo)/10+1000
		if lastMidnight > lo {
			switch between(rt, 0, 2, "dayClass") {
			case 0:
				a, b = lo, lastMidnight-1
			case 1:
				a, b = lastMidnight, hi
			}
		}
		unit := int64(500)
		if b-a > 3_600_000 {
			unit = 60_000
		}
		n := between(rt, 1, 10, "nsamples")
		seen := map[int64]bool{}
		var ts []int64
		for k := 0; k < n; k++ {
			var t int64
			switch {
			case k == 0 && chance(rt, 25, "onEdge"):
				t = pick(rt, []int64{a, b}, "edge")
			default:
				t = a + int64(between(rt, 0, int((b-a)/unit), "slot"))*unit
				if chance(rt, 10, "oddMs") {
					t += int64(between(rt, 1, 499, "ms"))
				}
			}
			if t < a {
				t = a
			}
			if t > b {
				t = b
			}
			if !seen[t] {
				seen[t] = true
				ts = append(ts, t)
			}
		}
		sort.Slice(ts, func(x, y int) bool { return ts[x] < ts[y] })
		vs := make([]float64, len(ts))
		v := float64(between(rt, 0, 50, "v0"))
		for k := range vs {
			vs[k] = v
			v += float64(between(rt, -4, 12, "dv")) / 2
		}
		return ts, vs
	}
}

// dayClasses classifies a case (evidence only): how many UTC midnights the select window spans,
// and whether among the series the matchers select there is one whose samples (hence index
// rows) all lie before the window's last day, and one that has them only on the last day.
func dayClasses(db *mDB, selected func(s *mSeries) bool, h *storage.SelectHints) (span int64, stopsEarly, lastDayOnly bool) {
	span = dayOf(h.End) - dayOf(h.Start)
	last := dayOf(h.End)
	for i := range db.Series {
		s := &db.Series[i]
		if !selected(s) || len(inRange(s, h)) == 0 {
			continue
		}
		minD, maxD := dayOf(baseMs+s.Ts[0]), dayOf(baseMs+s.Ts[len(s.Ts)-1])
		if maxD < last {
			stopsEarly = true
		}
		if minD == last && maxD == last {
			lastDayOnly = true
		}
	}
	return
}

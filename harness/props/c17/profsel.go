package c17

// C17(a), profiles: the fingerprint selection the Pyroscope read path builds for a label
// selector (reader/prof/transpiler/planner_selector.go StreamSelectorPlanner, selector text
// parsed by reader/prof/parser) is executed by chsim over a generated profiles_series_gin
// table and compared with a direct evaluation of the matchers.
//
// Layout (ctrl/qryn/sql/profiles.sql profiles_series_mv + profiles_series_gin_mv; writer:
// utils/unmarshal/golangPprof.go -> service/impl/profileInsertService.go): one stored series per
// (type:period_type:period_unit, sample_types_units, service_name, tags); its index rows are one
// per tag plus ('service_name', service_name), each carrying type_id, sample_types_units,
// service_name and the fingerprint.
//
// What "the labels of a stored profile series" are: the read path presents one Pyroscope
// series per element of sample_types_units (profService.go TimeSeries) with the pseudo-labels
// __name__, __period_type__, __period_unit__, __sample_type__, __sample_unit__,
// __profile_type__ = name:sample_type:sample_unit:period_type:period_unit, plus service_name
// and the tags. A stored series is expected to be selected iff one of these label sets
// satisfies every matcher. Two readings are left open and only cases on which they agree are
// decided (the others are counted as don't-care):
//   - element: the planner tests each sample-level pseudo-label with its own arrayExists, so
//     two such matchers may be satisfied by different elements (per-matcher reading) - the
//     alternative is that one element satisfies all of them;
//   - anchoring: Pyroscope matchers are Prometheus matchers (anchored); qryn renders
//     match(), which is not anchored, consistently in all its selector planners.
// As for metrics, a matcher accepting "" on an absent tag is don't-care.

import (
	"errors"
	"fmt"
	"regexp"
	"sort"
	"strconv"
	"strings"
	"time"

	"github.com/metrico/qryn/reader/logql/logql_transpiler_v2/shared"
	profparser "github.com/metrico/qryn/reader/prof/parser"
	proftranspiler "github.com/metrico/qryn/reader/prof/transpiler"
	sql "github.com/metrico/qryn/reader/utils/sql_select"
	"pgregory.net/rapid"

	"qrynverif/chsim"
	"qrynverif/evid"
)

type pSeries struct {
	Fp         uint64      `json:"fp"`
	Type       string      `json:"type"`
	PeriodType string      `json:"period_type"`
	PeriodUnit string      `json:"period_unit"`
	Samples    [][2]string `json:"samples"` // (sample type, unit), at least one
	Service    string      `json:"service"`
	Tags       [][2]string `json:"tags"`
	// DayOff != 0: the series was stored that many days away from the queried window.
	DayOff int `json:"day_off,omitempty"`
}

type profSelCase struct {
	Series []pSeries  `json:"series"`
	Ms     []mMatcher `json:"matchers"`
	Tick   bool       `json:"tick,omitempty"` // values written as `...` instead of "..."
}

var (
	// pools: plain values next to values carrying LIKE wildcards ('%', '_'), regex metacharacters
	// ('.', '+', '|'), the type_id separator ':', '-' vs '_' and case variants; the generator adds
	// the pattern neighbours (neighbours.go) of whatever the focus series holds.
	profTypes   = []string{"process_cpu", "memory", "mem", "goroutine", "wall.time", "go%routine", "Block", "process-cpu"}
	periodTypes = []string{"cpu", "space", "goroutine", "c_pu", "sp.ace", "CPU"}
	periodUnits = []string{"nanoseconds", "bytes", "count", "nano_seconds", "by%es"}
	sampleTypes = [][2]string{{"cpu", "nanoseconds"}, {"samples", "count"}, {"alloc_space", "bytes"}, {"alloc_objects", "count"},
		{"inuse_space", "bytes"}, {"cpu", "count"}, {"inuse%space", "by_tes"}, {"alloc:objects", "count"}, {"in.use", "Bytes"}, {"alloc-space", "bytes"}}
	services   = []string{"web", "web-api", "api", "it's", "web_api", "Web", "svc%1", "a.b", "web.api"}
	profTagVoc = map[string][]string{
		"env":    {"prod", "pro", "dev", "pr_d", "Prod", "p%d"},
		"region": {"eu", "eu-west", "us", "eu_west", "e%", "EU"},
		"pod":    {"a.b", "aXb", `q"q`, `a\b`, "a+b", "a|b", "a_b"},
	}
	profTagNames   = []string{"env", "region", "pod"}
	pseudoLabels   = []string{"__name__", "__period_type__", "__period_unit__", "__sample_type__", "__sample_unit__", "__profile_type__", "service_name"}
	sampleLevelSet = map[string]bool{"__sample_type__": true, "__sample_unit__": true, "__profile_type__": true}
	typeIDSet      = map[string]bool{"__name__": true, "__period_type__": true, "__period_unit__": true, "__profile_type__": true}
	// mutable fields of a stored series and the label each one shows up as
	profFields = []string{"__name__", "__period_type__", "__period_unit__", "__sample_type__", "__sample_unit__", "service_name", "env", "region", "pod"}
)

func (s *pSeries) typeID() string { return s.Type + ":" + s.PeriodType + ":" + s.PeriodUnit }

// colonInTypeID: type_id is the ':'-joined (type, period type, period unit); the read side takes it
// apart with splitByChar(':'), so a part that itself contains ':' cannot be told apart. The writer's
// type names are a fixed set without ':' (golangPprof.go:310); period type/unit are copied from the
// pprof. Matchers on the labels derived from type_id are don't-care for such a series.
func (s *pSeries) colonInTypeID() bool {
	return strings.Contains(s.Type, ":") || strings.Contains(s.PeriodType, ":") || strings.Contains(s.PeriodUnit, ":")
}

// virtual label sets, one per sample type element
func (s *pSeries) labelSets() []map[string]string {
	var out []map[string]string
	for _, st := range s.Samples {
		m := map[string]string{
			"__name__": s.Type, "__period_type__": s.PeriodType, "__period_unit__": s.PeriodUnit,
			"__sample_type__": st[0], "__sample_unit__": st[1],
			"__profile_type__": fmt.Sprintf("%s:%s:%s:%s:%s", s.Type, st[0], st[1], s.PeriodType, s.PeriodUnit),
			"service_name":     s.Service,
		}
		for _, t := range s.Tags {
			m[t[0]] = t[1]
		}
		out = append(out, m)
	}
	return out
}

func (s *pSeries) clone() pSeries {
	c := *s
	c.Samples = append([][2]string{}, s.Samples...)
	c.Tags = append([][2]string{}, s.Tags...)
	return c
}

// field access by label name (sample-level fields address element 0)
func (s *pSeries) field(name string) (string, bool) {
	switch name {
	case "__name__":
		return s.Type, true
	case "__period_type__":
		return s.PeriodType, true
	case "__period_unit__":
		return s.PeriodUnit, true
	case "__sample_type__":
		return s.Samples[0][0], true
	case "__sample_unit__":
		return s.Samples[0][1], true
	case "service_name":
		return s.Service, true
	}
	for _, t := range s.Tags {
		if t[0] == name {
			return t[1], true
		}
	}
	return "", false
}

func (s *pSeries) setField(name, v string) {
	switch name {
	case "__name__":
		s.Type = v
	case "__period_type__":
		s.PeriodType = v
	case "__period_unit__":
		s.PeriodUnit = v
	case "__sample_type__":
		s.Samples[0][0] = v
	case "__sample_unit__":
		s.Samples[0][1] = v
	case "service_name":
		s.Service = v
	default:
		for i := range s.Tags {
			if s.Tags[i][0] == name {
				s.Tags[i][1] = v
				return
			}
		}
		s.Tags = append(s.Tags, [2]string{name, v})
	}
}

func genProfSeries(rt *rapid.T) pSeries {
	s := pSeries{Type: pick(rt, profTypes, "type"), PeriodType: pick(rt, periodTypes, "ptype"), PeriodUnit: pick(rt, periodUnits, "punit"), Service: pick(rt, services, "svc")}
	k := between(rt, 1, 3, "nsamples")
	off := between(rt, 0, len(sampleTypes)-1, "sampleOff")
	for j := 0; j < k; j++ {
		s.Samples = append(s.Samples, sampleTypes[(off+j*3)%len(sampleTypes)])
	}
	for _, tn := range profTagNames {
		if chance(rt, 50, "hasTag") {
			s.Tags = append(s.Tags, [2]string{tn, pick(rt, profTagVoc[tn], "tagVal")})
		}
	}
	return s
}

func genProfSel(rt *rapid.T) profSelCase {
	c := profSelCase{Tick: chance(rt, 25, "tick")}
	n := between(rt, 2, 9, "nseries")
	seen := map[string]bool{}
	fps := map[uint64]bool{}
	mutated := map[string]bool{}
	add := func(s pSeries) {
		key := fmt.Sprint(s.typeID(), s.Samples, s.Service, s.Tags)
		if seen[key] {
			return
		}
		seen[key] = true
		fp := rapid.Uint64().Draw(rt, "fp")
		for fps[fp] {
			fp++
		}
		fps[fp] = true
		s.Fp = fp
		if len(c.Series) > 0 && chance(rt, 6, "otherDay") {
			s.DayOff = []int{-3, 3}[between(rt, 0, 1, "dayDir")]
		}
		c.Series = append(c.Series, s)
	}
	// series 0 is the focus; most others are copies of it (or of an earlier copy) in which one field
	// is replaced by a pattern neighbour of its value
	add(genProfSeries(rt))
	for i := 1; i < n; i++ {
		switch k := between(rt, 0, 99, "seriesKind"); {
		case k < 70:
			parent := &c.Series[0]
			if k >= 58 {
				parent = &c.Series[between(rt, 0, len(c.Series)-1, "parent")]
			}
			m := parent.clone()
			m.DayOff = 0
			f := pick(rt, profFields, "mutField")
			cur, ok := m.field(f)
			if !ok {
				cur = pick(rt, profTagVoc[f], "newTag")
				m.setField(f, cur)
				if chance(rt, 50, "plainNewTag") {
					mutated[f] = true
					add(m)
					continue
				}
			}
			m.setField(f, pick(rt, neighbours(cur), "neighbour"))
			mutated[f] = true
			add(m)
		default:
			add(genProfSeries(rt))
		}
	}
	max := 4
	if chance(rt, 3, "manyMatchers") {
		max = 11
	}
	nm := between(rt, 1, max, "nmatchers")
	many := max > 8
	if many {
		nm = between(rt, 9, max, "manyMatchers") // wider than the UInt8 HAVING bit mask used to be
	}
	focus := &c.Series[0]
	fl := focus.labelSets()[0]
	var fn []string
	for n := range fl {
		fn = append(fn, n)
	}
	sort.Strings(fn)
	var mutNames []string
	for _, f := range profFields {
		if mutated[f] {
			mutNames = append(mutNames, f)
			if typeIDSet[f] || sampleLevelSet[f] {
				mutNames = append(mutNames, "__profile_type__")
			}
		}
	}
	names := append(append([]string{}, pseudoLabels...), profTagNames...)
	for i := 0; i < nm; i++ {
		var name, val string
		positive := true
		// the label: prefer one on which the database holds near-collisions
		switch k := between(rt, 0, 99, "mName"); {
		case k < 55 && len(mutNames) > 0:
			name = pick(rt, mutNames, "mutName")
		case k < 90:
			name = pick(rt, fn, "focusName")
		default:
			name = pick(rt, append(names, "missing"), "anyName")
		}
		if many && len(focus.Tags) > 0 && i < 10 {
			name = pick(rt, focus.Tags, "manyTag")[0] // only tag matchers enter the bit mask
		}
		// the value: the focus series' own, another stored series', or a pool value
		switch k := between(rt, 0, 99, "mSource"); {
		case k < 62:
			v, ok := fl[name]
			if !ok {
				v = pick(rt, []string{"cpu", "prod", "eu", "a.b"}, "mVal")
				positive = chance(rt, 50, "positive")
			}
			val = v
		case k < 95:
			o := &c.Series[between(rt, 0, len(c.Series)-1, "mSeries")]
			ol := o.labelSets()[between(rt, 0, len(o.Samples)-1, "mElem")]
			v, ok := ol[name]
			if !ok {
				v = pick(rt, []string{"cpu", "prod", "eu", "a.b"}, "mVal")
			}
			val = v
			positive = fl[name] == val || chance(rt, 40, "positive")
		default:
			val = pick(rt, []string{"cpu", "count", "web", "prod", "eu", "a.b", "process_cpu:cpu:nanoseconds:cpu:nanoseconds", "%", "_", ".*"}, "mVal")
			positive = chance(rt, 50, "positive")
		}
		q := regexpQuote(val)
		shape := between(rt, 0, 11, "mShape")
		if positive && chance(rt, 95, "keepPositive") {
			shape = []int{0, 1, 2, 4, 5, 6, 9, 0, 1, 4, 9, 0}[shape]
		} else {
			shape = []int{3, 7, 8, 10, 3, 7, 8, 10, 3, 7, 3, 3}[shape]
		}
		var m mMatcher
		switch shape {
		case 0, 1, 2:
			m = mMatcher{name, "=", val}
		case 3:
			m = mMatcher{name, "!=", val}
		case 4:
			m = mMatcher{name, "=~", q}
		case 5:
			m = mMatcher{name, "=~", q + ".*"}
		case 6:
			if rs := []rune(val); len(rs) > 1 {
				m = mMatcher{name, "=~", regexpQuote(string(rs[:len(rs)/2])) + ".+"}
			} else {
				m = mMatcher{name, "=~", ".+"}
			}
		case 7:
			m = mMatcher{name, "!~", q}
		case 8:
			m = mMatcher{name, "!~", q + ".+"}
		case 9:
			m = mMatcher{name, "=~", val} // the value's own metacharacters taken as a pattern
		default:
			m = mMatcher{name, "!~", val}
		}
		c.Ms = append(c.Ms, m)
	}
	return c
}

func (c *profSelCase) selectorText() string {
	parts := make([]string, len(c.Ms))
	for i, m := range c.Ms {
		v := strconv.Quote(m.Val)
		if c.Tick && !strings.Contains(m.Val, "`") {
			v = "`" + m.Val + "`"
		}
		parts[i] = m.Name + m.Op + v
	}
	return "{" + strings.Join(parts, ", ") + "}"
}

func (c *profSelCase) buildCH() *chsim.DB {
	var gin [][]any
	day0 := baseMs / dayMs
	for i := range c.Series {
		s := &c.Series[i]
		stu := make([]any, len(s.Samples))
		for k, st := range s.Samples {
			stu[k] = chsim.Tuple{st[0], st[1]}
		}
		tags := append(append([][2]string{}, s.Tags...), [2]string{"service_name", s.Service})
		for _, t := range tags {
			gin = append(gin, []any{chsim.Date(day0 + int64(s.DayOff)), t[0], t[1], s.typeID(), stu, s.Service, s.Fp})
		}
	}
	db := chsim.NewDB()
	db.AddTable("profiles_series_gin", []string{"date", "key", "val", "type_id", "sample_types_units", "service_name", "fingerprint"}, gin)
	db.Alias("profiles_series_gin_dist", "profiles_series_gin")
	return db
}

// one matcher against one value; anchored or not
func profMatch(m mMatcher, re *regexp.Regexp, v string) bool {
	switch m.Op {
	case "=":
		return v == m.Val
	case "!=":
		return v != m.Val
	case "=~":
		return re.MatchString(v)
	default:
		return !re.MatchString(v)
	}
}

// profVerdict evaluates the matchers on a stored series under one reading.
func profVerdict(s *pSeries, ms []mMatcher, res []*regexp.Regexp, sameElement bool) verdict {
	if s.DayOff != 0 {
		return vReject
	}
	sets := s.labelSets()
	dontCare := false
	// series-level matchers first
	for i, m := range ms {
		if sampleLevelSet[m.Name] {
			continue
		}
		v, has := sets[0][m.Name]
		if !has {
			if profMatch(m, res[i], "") {
				dontCare = true
				continue
			}
			return vReject
		}
		if !profMatch(m, res[i], v) {
			return vReject
		}
	}
	ok := false
	if sameElement {
		for _, ls := range sets {
			all := true
			for i, m := range ms {
				if sampleLevelSet[m.Name] && !profMatch(m, res[i], ls[m.Name]) {
					all = false
				}
			}
			ok = ok || all
		}
	} else {
		ok = true
		for i, m := range ms {
			if !sampleLevelSet[m.Name] {
				continue
			}
			any := false
			for _, ls := range sets {
				any = any || profMatch(m, res[i], ls[m.Name])
			}
			ok = ok && any
		}
	}
	if !ok {
		return vReject
	}
	if dontCare {
		return vDontCare
	}
	return vSelect
}

func predProfSel(c profSelCase, o *evid.Obs) error {
	resetGlobals()
	if len(c.Series) == 0 || len(c.Ms) == 0 {
		o.Discard("empty-case")
		return nil
	}
	anch := make([]*regexp.Regexp, len(c.Ms))
	unanch := make([]*regexp.Regexp, len(c.Ms))
	kv := 0
	for i, m := range c.Ms {
		isPseudo := false
		for _, p := range pseudoLabels {
			isPseudo = isPseudo || p == m.Name
		}
		if !isPseudo {
			kv++
		}
		if m.Op == "=~" || m.Op == "!~" {
			var err error
			if anch[i], err = regexp.Compile("^(?:" + m.Val + ")$"); err != nil {
				o.Discard("invalid-regex")
				return nil
			}
			unanch[i] = regexp.MustCompile(m.Val)
		}
	}
	text := c.selectorText()
	script, err := profparser.Parse(text)
	if err != nil {
		return fmt.Errorf("selector %s does not parse: %v", text, err)
	}
	if len(script.Selectors) != len(c.Ms) {
		return fmt.Errorf("selector %s parsed into %d matchers", text, len(script.Selectors))
	}
	// the planner context prof.plannerCtx builds (reader/prof/planner.go:80)
	ctx := shared.PlannerContext{
		From: time.UnixMilli(baseMs - 3_600_000), To: time.UnixMilli(baseMs + 3_600_000),
		ProfilesSeriesGinTable: "profiles_series_gin", ProfilesSeriesGinDistTable: "profiles_series_gin",
		ProfilesTable: "profiles", ProfilesDistTable: "profiles",
		ProfilesSeriesTable: "profiles_series", ProfilesSeriesDistTable: "profiles_series",
	}
	sel, err := (&proftranspiler.StreamSelectorPlanner{Selectors: script.Selectors}).Process(&ctx)
	if err != nil {
		return fmt.Errorf("selector %s: planner: %v", text, err)
	}
	stmt, err := sel.String(sql.DefaultCtx())
	if err != nil {
		return fmt.Errorf("selector %s: render: %v", text, err)
	}
	res, err := c.buildCH().Query(stmt)
	if err != nil {
		if errors.Is(err, chsim.ErrUnsupported) {
			o.Discard("chsim-unsupported")
			return nil
		}
		return fmt.Errorf("ClickHouse would reject the selection statement for %s: %v\n%s", text, err, stmt)
	}
	got := map[uint64]int{}
	for _, r := range res.Rows {
		fp, ok := r[0].(uint64)
		if !ok {
			return fmt.Errorf("fingerprint column is %T", r[0])
		}
		got[fp]++
	}
	nsel, nrej, ndc := 0, 0, 0
	onTypeID, colonDC := false, false
	for _, m := range c.Ms {
		onTypeID = onTypeID || typeIDSet[m.Name]
	}
	var errs []string
	for i := range c.Series {
		s := &c.Series[i]
		v := profVerdict(s, c.Ms, anch, true)
		for _, alt := range []verdict{profVerdict(s, c.Ms, anch, false), profVerdict(s, c.Ms, unanch, true), profVerdict(s, c.Ms, unanch, false)} {
			if alt != v {
				v = vDontCare
			}
		}
		if s.colonInTypeID() && onTypeID && v != vDontCare && s.DayOff == 0 {
			v = vDontCare
			colonDC = true
		}
		n := got[s.Fp]
		delete(got, s.Fp)
		switch v {
		case vDontCare:
			ndc++
		case vSelect:
			nsel++
			if n != 1 {
				errs = append(errs, fmt.Sprintf("series #%d %s %v svc=%s tags=%v satisfies every matcher but is returned %d times", i, s.typeID(), s.Samples, s.Service, s.Tags, n))
			}
		case vReject:
			nrej++
			if n != 0 {
				errs = append(errs, fmt.Sprintf("series #%d %s %v svc=%s tags=%v dayoff=%d does not satisfy the matchers but is selected", i, s.typeID(), s.Samples, s.Service, s.Tags, s.DayOff))
			}
		}
	}
	for fp := range got {
		errs = append(errs, fmt.Sprintf("unknown fingerprint %d returned", fp))
	}
	for _, m := range c.Ms {
		o.Tag("op" + m.Op)
		switch {
		case sampleLevelSet[m.Name]:
			o.Tag("on-sample-level-pseudo")
		case strings.HasPrefix(m.Name, "__"):
			o.Tag("on-type-id-pseudo")
		case m.Name == "service_name":
			o.Tag("on-service_name")
		default:
			o.Tag("on-tag")
		}
	}
	if kv > 8 {
		o.Tag("tag-matchers>8") // HAVING bit mask wider than UInt8 (C07's fix 21d4cf3)
	}
	if ndc > 0 {
		o.Tag("has-dontcare-series")
	}
	if colonDC {
		o.Tag("colon-in-type-id-dontcare")
	}
	tagCollisions(o, c.Ms, func(name string, f func(v string)) {
		for i := range c.Series {
			if c.Series[i].DayOff != 0 {
				continue
			}
			for _, ls := range c.Series[i].labelSets() {
				if v, ok := ls[name]; ok {
					f(v)
				}
			}
		}
	})
	switch {
	case nsel == 0:
		o.Tag("selects-none")
	case nsel == 1:
		o.Tag("selects-one")
	}
	if nsel >= 2 && nrej >= 1 {
		o.NonTrivial()
	}
	if len(errs) > 0 {
		sort.Strings(errs)
		return fmt.Errorf("selector %s: %s\nSQL: %s", text, strings.Join(errs, "; "), stmt)
	}
	return nil
}

func addProfSelection(r *evid.Run) {
	evid.Add(r, evid.Prop[profSelCase]{Name: "select-prof", Quick: 4000, Thorough: 30000, Gen: genProfSel, Pred: predProfSel})
}

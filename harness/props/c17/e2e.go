package c17

// C17(d): end to end, differential. The Prometheus engine of the module version qryn uses,
// constructed as router/prometheusQueryRangeRouter.go constructs it, evaluates a generated PromQL
// expression twice: over qryn's Queryable (service.CLokiQueriable over chsim-backed rows, queried
// as controller/promQuery{Range,Instant}Controller.go do) and over a trivially correct in-memory
// Queryable holding the same samples (all samples of every series whose labels satisfy the
// matchers, no use of the hints). Both results must be equal.
//
// Don't-care:
//   - instant selectors of range queries are re-bucketed to the step by the raw path (latest
//     sample of each step bucket, stamped with the bucket's upper edge), which moves a sample by
//     less than one step: it can outlive the look-back window by that much. The reference is also
//     evaluated with the look-back widened and narrowed by one step; an evaluation time at which
//     the three reference runs disagree on any output point is boundary-sensitive and all points
//     at that time are skipped (counted).
//   - expressions exposing raw sample timestamps (timestamp()) are not generated; neither are
//     topk/bottomk (ties are broken by series order, which Select leaves unspecified) nor
//     subqueries and @ (outside the stated domain; @ is disabled in qryn's engine).
//   - a case in which a stored series lacks a label some matcher accepts as "" is discarded
//     (absent-label convention, see directSelect).
// Known finding C17-rebucket-grid-misaligned: the re-bucketing grid is anchored at hints.Start =
// start - 5m, the evaluation grid at start; when the step does not divide 5m (7s, 8s, 9s, 11s, 13s,
// 14s ...) the two grids differ and every evaluation sees samples up to one step staler than
// Prometheus does. Such cases are excluded by construction (o.Known) unless a witness is replayed.

import (
	"context"
	"fmt"
	"math"
	"regexp"
	"sort"
	"strconv"
	"strings"
	"sync"
	"time"

	"github.com/prometheus/prometheus/model/labels"
	"github.com/prometheus/prometheus/promql"
	"github.com/prometheus/prometheus/promql/parser"
	"github.com/prometheus/prometheus/storage"
	"github.com/prometheus/prometheus/tsdb/chunkenc"
	"pgregory.net/rapid"

	"qrynverif/evid"
	"qrynverif/readersvc"
)

const knownRebucketGrid = "C17-rebucket-grid-misaligned"

type e2eCase struct {
	DB      mDB    `json:"db"`
	Expr    string `json:"expr"`
	Instant bool   `json:"instant,omitempty"`
	Start   int64  `json:"start"` // ms relative to baseMs
	End     int64  `json:"end"`
	Step    int64  `json:"step"`
}

// ---- reference Queryable ------------------------------------------------------------------

type memQueryable struct{ db *mDB }

func (m memQueryable) Querier(ctx context.Context, mint, maxt int64) (storage.Querier, error) {
	return memQuerier{m.db}, nil
}

type memQuerier struct{ db *mDB }

func (memQuerier) LabelValues(string, ...*labels.Matcher) ([]string, storage.Warnings, error) {
	return nil, nil, nil
}
func (memQuerier) LabelNames(...*labels.Matcher) ([]string, storage.Warnings, error) {
	return nil, nil, nil
}
func (memQuerier) Close() error { return nil }

func (q memQuerier) Select(_ bool, _ *storage.SelectHints, ms ...*labels.Matcher) storage.SeriesSet {
	set := &memSet{i: -1}
	for i := range q.db.Series {
		s := &q.db.Series[i]
		if s.Log {
			continue
		}
		ls := s.promLabels()
		ok := true
		for _, m := range ms {
			ok = ok && m.Matches(ls.Get(m.Name))
		}
		if ok {
			set.series = append(set.series, memSeries{ls, s})
		}
	}
	sort.Slice(set.series, func(a, b int) bool { return labels.Compare(set.series[a].ls, set.series[b].ls) < 0 })
	return set
}

type memSet struct {
	series []memSeries
	i      int
}

func (s *memSet) Next() bool                 { s.i++; return s.i < len(s.series) }
func (s *memSet) At() storage.Series         { return s.series[s.i] }
func (s *memSet) Err() error                 { return nil }
func (s *memSet) Warnings() storage.Warnings { return nil }

type memSeries struct {
	ls labels.Labels
	s  *mSeries
}

func (s memSeries) Labels() labels.Labels       { return s.ls }
func (s memSeries) Iterator() chunkenc.Iterator { return &memIt{s: s.s, i: -1} }

type memIt struct {
	s *mSeries
	i int
}

func (it *memIt) Next() bool { it.i++; return it.i < len(it.s.Ts) }
func (it *memIt) Seek(t int64) bool {
	if it.i < 0 {
		it.i = 0
	}
	for it.i < len(it.s.Ts) && baseMs+it.s.Ts[it.i] < t {
		it.i++
	}
	return it.i < len(it.s.Ts)
}
func (it *memIt) At() (int64, float64) { return baseMs + it.s.Ts[it.i], it.s.Vals[it.i] }
func (it *memIt) Err() error           { return nil }

// ---- generator ----------------------------------------------------------------------------------

func durText(ms int64) string { return fmt.Sprintf("%dms", ms) }

// a metric name can be written bare only if it is an identifier (and not a keyword-like word)
var metricNameRe = regexp.MustCompile(`^[a-z_][a-z0-9_]*$`)

func selectorText(rt *rapid.T, ms []mMatcher) string {
	var name string
	var parts []string
	for _, m := range ms {
		if m.Name == "__name__" && m.Op == "=" && name == "" && metricNameRe.MatchString(m.Val) && chance(rt, 70, "bareName") {
			name = m.Val
			continue
		}
		parts = append(parts, m.Name+m.Op+strconv.Quote(m.Val))
	}
	if len(parts) == 0 {
		return name
	}
	return name + "{" + strings.Join(parts, ",") + "}"
}

var (
	e2eInstantFuncs = []string{"abs", "ceil", "floor", "round", "sgn", "sqrt", "sort", "exp"}
	e2eAggs         = []string{"sum", "min", "max", "avg", "count", "group", "stddev", "stdvar"}
	e2eRangeFuncs   = []string{"rate", "irate", "increase", "delta", "idelta", "deriv", "changes", "resets",
		"sum_over_time", "avg_over_time", "min_over_time", "max_over_time", "count_over_time", "last_over_time",
		"present_over_time", "stddev_over_time", "stdvar_over_time",
		// the functions the roll-up path treats specially, twice
		"count_over_time", "sum_over_time", "avg_over_time", "rate", "min_over_time", "max_over_time", "last_over_time"}
	groupLabels = []string{"job", "env", "instance", "__name__", "le"}
)

// genVectorExpr: an instant-vector expression over one selector.
// exprPref: the range and offset the sample generator was told about (anchors on window edges);
// the expression uses them in most of its selectors.
type exprPref struct{ rng, off int64 }

func genVectorExpr(rt *rapid.T, sel string, depth int, pref exprPref) string {
	off := ""
	if pref.off > 0 && chance(rt, 80, "prefOffset") {
		off = " offset " + durText(pref.off)
	} else if pref.off == 0 && chance(rt, 10, "offset") {
		off = " offset " + durText(pick(rt, offsets, "offsetMs"))
	}
	rng := pref.rng
	if chance(rt, 15, "otherRange") && pref.rng < 86_400_000 {
		rng = pick(rt, ranges, "range")
	}
	switch k := between(rt, 0, 99, "exprKind"); {
	case k < 14:
		return sel + off
	case k < 24:
		return pick(rt, e2eInstantFuncs, "ifunc") + "(" + sel + off + ")"
	case k < 38:
		return genAgg(rt, sel+off)
	case k < 70:
		return genRangeCall(rt, sel, rng, off)
	case k < 84:
		return genAgg(rt, genRangeCall(rt, sel, rng, off))
	case k < 88:
		return fmt.Sprintf("quantile(0.5, %s%s)", sel, off)
	case k < 91:
		return fmt.Sprintf("absent(%s%s)", sel, off)
	case k < 93:
		return fmt.Sprintf("scalar(%s%s)", sel, off)
	case k < 95:
		return fmt.Sprintf(`label_replace(%s%s, "x", "$1", "job", "(.*)")`, sel, off)
	case k < 97:
		return fmt.Sprintf("histogram_quantile(0.9, sum by (le) (rate(%s[%s]%s)))", sel, durText(rng), off)
	default:
		if depth > 0 {
			return sel + off
		}
		op := pick(rt, []string{"+", "-", "*", "/", "> bool", ">", "and", "or", "unless"}, "binop")
		l := genVectorExpr(rt, sel, depth+1, pref)
		if chance(rt, 50, "scalarRhs") && op != "and" && op != "or" && op != "unless" {
			return fmt.Sprintf("(%s) %s %d", l, op, between(rt, 1, 9, "scalar"))
		}
		return fmt.Sprintf("(%s) %s (%s)", l, op, genVectorExpr(rt, sel, depth+1, pref))
	}
}

func genAgg(rt *rapid.T, inner string) string {
	agg := pick(rt, e2eAggs, "agg")
	switch between(rt, 0, 2, "grouping") {
	case 0:
		return fmt.Sprintf("%s(%s)", agg, inner)
	case 1:
		return fmt.Sprintf("%s by (%s) (%s)", agg, pick(rt, groupLabels, "by"), inner)
	default:
		return fmt.Sprintf("%s without (%s) (%s)", agg, pick(rt, groupLabels, "without"), inner)
	}
}

func genRangeCall(rt *rapid.T, sel string, rng int64, off string) string {
	if chance(rt, 6, "quantileOverTime") {
		return fmt.Sprintf("quantile_over_time(0.5, %s[%s]%s)", sel, durText(rng), off)
	}
	if chance(rt, 4, "absentOverTime") {
		return fmt.Sprintf("absent_over_time(%s[%s]%s)", sel, durText(rng), off)
	}
	return fmt.Sprintf("%s(%s[%s]%s)", pick(rt, e2eRangeFuncs, "rfunc"), sel, durText(rng), off)
}

func genE2E(rt *rapid.T) e2eCase {
	c := e2eCase{}
	if chance(rt, 35, "instantQuery") {
		c.Instant = true
		c.Start = genInstantTime(rt)
		c.End = c.Start
	} else {
		// QueryRange floors start / ceils end to 15 s (promQueryRangeController.go:51)
		c.Start = int64(between(rt, 0, 12, "start15")) * 15000
		c.End = c.Start + int64(between(rt, 1, 8, "len15"))*15000
		c.Step = pick(rt, steps, "step")
		if chance(rt, 8, "bigStep") {
			c.Step = pick(rt, []int64{15000, 20000, 30000, 60000}, "bigStepMs")
		}
	}
	pref := exprPref{rng: pick(rt, ranges, "range")}
	if c.Step > 0 && pref.rng >= c.Step && chance(rt, 20, "stepAboveRange") {
		if r := rangeBelow(rt, c.Step); r > 0 {
			pref.rng = r
		}
	}
	if chance(rt, 25, "offset") {
		pref.off = pick(rt, offsets, "offsetMs")
	}
	var gen func(rt *rapid.T, i int) ([]int64, []float64)
	if chance(rt, 22, "acrossDays") {
		// the select window contains a UTC midnight (days.go): a day-long range selector, or an
		// evaluation time / query start next to the midnight after baseMs
		if chance(rt, 45, "longRange") {
			pref.rng = pick(rt, dayRanges, "dayRange")
			if c.Instant {
				c.Start = midnightRel + int64(between(rt, -7200, 7200, "aroundMidnightSec"))*1000
				c.End = c.Start
			} else {
				n := (c.End - c.Start) / 15000
				c.Start = midnightRel + int64(between(rt, -40, 40, "start15"))*15000
				c.End = c.Start + n*15000
			}
			gen = genSamplesAcrossDays(c.Start-pref.off-pref.rng, c.End-pref.off)
		} else {
			if c.Instant {
				c.Start = midnightRel + pref.off + int64(between(rt, 0, 580, "afterMidnight"))*500
				c.End = c.Start
			} else {
				n := (c.End - c.Start) / 15000
				c.Start = midnightRel - int64(between(rt, 0, int(n), "beforeMidnight15"))*15000
				c.End = c.Start + n*15000
			}
			gen = genSamplesAcrossDays(c.Start-pref.off-lookbackMs, c.End-pref.off)
		}
	} else {
		// samples around the region the selectors can look at; anchors on the edges of the look-back
		// and range windows (with step > range: the lower edges T-range of the first windows)
		s0, e0 := c.Start-pref.off, c.End-pref.off
		lo, hi := s0-60_000, e0
		anchors := []int64{s0, e0, s0 - pref.rng, s0 - pref.rng, s0 - 5000, s0 - 30000, s0 - lookbackMs}
		if c.Step > 0 {
			anchors = append(anchors, s0+c.Step, s0+c.Step-pref.rng, s0+2*c.Step-pref.rng, s0+c.Step-pref.rng)
		}
		if c.Step > pref.rng {
			// step > range: the lower edges T-range of the first evaluation windows
			anchors = []int64{s0 - pref.rng, s0 - pref.rng, s0 + c.Step - pref.rng, s0 + c.Step - pref.rng, s0 + 2*c.Step - pref.rng, s0, e0}
		}
		gen = genSamplesFor(lo, hi, anchors)
	}
	c.DB = genMDB(rt, 7, gen)
	ms := genMatchers(rt, &c.DB, 2)
	c.Expr = genVectorExpr(rt, selectorText(rt, ms), 0, pref)
	return c
}

// ---- evaluation -----------------------------------------------------------------------------------

type seriesPts map[string]map[int64]float64 // labels -> time -> value

func flatten(v parser.Value) (seriesPts, error) {
	out := seriesPts{}
	add := func(ls labels.Labels, t int64, f float64) error {
		k := ls.String()
		if out[k] == nil {
			out[k] = map[int64]float64{}
		}
		if _, dup := out[k][t]; dup {
			return fmt.Errorf("result has two points for %s at %d", k, t)
		}
		out[k][t] = f
		return nil
	}
	switch x := v.(type) {
	case promql.Matrix:
		for _, s := range x {
			for _, p := range s.Points {
				if err := add(s.Metric, p.T, p.V); err != nil {
					return nil, err
				}
			}
		}
	case promql.Vector:
		for _, s := range x {
			if err := add(s.Metric, s.T, s.V); err != nil {
				return nil, err
			}
		}
	case promql.Scalar:
		_ = add(labels.Labels{{Name: "scalar", Value: ""}}, x.T, x.V)
	default:
		return nil, fmt.Errorf("unexpected result type %T", v)
	}
	return out, nil
}

var (
	engMu   sync.Mutex
	engines = map[time.Duration]*promql.Engine{}
)

// newEngine returns the (cached, stateless between queries) engine for a look-back delta.
func newEngine(lookback time.Duration) *promql.Engine {
	engMu.Lock()
	defer engMu.Unlock()
	if e := engines[lookback]; e != nil {
		return e
	}
	e := buildEngine(lookback)
	engines[lookback] = e
	return e
}

func buildEngine(lookback time.Duration) *promql.Engine {
	// router/prometheusQueryRangeRouter.go:21 (MaxSamples from the default configuration)
	return promql.NewEngine(promql.EngineOpts{
		Logger: nil, Reg: nil, MaxSamples: 5000000, Timeout: 30 * time.Second,
		ActiveQueryTracker: nil, LookbackDelta: lookback, NoStepSubqueryIntervalFn: nil,
		EnableAtModifier: false, EnableNegativeOffset: false,
	})
}

func (c *e2eCase) run(eng *promql.Engine, q storage.Queryable) (seriesPts, error) {
	ctx := context.Background()
	var qry promql.Query
	var err error
	if c.Instant {
		qry, err = eng.NewInstantQuery(q, nil, c.Expr, time.UnixMilli(baseMs+c.Start))
	} else {
		qry, err = eng.NewRangeQuery(q, nil, c.Expr, time.UnixMilli(baseMs+c.Start), time.UnixMilli(baseMs+c.End), time.Duration(c.Step)*time.Millisecond)
	}
	if err != nil {
		return nil, err
	}
	defer qry.Close()
	res := qry.Exec(ctx)
	if res.Err != nil {
		return nil, res.Err
	}
	return flatten(res.Value)
}

func sameVal(a, b float64) bool {
	if math.IsNaN(a) || math.IsNaN(b) {
		return math.IsNaN(a) && math.IsNaN(b)
	}
	if a == b {
		return true
	}
	return math.Abs(a-b) <= 1e-9*math.Max(math.Abs(a), math.Abs(b))
}

func predE2E(c e2eCase, o *evid.Obs) error {
	resetGlobals()
	if len(c.DB.Series) == 0 {
		o.Discard("empty-case")
		return nil
	}
	if strings.Contains(c.Expr, "timestamp(") {
		o.Discard("exposes-sample-timestamps")
		return nil
	}
	// reference runs
	ref, err := c.run(newEngine(0), memQueryable{&c.DB})
	if err != nil {
		o.Discard("expression-rejected-by-prometheus")
		return nil
	}
	// absent-label convention: find the selectors' matchers through the parser's own walk
	dc, nsel, nrej, hints, selMatchers, err := c.selectionClasses()
	if err != nil {
		return err
	}
	if dc {
		o.Discard("absent-label-dontcare")
		return nil
	}
	step := time.Duration(c.Step) * time.Millisecond
	refWide, refNarrow := ref, ref
	if !c.Instant {
		// an error that appears only under a perturbed look-back (e.g. two series collapsing to one
		// label set once a stale one is still visible) makes the whole evaluation boundary-sensitive
		if refWide, err = c.run(newEngine(5*time.Minute+step), memQueryable{&c.DB}); err != nil {
			o.Discard("boundary-sensitive-error")
			return nil
		}
		if refNarrow, err = c.run(newEngine(5*time.Minute-step), memQueryable{&c.DB}); err != nil {
			o.Discard("boundary-sensitive-error")
			return nil
		}
	}
	// qryn
	be := &backend{db: c.DB.buildCH()}
	qb, closeDB := newQueryable(be)
	restore := readersvc.Quiet()
	got, qerr := c.run(newEngine(0), qb.SetOidAndDB(context.Background()))
	restore()
	closeDB()
	rebucketed := false
	for _, q := range be.sqlLog() {
		if strings.Contains(q, "metrics_15s") {
			// the roll-up is a legitimate source only at steps of 15 s and more (outside the
			// domain); below - step 0 of instant queries included - its answer is compared
			if c.Step >= 15000 {
				o.Discard("downsampled-path")
				return nil
			}
			o.Tag("roll-up-read-below-threshold")
		}
		if strings.Contains(q, "argMax(spls.value") {
			rebucketed = true
		}
	}
	if unsup, rec := be.firstErr(); rec != nil {
		if unsup {
			o.Discard("chsim-unsupported")
			return nil
		}
		return fmt.Errorf("%s: ClickHouse would reject: %v\n%s", c.describe(), rec.Err, rec.SQL)
	}
	if rebucketed && lookbackMs%c.Step != 0 && !o.Witness {
		o.Known(knownRebucketGrid)
		return nil
	}
	if qerr != nil {
		return fmt.Errorf("%s: query over qryn's Queryable failed: %v", c.describe(), qerr)
	}
	// compare
	keys := map[string]bool{}
	for _, m := range []seriesPts{ref, refWide, refNarrow, got} {
		for k := range m {
			keys[k] = true
		}
	}
	// An evaluation time at which any output point differs between the three reference runs is
	// boundary-sensitive as a whole: the re-bucketing extends the life of a sample per selector (an
	// instant selector under an aggregation is not re-bucketed, a bare one is), so at such a time
	// the operands of a binary expression can be in a mix of states that no uniform perturbation of
	// the look-back reproduces (`min without(x)(s) or s`: left operand gone, right one still alive).
	sensitive := map[int64]bool{}
	for k := range keys {
		for _, m := range []seriesPts{ref, refWide, refNarrow} {
			for t := range m[k] {
				rv, rok := ref[k][t]
				wv, wok := refWide[k][t]
				nv, nok := refNarrow[k][t]
				if rok != wok || rok != nok || (rok && (!sameVal(rv, wv) || !sameVal(rv, nv))) {
					sensitive[t] = true
				}
			}
		}
	}
	var errs []string
	compared, skipped := 0, 0
	for k := range keys {
		times := map[int64]bool{}
		for _, m := range []seriesPts{ref, got} {
			for t := range m[k] {
				times[t] = true
			}
		}
		for t := range times {
			if sensitive[t] {
				skipped++
				continue
			}
			compared++
			rv, rok := ref[k][t]
			gv, gok := got[k][t]
			switch {
			case rok && !gok:
				errs = append(errs, fmt.Sprintf("%s @%d: Prometheus %v, qryn no point", k, t-baseMs, rv))
			case !rok && gok:
				errs = append(errs, fmt.Sprintf("%s @%d: Prometheus no point, qryn %v", k, t-baseMs, gv))
			case rok && !sameVal(rv, gv):
				errs = append(errs, fmt.Sprintf("%s @%d: Prometheus %v, qryn %v", k, t-baseMs, rv, gv))
			}
		}
	}
	// classes
	switch {
	case c.Instant:
		o.Tag("instant-query")
	case rebucketed:
		o.Tag("range-query-rebucketed")
	default:
		o.Tag("range-query-raw")
	}
	for _, f := range []string{"rate(", "irate(", "increase(", "delta(", "deriv(", "_over_time(", "changes(", "resets(", " by (", " without (", "offset", "histogram_quantile", "absent(", "scalar("} {
		if strings.Contains(c.Expr, f) {
			o.Tag("expr:" + strings.Trim(f, "( "))
		}
	}
	if strings.Contains(c.Expr, ") + (") || strings.Contains(c.Expr, " and ") || strings.Contains(c.Expr, " or ") || strings.Contains(c.Expr, " unless ") || strings.Contains(c.Expr, ") / (") {
		o.Tag("expr:binary")
	}
	crosses, many, early, lastOnly, lowerEdge := false, false, false, false, false
	for i := range hints {
		h := &hints[i]
		sel := func(s *mSeries) bool { return i < len(selMatchers) && directSelect(s, selMatchers[i]) == vSelect }
		if span, e, l := dayClasses(&c.DB, sel, h); span > 0 {
			crosses, many, early, lastOnly = true, many || span > 1, early || e, lastOnly || l
		}
		if h.Range > 0 && h.Step > h.Range && onLowerEdge(&c.DB, sel, h) {
			lowerEdge = true
		}
	}
	if crosses {
		o.Tag("window-crosses-midnight")
		if many {
			o.Tag("window-spans-3+-days")
		}
		if early {
			o.Tag("midnight:selected-series-stops-before-last-day")
		}
		if lastOnly {
			o.Tag("midnight:selected-series-only-on-last-day")
		}
		if early && lastOnly {
			o.Tag("midnight:both-kinds")
		}
	}
	if lowerEdge {
		o.Tag("step>range:sample-on-window-lower-edge")
	}
	for _, h := range hints {
		if rawOnlyByStep(&h) {
			if c.Instant {
				o.Tag("raw-only-by-step-clause:instant")
			} else {
				o.Tag("raw-only-by-step-clause:range")
			}
			o.Tag("raw-only-by-step-clause:func=" + h.Func)
			break
		}
	}
	if skipped > 0 {
		o.Tag("has-boundary-sensitive-points")
	}
	if len(ref) == 0 {
		o.Tag("empty-result")
	}
	if nsel >= 2 && nrej >= 1 && compared > 0 && len(ref) > 0 {
		o.NonTrivial()
	}
	if len(errs) > 0 {
		sort.Strings(errs)
		if len(errs) > 8 {
			errs = append(errs[:8], fmt.Sprintf("... %d more", len(errs)-8))
		}
		return fmt.Errorf("%s: results differ (%d points compared, %d boundary-sensitive skipped): %s\nSQL: %s", c.describe(), compared, skipped, strings.Join(errs, "; "), strings.Join(be.sqlLog(), "\n     "))
	}
	return nil
}

func (c *e2eCase) describe() string {
	if c.Instant {
		return fmt.Sprintf("instant query %s at base%+dms", c.Expr, c.Start)
	}
	return fmt.Sprintf("range query %s start=base%+dms end=base%+dms step=%dms", c.Expr, c.Start, c.End, c.Step)
}

// selectionClasses records, through a Queryable that only observes, which matcher sets the
// engine hands to Select for this expression, and classifies the stored series.
func (c *e2eCase) selectionClasses() (dontCare bool, nsel, nrej int, hints []storage.SelectHints, selMatchers [][]*labels.Matcher, err error) {
	spy := &spyQueryable{db: &c.DB}
	if _, err = c.run(newEngine(0), spy); err != nil {
		return false, 0, 0, nil, nil, fmt.Errorf("reference run failed: %v", err)
	}
	hints, selMatchers = spy.hints, spy.seen
	for _, ms := range spy.seen {
		s, r := 0, 0
		for i := range c.DB.Series {
			switch directSelect(&c.DB.Series[i], ms) {
			case vDontCare:
				dontCare = true
			case vSelect:
				s++
			default:
				r++
			}
		}
		if s > nsel {
			nsel, nrej = s, r
		}
	}
	return
}

type spyQueryable struct {
	db    *mDB
	seen  [][]*labels.Matcher
	hints []storage.SelectHints
}

func (s *spyQueryable) Querier(ctx context.Context, mint, maxt int64) (storage.Querier, error) {
	return spyQuerier{memQuerier{s.db}, s}, nil
}

type spyQuerier struct {
	memQuerier
	spy *spyQueryable
}

func (q spyQuerier) Select(sorted bool, h *storage.SelectHints, ms ...*labels.Matcher) storage.SeriesSet {
	q.spy.seen = append(q.spy.seen, ms)
	if h != nil {
		q.spy.hints = append(q.spy.hints, *h)
	}
	return q.memQuerier.Select(sorted, h, ms...)
}

func addE2E(r *evid.Run) {
	evid.Add(r, evid.Prop[e2eCase]{Name: "e2e", Quick: 4000, Thorough: 25000, Gen: genE2E, Pred: predE2E})
}

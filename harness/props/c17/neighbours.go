package c17

// neighbours.go: near-collisions under pattern semantics. A selection planner that renders an
// equality as LIKE, as a prefix test or as match(), that forgets to escape a literal, or that
// compares case-insensitively is only visible when the database holds, next to the queried value,
// values that differ from it exactly where such a reading differs from equality:
//   '_' / '%' (LIKE wildcards), '.' '+' '*' '?' '|' '(' '[' (regex), ':' (type_id separator),
//   '-' vs '_', a prefix / suffix extension, a truncation, a change of case, a backslash.
// neighbours(s) lists such values in both directions: values s would match if s were read as a
// pattern (process_cpu -> processXcpu, a%b -> axyzb, a.b -> aXb), and patterns that would match s
// (web -> w_b, w%b, w.b, web|x).

import (
	"regexp"
	"strings"
	"unicode"
)

func neighbours(s string) []string {
	rs := []rune(s)
	seen := map[string]bool{s: true, "": true}
	var out []string
	add := func(v string) {
		if !seen[v] {
			seen[v] = true
			out = append(out, v)
		}
	}
	sub := func(i int, with string) { add(string(rs[:i]) + with + string(rs[i+1:])) }
	for i, r := range rs {
		switch r {
		case '_':
			sub(i, "-")
			sub(i, "X")
			sub(i, ".")
		case '%':
			sub(i, "xyz")
			sub(i, "")
			sub(i, "_")
		case '.':
			sub(i, "X")
			sub(i, "_")
			sub(i, `\.`)
		case '-':
			sub(i, "_")
			sub(i, "%")
		case ':':
			sub(i, "_")
			sub(i, "")
		case '+':
			if i > 0 {
				sub(i, string(rs[i-1])) // a+b as regex matches aab
			}
			sub(i, "")
		case '*', '?':
			sub(i, "")
			sub(i, "X")
		case '|':
			add(string(rs[:i]))
			add(string(rs[i+1:]))
		case '\\':
			sub(i, "")
			sub(i, `\\`)
		}
	}
	// patterns that would match s: put a wildcard / metacharacter on a middle position
	if len(rs) >= 3 {
		m := len(rs) / 2
		for _, w := range []string{"_", "%", ".", ".*", "+", ":"} {
			sub(m, w)
		}
		add(string(rs[:m]) + "%")     // LIKE prefix pattern
		add(string(rs[:m]) + ".*")    // regex prefix pattern
		add(string(rs[:m]) + "|" + s) // alternation containing s
		add("(" + s + ")")            // group
		add("[" + string(rs[0]) + "]" + string(rs[1:]))
	}
	// extensions, truncation
	add(s + "x")
	add("x" + s)
	add(s + "_total")
	add(s + ":x")
	if len(rs) > 1 {
		add(string(rs[:len(rs)-1]))
		add(string(rs[1:]))
	}
	// case
	add(strings.ToUpper(s))
	add(strings.ToLower(s))
	if unicode.IsLower(rs[0]) {
		add(string(unicode.ToUpper(rs[0])) + string(rs[1:]))
	}
	return out
}

// likeToRegexp: ClickHouse LIKE pattern read literally from an unescaped value.
func likeToRegexp(p string) *regexp.Regexp {
	var sb strings.Builder
	sb.WriteString("(?s)^")
	rs := []rune(p)
	for i := 0; i < len(rs); i++ {
		switch rs[i] {
		case '%':
			sb.WriteString(".*")
		case '_':
			sb.WriteString(".")
		case '\\':
			if i+1 < len(rs) {
				i++
			}
			sb.WriteString(regexp.QuoteMeta(string(rs[i])))
		default:
			sb.WriteString(regexp.QuoteMeta(string(rs[i])))
		}
	}
	sb.WriteString("$")
	return regexp.MustCompile(sb.String())
}

// collides: v is not the literal L, but a pattern reading of L (LIKE, regular expression anchored
// or not, prefix / suffix / substring, case-insensitive comparison) would accept v. Used only to
// classify cases (evidence tag "near-collision"), never to decide them.
func collides(L, v string) bool {
	if L == v || L == "" || v == "" {
		return false
	}
	if strings.EqualFold(L, v) || strings.Contains(v, L) {
		return true
	}
	if likeToRegexp(L).MatchString(v) {
		return true
	}
	if re, err := regexp.Compile(L); err == nil && re.MatchString(v) {
		return true
	}
	return false
}

// collidesRe: v is rejected by the anchored regular expression but a laxer reading (not anchored,
// case-insensitive) accepts it.
func collidesRe(pattern, v string) bool {
	a, err := regexp.Compile("^(?:" + pattern + ")$")
	if err != nil || a.MatchString(v) || v == "" {
		return false
	}
	if u, err := regexp.Compile(pattern); err == nil && u.MatchString(v) {
		return true
	}
	if ci, err := regexp.Compile("(?i)^(?:" + pattern + ")$"); err == nil && ci.MatchString(v) {
		return true
	}
	return false
}

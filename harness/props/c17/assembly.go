package c17

// C17(b): the real CLokiQuerier.Select (reader/service/promQueryable.go) over chsim-backed rows.
// For every hint combination the PromQL engine can produce for an instant or range selector
// (promql/engine.go populateSeries/getTimeRangesForSelector) that takes the raw-sample path,
// Select must hand over each selected series once, under its own label set, with its samples
// inside the requested range [hints.Start, hints.End] (closed, as storage.Querier defines it
// and as the engine's windows need it) in ascending time order.
//
// Transformations the raw path applies on purpose and the oracle accepts:
//   - instant selector in a range query (Range == 0, Step > 0): one sample per step bucket,
//     the latest of the bucket, re-stamped to the bucket's upper edge on a grid anchored at
//     hints.Start (transpiler.go processHints). Accepted: every returned sample (t', v') sits
//     on that grid, v' is the value of the latest stored sample in (t'-Step, t'], and every
//     stored in-range sample lies in the bucket of a returned sample. The unmodified samples
//     are accepted as well.
//   - range selector with Step > Range: samples no evaluation window can see may be omitted.
//     Accepted: a sub-sequence of the in-range samples that contains every sample lying in a
//     window [T-Range, T] of an evaluation time T = hints.Start + Range + k*Step <= hints.End.
// Everything else must be exactly the stored samples in range.

import (
	"context"
	"fmt"
	"sort"
	"strings"
	"sync"

	"github.com/metrico/qryn/reader/model"
	"github.com/metrico/qryn/reader/service"
	"github.com/prometheus/prometheus/storage"
	"pgregory.net/rapid"

	"qrynverif/evid"
	"qrynverif/fakesql"
	"qrynverif/readersvc"
)

const lookbackMs = 300_000 // the engine's default lookback (router: LookbackDelta 0 -> 5m)

// queryShape is what the engine derives select hints from.
type queryShape struct {
	Instant bool   `json:"instant,omitempty"` // instant query: start == end, step 0
	Start   int64  `json:"start"`             // ms relative to baseMs
	End     int64  `json:"end"`
	Step    int64  `json:"step"`
	Range   int64  `json:"range"`  // 0: instant vector selector
	Offset  int64  `json:"offset"` // offset modifier of the selector
	Func    string `json:"func"`   // nearest enclosing function / aggregation
}

// hints as engine.go getTimeRangesForSelector + populateSeries compute them.
func (q queryShape) hints() *storage.SelectHints {
	start, end := baseMs+q.Start, baseMs+q.End
	if q.Instant {
		end = start
	}
	if q.Range == 0 {
		start -= lookbackMs
	} else {
		start -= q.Range
	}
	start -= q.Offset
	end -= q.Offset
	h := &storage.SelectHints{Start: start, End: end, Range: q.Range, Func: q.Func}
	if !q.Instant {
		h.Step = q.Step
	}
	return h
}

var (
	instantFuncs = []string{"", "", "abs", "ceil", "floor", "round", "sort", "sgn", "exp", "absent", "scalar"}
	aggFuncs     = []string{"sum", "avg", "min", "max", "count", "group", "topk", "stddev", "quantile"}
	otherFuncs   = []string{"histogram_quantile", "clamp_max", "label_replace", "vector"}
	rangeFuncs   = []string{"rate", "irate", "increase", "delta", "idelta", "deriv", "changes", "resets",
		"sum_over_time", "avg_over_time", "min_over_time", "max_over_time", "count_over_time", "last_over_time",
		"present_over_time", "stddev_over_time", "stdvar_over_time", "quantile_over_time", "predict_linear", "holt_winters"}
	steps = []int64{1000, 2000, 5000, 10000, 3000, 7000, 14000, 1500, 500, 12000, 14999}
	// ranges: below 15 s, exactly 15 s, multiples of 15 s, non-multiples above 15 s
	ranges = []int64{5000, 10000, 30000, 60000, 3000, 20000, 61000, 15000, 1000, 45000, 14999, 15001, 15000, 30000, 60000}
	// offsets move the window of a selector: by whole 15 s buckets, by 1 s, by 1 ms
	offsets = []int64{5000, 7000, 60000, 1000, 15000, 30000, 1, 14999}
)

// rangeBelow picks a range shorter than the step (0 if there is none in the pool).
func rangeBelow(rt *rapid.T, step int64) int64 {
	var c []int64
	for _, r := range ranges {
		if r < step {
			c = append(c, r)
		}
	}
	if len(c) == 0 {
		return 0
	}
	return pick(rt, c, "rangeBelowStep")
}

// genInstantTime: evaluation time of an instant query (/api/v1/query takes any time, fractional
// seconds too). Whether Select may read the 15 s roll-up is decided from the alignment of the
// window (promQueryable.go:142), so two thirds of the times sit exactly on a multiple of 15 s /
// 30 s / 60 s or 1 ms / 1 s next to one; the rest is anywhere.
func genInstantTime(rt *rapid.T) int64 {
	if chance(rt, 33, "anyTime") {
		t := int64(between(rt, 0, 600, "tHalfSec")) * 500
		if chance(rt, 30, "oddMs") {
			t += int64(between(rt, 1, 499, "ms"))
		}
		return t
	}
	unit := pick(rt, []int64{15000, 30000, 60000}, "alignUnit")
	t := int64(between(rt, 0, int(300000/unit), "alignK")) * unit
	if chance(rt, 40, "nextTo") {
		t += pick(rt, []int64{1, -1, 1000, -1000}, "delta")
	}
	return t
}

// rawOnlyByStep classifies hints (evidence only): nothing but the step clause of the path decision
// (promQueryable.go:142 useRawData) keeps this Select on the raw samples - window start on a 15 s
// boundary, range 0 or >= 15 s, and not one of the three functions marked unsupported.
func rawOnlyByStep(h *storage.SelectHints) bool {
	switch h.Func {
	case "quantile_over_time", "stddev_over_time", "stdvar_over_time":
		return false
	}
	return h.Step < 15000 && h.Start%15000 == 0 && (h.Range == 0 || h.Range >= 15000)
}

// genShape draws a query shape biased to the raw path (promQueryable.go:142: Start%15000 != 0 ||
// Step < 15000 || 0 < Range < 15000 || a function the down-sampled path does not support).
func genShape(rt *rapid.T) queryShape {
	q := queryShape{}
	if chance(rt, 60, "matrix") {
		q.Range = pick(rt, ranges, "range")
		q.Func = pick(rt, rangeFuncs, "rfunc")
	} else {
		switch k := between(rt, 0, 9, "fkind"); {
		case k < 5:
			q.Func = pick(rt, instantFuncs, "ifunc")
		case k < 9:
			q.Func = pick(rt, aggFuncs, "afunc")
		default:
			q.Func = pick(rt, otherFuncs, "ofunc")
		}
	}
	if chance(rt, 30, "offset") {
		q.Offset = pick(rt, offsets, "offsetMs")
	}
	if chance(rt, 35, "instantQuery") {
		q.Instant = true
		q.Start = genInstantTime(rt)
		q.End = q.Start
		return q
	}
	// query_range floors start and ceils end to 15 s (promQueryRangeController.go:51)
	q.Start = int64(between(rt, 0, 12, "start15")) * 15000
	q.End = q.Start + int64(between(rt, 1, 12, "len15"))*15000
	q.Step = pick(rt, steps, "step")
	if chance(rt, 15, "bigStep") {
		// steps at or above the threshold reach the raw path for other reasons only
		q.Step = pick(rt, []int64{15000, 20000, 30000, 60000}, "bigStepMs")
	}
	if q.Range >= q.Step && chance(rt, 20, "stepAboveRange") {
		if r := rangeBelow(rt, q.Step); r > 0 {
			q.Range = r
		}
	}
	return q
}

// genSamplesFor draws scrape-like sample arrays around the window [lo, hi] (ms relative to
// baseMs). One sample is pinned at (or 1 / 500 ms around) an anchor - a window edge, the first
// evaluation time, or a random point inside - and the others are laid out before and after it at
// the scrape interval with jitter, gaps and odd milliseconds, so that series straddle the edges.
func genSamplesFor(lo, hi int64, anchors []int64) func(rt *rapid.T, i int) ([]int64, []float64) {
	return func(rt *rapid.T, i int) ([]int64, []float64) {
		n := between(rt, 1, 24, "nsamples")
		interval := pick(rt, []int64{1000, 2500, 5000, 15000, 500, 30000}, "interval")
		var anchor int64
		if chance(rt, 55, "edgeAnchor") {
			anchor = pick(rt, anchors, "anchor") + pick(rt, []int64{0, 0, 0, 1, -1, 500, -500}, "anchorOff")
		} else {
			anchor = lo + int64(between(rt, 0, int((hi-lo)/500), "inside"))*500
		}
		pinned := between(rt, 0, n-1, "pinned")
		gaps := make([]int64, n) // gaps[k] = ts[k] - ts[k-1]
		for k := 1; k < n; k++ {
			d := interval
			if chance(rt, 20, "jitter") {
				d += int64(between(rt, -2, 6, "jit")) * 250
			}
			if chance(rt, 8, "gap") {
				d += interval * int64(between(rt, 2, 80, "gapLen"))
			}
			if chance(rt, 5, "oddMs") {
				d++
			}
			if d <= 0 {
				d = 1
			}
			gaps[k] = d
		}
		ts := make([]int64, n)
		ts[pinned] = anchor
		for k := pinned + 1; k < n; k++ {
			ts[k] = ts[k-1] + gaps[k]
		}
		for k := pinned - 1; k >= 0; k-- {
			ts[k] = ts[k+1] - gaps[k+1]
		}
		counter := chance(rt, 50, "counter")
		v := float64(between(rt, 0, 50, "v0"))
		vs := make([]float64, n)
		for k := 0; k < n; k++ {
			vs[k] = v
			if counter {
				v += float64(between(rt, 0, 5, "inc"))
				if chance(rt, 4, "reset") {
					v = 0
				}
			} else {
				v = float64(between(rt, -20, 80, "gauge")) / 2
			}
		}
		return ts, vs
	}
}

func samplesForHints(h *storage.SelectHints) func(rt *rapid.T, i int) ([]int64, []float64) {
	lo, hi := h.Start-baseMs, h.End-baseMs
	anchors := []int64{lo, hi, lo + h.Range}
	if h.Step > 0 {
		anchors = append(anchors, lo+h.Range+h.Step, lo+h.Step)
	}
	if h.Range > 0 && h.Step > h.Range {
		// lower edges T-Range of the first evaluation windows (closed windows of the pinned engine)
		anchors = []int64{lo, lo, lo + h.Step, lo + h.Step, lo + 2*h.Step, lo + h.Range, lo + h.Range + h.Step, hi}
	}
	return genSamplesFor(lo, hi, anchors)
}

type asmCase struct {
	DB mDB        `json:"db"`
	Ms []mMatcher `json:"matchers"`
	Q  queryShape `json:"query"`
}

func genAsm(rt *rapid.T) asmCase {
	q := genShape(rt)
	gen := samplesForHints
	if chance(rt, 22, "acrossDays") {
		q = shapeAcrossDays(rt, q)
		gen = func(h *storage.SelectHints) func(rt *rapid.T, i int) ([]int64, []float64) {
			return genSamplesAcrossDays(h.Start-baseMs, h.End-baseMs)
		}
	}
	h := q.hints()
	db := genMDB(rt, 7, gen(h))
	return asmCase{DB: db, Ms: genMatchers(rt, &db, 2), Q: q}
}

// onLowerEdge (evidence only): a selected series has a sample exactly on the lower edge T-Range of
// an evaluation window, T = Start + Range + k*Step <= End (windows of the pinned engine are closed).
func onLowerEdge(db *mDB, selected func(s *mSeries) bool, h *storage.SelectHints) bool {
	first := h.Start + h.Range
	for i := range db.Series {
		s := &db.Series[i]
		if !selected(s) {
			continue
		}
		for _, w := range inRange(s, h) {
			if d := w.T + h.Range - first; d >= 0 && d%h.Step == 0 && w.T+h.Range <= h.End {
				return true
			}
		}
	}
	return false
}

// shapeAcrossDays moves a query shape so that its select window contains a UTC midnight: either
// the evaluation time / query start is put next to the midnight after baseMs (the look-back or
// the range reaches over it), or the range selector is made one to three days long.
func shapeAcrossDays(rt *rapid.T, q queryShape) queryShape {
	if chance(rt, 45, "longRange") {
		q.Range = pick(rt, dayRanges, "dayRange")
		q.Func = pick(rt, rangeFuncs, "rfunc")
		if q.Instant {
			q.Start = midnightRel + int64(between(rt, -7200, 7200, "aroundMidnightSec"))*1000
			q.End = q.Start
		} else {
			q.Start = midnightRel + int64(between(rt, -40, 40, "start15"))*15000
			q.End = q.Start + int64(between(rt, 1, 8, "len15"))*15000
		}
		return q
	}
	if q.Instant {
		reach := int64(lookbackMs)
		if q.Range > 0 {
			reach = q.Range
		}
		// T - offset - reach < midnight <= T - offset
		q.Start = midnightRel + q.Offset + int64(between(rt, 0, int(reach/500)-1, "afterMidnight"))*500
		q.End = q.Start
		return q
	}
	n := (q.End - q.Start) / 15000
	q.Start = midnightRel - int64(between(rt, 0, int(n), "beforeMidnight15"))*15000
	q.End = q.Start + n*15000
	return q
}

var globalsOnce sync.Once

// newQueryable builds the storage adapter exactly as router/prometheusQueryRangeRouter.go:32
// does (service.CLokiQueriable{ServiceData{Session: registry}}) over a chsim-backed fake
// database. readersvc.NewReader is called once for the process globals it sets (reader config,
// silent logger); building the whole route table per case would dominate the run time.
func newQueryable(be *backend) (*service.CLokiQueriable, func()) {
	globalsOnce.Do(func() { readersvc.NewReader(be.handle).Close() })
	fdb := fakesql.New(be.handle)
	return &service.CLokiQueriable{ServiceData: model.ServiceData{Session: fdb.Registry(nil)}}, fdb.Close
}

type point struct {
	T int64
	V float64
}

type gotSeries struct {
	Labels string
	Pts    []point
}

// runSelect drives the real Queryable the way the engine does and drains the series set.
func runSelect(db *mDB, ms []mMatcher, h *storage.SelectHints) (out []gotSeries, be *backend, err error) {
	pms, err := promMatchers(ms)
	if err != nil {
		return nil, nil, err
	}
	be = &backend{db: db.buildCH()}
	qb, closeDB := newQueryable(be)
	defer closeDB()
	ctx := context.Background()
	qr, err := qb.SetOidAndDB(ctx).Querier(ctx, h.Start, h.End)
	if err != nil {
		return nil, be, err
	}
	defer qr.Close()
	hc := *h
	ss := qr.Select(false, &hc, pms...)
	for ss.Next() {
		s := ss.At()
		g := gotSeries{Labels: s.Labels().String()}
		it := s.Iterator()
		for it.Next() {
			t, v := it.At()
			g.Pts = append(g.Pts, point{t, v})
		}
		if it.Err() != nil {
			return nil, be, it.Err()
		}
		out = append(out, g)
	}
	return out, be, ss.Err()
}

func inRange(s *mSeries, h *storage.SelectHints) []point {
	var out []point
	for k, t := range s.Ts {
		if abs := baseMs + t; abs >= h.Start && abs <= h.End {
			out = append(out, point{abs, s.Vals[k]})
		}
	}
	return out
}

// windowNeeded: the in-range samples some evaluation window [T-Range, T] contains, for the
// evaluation times (minus offset) T = Start+Range, Start+Range+Step, ... <= End.
func windowNeeded(want []point, h *storage.SelectHints) []point {
	var out []point
	first := h.Start + h.Range
	for _, w := range want {
		k := int64(0)
		if w.T > first {
			k = (w.T - first + h.Step - 1) / h.Step // smallest k with T_k >= w.T
		}
		T := first + k*h.Step
		if T <= h.End && w.T >= T-h.Range && w.T <= T {
			out = append(out, w)
		}
	}
	return out
}

// checkSamples decides one returned series against the stored one. It returns the accepted
// form ("raw", "rebucket", "window-subset") or an error text.
func checkSamples(got []point, s *mSeries, h *storage.SelectHints) (string, string) {
	want := inRange(s, h)
	for i := 1; i < len(got); i++ {
		if got[i].T <= got[i-1].T {
			return "", fmt.Sprintf("samples not strictly ascending: %v", got)
		}
	}
	if len(got) == 0 {
		return "", "series handed over without samples"
	}
	same := len(got) == len(want)
	if same {
		for i := range got {
			if got[i] != want[i] {
				same = false
			}
		}
	}
	if same {
		return "raw", ""
	}
	switch {
	case h.Range == 0 && h.Step > 0:
		// re-bucketed instant selector
		covered := make([]bool, len(want))
		for _, g := range got {
			if (g.T-h.Start)%h.Step != 0 || g.T < h.Start {
				return "", fmt.Sprintf("sample at %d is neither a stored sample nor on the step grid anchored at %d (step %d); stored in range: %v, got: %v", g.T, h.Start, h.Step, want, got)
			}
			last := -1
			for i, w := range want {
				if w.T > g.T-h.Step && w.T <= g.T {
					covered[i] = true
					last = i
				}
			}
			if last < 0 {
				return "", fmt.Sprintf("sample at %d has no stored sample in its step bucket; stored in range: %v, got: %v", g.T, want, got)
			}
			if want[last].V != g.V {
				return "", fmt.Sprintf("bucket ending at %d carries %v, the latest stored sample of the bucket is %v; stored in range: %v, got: %v", g.T, g.V, want[last], want, got)
			}
		}
		for i, c := range covered {
			if !c {
				return "", fmt.Sprintf("stored sample %v inside [%d,%d] is not represented; got: %v", want[i], h.Start, h.End, got)
			}
		}
		return "rebucket", ""
	case h.Range > 0 && h.Step > h.Range:
		// sub-sequence of want containing every sample an evaluation window can see
		j := 0
		for _, g := range got {
			for j < len(want) && want[j] != g {
				j++
			}
			if j == len(want) {
				return "", fmt.Sprintf("sample %v is not a stored sample in range (or out of order); stored in range: %v, got: %v", g, want, got)
			}
			j++
		}
		have := map[int64]bool{}
		for _, g := range got {
			have[g.T] = true
		}
		for _, w := range windowNeeded(want, h) {
			if !have[w.T] {
				return "", fmt.Sprintf("stored sample %v lies in the window of an evaluation time (range %d, step %d, first evaluation at %d) but is not handed over; stored in range: %v, got: %v", w, h.Range, h.Step, h.Start+h.Range, want, got)
			}
		}
		return "window-subset", ""
	}
	return "", fmt.Sprintf("samples differ from the stored samples inside [%d,%d]: stored %v, got %v", h.Start, h.End, want, got)
}

func predAsm(c asmCase, o *evid.Obs) error {
	resetGlobals()
	if len(c.DB.Series) == 0 || len(c.Ms) == 0 {
		o.Discard("empty-case")
		return nil
	}
	pms, err := promMatchers(c.Ms)
	if err != nil {
		o.Discard("invalid-regex")
		return nil
	}
	h := c.Q.hints()
	restore := readersvc.Quiet()
	got, be, err := runSelect(&c.DB, c.Ms, h)
	restore()
	if be != nil {
		// Steps below the down-sampling threshold (step 0 of instant queries included) are the
		// property's raw-sample path: there a Select answered from the roll-up is judged like any
		// other answer. At 15 s and above the roll-up is a legitimate choice outside the domain.
		for _, q := range be.sqlLog() {
			if strings.Contains(q, "metrics_15s") {
				if h.Step >= 15000 {
					o.Discard("downsampled-path")
					return nil
				}
				o.Tag("roll-up-read-below-threshold")
			}
		}
		if unsup, rec := be.firstErr(); rec != nil {
			if unsup {
				o.Discard("chsim-unsupported")
				return nil
			}
			return fmt.Errorf("hints %+v matchers %v: ClickHouse would reject: %v\n%s", *h, c.Ms, rec.Err, rec.SQL)
		}
	}
	if err != nil {
		return fmt.Errorf("hints %+v matchers %v: Select failed: %v", *h, c.Ms, err)
	}
	byLabels := map[string]*mSeries{}
	for i := range c.DB.Series {
		s := &c.DB.Series[i]
		if !s.Log {
			byLabels[s.promLabels().String()] = s
		}
	}
	seen := map[string]bool{}
	var errs []string
	forms := map[string]bool{}
	for _, g := range got {
		s := byLabels[g.Labels]
		if s == nil {
			errs = append(errs, fmt.Sprintf("series %s handed over: no stored metric series has this label set", g.Labels))
			continue
		}
		if seen[g.Labels] {
			errs = append(errs, fmt.Sprintf("series %s handed over more than once", g.Labels))
			continue
		}
		seen[g.Labels] = true
		if directSelect(s, pms) == vReject {
			errs = append(errs, fmt.Sprintf("series %s does not satisfy the matchers but is handed over", g.Labels))
			continue
		}
		form, msg := checkSamples(g.Pts, s, h)
		if msg != "" {
			errs = append(errs, fmt.Sprintf("series %s: %s", g.Labels, msg))
			continue
		}
		forms[form] = true
	}
	nsel, nrej, dropped, edge := 0, 0, false, false
	for i := range c.DB.Series {
		s := &c.DB.Series[i]
		switch directSelect(s, pms) {
		case vReject:
			nrej++
		case vSelect:
			want := inRange(s, h)
			if len(want) < len(s.Ts) {
				dropped = true
			}
			for _, w := range want {
				if w.T == h.Start || w.T == h.End {
					edge = true
				}
			}
			if len(want) == 0 {
				continue // nothing to hand over
			}
			nsel++
			if !seen[s.promLabels().String()] {
				// with Step > Range the in-range samples may all be invisible to the engine
				if h.Range > 0 && h.Step > h.Range && len(windowNeeded(want, h)) == 0 {
					continue
				}
				errs = append(errs, fmt.Sprintf("series %s satisfies the matchers and has samples %v inside [%d,%d] but is not handed over", s.promLabels(), want, h.Start, h.End))
			}
		}
	}
	for f := range forms {
		o.Tag("form-" + f)
	}
	switch {
	case c.Q.Instant:
		o.Tag("instant-query")
	case c.Q.Range > 0 && c.Q.Step > c.Q.Range:
		o.Tag("range-query-step>range")
	case c.Q.Range > 0:
		o.Tag("range-query-matrix")
	default:
		o.Tag("range-query-instant-selector")
	}
	if c.Q.Step >= 15000 {
		o.Tag("step>=15s")
	}
	if span, early, lastOnly := dayClasses(&c.DB, func(s *mSeries) bool { return directSelect(s, pms) == vSelect }, h); span > 0 {
		o.Tag("window-crosses-midnight")
		if span > 1 {
			o.Tag("window-spans-3+-days")
		}
		if early {
			o.Tag("midnight:selected-series-stops-before-last-day")
		}
		if lastOnly {
			o.Tag("midnight:selected-series-only-on-last-day")
		}
		if early && lastOnly {
			o.Tag("midnight:both-kinds")
		}
	}
	if h.Range > 0 && h.Step > h.Range {
		if onLowerEdge(&c.DB, func(s *mSeries) bool { return directSelect(s, pms) == vSelect }, h) {
			o.Tag("step>range:sample-on-window-lower-edge")
		}
	}
	if rawOnlyByStep(h) {
		if c.Q.Instant {
			o.Tag("raw-only-by-step-clause:instant")
		} else {
			o.Tag("raw-only-by-step-clause:range")
		}
		o.Tag("raw-only-by-step-clause:func=" + h.Func)
	}
	if edge {
		o.Tag("sample-on-range-edge")
	}
	if len(got) == 0 {
		o.Tag("nothing-handed-over")
	}
	if nsel >= 2 && nrej >= 1 && dropped {
		o.NonTrivial()
	}
	if len(errs) > 0 {
		sort.Strings(errs)
		return fmt.Errorf("hints %+v matchers %v: %s\nSQL: %s", *h, c.Ms, strings.Join(errs, "; "), strings.Join(be.sqlLog(), "\n     "))
	}
	return nil
}

func addAssembly(r *evid.Run) {
	evid.Add(r, evid.Prop[asmCase]{Name: "assembly", Quick: 4000, Thorough: 25000, Gen: genAsm, Pred: predAsm})
}

package c14

// Query generators: a small LogQL grammar of its own (printed through refeval.Expr), the
// C11 TraceQL grammar, and a handful of profile selectors. Queries the planners reject are
// discards (the property is about queries that translate).

import (
	"pgregory.net/rapid"

	"qrynverif/props/c11"
	"qrynverif/refeval"
)

// rapid's integer generators favour small and boundary values, which would make the first
// pool element and the rare branches dominate. spread() maps the drawn value through a
// multiplicative hash (0 stays 0, so cases still shrink towards the first element / the
// common branch) to get a near-uniform choice.
func spread(rt *rapid.T, label string) uint64 {
	x := rapid.Uint64().Draw(rt, label)
	return (x * 0x9E3779B97F4A7C15) >> 24
}

func pick[T any](rt *rapid.T, xs []T, label string) T {
	return xs[int(spread(rt, label)%uint64(len(xs)))]
}

func chance(rt *rapid.T, percent int, label string) bool {
	return int(spread(rt, label)%100) >= 100-percent
}

var (
	labelNames = []string{"app", "env", "job"}
	labelVals  = []string{"a", "b", "prod", "x.y"}
	matcherRes = []string{"a|b", "pr.*", ".+", "x\\.y"}
	// line filter texts: plain, with LIKE wildcards, regex that are literals after parsing
	// (`a\.b`, `(?i)err`), and real regex
	lineTexts   = []string{"err", "a.b", "100%", "a_b", "it's", "x"}
	lineRegexes = []string{"err", `a\.b`, "(?i)err", "a.b", "e+rr", "x|y", `\d+`, "(?i)a\\.b", "100%", "a_b"}
	extracted   = []string{"lvl", "n", "msg"}
	jsonPaths   = []string{"order.items[0]", "order.items[1]", "a[2].b", "a[0]", "x.y", "n"}
	rangeFns    = []string{"rate", "count_over_time", "bytes_rate", "bytes_over_time"}
	unwrapFns   = []string{"sum_over_time", "avg_over_time", "max_over_time", "min_over_time", "rate", "first_over_time", "last_over_time"}
	aggFns      = []string{"sum", "min", "max", "avg", "count"}
)

func genMatchers(rt *rapid.T) []refeval.Matcher {
	n := rapid.IntRange(1, 2).Draw(rt, "nmatchers")
	var ms []refeval.Matcher
	names := append([]string(nil), labelNames...)
	for i := 0; i < n; i++ {
		k := rapid.IntRange(0, len(names)-1).Draw(rt, "mname")
		name := names[k]
		names = append(names[:k], names[k+1:]...)
		op := pick(rt, []string{"=", "=", "!=", "=~", "!~"}, "mop")
		val := pick(rt, labelVals, "mval")
		if op == "=~" || op == "!~" {
			val = pick(rt, matcherRes, "mre")
		}
		ms = append(ms, refeval.Matcher{Name: name, Op: op, Val: val})
	}
	if ms[0].Op == "!=" || ms[0].Op == "!~" {
		ms[0].Op = "=" // at least one positive matcher, as clients send
		ms[0].Val = pick(rt, labelVals, "mval0")
	}
	return ms
}

func genLineFilter(rt *rapid.T) refeval.Stage {
	op := pick(rt, []string{"|=", "!=", "|~", "|~", "!~"}, "lfop")
	val := pick(rt, lineTexts, "lftext")
	if op == "|~" || op == "!~" {
		val = pick(rt, lineRegexes, "lfre")
	}
	return refeval.Stage{Kind: refeval.KLineFilter, Op: op, Val: val}
}

func genLabelFilter(rt *rapid.T, names []string) refeval.Stage {
	leaf := func() *refeval.LabelFilter {
		if chance(rt, 50, "lfStr") {
			v := pick(rt, labelVals, "lfval")
			return &refeval.LabelFilter{Label: pick(rt, names, "lfname"), Cmp: pick(rt, []string{"=", "!=", "=~", "!~"}, "lfcmp"), Str: &v}
		}
		return &refeval.LabelFilter{Label: pick(rt, names, "lfname"), Cmp: pick(rt, []string{"==", "!=", ">", ">=", "<", "<="}, "lfncmp"), Num: pick(rt, []string{"1", "5", "2.5"}, "lfnum")}
	}
	f := leaf()
	if chance(rt, 30, "lfBool") {
		f = &refeval.LabelFilter{Bool: pick(rt, []string{"and", "or"}, "lfbool"), L: f, R: leaf()}
	}
	return refeval.Stage{Kind: refeval.KLabelFilter, Filter: f}
}

func genStages(rt *rapid.T, unwrap bool) []refeval.Stage {
	var st []refeval.Stage
	names := append([]string(nil), labelNames...)
	n := rapid.IntRange(0, 3).Draw(rt, "nstages")
	parsed := false
	for i := 0; i < n; i++ {
		switch k := int(spread(rt, "stageKind") % 100); {
		case k < 45:
			st = append(st, genLineFilter(rt))
		case k < 62:
			st = append(st, genLabelFilter(rt, names))
		case k < 80:
			var ps []refeval.Param
			for _, e := range extracted {
				if chance(rt, 60, "jsonParam") {
					path := e
					if chance(rt, 45, "jsonArrayPath") {
						// paths with array indexes, shared between queries of one process
						path = pick(rt, jsonPaths, "jsonPath")
					}
					ps = append(ps, refeval.Param{Name: e, Val: path})
				}
			}
			if len(ps) == 0 {
				ps = []refeval.Param{{Name: "n", Val: "n"}}
			}
			st = append(st, refeval.Stage{Kind: refeval.KJSON, Params: ps})
			names = append(names, extracted...)
			parsed = true
		case k < 86:
			st = append(st, refeval.Stage{Kind: refeval.KRegexp, Val: `(?P<n>\d+)`})
			names = append(names, "n")
			parsed = true
		case k < 92:
			st = append(st, refeval.Stage{Kind: refeval.KDrop, Params: []refeval.Param{{Name: pick(rt, names, "dropName")}}})
		case k < 96:
			st = append(st, refeval.Stage{Kind: refeval.KLineFormat, Val: "{{.app}} x"})
		default:
			st = append(st, refeval.Stage{Kind: refeval.KJSON}) // parameterless json: in-process stage
			parsed = true
		}
	}
	if unwrap {
		if !parsed {
			st = append(st, refeval.Stage{Kind: refeval.KJSON, Params: []refeval.Param{{Name: "n", Val: "n"}}})
		}
		st = append(st, refeval.Stage{Kind: refeval.KUnwrap, Label: "n"})
	}
	return st
}

func genGrouping(rt *rapid.T) *refeval.Grouping {
	g := &refeval.Grouping{Without: chance(rt, 35, "without"), Suffix: chance(rt, 30, "suffix")}
	n := rapid.IntRange(1, 2).Draw(rt, "ngroup")
	for i := 0; i < n; i++ {
		l := pick(rt, labelNames, "glabel")
		dup := false
		for _, x := range g.Labels {
			dup = dup || x == l
		}
		if !dup {
			g.Labels = append(g.Labels, l)
		}
	}
	return g
}

func genLogQL(rt *rapid.T) *refeval.Expr {
	e := &refeval.Expr{Matchers: genMatchers(rt)}
	kind := int(spread(rt, "logKind") % 100)
	switch {
	case kind < 40: // log query
		e.Stages = genStages(rt, false)
		return e
	case kind < 75:
		e.Stages = genStages(rt, false)
		e.RangeFn = pick(rt, rangeFns, "rangeFn")
	default:
		e.Stages = genStages(rt, true)
		e.RangeFn = pick(rt, unwrapFns, "unwrapFn")
		if chance(rt, 30, "rangeGroup") {
			e.RangeGroup = genGrouping(rt)
		}
	}
	r := pick(rt, []struct {
		n int64
		u string
	}{{5, "s"}, {1, "m"}, {30, "s"}, {5, "m"}}, "range")
	e.RangeN, e.RangeUnit = r.n, r.u
	if chance(rt, 60, "agg") {
		e.AggFn = pick(rt, aggFns, "aggFn")
		if chance(rt, 80, "aggGroup") {
			e.AggGroup = genGrouping(rt)
		}
		if chance(rt, 15, "aggCmp") {
			e.AggCmp = &refeval.Comparison{Op: pick(rt, []string{">", "<", "==", "!="}, "cmpOp"), Val: pick(rt, []string{"0", "1", "2.5"}, "cmpVal")}
		}
	} else if chance(rt, 15, "rangeCmp") {
		e.RangeCmp = &refeval.Comparison{Op: pick(rt, []string{">", "<", "==", "!="}, "cmpOp"), Val: pick(rt, []string{"0", "1", "2.5"}, "cmpVal")}
	}
	if chance(rt, 10, "topk") {
		e.TopFn = pick(rt, []string{"topk", "bottomk"}, "topFn")
		e.TopK = rapid.IntRange(1, 3).Draw(rt, "k")
	}
	return e
}

var profSelectors = []string{`{}`, `{service_name="a"}`, `{service_name=~"a|b", env!="x"}`, "{service_name=`a`}", `{env!~"x.*"}`}

func genProf(rt *rapid.T) *profSpec {
	p := &profSpec{Fn: pick(rt, []string{"series", "label_names", "label_values", "merge_profiles", "select_series"}, "profFn"), Selector: pick(rt, profSelectors, "profSel")}
	if chance(rt, 40, "profGroup") {
		p.GroupBy = []string{pick(rt, []string{"env", "service_name"}, "profBy")}
	}
	return p
}

func genQuery(rt *rapid.T) querySpec {
	switch k := int(spread(rt, "lang") % 100); {
	case k < 48:
		return querySpec{Kind: "logql", Log: genLogQL(rt)}
	case k < 76:
		q := c11.GenScript(rt)
		if chance(rt, 25, "durAgg") {
			addDurationAgg(rt, &q)
		}
		return querySpec{Kind: "traceql", Trace: &q}
	case k < 86:
		return querySpec{Kind: "prof", Prof: genProf(rt)}
	case k < 93:
		return genTraceTags(rt)
	default:
		return genLabels(rt)
	}
}

// genTraceTags: TraceQL tag names / tag values (v2), with a selector or without (the
// "all tags of the window's days" statements, bounded by formatted dates).
func genTraceTags(rt *rapid.T) querySpec {
	l := &lookupSpec{Fn: pick(rt, []string{"tags", "values"}, "tagsFn"), Key: pick(rt, []string{"a", "service.name"}, "tagKey")}
	q := querySpec{Kind: "tracetags", Lookup: l}
	if chance(rt, 50, "tagsWithQuery") {
		t := c11.GenScript(rt)
		t.Sels, t.Ops = t.Sels[:1], nil
		q.Trace = &t
	}
	return q
}

// genLabels: Prometheus / Loki label-name and label-value lookups (QueryLabelsService).
func genLabels(rt *rapid.T) querySpec {
	l := &lookupSpec{Fn: pick(rt, []string{"labels", "values", "values"}, "labelsFn"), Key: pick(rt, labelNames, "labelKey")}
	if l.Fn == "values" && chance(rt, 40, "labelsMatch") {
		l.Match = []string{(&refeval.Expr{Matchers: genMatchers(rt)}).Selector()}
	}
	return querySpec{Kind: "labels", Lookup: l}
}

const baseS = 1_700_000_000

// dayStartS is 2023-11-15 00:00:00 UTC. Date bounds are rendered from From - 30 min
// (FormatFromDate), so a window starting in 00:00–00:30 reaches into the previous day while
// a later window of the same day does not.
const dayStartS = 1_700_006_400

func genFrom(rt *rapid.T) int64 {
	var s int64
	switch k := int(spread(rt, "fromKind") % 100); {
	case k < 30:
		s = dayStartS + int64(spread(rt, "earlyOff")%1800)
	case k < 55:
		s = dayStartS + 1800 + int64(spread(rt, "laterOff")%84_000)
	case k < 67:
		s = dayStartS - 1 - int64(spread(rt, "prevOff")%7200)
	case k < 77:
		s = dayStartS + 86_400 + int64(spread(rt, "nextOff")%3600)
	default:
		s = baseS + int64(rapid.IntRange(0, 600).Draw(rt, "fromOff"))
	}
	return s * 1e9
}

// otherWindow moves a request to another window: same UTC day early / later, previous or next day.
func otherWindow(rt *rapid.T, p execParams) execParams {
	n := p
	w := p.ToNs - p.FromNs
	for k := 0; k < 4 && n.FromNs == p.FromNs; k++ {
		n.FromNs = genFrom(rt) + p.FromNs%1e9
	}
	n.ToNs = n.FromNs + w
	return n
}

// genParams draws execution parameters valid for the query kind: matrix LogQL queries get a
// positive step and From < To (QueryRange validates both before planning); log queries are
// run as Tail does (limit 0, step 0) or as a range query.
func genParams(rt *rapid.T, q querySpec) execParams {
	from := genFrom(rt)
	p := execParams{FromNs: from, ToNs: from + int64(rapid.IntRange(1, 900).Draw(rt, "width"))*1e9}
	switch q.Kind {
	case "logql":
		if q.Log.IsMetric() {
			p.StepMs = int64(pick(rt, []int{1000, 5000, 15000, 60000}, "step"))
			p.Limit = int64(pick(rt, []int{0, 100}, "limit"))
		} else if chance(rt, 50, "tailStyle") {
			p.FromNs += int64(rapid.IntRange(0, 999_999_999).Draw(rt, "fromNs"))
			p.ToNs += int64(rapid.IntRange(0, 999_999_999).Draw(rt, "toNs"))
		} else {
			p.Limit = int64(pick(rt, []int{10, 100}, "limit"))
			p.Forward = rapid.Bool().Draw(rt, "forward")
		}
	case "traceql":
		p.ToNs = p.FromNs + 100e9 // the C11 database generator places spans on a 100 s window
		p.Limit = int64(pick(rt, []int{1, 3, 20}, "limit"))
		p.Complexity = int64(pick(rt, []int{5, 5, 10_000_001, 25_000_000}, "complexity"))
	case "prof":
		p.Limit = int64(pick(rt, []int{0, 10}, "limit"))
	}
	genConfig(rt, &p)
	return p
}

var (
	clusterNames = []string{"c1", "c2"}
	dbNames      = []string{"logs_eu", "logs_us"} // two databases of one cluster
)

// genConfig: single node (60 %) or a cluster with one of two database names.
func genConfig(rt *rapid.T, p *execParams) {
	p.Cluster, p.DB = "", ""
	if chance(rt, 40, "cluster") {
		p.Cluster = pick(rt, clusterNames, "clusterName")
		p.DB = pick(rt, dbNames, "dbName")
	}
}

// traceAggUnits: every unit the TraceQL lexer accepts after an aggregate's number; the
// planner converts with time.ParseDuration, which rejects `d` — identically on every
// execution of the unchanged tree.
var traceAggUnits = []string{"ns", "us", "ms", "s", "m", "h", "d"}

func addDurationAgg(rt *rapid.T, q *refeval.TQScript) {
	if len(q.Sels) == 0 || q.Sels[0].Expr == nil {
		return
	}
	q.Sels[0].Agg = &refeval.TQAgg{
		Fn:   pick(rt, []string{"avg", "min", "max", "sum"}, "durAggFn"),
		Attr: "duration",
		Cmp:  pick(rt, []string{">", ">=", "<", "<=", "=", "!="}, "durAggCmp"),
		Num:  pick(rt, []string{"1", "2", "1.5", "0.5"}, "durAggNum"),
		Unit: pick(rt, traceAggUnits, "durAggUnit"),
	}
}

// advance draws the parameters of the next execution of the same plan: the window moves
// forward (Tail: from = last entry + 1 ns, to = now), now and then across a UTC midnight.
func advance(rt *rapid.T, p execParams, q querySpec) execParams {
	n := p
	var d int64
	switch k := int(spread(rt, "advance") % 100); {
	case k < 70:
		d = int64(rapid.IntRange(1, 5).Draw(rt, "advS")) * 1e9
	case k < 85:
		d = int64(rapid.IntRange(1, 999_999).Draw(rt, "advNs"))
	default:
		d = 86_400 * 1e9
	}
	if q.Kind == "logql" && !q.Log.IsMetric() && p.Limit == 0 {
		n.FromNs += int64(rapid.IntRange(0, int(min64(d, 2e9))).Draw(rt, "fromAdv")) // Tail: from follows the data
		n.ToNs += d
	} else {
		if d < 1e9 {
			d = 1e9
		}
		n.FromNs += d
		n.ToNs += d
	}
	return n
}

func min64(a, b int64) int64 {
	if a < b {
		return a
	}
	return b
}

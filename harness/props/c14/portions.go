package c14

// Sub-check "portions": the re-execution schedule of the per-portion TraceQL processor.
//
// traceql_transpiler.ComplexRequestProcessor.Process is run for real (its own loop): ONE
// plan object and ONE PlannerContext are processed once per portion, with the portion
// filter (cityHash64(trace_id) % Max == I) and the growing list of cached trace ids of the
// earlier portions. The fake database executes every statement with chsim over a generated
// trace store, so winners come back and the cache is non-empty from the first portion
// that finds something. A recording planner in front of the plan snapshots the context at
// every call. Oracle: the statement of portion k must equal what a FRESHLY built plan
// renders for a fresh context holding the same window, limit, portion filter and cached
// ids — same text, else same tokens, else same rows under chsim; a re-executed statement
// that ClickHouse rejects (undefined alias, no longer parses) while the fresh one runs is
// a violation.

import (
	"context"
	"errors"
	"fmt"
	"time"

	"github.com/metrico/qryn/reader/logql/logql_transpiler_v2/shared"
	traceql_parser "github.com/metrico/qryn/reader/traceql/parser"
	traceql_transpiler "github.com/metrico/qryn/reader/traceql/transpiler"
	"github.com/metrico/qryn/reader/traceql/transpiler/clickhouse_transpiler"
	sql "github.com/metrico/qryn/reader/utils/sql_select"
	"pgregory.net/rapid"

	"qrynverif/chsim"
	"qrynverif/evid"
	"qrynverif/fakesql"
	"qrynverif/props/c11"
	"qrynverif/refeval"
)

type portionsCase struct {
	Q          refeval.TQScript `json:"q"`
	Text       string           `json:"text"`
	DB         refeval.TQDB     `json:"db"`
	FromS      int64            `json:"from_s"`
	ToS        int64            `json:"to_s"`
	Limit      int              `json:"limit"`
	Complexity int64            `json:"complexity"`
}

func genPortions(rt *rapid.T) portionsCase {
	s := c11.GenSpread(rt)
	c := portionsCase{Q: s.Q, Text: s.Q.String(), DB: s.DB, FromS: s.FromS, ToS: s.ToS, Limit: s.Limit, Complexity: s.Complexity}
	if chance(rt, 25, "genericDB") {
		// the generic C11 database: spans outside the window, missing attributes, ties
		c.DB = c11.GenDB(rt, c.FromS*1e9, c.ToS*1e9)
	}
	if chance(rt, 20, "genericQuery") {
		c.Q = c11.GenScript(rt)
	}
	if chance(rt, 30, "durAgg") {
		// duration aggregate with any unit the lexer accepts (also `d`, which the planner rejects)
		addDurationAgg(rt, &c.Q)
	}
	c.Text = c.Q.String()
	return c
}

// snapshot of the context at one call of the plan
type ctxSnap struct {
	From, To time.Time
	Limit    int64
	Filter   shared.RandomFilter
	Cached   []string
}

type snapPlanner struct {
	main  shared.SQLRequestPlanner
	snaps []ctxSnap
	errs  []error
}

func (s *snapPlanner) Process(ctx *shared.PlannerContext) (sql.ISelect, error) {
	s.snaps = append(s.snaps, ctxSnap{From: ctx.From, To: ctx.To, Limit: ctx.Limit, Filter: ctx.RandomFilter,
		Cached: append([]string(nil), ctx.CachedTraceIds...)})
	res, err := s.main.Process(ctx)
	s.errs = append(s.errs, err)
	return res, err
}

func traceCtx(from, to time.Time, limit int64, db *fakesql.DB) *shared.PlannerContext {
	ctx, cancel := context.WithCancel(context.Background())
	pc := &shared.PlannerContext{
		From: from, To: to, Limit: limit, Ctx: ctx, CancelCtx: cancel,
		VersionInfo:          map[string]int64{},
		TracesAttrsTable:     "tempo_traces_attrs_gin",
		TracesAttrsDistTable: "tempo_traces_attrs_gin",
		TracesTable:          "tempo_traces",
		TracesDistTable:      "tempo_traces",
		TracesKVTable:        "tempo_traces_kv",
		TracesKVDistTable:    "tempo_traces_kv",
	}
	if db != nil {
		pc.CHDb = db.Session()
	}
	return pc
}

func renderFresh(script *traceql_parser.TraceQLScript, s ctxSnap) (string, error) {
	plan, err := clickhouse_transpiler.Plan(script)
	if err != nil {
		return "", err
	}
	pc := traceCtx(s.From, s.To, s.Limit, nil)
	defer pc.CancelCtx()
	pc.RandomFilter = s.Filter
	pc.CachedTraceIds = append([]string(nil), s.Cached...)
	req, err := plan.Process(pc)
	if err != nil {
		return "", err
	}
	// TraceQLRequestProcessor.Process renders with an empty sql.Ctx
	return req.String(&sql.Ctx{Params: map[string]sql.SQLObject{}, Result: map[string]sql.SQLObject{}})
}

func predPortions(c portionsCase, o *evid.Obs) (err error) {
	text := c.Q.String()
	script, perr := traceql_parser.Parse(text)
	if perr != nil {
		return fmt.Errorf("generated script %q rejected by the parser: %v", text, perr)
	}
	reused, perr := clickhouse_transpiler.Plan(script)
	if perr != nil {
		o.Discard("query-rejected")
		return nil
	}
	be := c11.NewSearchBackend(&c.DB, c.Complexity)
	fdb := fakesql.New(be.Handle)
	defer fdb.Close()
	pc := traceCtx(time.Unix(c.FromS, 0).UTC(), time.Unix(c.ToS, 0).UTC(), int64(c.Limit), fdb)
	defer pc.CancelCtx()
	rec := &snapPlanner{main: reused}
	proc := &traceql_transpiler.ComplexRequestProcessor{}
	proc.SetMain(rec)
	var procErr error
	func() {
		defer func() {
			if p := recover(); p != nil {
				procErr = fmt.Errorf("panic: %v", p)
			}
		}()
		ch, e := proc.Process(pc, c.Complexity)
		if e != nil {
			procErr = e
			return
		}
		for range ch {
		}
	}()
	portions := (c.Complexity + traceql_transpiler.COMPLEXITY_THRESHOLD - 1) / traceql_transpiler.COMPLEXITY_THRESHOLD
	// The processor's loop stops at the first portion whose statement cannot be rendered. The
	// plan object is then processed for the remaining portions here, with the same context:
	// a query that is rejected has to be rejected identically on every execution.
	rejected := false
	if n := len(rec.snaps); procErr != nil && n > 0 && rec.errs[n-1] != nil {
		rejected = true
		for i := int64(n); i < portions; i++ {
			pc.RandomFilter = shared.RandomFilter{Max: int(portions), I: int(i)}
			func() {
				defer func() {
					if p := recover(); p != nil {
						rec.errs = append(rec.errs, fmt.Errorf("panic: %v", p))
					}
				}()
				if req, e := rec.Process(pc); e == nil {
					// rendered after all: hand the statement to the database like the processor does
					if str, e2 := req.String(&sql.Ctx{Params: map[string]sql.SQLObject{}, Result: map[string]sql.SQLObject{}}); e2 == nil {
						if rows, e3 := pc.CHDb.QueryCtx(pc.Ctx, str); e3 == nil {
							rows.Close()
						}
					}
				}
			}()
		}
	}
	stmts := be.Statements()
	if len(rec.snaps) == 0 {
		return fmt.Errorf("harness: the plan was never processed (%v)", procErr)
	}
	withCache, differs, equivalent := 0, false, false
	si := 0 // index into stmts: one statement per successful plan.Process
	for k, snap := range rec.snaps {
		if len(snap.Cached) > 0 {
			withCache++
		}
		fresh, ferr := renderFresh(script, snap)
		if rec.errs[k] != nil {
			if ferr != nil {
				if ferr.Error() != rec.errs[k].Error() {
					return fmt.Errorf("query %q: portion %d/%d: the re-used plan fails with %q, a fresh plan with %q", text, snap.Filter.I, snap.Filter.Max, rec.errs[k], ferr)
				}
				continue // rejected identically
			}
			return fmt.Errorf("query %q: portion %d/%d (cached ids %d): the re-used plan fails (%v), a fresh plan renders the statement", text, snap.Filter.I, snap.Filter.Max, len(snap.Cached), rec.errs[k])
		}
		if ferr != nil {
			return fmt.Errorf("query %q: portion %d/%d: a fresh plan fails (%v), the re-used plan does not", text, snap.Filter.I, snap.Filter.Max, ferr)
		}
		if si >= len(stmts) {
			return fmt.Errorf("harness: portion %d rendered a statement that never reached the database", k)
		}
		st := stmts[si]
		si++
		if st.SQL == fresh {
			if st.Err != nil {
				if errors.Is(st.Err, chsim.ErrUnsupported) {
					o.Discard("chsim-unsupported")
				} else {
					o.Discard("fresh-statement-rejected") // C11's territory (known findings)
				}
				return nil
			}
			continue
		}
		differs = true
		if tokensEqual(st.SQL, fresh) {
			continue
		}
		// different text: same rows?
		rf, ef := be.CH().Query(fresh)
		if errors.Is(ef, chsim.ErrUnsupported) || errors.Is(st.Err, chsim.ErrUnsupported) {
			o.Discard("chsim-unsupported")
			return nil
		}
		if ef != nil {
			o.Discard("fresh-statement-rejected")
			return nil
		}
		where := fmt.Sprintf("query %q, portion %d of %d with %d cached trace ids (execution %d of the same plan)", text, snap.Filter.I, snap.Filter.Max, len(snap.Cached), k+1)
		if st.Err != nil {
			return fmt.Errorf("%s: the re-executed statement is rejected (%v) while the statement of a fresh plan runs\nre-executed: %s\nfresh plan:  %s", where, st.Err, clip(st.SQL), clip(fresh))
		}
		rr, er := be.CH().Query(st.SQL)
		if er != nil {
			return fmt.Errorf("harness: statement executed once fails on re-run: %v", er)
		}
		a, b := rowKeys(rf), rowKeys(rr)
		same := len(a) == len(b)
		for i := 0; same && i < len(a); i++ {
			same = a[i] == b[i]
		}
		if !same {
			return fmt.Errorf("%s: the re-executed statement returns other rows (%d) than the statement of a fresh plan (%d)\nre-executed: %s\nfresh plan:  %s", where, len(b), len(a), clip(st.SQL), clip(fresh))
		}
		equivalent = true
	}
	if rejected {
		o.Tag("rejected-identically-every-portion")
		o.Discard("query-rejected")
		return nil
	}
	if procErr != nil {
		// every statement equalled the fresh one and still the run failed: not C14's matter
		o.Discard("run-failed")
		return nil
	}
	if int64(len(rec.snaps)) != portions {
		return fmt.Errorf("query %q: %d portions expected from complexity %d, the plan was processed %d times", text, portions, c.Complexity, len(rec.snaps))
	}
	o.Tag(fmt.Sprintf("portions=%d", portions), fmt.Sprintf("portions-with-cached-ids=%d", withCache))
	switch {
	case equivalent:
		o.Tag("text-differs-same-rows")
	case differs:
		o.Tag("whitespace-differs")
	default:
		o.Tag("identical-text")
	}
	if portions >= 3 && withCache >= 1 {
		o.NonTrivial()
	}
	return nil
}

func addPortions(r *evid.Run) {
	evid.Add(r, evid.Prop[portionsCase]{Name: "portions", Quick: 800, Thorough: 5000, Gen: genPortions, Pred: predPortions})
}

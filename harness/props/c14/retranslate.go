package c14

// Sub-check "retranslate": translating the same query with the same parameters always
// yields the same SQL, independent of earlier translations in the process. A case is a
// pool of queries with fixed parameters and a sequence of pool indexes; each step
// translates (fresh plan) and executes the query once; all executions of one pool entry
// must have sent the same statements (SETTINGS order normalised).

import (
	"fmt"
	"strings"

	"pgregory.net/rapid"

	"qrynverif/evid"
	"qrynverif/refeval"
)

type poolEntry struct {
	Q querySpec  `json:"q"`
	P execParams `json:"p"`
}

type retranslateCase struct {
	Pool  []poolEntry `json:"pool"`
	Steps []int       `json:"steps"`
}

func genRetranslate(rt *rapid.T) retranslateCase {
	c := retranslateCase{}
	n := rapid.IntRange(1, 4).Draw(rt, "npool")
	for i := 0; i < n; i++ {
		if i > 0 && chance(rt, 40, "sameQueryOtherConfig") {
			// the same query under another configuration (other database of the cluster,
			// other cluster, or single node): table names must follow the request's own
			prev := c.Pool[int(spread(rt, "cloneOf")%uint64(i))]
			e := poolEntry{Q: prev.Q, P: prev.P}
			if chance(rt, 50, "otherWindow") {
				// the same query for another window (early / later on the same UTC day, other day)
				e.P = otherWindow(rt, prev.P)
				c.Pool = append(c.Pool, e)
				continue
			}
			for k := 0; k < 4 && e.P.Cluster == prev.P.Cluster && e.P.DB == prev.P.DB; k++ {
				if prev.P.Cluster != "" && chance(rt, 60, "otherDB") {
					for _, d := range dbNames {
						if d != prev.P.DB {
							e.P.DB = d
						}
					}
				} else {
					genConfig(rt, &e.P)
				}
			}
			c.Pool = append(c.Pool, e)
			continue
		}
		q := genQuery(rt)
		c.Pool = append(c.Pool, poolEntry{Q: q, P: genParams(rt, q)})
	}
	k := rapid.IntRange(2, 8).Draw(rt, "nsteps")
	for i := 0; i < k; i++ {
		c.Steps = append(c.Steps, rapid.IntRange(0, n-1).Draw(rt, "step"))
	}
	return c
}

func sameStmts(a, b []string) (int, bool) {
	if len(a) != len(b) {
		return min(len(a), len(b)), false
	}
	for i := range a {
		if a[i] != b[i] {
			return i, false
		}
	}
	return 0, true
}

func clip(s string) string {
	if len(s) > 1800 {
		return s[:1800] + "…"
	}
	return s
}

func predRetranslate(c retranslateCase, o *evid.Obs) error {
	type outcome struct {
		stmts []string
		err   string
		step  int
	}
	first := map[int]*outcome{}
	times := map[int]int{}
	interleaved, crossChecked := false, false
	last := -1
	for si, idx := range c.Steps {
		if idx < 0 || idx >= len(c.Pool) {
			return fmt.Errorf("harness: bad step")
		}
		e := c.Pool[idx]
		cur := &outcome{step: si}
		pl, err := prepare(e.Q)
		if err != nil {
			cur.err = "plan: " + err.Error()
		} else {
			stmts, err := safeRun(pl, e.P)
			cur.stmts = normaliseAll(stmts)
			if err != nil {
				cur.err = "process: " + err.Error()
			}
		}
		times[idx]++
		if prev, ok := first[idx]; ok {
			if last != idx {
				interleaved = true
			}
			if prev.err != cur.err {
				return fmt.Errorf("query %q: translation at step %d ended with %q, at step %d with %q", e.Q.Text(), prev.step, prev.err, si, cur.err)
			}
			if i, same := sameStmts(prev.stmts, cur.stmts); !same {
				a, b := "", ""
				if i < len(prev.stmts) {
					a = prev.stmts[i]
				}
				if i < len(cur.stmts) {
					b = cur.stmts[i]
				}
				return fmt.Errorf("query %q with the same parameters translates differently (statement %d of %d/%d):\nstep %d: %s\nstep %d: %s", e.Q.Text(), i, len(prev.stmts), len(cur.stmts), prev.step, clip(a), si, clip(b))
			}
		} else {
			first[idx] = cur
		}
		last = idx
	}
	// cross-process reference: the first in-process translation of a sampled entry must equal
	// what a fresh process renders for it
	for idx := 0; idx < len(c.Pool); idx++ {
		o1, ok := first[idx]
		if !ok {
			continue
		}
		e := c.Pool[idx]
		key := requestKey(e)
		if !o.Witness && !sampled(key, sampleRate()) {
			continue
		}
		ref, ok := freshProcessReference(e)
		if !ok {
			o.Tag("fresh-process-unavailable")
			continue
		}
		o.Tag("fresh-process-checked")
		crossChecked = true
		if ref.Err != o1.err {
			return fmt.Errorf("query %q: translated in this process (step %d) it ends with %q, in a fresh process with %q", e.Q.Text(), o1.step, o1.err, ref.Err)
		}
		if i, same := sameStmts(ref.Stmts, o1.stmts); !same {
			a, b := "", ""
			if i < len(ref.Stmts) {
				a = ref.Stmts[i]
			}
			if i < len(o1.stmts) {
				b = o1.stmts[i]
			}
			return fmt.Errorf("query %q translates differently in this process than in a fresh process that translates only this query (statement %d of %d/%d): earlier translations changed process-wide planner state\nfresh process: %s\nthis process (step %d): %s", e.Q.Text(), i, len(ref.Stmts), len(o1.stmts), clip(a), o1.step, clip(b))
		}
	}
	translated := false
	for idx, o1 := range first {
		o.Tag("kind:" + c.Pool[idx].Q.Kind)
		if o1.err == "" {
			if times[idx] >= 2 {
				translated = true
			}
		} else {
			o.Tag("rejected-query")
		}
	}
	wins := map[string]map[int64]bool{}
	for _, e := range c.Pool {
		t := e.Q.Text() + "|" + e.P.Cluster + "/" + e.P.DB
		if wins[t] == nil {
			wins[t] = map[int64]bool{}
		}
		wins[t][e.P.FromNs] = true
		if s := e.P.FromNs / 1e9; s >= dayStartS && s < dayStartS+1800 {
			o.Tag("window:starts-00:00-00:30")
		}
	}
	for _, m := range wins {
		if len(m) > 1 {
			o.Tag("same-query-other-window")
			early, later := false, false
			for f := range m {
				s := f / 1e9
				if s >= dayStartS && s < dayStartS+1800 {
					early = true
				} else if s >= dayStartS+1800 && s < dayStartS+86_400 {
					later = true
				}
			}
			if early && later {
				o.Tag("same-query-early-and-later-same-day")
			}
		}
	}
	cfgs := map[string]map[string]bool{}
	for _, e := range c.Pool {
		switch {
		case e.P.Cluster == "":
			o.Tag("config:single-node")
		default:
			o.Tag("config:cluster")
		}
		t := e.Q.Text()
		if cfgs[t] == nil {
			cfgs[t] = map[string]bool{}
		}
		cfgs[t][e.P.Cluster+"/"+e.P.DB] = true
	}
	for _, m := range cfgs {
		if len(m) > 1 {
			o.Tag("same-query-other-config")
			dbs := map[string]bool{}
			for k := range m {
				if !strings.HasPrefix(k, "/") {
					dbs[k] = true
				}
			}
			if len(dbs) > 1 {
				o.Tag("same-query-two-databases-or-clusters")
			}
		}
	}
	for _, e := range c.Pool {
		for _, f := range features(e.Q) {
			o.Tag("feat:" + f)
		}
	}
	if !translated && !crossChecked {
		o.Discard("no-query-translated-twice")
		return nil
	}
	if crossChecked {
		o.NonTrivial()
	}
	if interleaved {
		o.Tag("interleaved")
		o.NonTrivial()
	}
	return nil
}

func addRetranslate(r *evid.Run) {
	evid.Add(r, evid.Prop[retranslateCase]{Name: "retranslate", Quick: 1000, Thorough: 6000, Gen: genRetranslate, Pred: predRetranslate})
}

// features names the planner kinds a query exercises (coverage of the "other queries").
func features(q querySpec) []string {
	var out []string
	switch q.Kind {
	case "logql":
		e := q.Log
		lineFilter, parser := false, false
		for _, s := range e.Stages {
			switch s.Kind {
			case refeval.KLineFilter:
				lineFilter = true
			case refeval.KJSON, refeval.KRegexp, refeval.KLogfmt:
				parser = true
				out = append(out, "parser:"+s.Kind)
				for _, p := range s.Params {
					if strings.Contains(p.Val, "[") {
						out = append(out, "json-array-path")
					}
				}
			case refeval.KUnwrap:
				out = append(out, "unwrap")
			case refeval.KLabelFilter, refeval.KDrop, refeval.KLineFormat, refeval.KLabelFormat:
				out = append(out, s.Kind)
			}
		}
		if !e.IsMetric() {
			out = append(out, "log-query")
			break
		}
		out = append(out, "range:"+e.RangeFn)
		// the metrics_15s shortcut needs a plain rate/count_over_time over a multiple of 15 s
		if e.RangeFn == "bytes_rate" || e.RangeFn == "bytes_over_time" || lineFilter || parser || e.RangeNs()%15e9 != 0 {
			out = append(out, "range-without-shortcut")
		}
		if e.AggGroup != nil || e.RangeGroup != nil {
			out = append(out, "by-without")
		}
		if e.TopFn != "" {
			out = append(out, "topk")
		}
	case "traceql":
		out = append(out, "traceql")
		for _, s := range q.Trace.Sels {
			if s.Agg != nil {
				out = append(out, "traceql-aggregator")
			}
		}
	case "prof":
		out = append(out, "prof:"+q.Prof.Fn)
	case "tracetags", "labels":
		out = append(out, q.Kind+":"+q.Lookup.Fn)
	}
	return out
}

package c14

// Sub-check "retranslate": translating the same query with the same parameters always
// yields the same SQL, independent of earlier translations in the process. A case is a
// pool of queries with fixed parameters and a sequence of pool indexes; each step
// translates (fresh plan) and executes the query once; all executions of one pool entry
// must have sent the same statements (SETTINGS order normalised).

import (
	"fmt"

	"pgregory.net/rapid"

	"qrynverif/evid"
)

type poolEntry struct {
	Q querySpec  `json:"q"`
	P execParams `json:"p"`
}

type retranslateCase struct {
	Pool  []poolEntry `json:"pool"`
	Steps []int       `json:"steps"`
}

func genRetranslate(rt *rapid.T) retranslateCase {
	c := retranslateCase{}
	n := rapid.IntRange(1, 4).Draw(rt, "npool")
	for i := 0; i < n; i++ {
		q := genQuery(rt)
		c.Pool = append(c.Pool, poolEntry{Q: q, P: genParams(rt, q)})
	}
	k := rapid.IntRange(2, 8).Draw(rt, "nsteps")
	for i := 0; i < k; i++ {
		c.Steps = append(c.Steps, rapid.IntRange(0, n-1).Draw(rt, "step"))
	}
	return c
}

func sameStmts(a, b []string) (int, bool) {
	if len(a) != len(b) {
		return min(len(a), len(b)), false
	}
	for i := range a {
		if a[i] != b[i] {
			return i, false
		}
	}
	return 0, true
}

func clip(s string) string {
	if len(s) > 1800 {
		return s[:1800] + "…"
	}
	return s
}

func predRetranslate(c retranslateCase, o *evid.Obs) error {
	type outcome struct {
		stmts []string
		err   string
		step  int
	}
	first := map[int]*outcome{}
	times := map[int]int{}
	interleaved := false
	last := -1
	for si, idx := range c.Steps {
		if idx < 0 || idx >= len(c.Pool) {
			return fmt.Errorf("harness: bad step")
		}
		e := c.Pool[idx]
		cur := &outcome{step: si}
		pl, err := prepare(e.Q)
		if err != nil {
			cur.err = "plan: " + err.Error()
		} else {
			stmts, err := safeRun(pl, e.P)
			cur.stmts = normaliseAll(stmts)
			if err != nil {
				cur.err = "process: " + err.Error()
			}
		}
		times[idx]++
		if prev, ok := first[idx]; ok {
			if last != idx {
				interleaved = true
			}
			if prev.err != cur.err {
				return fmt.Errorf("query %q: translation at step %d ended with %q, at step %d with %q", e.Q.Text(), prev.step, prev.err, si, cur.err)
			}
			if i, same := sameStmts(prev.stmts, cur.stmts); !same {
				a, b := "", ""
				if i < len(prev.stmts) {
					a = prev.stmts[i]
				}
				if i < len(cur.stmts) {
					b = cur.stmts[i]
				}
				return fmt.Errorf("query %q with the same parameters translates differently (statement %d of %d/%d):\nstep %d: %s\nstep %d: %s", e.Q.Text(), i, len(prev.stmts), len(cur.stmts), prev.step, clip(a), si, clip(b))
			}
		} else {
			first[idx] = cur
		}
		last = idx
	}
	translated := false
	for idx, o1 := range first {
		o.Tag("kind:" + c.Pool[idx].Q.Kind)
		if o1.err == "" {
			if times[idx] >= 2 {
				translated = true
			}
		} else {
			o.Tag("rejected-query")
		}
	}
	if !translated {
		o.Discard("no-query-translated-twice")
		return nil
	}
	if interleaved {
		o.Tag("interleaved")
		o.NonTrivial()
	}
	return nil
}

func addRetranslate(r *evid.Run) {
	evid.Add(r, evid.Prop[retranslateCase]{Name: "retranslate", Quick: 1200, Thorough: 6000, Gen: genRetranslate, Pred: predRetranslate})
}

package c14

// A small log store for the "same meaning" fallback: when two statements differ textually
// they are both executed by chsim over these tables and must return the same rows.
// Layout per ctrl/qryn/sql/log.sql (+ the `type` columns added by later updates):
//   samples_v3(fingerprint, timestamp_ns, value, string, type)
//   time_series(date, fingerprint, labels JSON, name, type)
//   time_series_gin(date, key, val, fingerprint, type)  -- the materialized view's rule

import (
	"encoding/json"
	"sort"

	"pgregory.net/rapid"

	"qrynverif/chsim"
)

type logEntry struct {
	TsNs int64  `json:"ts"`
	Line string `json:"line"`
}

type logStream struct {
	Labels  map[string]string `json:"labels"`
	Entries []logEntry        `json:"entries"`
}

type logDB struct {
	Streams []logStream `json:"streams"`
}

// lines chosen to tell the suspected rewrites apart: "aXb" matches the regex a.b but not
// the text "a.b"; "ERR" matches (?i)err but not err; JSON lines feed json/unwrap stages.
var logLines = []string{"err", "ERR", "a.b", "aXb", "100%", "100x", "a_b", "acb", "it's", "x", `{"n":1,"lvl":"err","msg":"a.b"}`, `{"n":5,"lvl":"ERR","msg":"aXb"}`, `{"n":"2.5","lvl":"x"}`, "12 x",
	`{"order":{"items":[7,8,9]},"a":[1,2,{"b":"z"}],"x":{"y":"q"},"n":3}`, `{"order":{"items":["p"]},"a":["only"],"n":4}`}

// arrayLines feed `| json x="order.items[0]"`-style paths: different elements at every index.
var arrayLines = []string{
	`{"order":{"items":[7,8,9]},"a":[1,2,{"b":"z"}],"x":{"y":"q"},"n":3}`,
	`{"order":{"items":["p","q"]},"a":["only",5,{"b":"w"}],"n":4}`,
	`{"order":{"items":[0,1]},"a":[{"b":"first"},{"b":"second"},{"b":"third"}],"n":5}`,
}

func genLogDB(rt *rapid.T, fromNs, toNs int64, arrays bool, want map[string]string) logDB {
	db := logDB{}
	n := rapid.IntRange(1, 4).Draw(rt, "nstreams")
	for i := 0; i < n; i++ {
		s := logStream{Labels: map[string]string{}}
		for _, l := range labelNames {
			if chance(rt, 70, "hasLabel") {
				s.Labels[l] = pick(rt, labelVals, "labelVal")
			}
		}
		if len(s.Labels) == 0 {
			s.Labels["app"] = "a"
		}
		if i == 0 || chance(rt, 50, "matchingStream") {
			// make the stream satisfy the query's equality matchers, so that rows come back
			for k, v := range want {
				s.Labels[k] = v
			}
		}
		ne := rapid.IntRange(1, 6).Draw(rt, "nentries")
		for j := 0; j < ne; j++ {
			ts := fromNs - 10e9 + rapid.Int64Range(0, toNs-fromNs+20e9).Draw(rt, "ts")
			line := pick(rt, logLines, "line")
			if arrays && chance(rt, 60, "arrayLine") {
				line = pick(rt, arrayLines, "arrayLineKind")
			}
			s.Entries = append(s.Entries, logEntry{TsNs: ts, Line: line})
		}
		db.Streams = append(db.Streams, s)
	}
	return db
}

func buildLogCH(db *logDB) *chsim.DB {
	var samples, series, gin [][]any
	for i, s := range db.Streams {
		fp := uint64(1000 + i*7919)
		keys := make([]string, 0, len(s.Labels))
		for k := range s.Labels {
			keys = append(keys, k)
		}
		sort.Strings(keys)
		ordered := make([]byte, 0, 64)
		ordered = append(ordered, '{')
		for j, k := range keys {
			if j > 0 {
				ordered = append(ordered, ',')
			}
			kb, _ := json.Marshal(k)
			vb, _ := json.Marshal(s.Labels[k])
			ordered = append(ordered, kb...)
			ordered = append(ordered, ':')
			ordered = append(ordered, vb...)
		}
		ordered = append(ordered, '}')
		days := map[chsim.Date]bool{}
		for _, e := range s.Entries {
			samples = append(samples, []any{fp, e.TsNs, float64(0), e.Line, uint8(1)})
			days[chsim.Date(e.TsNs/1e9/86400)] = true
		}
		var ds []int
		for d := range days {
			ds = append(ds, int(d))
		}
		sort.Ints(ds)
		for _, d := range ds {
			series = append(series, []any{chsim.Date(d), fp, string(ordered), "", uint8(1)})
			for _, k := range keys {
				gin = append(gin, []any{chsim.Date(d), k, s.Labels[k], fp, uint8(1)})
			}
		}
	}
	c := chsim.NewDB()
	c.AddTable("samples_v3", []string{"fingerprint", "timestamp_ns", "value", "string", "type"}, samples)
	c.AddTable("time_series", []string{"date", "fingerprint", "labels", "name", "type"}, series)
	c.AddTable("time_series_gin", []string{"date", "key", "val", "fingerprint", "type"}, gin)
	c.Alias("samples_v3_dist", "samples_v3")
	c.Alias("time_series_dist", "time_series")
	c.Alias("time_series_gin_dist", "time_series_gin")
	return c
}

package c14

// Running translations the way the services do and capturing the SQL they send.
//
// A prepared plan is what a service keeps between executions:
//   - LogQL:   logql_transpiler_v2.Transpile(query)  (QueryRangeService.Tail keeps it and calls
//              chain[0].Process(ctx, nil) every second with a fresh PlannerContext);
//   - TraceQL: traceql_transpiler.Plan(script)       (SearchTraceQL; the per-portion processor
//              calls Process of the inner planner once per portion);
//   - profile: prof/transpiler.Plan*(script...)      (SQLRequestPlanner rendered by the service).
// Every execution runs against a fakesql database that records the statements and returns
// no rows (the TraceQL complexity statement is answered by script).

import (
	"context"

	"github.com/metrico/cloki-config/config"
	"database/sql/driver"
	"fmt"
	"sort"
	"strings"
	"sync"
	"time"

	"github.com/metrico/qryn/reader/logql/logql_transpiler_v2"
	"github.com/metrico/qryn/reader/logql/logql_transpiler_v2/shared"
	"github.com/metrico/qryn/reader/model"
	prof_parser "github.com/metrico/qryn/reader/prof/parser"
	prof_shared "github.com/metrico/qryn/reader/prof/shared"
	prof_transpiler "github.com/metrico/qryn/reader/prof/transpiler"
	v1 "github.com/metrico/qryn/reader/prof/types/v1"
	traceql_parser "github.com/metrico/qryn/reader/traceql/parser"
	"github.com/metrico/qryn/reader/service"
	traceql_transpiler "github.com/metrico/qryn/reader/traceql/transpiler"
	"github.com/metrico/qryn/reader/utils/dbVersion"
	sql "github.com/metrico/qryn/reader/utils/sql_select"
	"github.com/metrico/qryn/reader/utils/tables"

	"qrynverif/fakesql"
	"qrynverif/refeval"
)

// querySpec is one query of any of the three languages.
type querySpec struct {
	Kind  string            `json:"kind"` // logql | traceql | prof
	Log   *refeval.Expr     `json:"log,omitempty"`
	Trace *refeval.TQScript `json:"trace,omitempty"`
	Prof  *profSpec         `json:"prof,omitempty"`
	// Lookup: Kind "tracetags" (TraceQL tag names / values v2; Trace is the optional selector)
	// and Kind "labels" (label names / values of QueryLabelsService).
	Lookup *lookupSpec `json:"lookup,omitempty"`
}

type lookupSpec struct {
	Fn    string   `json:"fn"` // tags | values | labels
	Key   string   `json:"key,omitempty"`
	Match []string `json:"match,omitempty"`
}

// profSpec: which profile planner and its selector.
type profSpec struct {
	Fn       string   `json:"fn"` // series | label_names | label_values | merge_profiles | select_series
	Selector string   `json:"selector"`
	GroupBy  []string `json:"group_by,omitempty"`
}

func (q querySpec) Text() string {
	switch q.Kind {
	case "logql":
		return q.Log.String()
	case "traceql":
		return q.Trace.String()
	case "prof":
		return q.Prof.Fn + " " + q.Prof.Selector
	case "tracetags", "labels":
		t := q.Kind + " " + q.Lookup.Fn + " " + q.Lookup.Key + " " + strings.Join(q.Lookup.Match, ",")
		if q.Trace != nil {
			t += " " + q.Trace.String()
		}
		return t
	}
	return "?"
}

// execParams are the per-execution parameters (what changes between two runs of a plan).
type execParams struct {
	FromNs     int64 `json:"from_ns"`
	ToNs       int64 `json:"to_ns"`
	Limit      int64 `json:"limit"`
	StepMs     int64 `json:"step_ms"`
	Forward    bool  `json:"forward,omitempty"`
	Complexity int64 `json:"complexity,omitempty"` // TraceQL: scripted answer of the complexity statement
	// Configuration of the request: cluster mode (ClusterName != "") and the database name,
	// from which tables.PopulateTableNames derives the table names (`db`.table_dist).
	Cluster string `json:"cluster,omitempty"`
	DB      string `json:"db,omitempty"`
}

// recorder is the fake database: logs statements, returns no rows.
type recorder struct {
	mu         sync.Mutex
	stmts      []string
	complexity int64
}

func (r *recorder) handle(ctx context.Context, q string, args []driver.NamedValue) (*fakesql.Result, error) {
	r.mu.Lock()
	r.stmts = append(r.stmts, q)
	r.mu.Unlock()
	if strings.Contains(q, "pre_final") {
		return fakesql.Rows([]string{"_count"}, []any{r.complexity}), nil
	}
	return &fakesql.Result{FailAfter: -1}, nil
}

func (r *recorder) take() []string {
	r.mu.Lock()
	defer r.mu.Unlock()
	out := r.stmts
	r.stmts = nil
	return out
}

// prepared is a plan object that can be executed repeatedly.
type prepared interface {
	run(p execParams) ([]string, error)
}

func newCtx(p execParams, rec *recorder) (*shared.PlannerContext, *fakesql.DB) {
	rec.complexity = p.Complexity
	fdb := fakesql.New(rec.handle)
	conn, _ := fdb.Registry(&config.ClokiBaseDataBase{ClusterName: p.Cluster, Name: p.DB}).GetDB(context.Background())
	ctx, cancel := context.WithCancel(context.Background())
	pc := &shared.PlannerContext{
		IsCluster:  p.Cluster != "", // conn.Config.ClusterName != "" in every service
		From:       time.Unix(0, p.FromNs).UTC(),
		To:         time.Unix(0, p.ToNs).UTC(),
		OrderASC:   p.Forward,
		Limit:      p.Limit,
		Ctx:        ctx,
		CancelCtx:  cancel,
		CHDb:       conn.Session,
		CHFinalize: true,
		Step:       time.Duration(p.StepMs) * time.Millisecond,
		CHSqlCtx: &sql.Ctx{
			Params: map[string]sql.SQLObject{},
			Result: map[string]sql.SQLObject{},
		},
		VersionInfo: dbVersion.VersionInfo{},
	}
	tables.PopulateTableNames(pc, conn)
	return pc, fdb
}

// ---- LogQL ------------------------------------------------------------------------------

type logPlan struct {
	chain shared.RequestProcessorChain
}

func (l *logPlan) run(p execParams) ([]string, error) {
	rec := &recorder{}
	pc, fdb := newCtx(p, rec)
	defer fdb.Close()
	defer pc.CancelCtx()
	out, err := l.chain[0].Process(pc, nil)
	if err != nil {
		return rec.take(), err
	}
	for range out {
	}
	return rec.take(), nil
}

// ---- TraceQL ----------------------------------------------------------------------------

type tracePlan struct {
	proc shared.TraceRequestProcessor
}

func (t *tracePlan) run(p execParams) ([]string, error) {
	rec := &recorder{}
	pc, fdb := newCtx(p, rec)
	defer fdb.Close()
	defer pc.CancelCtx()
	out, err := t.proc.Process(pc)
	if err != nil {
		return rec.take(), err
	}
	for range out {
	}
	return rec.take(), nil
}

// ---- TraceQL tag names / values ---------------------------------------------------------------

type tagsPlan struct {
	proc shared.GenericTraceRequestProcessor[string]
}

func (t *tagsPlan) run(p execParams) ([]string, error) {
	rec := &recorder{}
	pc, fdb := newCtx(p, rec)
	defer fdb.Close()
	defer pc.CancelCtx()
	out, err := t.proc.Process(pc)
	if err != nil {
		return rec.take(), err
	}
	for range out {
	}
	return rec.take(), nil
}

// ---- label names / values (QueryLabelsService) -----------------------------------------------

type labelsPlan struct {
	l *lookupSpec
}

func (lp *labelsPlan) run(p execParams) ([]string, error) {
	rec := &recorder{}
	fdb := fakesql.New(rec.handle)
	defer fdb.Close()
	svc := service.NewQueryLabelsService(&model.ServiceData{Session: fdb.Registry(&config.ClokiBaseDataBase{ClusterName: p.Cluster, Name: p.DB})})
	var out chan string
	var err error
	if lp.l.Fn == "labels" {
		out, err = svc.Labels(context.Background(), p.FromNs/1e6, p.ToNs/1e6, 1)
	} else {
		out, err = svc.Values(context.Background(), lp.l.Key, lp.l.Match, p.FromNs/1e6, p.ToNs/1e6, 1)
	}
	if err != nil {
		return rec.take(), err
	}
	for range out {
	}
	return rec.take(), nil
}

// ---- profiles -----------------------------------------------------------------------------

type profPlan struct {
	planner shared.SQLRequestPlanner
}

func (pp *profPlan) run(p execParams) ([]string, error) {
	rec := &recorder{}
	pc, fdb := newCtx(p, rec)
	defer fdb.Close()
	defer pc.CancelCtx()
	req, err := pp.planner.Process(pc)
	if err != nil {
		return nil, err
	}
	s, err := req.String(sql.DefaultCtx())
	if err != nil {
		return nil, err
	}
	return []string{s}, nil
}

var profType = prof_shared.TypeId{Tp: "process_cpu", SampleType: "cpu", SampleUnit: "nanoseconds", PeriodType: "cpu", PeriodUnit: "nanoseconds"}

func prepare(q querySpec) (pl prepared, err error) {
	defer func() {
		if p := recover(); p != nil {
			err = fmt.Errorf("panic while planning: %v", p)
		}
	}()
	switch q.Kind {
	case "logql":
		chain, err := logql_transpiler_v2.Transpile(q.Log.String())
		if err != nil {
			return nil, err
		}
		if len(chain) == 0 {
			return nil, fmt.Errorf("empty chain")
		}
		return &logPlan{chain}, nil
	case "traceql":
		script, err := traceql_parser.Parse(q.Trace.String())
		if err != nil {
			return nil, err
		}
		proc, err := traceql_transpiler.Plan(script)
		if err != nil {
			return nil, err
		}
		return &tracePlan{proc}, nil
	case "tracetags":
		var script *traceql_parser.TraceQLScript
		if q.Trace != nil {
			script, err = traceql_parser.Parse(q.Trace.String())
			if err != nil {
				return nil, err
			}
		}
		var proc shared.GenericTraceRequestProcessor[string]
		if q.Lookup.Fn == "tags" {
			proc, err = traceql_transpiler.PlanTagsV2(script)
		} else {
			proc, err = traceql_transpiler.PlanValuesV2(script, q.Lookup.Key)
		}
		if err != nil {
			return nil, err
		}
		return &tagsPlan{proc}, nil
	case "labels":
		return &labelsPlan{q.Lookup}, nil
	case "prof":
		script, err := prof_parser.Parse(q.Prof.Selector)
		if err != nil {
			return nil, err
		}
		var pl shared.SQLRequestPlanner
		tid := profType
		switch q.Prof.Fn {
		case "series":
			pl, err = prof_transpiler.PlanSeries([]*prof_parser.Script{script}, q.Prof.GroupBy)
		case "label_names":
			pl, err = prof_transpiler.PlanLabelNames([]*prof_parser.Script{script})
		case "label_values":
			pl, err = prof_transpiler.PlanLabelValues([]*prof_parser.Script{script}, "service_name")
		case "merge_profiles":
			pl, err = prof_transpiler.PlanMergeProfiles(script, &tid)
		case "select_series":
			pl, err = prof_transpiler.PlanSelectSeries(script, &tid, q.Prof.GroupBy, v1.TimeSeriesAggregationType_TIME_SERIES_AGGREGATION_TYPE_SUM, 15)
		default:
			err = fmt.Errorf("unknown profile planner %q", q.Prof.Fn)
		}
		if err != nil {
			return nil, err
		}
		return &profPlan{pl}, nil
	}
	return nil, fmt.Errorf("unknown kind %q", q.Kind)
}

// safeRun executes a plan, turning a panic of the calling goroutine into an error.
func safeRun(pl prepared, p execParams) (stmts []string, err error) {
	defer func() {
		if r := recover(); r != nil {
			err = fmt.Errorf("panic while executing: %v", r)
		}
	}()
	return pl.run(p)
}

// normaliseSettings sorts the entries of a trailing `SETTINGS a = 1, b = 2` clause (their
// order is not part of the meaning).
func normaliseSettings(s string) string {
	i := strings.LastIndex(s, " SETTINGS ")
	if i < 0 {
		return s
	}
	tail := s[i+len(" SETTINGS "):]
	if strings.ContainsAny(tail, "()'") {
		return s
	}
	parts := strings.Split(tail, ",")
	for k := range parts {
		parts[k] = strings.TrimSpace(parts[k])
	}
	sort.Strings(parts)
	return s[:i] + " SETTINGS " + strings.Join(parts, ", ")
}

func normaliseAll(ss []string) []string {
	out := make([]string, len(ss))
	for i, s := range ss {
		out[i] = normaliseSettings(s)
	}
	return out
}

var _ = model.TraceInfo{}

package c14

import (
	"os"
	"testing"

	"qrynverif/evid"
)

// TestOneShot is the one-shot translator of sub-check "retranslate" (see oneshot.go): it only
// runs in a child process started with the request in the environment.
func TestOneShot(t *testing.T) {
	if os.Getenv(oneShotEnv) == "" {
		t.Skip("only used as a child process")
	}
	oneShotMain()
}

func TestProp(t *testing.T) {
	r := evid.New(t, "C14", evid.Config{
		Level: "exploration",
		Rule:  "generated LogQL / TraceQL / profile queries; retranslate: a query translated >= 2 times with another query translated in between; portions: the per-portion TraceQL schedule with >= 3 portions and cached trace ids on a later portion; reexec: >= 2 executions of one plan whose query has a stage with mutable planner state (regex line filter, by/without, labels-cache user, TraceQL condition/aggregator)",
		Assumptions: []string{
			"a fresh process (the test binary re-executed as a one-shot translator) renders the reference SQL of a query; 1 in 12 requests (quick) / 1 in 24 (thorough) are cross-checked, chosen by hash of the request",
			"the statement of a fresh plan with the same parameters stands for 'the first execution with these time bounds' (fresh translations are deterministic: sub-check retranslate)",
			"chsim executes the statements as ClickHouse would (only used when the re-executed text differs)",
		},
	})
	addRetranslate(r)
	addReexec(r)
	addPortions(r)
	r.Main()
}

package c14

// Cross-process reference for "retranslate": the in-process comparison cannot see state that
// an EARLIER translation (of this case or of an earlier case in the same test process) has
// already poisoned — every later translation is then equally wrong. The reference SQL of a
// query is therefore obtained from a FRESH process that translates only that query: the test
// binary re-executes itself (`-test.run ^TestOneShot$`, request in the environment) and prints
// the statements. Results are cached by request; which requests are cross-checked is a
// deterministic function of the request text (hash sampling), so Pred stays a pure function
// of the case. A replayed witness is always cross-checked.

import (
	"bytes"
	"encoding/json"
	"fmt"
	"hash/fnv"
	"os"
	"os/exec"
	"sync"
	"time"
)

const (
	oneShotEnv   = "C14_ONESHOT"
	oneShotBegin = "<<<C14-ONESHOT "
	oneShotEnd   = " C14-ONESHOT>>>"
)

type oneShotResult struct {
	Stmts []string `json:"stmts"`
	Err   string   `json:"err"`
}

// translateOnce is what both sides run: a fresh plan of the query executed once.
func translateOnce(e poolEntry) oneShotResult {
	var r oneShotResult
	pl, err := prepare(e.Q)
	if err != nil {
		r.Err = "plan: " + err.Error()
		return r
	}
	stmts, err := safeRun(pl, e.P)
	r.Stmts = normaliseAll(stmts)
	if err != nil {
		r.Err = "process: " + err.Error()
	}
	return r
}

// oneShotMain is the body of TestOneShot in the child process.
func oneShotMain() {
	var e poolEntry
	if err := json.Unmarshal([]byte(os.Getenv(oneShotEnv)), &e); err != nil {
		fmt.Println(oneShotBegin + `{"err":"harness: bad request"}` + oneShotEnd)
		return
	}
	b, _ := json.Marshal(translateOnce(e))
	fmt.Println(oneShotBegin + string(b) + oneShotEnd)
}

var (
	oneShotMu    sync.Mutex
	oneShotCache = map[string]*oneShotResult{}
	oneShotSpawn int
)

func requestKey(e poolEntry) string {
	b, _ := json.Marshal(e)
	return string(b)
}

// sampled: is this request cross-checked? (1 in rate, by hash of the request)
func sampled(key string, rate uint32) bool {
	h := fnv.New32a()
	h.Write([]byte(key))
	return h.Sum32()%rate == 0
}

func sampleRate() uint32 {
	if os.Getenv("VERIF_TIER") == "thorough" {
		return 24
	}
	return 12
}

// freshProcessReference translates e in a fresh process. ok=false: infrastructure problem.
func freshProcessReference(e poolEntry) (res *oneShotResult, ok bool) {
	key := requestKey(e)
	oneShotMu.Lock()
	if r, hit := oneShotCache[key]; hit {
		oneShotMu.Unlock()
		return r, r != nil
	}
	oneShotSpawn++
	oneShotMu.Unlock()
	cmd := exec.Command(os.Args[0], "-test.run", "^TestOneShot$", "-test.count=1", "-test.timeout", "60s")
	cmd.Env = append(os.Environ(), oneShotEnv+"="+key)
	var out bytes.Buffer
	cmd.Stdout = &out
	cmd.Stderr = &out
	done := make(chan error, 1)
	if err := cmd.Start(); err == nil {
		go func() { done <- cmd.Wait() }()
		select {
		case <-done:
		case <-time.After(90 * time.Second):
			_ = cmd.Process.Kill()
		}
	}
	var r *oneShotResult
	if i := bytes.Index(out.Bytes(), []byte(oneShotBegin)); i >= 0 {
		rest := out.Bytes()[i+len(oneShotBegin):]
		if j := bytes.Index(rest, []byte(oneShotEnd)); j >= 0 {
			var v oneShotResult
			if json.Unmarshal(rest[:j], &v) == nil {
				r = &v
			}
		}
	}
	oneShotMu.Lock()
	oneShotCache[key] = r
	oneShotMu.Unlock()
	return r, r != nil
}

package c14

// Sub-check "reexec": re-executing an already prepared plan yields statements with the same
// meaning as the first execution apart from the advancing time bounds.
//
// Oracle: the i-th execution of ONE plan object with parameters p_i is compared with the
// execution of a FRESH plan of the same query with the same p_i (by sub-check "retranslate"
// fresh translations are deterministic, so the fresh statement is "the first execution
// with p_i's time bounds"). Identical text: same meaning. Different text: both statements
// are executed by chsim over generated tables and must return the same rows; a re-executed
// statement ClickHouse would reject (no longer parses, references itself) while the fresh
// one runs is a violation too. Anything chsim cannot execute is discarded.

import (
	"os"
	"errors"
	"fmt"
	"sort"
	"strings"

	"pgregory.net/rapid"

	"qrynverif/chsim"
	"qrynverif/evid"
	"qrynverif/props/c11"
	"qrynverif/refeval"
)

type reexecCase struct {
	Q      querySpec     `json:"q"`
	Params []execParams  `json:"params"`
	Traces *refeval.TQDB `json:"traces,omitempty"`
	Logs   *logDB        `json:"logs,omitempty"`
}

func genReexec(rt *rapid.T) reexecCase {
	c := reexecCase{Q: genQuery(rt)}
	p := genParams(rt, c.Q)
	c.Params = []execParams{p}
	n := rapid.IntRange(1, 4).Draw(rt, "nreexec")
	for i := 0; i < n; i++ {
		p = advance(rt, p, c.Q)
		c.Params = append(c.Params, p)
	}
	first, last := c.Params[0], c.Params[len(c.Params)-1]
	switch c.Q.Kind {
	case "traceql", "tracetags":
		db := c11.GenDB(rt, last.FromNs, last.FromNs+100e9)
		c.Traces = &db
	case "logql":
		arrays := false
		for _, f := range statefulStages(c.Q) {
			arrays = arrays || f == "json-array-path"
		}
		want := map[string]string{}
		for _, m := range c.Q.Log.Matchers {
			if m.Op == "=" {
				want[m.Name] = m.Val
			}
		}
		db := genLogDB(rt, first.FromNs, min64(last.ToNs, first.ToNs+10e9), arrays, want)
		c.Logs = &db
	}
	return c
}

func rowKeys(res *chsim.Result) []string {
	out := make([]string, len(res.Rows))
	for i, r := range res.Rows {
		var b strings.Builder
		for _, v := range r {
			fmt.Fprintf(&b, "%T:%v|", v, v)
		}
		out[i] = b.String()
	}
	sort.Strings(out)
	return out
}

// sameMeaning executes both statements; returns (discardReason, violation).
func (c *reexecCase) sameMeaning(reused, fresh string) (string, error) {
	var db *chsim.DB
	switch {
	case c.Traces != nil:
		db = c11.BuildCHDB(c.Traces)
	case c.Logs != nil:
		db = buildLogCH(c.Logs)
	default:
		return "no-tables-for-kind", nil
	}
	rf, ef := db.Query(fresh)
	rr, er := db.Query(reused)
	if errors.Is(ef, chsim.ErrUnsupported) || errors.Is(er, chsim.ErrUnsupported) {
		return "chsim-unsupported", nil
	}
	if ef != nil {
		// the fresh statement itself is not executable here (missing table, C07/C11 finding):
		// nothing to compare against
		return "fresh-statement-rejected", nil
	}
	if er != nil {
		return "", fmt.Errorf("the re-executed statement is rejected (%v) while the statement of a fresh plan runs", er)
	}
	a, b := rowKeys(rf), rowKeys(rr)
	if len(a) != len(b) {
		return "", fmt.Errorf("the re-executed statement returns %d rows, the statement of a fresh plan %d", len(b), len(a))
	}
	for i := range a {
		if a[i] != b[i] {
			return "", fmt.Errorf("the re-executed statement returns different rows: %s vs %s", b[i], a[i])
		}
	}
	return "", nil
}

func tokensEqual(a, b string) bool {
	ta, ea := chsim.Tokens(a)
	tb, eb := chsim.Tokens(b)
	if ea != nil || eb != nil || len(ta) != len(tb) {
		return false
	}
	for i := range ta {
		if ta[i].Kind != tb[i].Kind || ta[i].Val != tb[i].Val {
			return false
		}
	}
	return true
}

// statefulStages names the parts of the query whose planners keep mutable state.
func statefulStages(q querySpec) []string {
	var out []string
	switch q.Kind {
	case "logql":
		for _, s := range q.Log.Stages {
			if s.Kind == refeval.KLineFilter && (s.Op == "|~" || s.Op == "!~") {
				out = append(out, "regex-line-filter")
			}
			if s.Kind == refeval.KJSON {
				for _, p := range s.Params {
					if strings.Contains(p.Val, "[") {
						out = append(out, "json-array-path")
					}
				}
			}
			if s.Kind == refeval.KUnwrap || s.Kind == refeval.KDrop || s.Kind == refeval.KLabelFilter {
				out = append(out, "labels-cache-user")
			}
		}
		if q.Log.AggGroup != nil || q.Log.RangeGroup != nil {
			out = append(out, "by-without")
		}
	case "traceql":
		out = append(out, "traceql-attr-condition")
		for _, s := range q.Trace.Sels {
			if s.Agg != nil {
				out = append(out, "traceql-aggregator")
			}
		}
	}
	return out
}

func predReexec(c reexecCase, o *evid.Obs) error {
	if len(c.Params) < 2 {
		o.Discard("single-execution")
		return nil
	}
	plan, err := prepare(c.Q)
	if err != nil {
		o.Discard("query-rejected")
		return nil
	}
	o.Tag("kind:" + c.Q.Kind)
	differs, equivalent := false, false
	failed := 0
	for i, p := range c.Params {
		freshPlan, err := prepare(c.Q)
		if err != nil {
			return fmt.Errorf("query %q: planning succeeded once and fails later: %v", c.Q.Text(), err)
		}
		fresh, ferr := safeRun(freshPlan, p)
		reused, rerr := safeRun(plan, p)
		if ferr != nil {
			// a query the planner rejects while rendering (e.g. a `d` unit) has to be rejected
			// identically on every execution: keep executing, the plan must not "learn"
			if rerr == nil {
				return fmt.Errorf("query %q execution %d: a fresh plan fails (%v) but the re-executed plan does not", c.Q.Text(), i+1, ferr)
			}
			if rerr.Error() != ferr.Error() {
				return fmt.Errorf("query %q execution %d: the re-executed plan fails with %q, a fresh plan with %q", c.Q.Text(), i+1, rerr, ferr)
			}
			failed++
			continue
		}
		if rerr != nil {
			return fmt.Errorf("query %q: execution %d of the prepared plan fails (%v); a fresh plan with the same parameters succeeds", c.Q.Text(), i+1, rerr)
		}
		fresh, reused = normaliseAll(fresh), normaliseAll(reused)
		if len(fresh) != len(reused) {
			return fmt.Errorf("query %q: execution %d of the prepared plan sends %d statements, a fresh plan %d", c.Q.Text(), i+1, len(reused), len(fresh))
		}
		for k := range fresh {
			if fresh[k] == reused[k] {
				continue
			}
			differs = true
			if tokensEqual(fresh[k], reused[k]) {
				continue // white space only
			}
			reason, verr := c.sameMeaning(reused[k], fresh[k])
			if verr != nil {
				return fmt.Errorf("query %q, execution %d of the same plan (from=%d to=%d): %w\nre-executed: %s\nfresh plan:  %s", c.Q.Text(), i+1, p.FromNs, p.ToNs, verr, clip(reused[k]), clip(fresh[k]))
			}
			if reason != "" {
				o.Discard("differs:" + reason)
				return nil
			}
			equivalent = true
			if os.Getenv("C14_DEBUG") != "" {
				fmt.Printf("DEBUG same rows: %s\n  reused: %s\n  fresh:  %s\n", c.Q.Text(), clip(reused[k]), clip(fresh[k]))
			}
		}
	}
	if failed > 0 {
		if failed == len(c.Params) {
			o.Tag("rejected-identically-every-time")
			o.Discard("query-rejected")
		} else {
			o.Discard("params-rejected")
		}
		return nil
	}
	st := statefulStages(c.Q)
	for _, s := range st {
		o.Tag(s)
	}
	switch {
	case equivalent:
		o.Tag("text-differs-same-rows")
	case differs:
		o.Tag("whitespace-differs")
	default:
		o.Tag("identical-text")
	}
	if len(st) > 0 {
		o.NonTrivial()
	}
	return nil
}

func addReexec(r *evid.Run) {
	evid.Add(r, evid.Prop[reexecCase]{Name: "reexec", Quick: 1000, Thorough: 6000, Gen: genReexec, Pred: predReexec})
}

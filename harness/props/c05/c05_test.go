package c05

import (
	"testing"

	"qrynverif/evid"
)

var c05Config = evid.Config{
	Level: "exploration",
	Rule:  "generated requests (valid body of the route's protocol, then damaged: wrong-length ids, missing keys, byte flips, truncation, splices, JSON type swaps, hostile constants, random bytes; every Content-Type / Content-Encoding incl. compression that lies; hostile from/until/name/precision/ddsource) against the real writer route table on a loopback HTTP server over insert services that write to a fake accepting everything; non-trivial: the request reached a body decoder (not the router's 404/405, not net/http's own 400, not 'Content-Type not supported', not turned away by the encoding / precision / profile-parameter checks in front of the decoder)",
	Assumptions: []string{
		"a response must arrive within 10 s (normal latency: milliseconds); a miss counts only if a goroutine with a qryn frame is still alive 20 s later and all of this repeats on a fresh server",
		"3 in 10 requests are first sent by a client that aborts (prefix, chunked cut, headers only, no read, slow); groups of 2-16 concurrent requests are 10 % of the quick cases and run under the race detector in TestRace",
		"goroutines with a qryn frame must be gone 10 s after the response",
		"bodies up to about 1.5 MiB on the wire; compressed bodies inflate to at most 8 MiB",
	},
}

func TestProp(t *testing.T) {
	r := evid.New(t, "C05", c05Config)
	addRequest(r)
	addGroup(r, 200, 600)
	r.Main()
}

// TestRace runs groups of concurrent requests under the race detector (the driver builds this
// binary with -race): one sub-test per group, so a race report is attributed to the group.
func TestRace(t *testing.T) {
	raceT = t
	defer func() { raceT = nil }()
	r := evid.New(t, "C05", c05Config)
	addGroup(r, 60, 150)
	r.Main()
}

package c05

import (
	"testing"

	"qrynverif/evid"
)

func TestProp(t *testing.T) {
	r := evid.New(t, "C05", evid.Config{
		Level: "exploration",
		Rule:  "generated requests (valid body of the route's protocol, then damaged: wrong-length ids, missing keys, byte flips, truncation, splices, JSON type swaps, hostile constants, random bytes; every Content-Type / Content-Encoding incl. compression that lies; hostile from/until/name/precision/ddsource) against the real writer route table on a loopback HTTP server over insert services that write to a fake accepting everything; non-trivial: the request reached a body decoder (not the router's 404/405, not net/http's own 400, not 'Content-Type not supported', not turned away by the encoding / precision / profile-parameter checks in front of the decoder)",
		Assumptions: []string{
			"a response must arrive within 10 s (normal latency: milliseconds); a miss counts only if a goroutine with a qryn frame is still alive 20 s later and all of this repeats on a fresh server",
			"requests are complete (Content-Length matches the body); slow or half-sent requests are out of scope",
			"goroutines with a qryn frame must be gone 10 s after the response",
			"bodies up to about 1.5 MiB on the wire; compressed bodies inflate to at most 8 MiB",
		},
	})
	addRequest(r)
	r.Main()
}

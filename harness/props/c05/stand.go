// Package c05 decides property C05: no request body can crash or wedge the ingest side.
//
// stand.go: the system under test. One stand = the real writer route table
// (inssvc.Harness.Router: exactly plugin.performV1APIRouting) served by a real net/http
// server on loopback, the real insert services over the writer fake (fakech, accepts
// everything, decodes and checks every INSERT block), and the observers the oracle needs:
//
//   - a pass-through guard around every insert service that notices a panic travelling up
//     through IInsertServiceV2.Request. In qryn that call is made from the goroutine doPush
//     starts (writer/controller/builder.go:171, retry.Do has no recover), so such a panic
//     ends the process. The guard turns it into an observation, so the case can be shrunk
//     and replayed in-process; panics in other goroutines still kill the test binary and are
//     caught by the write-ahead case log (WAL);
//   - the server's ErrorLog, where net/http reports a panic it swallowed in the handler
//     goroutine ("http: panic serving");
//   - a census of goroutines with a qryn frame.
package c05

import (
	"bufio"
	"bytes"
	"fmt"
	"io"
	"log"
	"net"
	"net/http"
	"net/http/httptest"
	"os"
	"runtime"
	"runtime/debug"
	"strings"
	"sync"
	"time"

	controllerv1 "github.com/metrico/qryn/writer/controller"
	"github.com/metrico/qryn/writer/service"
	"github.com/metrico/qryn/writer/service/registry"
	"github.com/metrico/qryn/writer/utils/helpers"
	"github.com/metrico/qryn/writer/utils/promise"

	"qrynverif/fakech"
	"qrynverif/inssvc"
)

type syncBuf struct {
	mu sync.Mutex
	b  bytes.Buffer
}

func (s *syncBuf) Write(p []byte) (int, error) {
	s.mu.Lock()
	defer s.mu.Unlock()
	if s.b.Len() < 1<<20 {
		s.b.Write(p)
	}
	return len(p), nil
}

func (s *syncBuf) String() string {
	s.mu.Lock()
	defer s.mu.Unlock()
	return s.b.String()
}

type stand struct {
	h      *inssvc.Harness
	srv    *httptest.Server
	addr   string
	errlog *syncBuf
	base   map[string]bool // goroutine ids alive before the first request

	mu     sync.Mutex
	panics []string
	wedged bool // a request of this stand never returned: the server cannot be closed

	// a stand serves many cases (creating one costs tens of milliseconds: every insert
	// service allocates its column buffers); the marks say where the current case starts
	cfg      inssvc.Config
	uses     int
	callMark int
	subMark  int
	logMark  int
}

// begin marks the start of a case.
func (st *stand) begin() {
	st.uses++
	_, _, st.callMark = st.h.DB.Stats()
	st.subMark, _ = st.h.Rec.Counts()
	st.logMark = len(st.errlog.String())
	st.mu.Lock()
	st.panics = nil
	st.mu.Unlock()
}

func (st *stand) calls() []*fakech.Call      { return st.h.DB.Calls()[st.callMark:] }
func (st *stand) subs() []*inssvc.Submission { return st.h.Rec.Subs()[st.subMark:] }
func (st *stand) log() string                { return st.errlog.String()[st.logMark:] }

var (
	curMu sync.Mutex
	cur   *stand
)

// acquire returns a stand with the given configuration: the one kept from the previous
// case when it is clean, has the same configuration and is not worn out; a new one otherwise.
func acquire(cfg inssvc.Config, fresh bool) *stand {
	curMu.Lock()
	defer curMu.Unlock()
	if cur != nil && (fresh || cur.cfg != cfg || cur.uses >= 150) {
		cur.close()
		cur = nil
	}
	st := cur
	cur = nil
	if st == nil {
		st = newStand(cfg)
	}
	st.begin()
	return st
}

// release keeps a clean stand for the next case and closes a tainted one.
func release(st *stand, tainted bool) {
	if tainted || st.wedged {
		st.close()
		return
	}
	curMu.Lock()
	defer curMu.Unlock()
	if cur != nil {
		cur.close()
	}
	cur = st
}

// guard forwards to the recording proxy of inssvc (which forwards to the real service).
type guard struct {
	service.IInsertServiceV2
	st *stand
}

func (g *guard) Request(req helpers.SizeGetter, mode int) (p *promise.Promise[uint32]) {
	defer func() {
		if r := recover(); r != nil {
			g.st.mu.Lock()
			g.st.panics = append(g.st.panics, fmt.Sprintf("%v\n%s", r, trimTo(string(debug.Stack()), 3500)))
			g.st.mu.Unlock()
			p = promise.Fulfilled[uint32](fmt.Errorf("c05: panic in the push goroutine: %v", r), 0)
		}
	}()
	return g.IInsertServiceV2.Request(req, mode)
}

func trimTo(s string, n int) string {
	if len(s) > n {
		return s[:n] + "…"
	}
	return s
}

func newStand(cfg inssvc.Config) *stand {
	st := &stand{errlog: &syncBuf{}, cfg: cfg}
	st.h = inssvc.New(cfg)
	one := func(k inssvc.Kind) map[string]service.IInsertServiceV2 {
		return map[string]service.IInsertServiceV2{inssvc.NodeName: &guard{IInsertServiceV2: st.h.Svc[k], st: st}}
	}
	// same wiring as inssvc.New / plugin.CreateStaticServiceRegistry, with the guard in between
	controllerv1.Registry = registry.NewStaticServiceRegistry(one(inssvc.Series), one(inssvc.Samples), one(inssvc.Metrics),
		one(inssvc.Spans), one(inssvc.Tags), one(inssvc.Profile))
	st.srv = httptest.NewUnstartedServer(st.h.Router)
	st.srv.Config.ErrorLog = log.New(st.errlog, "", 0)
	st.srv.Start()
	st.addr = st.srv.Listener.Addr().String()
	st.base = map[string]bool{}
	for id := range census() {
		st.base[id] = true
	}
	return st
}

func (st *stand) pushPanics() []string {
	st.mu.Lock()
	defer st.mu.Unlock()
	return append([]string(nil), st.panics...)
}

// close releases the stand. A wedged stand is abandoned: httptest.Server.Close waits for
// outstanding requests, and a spinning goroutine cannot be stopped.
func (st *stand) close() {
	if st.wedged {
		st.srv.CloseClientConnections()
		_ = st.srv.Listener.Close()
		go st.h.Close()
		return
	}
	st.srv.Close()
	st.h.Close()
}

// ---- goroutine census ---------------------------------------------------------------------

const qrynFrame = "github.com/metrico/qryn/"

var (
	stackMu  sync.Mutex
	stackBuf = make([]byte, 1<<20)
)

func allStacks() string {
	stackMu.Lock()
	defer stackMu.Unlock()
	for {
		n := runtime.Stack(stackBuf, true)
		if n < len(stackBuf) {
			return string(stackBuf[:n])
		}
		stackBuf = make([]byte, 2*len(stackBuf))
	}
}

// serviceLoop recognises the Run loops of the insert services (started by inssvc.New some
// time after it returns, ended by Harness.Close): long-lived by design. A loop that is
// inside fetchLoopIteration is doing work and is not filtered.
func serviceLoop(blk string) bool {
	if strings.Contains(blk, "fetchLoopIteration") {
		return false
	}
	return strings.Contains(blk, "service.(*InsertServiceV2).Run(") || strings.Contains(blk, "service.(*InsertServiceV2RoundRobin).Run") ||
		strings.Contains(blk, "service.(*InsertServiceV2Multimodal).Run")
}

// census returns id -> stack of every goroutine with a qryn frame (running in, or created
// by, qryn code).
func census() map[string]string {
	out := map[string]string{}
	for _, blk := range strings.Split(allStacks(), "\n\n") {
		if !strings.Contains(blk, qrynFrame) || serviceLoop(blk) {
			continue
		}
		head := blk
		if i := strings.IndexByte(blk, '['); i > 0 {
			head = blk[:i]
		}
		out[strings.TrimSpace(head)] = blk
	}
	return out
}

// extra returns the qryn goroutines that were not alive at baseline.
func (st *stand) extra() map[string]string {
	out := map[string]string{}
	for id, blk := range census() {
		if !st.base[id] {
			out[id] = blk
		}
	}
	return out
}

// settle waits until no goroutine with a qryn frame is left over; it returns the stacks of
// the survivors after the bound.
func (st *stand) settle(bound time.Duration) map[string]string {
	dl := time.Now().Add(bound)
	wait := 200 * time.Microsecond
	for {
		ex := st.extra()
		if len(ex) == 0 || time.Now().After(dl) {
			return ex
		}
		time.Sleep(wait)
		if wait < 20*time.Millisecond {
			wait *= 2
		}
	}
}

// ---- wire ---------------------------------------------------------------------------------

type wireReq struct {
	Method string
	Target string // request-target exactly as written on the request line
	Header [][2]string
	Body   []byte
}

type wireResp struct {
	Status  int
	Body    string
	Err     error // no complete HTTP response
	Timeout bool  // ... because the deadline passed
	Dur     time.Duration
}

// send writes one HTTP/1.1 request on a fresh loopback connection and reads the response.
// A hand-written request keeps net/http's client out of the way: any byte string can be
// a header value, a query string or a body.
func send(addr string, rq wireReq, deadline time.Duration) wireResp {
	t0 := time.Now()
	conn, err := net.DialTimeout("tcp", addr, 5*time.Second)
	if err != nil {
		return wireResp{Err: fmt.Errorf("dial: %w", err)}
	}
	defer conn.Close()
	_ = conn.SetDeadline(t0.Add(deadline))
	var hb bytes.Buffer
	fmt.Fprintf(&hb, "%s %s HTTP/1.1\r\nHost: qryn.test\r\nConnection: close\r\nContent-Length: %d\r\n", rq.Method, rq.Target, len(rq.Body))
	for _, h := range rq.Header {
		fmt.Fprintf(&hb, "%s: %s\r\n", h[0], h[1])
	}
	hb.WriteString("\r\n")
	// the server may answer (and close) before it has read a large body: write in the
	// background and read the response regardless of the outcome of the write
	wdone := make(chan struct{})
	go func() {
		defer close(wdone)
		if _, err := conn.Write(hb.Bytes()); err != nil {
			return
		}
		_, _ = conn.Write(rq.Body)
	}()
	resp, err := http.ReadResponse(bufio.NewReader(conn), nil)
	if err != nil {
		<-wdone
		ne, ok := err.(net.Error)
		return wireResp{Err: err, Timeout: ok && ne.Timeout(), Dur: time.Since(t0)}
	}
	body, _ := io.ReadAll(io.LimitReader(resp.Body, 1<<16))
	resp.Body.Close()
	conn.Close()
	<-wdone
	return wireResp{Status: resp.StatusCode, Body: string(body), Dur: time.Since(t0)}
}

// quiet silences what qryn's decoders print with fmt.Println while a case runs.
func quiet() func() {
	old := os.Stdout
	if f, err := os.OpenFile(os.DevNull, os.O_WRONLY, 0); err == nil {
		os.Stdout = f
		return func() { os.Stdout = old; f.Close() }
	}
	return func() {}
}

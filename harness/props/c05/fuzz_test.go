package c05

// Native fuzz targets (thorough tier), one per body decoder plus one for the handler entry.
// Every target drives the real handler of the decoder's route in-process (Router.ServeHTTP:
// content-type dispatch, doParse, doPush and the insert services are the real ones), so a
// panic in the handler goroutine is a crash of the target, and the oracle is C05's:
//
//   - the handler returns within fuzzDeadline (a spinning parser goroutine cannot be
//     stopped: the target panics with a goroutine dump);
//   - no panic travels through IInsertServiceV2.Request (process exit in production);
//   - every INSERT block is rectangular and well-formed, every promise is answered;
//   - (handler target) a well-formed probe push afterwards is acknowledged and intact.
//
// No region is excluded: the findings that used to be skipped here (remote write with
// >= 1000 samples, profiles over 1 MiB) are repaired in the tree.

import (
	"bytes"
	"encoding/binary"
	"fmt"
	"net/http"
	"net/http/httptest"
	"net/url"
	"runtime"
	"strings"
	"testing"
	"time"

	"github.com/golang/snappy"
	"pgregory.net/rapid"

	"qrynverif/gen"
	"qrynverif/inssvc"
)

const fuzzDeadline = 60 * time.Second

var (
	fuzzStand *stand
	fuzzUses  int
)

func fuzzSt() *stand {
	if fuzzStand == nil || fuzzUses > 2000 {
		if fuzzStand != nil {
			fuzzStand.close()
		}
		// MaxQueueSize 1: every submission asks for a flush at once, no waiting for the timer
		fuzzStand = newStand(inssvc.Config{IntervalMs: 2, MaxQueueSize: 1, Workers: 1, RetryAttempts: 1})
		fuzzUses = 0
	}
	fuzzUses++
	fuzzStand.begin()
	return fuzzStand
}

func bounded(what string, f func()) {
	done := make(chan any, 1)
	go func() {
		defer func() { done <- recover() }()
		f()
	}()
	select {
	case p := <-done:
		if p != nil {
			panic(fmt.Sprintf("C05: panic in the handler goroutine of %s: %v", what, p))
		}
	case <-time.After(fuzzDeadline):
		panic(fmt.Sprintf("C05: %s did not return within %v\n%s", what, fuzzDeadline, stacksOf(census(), 6)))
	}
}

// serve runs one request through the real router and checks the oracle.
func serve(t *testing.T, method, path, rawQuery, ct, ce string, body []byte, probe bool) int {
	restore := quiet()
	defer restore()
	st := fuzzSt()
	req, err := http.NewRequest(method, "http://qryn.test/", bytes.NewReader(body))
	if err != nil {
		t.Skip()
	}
	req.URL = &url.URL{Scheme: "http", Host: "qryn.test", Path: path, RawQuery: rawQuery}
	req.RequestURI = path
	if ct != "" {
		req.Header.Set("Content-Type", ct)
	}
	if ce != "" {
		req.Header.Set("Content-Encoding", ce)
	}
	rec := httptest.NewRecorder()
	what := fmt.Sprintf("%s %s?%s (Content-Type %q, Content-Encoding %q, %d body bytes)", method, path, trimTo(rawQuery, 200), ct, ce, len(body))
	small := len(body) <= smallBody && len(rawQuery) <= 2048
	var m0, m1 runtime.MemStats
	if small {
		runtime.ReadMemStats(&m0)
	}
	bounded(what, func() { st.h.Router.ServeHTTP(rec, req) })
	if small {
		runtime.ReadMemStats(&m1)
		if d := m1.TotalAlloc - m0.TotalAlloc; d > allocBound {
			fuzzStand = nil
			t.Fatalf("C05: %s (answered %d) allocated %d MiB (bound %d MiB): an announced size is trusted before it is checked", what, rec.Code, d>>20, allocBound>>20)
		}
	}
	var prec *httptest.ResponseRecorder
	var exp []inssvc.Expect
	if probe {
		prq, e, _ := buildProbe(reqCase{Probe: []string{"loki", "prom", "zipkin", "profile"}[fuzzUses%4], ProbeN: 2})
		exp = e
		preq, _ := http.NewRequest(prq.Method, "http://qryn.test"+prq.Target, bytes.NewReader(prq.Body))
		for _, h := range prq.Header {
			preq.Header.Set(h[0], h[1])
		}
		prec = httptest.NewRecorder()
		bounded("probe after "+what, func() { st.h.Router.ServeHTTP(prec, preq) })
	}
	if !st.h.Rec.WaitAnswered(fuzzDeadline) {
		panic(fmt.Sprintf("C05: after %s a request to an insert service was never answered\n%s", what, stacksOf(st.extra(), 6)))
	}
	if p := st.pushPanics(); len(p) > 0 {
		fuzzStand = nil
		t.Fatalf("C05: %s (answered %d): panic inside IInsertServiceV2.Request (un-recovered goroutine of doPush: process exit): %s", what, rec.Code, p[0])
	}
	for _, call := range st.calls() {
		if call.RectErr != "" || call.ShapeErr != "" {
			fuzzStand = nil
			t.Fatalf("C05: %s (answered %d): malformed INSERT block for %s: %s %s", what, rec.Code, call.Table, call.RectErr, call.ShapeErr)
		}
	}
	if probe {
		if prec.Code < 200 || prec.Code > 299 {
			fuzzStand = nil
			t.Fatalf("C05: after %s (answered %d) a well-formed push was answered %d %s", what, rec.Code, prec.Code, trimTo(prec.Body.String(), 300))
		}
		if err := checkProbeRows(st, exp); err != nil {
			fuzzStand = nil
			t.Fatalf("C05: after %s (answered %d): %v", what, rec.Code, err)
		}
	}
	return rec.Code
}

// ---- seeds ----------------------------------------------------------------------------------

func seedBodies(family string, n int) [][]byte {
	g := rapid.Custom(func(rt *rapid.T) []byte { return validBody(rt, family, false).inner })
	var out [][]byte
	for i := 0; i < n; i++ {
		b := g.Example(i + 1)
		if len(b) < 64<<10 {
			out = append(out, b)
		}
	}
	return out
}

func hostileSeeds(kinds ...string) [][]byte {
	var out [][]byte
	for _, k := range kinds {
		for _, s := range hostileBodies[k] {
			if len(s) < 64<<10 {
				out = append(out, []byte(s))
			}
		}
	}
	return out
}

func addBodies(f *testing.F, family string, kinds ...string) {
	for _, b := range seedBodies(family, 12) {
		f.Add(b)
	}
	for _, b := range hostileSeeds(kinds...) {
		f.Add(b)
	}
}

// ---- decoder targets ------------------------------------------------------------------------

func FuzzLokiJSON(f *testing.F) {
	addBodies(f, "loki-json", "json")
	f.Fuzz(func(t *testing.T, body []byte) {
		serve(t, "POST", "/loki/api/v1/push", "", "application/json", "", body, false)
	})
}

func FuzzLokiProto(f *testing.F) {
	addBodies(f, "loki-proto", "proto")
	f.Fuzz(func(t *testing.T, raw []byte) {
		serve(t, "POST", "/loki/api/v1/push", "", "application/x-protobuf", "", snappy.Encode(nil, raw), false)
	})
}

func FuzzPromRemoteWrite(f *testing.F) {
	addBodies(f, "prom-rw", "proto")
	f.Fuzz(func(t *testing.T, raw []byte) {
		serve(t, "POST", "/api/v1/prom/remote/write", "", "application/x-protobuf", "", snappy.Encode(nil, raw), false)
	})
}

func FuzzInflux(f *testing.F) {
	for _, b := range append(seedBodies("influx", 12), hostileSeeds("influx")...) {
		f.Add(b, uint8(0))
		f.Add(b, uint8(3))
	}
	f.Fuzz(func(t *testing.T, body []byte, prec uint8) {
		q := []string{"", "precision=ns", "precision=us", "precision=ms", "precision=s"}[int(prec)%5]
		serve(t, "POST", "/influx/api/v2/write", q, "text/plain", "", body, false)
	})
}

func FuzzDatadogLogs(f *testing.F) {
	addBodies(f, "dd-logs", "json")
	f.Fuzz(func(t *testing.T, body []byte) {
		serve(t, "POST", "/api/v2/logs", "ddsource=nginx", "application/json", "", body, false)
	})
}

func FuzzDatadogMetrics(f *testing.F) {
	addBodies(f, "dd-metrics", "json")
	f.Fuzz(func(t *testing.T, body []byte) {
		serve(t, "POST", "/api/v2/series", "", "application/json", "", body, false)
	})
}

func FuzzDatadogCF(f *testing.F) {
	for _, b := range append(seedBodies("cf", 12), hostileSeeds("json")...) {
		f.Add(b, "cloudflare")
	}
	f.Fuzz(func(t *testing.T, body []byte, ddsource string) {
		serve(t, "POST", "/cf/v1/insert", url.Values{"ddsource": {ddsource}}.Encode(), "application/json", "", body, false)
	})
}

func FuzzOTLPLogs(f *testing.F) {
	addBodies(f, "otlp-logs", "proto")
	f.Fuzz(func(t *testing.T, body []byte) {
		serve(t, "POST", "/v1/logs", "", "application/x-protobuf", "", body, false)
	})
}

func FuzzElasticBulk(f *testing.F) {
	addBodies(f, "es-bulk", "json")
	f.Fuzz(func(t *testing.T, body []byte) {
		serve(t, "POST", "/logs/_bulk", "", "application/x-ndjson", "", body, false)
	})
}

func FuzzElasticDoc(f *testing.F) {
	addBodies(f, "es-doc", "json")
	f.Fuzz(func(t *testing.T, body []byte) {
		serve(t, "POST", "/logs/_create/1", "", "application/json", "", body, false)
	})
}

func FuzzZipkinJSON(f *testing.F) {
	addBodies(f, "zipkin", "json")
	f.Fuzz(func(t *testing.T, body []byte) {
		serve(t, "POST", "/tempo/spans", "", "application/json", "", body, false)
	})
}

func FuzzZipkinNDJSON(f *testing.F) {
	addBodies(f, "zipkin-nd", "json")
	f.Fuzz(func(t *testing.T, body []byte) {
		serve(t, "POST", "/api/v2/spans", "", "ndjson", "", body, false)
	})
}

func otlpIDSeeds() [][]byte {
	g := rapid.Custom(func(rt *rapid.T) []byte { b, _ := damagedOTLP(rt); return b })
	var out [][]byte
	for i := 0; i < 8; i++ {
		out = append(out, g.Example(i+1))
	}
	return out
}

func FuzzOTLPTraces(f *testing.F) {
	addBodies(f, "otlp-traces", "proto")
	for _, b := range otlpIDSeeds() {
		f.Add(b)
	}
	f.Fuzz(func(t *testing.T, body []byte) {
		serve(t, "POST", "/v1/traces", "", "application/x-protobuf", "", body, false)
	})
}

var profileParamSeeds = [][3]string{{"1705320000", "1705320010", "app{a=b}"}, {"0", "0", "app"}, {"1", "abc", "{"}, {"18446744073709551615", "1", "app{a=b,c}"},
	{"999999999999999999", "1000000000000000000", "}{"}, {"-1", "", "app{=}"}}

func FuzzProfileMultipart(f *testing.F) {
	for i, b := range seedBodies("pprof-multipart", 10) {
		mp, _ := gen.Multipart(gz(b), i%2 == 0)
		p := profileParamSeeds[i%len(profileParamSeeds)]
		f.Add(mp, p[0], p[1], p[2])
	}
	for i, b := range hostileSeeds("multipart") {
		p := profileParamSeeds[i%len(profileParamSeeds)]
		f.Add(b, p[0], p[1], p[2])
	}
	f.Fuzz(func(t *testing.T, body []byte, from, until, name string) {
		q := url.Values{"from": {from}, "until": {until}, "name": {name}}.Encode()
		ct := "multipart/form-data; boundary=" + mpBoundary
		serve(t, "POST", "/ingest", q, ct, "", body, false)
	})
}

func FuzzProfileBinary(f *testing.F) {
	for i, b := range append(seedBodies("pprof-binary", 10), hostileSeeds("pprof")...) {
		p := profileParamSeeds[i%len(profileParamSeeds)]
		f.Add(b, p[0], p[1], p[2])
		if i%3 == 0 {
			f.Add(gz(b), p[0], p[1], p[2])
		}
	}
	f.Fuzz(func(t *testing.T, body []byte, from, until, name string) {
		q := url.Values{"from": {from}, "until": {until}, "name": {name}}.Encode()
		serve(t, "POST", "/ingest", q, "binary/octet-stream", "", body, false)
	})
}

// ---- handler entry --------------------------------------------------------------------------

func FuzzHandler(f *testing.F) {
	g := rapid.Custom(genReq(false))
	for i := 0; i < 60; i++ {
		c := g.Example(i + 1)
		if len(c.Body) > 64<<10 || c.Fill != nil {
			continue
		}
		ri := 0
		for k := range routes {
			if routes[k].name == c.Route {
				ri = k
			}
		}
		q := ""
		if j := strings.IndexByte(string(c.Target), '?'); j >= 0 {
			q = string(c.Target)[j+1:]
		}
		f.Add(uint8(ri), c.header("Content-Type"), c.header("Content-Encoding"), q, c.Body)
	}
	// tiny bodies announcing huge ones, on the routes that un-snappy the body themselves
	for ri, rd := range routes {
		if rd.name == "loki-push" || strings.HasPrefix(rd.name, "prom-") {
			for _, size := range announcedSizes {
				f.Add(uint8(ri), "application/x-protobuf", "", "", append(binary.AppendUvarint(nil, size), 0))
			}
		}
	}
	f.Fuzz(func(t *testing.T, route uint8, ct, ce, query string, body []byte) {
		rd := routes[int(route)%len(routes)]
		path := strings.NewReplacer("{target}", "logs", "{id}", "1").Replace(rd.path)
		serve(t, rd.method, path, query, ct, ce, body, true)
	})
}

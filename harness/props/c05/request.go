package c05

// request.go: the oracle of C05 for one generated request.
//
//  1. the request gets a complete HTTP response within respDeadline (10 s against a normal
//     latency of a few milliseconds). A miss counts only when a goroutine with a qryn frame
//     is still running or blocked and the miss shows again on a second, fresh stand;
//     otherwise the case is discarded as inconclusive. A connection closed without a
//     response counts when net/http logged a panic in the handler goroutine, or when it
//     shows again on a second attempt;
//  2. no panic travelled up through IInsertServiceV2.Request (un-recovered in qryn: the
//     process would exit); a panic in any other goroutine kills this process and is found
//     through the write-ahead case log;
//  3. every INSERT block the fake received is rectangular and well-formed;
//  4. a well-formed probe push to another endpoint afterwards is acknowledged and each of its
//     rows arrives in a successful block, column for column as submitted;
//  5. every promise is answered and no goroutine with a qryn frame is left over (polled up
//     to settleBound).

import (
	"bytes"
	"compress/gzip"
	"fmt"
	"io"
	"net/url"
	"os"
	"runtime"
	"sort"
	"strings"
	"sync/atomic"
	"time"

	"qrynverif/evid"
	"qrynverif/inssvc"
)

const (
	smallBody  = 4 << 10   // the allocation oracle applies to bodies up to this size
	allocUsual = 34 << 20  // what the unchanged tree allocates at most for such a body (measured, see NOTES.md)
	allocBound = 192 << 20 // > 5 x allocUsual

	respDeadline = 10 * time.Second
	graceBound   = 20 * time.Second // after a missed deadline: does the request end by itself (slow machine)?
	settleBound  = 10 * time.Second
)

var probeSeq atomic.Int64

func (c reqCase) wire() wireReq {
	rq := wireReq{Method: c.Method, Target: string(c.Target), Body: c.wireBody()}
	for _, h := range c.Header {
		rq.Header = append(rq.Header, [2]string{string(h[0]), string(h[1])})
	}
	return rq
}

func (c reqCase) header(name string) string {
	for _, h := range c.Header {
		if strings.EqualFold(string(h[0]), name) {
			return strings.TrimSpace(string(h[1]))
		}
	}
	return ""
}

func (c reqCase) cfg() inssvc.Config {
	cfg := c.Cfg
	// replayed / shrunk cases: keep the batching timer inside the response deadline
	if cfg.IntervalMs <= 0 {
		cfg.IntervalMs = 2
	}
	if cfg.IntervalMs > 50 {
		cfg.IntervalMs = 50
	}
	if cfg.Workers > 4 {
		cfg.Workers = 4
	}
	if cfg.RetryAttempts > 3 {
		cfg.RetryAttempts = 3
	}
	cfg.RetryTimeoutS = 0
	return cfg
}

// reachedDecoder implements the non-trivial rule: the response is not the router's
// 404/405/301, not net/http's own 400, not "Content-Type not supported", and the request
// was not turned away by the middleware in front of the decoder (unsupported or broken
// Content-Encoding, invalid precision, missing profile parameters).
func reachedDecoder(c reqCase, wireBody []byte, resp wireResp) (bool, string) {
	switch resp.Status {
	case 404, 405, 301, 308:
		return false, "router"
	case 431, 414, 505, 501:
		return false, "net/http"
	}
	if resp.Status == 400 && !strings.Contains(resp.Body, `"success"`) {
		return false, "net/http"
	}
	if strings.Contains(resp.Body, "Content-Type not supported") {
		return false, "content-type"
	}
	if strings.Contains(resp.Body, "encoding not supported") {
		return false, "content-encoding"
	}
	if strings.Contains(resp.Body, "Invalid precision") {
		return false, "precision"
	}
	if c.header("Content-Encoding") == "gzip" {
		if _, err := gzip.NewReader(bytes.NewReader(wireBody)); err != nil {
			return false, "gzip-header"
		}
	}
	if c.Route == "ingest" {
		raw := ""
		if i := strings.IndexByte(string(c.Target), '?'); i >= 0 {
			raw = string(c.Target)[i+1:]
		}
		q, _ := url.ParseQuery(raw)
		if q.Get("from") == "" || q.Get("name") == "" || q.Get("until") == "" {
			return false, "profile-params"
		}
	}
	return true, ""
}

// ---- probe ----------------------------------------------------------------------------------

func buildProbe(c reqCase) (wireReq, []inssvc.Expect, string) {
	kind := c.Probe
	if !contains(inssvc.HTTPKinds, kind) {
		kind = "loki"
	}
	rd := routeByName(c.Route)
	path := ""
	if rd != nil && rd.probeOn == kind {
		switch kind {
		case "loki":
			kind = "prom"
		case "prom":
			path = "/v1/prom/remote/write"
		case "zipkin":
			path = "/api/v2/spans"
		}
	}
	n := c.ProbeN
	if n < 1 {
		n = 1
	}
	if n > 50 {
		n = 50
	}
	id := int(probeSeq.Add(1)%900000) + 1
	streams := 1 + n%2
	if streams > n {
		streams = n // a stream without entries is a finding of its own (C03-empty-stream-fails-push)
	}
	hr, exp := inssvc.BuildHTTP(kind, id, streams, n, false)
	body, _ := io.ReadAll(hr.Body)
	rq := wireReq{Method: hr.Method, Target: hr.URL.RequestURI(), Body: body}
	if path != "" {
		rq.Target = path
		if hr.URL.RawQuery != "" {
			rq.Target += "?" + hr.URL.RawQuery
		}
	}
	for k, v := range hr.Header {
		for _, x := range v {
			rq.Header = append(rq.Header, [2]string{k, x})
		}
	}
	return rq, exp, kind
}

func contains(l []string, s string) bool {
	for _, x := range l {
		if x == s {
			return true
		}
	}
	return false
}

func matches(e inssvc.Expect, r inssvc.Row) bool {
	if e.Table != r.Table {
		return false
	}
	if e.Prefix {
		return strings.HasPrefix(r.Marker, e.Marker)
	}
	return r.Marker == e.Marker
}

// checkProbeRows: every expected row of the probe sits in a successful block, and every row
// the probe's handler submitted is in such a block column for column.
func checkProbeRows(st *stand, exp []inssvc.Expect) error {
	type occ struct {
		row inssvc.Row
		ok  bool
	}
	byKey := map[string][]occ{}
	var all []occ
	for _, call := range st.calls() {
		for _, r := range inssvc.BlockRows(call) {
			o := occ{r, call.OKResult()}
			byKey[r.Table+"|"+r.Marker] = append(byKey[r.Table+"|"+r.Marker], o)
			all = append(all, o)
		}
	}
	for _, e := range exp {
		found := false
		if !e.Prefix {
			for _, o := range byKey[e.Table+"|"+e.Marker] {
				found = found || o.ok
			}
		} else {
			for _, o := range all {
				if o.ok && matches(e, o.row) {
					found = true
					break
				}
			}
		}
		if !found {
			return fmt.Errorf("the probe was acknowledged but its row %s %q is in no successful INSERT block", e.Table, e.Marker)
		}
	}
	for _, s := range st.subs() {
		for _, r := range s.Rows {
			mine := false
			for _, e := range exp {
				if matches(e, r) {
					mine = true
					break
				}
			}
			if !mine {
				continue
			}
			best := "not in any successful block"
			okRow := false
			for _, o := range byKey[r.Table+"|"+r.Marker] {
				if !o.ok {
					continue
				}
				d := inssvc.DiffRow(r, o.row)
				if d == "" {
					okRow = true
					break
				}
				best = d
			}
			if !okRow {
				return fmt.Errorf("probe row %s %q did not arrive as submitted: %s", r.Table, r.Marker, best)
			}
		}
	}
	return nil
}

// ---- the predicate --------------------------------------------------------------------------

func stacksOf(m map[string]string, max int) string {
	ids := make([]string, 0, len(m))
	for id := range m {
		ids = append(ids, id)
	}
	sort.Strings(ids)
	var sb strings.Builder
	for i, id := range ids {
		if i >= max {
			fmt.Fprintf(&sb, "… and %d more\n", len(ids)-max)
			break
		}
		sb.WriteString(trimTo(m[id], 1800))
		sb.WriteString("\n\n")
	}
	return sb.String()
}

func allocClass(d uint64) string {
	for _, b := range []uint64{1, 4, 8, 16, 32, 64, 192} {
		if d < b<<20 {
			return fmt.Sprintf("<%dMiB", b)
		}
	}
	return ">=192MiB"
}

// twin returns the case with every occurrence of the phrase (plain, query-escaped,
// path-escaped, Influx-escaped) altered, and whether anything changed.
func (c reqCase) twin() (reqCase, bool) {
	tp := twinOf(c.Phrase)
	forms := [][2]string{{c.Phrase, tp}, {url.QueryEscape(c.Phrase), url.QueryEscape(tp)}, {url.PathEscape(c.Phrase), url.PathEscape(tp)},
		{strings.ReplaceAll(c.Phrase, " ", `\ `), strings.ReplaceAll(tp, " ", `\ `)}}
	t := c
	rep := func(b []byte) []byte {
		for _, f := range forms {
			b = bytes.ReplaceAll(b, []byte(f[0]), []byte(f[1]))
		}
		return b
	}
	t.Target = evid.Str(rep([]byte(c.Target)))
	t.Body = rep(append([]byte(nil), c.Body...))
	if c.Fill != nil {
		f := *c.Fill
		f.Unit, f.Tail = rep(append([]byte(nil), f.Unit...)), rep(append([]byte(nil), f.Tail...))
		t.Fill = &f
	}
	t.Header = nil
	for _, h := range c.Header {
		t.Header = append(t.Header, [2]evid.Str{h[0], evid.Str(rep([]byte(h[1])))})
	}
	changed := string(t.Target) != string(c.Target) || !bytes.Equal(t.Body, c.Body)
	return t, changed
}

func statusClass(s int) string {
	switch {
	case s >= 200 && s < 300:
		return "status-2xx"
	case s >= 300 && s < 400:
		return "status-3xx"
	case s >= 400 && s < 500:
		return "status-4xx"
	case s >= 500:
		return "status-5xx"
	}
	return "status-none"
}

func describe(c reqCase) string {
	n := len(c.Body)
	if c.Fill != nil {
		n = len(c.wireBody())
	}
	return fmt.Sprintf("%s %s (route %s, body %s %d bytes, %s, %s)", c.Method, trimTo(string(c.Target), 200), c.Route, c.Family, n, strings.Join(c.Muts, "+"), c.Enc)
}

func predReq(c reqCase, o *evid.Obs) error {
	restore := quiet()
	defer restore()

	o.Tag("route:"+c.Route, "family:"+c.Family, "enc:"+c.Enc, "probe:"+c.Probe)
	for _, m := range c.Muts {
		if i := strings.IndexByte(m, '@'); i > 0 {
			o.Tag("mut:"+m[:i], "layer:"+m[i+1:])
		} else {
			o.Tag("mut:" + m)
		}
	}

	st := acquire(c.cfg(), o.Witness)
	tainted := true
	defer func() { release(st, tainted) }()

	rq := c.wire()
	if len(rq.Body) > 64<<10 {
		o.Tag("body:over-64k")
	}
	if len(rq.Body) > 1<<20 {
		o.Tag("body:over-1m")
	}
	// allocation oracle: a request of a few KiB must not make the server allocate hundreds
	// of MiB, whatever sizes it announces (runtime.MemStats.TotalAlloc counts every allocation
	// at its full size, touched or not; the stand is quiet between cases)
	small := len(rq.Body) <= smallBody && len(rq.Target) <= 2048
	var m0 runtime.MemStats
	if small {
		runtime.ReadMemStats(&m0)
	}
	aborted := ""
	if c.Client != nil && c.Client.Mode != "" {
		// first the client that gives up: no response is expected; what it leaves behind is
		// judged below, together with the complete request (goroutines, batch, probe)
		aborted = " [first sent by an aborting client, " + c.Client.Mode + ": " + sendAborting(st.addr, rq, *c.Client) + "]"
		o.Tag("abort:" + c.Client.Mode)
		if c.Client.Reset {
			o.Tag("abort-close:rst")
		}
	} else {
		o.Tag("abort:none")
	}
	describe := func(c reqCase) string { return describe(c) + aborted }

	resp := send(st.addr, rq, respDeadline)
	if resp.Err != nil {
		if resp.Timeout {
			alive := st.extra()
			if len(alive) == 0 {
				o.Discard("deadline missed without a qryn goroutine alive")
				return nil
			}
			dump := stacksOf(alive, 4)
			if len(st.settle(graceBound)) == 0 {
				// it did end: slow (the machine is shared), not wedged
				o.Discard("deadline missed, request ended within the grace period")
				return nil
			}
			st.wedged = true
			st.close()
			st = acquire(c.cfg(), true)
			again := send(st.addr, rq, respDeadline)
			if !again.Timeout || len(st.settle(graceBound)) == 0 {
				o.Discard("deadline miss did not reproduce")
				return nil
			}
			st.wedged = true
			o.Tag("outcome:hang")
			return fmt.Errorf("no HTTP response within %v and the request still running %v later, twice, on fresh servers: %s\ngoroutines with qryn frames still alive after the first deadline:\n%s", respDeadline, graceBound, describe(c), dump)
		}
		if lg := st.log(); strings.Contains(lg, "panic serving") {
			o.Tag("outcome:handler-panic")
			return fmt.Errorf("the handler goroutine panicked, the client got no HTTP response (%v): %s\n%s", resp.Err, describe(c), trimTo(lg, 3500))
		}
		again := send(st.addr, rq, respDeadline)
		if again.Err == nil {
			o.Discard("transport error did not reproduce")
			return nil
		}
		if len(rq.Body) > 128<<10 && !strings.Contains(st.log(), "panic serving") {
			o.Discard("connection closed early on a large body")
			return nil
		}
		o.Tag("outcome:no-response")
		return fmt.Errorf("no HTTP response (%v, then %v): %s\nserver log: %s", resp.Err, again.Err, describe(c), trimTo(st.log(), 2000))
	}
	o.Tag(statusClass(resp.Status))
	if small {
		var m1 runtime.MemStats
		runtime.ReadMemStats(&m1)
		d := m1.TotalAlloc - m0.TotalAlloc
		o.Tag("alloc:" + allocClass(d))
		if fn := os.Getenv("C05_ALLOC_LOG"); fn != "" && d > 8<<20 {
			if f, err := os.OpenFile(fn, os.O_APPEND|os.O_CREATE|os.O_WRONLY, 0o644); err == nil {
				fmt.Fprintf(f, "%d MiB %s\n", d>>20, describe(c))
				f.Close()
			}
		}
		if d > allocBound {
			o.Tag("outcome:alloc-amplification")
			return fmt.Errorf("serving %s (answered %d) allocated %d MiB for %d body bytes (bound %d MiB; the unchanged tree stays below %d MiB): an announced size is trusted before it is checked - under a memory limit the process dies",
				describe(c), resp.Status, d>>20, len(rq.Body), allocBound>>20, allocUsual>>20)
		}
	}
	reached, why := reachedDecoder(c, rq.Body, resp)
	if reached {
		o.NonTrivial()
		o.Tag("reached-decoder")
		if aborted != "" {
			o.Tag("abort-reached-decoder:" + c.Client.Mode)
		}
	} else {
		o.Tag("turned-away:" + why)
	}

	// the twin: the same request with the error phrase it carries minimally altered must be
	// answered alike - the status may depend on what is wrong with a request, not on
	// whether its data reads like an error text
	if c.Phrase != "" {
		tw, changed := c.twin()
		if !changed {
			o.Tag("phrase:lost")
		} else {
			o.Tag("phrase:" + strings.ReplaceAll(c.Phrase, " ", "-"))
			tresp := send(st.addr, tw.wire(), respDeadline)
			switch {
			case tresp.Err != nil && tresp.Timeout:
				st.wedged = true
				return fmt.Errorf("%s was answered %d, its twin (phrase %q altered to %q) got no response within %v", describe(c), resp.Status, c.Phrase, twinOf(c.Phrase), respDeadline)
			case tresp.Err != nil:
				o.Discard("twin: transport error")
				return nil
			case statusClass(tresp.Status) != statusClass(resp.Status):
				o.Tag("outcome:phrase-changes-status")
				rows := 0
				for _, sb := range st.subs() {
					rows += len(sb.Rows)
				}
				return fmt.Errorf("the answer depends on an error phrase in the request data: %s, carrying %q, was answered %d with a body of %d bytes (%d rows submitted to the insert services by both requests together); the same request with %q instead was answered %d %s",
					describe(c), c.Phrase, resp.Status, len(resp.Body), rows, twinOf(c.Phrase), tresp.Status, trimTo(tresp.Body, 200))
			}
		}
	}

	if err := judgeAfter(st, o, c, fmt.Sprintf("%s (answered %d)", describe(c), resp.Status)); err != nil {
		return err
	}
	tainted = false
	return nil
}

// judgeAfter is the part of the oracle that looks at what a request (or a group of
// concurrent requests) left behind: push-goroutine and handler panics, malformed blocks,
// the probe push, unanswered promises, leftover goroutines. what describes the request(s).
func judgeAfter(st *stand, o *evid.Obs, c reqCase, what string) error {
	// the probe: a well-formed push of another client
	prq, exp, pkind := buildProbe(c)
	presp := send(st.addr, prq, respDeadline)

	answered := st.h.Rec.WaitAnswered(settleBound)

	if p := st.pushPanics(); len(p) > 0 {
		o.Tag("outcome:push-panic")
		return fmt.Errorf("panic inside IInsertServiceV2.Request, which qryn calls from the un-recovered goroutine of doPush (writer/controller/builder.go): in production the process exits and the batch keeps the columns appended so far. Request: %s\npanic: %s", what, p[0])
	}
	if lg := st.log(); strings.Contains(lg, "panic serving") {
		o.Tag("outcome:handler-panic")
		return fmt.Errorf("the handler goroutine panicked: %s\n%s", what, trimTo(lg, 3500))
	}

	// every block must be rectangular and well-formed
	for _, call := range st.calls() {
		if call.RectErr == "" && call.ShapeErr == "" {
			continue
		}
		o.Tag("outcome:malformed-block")
		return fmt.Errorf("after %s the insert service sent a malformed INSERT block to %s: %s %s (all rows of the block, other clients' included, are lost)",
			what, call.Table, call.RectErr, call.ShapeErr)
	}

	if presp.Err != nil {
		if presp.Timeout {
			st.wedged = true
			return fmt.Errorf("after %s a well-formed %s push got no response within %v\ngoroutines:\n%s", what, pkind, respDeadline, stacksOf(st.extra(), 4))
		}
		return fmt.Errorf("after %s a well-formed %s push got no HTTP response: %v\n%s", what, pkind, presp.Err, trimTo(st.log(), 2000))
	}
	if presp.Status < 200 || presp.Status > 299 {
		return fmt.Errorf("after %s a well-formed %s push was answered %d %s", what, pkind, presp.Status, trimTo(presp.Body, 300))
	}
	if err := checkProbeRows(st, exp); err != nil {
		return fmt.Errorf("after %s: %s probe: %w", what, pkind, err)
	}

	if !answered {
		s, a := st.h.Rec.Counts()
		st.wedged = true
		return fmt.Errorf("after %s: %d of %d requests to the insert services were never answered within %v\n%s", what, s-a, s, settleBound, stacksOf(st.extra(), 4))
	}
	if left := st.settle(settleBound); len(left) > 0 {
		o.Tag("outcome:goroutine-leak")
		st.wedged = true
		return fmt.Errorf("%d goroutine(s) with qryn frames still alive %v after %s:\n%s", len(left), settleBound, what, stacksOf(left, 4))
	}
	return nil
}

func addRequest(r *evid.Run) {
	evid.Add(r, evid.Prop[reqCase]{Name: "request", Quick: 2000, Thorough: 5000, Gen: genReq(r.Tier == "thorough"), Pred: predReq, WAL: true})
}

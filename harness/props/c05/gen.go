package c05

// gen.go: the request generator. A case is the request exactly as it goes on the wire
// (method, request-target, headers, body bytes) plus descriptive fields used only for the
// evidence histogram; everything random is decided here, so rapid can shrink the draws
// and a replay file is self-contained.
//
// Shape of the search: pick a route of the real table, build a body the route's decoder
// accepts (generators of harness/gen), then damage it at one of three layers (logical:
// wrong-length ids, missing keys; serialised: byte flips, truncation, splices, JSON type
// swaps, hostile constants; transport: compression that lies about itself) and combine it
// with every Content-Type / Content-Encoding / query-parameter value the middleware looks at.

import (
	"bytes"
	"compress/gzip"
	"encoding/binary"
	"encoding/hex"
	"fmt"
	"google.golang.org/protobuf/encoding/protowire"
	"net/url"
	"strconv"
	"strings"

	"github.com/golang/snappy"
	"pgregory.net/rapid"

	"qrynverif/evid"
	"qrynverif/gen"
	"qrynverif/inssvc"
)

type routeDef struct {
	name     string
	method   string
	path     string   // {target} and {id} are path variables
	families []string // body families the decoders behind the route understand, most usual first
	params   []string // query parameters the handler reads
	svc      string   // logs | traces | profile: the insert services behind the route
	probeOn  string   // inssvc.HTTPKinds entry that posts to this very path ("" if none)
}

// The writer route table: writer/router/*.go (the GET health routes have no body decoder).
var routes = []routeDef{
	{"loki-push", "POST", "/loki/api/v1/push", []string{"loki-json", "loki-proto"}, nil, "logs", "loki"},
	{"influx", "POST", "/influx/api/v2/write", []string{"influx"}, []string{"precision"}, "logs", ""},
	{"cf", "POST", "/cf/v1/insert", []string{"cf"}, []string{"ddsource"}, "logs", ""},
	{"dd-series", "POST", "/api/v2/series", []string{"dd-metrics"}, nil, "logs", ""},
	{"dd-logs", "POST", "/api/v2/logs", []string{"dd-logs"}, []string{"ddsource"}, "logs", ""},
	{"otlp-logs", "POST", "/v1/logs", []string{"otlp-logs"}, nil, "logs", ""},
	{"prom-1", "POST", "/v1/prom/remote/write", []string{"prom-rw"}, nil, "logs", ""},
	{"prom-2", "POST", "/api/v1/prom/remote/write", []string{"prom-rw"}, nil, "logs", "prom"},
	{"prom-3", "POST", "/prom/remote/write", []string{"prom-rw"}, nil, "logs", ""},
	{"prom-4", "POST", "/api/prom/remote/write", []string{"prom-rw"}, nil, "logs", ""},
	{"prom-5", "POST", "/api/prom/push", []string{"prom-rw"}, nil, "logs", ""},
	{"es-doc", "POST", "/{target}/_doc", []string{"es-doc"}, nil, "logs", ""},
	{"es-create", "POST", "/{target}/_create/{id}", []string{"es-doc"}, nil, "logs", ""},
	{"es-doc-put", "PUT", "/{target}/_doc/{id}", []string{"es-doc"}, nil, "logs", ""},
	{"es-create-put", "PUT", "/{target}/_create/{id}", []string{"es-doc"}, nil, "logs", ""},
	{"es-bulk", "POST", "/_bulk", []string{"es-bulk"}, nil, "logs", ""},
	{"es-bulk-target", "POST", "/{target}/_bulk", []string{"es-bulk"}, nil, "logs", ""},
	{"zipkin-tempo", "POST", "/tempo/spans", []string{"zipkin", "zipkin-nd"}, nil, "traces", "zipkin"},
	{"zipkin-push", "POST", "/tempo/api/push", []string{"zipkin", "zipkin-nd"}, nil, "traces", ""},
	{"zipkin-v2", "POST", "/api/v2/spans", []string{"zipkin", "zipkin-nd"}, nil, "traces", ""},
	{"otlp-traces", "POST", "/v1/traces", []string{"otlp-traces"}, nil, "traces", ""},
	{"ingest", "POST", "/ingest", []string{"pprof-multipart", "pprof-binary"}, []string{"from", "until", "name"}, "profile", "profile"},
}

// routeDeck weights the routes: the profile and trace routes have the decoders with the most
// machinery behind them (multipart / gzip / pprof; fixed-size id columns).
var routeDeck = func() []int {
	w := map[string]int{"ingest": 5, "otlp-traces": 4, "zipkin-tempo": 2, "zipkin-push": 2, "zipkin-v2": 2, "loki-push": 3, "prom-2": 2, "influx": 2, "otlp-logs": 2}
	var deck []int
	for i, r := range routes {
		n := w[r.name]
		if n == 0 {
			n = 1
		}
		for k := 0; k < n; k++ {
			deck = append(deck, i)
		}
	}
	return deck
}()

var allFamilies = []string{"loki-json", "loki-proto", "prom-rw", "influx", "cf", "dd-metrics", "dd-logs", "otlp-logs",
	"es-doc", "es-bulk", "zipkin", "zipkin-nd", "otlp-traces", "pprof-multipart", "pprof-binary"}

func routeByName(n string) *routeDef {
	for i := range routes {
		if routes[i].name == n {
			return &routes[i]
		}
	}
	return nil
}

// reqCase is one generated request.
type reqCase struct {
	Cfg    inssvc.Config `json:"cfg"`
	Route  string        `json:"route"`  // descriptive
	Family string        `json:"family"` // descriptive: body family
	Muts   []string      `json:"muts"`   // descriptive: damage applied
	Enc    string        `json:"enc"`    // descriptive: what was really done to the bytes
	Method string        `json:"method"`
	Target evid.Str      `json:"target"`
	Header [][2]evid.Str `json:"header"`
	Body   []byte        `json:"body"`
	Probe  string        `json:"probe"`   // inssvc.HTTPKinds entry sent afterwards
	ProbeN int           `json:"probe_n"` // rows of the probe
	// Fill, when set, makes the wire body wrap(Body + Unit x N + Tail) (client.go).
	Fill *fillSpec `json:"fill,omitempty"`
	// Phrase, when not empty, is a phrase the error mapping looks for (or a generic error
	// text) that the request carries in its data; the oracle sends a twin with the phrase
	// minimally altered and compares the answers.
	Phrase string `json:"phrase,omitempty"`
	// Client, when set, sends the request a first time through a client that aborts.
	Client *clientSpec `json:"client,omitempty"`
}

// uni draws a near-uniform index below n. rapid's integer generators favour small values
// heavily (the bit length is drawn first), which is what one wants for sizes but not for
// a choice among alternatives; the low bits of a wide integer are close to uniform.
func uni(rt *rapid.T, label string, n int) int {
	x := rapid.Uint64().Draw(rt, label)
	if x > 2 { // 0, 1, 2 stay what they are (the simplest alternatives, for shrinking); the rest is mixed
		x *= 0x9E3779B97F4A7C15
		x ^= x >> 29
	}
	return int(x % uint64(n))
}

func pick[T any](rt *rapid.T, label string, l []T) T { return l[uni(rt, label, len(l))] }

// ---- valid bodies ---------------------------------------------------------------------------

// body is a body under construction: the innermost serialisation plus the wrappers the
// protocol puts around it (gzip + multipart for pprof, snappy block for remote write).
type body struct {
	family string
	inner  []byte
	wrap   []string // applied inner -> outer: "gzip", "multipart", "snappy-block"
	ct     string   // content type a client of this protocol sends
	query  url.Values
	bnd    string // multipart boundary
}

const mpBoundary = "43ba238906960207d409d77db17b9ae9fe6c9fd5c3a5e3aa7d3a6f3d5d7c"

func (b *body) wire() []byte {
	out := b.inner
	for _, w := range b.wrap {
		switch w {
		case "gzip":
			out = gz(out)
		case "multipart":
			out, _ = gen.Multipart(out, len(out)%2 == 1)
		case "snappy-block":
			out = snappy.Encode(nil, out)
		}
	}
	return out
}

func gz(b []byte) []byte {
	var buf bytes.Buffer
	w := gzip.NewWriter(&buf)
	_, _ = w.Write(b)
	_ = w.Close()
	return buf.Bytes()
}

func sizeClass(rt *rapid.T, thorough bool) string {
	k := uni(rt, "size-class", 100)
	switch {
	case k < 4:
		return gen.SizePoints
	case k == 4 && thorough:
		return gen.SizeBytes
	}
	return gen.SizeSmall
}

var cfKeys = []string{"EventType", "Outcome", "ScriptName", "EventTimestampMs", "When", "ActionResult", "ActionType", "ActorType", "ResourceType", "Other"}

func jsonScalar(rt *rapid.T, label string) string {
	switch rapid.IntRange(0, 7).Draw(rt, label+"-k") {
	case 0:
		return strconv.FormatInt(rapid.Int64().Draw(rt, label), 10)
	case 1:
		return rapid.SampledFrom([]string{"true", "false", "null", "{}", "[]", "1.5e3", "-0"}).Draw(rt, label)
	case 2:
		return "1705320000000"
	default:
		return gen.JSONString(gen.HostileUTF8(rt, label), rapid.IntRange(0, 2).Draw(rt, label+"-esc"))
	}
}

func genCF(rt *rapid.T) []byte {
	var sb strings.Builder
	n := rapid.IntRange(0, 5).Draw(rt, "cf-lines")
	for i := 0; i < n; i++ {
		sb.WriteByte('{')
		m := rapid.IntRange(0, 6).Draw(rt, "cf-members")
		for j := 0; j < m; j++ {
			if j > 0 {
				sb.WriteByte(',')
			}
			k := rapid.SampledFrom(cfKeys).Draw(rt, "cf-key")
			sb.WriteString(strconv.Quote(k) + ":" + jsonScalar(rt, "cf-val"))
		}
		sb.WriteString("}\n")
	}
	return []byte(sb.String())
}

func genESDoc(rt *rapid.T) []byte {
	var sb strings.Builder
	sb.WriteByte('{')
	m := rapid.IntRange(0, 5).Draw(rt, "es-members")
	for j := 0; j < m; j++ {
		if j > 0 {
			sb.WriteByte(',')
		}
		sb.WriteString(gen.JSONString(gen.HostileUTF8(rt, "es-key"), 0) + ":" + jsonScalar(rt, "es-val"))
	}
	sb.WriteByte('}')
	return []byte(sb.String())
}

func genESBulk(rt *rapid.T) []byte {
	var sb strings.Builder
	n := rapid.IntRange(0, 5).Draw(rt, "bulk-pairs")
	for i := 0; i < n; i++ {
		act := rapid.SampledFrom([]string{"index", "create", "create", "index", "delete", "update", "other"}).Draw(rt, "bulk-action")
		sb.WriteString(`{"` + act + `":{`)
		m := rapid.IntRange(0, 3).Draw(rt, "bulk-meta")
		for j := 0; j < m; j++ {
			if j > 0 {
				sb.WriteByte(',')
			}
			k := rapid.SampledFrom([]string{"_index", "_id", "type", "app", "k"}).Draw(rt, "bulk-meta-key")
			sb.WriteString(strconv.Quote(k) + ":" + jsonScalar(rt, "bulk-meta-val"))
		}
		sb.WriteString("}}\n")
		if act != "delete" || rapid.IntRange(0, 4).Draw(rt, "bulk-doc-anyway") == 0 {
			sb.Write(genESDoc(rt))
			sb.WriteByte('\n')
		}
	}
	return []byte(sb.String())
}

// validBody draws a body a client of the family would send, with the query parameters and
// content type that belong to it.
func validBody(rt *rapid.T, family string, thorough bool) *body {
	b := &body{family: family, query: url.Values{}}
	logical := func(p gen.Proto) gen.Body { return gen.BodyOf(rt, p, sizeClass(rt, thorough)) }
	switch family {
	case "loki-json":
		b.inner, b.ct = gen.Encode(gen.LokiJSON, logical(gen.LokiJSON)), "application/json"
	case "loki-proto":
		b.inner, b.ct, b.wrap = gen.Encode(gen.LokiProto, logical(gen.LokiProto)), "application/x-protobuf", []string{"snappy-block"}
	case "prom-rw":
		b.inner, b.ct, b.wrap = gen.Encode(gen.PromRW, logical(gen.PromRW)), "application/x-protobuf", []string{"snappy-block"}
	case "influx":
		lb := logical(gen.Influx)
		b.inner, b.ct = gen.Encode(gen.Influx, lb), "text/plain; charset=utf-8"
		switch int64(gen.InfluxPrecision(lb)) {
		case 1:
			if rapid.Bool().Draw(rt, "explicit-ns") {
				b.query.Set("precision", "ns")
			}
		case 1e3:
			b.query.Set("precision", "us")
		case 1e6:
			b.query.Set("precision", "ms")
		case 1e9:
			b.query.Set("precision", "s")
		}
	case "cf":
		b.inner, b.ct = genCF(rt), "application/json"
		if rapid.Bool().Draw(rt, "cf-ddsource") {
			b.query.Set("ddsource", "cloudflare")
		}
	case "dd-metrics":
		b.inner, b.ct = gen.Encode(gen.DDMetrics, logical(gen.DDMetrics)), "application/json"
	case "dd-logs":
		b.inner, b.ct = gen.Encode(gen.DDLogs, logical(gen.DDLogs)), "application/json"
		if rapid.Bool().Draw(rt, "dd-ddsource") {
			b.query.Set("ddsource", "nginx")
		}
	case "otlp-logs":
		b.inner, b.ct = gen.Encode(gen.OTLPLogs, logical(gen.OTLPLogs)), "application/x-protobuf"
	case "es-doc":
		b.inner, b.ct = genESDoc(rt), "application/json"
	case "es-bulk":
		b.inner, b.ct = genESBulk(rt), "application/x-ndjson"
	case "zipkin", "zipkin-nd":
		zb := gen.GenZipkinBatch(rt, thorough)
		zb.ND = family == "zipkin-nd"
		b.inner = zb.Body(rapid.Bool().Draw(rt, "zipkin-alt"))
		b.ct = "application/json"
		if zb.ND {
			// controller/tempoController.go:19 registers the NDJSON decoder under the prefix "ndjson"
			b.ct = "ndjson"
		}
	case "otlp-traces":
		b.inner, b.ct = gen.GenOTLPBatch(rt).Body(), "application/x-protobuf"
	case "pprof-multipart", "pprof-binary":
		p := gen.GenPprof(rt, gen.GenPprofShape(rt))
		b.inner = p.Encode(false)
		if family == "pprof-multipart" {
			b.wrap = []string{"gzip", "multipart"}
			b.ct = "multipart/form-data; boundary=" + mpBoundary
		} else {
			if rapid.Bool().Draw(rt, "pprof-gz") {
				b.wrap = []string{"gzip"}
			}
			b.ct = "binary/octet-stream"
		}
		from := int64(1705320000) + int64(rapid.IntRange(0, 100000).Draw(rt, "from"))
		b.query.Set("from", strconv.FormatInt(from, 10))
		b.query.Set("until", strconv.FormatInt(from+int64(rapid.IntRange(0, 60).Draw(rt, "dur")), 10))
		name := rapid.SampledFrom([]string{"app", "svc.cpu", "my-service"}).Draw(rt, "pname")
		if nl := rapid.IntRange(0, 3).Draw(rt, "pname-labels"); nl > 0 {
			var kv []string
			for i := 0; i < nl; i++ {
				kv = append(kv, fmt.Sprintf("k%d=v%d", i, rapid.IntRange(0, 9).Draw(rt, "plabel")))
			}
			name += "{" + strings.Join(kv, ",") + "}"
		}
		b.query.Set("name", name)
	default:
		panic("c05: unknown family " + family)
	}
	return b
}

// ---- logical damage -------------------------------------------------------------------------

var badIDLens = []int{0, 1, 7, 8, 9, 15, 16, 17, 24, 32}

// damagedOTLP draws a trace batch in which some spans carry trace/span/parent ids of a
// length the protocol does not allow (OTLP: 16 / 8 / 0 or 8 bytes).
func damagedOTLP(rt *rapid.T) ([]byte, []string) {
	bt := gen.GenOTLPBatch(rt)
	if bt.NumSpans() == 0 {
		bt.Resources[0].Scopes[0].Spans = append(bt.Resources[0].Scopes[0].Spans, gen.OTLPSpan{
			TraceID: strings.Repeat("ab", 16), SpanID: strings.Repeat("cd", 8), Name: "s", Start: 1705320000000000000, End: 1705320000000001000})
	}
	var muts []string
	hit := false
	for ri := range bt.Resources {
		for si := range bt.Resources[ri].Scopes {
			sp := bt.Resources[ri].Scopes[si].Spans
			for i := range sp {
				if hit && uni(rt, "more-bad-ids", 3) != 0 {
					continue
				}
				hit = true
				switch uni(rt, "bad-id-field", 4) {
				case 0:
					n := pick(rt, "trace-len", badIDLens)
					sp[i].TraceID = strings.Repeat("ab", n)
					muts = append(muts, fmt.Sprintf("otlp-trace-id-len-%d", n))
				case 1:
					n := pick(rt, "span-len", badIDLens)
					sp[i].SpanID = strings.Repeat("cd", n)
					muts = append(muts, fmt.Sprintf("otlp-span-id-len-%d", n))
				case 2:
					n := pick(rt, "parent-len", badIDLens)
					sp[i].ParentID = strings.Repeat("ef", n)
					muts = append(muts, "otlp-parent-id-len")
				default:
					sp[i].TraceID, sp[i].SpanID = "", ""
					muts = append(muts, "otlp-ids-absent")
				}
			}
		}
	}
	return bt.Body(), muts
}

var zipkinIDs = []string{"", "0", "1", "zz", "g000000000000000", "00000000000000000000000000000000", "123456789abcdef0123456789abcdef01",
	strings.Repeat("f", 64), "0x10", "-1", " ", "48485a3953bb6124", "é", "\u0000"}

// damagedZipkin draws a Zipkin batch in which ids are absent, empty, too long or not hex.
func damagedZipkin(rt *rapid.T, nd bool, thorough bool) ([]byte, []string) {
	zb := gen.GenZipkinBatch(rt, thorough)
	zb.ND = nd
	if len(zb.Spans) == 0 {
		zb.Spans = append(zb.Spans, gen.ZipkinSpan{TraceID: "463ac35c9f6413ad48485a3953bb6124", ID: "a2fb4a1d1a96d312", HasName: true, Name: "get",
			Order: []int{0, 1, 2, 3, 4, 5, 6, 7, 8, 9, 10, 11, 12}, Order2: []int{0, 1, 2, 3, 4, 5, 6, 7, 8, 9, 10, 11, 12}})
	}
	var muts []string
	textual := ""
	i := rapid.IntRange(0, len(zb.Spans)-1).Draw(rt, "zipkin-victim")
	switch uni(rt, "zipkin-damage", 6) {
	case 0:
		zb.Spans[i].TraceID = pick(rt, "zipkin-trace", zipkinIDs)
		muts = append(muts, "zipkin-trace-id-odd")
	case 1:
		zb.Spans[i].ID = pick(rt, "zipkin-id", zipkinIDs)
		muts = append(muts, "zipkin-span-id-odd")
	case 2:
		zb.Spans[i].HasParent, zb.Spans[i].ParentID = true, pick(rt, "zipkin-parent", zipkinIDs)
		muts = append(muts, "zipkin-parent-id-odd")
	case 3:
		textual = `"traceId"`
		muts = append(muts, "zipkin-no-trace-id")
	case 4:
		textual = `"id"`
		muts = append(muts, "zipkin-no-span-id")
	default:
		textual = "both"
		muts = append(muts, "zipkin-no-ids")
	}
	out := zb.Body(rapid.Bool().Draw(rt, "zipkin-alt"))
	// a key the decoder does not know is skipped: renaming the member removes the id
	switch textual {
	case `"traceId"`:
		out = bytes.Replace(out, []byte(`"traceId"`), []byte(`"traceIdx"`), 1)
	case `"id"`:
		out = bytes.Replace(out, []byte(`"id"`), []byte(`"idx"`), 1)
	case "both":
		out = bytes.ReplaceAll(out, []byte(`"traceId"`), []byte(`"traceIdx"`))
		out = bytes.ReplaceAll(out, []byte(`"id"`), []byte(`"idx"`))
	}
	return out, muts
}

// ---- serialised damage ----------------------------------------------------------------------

var jsonSwaps = []string{`null`, `true`, `false`, `{}`, `[]`, `""`, `0`, `-1`, `1.5`, `1e400`, `-1e400`, `18446744073709551616`, `9223372036854775807`,
	`-9223372036854775809`, `"9223372036854775808"`, `"-1"`, `"x"`, `[[[[[[[[[[]]]]]]]]]]`, `{"a":{"a":{"a":{"a":{}}}}}`, `"\ud800"`, `"\u0000"`, `[null]`, `{"":null}`,
	`00`, `+1`, `.5`, `1.`, `0x10`, `NaN`, `Infinity`, `"` + strings.Repeat("A", 70000) + `"`}

// jsonTokens finds the scalar tokens of a JSON-looking text: string literals and runs of
// number / literal characters.
func jsonTokens(b []byte) [][2]int {
	var out [][2]int
	for i := 0; i < len(b); {
		c := b[i]
		switch {
		case c == '"':
			j := i + 1
			for j < len(b) && b[j] != '"' {
				if b[j] == '\\' {
					j++
				}
				j++
			}
			if j >= len(b) {
				j = len(b) - 1
			}
			out = append(out, [2]int{i, j + 1})
			i = j + 1
		case c == '-' || (c >= '0' && c <= '9') || c == 't' || c == 'f' || c == 'n':
			j := i
			for j < len(b) && strings.IndexByte("+-.0123456789eEtrufalsn", b[j]) >= 0 {
				j++
			}
			out = append(out, [2]int{i, j})
			i = j
		default:
			i++
		}
	}
	return out
}

var hostileChunks = [][]byte{
	[]byte(`{`), []byte(`}`), []byte(`[`), []byte(`]`), []byte(`"`), []byte(`,`), []byte(`:`), []byte("\n"), []byte("\r\n"), []byte("\x00"),
	[]byte(`{"streams":[{"stream":{"a":"b"},"values":[]}]}`), []byte(`"__ttl_days__":"x"`), []byte(`{"stream":{"__ttl_days__":"99999"},"values":[["1","x"]]}`),
	[]byte("\xff\xff\xff\xff\xff\xff\xff\xff\xff\x01"), []byte("\x0a\xff\xff\xff\xff\x0f"), []byte("\x80\x80\x80\x80\x80\x80\x80\x80\x80\x80\x80"),
	[]byte("\x1f\x8b\x08\x00"), []byte("\xff\x06\x00\x00sNaPpY"), []byte("--" + mpBoundary + "\r\n"), []byte("--" + mpBoundary + "--\r\n"),
	[]byte("Content-Disposition: form-data; name=\"profile\"; filename=\"profile.pprof\"\r\n\r\n"),
	bytes.Repeat([]byte("["), 3000), bytes.Repeat([]byte(`{"a":`), 2000), bytes.Repeat([]byte("9"), 400), bytes.Repeat([]byte("A"), 70000),
	[]byte(`,message="x" 1`), []byte(" 9223372036854775808\n"), []byte(`m,t=\ v=1i -1`), []byte("m v=1e999\n"), []byte("m v=18446744073709551615u\n"),
}

// mutate damages b once and names the damage.
func mutate(rt *rapid.T, b []byte, other func() []byte) ([]byte, string) {
	pos := func(label string) int {
		if len(b) == 0 {
			return 0
		}
		return rapid.IntRange(0, len(b)).Draw(rt, label)
	}
	switch k := uni(rt, "mutation", 12); k {
	case 0, 1: // byte flips
		if len(b) == 0 {
			return []byte{byte(rapid.IntRange(0, 255).Draw(rt, "byte"))}, "flip"
		}
		out := append([]byte(nil), b...)
		n := rapid.IntRange(1, 4).Draw(rt, "nflips")
		for i := 0; i < n; i++ {
			p := rapid.IntRange(0, len(out)-1).Draw(rt, "flip-pos")
			switch uni(rt, "flip-kind", 3) {
			case 0:
				out[p] ^= 1 << uint(rapid.IntRange(0, 7).Draw(rt, "bit"))
			case 1:
				out[p] = byte(rapid.IntRange(0, 255).Draw(rt, "byte"))
			default:
				out[p] = rapid.SampledFrom([]byte{0, 0xff, 0x7f, 0x80, '"', '\\', '{', '}', '[', ']', ',', ':', '\n', ' ', '-', '0'}).Draw(rt, "special-byte")
			}
		}
		return out, "flip"
	case 2, 3: // truncation
		return append([]byte(nil), b[:pos("cut")]...), "truncate"
	case 4: // splice a piece of another valid body in
		o := other()
		if len(o) == 0 {
			return b, "splice-empty"
		}
		f := rapid.IntRange(0, len(o)-1).Draw(rt, "splice-from")
		t := rapid.IntRange(f, len(o)).Draw(rt, "splice-to")
		p := pos("splice-at")
		return append(append(append([]byte(nil), b[:p]...), o[f:t]...), b[p:]...), "splice"
	case 5: // duplicate a slice
		if len(b) == 0 {
			return b, "dup-empty"
		}
		f := rapid.IntRange(0, len(b)-1).Draw(rt, "dup-from")
		t := rapid.IntRange(f, len(b)).Draw(rt, "dup-to")
		n := rapid.SampledFrom([]int{1, 1, 2, 50}).Draw(rt, "dup-times")
		if (t-f)*n > 1<<20 {
			n = 1
		}
		out := append([]byte(nil), b[:t]...)
		for i := 0; i < n; i++ {
			out = append(out, b[f:t]...)
		}
		return append(out, b[t:]...), "dup"
	case 6: // delete a slice
		if len(b) == 0 {
			return b, "del-empty"
		}
		f := rapid.IntRange(0, len(b)-1).Draw(rt, "del-from")
		t := rapid.IntRange(f, len(b)).Draw(rt, "del-to")
		return append(append([]byte(nil), b[:f]...), b[t:]...), "delete"
	case 7: // insert a hostile chunk
		c := pick(rt, "chunk", hostileChunks)
		p := pos("chunk-at")
		return append(append(append([]byte(nil), b[:p]...), c...), b[p:]...), "insert-hostile"
	case 8, 9, 10: // JSON type swap (falls back to a flip on binary bodies)
		toks := jsonTokens(b)
		if len(toks) == 0 {
			return append([]byte(nil), b[:pos("cut")]...), "truncate"
		}
		tk := toks[rapid.IntRange(0, len(toks)-1).Draw(rt, "token")]
		sw := pick(rt, "swap", jsonSwaps)
		return append(append(append([]byte(nil), b[:tk[0]]...), sw...), b[tk[1]:]...), "json-type-swap"
	default: // overwrite a run with one byte value
		if len(b) == 0 {
			return b, "fill-empty"
		}
		out := append([]byte(nil), b...)
		f := rapid.IntRange(0, len(out)-1).Draw(rt, "fill-from")
		n := rapid.IntRange(1, 16).Draw(rt, "fill-len")
		v := rapid.SampledFrom([]byte{0, 0xff, 0x80, 0x7f, '9', ' '}).Draw(rt, "fill-byte")
		for i := f; i < len(out) && i < f+n; i++ {
			out[i] = v
		}
		return out, "fill"
	}
}

// hostile constants: whole bodies that are not derived from a valid one.
var hostileBodies = map[string][]string{
	"json": {``, ` `, `{`, `[`, `}`, `]`, `null`, `true`, `0`, `""`, `[]`, `{}`, `[[]]`, `[{}]`, `[null]`, `[1]`, `{"streams":null}`, `{"streams":{}}`, `{"streams":[]}`,
		`{"streams":[null]}`, `{"streams":[[]]}`, `{"streams":[{}]}`, `{"streams":[{"stream":null}]}`, `{"streams":[{"stream":{},"values":[]}]}`,
		`{"streams":[{"stream":{"a":"b"},"values":[]}]}`, `{"streams":[{"stream":{"a":"b"},"values":[[]]}]}`, `{"streams":[{"stream":{"a":"b"},"values":[["1"]]}]}`,
		`{"streams":[{"stream":{"a":"b"},"values":[["x","y"]]}]}`, `{"streams":[{"stream":{"a":"b"},"values":[["1","x",{}]]}]}`, `{"streams":[{"stream":{"a":"b"},"values":[["1","x",1e999]]}]}`,
		`{"streams":[{"stream":{"a":1},"values":[["1","x"]]}]}`, `{"streams":[{"stream":{"":""},"values":[["1","x"]]}]}`, `{"streams":[{"values":[["1","x"]]}]}`,
		`{"streams":[{"values":[["1","x"]],"stream":{"a":"b"}}]}`, `{"streams":[{"stream":{"__ttl_days__":"x"},"values":[["1","x"]]}]}`,
		`{"streams":[{"stream":{"__ttl_days__":"7"},"values":[["1","x"]]}]}`, `{"streams":[{"labels":"","entries":[]}]}`, `{"streams":[{"labels":"{","entries":[{"ts":"x"}]}]}`,
		`{"streams":[{"labels":"{}","entries":[{"ts":"1","line":"x"}]}]}`, `{"streams":[{"labels":"{a=\"b\"}","entries":[{"ts":"2021-12-26T16:00:06.944Z","line":"x"}]}]}`,
		`{"streams":[{"labels":"{a=\"b\"}","entries":[{"timestamp":"2021-13-46T16:00:06Z","line":"x"}]}]}`, `{"streams":[{"labels":"{a=\"b\",}","entries":[{"ts":"1","value":"x"}]}]}`,
		`{"streams":[{"labels":"{a=\"b\"","entries":[{}]}]}`, `{"streams":[{"labels":"{a=\"\\x\"}","entries":[{"ts":"1","line":"x","value":1}]}]}`,
		`{"streams":[{"stream":{"a":"b"},"values":[["9223372036854775807","x"],["-9223372036854775808","y"]]}]}`,
		`{"series":null}`, `{"series":[]}`, `{"series":[{}]}`, `{"series":[null]}`, `{"series":[{"metric":1,"points":[{}],"resources":[1,{"a":1}]}]}`, `{"series":[{"metric":"m","points":[]}]}`,
		`{"series":[{"metric":"m","points":[{"timestamp":9223372036854775807,"value":1}]}]}`, `{"series":[{"metric":"m","points":[{"timestamp":"x","value":"y"}]}]}`,
		`{"series":[{"metric":"m","points":{}}]}`, `{"series":[{"metric":"m","resources":{"a":"b"},"points":[{"timestamp":1,"value":1}]}]}`,
		`[{"message":"x","timestamp":1e30}]`, `[{"message":"x","timestamp":-9223372036854775808}]`, `[{"ddtags":"a:b,c:d,,:,e:"}]`, `[{"ddtags":1}]`, `[{"message":null}]`,
		`[{"traceId":"","id":""}]`, `[{"id":"1"}]`, `[{"traceId":"1"}]`, `[{"traceId":"zz","id":"1"}]`, `[{"traceId":"1","id":"1","timestamp":"x"}]`, `[{"traceId":"1","id":"1","timestamp":9223372036854775807,"duration":-1}]`,
		`[{"traceId":"1","id":"1","tags":{"a":1},"localEndpoint":null}]`, `[{"traceId":"1","id":"1","localEndpoint":{"serviceName":1}}]`, `[{"traceId":"1","id":"1","remoteEndpoint":[]}]`,
		`[{"traceId":"1","id":"1","parentId":""}]`, `[{"traceId":"1","id":"1","name":null}]`, `[{"name":"x"}]`, `[[{"traceId":"1","id":"1"}]]`, `{"traceId":"1","id":"1"}`,
		`{"traceId":"1","id":"1"}` + "\n" + `{"traceId":"2","id":"2"}`, `{"id":"1"}` + "\n", "\n\n\n", `{"EventTimestampMs":"x"}`, `{"When":1e30}`, `{"ActionResult":"x"}`, `{"EventType":1}`,
		`{"index":{}}` + "\n" + `{"a":"b"}`, `{"create":{"_index":"i"}}` + "\n", `{"index":null}` + "\n{}", `{"delete":{}}` + "\n" + `{"update":{}}` + "\n", `{"index":{"_index":1}}` + "\n" + `x`,
		strings.Repeat("[", 100000), strings.Repeat(`{"a":`, 50000), `{"streams":[{"stream":{"a":"` + strings.Repeat("v", 200000) + `"},"values":[["1","x"]]}]}`,
		`[` + strings.Repeat(`{"traceId":"1","id":"1"},`, 5000) + `{"traceId":"1","id":"1"}]`, `{"streams":[` + strings.Repeat(`{"stream":{"a":"b"},"values":[]},`, 3000) + `{"stream":{},"values":[]}]}`,
		`{"a":"` + strings.Repeat(`\u0000`, 20000) + `"}`, strings.Repeat("1", 100000), "\xef\xbb\xbf{}", "{\"streams\":[{\"stream\":{\"a\":\"\xff\xfe\"},\"values\":[[\"1\",\"\xc3\x28\"]]}]}"},
	"influx": {``, "\n", `m`, `m v=1`, `m v=1 1`, `m,t=v v=1i 9223372036854775807`, `m v=1 -1`, `m v=1 9223372036854775808`, `m message="x"`, `m message="x",v=1 1`, `m message=1`,
		`m message="` + strings.Repeat("x", 100000) + `"`, `,=`, `m,=v v=1`, `m v=`, `m v="`, `m v=1e999`, `m v=18446744073709551615u`, `m v=t,w=F,x="s",y=1.5,z=2i`, `# comment`, `m\ a,t\=b=c\,d v=1`,
		strings.Repeat("m v=1\n", 3000), "m v=1\x00", "m\tv=1", "\xff\xfe v=1",
		// input ending inside an escape / a string / a token, without a final line break
		`\`, `m\`, "m v=1\nmem\\", `m,t\`, `m,t=v\`, `m v="a\`, `m v="a`, `m v=1 1\`, `m v=1,w\`, `m\ `, `m,`, `m,t=`, `m v`, `m v=1 `, "m v=1 1\r"},
	"proto": {``, "\x00", "\x0a", "\x0a\x00", "\x0a\x02\x0a\x00", "\x0a\xff\xff\xff\xff\x0f", "\x0a\x80\x80\x80\x80\x80\x80\x80\x80\x80\x01", "\x08\xff\xff\xff\xff\xff\xff\xff\xff\xff\x01",
		"\x0a\x04\x0a\x02\x0a\x00", "\x0a\x06\x12\x04\x0a\x02\x0a\x00", "\x0a\x0c\x12\x0a\x12\x08\x0a\x00\x12\x00\x2a\x02\x01\x02", "\x0a\x0a\x12\x08\x12\x06\x0a\x01\x01\x12\x01\x02",
		"\x0b", "\x0c", "\x0f", "\xff\xff\xff\xff", "\x0a\x03abc", strings.Repeat("\x0a\x00", 5000), strings.Repeat("\x0a\x02\x12\x00", 3000)},
	"pprof": {``, "\x00", "\x1f\x8b", "\x1f\x8b\x08\x00\x00\x00\x00\x00\x00\xff", "\x0a\x00", "\x0a\x04\x08\x01\x10\x02", "\x12\x02\x08\x01", "\x12\x06\x08\x01\x12\x02\x08\x09\x0a\x00",
		"\x0a\x04\x08\x01\x10\x01\x12\x05\x0a\x01\x07\x12\x00\x32\x00", "\x32\x00\x32\x01a", "\x22\x04\x08\x01\x22\x00", "\x2a\x02\x08\x01", "\x12\x04\x0a\x02\x01\x01"},
	"multipart": {``, "--", "--x", "--x\r\n", "--x\r\n\r\n--x--\r\n", "--x\r\nContent-Disposition: form-data; name=\"profile\"\r\n\r\n\r\n--x--\r\n",
		"--x\r\nContent-Disposition: form-data; name=\"profile\"; filename=\"p\"\r\n\r\n\r\n--x--\r\n",
		"--x\r\nContent-Disposition: form-data; name=\"profile\"; filename=\"p\"\r\n\r\nnot gzip\r\n--x--\r\n",
		"--x\r\nContent-Disposition: form-data; name=\"other\"; filename=\"p\"\r\n\r\nabc\r\n--x--\r\n",
		"--x\nContent-Disposition: form-data; name=\"profile\"; filename=\"p\"\n\n\x1f\x8b\x08\x00\x00\x00\x00\x00\x00\xff\x03\x00\x00\x00\x00\x00\x00\x00\x00\x00\n--x--\n",
		"--x\r\nContent-Disposition: form-data; name=\"profile\"; filename=\"p\"\r\n\r\n\x1f\x8b\x08\x00\x00\x00\x00\x00\x00\xff\x03\x00\x00\x00\x00\x00\x00\x00\x00\x00\r\n--x--\r\n",
		"--x\r\n" + strings.Repeat("A: b\r\n", 3000) + "\r\n\r\n--x--\r\n", "preamble\r\n--x\r\n", "--" + strings.Repeat("b", 300) + "\r\n"},
}

func hostileKind(family string) []string {
	switch family {
	case "influx":
		return []string{"influx", "json"}
	case "loki-proto", "prom-rw", "otlp-logs", "otlp-traces":
		return []string{"proto", "json"}
	case "pprof-binary":
		return []string{"pprof", "proto"}
	case "pprof-multipart":
		return []string{"multipart", "pprof"}
	}
	return []string{"json"}
}

// ---- transport ------------------------------------------------------------------------------

var contentTypes = []string{"application/json", "application/json; charset=utf-8", "application/x-protobuf", "application/x-ndjson", "ndjson", "ndjson; x", "text/plain",
	"multipart/form-data", "multipart/form-data; boundary=" + mpBoundary, "multipart/form-data; boundary=wrong", "multipart/form-data; boundary=", "binary/octet-stream",
	"application/octet-stream", "*", "*/*", "application/jsonx", "APPLICATION/JSON", " application/json", "application/x-www-form-urlencoded", "text/plain; charset=utf-8"}

var contentEncodings = []string{"gzip", "snappy", "deflate", "br", "identity", "GZIP", "gzip, gzip", "gzip,snappy", "x-gzip", "zstd", " gzip", "snappy "}

func snappyFramed(b []byte) []byte {
	var buf bytes.Buffer
	w := snappy.NewBufferedWriter(&buf)
	_, _ = w.Write(b)
	_ = w.Close()
	return buf.Bytes()
}

// encodeFor applies a transfer encoding; honest says whether it is what header ce promises.
func encodeFor(rt *rapid.T, ce string, b []byte) (out []byte, enc string) {
	honest := uni(rt, "honest-encoding", 10) < 7
	if honest {
		switch ce {
		case "gzip":
			return gz(b), "gzip"
		case "snappy":
			return snappyFramed(b), "snappy-framed"
		}
		return b, "identity"
	}
	switch uni(rt, "lie", 9) {
	case 0:
		return b, "identity" // header promises a compression that is not there
	case 1:
		return snappy.Encode(nil, b), "snappy-block" // block format where the framed one is expected
	case 2:
		return gz(b), "gzip"
	case 3:
		return snappyFramed(b), "snappy-framed"
	case 4: // truncated stream
		g := gz(b)
		return g[:rapid.IntRange(0, len(g)).Draw(rt, "gz-cut")], "gzip-truncated"
	case 5: // corrupt trailer (CRC / length)
		g := gz(b)
		if len(g) >= 8 {
			g[len(g)-1-rapid.IntRange(0, 7).Draw(rt, "gz-trailer")] ^= 0x55
		}
		return g, "gzip-bad-trailer"
	case 6:
		return gz(gz(b)), "gzip-twice"
	case 7: // a small stream that inflates to megabytes of zeros
		return gz(make([]byte, rapid.SampledFrom([]int{1 << 20, 3 << 20, 8 << 20}).Draw(rt, "bomb"))), "gzip-bomb"
	default:
		s := snappyFramed(b)
		return s[:rapid.IntRange(0, len(s)).Draw(rt, "snappy-cut")], "snappy-truncated"
	}
}

// ---- parameters -----------------------------------------------------------------------------

var numParams = []string{"0", "1", "-1", "+5", "1705320000", "1705320000000", "1705320000000000000", "999999999999999999", "1000000000000000000",
	"9223372036854775807", "9223372036854775808", "18446744073709551615", "18446744073709551616", "1e9", "1.5", "0x10", "00", " 1", "1 ", "abc", "", "NaN", "-0",
	"99999999999999999999999999", "١٢٣", "now", "1705320000s"}

var nameParams = []string{"app", "app{}", "app{a=b}", "app{a=b,c=d}", "{", "}", "{}", "{{", "}{", "app{", "app}", "app{a", "app{a=", "app{=}", "app{=b}", "app{a=b", "app{a=b,}",
	"app{,}", "app{a=b,c}", "app{a==b}", "app{a=b}}", "app{a=b}{c=d}", "{a=b}", "{=}", "{,}", "", " ", "a{b=c}d", "app{a=\"b\"}", "app.cpu{__name__=x}", "é{é=é}", "\x00{\x00=\x00}",
	"app{" + strings.Repeat("k=v,", 2000) + "k=v}", strings.Repeat("n", 70000), "app{a=" + strings.Repeat("v", 70000) + "}"}

var precisionParams = []string{"ns", "us", "ms", "s", "", "n", "u", "h", "m", "NS", "0", "-1", "ns ", "1ms", "µs", "ns\x00"}

var ddsourceParams = []string{"", "nginx", "0", "unknown", "a b", `{"`, `"`, "é", strings.Repeat("s", 70000), "a,b", "a=b", "__name__", "\x00", "%"}

func paramValue(rt *rapid.T, name string) string {
	if uni(rt, "param-hostile", 12) == 0 {
		return gen.HostileStr(rt, "param-"+name, gen.StrOpt{Max: 40})
	}
	switch name {
	case "from", "until":
		return pick(rt, "param-"+name, numParams)
	case "name":
		return pick(rt, "param-name", nameParams)
	case "precision":
		return pick(rt, "param-precision", precisionParams)
	case "ddsource":
		return pick(rt, "param-ddsource", ddsourceParams)
	}
	return pick(rt, "param-other", numParams)
}

// headerSafe removes what would end the header line (the request is written by hand).
func headerSafe(s string) string {
	return strings.Map(func(r rune) rune {
		if r == '\r' || r == '\n' {
			return -1
		}
		return r
	}, s)
}

// ---- the generator --------------------------------------------------------------------------

func genReq(thorough bool) func(rt *rapid.T) reqCase {
	return func(rt *rapid.T) reqCase {
		c := reqCase{}
		// the usual configuration most of the time (the stand is reused while it stays the same)
		c.Cfg = inssvc.Config{IntervalMs: 2, Workers: 1, RetryAttempts: 1}
		if uni(rt, "other-config", 8) == 7 {
			c.Cfg = inssvc.Config{
				IntervalMs:    pick(rt, "interval-ms", []int{2, 3, 8}),
				MaxQueueSize:  pick(rt, "max-queue", []int64{0, 1, 4096}),
				Workers:       pick(rt, "workers", []int{1, 2}),
				RetryAttempts: pick(rt, "retries", []int{1, 2}),
				Bernstein:     uni(rt, "bernstein", 3) == 2,
			}
		}
		rd := routes[routeDeck[uni(rt, "route", len(routeDeck))]]
		// one case in ten carries an error phrase in its data; half of those go to the two
		// routes whose decoders quote request data in untyped errors (profile parameters,
		// Loki protobuf label strings)
		phraseCase := uni(rt, "phrase-case", 10) == 9
		if phraseCase {
			switch uni(rt, "phrase-route", 6) {
			case 0, 1:
				rd = *routeByName("ingest")
			case 2:
				rd = *routeByName("loki-push")
			}
		}
		c.Route = rd.name

		// body family: the route's own most of the time
		family := rd.families[0]
		if len(rd.families) > 1 && uni(rt, "second-family", 3) == 0 {
			family = rd.families[1]
		}
		if phraseCase && rd.name == "loki-push" && rapid.Bool().Draw(rt, "phrase-loki-proto") {
			family = "loki-proto"
		}
		foreign := !phraseCase && uni(rt, "foreign-family", 20) == 0
		if foreign {
			family = pick(rt, "family", allFamilies)
			c.Muts = append(c.Muts, "foreign-body")
		}
		c.Family = family
		// the content type and parameters stay those of the route's protocol
		native := validBody(rt, familyForHeaders(rd, family, foreign), thorough)
		b := native
		if foreign {
			b = validBody(rt, family, thorough)
			b.ct, b.query = native.ct, native.query
		}

		// the client: three in ten requests are first sent by a client that gives up on the
		// way; most of those (and a few complete ones) carry a body of several buffers of the
		// streaming decoders, so that the parser is in the middle of it when the client goes
		var fill *fillSpec
		var head []byte
		if uni(rt, "client", 10) >= 7 {
			c.Client = &clientSpec{
				Mode:  pick(rt, "abort-mode", abortModes),
				At:    pick(rt, "abort-at", []int{0, 1, 10, 100, 250, 500, 500, 750, 900, 990, 999, 1000}),
				Piece: pick(rt, "abort-piece", []int{1, 100, 4096, 65536, 65536, 100000, 1 << 20}),
				Reset: uni(rt, "abort-reset", 4) == 3,
			}
			if c.Client.At > 1 && c.Client.At < 999 {
				c.Client.At += rapid.IntRange(-1, 1).Draw(rt, "abort-at-jitter") * rapid.IntRange(0, 40).Draw(rt, "abort-at-delta")
			}
			if !foreign && uni(rt, "abort-fill", 4) > 0 {
				head, fill = fillFor(rt, family, b, thorough)
			}
		} else if !foreign && uni(rt, "complete-fill", 30) == 29 {
			head, fill = fillFor(rt, family, b, thorough)
		}

		// damage
		phrase := ""
		k := uni(rt, "damage", 20)
		if phraseCase {
			k, fill = 10, nil
		} else if k == 10 {
			k = 11
		}
		if fill != nil {
			k = 0
			c.Muts = append(c.Muts, "fill")
		}
		switch {
		case k < 3: // none: a well-formed request
			c.Muts = append(c.Muts, "valid")
		case k < 6 && (family == "otlp-traces" || family == "zipkin" || family == "zipkin-nd"):
			var m []string
			if family == "otlp-traces" {
				b.inner, m = damagedOTLP(rt)
			} else {
				b.inner, m = damagedZipkin(rt, family == "zipkin-nd", thorough)
			}
			c.Muts = append(c.Muts, m...)
		case k < 8: // a hostile constant instead of a derived body
			kinds := hostileKind(family)
			kind := kinds[0]
			if len(kinds) > 1 && uni(rt, "hostile-second", 4) == 0 {
				kind = kinds[1]
			}
			b.inner = []byte(pick(rt, "hostile-body", hostileBodies[kind]))
			if kind == "multipart" {
				b.wrap = nil
				b.ct = "multipart/form-data; boundary=x"
			}
			c.Muts = append(c.Muts, "hostile-const-"+kind)
		case k == 9: // a tiny body that announces a huge one
			c.Muts = append(c.Muts, announce(rt, b)...)
		case k == 10: // data that reads like an error text the status mapping looks for
			var m []string
			m, phrase = phrased(rt, rd, family, b)
			c.Muts = append(c.Muts, m...)
		case k == 8: // random bytes
			b.inner = rapid.SliceOfN(rapid.Byte(), 0, 300).Draw(rt, "random-bytes")
			if rapid.Bool().Draw(rt, "random-unwrapped") {
				b.wrap = nil
			}
			c.Muts = append(c.Muts, "random-bytes")
		default: // 1-3 mutations at a layer of the serialisation
			layer := 0
			if len(b.wrap) > 0 {
				layer = rapid.IntRange(0, len(b.wrap)).Draw(rt, "layer")
				if uni(rt, "inner-layer", 3) == 0 {
					layer = 0
				}
			}
			cur := b.inner
			for _, w := range b.wrap[:layer] {
				cur = (&body{inner: cur, wrap: []string{w}}).wire()
			}
			other := func() []byte { return validBody(rt, family, false).inner }
			n := rapid.IntRange(1, 3).Draw(rt, "nmut")
			for i := 0; i < n; i++ {
				var name string
				cur, name = mutate(rt, cur, other)
				c.Muts = append(c.Muts, fmt.Sprintf("%s@%d", name, layer))
			}
			b.inner, b.wrap = cur, b.wrap[layer:]
		}
		wire := b.wire()
		if phrase == "" && len(b.wrap) > 0 && b.wrap[len(b.wrap)-1] == "snappy-block" && uni(rt, "snappy-length-lie", 8) == 7 {
			// the block starts with the uvarint of the decoded length (middleware.go:137 refuses
			// more than 10 MiB before decoding): claim another one
			_, hdr := binary.Uvarint(wire)
			if hdr > 0 {
				claim := pick(rt, "snappy-claim", []uint64{0, 1, 10 << 20, 10<<20 + 1, 64 << 20, 256 << 20, 1 << 30, 1<<32 - 1, 1 << 40})
				wire = append(binary.AppendUvarint(nil, claim), wire[hdr:]...)
				c.Muts = append(c.Muts, "snappy-length-lie")
			}
		}

		// query parameters
		q := b.query
		for _, p := range rd.params {
			if phrase != "" {
				break // the parameters carry the phrase (or are valid on purpose)
			}
			switch uni(rt, "param-"+p+"-mode", 10) {
			case 0, 1, 2: // hostile value
				q.Set(p, paramValue(rt, p))
				c.Muts = append(c.Muts, "param-"+p)
			case 3:
				if rapid.Bool().Draw(rt, "param-drop") {
					q.Del(p)
					c.Muts = append(c.Muts, "param-"+p+"-absent")
				} else {
					q.Add(p, paramValue(rt, p))
					c.Muts = append(c.Muts, "param-"+p+"-twice")
				}
			}
		}
		if uni(rt, "stray-param", 15) == 0 {
			p := pick(rt, "stray", []string{"from", "until", "name", "precision", "ddsource", "db", "bucket", "org"})
			q.Add(p, paramValue(rt, p))
		}
		path := rd.path
		if strings.Contains(path, "{target}") {
			path = strings.Replace(path, "{target}", url.PathEscape(pathVar(rt, "target")), 1)
		}
		if strings.Contains(path, "{id}") {
			path = strings.Replace(path, "{id}", url.PathEscape(pathVar(rt, "id")), 1)
		}
		target := path
		if len(q) > 0 {
			target += "?" + q.Encode()
		}
		rawq := uni(rt, "raw-query", 40)
		if phrase != "" {
			rawq = 39
		}
		switch rawq {
		case 0: // a query string no client library would produce
			target = path + "?" + strings.Map(func(r rune) rune {
				if r <= ' ' || r == 0x7f || r == '#' {
					return '+'
				}
				return r
			}, gen.HostileStr(rt, "raw-query", gen.StrOpt{Max: 60, UTF8Only: true}))
			c.Muts = append(c.Muts, "raw-query")
		case 1:
			target = path + "?" + strings.Join(rd.params, "=%zz&") + "=%"
			c.Muts = append(c.Muts, "bad-escape-query")
		}
		c.Target = evid.Str(target)

		c.Method = rd.method
		if uni(rt, "method", 60) == 0 {
			c.Method = pick(rt, "other-method", []string{"GET", "PUT", "POST", "DELETE", "PATCH", "HEAD"})
		}

		// headers
		ct := b.ct
		switch uni(rt, "ct-mode", 20) {
		case 0, 1:
			ct = pick(rt, "ct", contentTypes)
			c.Muts = append(c.Muts, "ct-other")
		case 2:
			ct = ""
			c.Muts = append(c.Muts, "ct-absent")
		case 3:
			ct = headerSafe(gen.HostileStr(rt, "ct-hostile", gen.StrOpt{Max: 30}))
			c.Muts = append(c.Muts, "ct-hostile")
		}
		ce := ""
		switch uni(rt, "ce-mode", 20) {
		case 0, 1, 2:
			ce = "gzip"
		case 3, 4:
			ce = "snappy"
		case 5:
			ce = pick(rt, "ce", contentEncodings)
		case 6:
			if uni(rt, "ce-hostile", 4) == 0 {
				ce = headerSafe(gen.HostileStr(rt, "ce-hostile", gen.StrOpt{Max: 20}))
			}
		}
		if fill != nil || phrase != "" {
			ce = "" // the body is assembled when it is sent
		}
		if ce != "" {
			wire, c.Enc = encodeFor(rt, ce, wire)
			c.Enc = "ce=" + strings.TrimSpace(ce) + "/" + c.Enc
		} else {
			c.Enc = "none"
		}
		if ct != "" {
			c.Header = append(c.Header, [2]evid.Str{"Content-Type", evid.Str(ct)})
		}
		if ce != "" {
			c.Header = append(c.Header, [2]evid.Str{"Content-Encoding", evid.Str(ce)})
		}
		if uni(rt, "ttl-header", 8) == 0 {
			c.Header = append(c.Header, [2]evid.Str{"X-Ttl-Days", evid.Str(rapid.SampledFrom([]string{"0", "7", "65535", "65536", "-1", "abc", "1.5", ""}).Draw(rt, "ttl"))})
		}
		if uni(rt, "meta-header", 12) == 0 {
			c.Header = append(c.Header, [2]evid.Str{"X-Scope-Meta", evid.Str(headerSafe(gen.HostileStr(rt, "meta", gen.StrOpt{Max: 30})))})
		}
		if uni(rt, "async-header", 12) == 0 {
			c.Header = append(c.Header, [2]evid.Str{"X-Async-Insert", evid.Str(rapid.SampledFrom([]string{"0", "1", "2", "", "true"}).Draw(rt, "async"))})
		}
		if uni(rt, "dsn-header", 12) == 0 {
			c.Header = append(c.Header, [2]evid.Str{"X-CH-DSN", evid.Str(rapid.SampledFrom([]string{"node1", "zzz", "", "clickhouse://x"}).Draw(rt, "dsn"))})
		}
		c.Body = wire
		if fill != nil {
			c.Body, c.Fill = head, fill
		}
		if phrase != "" {
			// kept unwrapped, so that the twin can be derived from the case
			c.Phrase, c.Body, c.Fill = phrase, b.inner, &fillSpec{Wrap: b.wrap}
		}

		// probe: a well-formed push of another protocol; most of the time one that shares
		// the insert services (and therefore the batch) with the request
		var cands []string
		switch rd.svc {
		case "logs":
			cands = []string{"loki", "prom"}
		case "traces":
			cands = []string{"zipkin"}
		default:
			cands = []string{"profile", "loki"}
		}
		if uni(rt, "probe-any", 4) == 0 {
			cands = inssvc.HTTPKinds
		}
		c.Probe = pick(rt, "probe", cands)
		c.ProbeN = rapid.IntRange(1, 6).Draw(rt, "probe-rows")
		return c
	}
}

// familyForHeaders picks the family whose content type and parameters accompany the body.
func familyForHeaders(rd routeDef, family string, foreign bool) string {
	if !foreign {
		return family
	}
	return rd.families[0]
}

func pathVar(rt *rapid.T, label string) string {
	switch rapid.IntRange(0, 5).Draw(rt, label+"-kind") {
	case 0:
		s := gen.HostileStr(rt, label, gen.StrOpt{Max: 20, UTF8Only: true})
		s = strings.Map(func(r rune) rune {
			if r < ' ' || r == 0x7f {
				return '_'
			}
			return r
		}, s)
		if s == "" || s == "." || s == ".." {
			s = "x"
		}
		return s
	case 1:
		return rapid.SampledFrom([]string{"_doc", "_bulk", "_create", "a b", "%", "é", "a/b", strings.Repeat("t", 300), hex.EncodeToString([]byte("idx"))}).Draw(rt, label)
	}
	return rapid.SampledFrom([]string{"logs", "idx-1", "my_index", "1"}).Draw(rt, label)
}

// ---- large bodies ---------------------------------------------------------------------------

var fixedUnits = map[string]string{
	"influx":    "cpu,host=a v=1 1705320000000000000\n",
	"cf":        `{"EventType":"x","Outcome":"ok","EventTimestampMs":1705320000000}` + "\n",
	"es-bulk":   `{"index":{"_index":"i"}}` + "\n" + `{"a":"b"}` + "\n",
	"zipkin-nd": `{"traceId":"463ac35c9f6413ad48485a3953bb6124","id":"a2fb4a1d1a96d312","name":"get","timestamp":1705320000000000}` + "\n",
	"zipkin":    `{"traceId":"463ac35c9f6413ad48485a3953bb6124","id":"a2fb4a1d1a96d312","name":"get","timestamp":1705320000000000,"tags":{"k":"v"}}`,
	"dd-logs":   `{"message":"hello","ddtags":"a:b","service":"s","timestamp":1705320000000}`,
}

// fillFor turns the small valid body b into head + unit x n + tail of about 70 kB to 2.5 MB:
// more than the 64 KiB read buffer of the streaming decoders (jx.Decode, bufio.Scanner,
// telegraf's stream parser), some of them beyond the 1 MiB after which the response
// builder hands a first part to the insert services while the rest is still being read.
func fillFor(rt *rapid.T, family string, b *body, thorough bool) ([]byte, *fillSpec) {
	sizes := []int{70_000, 150_000, 300_000, 700_000, 1_300_000}
	if thorough {
		sizes = append(sizes, 2_500_000)
	}
	target := pick(rt, "fill-size", sizes)
	var head, unit, tail []byte
	f := &fillSpec{Wrap: b.wrap}
	switch family {
	case "influx", "cf", "es-bulk", "zipkin-nd":
		unit = bytes.TrimLeft(b.inner, "\r\n")
		if len(bytes.TrimSpace(unit)) == 0 || uni(rt, "fill-fixed", 3) == 0 {
			unit = []byte(fixedUnits[family])
		}
		if unit[len(unit)-1] != '\n' {
			unit = append(append([]byte(nil), unit...), '\n')
		}
	case "zipkin", "dd-logs":
		inner := bytes.TrimSpace(b.inner)
		if len(inner) > 2 && inner[0] == '[' && inner[len(inner)-1] == ']' && len(bytes.TrimSpace(inner[1:len(inner)-1])) > 0 && uni(rt, "fill-fixed", 3) > 0 {
			inner = inner[1 : len(inner)-1]
		} else {
			inner = []byte(fixedUnits[family])
		}
		head, unit, tail = []byte("["), append(append([]byte(nil), inner...), ','), append(append([]byte(nil), inner...), ']')
	case "loki-json":
		line := gen.JSONString(gen.HostileUTF8(rt, "fill-line")+gen.Filler(rapid.IntRange(0, 300).Draw(rt, "fill-pad"), 7), 0)
		if rapid.Bool().Draw(rt, "fill-one-stream") {
			// one stream, many values: handed to the response builder when the stream ends
			head = []byte(`{"streams":[{"stream":{"job":"c05"},"values":[`)
			unit = []byte(`["1705320000000000000",` + line + `],`)
			tail = []byte(`["1705320000000000001","z"]]}]}`)
		} else {
			// many streams: the response builder is fed stream by stream
			st := `{"stream":{"job":"c05","k":"v"},"values":[["1705320000000000000",` + line + `],["1705320000000000001","y"]]}`
			head, unit, tail = []byte(`{"streams":[`), []byte(st+","), []byte(st+"]}")
		}
	case "dd-metrics":
		sr := `{"metric":"m.c05","resources":[{"host":"h"}],"points":[{"timestamp":1705320000,"value":1.5},{"timestamp":1705320001,"value":2}]}`
		head, unit, tail = []byte(`{"series":[`), []byte(sr+","), []byte(sr+"]}")
	case "es-doc":
		head, unit, tail = []byte(`{"msg":"`), bytes.Repeat([]byte("x"), 64), []byte(`"}`)
	default:
		// protobuf families and pprof: the top-level message is a sequence of repeated fields,
		// so the concatenation of valid bodies is a body again (for pprof: at least a large one)
		unit = b.inner
		if len(unit) == 0 {
			return nil, nil
		}
	}
	f.Unit, f.Tail = unit, tail
	f.N = target/len(unit) + 1
	return head, f
}

// ---- announced sizes ------------------------------------------------------------------------

var announcedSizes = []uint64{10 << 20, 10<<20 + 1, 64 << 20, 256 << 20, 1 << 30, 2 << 30, 1<<32 - 1}

// announce replaces the body by a few bytes that announce a huge one: a snappy block
// preamble (the uvarint of the decoded length), a protobuf length-delimited field or packed
// repeated field whose length prefix points far behind the end, or a small gzip stream of
// zeros. Nothing of the announced size is ever sent.
func announce(rt *rapid.T, b *body) []string {
	size := pick(rt, "announced-size", announcedSizes)
	payload := rapid.SliceOfN(rapid.Byte(), 0, 12).Draw(rt, "announce-payload")
	snappyFamily := len(b.wrap) > 0 && b.wrap[len(b.wrap)-1] == "snappy-block"
	kind := uni(rt, "announce-kind", 4)
	if kind == 0 && !snappyFamily && uni(rt, "announce-snappy-anyway", 3) > 0 {
		kind = 1
	}
	switch kind {
	case 0: // snappy preamble, on the wire as it is
		lit := payload
		if rapid.Bool().Draw(rt, "announce-valid-literal") {
			// a well-formed literal element of len(payload) bytes after the lying preamble
			lit = append([]byte{byte(len(payload)-1) << 2}, payload...)
			if len(payload) == 0 {
				lit = nil
			}
		}
		b.inner, b.wrap = append(binary.AppendUvarint(nil, size), lit...), nil
		return []string{"announce-snappy-preamble"}
	case 1: // protobuf field with a length prefix far beyond the body, possibly nested
		msg := append(protowire.AppendVarint(protowire.AppendTag(nil, protowire.Number(1+uni(rt, "announce-field", 5)), protowire.BytesType), size), payload...)
		for d := uni(rt, "announce-depth", 3); d > 0; d-- {
			msg = protowire.AppendBytes(protowire.AppendTag(nil, protowire.Number(1+uni(rt, "announce-outer", 2)), protowire.BytesType), msg)
		}
		b.inner = msg
		if len(b.wrap) > 0 && b.wrap[0] == "gzip" && rapid.Bool().Draw(rt, "announce-raw") {
			b.wrap = b.wrap[1:]
		}
		return []string{"announce-proto-length"}
	case 2: // gzip stream of zeros (at most 3 MiB, so that the stream stays small)
		n := pick(rt, "announce-zeros", []int{1 << 20, 2 << 20, 3 << 20})
		b.inner, b.wrap = gz(make([]byte, n)), nil
		if len(b.wrap) == 0 && b.family == "pprof-multipart" {
			b.inner, b.wrap = make([]byte, n), []string{"gzip", "multipart"}
		}
		return []string{"announce-gzip-zeros"}
	default: // valid body followed by a huge announced tail
		tail := protowire.AppendVarint(protowire.AppendTag(nil, 1, protowire.BytesType), size)
		b.inner = append(append([]byte(nil), b.inner...), tail...)
		return []string{"announce-tail"}
	}
}

// ---- error phrases --------------------------------------------------------------------------

// errorPhrases: what the status mapping of the writer looks for in error texts
// (controller/builder.go ErrorHandler and doPush, controller/shared.go watchErr,
// unmarshal/datadogMetricsJsonUnmarshal.go WrapError, plugin/utils.go) and the texts of
// the usual transport errors.
var errorPhrases = []string{"connection reset by peer", "connection reset by peer", "connection reset by peer", "connection reset by peer", "connection reset by peer",
	"connection reset by peer", "json parse error", "json parse error", "json error", "json error", "dial tcp: lookup", "i/o timeout",
	"unexpected packet [21] from server", "broken pipe", "EOF", "unexpected EOF", "timeout", "context canceled", "context deadline exceeded",
	"use of closed network connection", "internal server error", "service stopped", "panic: runtime error"}

// twinOf alters the phrase minimally (same length, same character classes).
func twinOf(phrase string) string {
	if phrase == "" {
		return ""
	}
	r := byte('x')
	if phrase[0] == 'x' {
		r = 'y'
	}
	if phrase[0] >= 'A' && phrase[0] <= 'Z' {
		r = 'X'
	}
	return string(r) + phrase[1:]
}

// phrased puts an error phrase into data the decoders quote in their error messages: the
// profile parameters, Loki label strings and timestamps, or any string of the body.
func phrased(rt *rapid.T, rd routeDef, family string, b *body) ([]string, string) {
	ph := pick(rt, "phrase", errorPhrases)
	shape := func(label string) string { // the phrase alone or inside something larger
		switch uni(rt, label, 4) {
		case 0:
			return ph
		case 1:
			return "a " + ph
		case 2:
			return ph + ": 1"
		}
		return "{" + ph + "}"
	}
	switch {
	case rd.name == "ingest":
		switch uni(rt, "phrase-param", 4) {
		case 0:
			b.query.Set("from", shape("phrase-from"))
			return []string{"phrase-from"}, ph
		case 1:
			b.query.Set("until", shape("phrase-until"))
			return []string{"phrase-until"}, ph
		case 2:
			b.query.Set("name", "app{"+ph+"}")
			return []string{"phrase-name"}, ph
		}
		b.query.Set("name", pick(rt, "phrase-name", []string{ph, ph + "{", "app{" + ph + "=", "{" + ph}))
		return []string{"phrase-name"}, ph
	case family == "loki-proto":
		lbl := pick(rt, "phrase-labels", []string{ph, "{" + ph, `{a="b"} ` + ph, `{a="b",` + ph + `}`, `{` + ph + `="b"}`, `{a="` + ph + `"}`, `{a=` + ph + `}`})
		entry := protowire.AppendString(protowire.AppendTag(protowire.AppendBytes(protowire.AppendTag(nil, 1, protowire.BytesType),
			protowire.AppendVarint(protowire.AppendTag(nil, 1, protowire.VarintType), 1705320000)), 2, protowire.BytesType), "line "+ph)
		stream := protowire.AppendBytes(protowire.AppendTag(protowire.AppendString(protowire.AppendTag(nil, 1, protowire.BytesType), lbl), 2, protowire.BytesType), entry)
		b.inner = protowire.AppendBytes(protowire.AppendTag(nil, 1, protowire.BytesType), stream)
		return []string{"phrase-loki-labels"}, ph
	case family == "loki-json":
		q := func(s string) string { return gen.JSONString(s, 0) }
		b.inner = []byte(pick(rt, "phrase-loki-json", []string{
			`{"streams":[{"labels":` + q(shape("phrase-l1")) + `,"entries":[{"ts":"1705320000000000000","line":"x"}]}]}`,
			`{"streams":[{"labels":` + q(`{a="b"} `+ph) + `,"entries":[{"ts":"1705320000000000000","line":"x"}]}]}`,
			`{"streams":[{"labels":"{a=\"b\"}","entries":[{"ts":` + q(shape("phrase-l2")) + `,"line":"x"}]}]}`,
			`{"streams":[{"stream":{"a":"b"},"values":[[` + q(ph) + `,"x"]]}]}`,
			`{"streams":[{"stream":{"a":` + q(ph) + `},"values":[["1705320000000000000",` + q(ph) + `,"` + ph + `"]]}]}`,
			`{"streams":[{"stream":{` + q(ph) + `:1},"values":[]}]}`,
		}))
		return []string{"phrase-loki-json"}, ph
	}
	if len(rd.params) > 0 && rapid.Bool().Draw(rt, "phrase-in-param") {
		p := rd.params[uni(rt, "phrase-which-param", len(rd.params))]
		b.query.Set(p, shape("phrase-"+p))
		return []string{"phrase-" + p}, ph
	}
	// any string of the body; binary bodies: a damaged tail that quotes the phrase
	if toks := jsonTokens(b.inner); len(toks) > 0 && family != "prom-rw" && family != "otlp-logs" && family != "otlp-traces" && !strings.HasPrefix(family, "pprof") {
		tk := toks[uni(rt, "phrase-token", len(toks))]
		rep := gen.JSONString(shape("phrase-tok"), 0)
		if family == "influx" {
			rep = strings.ReplaceAll(ph, " ", `\ `)
		}
		b.inner = append(append(append([]byte(nil), b.inner[:tk[0]]...), rep...), b.inner[tk[1]:]...)
		return []string{"phrase-body-token"}, ph
	}
	// (an unknown field: the phrase must sit in data, not be parsed as structure)
	b.inner = append(append([]byte(nil), b.inner...), protowire.AppendString(protowire.AppendTag(nil, 99, protowire.BytesType), ph)...)
	return []string{"phrase-body-tail"}, ph
}

package c05

// group.go: the concurrency dimension. A group is 2-16 requests released together on
// separate connections against one stand: the same route or mixed routes, valid bodies
// whose label / attribute / tag keys are fresh in every request (whatever a decoder
// memoises per key is cold, so concurrent requests write shared state, not just read it),
// and damaged variants of them. State shared between concurrently decoded requests that is
// not synchronised makes the runtime raise "fatal error: concurrent map read and map write"
// (not a panic: nothing recovers it, the process exits) or corrupts a batch.
//
// Each member is judged like a single request (a complete response within the deadline,
// no handler panic), the group as a whole by judgeAfter (push-goroutine panics, malformed
// blocks, probe, promises, goroutines). The whole group is the logged case (WAL), so a
// process death is replayed as a group; when replayed the group is released several times,
// because a collision needs the requests to overlap. TestRace runs groups under the race
// detector, one sub-test per group, so that a race report is attributed to the group.

import (
	"fmt"
	"net/url"
	"strings"
	"sync"
	"testing"

	"github.com/metrico/qryn/writer/utils/proto/prompb"
	otlpCommon "go.opentelemetry.io/proto/otlp/common/v1"
	otlpLogs "go.opentelemetry.io/proto/otlp/logs/v1"
	otlpResource "go.opentelemetry.io/proto/otlp/resource/v1"
	"google.golang.org/protobuf/encoding/protowire"
	"google.golang.org/protobuf/proto"
	"pgregory.net/rapid"

	"qrynverif/evid"
	"qrynverif/gen"
	"qrynverif/inssvc"
)

type groupCase struct {
	Cfg    inssvc.Config `json:"cfg"`
	Mode   string        `json:"mode"` // same-route | mixed
	Reqs   []reqCase     `json:"reqs"` // Cfg / Probe of the members are not used
	Probe  string        `json:"probe"`
	ProbeN int           `json:"probe_n"`
}

// ---- fresh bodies ---------------------------------------------------------------------------

const baseTs = int64(1705320000)

// freshBody builds a valid body of the family whose keys (label names, attribute keys, tag
// keys, metric and function names) all carry tok: no other request of the run has them.
func freshBody(rt *rapid.T, family, tok string) *body {
	b := &body{family: family, query: url.Values{}}
	nk := rapid.IntRange(2, 40).Draw(rt, "fresh-keys")
	key := func(kind string, i int) string { return fmt.Sprintf("%s_%s_%d", kind, tok, i) }
	ts := baseTs + int64(rapid.IntRange(0, 3600).Draw(rt, "fresh-ts"))
	var sb strings.Builder
	switch family {
	case "loki-json":
		ns := rapid.IntRange(1, 3).Draw(rt, "fresh-streams")
		sb.WriteString(`{"streams":[`)
		for s := 0; s < ns; s++ {
			if s > 0 {
				sb.WriteByte(',')
			}
			sb.WriteString(`{"stream":{`)
			for i := 0; i < nk; i++ {
				if i > 0 {
					sb.WriteByte(',')
				}
				fmt.Fprintf(&sb, `"%s":"v%d"`, key(fmt.Sprintf("l%d", s), i), i)
			}
			fmt.Fprintf(&sb, `},"values":[["%d000000000","line %s %d"],["%d000000001","second"]]}`, ts, tok, s, ts)
		}
		sb.WriteString(`]}`)
		b.inner, b.ct = []byte(sb.String()), "application/json"
	case "loki-proto":
		var kv []string
		for i := 0; i < nk; i++ {
			kv = append(kv, fmt.Sprintf(`%s="v%d"`, key("p", i), i))
		}
		entry := protowire.AppendString(protowire.AppendTag(protowire.AppendBytes(protowire.AppendTag(nil, 1, protowire.BytesType),
			protowire.AppendVarint(protowire.AppendTag(nil, 1, protowire.VarintType), uint64(ts))), 2, protowire.BytesType), "line "+tok)
		stream := protowire.AppendBytes(protowire.AppendTag(protowire.AppendString(protowire.AppendTag(nil, 1, protowire.BytesType), "{"+strings.Join(kv, ",")+"}"), 2, protowire.BytesType), entry)
		b.inner = protowire.AppendBytes(protowire.AppendTag(nil, 1, protowire.BytesType), stream)
		b.ct, b.wrap = "application/x-protobuf", []string{"snappy-block"}
	case "prom-rw":
		wr := &prompb.WriteRequest{}
		nseries := rapid.IntRange(1, 4).Draw(rt, "fresh-series")
		for s := 0; s < nseries; s++ {
			t := &prompb.TimeSeries{Labels: []*prompb.Label{{Name: "__name__", Value: key("metric", s)}}}
			for i := 0; i < nk; i++ {
				t.Labels = append(t.Labels, &prompb.Label{Name: key(fmt.Sprintf("r%d", s), i), Value: "v"})
			}
			t.Samples = append(t.Samples, &prompb.Sample{Value: float64(s), Timestamp: ts * 1000})
			wr.Timeseries = append(wr.Timeseries, t)
		}
		b.inner, _ = proto.Marshal(wr)
		b.ct, b.wrap = "application/x-protobuf", []string{"snappy-block"}
	case "influx":
		for i := 0; i < nk; i++ {
			fmt.Fprintf(&sb, "%s,%s=v %s=%d %d000000000\n", key("m", i), key("t", i), key("f", i), i, ts)
		}
		b.inner, b.ct = []byte(sb.String()), "text/plain"
	case "cf":
		for i := 0; i < nk; i++ {
			fmt.Fprintf(&sb, `{"EventType":"%s","ScriptName":"%s","Outcome":"ok","EventTimestampMs":%d000}`+"\n", key("e", i), key("s", i), ts)
		}
		b.inner, b.ct = []byte(sb.String()), "application/json"
		b.query.Set("ddsource", key("src", 0))
	case "dd-logs":
		sb.WriteByte('[')
		for i := 0; i < nk; i++ {
			if i > 0 {
				sb.WriteByte(',')
			}
			fmt.Fprintf(&sb, `{"message":"m %s","ddtags":"%s:v,%s:w","service":"%s","hostname":"h","timestamp":%d000}`, tok, key("a", i), key("b", i), key("svc", i), ts)
		}
		sb.WriteByte(']')
		b.inner, b.ct = []byte(sb.String()), "application/json"
	case "dd-metrics":
		sb.WriteString(`{"series":[`)
		for i := 0; i < nk; i++ {
			if i > 0 {
				sb.WriteByte(',')
			}
			fmt.Fprintf(&sb, `{"metric":"%s","resources":[{"%s":"v","%s":"w"}],"points":[{"timestamp":%d,"value":%d}]}`, key("dm", i), key("rk", i), key("rl", i), ts, i)
		}
		sb.WriteString(`]}`)
		b.inner, b.ct = []byte(sb.String()), "application/json"
	case "otlp-logs":
		attrs := func(kind string, n int) []*otlpCommon.KeyValue {
			var out []*otlpCommon.KeyValue
			for i := 0; i < n; i++ {
				out = append(out, &otlpCommon.KeyValue{Key: key(kind, i) + ".x-y", Value: &otlpCommon.AnyValue{Value: &otlpCommon.AnyValue_StringValue{StringValue: "v"}}})
			}
			return out
		}
		ld := &otlpLogs.LogsData{}
		for r := 0; r < rapid.IntRange(1, 2).Draw(rt, "fresh-resources"); r++ {
			rl := &otlpLogs.ResourceLogs{Resource: &otlpResource.Resource{Attributes: attrs(fmt.Sprintf("res%d", r), 3)}}
			sl := &otlpLogs.ScopeLogs{Scope: &otlpCommon.InstrumentationScope{Name: "s", Attributes: attrs(fmt.Sprintf("sc%d", r), 2)}}
			for l := 0; l < rapid.IntRange(1, 3).Draw(rt, "fresh-records"); l++ {
				sl.LogRecords = append(sl.LogRecords, &otlpLogs.LogRecord{TimeUnixNano: uint64(ts) * 1e9, SeverityText: "info",
					Body: &otlpCommon.AnyValue{Value: &otlpCommon.AnyValue_StringValue{StringValue: "line " + tok}}, Attributes: attrs(fmt.Sprintf("rec%d_%d", r, l), nk)})
			}
			rl.ScopeLogs = append(rl.ScopeLogs, sl)
			ld.ResourceLogs = append(ld.ResourceLogs, rl)
		}
		b.inner, _ = proto.Marshal(ld)
		b.ct = "application/x-protobuf"
	case "otlp-traces":
		kvs := func(kind string, n int) []gen.KeyVal {
			var out []gen.KeyVal
			for i := 0; i < n; i++ {
				out = append(out, gen.KeyVal{Key: key(kind, i), Val: gen.AnyVal{K: "s", S: "v"}})
			}
			return out
		}
		res := gen.OTLPResource{Attrs: append(kvs("res", 3), gen.KeyVal{Key: "service.name", Val: gen.AnyVal{K: "s", S: key("svc", 0)}})}
		sc := gen.OTLPScope{Name: "lib"}
		for i := 0; i < rapid.IntRange(1, 4).Draw(rt, "fresh-spans"); i++ {
			sc.Spans = append(sc.Spans, gen.OTLPSpan{TraceID: fmt.Sprintf("%032x", uint64(ts)<<8|uint64(i)+1), SpanID: fmt.Sprintf("%016x", uint64(ts)<<8|uint64(i)+1),
				Name: key("span", i), Kind: 1, Start: uint64(ts) * 1e9, End: uint64(ts)*1e9 + 1000, Attrs: kvs(fmt.Sprintf("a%d", i), nk)})
		}
		res.Scopes = []gen.OTLPScope{sc}
		b.inner, b.ct = gen.OTLPBatch{Resources: []gen.OTLPResource{res}}.Body(), "application/x-protobuf"
	case "zipkin", "zipkin-nd":
		nsp := rapid.IntRange(1, 4).Draw(rt, "fresh-spans")
		for i := 0; i < nsp; i++ {
			var tags []string
			for k := 0; k < nk; k++ {
				tags = append(tags, fmt.Sprintf(`"%s":"v"`, key(fmt.Sprintf("z%d", i), k)))
			}
			span := fmt.Sprintf(`{"traceId":"%032x","id":"%016x","name":"%s","timestamp":%d000000,"duration":10,"localEndpoint":{"serviceName":"%s"},"tags":{%s}}`,
				uint64(ts)<<8|uint64(i)+1, uint64(ts)<<8|uint64(i)+1, key("zn", i), ts, key("zs", i), strings.Join(tags, ","))
			if family == "zipkin-nd" {
				sb.WriteString(span + "\n")
			} else {
				if i == 0 {
					sb.WriteByte('[')
				} else {
					sb.WriteByte(',')
				}
				sb.WriteString(span)
			}
		}
		b.ct = "ndjson"
		if family == "zipkin" {
			sb.WriteByte(']')
			b.ct = "application/json"
		}
		b.inner = []byte(sb.String())
	case "es-doc":
		sb.WriteByte('{')
		for i := 0; i < nk; i++ {
			if i > 0 {
				sb.WriteByte(',')
			}
			fmt.Fprintf(&sb, `"%s":"v%d"`, key("d", i), i)
		}
		sb.WriteByte('}')
		b.inner, b.ct = []byte(sb.String()), "application/json"
	case "es-bulk":
		for i := 0; i < nk; i++ {
			fmt.Fprintf(&sb, `{"index":{"_index":"%s","%s":"v"}}`+"\n"+`{"%s":"v"}`+"\n", key("idx", i), key("meta", i), key("doc", i))
		}
		b.inner, b.ct = []byte(sb.String()), "application/x-ndjson"
	case "pprof-multipart", "pprof-binary":
		p := gen.Pprof{SampleTypes: []gen.PprofValueType{{Type: "cpu", Unit: "nanoseconds"}, {Type: key("st", 0), Unit: "count"}}, Period: gen.PprofValueType{Type: "cpu", Unit: "nanoseconds"}}
		for i := 0; i < nk; i++ {
			p.Funcs = append(p.Funcs, key("fn", i))
			p.Locs = append(p.Locs, []int{i})
			p.Samples = append(p.Samples, gen.PprofSample{Stack: []int{i, i / 2}, Values: []int64{int64(i + 1), 1}})
		}
		b.inner = p.Encode(false)
		if family == "pprof-multipart" {
			b.wrap, b.ct = []string{"gzip", "multipart"}, "multipart/form-data; boundary="+mpBoundary
		} else {
			b.ct = "binary/octet-stream"
		}
		var kv []string
		for i := 0; i < 1+nk%4; i++ {
			kv = append(kv, key("pl", i)+"=v")
		}
		b.query.Set("from", fmt.Sprint(ts))
		b.query.Set("until", fmt.Sprint(ts+10))
		b.query.Set("name", key("app", 0)+"{"+strings.Join(kv, ",")+"}")
	default:
		panic("c05: no fresh body for " + family)
	}
	return b
}

func genGroup(rt *rapid.T) groupCase {
	g := groupCase{Cfg: inssvc.Config{IntervalMs: 2, Workers: 1, RetryAttempts: 1}}
	if uni(rt, "group-config", 6) == 5 {
		g.Cfg.Workers, g.Cfg.MaxQueueSize = 2, pick(rt, "group-max-queue", []int64{0, 1, 4096})
	}
	n := pick(rt, "group-size", []int{2, 2, 3, 4, 6, 8, 12, 16})
	g.Mode = "mixed"
	if uni(rt, "group-mode", 9) < 5 {
		g.Mode = "same-route"
	}
	tok := rapid.StringMatching(`[a-z]{7}`).Draw(rt, "group-token")
	base := routes[routeDeck[uni(rt, "group-route", len(routeDeck))]]
	for i := 0; i < n; i++ {
		rd := base
		if g.Mode == "mixed" {
			rd = routes[routeDeck[uni(rt, "member-route", len(routeDeck))]]
		}
		family := rd.families[uni(rt, "member-family", len(rd.families))]
		b := freshBody(rt, family, fmt.Sprintf("%s%d", tok, i))
		m := reqCase{Route: rd.name, Family: family, Method: rd.method, Muts: []string{"fresh"}, Enc: "none"}
		if uni(rt, "member-damaged", 10) >= 7 {
			other := func() []byte { return freshBody(rt, family, tok+"o").inner }
			for k := rapid.IntRange(1, 2).Draw(rt, "member-nmut"); k > 0; k-- {
				var name string
				b.inner, name = mutate(rt, b.inner, other)
				m.Muts = append(m.Muts, name)
			}
		}
		path := strings.NewReplacer("{target}", "idx_"+tok, "{id}", fmt.Sprint(i)).Replace(rd.path)
		if len(b.query) > 0 {
			path += "?" + b.query.Encode()
		}
		m.Target = evid.Str(path)
		m.Header = [][2]evid.Str{{"Content-Type", evid.Str(b.ct)}}
		m.Body = b.wire()
		g.Reqs = append(g.Reqs, m)
	}
	g.Probe = pick(rt, "group-probe", inssvc.HTTPKinds)
	g.ProbeN = rapid.IntRange(1, 6).Draw(rt, "group-probe-rows")
	return g
}

// ---- predicate ------------------------------------------------------------------------------

// raceT is set by TestRace: every group then runs as a sub-test of it, and a race report
// during the group fails that sub-test.
var raceT *testing.T

func predGroup(g groupCase, o *evid.Obs) error {
	if raceT == nil {
		return predGroupBody(g, o)
	}
	var err error
	ok := raceT.Run("group", func(*testing.T) { err = predGroupBody(g, o) })
	if err == nil && !ok {
		return fmt.Errorf("the race detector reported a data race while this group of %d concurrent requests ran (report above: \"WARNING: DATA RACE\"): %s", len(g.Reqs), g.describe())
	}
	return err
}

func (g groupCase) describe() string {
	var parts []string
	for i, m := range g.Reqs {
		if i >= 6 {
			parts = append(parts, fmt.Sprintf("… %d more", len(g.Reqs)-i))
			break
		}
		parts = append(parts, fmt.Sprintf("%s %s (%s, %d bytes, %s)", m.Method, trimTo(string(m.Target), 80), m.Family, len(m.Body), strings.Join(m.Muts, "+")))
	}
	return fmt.Sprintf("%d concurrent requests, %s: %s", len(g.Reqs), g.Mode, strings.Join(parts, "; "))
}

func predGroupBody(g groupCase, o *evid.Obs) error {
	if len(g.Reqs) == 0 || len(g.Reqs) > 64 {
		o.Discard("group size outside the domain")
		return nil
	}
	if raceT == nil {
		restore := quiet() // swapping os.Stdout is itself a data race with qryn's fmt.Println
		defer restore()
	}
	o.Tag("group:"+g.Mode, fmt.Sprintf("group-size:%d", len(g.Reqs)))
	cfg := reqCase{Cfg: g.Cfg}.cfg()
	st := acquire(cfg, o.Witness)
	tainted := true
	defer func() { release(st, tainted) }()

	rounds := 1
	if o.Witness {
		rounds = 8 // a collision needs the requests to overlap: give a replay several chances
	}
	reachedAny := false
	for round := 0; round < rounds; round++ {
		resps := make([]wireResp, len(g.Reqs))
		gate := make(chan struct{})
		var wg sync.WaitGroup
		for i := range g.Reqs {
			rq := g.Reqs[i].wire()
			wg.Add(1)
			go func(i int, rq wireReq) {
				defer wg.Done()
				<-gate
				resps[i] = send(st.addr, rq, respDeadline)
			}(i, rq)
		}
		close(gate)
		wg.Wait()

		for i, resp := range resps {
			m := g.Reqs[i]
			if resp.Err != nil {
				if resp.Timeout {
					if len(st.settle(graceBound)) == 0 {
						o.Discard("deadline missed, request ended within the grace period")
						return nil
					}
					st.wedged = true
					return fmt.Errorf("member %d of %s got no HTTP response within %v and is still running %v later:\n%s", i, g.describe(), respDeadline, graceBound, stacksOf(st.extra(), 4))
				}
				if lg := st.log(); strings.Contains(lg, "panic serving") {
					return fmt.Errorf("a handler goroutine panicked, member %d of %s got no HTTP response (%v)\n%s", i, g.describe(), resp.Err, trimTo(lg, 3500))
				}
				if len(m.Body) > 128<<10 {
					o.Discard("connection closed early on a large body")
					return nil
				}
				return fmt.Errorf("member %d of %s got no HTTP response: %v\nserver log: %s", i, g.describe(), resp.Err, trimTo(st.log(), 2000))
			}
			if round == 0 {
				o.Tag("member-" + statusClass(resp.Status))
				if ok, _ := reachedDecoder(m, m.wireBody(), resp); ok {
					reachedAny = true
					o.Tag("member-reached-decoder")
				}
				if len(m.Muts) == 1 && (resp.Status < 200 || resp.Status > 299) {
					// a fresh, undamaged member is a well-formed push: it plays the part of the probe
					return fmt.Errorf("member %d of %s is well-formed and was answered %d %s", i, g.describe(), resp.Status, trimTo(resp.Body, 300))
				}
			}
		}
	}
	if reachedAny {
		o.NonTrivial()
	}
	if err := judgeAfter(st, o, reqCase{Probe: g.Probe, ProbeN: g.ProbeN}, g.describe()); err != nil {
		return err
	}
	tainted = false
	return nil
}

func addGroup(r *evid.Run, quick, thorough int) {
	evid.Add(r, evid.Prop[groupCase]{Name: "group", Quick: quick, Thorough: thorough, Gen: genGroup, Pred: predGroup, WAL: true})
}

package c05

import (
	"encoding/json"
	"fmt"
	"os"
	"strconv"
	"strings"
	"testing"

	"qrynverif/evid"
	"qrynverif/gen"
	"qrynverif/inssvc"
)

func writeReplay(t *testing.T, name string, c reqCase) {
	raw, _ := json.Marshal(c)
	b, _ := json.MarshalIndent(map[string]any{"property": "C05", "check": "request", "case": json.RawMessage(raw)}, "", " ")
	if err := os.WriteFile("/verif/replays/C05/"+name, b, 0o644); err != nil {
		t.Fatal(err)
	}
}

func TestWriteWitnesses(t *testing.T) {
	if os.Getenv("C05_WRITE_WITNESSES") == "" {
		t.Skip()
	}
	cfg := inssvc.Config{IntervalMs: 2, Workers: 1, RetryAttempts: 1}
	bt := gen.OTLPBatch{Resources: []gen.OTLPResource{{Scopes: []gen.OTLPScope{{Spans: []gen.OTLPSpan{
		{TraceID: strings.Repeat("ab", 16), SpanID: strings.Repeat("cd", 8), Name: "ok", Start: 1705320000000000000, End: 1705320000000001000},
		{TraceID: "ab", SpanID: strings.Repeat("cd", 8), Name: "short-trace-id", Start: 1705320000000000000, End: 1705320000000001000},
	}}}}}}
	writeReplay(t, "fixed-otlp-trace-id-wrong-length.json", reqCase{Cfg: cfg, Route: "otlp-traces", Family: "otlp-traces", Muts: []string{"otlp-trace-id-len-1"}, Enc: "none",
		Method: "POST", Target: "/v1/traces", Header: [][2]evid.Str{{"Content-Type", "application/x-protobuf"}}, Body: bt.Body(), Probe: "zipkin", ProbeN: 2})
	writeReplay(t, "fixed-zipkin-span-without-trace-id.json", reqCase{Cfg: cfg, Route: "zipkin-v2", Family: "zipkin", Muts: []string{"zipkin-no-trace-id"}, Enc: "none",
		Method: "POST", Target: "/api/v2/spans", Header: [][2]evid.Str{{"Content-Type", "application/json"}}, Body: []byte(`[{"id":"a2fb4a1d1a96d312","name":"get"}]`), Probe: "zipkin", ProbeN: 2})
	writeReplay(t, "fixed-profile-from-zero-spins.json", reqCase{Cfg: cfg, Route: "ingest", Family: "pprof-binary", Muts: []string{"param-from"}, Enc: "none",
		Method: "POST", Target: "/ingest?from=0&until=1705320010&name=app", Header: [][2]evid.Str{{"Content-Type", "binary/octet-stream"}}, Body: []byte{}, Probe: "profile", ProbeN: 1})
	writeReplay(t, "fixed-influx-trailing-backslash-spins.json", reqCase{Cfg: cfg, Route: "influx", Family: "influx", Muts: []string{"truncate@0"}, Enc: "none",
		Method: "POST", Target: "/influx/api/v2/write?precision=ns", Header: [][2]evid.Str{{"Content-Type", "text/plain; charset=utf-8"}},
		Body: []byte("cpu v=1 1705320000000000000\nmem\\"), Probe: "loki", ProbeN: 2})
}

func corpusFile(t *testing.T, target string, idx int, args ...any) {
	dir := "testdata/fuzz/" + target
	_ = os.MkdirAll(dir, 0o755)
	var sb strings.Builder
	sb.WriteString("go test fuzz v1\n")
	for _, a := range args {
		switch v := a.(type) {
		case []byte:
			sb.WriteString("[]byte(" + strconv.Quote(string(v)) + ")\n")
		case string:
			sb.WriteString("string(" + strconv.Quote(v) + ")\n")
		case uint8:
			sb.WriteString("uint8(" + strconv.Itoa(int(v)) + ")\n")
		}
	}
	if err := os.WriteFile(fmt.Sprintf("%s/seed-%03d", dir, idx), []byte(sb.String()), 0o644); err != nil {
		t.Fatal(err)
	}
}

func TestWriteCorpus(t *testing.T) {
	if os.Getenv("C05_WRITE_WITNESSES") == "" {
		t.Skip()
	}
	small := func(bs [][]byte) [][]byte {
		var out [][]byte
		for _, b := range bs {
			if len(b) <= 4096 {
				out = append(out, b)
			}
		}
		return out
	}
	one := func(target, family string, kinds ...string) {
		i := 0
		for _, b := range small(append(seedBodies(family, 4), hostileSeeds(kinds...)...)) {
			corpusFile(t, target, i, b)
			i++
		}
	}
	one("FuzzLokiJSON", "loki-json", "json")
	one("FuzzLokiProto", "loki-proto", "proto")
	one("FuzzPromRemoteWrite", "prom-rw", "proto")
	one("FuzzDatadogLogs", "dd-logs", "json")
	one("FuzzDatadogMetrics", "dd-metrics", "json")
	one("FuzzOTLPLogs", "otlp-logs", "proto")
	one("FuzzElasticBulk", "es-bulk", "json")
	one("FuzzElasticDoc", "es-doc", "json")
	one("FuzzZipkinJSON", "zipkin", "json")
	one("FuzzZipkinNDJSON", "zipkin-nd", "json")
	one("FuzzOTLPTraces", "otlp-traces", "proto")
	for i, b := range small(otlpIDSeeds()) {
		corpusFile(t, "FuzzOTLPTraces", 500+i, b)
	}
	for i, b := range small(append(seedBodies("influx", 4), hostileSeeds("influx")...)) {
		corpusFile(t, "FuzzInflux", i, b, uint8(i%5))
	}
	for i, b := range small(append(seedBodies("cf", 4), hostileSeeds("json")...)) {
		corpusFile(t, "FuzzDatadogCF", i, b, []string{"cloudflare", "", "a b", "\x00"}[i%4])
	}
	for i, b := range small(append(seedBodies("pprof-binary", 4), hostileSeeds("pprof")...)) {
		p := profileParamSeeds[i%len(profileParamSeeds)]
		corpusFile(t, "FuzzProfileBinary", i, b, p[0], p[1], p[2])
	}
	i := 0
	for _, b := range small(seedBodies("pprof-multipart", 4)) {
		mp, _ := gen.Multipart(gz(b), i%2 == 0)
		p := profileParamSeeds[i%len(profileParamSeeds)]
		corpusFile(t, "FuzzProfileMultipart", i, mp, p[0], p[1], p[2])
		i++
	}
	for _, b := range small(hostileSeeds("multipart")) {
		p := profileParamSeeds[i%len(profileParamSeeds)]
		corpusFile(t, "FuzzProfileMultipart", i, b, p[0], p[1], p[2])
		i++
	}
	// handler entry: one hostile request per route
	for ri, rd := range routes {
		body := []byte(`{"streams":[{"stream":{"a":"b"},"values":[]}]}`)
		ct, q := "application/json", ""
		switch rd.svc {
		case "traces":
			body = []byte(`[{"id":"1"}]`)
		case "profile":
			body, ct, q = []byte("\x1f\x8b"), "binary/octet-stream", "from=0&until=0&name={"
		}
		corpusFile(t, "FuzzHandler", ri, uint8(ri), ct, []string{"", "gzip", "snappy"}[ri%3], q, body)
	}
}

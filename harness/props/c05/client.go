package c05

// client.go: clients that do not finish what they started. A case may carry a clientSpec:
// the request is then first sent by a client that aborts (the oracle expects no response
// to it), and afterwards sent completely as before.

import (
	"bytes"
	"fmt"
	"io"
	"net"
	"time"
)

// Abort modes.
const (
	abortHeadersClose    = "headers-close"    // headers (Content-Length of the whole body), then close
	abortPrefixClose     = "prefix-close"     // headers + a prefix of the body, then close
	abortPrefixHalfClose = "prefix-halfclose" // ... then shutdown(SHUT_WR) and wait for the server
	abortChunkedCut      = "chunked-cut"      // chunked transfer encoding, cut in the middle of a chunk
	abortNoRead          = "no-read"          // whole body, then close without reading the response
	abortSlow            = "slow-abort"       // a prefix in small pieces with pauses, then close
)

var abortModes = []string{abortHeadersClose, abortPrefixClose, abortPrefixClose, abortPrefixHalfClose, abortChunkedCut, abortChunkedCut, abortNoRead, abortSlow}

// clientSpec describes the aborting client (plain data).
type clientSpec struct {
	Mode  string `json:"mode"`
	At    int    `json:"at"`              // per mille of the wire body sent before the abort
	Piece int    `json:"piece"`           // write / chunk size in bytes
	Reset bool   `json:"reset,omitempty"` // close with SO_LINGER 0 (RST) instead of FIN
}

// fillSpec makes a large body without a large case: the wire body is
// wrap(Body + Unit x N + Tail).
type fillSpec struct {
	Unit []byte   `json:"unit"`
	N    int      `json:"n"`
	Tail []byte   `json:"tail,omitempty"`
	Wrap []string `json:"wrap,omitempty"` // "gzip", "multipart", "snappy-block", inner to outer
}

func (c reqCase) wireBody() []byte {
	if c.Fill == nil {
		return c.Body
	}
	n := c.Fill.N
	if n < 0 {
		n = 0
	}
	if len(c.Fill.Unit) > 0 && n*len(c.Fill.Unit) > 8<<20 {
		n = (8 << 20) / len(c.Fill.Unit)
	}
	out := make([]byte, 0, len(c.Body)+n*len(c.Fill.Unit)+len(c.Fill.Tail))
	out = append(out, c.Body...)
	out = append(out, bytes.Repeat(c.Fill.Unit, n)...)
	out = append(out, c.Fill.Tail...)
	return (&body{inner: out, wrap: c.Fill.Wrap}).wire()
}

// sendAborting plays the aborting client. It returns what was put on the wire (for the
// report); no response is expected.
func sendAborting(addr string, rq wireReq, cl clientSpec) string {
	conn, err := net.DialTimeout("tcp", addr, 5*time.Second)
	if err != nil {
		return "dial failed: " + err.Error()
	}
	tcp, _ := conn.(*net.TCPConn)
	defer func() {
		if cl.Reset && tcp != nil {
			_ = tcp.SetLinger(0)
		}
		conn.Close()
	}()
	_ = conn.SetDeadline(time.Now().Add(respDeadline))
	at := cl.At
	if at < 0 {
		at = 0
	}
	if at > 1000 {
		at = 1000
	}
	sent := int(int64(len(rq.Body)) * int64(at) / 1000)
	piece := cl.Piece
	if piece < 1 {
		piece = 1
	}
	if piece > 1<<20 {
		piece = 1 << 20
	}
	chunked := cl.Mode == abortChunkedCut
	var hb bytes.Buffer
	fmt.Fprintf(&hb, "%s %s HTTP/1.1\r\nHost: qryn.test\r\n", rq.Method, rq.Target)
	if chunked {
		hb.WriteString("Transfer-Encoding: chunked\r\n")
	} else {
		fmt.Fprintf(&hb, "Content-Length: %d\r\n", len(rq.Body))
	}
	for _, h := range rq.Header {
		fmt.Fprintf(&hb, "%s: %s\r\n", h[0], h[1])
	}
	hb.WriteString("\r\n")
	if _, err := conn.Write(hb.Bytes()); err != nil {
		return "headers not written: " + err.Error()
	}
	switch cl.Mode {
	case abortHeadersClose:
		return "headers only"
	case abortNoRead:
		_, _ = conn.Write(rq.Body)
		return fmt.Sprintf("whole body (%d bytes), response not read", len(rq.Body))
	case abortChunkedCut:
		off := 0
		for off < sent {
			n := piece
			if off+n > len(rq.Body) {
				n = len(rq.Body) - off
			}
			give := n
			if off+give > sent {
				give = sent - off // the chunk header promises n bytes, fewer arrive
			}
			if _, err := fmt.Fprintf(conn, "%x\r\n", n); err != nil {
				break
			}
			if _, err := conn.Write(rq.Body[off : off+give]); err != nil {
				break
			}
			if give == n {
				_, _ = conn.Write([]byte("\r\n"))
			}
			off += give
		}
		return fmt.Sprintf("chunked, cut after %d of %d body bytes (chunks of %d)", sent, len(rq.Body), piece)
	case abortSlow:
		// at most ~40 pauses of 1 ms
		if n := sent / 40; piece < n {
			piece = n
		}
		for off := 0; off < sent; off += piece {
			end := off + piece
			if end > sent {
				end = sent
			}
			if _, err := conn.Write(rq.Body[off:end]); err != nil {
				break
			}
			time.Sleep(time.Millisecond)
		}
		return fmt.Sprintf("%d of %d body bytes in pieces of %d with pauses", sent, len(rq.Body), piece)
	default: // prefix-close, prefix-halfclose
		for off := 0; off < sent; off += piece {
			end := off + piece
			if end > sent {
				end = sent
			}
			if _, err := conn.Write(rq.Body[off:end]); err != nil {
				break
			}
		}
		if cl.Mode == abortPrefixHalfClose && tcp != nil {
			_ = tcp.CloseWrite()
			// the server sees EOF inside the body; whatever it answers is read and dropped
			_, _ = io.Copy(io.Discard, io.LimitReader(conn, 1<<20))
			return fmt.Sprintf("%d of %d body bytes, then half-close", sent, len(rq.Body))
		}
		return fmt.Sprintf("%d of %d body bytes, then close", sent, len(rq.Body))
	}
}

package c09

import (
	"regexp"
	"sort"
	"strconv"
	"strings"

	"pgregory.net/rapid"

	"qrynverif/refeval"
)

// ---- the case -----------------------------------------------------------------------------

type splitCase struct {
	Data []refeval.Series `json:"data"`
	Expr refeval.Expr     `json:"expr"`
	// request parameters as QueryRangeService.prepareOutput receives them: whole seconds
	// for the window (it builds time.Unix(ns/1e9, 0)), step in ms, limit 0 = parameter absent
	// (reader/controller/queryRangeController.go), direction.
	FromS   int64 `json:"from_s"`
	ToS     int64 `json:"to_s"`
	StepMs  int64 `json:"step_ms"`
	Limit   int64 `json:"limit"`
	Forward bool  `json:"forward"`
	// two batchings of the same upstream (sizes of successive channel messages, cyclic;
	// 0 = an empty message) and where the EOF marker travels
	Chunks      []int `json:"chunks"`
	Chunks2     []int `json:"chunks2"`
	EOFSeparate bool  `json:"eof_separate"`
	// ViaSQL: the first run does not plant the scripted upstream; the entries reach the chain as
	// database/sql rows through the real ClickhouseGetterPlanner.Scan (batches of 100). The
	// second run is always planted, with Chunks2.
	ViaSQL bool `json:"via_sql,omitempty"`
}

// ---- pools --------------------------------------------------------------------------------
//
// Small pools so that filters select, groupings merge and the adversarial pairs
// ({a:"bc"} / {ab:"c"}: same concatenation of name+value) occur often.

var (
	streamLabelNames = []string{"app", "env", "job"}
	streamLabelVals  = []string{"x", "y", "web", "db"}
	// keys of generated JSON / logfmt documents; "a"/"ab" + values "bc"/"c" collide under
	// concatenation, "lvl"/"lv" + "l1"/"1" too ("lvl"+"1" == "lv"+"l1")
	docKeys    = []string{"level", "msg", "dur", "a", "ab", "n", "lvl", "lv", "code", "k-x"}
	docStrVals = []string{"info", "error", "bc", "c", "1", "l1", "7", "0", "12.5", "3", "x y", "abc", "q\"uo\\te", "é\n"}
	docNumVals = []string{"0", "1", "2", "5", "7", "10", "12.5", "0.5", "-3", "100"}
	words      = []string{"err", "info", "bc", "a", "1", "x", "=", "\""}
)

func pick(rt *rapid.T, pool []string, label string) string {
	return pool[rapid.IntRange(0, len(pool)-1).Draw(rt, label)]
}

// jsonDoc prints a generated object with keys in generation order.
type kvT struct {
	k    string
	raw  string // raw JSON value text (scalar)
	obj  []kvT  // nested object
	isOb bool   // nested
}

func printDoc(kvs []kvT) string {
	var b strings.Builder
	b.WriteByte('{')
	for i, e := range kvs {
		if i > 0 {
			b.WriteByte(',')
		}
		b.WriteString(strconv.Quote(e.k))
		b.WriteByte(':')
		if e.isOb {
			b.WriteString(printDoc(e.obj))
		} else {
			b.WriteString(e.raw)
		}
	}
	b.WriteByte('}')
	return b.String()
}

func genScalar(rt *rapid.T) string {
	switch rapid.IntRange(0, 9).Draw(rt, "vkind") {
	case 0, 1, 2, 3:
		return strconv.Quote(pick(rt, docStrVals, "sval"))
	case 4, 5, 6:
		return pick(rt, docNumVals, "nval")
	case 7:
		if rapid.Bool().Draw(rt, "b") {
			return "true"
		}
		return "false"
	case 8:
		return "[1,\"z\"]" // arrays are skipped by the extraction
	default:
		return strconv.Quote(pick(rt, docStrVals, "sval"))
	}
}

func genDocKVs(rt *rapid.T, depth int) []kvT {
	n := rapid.IntRange(1, 3).Draw(rt, "nkeys")
	var kvs []kvT
	used := map[string]bool{}
	for i := 0; i < n; i++ {
		k := pick(rt, docKeys, "key")
		if used[k] {
			continue // duplicate keys are a don't-care of their own; keep documents clean
		}
		used[k] = true
		if depth == 0 && rapid.IntRange(0, 7).Draw(rt, "nest") == 0 {
			kvs = append(kvs, kvT{k: k, isOb: true, obj: genDocKVs(rt, 1)})
			continue
		}
		kvs = append(kvs, kvT{k: k, raw: genScalar(rt)})
	}
	return kvs
}

// "template" mode: documents carry unit / total / count; the templates call functions qryn
// registers (internal_planner functionMap: ToUpper, ToLower, Replace, sprig's lower, upper,
// trunc, replace, repeat, contains, hasPrefix, int, add, sub, mul, div, mod ...) and FAIL AT RUN
// TIME for some entries: count 0, non-numeric or missing makes div / mod divide by zero
// (missingkey=zero: a missing field reads as ""), a negative count makes repeat panic.
// Conversions only meet plain integers and plain words (other spellings are converter-dependent).
var (
	tplUnits    = []string{"ms", "s", "MiB"}
	tplTotals   = []string{"10", "7", "100", "-3", "zz"}
	tplCounts   = []string{"0", "2", "5", "none", "-1", "3"}
	fnTemplates = []string{
		`{{.unit}}:{{div (int .total) (int .count)}}`,
		`{{ToUpper .unit}} {{mod (int .total) (int .count)}}`,
		`{{lower .unit}}|{{add (int .total) 1}}`,
		`{{if contains "i" .unit}}I{{else}}o{{end}}-{{div 100 (int .count)}}`,
		`{{trunc 2 .unit}}{{repeat (int .count) "x"}}`,
		`{{replace "s" "5" .unit}}={{mul (int .total) (int .count)}}`,
		`{{Replace .unit "M" "m" 1}}/{{sub (int .total) (int .count)}}`,
		`a{{div 7 (int .count)}}b`,
		`{{if hasPrefix "m" .unit}}{{div (int .total) (int .count)}}{{else}}-{{end}}`,
	}
	// line_format only: the line itself takes part
	fnLineTemplates = []string{
		`{{._entry}} q={{div (int .total) (int .count)}}`,
		`{{div (int .total) (int .count)}}:{{ToLower ._entry}}`,
	}
)

// "regex" mode: line filters |~ / !~ placed after the split whose pattern is a pure literal
// behind flags or escapes, a real regex, or plain text - against lines that contain case
// variants and the literal spellings.
var (
	rxPatterns = []string{
		`(?i)timeout`, `(?i)10\.0\.0\.1`, `\bERR\b`, `(?s)a.b`, `(?i)err`, `(?i)time.ut`, `(?is)a.b`,
		`10\.0\.0\.1`, `10.0.0.1`, `timeout`, `Timeout`, `ERR|WARN`, `time(out)?`, `\d+\.\d+`, `(?i)\bwarn\b`, `a\.b`, `\[x\]`,
	}
	rxWords = []string{
		"timeout", "Timeout", "TIMEOUT", "time out", "at 10.0.0.1", "at 10x0y0z1", "ERR", "ERROR", "an ERR x", "err",
		"a\nb", "a.b", "axb", "A\nB", "warn", "WARN", "WARNING", "[x]", "x", "1.5",
	}
)

// numFamilies: numbers that are equal (or indistinguishable) as float64 and differ as text
var numFamilies = [][]string{
	{"1700000000123456789", "1700000000123456790", "1700000000123456791"},
	{"1.50", "1.5", "1.500"},
	{"1e3", "1E3", "1000", "1000.0"},
	{"1E-2", "0.01", "1e-2"},
	{"-0", "0", "0.0"},
	{"0.10", "0.1"},
	{"100.0", "100", "1e2"},
	{"0.1234567890123456789", "0.1234567890123456788", "3.14159265358979323846264338327950288"},
	{"9007199254740993", "9007199254740992"},
}

// unwrapped values of the "negative" mode
var nonPositive = []string{"-1", "-3", "-7.5", "0", "-10", "-2", "-0.5"}

// values of the label that both the stream and its lines carry in "collide" mode
var collideVals = []string{"unknown", "info", "error", "0"}

// malformed / non-object lines (every one is rejected by encoding/json as an object)
var badJSON = []string{`{"level":"info"`, `{"a":}`, `hello world`, ``, `123`, `"str"`, `[1,2]`, `null`, `{"a":"b",}`}
var badLogfmt = []string{`a="b`, `level=info msg="x`}

// twinDocs: pairs of documents whose extracted label sets differ but have the same
// concatenation of name+value
var twinDocs = [][]kvT{
	{{k: "a", raw: `"bc"`}}, {{k: "ab", raw: `"c"`}},
	{{k: "lvl", raw: `"1"`}}, {{k: "lv", raw: `"l1"`}},
	{{k: "a", raw: `"bc"`}, {k: "n", raw: "1"}}, {{k: "ab", raw: `"c"`}, {k: "n", raw: "1"}},
	{{k: "a", raw: `"bc"`}, {k: "n", raw: "2"}}, {{k: "ab", raw: `"c"`}, {k: "n", raw: "5"}},
}

func genLine(rt *rapid.T, format string, malformed bool) string {
	return genLineMode(rt, format, malformed, false)
}

func genLineMode(rt *rapid.T, format string, malformed, twin bool) string {
	if twin && rapid.IntRange(0, 3).Draw(rt, "twinline") > 0 {
		kvs := twinDocs[rapid.IntRange(0, len(twinDocs)-1).Draw(rt, "twin")]
		if format == "logfmt" {
			var parts []string
			for _, e := range kvs {
				parts = append(parts, e.k+"="+strings.Trim(e.raw, `"`))
			}
			return strings.Join(parts, " ")
		}
		return printDoc(kvs)
	}
	return genLineBody(rt, format, malformed)
}

func genLineBody(rt *rapid.T, format string, malformed bool) string {
	if malformed && rapid.IntRange(0, 9).Draw(rt, "bad") == 0 {
		if format == "logfmt" {
			return pick(rt, badLogfmt, "badline")
		}
		return pick(rt, badJSON, "badline")
	}
	kvs := genDocKVs(rt, 0)
	if format == "logfmt" {
		var parts []string
		for _, e := range kvs {
			if e.isOb {
				continue
			}
			v := e.raw
			if strings.HasPrefix(v, "[") {
				v = "list"
			}
			if strings.HasPrefix(v, `"`) {
				u, _ := strconv.Unquote(v)
				if strings.ContainsAny(u, " \"=") || u == "" {
					v = strconv.Quote(u)
				} else {
					v = u
				}
			}
			parts = append(parts, e.k+"="+v)
		}
		if len(parts) == 0 {
			parts = append(parts, "level=info")
		}
		return strings.Join(parts, " ")
	}
	return printDoc(kvs)
}

// ---- query generator --------------------------------------------------------------------------

func genLabelFilterLeaf(rt *rapid.T, names []string) *refeval.LabelFilter {
	name := pick(rt, names, "flabel")
	if rapid.Bool().Draw(rt, "numeric") {
		op := pick(rt, []string{"==", "!=", ">", ">=", "<", "<="}, "nop")
		return &refeval.LabelFilter{Label: name, Cmp: op, Num: pick(rt, []string{"0", "1", "5", "7", "12.5", "10", "3"}, "num")}
	}
	op := pick(rt, []string{"=", "!=", "=~", "!~"}, "sop")
	var v string
	if op == "=~" || op == "!~" {
		v = pick(rt, []string{"err", "^i", "b?c", "[0-9]+", "^(bc|c)$", "x|y", "l"}, "re")
	} else {
		v = pick(rt, append(append([]string{}, docStrVals...), streamLabelVals...), "sv")
	}
	return &refeval.LabelFilter{Label: name, Cmp: op, Str: &v}
}

func genLabelFilter(rt *rapid.T, names []string, depth int) *refeval.LabelFilter {
	if depth >= 2 || rapid.IntRange(0, 2).Draw(rt, "leaf") > 0 {
		return genLabelFilterLeaf(rt, names)
	}
	return &refeval.LabelFilter{
		Bool: pick(rt, []string{"and", "or"}, "bool"),
		L:    genLabelFilter(rt, names, depth+1),
		R:    genLabelFilter(rt, names, depth+1),
	}
}

func genLineFilter(rt *rapid.T) refeval.Stage {
	op := pick(rt, []string{"|=", "!=", "|~", "!~"}, "lop")
	v := pick(rt, words, "lw")
	if op == "|~" || op == "!~" {
		v = pick(rt, []string{"err", "inf.", "[0-9]{2}", "bc", "^\\{\"a", "level=\\w+"}, "lre")
	}
	return refeval.Stage{Kind: refeval.KLineFilter, Op: op, Val: v}
}

func genTemplate(rt *rapid.T, names []string) string { return genTemplateL(rt, names, true) }

func genTemplateL(rt *rapid.T, names []string, line bool) string {
	n := rapid.IntRange(1, 3).Draw(rt, "tparts")
	var b strings.Builder
	for i := 0; i < n; i++ {
		k := rapid.IntRange(0, 3).Draw(rt, "tkind")
		if k == 1 && !line {
			k = 2
		}
		switch k {
		case 0:
			b.WriteString(pick(rt, []string{"msg=", " ", "-", "level=", "{\"a\":\"bc\"}"}, "tlit"))
		case 1:
			b.WriteString("{{._entry}}")
		default:
			b.WriteString("{{." + pick(rt, names, "tlabel") + "}}")
		}
	}
	return b.String()
}

// label names usable in queries: stream labels and the (sanitised) document keys
var allLabelNames = func() []string {
	out := append([]string{}, streamLabelNames...)
	for _, k := range docKeys {
		out = append(out, strings.NewReplacer("-", "_", ".", "_").Replace(k))
	}
	return out
}()

// genPostStage draws one stage the in-process engine implements.
func genPostStage(rt *rapid.T, opt genOpts) refeval.Stage {
	switch rapid.IntRange(0, 11).Draw(rt, "stage") {
	case 0, 1:
		return genLineFilter(rt)
	case 2, 3, 4:
		return refeval.Stage{Kind: refeval.KLabelFilter, Filter: genLabelFilter(rt, allLabelNames, 0)}
	case 5, 6:
		n := rapid.IntRange(1, 2).Draw(rt, "nlf")
		var ps []refeval.Param
		for i := 0; i < n; i++ {
			dst := pick(rt, []string{"level", "a", "ab", "out", "app", "lvl"}, "dst")
			if rapid.Bool().Draw(rt, "const") {
				v := pick(rt, []string{"k", "bc", "c", "info", "1"}, "cval")
				if opt.labelFormatTemplates && rapid.IntRange(0, 3).Draw(rt, "ltpl") == 0 {
					v = genTemplateL(rt, allLabelNames, false)
				}
				ps = append(ps, refeval.Param{Name: dst, Val: v, HasVal: true})
			} else {
				ps = append(ps, refeval.Param{Name: dst, Src: pick(rt, allLabelNames, "src")})
			}
		}
		return refeval.Stage{Kind: refeval.KLabelFormat, Params: ps}
	case 7, 8:
		if rapid.Bool().Draw(rt, "drop_repeated") {
			if opt.hot != "" && rapid.IntRange(0, 2).Draw(rt, "drop_hot") > 0 {
				return genDropRepeatedOf(rt, opt.hot, opt.hotVals)
			}
			return genDropRepeated(rt, []string{"level", "level", "a", "lvl", "code", "app", "env"})
		}
		n := rapid.IntRange(1, 2).Draw(rt, "ndrop")
		var ps []refeval.Param
		for i := 0; i < n; i++ {
			p := refeval.Param{Name: pick(rt, allLabelNames, "dname")}
			if rapid.IntRange(0, 2).Draw(rt, "dval") == 0 {
				p.HasVal = true
				p.Val = pick(rt, docStrVals, "dv")
			}
			ps = append(ps, p)
		}
		return refeval.Stage{Kind: refeval.KDrop, Params: ps}
	case 9:
		return refeval.Stage{Kind: refeval.KLineFormat, Val: genTemplate(rt, allLabelNames)}
	case 10:
		return refeval.Stage{Kind: pick(rt, []string{refeval.KJSON, refeval.KLogfmt}, "reparse")}
	default:
		return refeval.Stage{Kind: refeval.KJSON, Params: []refeval.Param{{
			Name: pick(rt, []string{"p", "level", "q"}, "jp"),
			Val:  pick(rt, []string{"level", "msg", "a", "dur", "a.level", "n"}, "jpath"),
		}}}
	}
}

type genOpts struct {
	// a label most entries carry at the in-process stages (the colliding label of "collide"
	// mode, else app) and the values it takes: repeated-name drops aim at it 2 times in 3
	hot     string
	hotVals []string
	// regions of known findings, excluded by construction unless the flag is set
	labelFormatTemplates bool
}

var durations = []struct {
	n    int64
	unit string
}{{1, "s"}, {2, "s"}, {5, "s"}, {10, "s"}, {1, "m"}, {30, "s"}, {15, "s"}, {7, "s"}, {2, "s"}, {5, "s"}}

func genGrouping(rt *rapid.T) *refeval.Grouping {
	n := rapid.IntRange(1, 2).Draw(rt, "ngl")
	seen := map[string]bool{}
	g := &refeval.Grouping{Without: rapid.Bool().Draw(rt, "without"), Suffix: rapid.Bool().Draw(rt, "suffix")}
	for i := 0; i < n; i++ {
		l := pick(rt, []string{"app", "env", "level", "a", "ab", "dur", "lvl", "lv", "n"}, "gl")
		if !seen[l] {
			seen[l] = true
			g.Labels = append(g.Labels, l)
		}
	}
	return g
}

func genComparison(rt *rapid.T) *refeval.Comparison {
	return &refeval.Comparison{
		Op:  pick(rt, []string{"==", "!=", ">", ">=", "<", "<="}, "cop"),
		Val: pick(rt, []string{"0", "1", "2", "0.5", "3", "7", "10"}, "cval"),
	}
}

func genCase(rt *rapid.T) splitCase {
	return genCaseOpt(rt, genOpts{labelFormatTemplates: true})
}

func genCaseOpt(rt *rapid.T, opt genOpts) splitCase {
	var c splitCase
	shape := rapid.IntRange(0, 5).Draw(rt, "shape")
	ulabel := ""
	if shape >= 4 {
		ulabel = pick(rt, []string{"dur", "n", "n", "code", "level"}, "ulabel")
	}
	// unwrap queries, 1 in 3: all unwrapped values are negative or zero and the range aggregation
	// sits under a vector min / max by (app) - groups whose extreme is not positive
	negMode := shape >= 4 && rapid.IntRange(0, 2).Draw(rt, "negmode") == 0
	format := pick(rt, []string{"json", "json", "logfmt"}, "format")
	malformed := rapid.IntRange(0, 4).Draw(rt, "malformed") == 0
	twin := rapid.IntRange(0, 3).Draw(rt, "twinmode") == 0
	// "collide" mode (1 case in 4): every stream already has a label whose NAME is a key of
	// the documents (level / lvl / code), and most lines carry that key with a value that
	// differs from - sometimes equals - the stored one. Extraction then changes a label's
	// value without changing the number of labels. qryn (both engines) overwrites the stored
	// label (Loki would add <name>_extracted; refeval follows qryn and records the deviation);
	// whatever the convention, lines {"level":"info"} and {"level":"error"} of one stream are
	// two label sets and must be two series. In two thirds of these cases the query stays
	// "plain": no later drop / label_format / by / without that would recompute identities.
	// A third of the cases go through the real ClickhouseGetterPlanner.Scan (scripted entries
	// handed over as database/sql rows); a third of those carry enough rows for several batches
	// of 100. "lfFirst" pipelines (half of the via-SQL cases, an eighth of the others) have NO
	// parser in front of their first label-editing stage: the split is forced by line_format,
	// then come non-idempotent / self-referential label_format, drop, by / without - stages that
	// edit the label map the getter handed over in place.
	c.ViaSQL = rapid.IntRange(0, 2).Draw(rt, "via_sql") == 0
	big := c.ViaSQL && rapid.IntRange(0, 2).Draw(rt, "big") == 0
	lfFirst := false
	if c.ViaSQL {
		lfFirst = rapid.Bool().Draw(rt, "lf_first")
	} else {
		lfFirst = rapid.IntRange(0, 7).Draw(rt, "lf_first") == 0
	}
	if lfFirst && shape >= 4 {
		shape, ulabel, negMode = 3, "", false
	}
	tmplMode := !lfFirst && rapid.IntRange(0, 4).Draw(rt, "tmplmode") == 0
	rxMode := !lfFirst && !tmplMode && rapid.IntRange(0, 4).Draw(rt, "rxmode") == 0
	rxPat, rxFamily := "", rxWords
	if rxMode {
		rxPat = pick(rt, rxPatterns, "rx_pat")
		// lines mostly speak about what the pattern is about, in several spellings
		low := strings.ToLower(rxPat)
		switch {
		case strings.Contains(low, "time"):
			rxFamily = []string{"timeout", "Timeout", "TIMEOUT", "time out", "timeXut", "a TimeOut b"}
		case strings.Contains(low, "10"):
			rxFamily = []string{"at 10.0.0.1", "at 10x0y0z1", "10.0.0.1", "110.0.0.12", "10.0.0"}
		case strings.Contains(low, "err"), strings.Contains(low, "warn"):
			rxFamily = []string{"ERR", "ERROR", "an ERR x", "err", "Err:", "warn", "WARN", "WARNING", "a Warn b"}
		case strings.Contains(low, "a.b"), strings.Contains(low, "a\\.b"):
			rxFamily = []string{"a\nb", "a.b", "axb", "A\nB", "A.B", "ab"}
		}
	}
	collide := !lfFirst && !tmplMode && rapid.IntRange(0, 3).Draw(rt, "collidemode") == 0
	// "number text" mode (1 case in 3 of what is left): 3 lines in 4 carry the key "id" with a
	// NUMBER whose text matters: integers above 2^53 differing in the last digit, 1.50 / 1.5,
	// 1e3 / 1E3 / 1000, 1E-2 / 0.01, -0 / 0, 0.10 / 0.1, 100.0 / 100, long decimals. LogQL (and
	// qryn's SQL engine through JSONExtractRaw) keep the number's text as the label value; the
	// query groups by id and filters on it as a string.
	numMode := !lfFirst && !tmplMode && !rxMode && !collide && rapid.IntRange(0, 2).Draw(rt, "nummode") == 0
	var numTexts []string
	if numMode {
		nf := rapid.IntRange(1, 2).Draw(rt, "num_families")
		for i := 0; i < nf; i++ {
			numTexts = append(numTexts, numFamilies[rapid.IntRange(0, len(numFamilies)-1).Draw(rt, "num_family")]...)
		}
	}
	collideName := ""
	plain := false
	if collide {
		collideName = pick(rt, []string{"level", "level", "lvl", "code"}, "collide_name")
		plain = rapid.IntRange(0, 2).Draw(rt, "collide_plain") > 0
		if plain && shape >= 4 {
			shape, ulabel, negMode = 2, "", false
		}
	}

	// window: whole seconds; base far from 0 so that bucket arithmetic is exercised
	c.FromS = 1700000000 + int64(rapid.IntRange(0, 70).Draw(rt, "from_off"))
	c.ToS = c.FromS + int64(pick2(rt, []int{1, 2, 3, 5, 8, 13, 20, 40}, "span"))
	c.Forward = rapid.Bool().Draw(rt, "forward")

	// streams with distinct label sets
	ns := rapid.IntRange(1, 4).Draw(rt, "nstreams")
	seenSets := map[string]bool{}
	for s := 0; s < ns; s++ {
		lbl := map[string]string{}
		nl := rapid.IntRange(1, 2).Draw(rt, "nlabels")
		for i := 0; i < nl; i++ {
			lbl[streamLabelNames[i]] = pick(rt, streamLabelVals, "slv")
		}
		if collide {
			lbl[collideName] = pick(rt, collideVals, "collide_stored")
		}
		k := refeval.LabelsKey(lbl)
		if seenSets[k] {
			continue
		}
		seenSets[k] = true
		ser := refeval.Series{Labels: lbl}
		ne := rapid.IntRange(1, 8).Draw(rt, "nentries")
		if big {
			ne = rapid.IntRange(50, 110).Draw(rt, "nentries_big")
		}
		for i := 0; i < ne; i++ {
			// mostly inside the window, some just outside, ms resolution plus a few ns
			off := int64(rapid.IntRange(-1500, int((c.ToS-c.FromS)*1000)+1500).Draw(rt, "ts_ms"))
			ts := c.FromS*1e9 + off*1e6 + int64(rapid.IntRange(0, 1).Draw(rt, "ts_ns"))
			line := genLineMode(rt, format, malformed, twin)
			if collide {
				v := pick(rt, collideVals, "collide_val") // the pool is small: equal to the stored value 1 time in 4
				switch rapid.IntRange(0, 3).Draw(rt, "collide_line") {
				case 0, 1: // the colliding key alone: the label count stays what it was
					if format == "logfmt" {
						line = collideName + "=" + v
					} else {
						line = "{" + strconv.Quote(collideName) + ":" + strconv.Quote(v) + "}"
					}
				case 2: // next to other keys
					line = withNumber(line, format, collideName, strconv.Quote(v))
					if format == "logfmt" {
						line = strings.ReplaceAll(line, collideName+"=\""+v+"\"", collideName+"="+v)
					}
				}
			}
			if tmplMode {
				line = tmplLine(rt, format)
			}
			if numMode && rapid.IntRange(0, 3).Draw(rt, "num_line") > 0 {
				line = withNumber(line, format, "id", pick(rt, numTexts, "num_text"))
			}
			if rxMode && rapid.IntRange(0, 3).Draw(rt, "rxline") > 0 {
				w := pick(rt, rxFamily, "rxword")
				if rapid.IntRange(0, 3).Draw(rt, "rxother") == 0 {
					w = pick(rt, rxWords, "rxword2")
				}
				if format == "logfmt" {
					line = "msg=" + strconv.Quote(w) + " level=info"
				} else {
					line = `{"msg":` + strconv.Quote(w) + `,"level":"info"}`
				}
			}
			if negMode {
				// every line carries a value <= 0 under the unwrapped key
				line = withNumber(line, format, ulabel, pick(rt, nonPositive, "uneg"))
			}
			if ulabel != "" && rapid.IntRange(0, 3).Draw(rt, "uval") > 0 {
				// an unwrap query: most lines carry a number under the unwrapped key
				line = withNumber(line, format, ulabel, pick(rt, docNumVals, "unum"))
			}
			ser.Entries = append(ser.Entries, refeval.Entry{TsNs: ts, Line: line})
		}
		c.Data = append(c.Data, ser)
	}

	// query: {selector} pre-stages | breaker | post-stages
	first := c.Data[0].Labels
	var names []string
	for k := range first {
		names = append(names, k)
	}
	sort.Strings(names)
	mname := names[0]
	switch rapid.IntRange(0, 2).Draw(rt, "matcher") {
	case 0:
		c.Expr.Matchers = []refeval.Matcher{{Name: mname, Op: "=", Val: first[mname]}}
	case 1:
		c.Expr.Matchers = []refeval.Matcher{{Name: mname, Op: "=~", Val: ".+"}}
	default:
		c.Expr.Matchers = []refeval.Matcher{{Name: mname, Op: "!=", Val: "nope"}}
	}
	npre := rapid.IntRange(0, 3).Draw(rt, "npre") / 3
	for i := 0; i < npre; i++ {
		if rapid.Bool().Draw(rt, "pre_line") {
			c.Expr.Stages = append(c.Expr.Stages, genLineFilter(rt))
		} else {
			c.Expr.Stages = append(c.Expr.Stages, refeval.Stage{Kind: refeval.KLabelFilter, Filter: genLabelFilter(rt, streamLabelNames, 1)})
		}
	}
	switch rapid.IntRange(0, 7).Draw(rt, "breaker") {
	case 0:
		c.Expr.Stages = append(c.Expr.Stages, refeval.Stage{Kind: refeval.KLineFormat, Val: genTemplate(rt, streamLabelNames)})
	case 1:
		other := refeval.KLogfmt
		if format == "logfmt" {
			other = refeval.KJSON
		}
		c.Expr.Stages = append(c.Expr.Stages, refeval.Stage{Kind: other})
	default:
		c.Expr.Stages = append(c.Expr.Stages, refeval.Stage{Kind: format})
	}
	if tmplMode {
		// the parser of the data's format, then a template stage with function calls
		c.Expr.Stages[len(c.Expr.Stages)-1] = refeval.Stage{Kind: format}
		if rapid.Bool().Draw(rt, "tmpl_line") {
			t := pick(rt, append(append([]string{}, fnTemplates...), fnLineTemplates...), "fn_tpl")
			c.Expr.Stages = append(c.Expr.Stages, refeval.Stage{Kind: refeval.KLineFormat, Val: t})
		} else {
			dst := pick(rt, []string{"out", "unit", "total"}, "fn_dst")
			c.Expr.Stages = append(c.Expr.Stages, refeval.Stage{Kind: refeval.KLabelFormat,
				Params: []refeval.Param{{Name: dst, Val: pick(rt, fnTemplates, "fn_tpl"), HasVal: true}}})
		}
	}
	if rxMode {
		op := pick(rt, []string{"|~", "|~", "!~"}, "rx_op")
		st := refeval.Stage{Kind: refeval.KLineFilter, Op: op, Val: rxPat}
		switch rapid.IntRange(0, 3).Draw(rt, "rx_pos") {
		case 0: // the line becomes the message itself (real newlines, no JSON escapes)
			c.Expr.Stages[len(c.Expr.Stages)-1] = refeval.Stage{Kind: format}
			c.Expr.Stages = append(c.Expr.Stages, refeval.Stage{Kind: refeval.KLineFormat, Val: "{{.msg}}"}, st)
		case 1: // behind another in-process stage
			c.Expr.Stages = append(c.Expr.Stages, refeval.Stage{Kind: refeval.KLabelFilter, Filter: genLabelFilterLeaf(rt, []string{"app", "level"})}, st)
		default: // right behind the split-forcing stage
			c.Expr.Stages = append(c.Expr.Stages, st)
		}
	}
	if lfFirst {
		c.Expr.Stages[len(c.Expr.Stages)-1] = refeval.Stage{Kind: refeval.KLineFormat, Val: genTemplate(rt, streamLabelNames)}
		n := rapid.IntRange(1, 3).Draw(rt, "lf_nedit")
		for i := 0; i < n; i++ {
			c.Expr.Stages = append(c.Expr.Stages, genLabelEdit(rt))
		}
	}
	npost := rapid.IntRange(0, 3).Draw(rt, "npost")
	if lfFirst {
		npost = 0
	}
	if negMode && npost > 1 {
		npost = 1
	}
	if numMode {
		// a string comparison on the number's text, or the same key once more through json
		// with a parameter (in-process as well: it follows the split)
		switch rapid.IntRange(0, 3).Draw(rt, "num_stage") {
		case 0, 1:
			v := pick(rt, numTexts, "num_fval")
			op := pick(rt, []string{"=", "!=", "=", "=~"}, "num_fop")
			if op == "=~" {
				v = "^" + regexp.QuoteMeta(v) + "$"
			}
			c.Expr.Stages = append(c.Expr.Stages, refeval.Stage{Kind: refeval.KLabelFilter, Filter: &refeval.LabelFilter{Label: "id", Cmp: op, Str: &v}})
		case 2:
			if format == "json" {
				c.Expr.Stages = append(c.Expr.Stages, refeval.Stage{Kind: refeval.KJSON, Params: []refeval.Param{{Name: "idp", Val: "id"}}})
			}
		}
	}
	opt.hot, opt.hotVals = "app", dropValues["app"]
	if collide {
		opt.hot, opt.hotVals = collideName, collideVals
	}
	for i := 0; i < npost; i++ {
		st := genPostStage(rt, opt)
		if plain && st.Kind != refeval.KLineFilter && st.Kind != refeval.KLabelFilter {
			continue
		}
		c.Expr.Stages = append(c.Expr.Stages, st)
	}

	// `| json != "x"` is read by qryn's grammar as a label filter on a label named json
	// (see predSplit): keep the generator out of that corner
	for i := 1; i < len(c.Expr.Stages); i++ {
		prev, cur := c.Expr.Stages[i-1], &c.Expr.Stages[i]
		if (prev.Kind == refeval.KJSON || prev.Kind == refeval.KLogfmt) && len(prev.Params) == 0 && cur.Kind == refeval.KLineFilter {
			if cur.Op == "!=" {
				cur.Op = "|="
			} else if cur.Op == "!~" {
				cur.Op = "|~"
			}
		}
	}

	// metric part
	switch shape {
	case 0, 1: // log query
	case 2, 3: // log range aggregation
		c.Expr.RangeFn = pick(rt, []string{"rate", "count_over_time", "bytes_rate", "bytes_over_time"}, "lra")
	default: // unwrap
		c.Expr.Stages = append(c.Expr.Stages, refeval.Stage{Kind: refeval.KUnwrap, Label: ulabel})
		c.Expr.RangeFn = pick(rt, []string{"rate", "sum_over_time", "avg_over_time", "min_over_time", "max_over_time",
			"first_over_time", "last_over_time", "stddev_over_time", "stdvar_over_time"}, "ufn")
		// qryn keeps the unwrapped label in the series' labels: without a grouping that
		// removes it every distinct value is a series of its own
		switch rapid.IntRange(0, 5).Draw(rt, "ugroup") {
		case 0, 1, 2:
			// (the other extracted labels differ from line to line: only "by" merges much)
			c.Expr.RangeGroup = &refeval.Grouping{Labels: []string{"app"}, Suffix: rapid.Bool().Draw(rt, "usuffix")}
		case 3:
			c.Expr.RangeGroup = &refeval.Grouping{Without: true, Labels: []string{ulabel}, Suffix: rapid.Bool().Draw(rt, "usuffix")}
		case 4:
			c.Expr.RangeGroup = genGrouping(rt)
		}
	}
	if c.Expr.RangeFn != "" {
		d := durations[rapid.IntRange(0, len(durations)-1).Draw(rt, "range")]
		c.Expr.RangeN, c.Expr.RangeUnit = d.n, d.unit
		if rapid.IntRange(0, 3).Draw(rt, "rcmp") == 0 {
			c.Expr.RangeCmp = genComparison(rt)
		}
		if negMode && shape >= 4 {
			c.Expr.RangeFn = pick(rt, []string{"sum_over_time", "min_over_time", "max_over_time", "avg_over_time", "last_over_time", "first_over_time"}, "neg_fn")
			c.Expr.RangeCmp = nil
			// inner series must stay several per app: group the range aggregation only by
			// removing the unwrapped label (the other extracted labels differ from line to line)
			c.Expr.RangeGroup = &refeval.Grouping{Without: true, Labels: []string{ulabel}, Suffix: rapid.Bool().Draw(rt, "neg_rsuffix")}
			c.Expr.AggFn = pick(rt, []string{"min", "max"}, "neg_agg")
			c.Expr.AggGroup = &refeval.Grouping{Labels: []string{"app"}, Suffix: rapid.Bool().Draw(rt, "neg_suffix")}
			if rapid.IntRange(0, 2).Draw(rt, "neg_without") == 0 {
				c.Expr.AggGroup = &refeval.Grouping{Without: true, Labels: []string{ulabel, "msg", "level"}}
			}
		} else if rapid.IntRange(0, 1).Draw(rt, "agg") == 0 && !plain {
			c.Expr.AggFn = pick(rt, []string{"sum", "min", "max", "avg", "count"}, "aggfn")
			if rapid.IntRange(0, 4).Draw(rt, "agroup") > 0 {
				c.Expr.AggGroup = genGrouping(rt)
			}
			if rapid.IntRange(0, 3).Draw(rt, "acmp") == 0 {
				c.Expr.AggCmp = genComparison(rt)
			}
		}
		if numMode {
			by := []string{"id"}
			if rapid.Bool().Draw(rt, "num_by_app") {
				by = append(by, "app")
			}
			if c.Expr.AggFn != "" && rapid.IntRange(0, 2).Draw(rt, "num_agroup") > 0 {
				c.Expr.AggGroup = &refeval.Grouping{Labels: by, Suffix: rapid.Bool().Draw(rt, "num_suffix")}
			}
			if shape >= 4 && !negMode && rapid.Bool().Draw(rt, "num_rgroup") {
				c.Expr.RangeGroup = &refeval.Grouping{Labels: by, Suffix: rapid.Bool().Draw(rt, "num_rsuffix")}
			}
		}
		// step <= range (larger steps: the engines' conventions are not settled, see NOTES)
		rng := c.Expr.RangeNs() / 1e6
		steps := []int64{rng, rng / 2, 1000, 500, rng / 5}
		st := steps[rapid.IntRange(0, len(steps)-1).Draw(rt, "step")]
		if st <= 0 {
			st = rng
		}
		c.StepMs = st
	} else {
		c.StepMs = 1000
		c.Limit = int64(pick2(rt, []int{0, 0, 1, 2, 3, 5, 100, 1000}, "limit"))
	}

	c.Chunks = genChunks(rt, "chunks")
	c.Chunks2 = genChunks(rt, "chunks2")
	c.EOFSeparate = rapid.Bool().Draw(rt, "eof_separate")
	return c
}

func pick2(rt *rapid.T, pool []int, label string) int {
	return pool[rapid.IntRange(0, len(pool)-1).Draw(rt, label)]
}

func genChunks(rt *rapid.T, label string) []int {
	switch rapid.IntRange(0, 3).Draw(rt, label+"_kind") {
	case 0:
		return []int{100} // the real getter's batching
	case 1:
		return []int{1}
	default:
		n := rapid.IntRange(1, 4).Draw(rt, label+"_n")
		out := make([]int, n)
		for i := range out {
			out[i] = rapid.IntRange(0, 4).Draw(rt, label+"_sz")
		}
		// an all-zero script would never make progress
		sum := 0
		for _, x := range out {
			sum += x
		}
		if sum == 0 {
			out = append(out, 2)
		}
		return out
	}
}

// withNumber puts key=num into a generated line (json object or logfmt); lines that are not
// of that form are left alone.
func withNumber(line, format, key, num string) string {
	if format == "logfmt" {
		if strings.Contains(line, key+"=") || strings.Contains(line, `"`) {
			return line
		}
		return line + " " + key + "=" + num
	}
	if !strings.HasPrefix(line, "{") || !strings.HasSuffix(line, "}") || strings.Contains(line, strconv.Quote(key)+":") {
		return line
	}
	if line == "{}" {
		return "{" + strconv.Quote(key) + ":" + num + "}"
	}
	return line[:len(line)-1] + "," + strconv.Quote(key) + ":" + num + "}"
}

// tmplLine prints a document with unit / total / count (count missing 1 time in 5).
func tmplLine(rt *rapid.T, format string) string {
	unit, total := pick(rt, tplUnits, "t_unit"), pick(rt, tplTotals, "t_total")
	kvs := []kvT{{k: "unit", raw: strconv.Quote(unit)}, {k: "total", raw: numOrStr(total)}}
	if rapid.IntRange(0, 4).Draw(rt, "t_nocount") > 0 {
		kvs = append(kvs, kvT{k: "count", raw: numOrStr(pick(rt, tplCounts, "t_count"))})
	}
	if format == "logfmt" {
		var parts []string
		for _, e := range kvs {
			parts = append(parts, e.k+"="+strings.Trim(e.raw, `"`))
		}
		return strings.Join(parts, " ")
	}
	return printDoc(kvs)
}

func numOrStr(v string) string {
	if _, err := strconv.Atoi(v); err == nil {
		return v
	}
	return strconv.Quote(v)
}

// genLabelEdit draws a stage that works on the labels the getter delivered, with no parser in
// between: label_format whose template reads the label it writes (applied twice it would give
// another value), plain copies, drop, or a filter on stream labels.
func genLabelEdit(rt *rapid.T) refeval.Stage {
	switch rapid.IntRange(0, 7).Draw(rt, "edit") {
	case 0, 1, 2:
		p := []refeval.Param{
			{Name: "app", Val: "{{.app}}.example.org", HasVal: true},
			{Name: "env", Val: "{{.env}}-{{.app}}", HasVal: true},
			{Name: "app", Val: "{{ToUpper .app}}x", HasVal: true},
			{Name: "app", Val: "a{{.app}}", HasVal: true},
			{Name: "host", Val: "{{.app}}.{{.env}}.example.org", HasVal: true},
			{Name: "env", Val: "{{.app}}{{.env}}{{.app}}", HasVal: true},
		}[rapid.IntRange(0, 5).Draw(rt, "edit_tpl")]
		return refeval.Stage{Kind: refeval.KLabelFormat, Params: []refeval.Param{p}}
	case 3:
		p := []refeval.Param{{Name: "app", Src: "env"}, {Name: "out", Src: "app"}, {Name: "env", Src: "app"}}[rapid.IntRange(0, 2).Draw(rt, "edit_copy")]
		return refeval.Stage{Kind: refeval.KLabelFormat, Params: []refeval.Param{p}}
	case 4, 5:
		if rapid.Bool().Draw(rt, "edit_drop_repeated") {
			return genDropRepeated(rt, []string{"app", "env", "env"})
		}
		p := refeval.Param{Name: pick(rt, []string{"env", "app", "job"}, "edit_drop")}
		if rapid.IntRange(0, 2).Draw(rt, "edit_dropval") == 0 {
			p.HasVal, p.Val = true, pick(rt, streamLabelVals, "edit_dropv")
		}
		return refeval.Stage{Kind: refeval.KDrop, Params: []refeval.Param{p}}
	case 6:
		return refeval.Stage{Kind: refeval.KLabelFilter, Filter: genLabelFilterLeaf(rt, []string{"app", "env"})}
	default:
		return genLineFilter(rt)
	}
}

// dropValues: what the labels take in the data (and one value nothing takes)
var dropValues = map[string][]string{
	"level": {"info", "error", "unknown", "debug"},
	"a":     {"bc", "c", "info", "zz"},
	"lvl":   {"1", "l1", "0", "zz"},
	"code":  {"1", "7", "0", "error"},
	"app":   {"x", "y", "web", "db"},
	"env":   {"x", "db", "web", "zz"},
}

// genDropRepeated draws a drop stage that names one label more than once: several values,
// bare + valued (either order), an exact duplicate, optionally mixed with another label.
// LogQL and qryn's SQL engine (mapFilter over every listed pair) honour each pair.
func genDropRepeated(rt *rapid.T, names []string) refeval.Stage {
	l := pick(rt, names, "dr_name")
	return genDropRepeatedOf(rt, l, dropValues[l])
}

func genDropRepeatedOf(rt *rapid.T, l string, vals []string) refeval.Stage {
	v1 := pick(rt, vals, "dr_v1")
	v2 := pick(rt, vals, "dr_v2")
	val := func(v string) refeval.Param { return refeval.Param{Name: l, Val: v, HasVal: true} }
	var ps []refeval.Param
	switch rapid.IntRange(0, 5).Draw(rt, "dr_form") {
	case 0, 1:
		ps = []refeval.Param{val(v1), val(v2)}
	case 2:
		ps = []refeval.Param{{Name: l}, val(v1)}
	case 3:
		ps = []refeval.Param{val(v1), {Name: l}}
	case 4:
		ps = []refeval.Param{val(v1), val(v1)}
	default:
		ps = []refeval.Param{val(v1), val(v2), val(pick(rt, vals, "dr_v3"))}
	}
	if rapid.IntRange(0, 2).Draw(rt, "dr_mixed") == 0 {
		other := refeval.Param{Name: pick(rt, []string{"env", "msg", "n", "app"}, "dr_other")}
		at := rapid.IntRange(0, len(ps)).Draw(rt, "dr_at")
		ps = append(ps[:at], append([]refeval.Param{other}, ps[at:]...)...)
	}
	return refeval.Stage{Kind: refeval.KDrop, Params: ps}
}

package c09

import (
	"encoding/json"
	"fmt"
	"os"
	"path/filepath"
	"regexp"
	"regexp/syntax"
	"sort"
	"strconv"
	"strings"

	"github.com/metrico/qryn/reader/logql/logql_transpiler_v2/shared"

	"qrynverif/evid"
	"qrynverif/refeval"
)

// ---- C09: the in-process engine computes what LogQL defines ------------------------------------
//
// Domain: a small database of streams, a query whose pipeline contains a stage ClickHouse
// cannot run (json / logfmt without parameters, line_format) followed by stages the
// in-process engine implements, request parameters, and two batchings of the upstream.
// The query is planned by qryn's real logql_transpiler_v2.Plan; the ClickHouse getter at the
// bottom of the planned chain is replaced by a scripted upstream that emits what the SQL part
// (selector + stages before the split) selects - computed by refeval, the property of the
// SQL part being C07's - and the chain's output channel is read the way the HTTP layer does.
// Oracle: refeval on the same data (LogQL definition with qryn's documented conventions).
// Metamorphic: both batchings give the same result.

// splitIndex is the position of the first stage that forces the split, from the definition
// in the property: json / logfmt without parameters(*) or line_format.
// (*) qryn splits on every logfmt, with or without parameters (planner.go GetBreakpoint).
func splitIndex(e *refeval.Expr) int {
	for i, s := range e.Stages {
		switch s.Kind {
		case refeval.KJSON:
			if len(s.Params) == 0 {
				return i
			}
		case refeval.KLogfmt, refeval.KLineFormat:
			return i
		}
	}
	return -1
}

func chunkClass(ch []int) string {
	if len(ch) == 1 && ch[0] == 100 {
		return "getter-100"
	}
	for _, n := range ch {
		if n == 0 {
			return "with-empty-batches"
		}
	}
	if len(ch) == 1 && ch[0] == 1 {
		return "single-entry"
	}
	return "irregular"
}

// concatTwins says whether two different label sets in rows have the same multiset of
// name+value concatenations (the adversarial pairs of the property).
func concatTwins(rows []refeval.Row) bool {
	seen := map[string]string{}
	for _, r := range rows {
		var parts []string
		for k, v := range r.Labels {
			parts = append(parts, k+v)
		}
		sort.Strings(parts)
		sig := strings.Join(parts, "\x00")
		key := refeval.LabelsKey(r.Labels)
		if other, ok := seen[sig]; ok && other != key {
			return true
		}
		seen[sig] = key
	}
	return false
}

func distinctSets(rows []refeval.Row) int {
	m := map[string]bool{}
	for _, r := range rows {
		m[refeval.LabelsKey(r.Labels)] = true
	}
	return len(m)
}

// walWitness logs a witness case to the runner's write-ahead file before it is replayed: a
// panic inside an in-process stage runs in a goroutine qryn started and kills the process, and
// the runner logs only campaign cases. With the record in place the driver re-runs the witness
// in a fresh process and reports the crash as a violation instead of "inconclusive".
func walWitness(c splitCase) {
	out := os.Getenv("VERIF_OUT")
	if out == "" {
		return
	}
	shard := os.Getenv("VERIF_SHARD")
	if shard == "" {
		shard = "0"
	}
	raw, err := json.Marshal(c)
	if err != nil {
		return
	}
	rec, _ := json.Marshal(map[string]any{"property": "C09", "check": "split", "case": json.RawMessage(raw)})
	_ = os.MkdirAll(out, 0o755)
	_ = os.WriteFile(filepath.Join(out, "C09."+shard+".wal"), append(rec, '\n'), 0o644)
}

func predSplit(c splitCase, o *evid.Obs) error {
	if o.Witness {
		walWitness(c)
	}
	e := &c.Expr
	query := e.String()
	split := splitIndex(e)
	if split < 0 {
		o.Discard("no-breaker-stage")
		return nil
	}
	for i := 1; i < len(e.Stages); i++ {
		// qryn's grammar reads `| json != "x"` as a label filter on a label called "json"
		// (the keyword is also a legal label name and the label-filter alternative is tried
		// first); this affects both engines alike and is not this property's subject
		prev, cur := e.Stages[i-1], e.Stages[i]
		if (prev.Kind == refeval.KJSON || prev.Kind == refeval.KLogfmt) && len(prev.Params) == 0 &&
			cur.Kind == refeval.KLineFilter && (cur.Op == "!=" || cur.Op == "!~") {
			o.Discard("keyword-read-as-label-name")
			return nil
		}
	}
	if c.ToS <= c.FromS || c.StepMs <= 0 {
		o.Discard("bad-window")
		return nil
	}
	pre, breaker := e.Stages[:split], e.Stages[split]

	// fingerprints the SQL side would deliver: the stream's stored fingerprint (any
	// non-zero number, distinct per stream)
	fps := make([]uint64, len(c.Data))
	for i := range fps {
		fps[i] = 0x9e3779b97f4a7c15*uint64(i+1) | 1
	}
	var upFlags refeval.Flags
	upstreamOf := func(pre []refeval.Stage) func(fromNs, toNs int64, asc bool) []refeval.Row {
		return func(fromNs, toNs int64, asc bool) []refeval.Row {
			rows, err := refeval.Select(c.Data, e.Matchers, fromNs, toNs, &upFlags)
			if err != nil {
				return nil
			}
			refeval.SortRows(rows, asc)
			rows, err = refeval.RunStages(pre, rows, &upFlags)
			if err != nil {
				return nil
			}
			return rows
		}
	}
	upstream := upstreamOf(pre)
	mkUpOf := func(up func(int64, int64, bool) []refeval.Row, chunks []int) *fakeUpstream {
		return &fakeUpstream{
			rows:        func(f, t int64, asc bool) []shared.LogEntry { return upstreamRows(up(f, t, asc), fps) },
			chunks:      chunks,
			eofSeparate: c.EOFSeparate,
		}
	}
	mkUp := func(chunks []int) *fakeUpstream { return mkUpOf(upstream, chunks) }
	p := runParams{c.FromS, c.ToS, c.StepMs, c.Limit, c.Forward}

	// ---- reference -------------------------------------------------------------------------
	var fl refeval.Flags
	metric := e.IsMetric()
	fromNs, toNs := c.FromS*1e9, c.ToS*1e9
	if metric {
		fromNs, toNs = refeval.Window(refeval.MetricParams{FromNs: fromNs, ToNs: toNs, StepNs: c.StepMs * 1e6}, e.RangeNs(), &fl)
	}
	upRows := upstream(fromNs, toNs, c.Forward)
	afterBreaker, err := refeval.RunStages([]refeval.Stage{breaker}, cloneRows(upRows), &refeval.Flags{})
	if err != nil {
		o.Discard("reference-rejects-query")
		return nil
	}
	finalRows, err := refeval.RunStages(e.Stages[split:], cloneRows(upRows), &fl)
	if err != nil {
		o.Discard("reference-rejects-query")
		return nil
	}
	errRows := 0
	for _, r := range finalRows {
		if r.Err != "" {
			errRows++
		}
	}
	// Entries that raise a per-entry error (line the parser cannot read, line_format template
	// failing at run time) are don't-care individually: an engine may keep them (Loki does, with
	// __error__; qryn keeps unparsable lines with their labels untouched) or drop them (qryn's
	// in-process line_format does). errTs = timestamps of every input entry that raised one,
	// whatever later filters would do to it.
	errTs := map[int64]int{}
	errKinds := map[string]bool{}
	if pl, perr := refeval.Compile(e.Stages[split:], &refeval.Flags{}); perr == nil {
		pl.KeepErrRows = true
		for _, r := range pl.Run(cloneRows(upRows), &refeval.Flags{}) {
			if r.Err != "" {
				errTs[r.TsNs]++
				errKinds[r.Err] = true
			}
		}
	}
	if len(errTs) > 0 && errRows == 0 {
		errRows = -1 // all failing entries were filtered out later on; still a failing-entry case
	}
	// metric queries: one acceptable answer per choice of "kept" error kinds
	var wantCandidates [][]refeval.MetricSeries
	var wantSeries []refeval.MetricSeries
	removed := len(finalRows) < len(upRows)
	if metric {
		mp := refeval.MetricParams{FromNs: c.FromS * 1e9, ToNs: c.ToS * 1e9, StepNs: c.StepMs * 1e6}
		var kinds []string
		for k := range errKinds {
			kinds = append(kinds, k)
		}
		sort.Strings(kinds)
		for mask := 0; mask < 1<<len(kinds); mask++ {
			kept := map[string]bool{}
			for i, k := range kinds {
				if mask&(1<<i) != 0 {
					kept[k] = true
				}
			}
			var rows []refeval.Row
			for _, r := range finalRows {
				if r.Err == "" || kept[r.Err] {
					r.Err = ""
					rows = append(rows, r)
				}
			}
			buckets := refeval.MetricFromRows(e, rows, &fl)
			wantCandidates = append(wantCandidates, refeval.StepPostProcess(buckets, mp, e.RangeNs(), &fl))
		}
		wantSeries = wantCandidates[0] // every failing entry dropped
	}
	if fl.Unsupported != "" {
		o.Discard("reference-unsupported")
		return nil
	}

	// ---- classification ------------------------------------------------------------------------
	o.Tag("breaker:" + breaker.Kind)
	if metric {
		o.Tag("shape:metric", "range:"+e.RangeFn)
		if e.AggFn != "" {
			o.Tag("agg:" + e.AggFn)
			if e.AggGroup == nil {
				o.Tag("agg-without-grouping")
			}
		}
		if e.RangeCmp != nil || e.AggCmp != nil {
			o.Tag("comparison")
		}
	} else {
		o.Tag("shape:log")
		switch {
		case c.Limit == 0:
			o.Tag("limit:0/absent")
		case int(c.Limit) < len(finalRows):
			o.Tag("limit:cuts")
			removed = true
		default:
			o.Tag("limit:not-reached")
		}
	}
	for _, s := range e.Stages[split+1:] {
		o.Tag("post:" + s.Kind)
	}
	if metric && refeval.IsUnwrapFn(e.RangeFn) || (metric && len(e.Stages) > 0 && e.Stages[len(e.Stages)-1].Kind == refeval.KUnwrap) {
		// does some window of some series hold two different values?
		type wk struct {
			s string
			b int64
		}
		seen := map[wk]float64{}
		for _, r := range finalRows {
			lbl := r.Labels
			if e.RangeGroup != nil {
				lbl = map[string]string{}
				in := map[string]bool{}
				for _, l := range e.RangeGroup.Labels {
					in[l] = true
				}
				for k, v := range r.Labels {
					if in[k] != e.RangeGroup.Without {
						lbl[k] = v
					}
				}
			}
			k := wk{refeval.LabelsKey(lbl), r.TsNs / e.RangeNs()}
			if v, ok := seen[k]; ok && v != r.Value {
				o.Tag("unwrap:window-with-distinct-values")
				break
			}
			seen[k] = r.Value
		}
	}
	if split > 0 {
		o.Tag("has-pre-stages")
	}
	classifyRegexAndTemplates(e, split, upRows, &fl, o)
	noParser := classifyGetterFacing(c, e, split, upRows, o)
	classifyDropAndExtremes(e, split, upRows, finalRows, o)
	classifyNumberTextAndLastBucket(c, e, afterBreaker, finalRows, o)
	o.Tag("batching:"+chunkClass(c.Chunks), "batching:"+chunkClass(c.Chunks2))
	twins := concatTwins(afterBreaker) || concatTwins(finalRows)
	if twins {
		o.Tag("concat-twin-label-sets")
	}
	if errKinds["JSONParserErr"] || errKinds["LogfmtParserErr"] {
		o.Tag("malformed-lines-reach-parser")
	}
	if errKinds["TemplateFormatErr"] {
		o.Tag("template:line_format-fails-for-some-entries")
		if len(errTs) < len(upRows) {
			o.Tag("template:failing-and-succeeding-entries-mixed")
		}
	}
	// extraction that overwrites a label the stream already had (afterBreaker is upRows through
	// the split-forcing stage only, which never drops or reorders rows)
	if breaker.Kind != refeval.KLineFormat && len(afterBreaker) == len(upRows) {
		changedSame, rewrittenEqual := false, false
		perSrc := map[int]map[string]bool{}
		for i, r := range afterBreaker {
			if r.Err != "" {
				continue
			}
			before := upRows[i].Labels
			changed := false
			for k, v := range before {
				if nv, ok := r.Labels[k]; ok && nv != v {
					changed = true
				}
			}
			if changed && len(r.Labels) == len(before) {
				changedSame = true
			}
			if !changed && len(r.Labels) == len(before) {
				// the line parsed, yet the label set is what it was: every extracted key
				// re-wrote a stored label with the value it already had (or nothing was
				// extractable)
				rewrittenEqual = true
			}
			if len(r.Labels) == len(before) {
				if perSrc[r.SrcSeries] == nil {
					perSrc[r.SrcSeries] = map[string]bool{}
				}
				perSrc[r.SrcSeries][refeval.LabelsKey(r.Labels)] = true
			}
		}
		if changedSame {
			o.Tag("extraction-overwrites-stream-label:count-unchanged")
		}
		if rewrittenEqual {
			o.Tag("extraction-leaves-label-set-unchanged")
		}
		for _, sets := range perSrc {
			if len(sets) >= 2 {
				// one stream fans out into several label sets of the ORIGINAL size: only the
				// recomputed fingerprint keeps them apart
				o.Tag("one-stream-several-same-size-label-sets")
				if !metric {
					o.Tag("one-stream-several-same-size-label-sets:log")
				} else if e.AggFn == "" && e.RangeGroup == nil {
					o.Tag("one-stream-several-same-size-label-sets:ungrouped-range")
				}
				break
			}
		}
	}
	if len(upRows) == 0 {
		o.Tag("empty-upstream")
	}
	if distinctSets(afterBreaker) >= 2 && removed {
		o.NonTrivial()
	}

	// ---- the real chain, twice ---------------------------------------------------------------
	r1 := runChainMode(query, p, mkUp(c.Chunks), c.ViaSQL)
	if r1.noSplit {
		// rate/count_over_time over >= 15 s with only line_format / label stages: qryn sends
		// the whole query to the metrics_15s shortcut (AnalyzeMetrics15sShortcut): no
		// in-process part to check (the shortcut is C08's)
		o.Discard("qryn-did-not-split")
		return nil
	}
	if r1.planErr != nil {
		if strings.HasPrefix(r1.planErr.Error(), "parse:") || strings.HasPrefix(r1.planErr.Error(), "harness:") {
			return fmt.Errorf("query %s: %v", query, r1.planErr)
		}
		o.Tag("qryn-refuses:" + clip(r1.planErr.Error(), 40))
		o.Discard("qryn-refuses-query")
		return nil
	}
	wantAt := map[string]string{
		refeval.KJSON:       "*internal_planner.ParserPlanner(json)",
		refeval.KLogfmt:     "*internal_planner.ParserPlanner(logfmt)",
		refeval.KLineFormat: "*internal_planner.LineFormatterPlanner",
	}[breaker.Kind]
	if r1.splitAt != wantAt {
		return fmt.Errorf("query %s: qryn starts the in-process part with %s, the first stage ClickHouse cannot run is %s", query, r1.splitAt, breaker.String())
	}
	r2 := runChain(query, p, mkUp(c.Chunks2))
	if r1.matrix != metric {
		return fmt.Errorf("query %s: qryn plans a %s, the query is a %s", query, kind(r1.matrix), kind(metric))
	}

	// known-finding regions (excluded from the campaign, not from witness replays)
	if !o.Witness {
		if id := knownRegion(c, e, split, finalRows, errRows, twins); id != "" {
			o.Known(id)
			return nil
		}
	}

	describe := func() string {
		return fmt.Sprintf("query %s  from=%d to=%d step=%dms limit=%d forward=%v", query, c.FromS, c.ToS, c.StepMs, c.Limit, c.Forward)
	}

	// ---- malformed lines: LogQL keeps such entries (with __error__); a log query must not
	// fail as a whole. A metric query over such entries fails in Loki too: nothing to compare.
	if errRows != 0 {
		if metric && (r1.queryErr != nil || r2.queryErr != nil) {
			// Loki fails a metric query that meets an entry with __error__ as well
			o.Tag("dontcare:metric-query-fails-on-error-entry")
			return nil
		}
		for _, r := range []runResult{r1, r2} {
			if r.queryErr != nil {
				return fmt.Errorf("%s\n a single failing entry makes the whole log query fail: %v", describe(), r.queryErr)
			}
		}
	}
	for i, r := range []runResult{r1, r2} {
		if r.queryErr != nil {
			return fmt.Errorf("%s\n run %d (batching %v): the chain reports an error the definition does not: %v", describe(), i+1, []any{c.Chunks, c.Chunks2}[i], r.queryErr)
		}
	}

	v1, v2 := clientView(r1.entries), clientView(r2.entries)
	if os.Getenv("C09_DEBUG") != "" {
		fmt.Printf("DEBUG %s\n upstream rows=%d final rows=%d flags=%+v\n got1=%+v\n want=%+v\n", describe(), len(upRows), len(finalRows), fl, r1.entries, wantSeries)
	}

	// ---- metamorphic: the batching must not matter ---------------------------------------------
	if metric {
		p1, _ := matrixPoints(v1)
		p2, _ := matrixPoints(v2)
		if d := diffPoints(p1, p2); d != "" {
			return fmt.Errorf("%s\n result depends on the upstream batching: %s vs planted upstream with batches %v (first taken as reference):%s", describe(), firstRunName(c), c.Chunks2, d)
		}
	} else if c.Limit == 0 || int(c.Limit) >= len(finalRows) {
		if d := diffKeys(logKeys(v1), logKeys(v2)); d != "" {
			return fmt.Errorf("%s\n result depends on the upstream batching: %s vs planted upstream with batches %v (first taken as reference):%s", describe(), firstRunName(c), c.Chunks2, d)
		}
	}

	// ---- metamorphic: a line filter right behind json/logfmt (which leave the line alone) means
	// the same in front of it, where the SQL side evaluates it (here: the reference) ------------
	ambiguous := split+2 < len(e.Stages) && e.Stages[split+2].Kind == refeval.KLineFilter &&
		(e.Stages[split+2].Op == "!=" || e.Stages[split+2].Op == "!~") // `| json != "x"`: see keyword-read-as-label-name
	if split+1 < len(e.Stages) && breaker.Kind != refeval.KLineFormat && e.Stages[split+1].Kind == refeval.KLineFilter && !ambiguous {
		e2 := *e
		e2.Stages = append([]refeval.Stage(nil), e.Stages...)
		e2.Stages[split], e2.Stages[split+1] = e2.Stages[split+1], e2.Stages[split]
		r3 := runChain(e2.String(), p, mkUpOf(upstreamOf(e2.Stages[:split+1]), c.Chunks))
		if r3.planErr == nil && !r3.noSplit && r3.queryErr == nil && r1.queryErr == nil {
			o.Tag("line-filter-moved-across-split")
			v3 := clientView(r3.entries)
			d := ""
			if metric {
				p1, _ := matrixPoints(v1)
				p3, _ := matrixPoints(v3)
				d = diffPoints(p3, p1)
			} else if c.Limit == 0 || int(c.Limit) >= len(upRows) {
				d = diffKeys(logKeys(v3), logKeys(v1))
			}
			if d != "" {
				return fmt.Errorf("%s\n the line filter %s selects differently in-process than in front of the split (%s; that result taken as reference):%s",
					describe(), e.Stages[split+1].String(), e2.String(), d)
			}
		}
	}

	// ---- metamorphic: a drop right behind a line_format that does not read the dropped labels
	// means the same in front of it (SQL side, here the reference). Log queries only: behind the
	// SQL part series keep their stored fingerprints (C08's known deviation).
	if !metric && breaker.Kind == refeval.KLineFormat && split+1 < len(e.Stages) && e.Stages[split+1].Kind == refeval.KDrop {
		reads := false
		for _, prm := range e.Stages[split+1].Params {
			if strings.Contains(breaker.Val, "{{."+prm.Name+"}}") {
				reads = true
			}
		}
		if !reads {
			e2 := *e
			e2.Stages = append([]refeval.Stage(nil), e.Stages...)
			e2.Stages[split], e2.Stages[split+1] = e2.Stages[split+1], e2.Stages[split]
			r3 := runChain(e2.String(), p, mkUpOf(upstreamOf(e2.Stages[:split+1]), c.Chunks))
			if r3.planErr == nil && !r3.noSplit && r3.queryErr == nil && r1.queryErr == nil && (c.Limit == 0 || int(c.Limit) >= len(upRows)) {
				o.Tag("drop-moved-across-split")
				if d := diffKeys(logKeys(clientView(r3.entries)), logKeys(v1)); d != "" {
					return fmt.Errorf("%s\n the stage %s acts differently in-process than in front of the split (%s; that result taken as reference):%s",
						describe(), e.Stages[split+1].String(), e2.String(), d)
				}
			}
		}
	}

	var skip []string
	for _, r := range fl.DontCare {
		if r == "label_format-missing-source" {
			// only the SQL engine differs (it writes dst=""); LogQL and the in-process engine
			// leave dst alone, which is what the reference computed
			continue
		}
		if r == "label-filter-on-error-entry" || r == "error-entry-in-metric-query" {
			// failing entries are don't-care one by one (errTs / candidate answers below)
			continue
		}
		skip = append(skip, r)
	}
	if len(skip) > 0 {
		for _, r := range skip {
			o.Tag("dontcare:" + r)
			if os.Getenv("C09_DEBUG_DC") == r {
				fmt.Printf("DC %s %s\n   %v\n", r, query, c.Data[0].Entries)
			}
		}
		return nil
	}

	// ---- against the reference --------------------------------------------------------------------
	o.Tag("compared-with-reference")
	if distinctSets(afterBreaker) >= 2 && removed {
		o.Tag("compared-with-reference:non-trivial")
	}
	for i, v := range [][]clientSeries{v1, v2} {
		for _, s := range v {
			if s.mixed != "" {
				return fmt.Errorf("%s\n run %d: entries of two different label sets %s and %s leave the chain as ONE series (same fingerprint %d): distinct label sets must stay distinct series",
					describe(), i+1, s.key, s.mixed, s.entries[0].fp)
			}
		}
		if metric {
			got, dup := matrixPoints(v)
			if dup != "" {
				return fmt.Errorf("%s\n run %d: label set %s comes out as two separate series", describe(), i+1, dup)
			}
			d := ""
			for _, cand := range wantCandidates {
				if d = diffPoints(refPoints(cand), got); d == "" {
					break
				}
			}
			if d != "" {
				note := ""
				if len(wantCandidates) > 1 {
					note = fmt.Sprintf(" (no choice of kept/dropped failing entries explains it; shown against 'all dropped', %d candidates)", len(wantCandidates))
				}
				return fmt.Errorf("%s\n run %d (batching %v): matrix differs from the LogQL definition%s:%s", describe(), i+1, []any{c.Chunks, c.Chunks2}[i], note, d)
			}
			continue
		}
		got := logKeys(v)
		if noParser && errRows == 0 {
			// no stage looks into the line: the labels of an entry are a function of its
			// stream's labels alone, so the result cannot have more label sets than the
			// reference - unless an edit was applied to a map shared between rows
			wantSets := distinctSets(finalRows)
			gotSets := map[string]bool{}
			for _, cs := range v {
				for _, en := range cs.entries {
					gotSets[refeval.LabelsKey(en.labels)] = true
				}
			}
			if len(gotSets) > wantSets {
				return fmt.Errorf("%s\n run %d: %d different label sets come out, the definition yields %d: an entry's labels depend on how many earlier rows its stream had (label edits applied to a map shared between rows?)%s",
					describe(), i+1, len(gotSets), wantSets, diffKeys(rowKeys(finalRows), got))
			}
		}
		if errRows != 0 {
			// failing entries: kept or dropped, with whatever line / labels; every OTHER entry
			// must come out exactly as if the failing ones were not there
			var good []refeval.Row
			for _, r := range finalRows {
				if r.Err == "" {
					good = append(good, r)
				}
			}
			if c.Limit != 0 && int(c.Limit) < len(finalRows)+len(errTs) {
				continue
			}
			if d := subsetDiff(rowKeys(good), got); d != "" {
				return fmt.Errorf("%s\n run %d (batching %v): entries next to a failing entry are missing or altered:%s", describe(), i+1, []any{c.Chunks, c.Chunks2}[i], d)
			}
			// what is left over must be the failing entries themselves (matched by timestamp)
			left := map[string]int{}
			for _, k := range got {
				left[k]++
			}
			for _, k := range rowKeys(good) {
				left[k]--
			}
			budget := map[int64]int{}
			for t, n := range errTs {
				budget[t] = n
			}
			for _, s := range v {
				for _, en := range s.entries {
					k := fmt.Sprintf("%s @%d %q", s.key, en.ts, en.line)
					if left[k] > 0 {
						left[k]--
						if budget[en.ts] == 0 {
							return fmt.Errorf("%s\n run %d (batching %v): unexpected entry %s (not a well-formed entry of the reference and no failing entry has this timestamp)", describe(), i+1, []any{c.Chunks, c.Chunks2}[i], k)
						}
						budget[en.ts]--
					}
				}
			}
			continue
		}
		if c.Limit == 0 || int(c.Limit) >= len(finalRows) {
			// limit absent/0 means "no limit" on the SQL path (MainLimitPlanner)
			if d := diffKeys(rowKeys(finalRows), got); d != "" {
				return fmt.Errorf("%s\n run %d (batching %v): entries differ from the LogQL definition:%s", describe(), i+1, []any{c.Chunks, c.Chunks2}[i], d)
			}
			continue
		}
		if msg := checkLimit(finalRows, got, c.Limit, c.Forward); msg != "" {
			return fmt.Errorf("%s\n run %d: limit %d: %s", describe(), i+1, c.Limit, msg)
		}
	}
	return nil
}

var (
	reFlagPrefix = regexp.MustCompile(`^\(\?[a-zA-Z]+\)`)
	tplFuncCall  = regexp.MustCompile(`\{\{-?\s*[a-zA-Z(]`)
)

// classifyRegexAndTemplates tags the regex line filters and templates of the in-process part.
func classifyRegexAndTemplates(e *refeval.Expr, split int, upRows []refeval.Row, fl *refeval.Flags, o *evid.Obs) {
	for off, st := range e.Stages[split+1:] {
		switch st.Kind {
		case refeval.KLineFilter:
			if st.Op != "|~" && st.Op != "!~" {
				continue
			}
			// the lines as they reach this filter
			atFilter, _ := refeval.RunStages(e.Stages[split:split+1+off], cloneRows(upRows), &refeval.Flags{})
			o.Tag("regex:in-process")
			pat := st.Val
			flags := reFlagPrefix.FindString(pat)
			body := pat[len(flags):]
			parsed, err := syntax.Parse(body, syntax.Perl)
			literal := err == nil && parsed.Simplify().Op == syntax.OpLiteral
			switch {
			case flags != "" && literal:
				o.Tag("regex:flags+literal")
			case flags != "":
				o.Tag("regex:flags+regex")
			case literal && strings.Contains(body, "\\"):
				o.Tag("regex:escaped-literal")
			case literal:
				o.Tag("regex:plain-text")
			default:
				o.Tag("regex:real-regex")
			}
			if flags != "" {
				// does the flag decide for some line of the data?
				with, e1 := regexp.Compile(pat)
				without, e2 := regexp.Compile(body)
				if e1 == nil && e2 == nil {
					for _, r := range atFilter {
						if with.MatchString(r.Line) != without.MatchString(r.Line) {
							o.Tag("regex:flag-decides-for-some-line")
							break
						}
					}
				}
			}
		case refeval.KLineFormat:
			if tplFuncCall.MatchString(st.Val) {
				o.Tag("template:line_format-with-functions")
			}
		case refeval.KLabelFormat:
			for _, prm := range st.Params {
				if prm.HasVal && tplFuncCall.MatchString(prm.Val) {
					o.Tag("template:label_format-with-functions")
				}
			}
		}
	}
	for _, d := range fl.Deviations {
		if d == "label_format-template-error-leaves-label" {
			o.Tag("template:label_format-fails-for-some-entries")
		}
	}
}

// classifyGetterFacing tags what concerns the getter: the via-SQL variant, its row counts and
// pipelines whose first label-editing stage has no parser in front of it. Returns whether no
// stage of the in-process part looks into the line for labels (no parser at all).
func classifyGetterFacing(c splitCase, e *refeval.Expr, split int, upRows []refeval.Row, o *evid.Obs) bool {
	if c.ViaSQL {
		o.Tag("getter:via-sql-real-Scan")
		if len(upRows) > 100 {
			o.Tag("getter:via-sql:more-than-100-rows")
		}
		per := map[int]int{}
		for _, r := range upRows {
			per[r.SrcSeries]++
		}
		for _, n := range per {
			if n >= 2 {
				o.Tag("getter:via-sql:stream-with-several-rows")
				break
			}
		}
	} else {
		o.Tag("getter:planted-upstream")
	}
	noParser := true
	firstEdit := ""
	for _, st := range e.Stages[split:] {
		switch st.Kind {
		case refeval.KJSON, refeval.KLogfmt, refeval.KRegexp:
			noParser = false
		case refeval.KLabelFormat, refeval.KDrop:
			if firstEdit == "" && noParser {
				firstEdit = st.Kind
				for _, prm := range st.Params {
					if prm.HasVal && strings.Contains(prm.Val, "{{."+prm.Name+"}}") {
						firstEdit = "label_format-self-referential"
					}
				}
			}
		}
	}
	if firstEdit == "" && noParser && (e.AggGroup != nil || e.RangeGroup != nil) {
		firstEdit = "by/without"
	}
	if firstEdit != "" {
		o.Tag("getter:first-label-edit-without-parser:" + firstEdit)
		if c.ViaSQL {
			o.Tag("getter:via-sql:first-label-edit-without-parser")
		}
	}
	return noParser
}

func firstRunName(c splitCase) string {
	if c.ViaSQL {
		return "database/sql rows through the real ClickhouseGetterPlanner.Scan"
	}
	return fmt.Sprintf("planted upstream with batches %v", c.Chunks)
}

// classifyDropAndExtremes tags drop stages that name a label more than once (and whether that
// matters for the data: a drop read as a name->value map, last pair winning, would leave other
// labels) and vector min / max over groups whose values are all <= 0.
func classifyDropAndExtremes(e *refeval.Expr, split int, upRows, finalRows []refeval.Row, o *evid.Obs) {
	for off, st := range e.Stages[split+1:] {
		if st.Kind != refeval.KDrop {
			continue
		}
		count := map[string]int{}
		bare := map[string]bool{}
		vals := map[string]map[string]bool{}
		for _, prm := range st.Params {
			count[prm.Name]++
			if !prm.HasVal {
				bare[prm.Name] = true
			} else {
				if vals[prm.Name] == nil {
					vals[prm.Name] = map[string]bool{}
				}
				vals[prm.Name][prm.Val] = true
			}
		}
		repeated := false
		for name, n := range count {
			if n < 2 {
				continue
			}
			repeated = true
			switch {
			case bare[name] && len(vals[name]) > 0:
				o.Tag("drop:repeated-name:bare+valued")
			case len(vals[name]) >= 2:
				o.Tag("drop:repeated-name:several-values")
			default:
				o.Tag("drop:repeated-name:duplicate")
			}
		}
		if !repeated {
			continue
		}
		o.Tag("drop:repeated-name")
		// last-pair-wins reading
		last := map[string]refeval.Param{}
		for _, prm := range st.Params {
			last[prm.Name] = prm
		}
		at, _ := refeval.RunStages(e.Stages[split:split+1+off], cloneRows(upRows), &refeval.Flags{})
		for _, r := range at {
			for name := range count {
				v, ok := r.Labels[name]
				if !ok {
					continue
				}
				all := bare[name] || vals[name][v]
				lp := last[name]
				mapped := !lp.HasVal || lp.Val == v
				if all != mapped {
					o.Tag("drop:repeated-name-decides-for-some-entry")
					return
				}
			}
		}
	}
	if e.AggFn == "min" || e.AggFn == "max" {
		var rows []refeval.Row
		for _, r := range finalRows {
			if r.Err == "" {
				rows = append(rows, r)
			}
		}
		e1 := *e
		e1.AggFn, e1.AggGroup, e1.AggCmp = "", nil, nil
		var tfl refeval.Flags
		inner := refeval.RangeBuckets(&e1, rows, &tfl)
		type gk struct {
			k  string
			ts int64
		}
		n := map[gk]int{}
		pos := map[gk]bool{}
		for _, s := range inner {
			lbl := s.Labels
			if e.AggGroup != nil {
				lbl = map[string]string{}
				in := map[string]bool{}
				for _, l := range e.AggGroup.Labels {
					in[l] = true
				}
				for k, v := range s.Labels {
					if in[k] != e.AggGroup.Without {
						lbl[k] = v
					}
				}
			}
			for _, sm := range s.Samples {
				k := gk{refeval.LabelsKey(lbl), sm.TsNs}
				n[k]++
				if sm.Value > 0 {
					pos[k] = true
				}
			}
		}
		for k, c := range n {
			if c >= 2 && !pos[k] {
				o.Tag("vector-" + e.AggFn + ":group-of-several-values-all-nonpositive")
				break
			}
		}
	}
}

// classifyNumberTextAndLastBucket tags (a) extracted label values that are numbers whose text
// carries more than their float64 value, and what the query does with them, (b) metric queries
// whose END lies strictly inside the last range bucket while that bucket holds samples.
func classifyNumberTextAndLastBucket(c splitCase, e *refeval.Expr, afterBreaker, finalRows []refeval.Row, o *evid.Obs) {
	byFloat := map[string]map[float64]string{} // label -> float value -> first text
	hot := map[string]bool{}
	nonCanon, twinTexts := false, false
	for _, r := range afterBreaker {
		for k, v := range r.Labels {
			f, err := strconv.ParseFloat(v, 64)
			if err != nil {
				continue
			}
			if strconv.FormatFloat(f, 'f', -1, 64) != v && strconv.FormatFloat(f, 'g', -1, 64) != v {
				nonCanon = true
				hot[k] = true
			}
			if byFloat[k] == nil {
				byFloat[k] = map[float64]string{}
			}
			if t, ok := byFloat[k][f]; ok && t != v {
				twinTexts = true
				hot[k] = true
			}
			byFloat[k][f] = v
		}
	}
	if nonCanon {
		o.Tag("numtext:text-not-canonical-float")
	}
	if twinTexts {
		o.Tag("numtext:equal-as-float-distinct-as-text")
	}
	if len(hot) > 0 {
		for _, g := range []*refeval.Grouping{e.AggGroup, e.RangeGroup} {
			if g == nil {
				continue
			}
			for _, l := range g.Labels {
				if hot[l] && !g.Without {
					o.Tag("numtext:grouped-by")
				}
			}
		}
		if !e.IsMetric() || (e.AggGroup == nil && e.RangeGroup == nil) {
			o.Tag("numtext:in-series-labels")
		}
		var walk func(f *refeval.LabelFilter)
		walk = func(f *refeval.LabelFilter) {
			if f == nil {
				return
			}
			if f.Bool == "" && f.Str != nil && hot[f.Label] {
				o.Tag("numtext:string-filter")
			}
			walk(f.L)
			walk(f.R)
		}
		for _, st := range e.Stages {
			if st.Kind == refeval.KLabelFilter {
				walk(st.Filter)
			}
		}
	}
	if e.IsMetric() {
		rng, to := e.RangeNs(), c.ToS*1e9
		if rng > 0 && to%rng != 0 {
			lo := to / rng * rng
			for _, r := range finalRows {
				if r.Err == "" && r.TsNs >= lo && r.TsNs < lo+rng {
					o.Tag("last-bucket:end-strictly-inside-with-samples")
					if e.AggFn != "" {
						o.Tag("last-bucket:end-strictly-inside-with-samples:vector-agg")
					}
					if r.TsNs >= to {
						o.Tag("last-bucket:sample-after-end-in-last-bucket")
					}
					break
				}
			}
		}
	}
}

// checkLimit: got must be `limit` of the surviving rows: everything strictly before the cut
// timestamp (in result order) plus any choice among the rows at the cut timestamp.
func checkLimit(all []refeval.Row, got []string, limit int64, forward bool) string {
	rows := append([]refeval.Row(nil), all...)
	refeval.SortRows(rows, forward)
	if int64(len(got)) != limit {
		return fmt.Sprintf("%d entries returned, %d survive the pipeline", len(got), len(rows))
	}
	cut := rows[limit-1].TsNs
	var must, may []refeval.Row
	for _, r := range rows {
		switch {
		case r.TsNs == cut:
			may = append(may, r)
		case (r.TsNs < cut) == forward:
			must = append(must, r)
		}
	}
	if d := subsetDiff(rowKeys(must), got); d != "" {
		return "entries before the cut are missing:" + d
	}
	if d := subsetDiff(got, append(rowKeys(must), rowKeys(may)...)); d != "" {
		return "entries that are not among the first ones:" + d
	}
	return ""
}

// subsetDiff reports the elements of sub (multiset) that are not in super.
func subsetDiff(sub, super []string) string {
	m := map[string]int{}
	for _, k := range super {
		m[k]++
	}
	var miss []string
	for _, k := range sub {
		if m[k] == 0 {
			miss = append(miss, k)
			continue
		}
		m[k]--
	}
	if len(miss) == 0 {
		return ""
	}
	if len(miss) > 6 {
		miss = append(miss[:6], "…")
	}
	return "\n      " + strings.Join(miss, "\n      ")
}

func cloneRows(rows []refeval.Row) []refeval.Row {
	out := make([]refeval.Row, len(rows))
	for i, r := range rows {
		out[i] = r
		out[i].Labels = make(map[string]string, len(r.Labels))
		for k, v := range r.Labels {
			out[i].Labels[k] = v
		}
	}
	return out
}

func kind(matrix bool) string {
	if matrix {
		return "matrix"
	}
	return "stream result"
}

func clip(s string, n int) string {
	if len(s) > n {
		return s[:n]
	}
	return s
}

// knownRegion names the known finding whose region the case lies in ("" = none).
func knownRegion(c splitCase, e *refeval.Expr, split int, finalRows []refeval.Row, errRows int, twins bool) string {
	return ""
}

func addSplit(r *evid.Run) {
	evid.Add(r, evid.Prop[splitCase]{Name: "split", Quick: 6000, Thorough: 30000, Gen: genCase, Pred: predSplit, WAL: true})
}

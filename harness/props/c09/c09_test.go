package c09

import (
	"testing"

	"qrynverif/evid"
)

func TestProp(t *testing.T) {
	r := evid.New(t, "C09", evid.Config{
		Level: "exploration",
		Rule: "generated streams x split-forcing pipelines (json/logfmt/line_format then in-process stages, log and metric shapes) x request parameters x two upstream batchings; " +
			"non-trivial: >=2 label sets after the extraction stage and >=1 in-process stage (filter, comparison or limit) removes entries",
		Assumptions: []string{
			"the rows the ClickHouse getter would deliver for the SQL part (selector + stages before the split) are those refeval selects (C07's property)",
			"upstream entries are ordered by timestamp in the requested direction and lie in the context's window, each with its own label map (what ClickhouseGetterPlanner.Scan produces); batch sizes other than 100 are what later stages see behind any filtering stage",
			"series are identified the way QueryRangeService's writers do: a run of equal fingerprints is one series carrying the labels of its first entry",
			"refeval follows qryn where both engines deliberately differ from Loki (tumbling windows aligned on the epoch, unanchored regexes, unparsable/missing unwrap = 0, copy semantics of label_format, per-series vector aggregation without grouping, zero samples dropped); cases where the engines differ from each other outside the property's stages are don't-care",
		},
	})
	addSplit(r)
	r.Main()
}

package c09

import (
	"context"
	"database/sql/driver"
	"regexp"
	"strconv"

	clcfg "github.com/metrico/cloki-config/config"
	"github.com/metrico/qryn/reader/utils/dbVersion"
	"github.com/metrico/qryn/reader/utils/tables"

	"fmt"
	"io"
	"math"
	"qrynverif/fakesql"
	"reflect"
	"sort"
	"strings"
	"time"

	"github.com/metrico/qryn/reader/logql/logql_parser"
	"github.com/metrico/qryn/reader/logql/logql_transpiler_v2"
	"github.com/metrico/qryn/reader/logql/logql_transpiler_v2/shared"
	sql "github.com/metrico/qryn/reader/utils/sql_select"

	"qrynverif/refeval"
)

// ---- scripted upstream --------------------------------------------------------------------
//
// fakeUpstream stands where shared.ClickhouseGetterPlanner stands in the planned chain and
// speaks its channel protocol (reader/logql/logql_transpiler_v2/shared/
// planner_clickhouse_getter.go Scan): batches of entries on an unbuffered channel, every
// entry with its OWN label map (Scan allocates one per row; in-process stages mutate it in
// place), the very last batch ends with a zero entry whose Err is io.EOF, then the channel
// is closed. When the context is cancelled (LimitPlanner does that once the limit is
// reached) the getter stops without the EOF marker.
//
// The real getter always cuts batches of exactly 100 rows; the fake cuts batches of any
// scripted size including empty ones, which is what every later stage of the chain sees
// anyway when a filtering stage precedes it (LineFilterPlanner, LabelFilterPlanner forward
// what is left of each incoming batch, possibly nothing).
type fakeUpstream struct {
	rows        func(fromNs, toNs int64, asc bool) []shared.LogEntry
	chunks      []int
	eofSeparate bool
	calls       int
}

func (f *fakeUpstream) IsMatrix() bool { return false }

func (f *fakeUpstream) Process(ctx *shared.PlannerContext, _ chan []shared.LogEntry) (chan []shared.LogEntry, error) {
	f.calls++
	// like the SQL the getter would run: window and order are read from the context at
	// Process time (SqlMainInitPlanner: from <= timestamp_ns < to; MainOrderByPlanner)
	all := f.rows(ctx.From.UnixNano(), ctx.To.UnixNano(), ctx.OrderASC)
	res := make(chan []shared.LogEntry)
	go func() {
		defer close(res)
		send := func(b []shared.LogEntry) bool {
			select {
			case res <- b:
				return true
			case <-ctx.Ctx.Done():
				return false
			}
		}
		i, k := 0, 0
		for i < len(all) {
			n := 1
			if len(f.chunks) > 0 {
				n = f.chunks[k%len(f.chunks)]
				k++
			}
			if n > len(all)-i {
				n = len(all) - i
			}
			b := make([]shared.LogEntry, n, n+1)
			copy(b, all[i:i+n])
			i += n
			if i == len(all) && !f.eofSeparate {
				b = append(b, shared.LogEntry{Err: io.EOF})
				send(b)
				return
			}
			if !send(b) {
				return
			}
		}
		send([]shared.LogEntry{{Err: io.EOF}})
	}()
	return res, nil
}

// plant walks the planned chain through its exported Main fields (GenericPlanner.Main,
// FixPeriodPlanner.Main, embedded AggregatorPlanner.GenericPlanner.Main) down to the
// ClickHouse getter and puts the fake in its place. Returns false when the chain has no
// in-process part (the whole query went to SQL).
func plant(root shared.RequestProcessor, fake shared.RequestProcessor) (bool, int, string, error) {
	if _, ok := root.(*shared.ClickhouseGetterPlanner); ok {
		return false, 0, "", nil
	}
	depth := 0
	cur := reflect.ValueOf(root)
	for depth < 64 {
		if cur.Kind() == reflect.Interface {
			cur = cur.Elem()
		}
		if cur.Kind() != reflect.Ptr || cur.Elem().Kind() != reflect.Struct {
			return false, depth, "", fmt.Errorf("chain element %v is not a struct pointer", cur.Type())
		}
		mainF, ok := findMain(cur.Elem())
		if !ok {
			return false, depth, "", fmt.Errorf("chain element %v has no Main field", cur.Type())
		}
		if g, isGetter := mainF.Interface().(*shared.ClickhouseGetterPlanner); isGetter {
			if g.Matrix {
				// the SQL part already aggregates: nothing runs in-process below this point
				return false, depth + 1, "", nil
			}
			// the stage sitting directly on the getter is the one that forced the split
			parent := cur.Type().String()
			if op := cur.Elem().FieldByName("Op"); op.IsValid() && op.Kind() == reflect.String {
				parent += "(" + op.String() + ")"
			}
			if fake != nil {
				mainF.Set(reflect.ValueOf(fake))
			}
			return true, depth + 1, parent, nil
		}
		cur = mainF
		depth++
	}
	return false, depth, "", fmt.Errorf("chain too deep")
}

var procType = reflect.TypeOf((*shared.RequestProcessor)(nil)).Elem()

func findMain(s reflect.Value) (reflect.Value, bool) {
	t := s.Type()
	for i := 0; i < t.NumField(); i++ {
		f := t.Field(i)
		if f.Name == "Main" && f.Type == procType && s.Field(i).CanSet() {
			return s.Field(i), true
		}
	}
	for i := 0; i < t.NumField(); i++ {
		f := t.Field(i)
		if f.Anonymous && f.Type.Kind() == reflect.Struct {
			if v, ok := findMain(s.Field(i)); ok {
				return v, true
			}
		}
	}
	return reflect.Value{}, false
}

// ---- one execution of the real chain ----------------------------------------------------------

type runParams struct {
	FromS, ToS int64
	StepMs     int64
	Limit      int64
	Forward    bool
}

type gotEntry struct {
	fp     uint64
	labels map[string]string
	ts     int64
	line   string
	value  float64
}

type runResult struct {
	matrix   bool
	planErr  error // Plan / Process refused the query
	queryErr error // an error entry came out of the chain
	entries  []gotEntry
	batches  int
	depth    int
	noSplit  bool
	sqlSeen  int    // statements of the SQL part answered by the fake database
	splitAt  string // type of the first in-process stage (the one reading from the getter)
}

// upstreamRows turns reference rows into what the getter scans from SQL rows.
func upstreamRows(rows []refeval.Row, fps []uint64) []shared.LogEntry {
	out := make([]shared.LogEntry, len(rows))
	for i, r := range rows {
		lbl := make(map[string]string, len(r.Labels))
		for k, v := range r.Labels {
			lbl[k] = v
		}
		out[i] = shared.LogEntry{TimestampNS: r.TsNs, Fingerprint: fps[r.SrcSeries], Labels: lbl, Message: r.Line}
	}
	return out
}

// runChain plans query with qryn's real planner (so the real GetBreakpoint/breakScript
// decide the split), plants the scripted upstream and drains the output channel the way
// QueryRangeService does.
func runChain(query string, p runParams, up *fakeUpstream) (res runResult) {
	return runChainMode(query, p, up, false)
}

var (
	sqlFromRe = regexp.MustCompile(`timestamp_ns\)?\s*>=\s*\(?(\d+)`)
	sqlToRe   = regexp.MustCompile(`timestamp_ns\)?\s*<\s*\(?(\d+)`)
	sqlAscRe  = regexp.MustCompile(`(?i)order\s+by\s+[^)]*timestamp_ns\s+asc`)
	sqlDescRe = regexp.MustCompile(`(?i)order\s+by\s+[^)]*timestamp_ns\s+desc`)
)

// runChainMode with viaSQL: nothing is planted. The chain keeps its real
// shared.ClickhouseGetterPlanner; the planner context carries a fakesql session whose handler
// answers the statement of the SQL part with the scripted entries as database/sql rows in the
// column order and Go types Scan reads (fingerprint uint64, labels map[string]string, string,
// timestamp_ns int64), so the real Scan - fresh label map per row, batches of 100, io.EOF
// marker - is the first producer of the in-process chain. Window and direction are read from
// the statement itself (the timestamp_ns bounds of SqlMainInitPlanner, the ORDER BY of
// MainOrderByPlanner).
func runChainMode(query string, p runParams, up *fakeUpstream, viaSQL bool) (res runResult) {
	script, err := logql_parser.Parse(query)
	if err != nil {
		res.planErr = fmt.Errorf("parse: %w", err)
		return
	}
	chain, err := logql_transpiler_v2.Plan(script)
	if err != nil {
		res.planErr = err
		return
	}
	var planted shared.RequestProcessor
	if !viaSQL {
		planted = up
	}
	ok, depth, parent, err := plant(chain[0], planted)
	if err != nil {
		res.planErr = fmt.Errorf("harness: %w", err)
		return
	}
	res.depth = depth
	res.splitAt = parent
	if !ok {
		res.noSplit = true
		return
	}
	res.matrix = chain[0].IsMatrix()
	cctx, cancel := context.WithCancel(context.Background())
	defer cancel()
	// reader/service/queryRangeService.go prepareOutput
	pctx := &shared.PlannerContext{
		From:       time.Unix(p.FromS, 0),
		To:         time.Unix(p.ToS, 0),
		OrderASC:   p.Forward,
		Limit:      p.Limit,
		Ctx:        cctx,
		CancelCtx:  cancel,
		CHFinalize: true,
		Step:       time.Duration(p.StepMs) * time.Millisecond,
		CHSqlCtx:   &sql.Ctx{Params: map[string]sql.SQLObject{}, Result: map[string]sql.SQLObject{}},
	}
	if viaSQL {
		var hErr error
		fdb := fakesql.New(func(_ context.Context, q string, _ []driver.NamedValue) (*fakesql.Result, error) {
			if fakesql.IsVersionQuery(q) {
				return fakesql.AnswerVersion(q), nil
			}
			res.sqlSeen++
			mf, mt := sqlFromRe.FindStringSubmatch(q), sqlToRe.FindStringSubmatch(q)
			asc, desc := sqlAscRe.MatchString(q), sqlDescRe.MatchString(q)
			if mf == nil || mt == nil || asc == desc {
				hErr = fmt.Errorf("harness: cannot read window/direction from the statement: %s", q)
				return nil, hErr
			}
			from, _ := strconv.ParseInt(mf[1], 10, 64)
			to, _ := strconv.ParseInt(mt[1], 10, 64)
			var rows [][]any
			for _, e := range up.rows(from, to, asc) {
				// clickhouse-go hands a new map for every row
				lbl := make(map[string]string, len(e.Labels))
				for k, v := range e.Labels {
					lbl[k] = v
				}
				rows = append(rows, []any{e.Fingerprint, lbl, e.Message, e.TimestampNS})
			}
			return fakesql.Rows([]string{"fingerprint", "labels", "string", "timestamp_ns"}, rows...), nil
		})
		defer fdb.Close()
		conn, err := fdb.Registry(&clcfg.ClokiBaseDataBase{}).GetDB(cctx)
		if err != nil {
			res.planErr = fmt.Errorf("harness: %w", err)
			return
		}
		vi, err := dbVersion.GetVersionInfo(cctx, false, conn.Session)
		if err != nil {
			res.planErr = fmt.Errorf("harness: %w", err)
			return
		}
		pctx.CHDb = conn.Session
		pctx.VersionInfo = vi
		pctx = tables.PopulateTableNames(pctx, conn)
		defer func() {
			if hErr != nil && res.planErr == nil {
				res.planErr = hErr
			}
		}()
	}
	out, err := chain[0].Process(pctx, nil)
	if err != nil {
		res.planErr = err
		return
	}
	for batch := range out {
		res.batches++
		for _, e := range batch {
			if e.Err == io.EOF {
				continue
			}
			if e.Err != nil {
				if res.queryErr == nil {
					res.queryErr = e.Err
				}
				continue
			}
			lbl := make(map[string]string, len(e.Labels))
			for k, v := range e.Labels {
				lbl[k] = v
			}
			res.entries = append(res.entries, gotEntry{e.Fingerprint, lbl, e.TimestampNS, e.Message, e.Value})
		}
	}
	return
}

// ---- how a client sees the output -------------------------------------------------------------
//
// Both response writers of QueryRangeService open a new stream / metric object whenever the
// fingerprint of the next entry differs from the previous one and print the labels of the
// first entry of the run. So an entry belongs, for the client, to the label set of the first
// entry of its run of equal fingerprints.

type clientSeries struct {
	labels  map[string]string
	key     string
	entries []gotEntry
	mixed   string // non-empty: a second label set was found inside the run
}

func clientView(es []gotEntry) []clientSeries {
	var out []clientSeries
	for i, e := range es {
		if i == 0 || es[i-1].fp != e.fp {
			out = append(out, clientSeries{labels: e.labels, key: refeval.LabelsKey(e.labels)})
		}
		cs := &out[len(out)-1]
		if k := refeval.LabelsKey(e.labels); k != cs.key && cs.mixed == "" {
			cs.mixed = k
		}
		cs.entries = append(cs.entries, e)
	}
	return out
}

func logKeys(view []clientSeries) []string {
	var ks []string
	for _, s := range view {
		for _, e := range s.entries {
			ks = append(ks, fmt.Sprintf("%s @%d %q", s.key, e.ts, e.line))
		}
	}
	sort.Strings(ks)
	return ks
}

func rowKeys(rows []refeval.Row) []string {
	ks := make([]string, len(rows))
	for i, r := range rows {
		ks[i] = fmt.Sprintf("%s @%d %q", refeval.LabelsKey(r.Labels), r.TsNs, r.Line)
	}
	sort.Strings(ks)
	return ks
}

func diffKeys(want, got []string) string {
	w := map[string]int{}
	for _, k := range want {
		w[k]++
	}
	for _, k := range got {
		w[k]--
	}
	var miss, extra []string
	for k, n := range w {
		for ; n > 0; n-- {
			miss = append(miss, k)
		}
		for ; n < 0; n++ {
			extra = append(extra, k)
		}
	}
	sort.Strings(miss)
	sort.Strings(extra)
	if len(miss) == 0 && len(extra) == 0 {
		return ""
	}
	clip := func(l []string) string {
		if len(l) > 6 {
			return strings.Join(l[:6], "\n      ") + fmt.Sprintf("\n      … (%d more)", len(l)-6)
		}
		return strings.Join(l, "\n      ")
	}
	s := ""
	if len(miss) > 0 {
		s += fmt.Sprintf("\n   missing (%d):\n      %s", len(miss), clip(miss))
	}
	if len(extra) > 0 {
		s += fmt.Sprintf("\n   unexpected (%d):\n      %s", len(extra), clip(extra))
	}
	return s
}

// matrixKeys renders a matrix result as sorted "labels @ts" keys with values aside.
type point struct {
	key string
	v   float64
}

func matrixPoints(view []clientSeries) ([]point, string) {
	var ps []point
	seen := map[string]bool{}
	dup := ""
	for _, s := range view {
		if seen[s.key] && dup == "" {
			dup = s.key
		}
		seen[s.key] = true
		for _, e := range s.entries {
			ps = append(ps, point{fmt.Sprintf("%s @%d", s.key, e.ts), e.value})
		}
	}
	sort.Slice(ps, func(i, j int) bool { return ps[i].key < ps[j].key })
	return ps, dup
}

func refPoints(ss []refeval.MetricSeries) []point {
	var ps []point
	for _, s := range ss {
		k := refeval.LabelsKey(s.Labels)
		for _, sm := range s.Samples {
			ps = append(ps, point{fmt.Sprintf("%s @%d", k, sm.TsNs), sm.Value})
		}
	}
	sort.Slice(ps, func(i, j int) bool { return ps[i].key < ps[j].key })
	return ps
}

const relTol = 1e-9

func closeEnough(a, b float64) bool {
	if a == b {
		return true
	}
	d := math.Abs(a - b)
	return d <= relTol*math.Max(math.Abs(a), math.Abs(b)) || d < 1e-12
}

func diffPoints(want, got []point) string {
	wk := make([]string, len(want))
	gk := make([]string, len(got))
	wv := map[string]float64{}
	for i, p := range want {
		wk[i] = p.key
		wv[p.key] = p.v
	}
	for i, p := range got {
		gk[i] = p.key
	}
	if d := diffKeys(wk, gk); d != "" {
		return d
	}
	var bad []string
	for _, p := range got {
		if !closeEnough(p.v, wv[p.key]) {
			bad = append(bad, fmt.Sprintf("%s: got %v, reference %v", p.key, p.v, wv[p.key]))
		}
	}
	if len(bad) > 0 {
		if len(bad) > 6 {
			bad = append(bad[:6], "…")
		}
		return "\n   values differ:\n      " + strings.Join(bad, "\n      ")
	}
	return ""
}

package c10

import (
	"testing"

	"qrynverif/evid"
)

func TestProp(t *testing.T) {
	r := evid.New(t, "C10", evid.Config{
		Level: "exploration",
		Rule:  "hostile payload placed in one string-valued position of LogQL / TraceQL / PromQL / Pyroscope / Tempo / URL parameters, request served by the real reader over a recording database; non-trivial: the payload contains ' \\ NUL newline % _ or a comment marker and at least one statement reached the database",
		Assumptions: []string{
			"chsim's lexer follows ClickHouse's Lexer.cpp / ReadHelpers.cpp for literals, comments and identifiers",
			"the intended value of a position is what the query language's own literal syntax yields (json / strconv unquoting)",
			"statements are compared one by one with the shapes a panel of harmless strings produces in the same position and request variant",
		},
	})
	addInject(r)
	r.Main()
}

package c10

import (
	"context"
	"fmt"
	"net/url"
	"regexp"
	"strings"
	"time"
	"unicode"

	"github.com/prometheus/prometheus/model/labels"

	"qrynverif/readersvc"
)

// Structured values: positions whose value qryn SPLITS before rendering (a profile type
// "name:sample_type:sample_unit:period_type:period_unit", a "name{labels}" selector, a
// scoped TraceQL attribute name, a JSON path, a template, a list of matchers). The payload
// is put into ONE part (variant.Part) while the other parts stay harmless, so the overall
// shape stays the one that triggers a specialised rendering of the pieces; every operator
// of the position is covered (variant.Op). The oracle is unchanged; the literals that
// legitimately derive from the value are its pieces (position.alts).

var (
	opsText     = []string{"=", "!=", "=~", "!~"}
	identRe     = regexp.MustCompile(`^[a-zA-Z_][a-zA-Z0-9_]*$`)
	promNameRe  = regexp.MustCompile(`^[a-zA-Z_:][a-zA-Z0-9_:]*$`)
	scopedTail  = regexp.MustCompile(`^[.a-zA-Z0-9_-]+$`)
	tplFieldRe  = regexp.MustCompile(`\{\{\s*\.([a-zA-Z_][a-zA-Z0-9_]*)\s*\}\}`)
	harmless5   = [5]string{"process_cpu", "cpu", "nanoseconds", "cpu", "nanoseconds"}
	scopePrefix = []string{".", "span.", "resource.", ".a.", "span.http."}
)

// pieces of a ':'-separated value: every part, every contiguous run of parts, each also
// with surrounding backticks / white space trimmed (populateTypeId wraps the parts in `...` and the
// selector's Unquote trims backticks: prof/transpiler/transpiler.go, prof/parser/model.go).
func colonPieces(v string, n int) []string {
	parts := strings.SplitN(v, ":", n)
	seen := map[string]bool{}
	var out []string
	add := func(s string) {
		if !seen[s] {
			seen[s] = true
			out = append(out, s)
		}
	}
	for i := range parts {
		for j := i + 1; j <= len(parts); j++ {
			s := strings.Join(parts[i:j], ":")
			add(s)
			add(strings.Trim(s, "`"))
			// detachTypeId trims white space around the name of name{labels}
			add(strings.TrimSpace(s))
			add(strings.Trim(strings.TrimSpace(s), "`"))
			// the selector grammar skips white space before the name only (first part
			// left-trimmed, last part right-trimmed): one-sided trims are derivations too
			for _, t := range []string{strings.TrimLeftFunc(s, unicode.IsSpace), strings.TrimRightFunc(s, unicode.IsSpace)} {
				add(t)
				add(strings.Trim(t, "`"))
			}
		}
	}
	return out
}

func five(part int, p string) string {
	v := harmless5
	v[part%5] = p
	return strings.Join(v[:], ":")
}

// stripScopes: the value with one or more leading scope prefixes removed (tempoService.go
// Values strips "span." then "resource." then "."; attr_condition.go strips one).
func stripScopes(v string) []string {
	var out []string
	seen := map[string]bool{v: true}
	queue := []string{v}
	for len(queue) > 0 {
		cur := queue[0]
		queue = queue[1:]
		for _, pre := range []string{"span.", "resource.", "."} {
			if strings.HasPrefix(cur, pre) {
				n := strings.TrimPrefix(cur, pre)
				if !seen[n] {
					seen[n] = true
					out = append(out, n)
					queue = append(queue, n)
				}
			}
		}
	}
	return out
}

func profLit(p string, tick bool) (string, string, bool) {
	if tick {
		if strings.Contains(p, "`") {
			return "", "", false
		}
		return "`" + p + "`", p, true
	}
	return goLit(p)
}

// the Pyroscope endpoints that take a selector (wrap) — the controllers pass the request
// strings to ProfService unchanged
func profEndpoint(rd *readersvc.Reader, wrap int, sel, tid string) error {
	ctx := context.Background()
	tf, tt := time.Unix(fromS, 0), time.Unix(toS, 0)
	var err error
	switch wrap % 7 {
	case 0:
		_, err = rd.Prof.LabelNames(ctx, []string{sel}, tf, tt)
	case 1:
		_, err = rd.Prof.LabelValues(ctx, []string{sel}, "pod", tf, tt)
	case 2:
		_, err = rd.Prof.MergeStackTraces(ctx, sel, tid, tf, tt)
	case 3:
		err = selectSeries(rd, sel, tid, []string{"pod"})
	case 4:
		lbls := []string{"pod"}
		if curOpt%2 == 1 {
			lbls = nil
		}
		_, err = rd.Prof.TimeSeries(ctx, []string{sel, `{x="y"}`}, lbls, tf, tt)
	case 5:
		_, err = rd.Prof.MergeProfiles(ctx, sel, tid, tf, tt)
	case 6:
		// name{labels} form through the HTTP controller (render-diff; detachTypeId)
		q := url.Values{"leftQuery": {tid + sel}, "rightQuery": {tid + `{service_name="svc"}`},
			"leftFrom": {fmt.Sprint(fromS * 1000)}, "leftUntil": {fmt.Sprint(toS * 1000)}, "rightFrom": {fmt.Sprint(fromS * 1000)}, "rightUntil": {fmt.Sprint(toS * 1000)}}
		if rd.Get("/pyroscope/render-diff?"+q.Encode()).Code >= 400 {
			err = fmt.Errorf("render-diff failed")
		}
	}
	return err
}

// selectSeries calls ProfService.SelectSeries under the option variant: aggregation SUM /
// AVERAGE, grouping as given / none / two labels, step 15 / 60 s.
func selectSeries(rd *readersvc.Reader, sel, tid string, groupBy []string) error {
	ctx := context.Background()
	tf, tt := time.Unix(fromS, 0), time.Unix(toS, 0)
	o := curOpt
	switch (o >> 1) % 3 {
	case 1:
		groupBy = nil
	case 2:
		groupBy = append(append([]string{}, groupBy...), "a")
	}
	step := int64(15)
	if (o>>3)%2 == 1 || o == 5 {
		step = 60
	}
	var err error
	if o%2 == 1 {
		_, err = rd.Prof.SelectSeries(ctx, sel, tid, groupBy, 1, step, tf, tt) // TIME_SERIES_AGGREGATION_TYPE_AVERAGE
	} else {
		_, err = rd.Prof.SelectSeries(ctx, sel, tid, groupBy, 0, step, tf, tt) // ..._SUM
	}
	return err
}

func status(err error) int {
	if err != nil {
		return 1
	}
	return 0
}

const stdTid = "process_cpu:cpu:nanoseconds:cpu:nanoseconds"

func structuredPositions() []*position {
	var ps []*position
	add := func(p *position) { ps = append(ps, p) }
	fivePanel := []string{"abc", "", "123", "a.*b|c", "x_y", "cpu", "a b"}

	// A. Pyroscope __profile_type__ matcher: five ':'-separated parts, every operator
	add(&position{name: "prof.profiletype.part", kind: kExact, tick: true, wraps: 7, parts: 5, ops: 4, panel: fivePanel,
		alts: func(v string) []string { return colonPieces(v, 5) },
		place: func(rd *readersvc.Reader, p string, v variant) outcome {
			l, intended, ok := profLit(five(v.Part, p), v.Tick)
			if !ok {
				return outcome{}
			}
			sel := `{__profile_type__` + opsText[v.Op%4] + l + `, service_name="svc"}`
			return outcome{intended: intended, expressible: true, status: status(profEndpoint(rd, v.Wrap, sel, stdTid))}
		}})
	// B. the other selector names with a specialised rendering, every operator
	special := []string{"__name__", "__period_type__", "__period_unit__", "__sample_type__", "__sample_unit__", "service_name", "__profile_type__", "pod"}
	add(&position{name: "prof.special.matcher", kind: kExact, tick: true, wraps: 7, parts: len(special), ops: 4, panel: fivePanel,
		alts: func(v string) []string { return colonPieces(v, 5) },
		place: func(rd *readersvc.Reader, p string, v variant) outcome {
			l, intended, ok := profLit(p, v.Tick)
			if !ok {
				return outcome{}
			}
			sel := `{a="b", ` + special[v.Part%len(special)] + opsText[v.Op%4] + l + `}`
			return outcome{intended: intended, expressible: true, status: status(profEndpoint(rd, v.Wrap, sel, stdTid))}
		}})
	// C. profile type id parameter of the profile endpoints (and the name{labels} query of
	// render-diff), payload in each of its five parts
	add(&position{name: "prof.typeid.part", kind: kExact, wraps: 4, parts: 5, panel: fivePanel,
		alts: func(v string) []string { return colonPieces(v, 5) },
		place: func(rd *readersvc.Reader, p string, v variant) outcome {
			tid := five(v.Part, p)
			wrap := []int{2, 3, 5, 6}[v.Wrap%4]
			if wrap == 6 && strings.ContainsAny(p, "{") {
				return outcome{} // '{' ends the name part of name{labels}
			}
			return outcome{intended: tid, expressible: true, status: status(profEndpoint(rd, wrap, `{service_name="svc", a!="b"}`, tid))}
		}})
	// D. name{labels}-shaped PromQL selectors
	add(&position{name: "prom.match.metricname", kind: kExact, wraps: 2, panel: []string{"abc", "up", "x_y", "a:b", "http_requests_total"},
		place: func(rd *readersvc.Reader, p string, v variant) outcome {
			if !promNameRe.MatchString(p) {
				return outcome{} // not a metric-name token of PromQL
			}
			path := []string{"/api/v1/series", "/api/v1/label/job/values"}[v.Wrap%2]
			st := get(rd, path, url.Values{"start": {fmt.Sprint(fromS)}, "end": {fmt.Sprint(toS)}, "match[]": {p + `{a="b"}`}})
			return outcome{intended: p, expressible: true, status: st}
		}})
	add(&position{name: "prom.match.namematcher", kind: kExact, wraps: 2, ops: 4, panel: defaultPanel,
		place: func(rd *readersvc.Reader, p string, v variant) outcome {
			l, intended, _ := goLit(p)
			path := []string{"/api/v1/series", "/api/v1/label/job/values"}[v.Wrap%2]
			st := get(rd, path, url.Values{"start": {fmt.Sprint(fromS)}, "end": {fmt.Sprint(toS)}, "match[]": {`{__name__` + opsText[v.Op%4] + l + `, a="b"}`}})
			return outcome{intended: intended, expressible: true, status: st}
		}})
	add(&position{name: "prom.select.name", kind: kExact, wraps: 2, ops: 4, panel: defaultPanel,
		alts: func(v string) []string { return []string{"^(?:" + v + ")$"} },
		place: func(rd *readersvc.Reader, p string, v variant) outcome {
			mt := []labels.MatchType{labels.MatchEqual, labels.MatchNotEqual, labels.MatchRegexp, labels.MatchNotRegexp}[v.Op%4]
			m, err := labels.NewMatcher(mt, "__name__", p)
			if err != nil {
				return outcome{}
			}
			hints := promHints(v)
			q, err := rd.Prom.SetOidAndDB(context.Background()).Querier(context.Background(), hints.Start, hints.End)
			if err != nil {
				return outcome{intended: p, expressible: true, status: 1}
			}
			set := q.Select(false, hints, m, labels.MustNewMatcher(labels.MatchEqual, "a", "b"))
			for set.Next() {
			}
			return outcome{intended: p, expressible: true, status: status(set.Err())}
		}})

	// H. several matchers / several match[] values, every operator (the POST-form variant of
	// these endpoints is rejected before any SQL: 400/405/500)
	multi := func(name, path string, unit int64, lang func(string) (string, string, bool), first string) {
		add(&position{name: name, kind: kExact, parts: 3, ops: 4, big: true, panel: defaultPanel,
			place: func(rd *readersvc.Reader, p string, v variant) outcome {
				l, intended, ok := lang(p)
				if !ok {
					return outcome{}
				}
				m := `c` + opsText[v.Op%4] + l
				var match []string
				switch v.Part % 3 {
				case 0:
					match = []string{first + `{` + m + `, a="b", d=~"e.*"}`}
				case 1:
					match = []string{first + `{a="b", d=~"e.*", ` + m + `}`}
				default:
					match = []string{first + `{a="b"}`, first + `{d!="e", ` + m + `}`, first + `{f=~"g"}`}
				}
				q := url.Values{"start": {fmt.Sprint(fromS * unit)}, "end": {fmt.Sprint(toS * unit)}, "match[]": match}
				return outcome{intended: intended, expressible: true, status: get(rd, path, q)}
			}})
	}
	jl := func(p string) (string, string, bool) { return jsonLit(p) }
	multi("loki.series.multimatch", "/loki/api/v1/series", 1e9, jl, "")
	multi("loki.label.multimatch", "/loki/api/v1/label/job/values", 1e9, jl, "")
	multi("prom.series.multimatch", "/api/v1/series", 1, goLit, "up")
	multi("prom.label.multimatch", "/api/v1/label/job/values", 1, goLit, "up")

	// E. TraceQL attribute names with scope prefixes, every operator form
	add(&position{name: "traceql.scoped.name", kind: kExact, parts: len(scopePrefix), ops: 7, big: true,
		panel: []string{"abc", "a.b", "x_y", "http.status_code", "a1", "a-b"}, alts: stripScopes,
		place: func(rd *readersvc.Reader, p string, v variant) outcome {
			pre := scopePrefix[v.Part%len(scopePrefix)]
			ok := scopedTail.MatchString(p)
			if pre == "." {
				ok = traceqlName.MatchString(p)
			}
			if !ok {
				return outcome{} // not inside one Label_name token
			}
			name := pre + p
			var q string
			switch v.Op % 7 {
			case 0, 1, 2, 3:
				q = `{` + name + opsText[v.Op%7] + `"v"}`
			case 4:
				q = `{` + name + `>10 && .b="c"}`
			case 5:
				q = `{.b="c"} | avg(` + name + `) > 1`
			case 6:
				q = `{` + name + `="v" || ` + name + `<=2.5}`
			}
			st := get(rd, "/api/search", url.Values{"q": {q}, "start": {fmt.Sprint(fromS)}, "end": {fmt.Sprint(toS)}, "limit": {"10"}})
			return outcome{intended: name, expressible: true, status: st}
		}})
	add(&position{name: "tempo.tag.scoped", kind: kExact, parts: 4, wraps: 3, big: true, panel: []string{"abc", "a.b", "x_y", "123", "a b", "name"}, alts: stripScopes,
		place: func(rd *readersvc.Reader, p string, v variant) outcome {
			if p == "" || strings.Contains(p, "/") {
				return outcome{}
			}
			tag := []string{"span.", "resource.", ".", "span.resource."}[v.Part%4] + p
			q := url.Values{}
			path := "/api/search/tag/" + url.PathEscape(tag) + "/values"
			switch v.Wrap % 3 {
			case 1:
				path = "/api/v2/search/tag/" + url.PathEscape(tag) + "/values"
				q = url.Values{"start": {fmt.Sprint(fromS)}, "end": {fmt.Sprint(toS)}, "q": {`{.a="b"}`}}
			case 2:
				path = "/api/v2/search/tag/" + url.PathEscape(tag) + "/values"
			}
			return outcome{intended: tag, expressible: true, status: get(rd, path, q)}
		}})

	// F. LogQL json path parameters of every shape
	add(&position{name: "logql.json.shape", kind: kExact, list: true, wraps: len(logqlWraps), parts: 7, panel: defaultPanel,
		place: func(rd *readersvc.Reader, p string, v variant) outcome {
			inner, innerVal, ok := jsonLit(p)
			if !ok {
				return outcome{}
			}
			var params string
			quote := func(path string) string { l, _, _ := jsonLit(path); return l }
			switch v.Part % 7 {
			case 0:
				params = `x=` + quote(`a.b[`+inner+`]`)
			case 1:
				params = `x=` + quote(`[`+inner+`].c`)
			case 2:
				params = `x=` + quote(`a[`+inner+`][0]`)
			case 3:
				params = `x=` + quote(`a[0][`+inner+`].b`)
			case 4:
				params = `x="a.b", y=` + quote(`c[`+inner+`]`) + `, z="d[1]"`
			case 5:
				if !identRe.MatchString(p) {
					return outcome{}
				}
				params = `x=` + quote(`a.`+p+`.b[0]`)
			case 6:
				if !identRe.MatchString(p) {
					return outcome{}
				}
				params = p + `="a.b[0]"`
			}
			q := logqlWraps[v.Wrap%len(logqlWraps)](`{a="b"} | json ` + params + ` | x!=""`)
			st := get(rd, "/loki/api/v1/query_range", url.Values{"query": {q}, "start": {fmt.Sprint(fromS * 1e9)}, "end": {fmt.Sprint(toS * 1e9)}, "step": {"5"}, "limit": {"10"}})
			return outcome{intended: innerVal, expressible: true, status: st}
		}})

	// G. line_format / label_format templates of every shape. They normally run in the
	// in-process engine; where a planner renders them in SQL (format('text{0}', labels['a']))
	// the literal is the template text with its {{.field}} actions numbered.
	add(&position{name: "logql.template.shape", kind: kExact, tick: true, wraps: len(logqlWraps), parts: 8, panel: defaultPanel,
		alts: func(v string) []string {
			i := -1
			return []string{tplFieldRe.ReplaceAllStringFunc(v, func(string) string { i++; return fmt.Sprintf("{%d}", i) })}
		},
		place: func(rd *readersvc.Reader, p string, v variant) outcome {
			var tpl, stage string
			switch v.Part % 8 {
			case 0:
				tpl, stage = p+"{{.a}}", "line_format $T"
			case 1:
				tpl, stage = "{{.a}}"+p, "line_format $T"
			case 2:
				tpl, stage = "{{.a}} "+p+" {{.c}}", "line_format $T"
			case 3:
				tpl, stage = "x"+p+"y", "line_format $T"
			case 4:
				tpl, stage = p+"{{.a}}", "label_format c=$T"
			case 5:
				tpl, stage = "{{.a}}"+p, "label_format c=$T"
			case 6:
				tpl, stage = p, "label_format d=a, c=$T"
			case 7:
				tpl, stage = "{{.a}}"+p+"{{.c}}", "label_format c=$T, d=$T"
			}
			l, intended, ok := lit(tpl, v.Tick)
			if !ok {
				return outcome{}
			}
			q := logqlWraps[v.Wrap%len(logqlWraps)](`{a="b"} | ` + strings.ReplaceAll(stage, "$T", l))
			st := get(rd, "/loki/api/v1/query_range", url.Values{"query": {q}, "start": {fmt.Sprint(fromS * 1e9)}, "end": {fmt.Sprint(toS * 1e9)}, "step": {"5"}, "limit": {"10"}})
			return outcome{intended: intended, expressible: true, status: st}
		}})
	return ps
}

package c10

import (
	"encoding/json"
	"strconv"
	"strings"
	"unicode/utf8"

	"pgregory.net/rapid"
)

// ---- payloads --------------------------------------------------------------------------

// Alphabet of hostile fragments (DESIGN.md C10): quote/backslash runs, \' , '-- , comment
// markers, NUL, newlines, LIKE wildcards, multi-byte and invalid UTF-8.
var fragments = []string{
	"'", "''", "'''", `\`, `\\`, `\\\`, `\'`, `\\'`, `'\`, "'--", "--", "/*", "*/", "#", "\x00", "\n", "\r", "\r\n", "\t", "\b", "\x1a",
	"%", "_", `\%`, `\_`, "%%", `"`, "`", ";", ")", "(", "))", "' OR '1'='1", "') UNION ALL SELECT 1 --", "é", "☺", "\xff", "\xc3", "\xe2\x82",
	"a", "b", "x", "0", "1", " ", ".", "*", "|", "[", "]", "{", "}", "$", "^", "+", "?", ",", "=", "~", "!", "<", ">", "/", ":", "-",
}

func genPayload(rt *rapid.T) string {
	switch rapid.IntRange(0, 9).Draw(rt, "pk") {
	case 0: // a single byte
		return string([]byte{rapid.Byte().Draw(rt, "byte")})
	case 1: // a run of quotes and backslashes
		n := rapid.IntRange(1, 6).Draw(rt, "n")
		var b strings.Builder
		for i := 0; i < n; i++ {
			b.WriteString(rapid.SampledFrom([]string{"'", `\`, `"`, "`"}).Draw(rt, "q"))
		}
		return b.String()
	case 2: // identifier-like text for the unquoted positions (lexer-restricted names)
		n := rapid.IntRange(1, 5).Draw(rt, "n")
		var b strings.Builder
		b.WriteString(rapid.SampledFrom([]string{"a", "_", "http", "x"}).Draw(rt, "h"))
		for i := 0; i < n; i++ {
			b.WriteString(rapid.SampledFrom([]string{".", "-", "--", "_", "__", "a", "b1", "%", "'", "/*", "#", "\\", "é", ";", ")"}).Draw(rt, "t"))
		}
		return b.String()
	case 3: // regex values that are (anchored) alternations of plain words, one branch holding an
		// escaped pipe, a trailing backslash or another hostile byte: reaches planners that
		// split an alternation on '|' and render the branches one by one
		n := rapid.IntRange(1, 4).Draw(rt, "n")
		var br []string
		for i := 0; i < n; i++ {
			br = append(br, rapid.SampledFrom([]string{"abc", "x1", "job", "d_e", `a\|b`, `x\`, `a\\`, `\|`, "it's", `q\'`, "a%", "b_c", `a\.b`, "", "é"}).Draw(rt, "br"))
		}
		body := strings.Join(br, "|")
		switch rapid.IntRange(0, 4).Draw(rt, "anchor") {
		case 1:
			return "^(" + body + ")$"
		case 2:
			return "^(?:" + body + ")$"
		case 3:
			return "(" + body + ")"
		case 4:
			return "^" + body + "$"
		}
		return body
	default:
		// hostile fragments at the start / middle / end of harmless text
		n := rapid.IntRange(1, 6).Draw(rt, "n")
		var b strings.Builder
		for i := 0; i < n; i++ {
			if rapid.IntRange(0, 3).Draw(rt, "plain") == 0 {
				b.WriteString(rapid.SampledFrom([]string{"abc", "x1", "job", "val"}).Draw(rt, "w"))
			} else if rapid.IntRange(0, 9).Draw(rt, "rawbyte") == 0 {
				b.WriteByte(rapid.Byte().Draw(rt, "rb"))
			} else {
				b.WriteString(rapid.SampledFrom(fragments).Draw(rt, "f"))
			}
		}
		return b.String()
	}
}

// nonTrivial: the payload contains one of ' \ NUL newline % _ or a comment marker.
func nonTrivial(p string) bool {
	return strings.ContainsAny(p, "'\\\x00\n%_#") || strings.Contains(p, "--") || strings.Contains(p, "/*")
}

// ---- literal syntaxes of the query languages --------------------------------------------

// jsonLit renders p as the "..." literal of LogQL / TraceQL, whose value is obtained with
// json.Unmarshal (logql_parser/model_v2.go QuotedString.Unquote). The lexer rule is
// "([^"\\]|\\.)*" . Invalid UTF-8 cannot be expressed (json replaces it by U+FFFD): the
// bytes are written raw and the intended value is whatever json.Unmarshal yields.
func jsonLit(p string) (lit string, intended string, ok bool) {
	var b strings.Builder
	b.WriteByte('"')
	for i := 0; i < len(p); {
		c := p[i]
		switch {
		case c == '"' || c == '\\':
			b.WriteByte('\\')
			b.WriteByte(c)
			i++
		case c < 0x20 || c == 0x7f:
			b.WriteString(`\u00`)
			b.WriteByte("0123456789abcdef"[c>>4])
			b.WriteByte("0123456789abcdef"[c&15])
			i++
		default:
			_, w := utf8.DecodeRuneInString(p[i:])
			b.WriteString(p[i : i+w])
			i += w
		}
	}
	b.WriteByte('"')
	lit = b.String()
	if err := json.Unmarshal([]byte(lit), &intended); err != nil {
		return lit, "", false
	}
	return lit, intended, true
}

// tickLit renders p as the `...` literal of LogQL / TraceQL (Unquote: \` -> `, then every
// backslash and double quote is escaped and the text is read as JSON, so control bytes
// are not expressible). The lexer rule is `([^`\\]|\\.)*` : a backslash pairs with the next
// byte, so a payload with a backslash before a backtick or at the end is not expressible.
func tickLit(p string) (lit string, intended string, ok bool) {
	if strings.ContainsAny(p, "\\") {
		return "", "", false
	}
	for i := 0; i < len(p); i++ {
		if p[i] < 0x20 {
			return "", "", false
		}
	}
	lit = "`" + strings.ReplaceAll(p, "`", "\\`") + "`"
	s := lit[1 : len(lit)-1]
	s = strings.ReplaceAll(s, "\\`", "`")
	s = strings.ReplaceAll(s, `\`, `\\`)
	s = strings.ReplaceAll(s, `"`, `\"`)
	if err := json.Unmarshal([]byte(`"`+s+`"`), &intended); err != nil {
		return lit, "", false
	}
	return lit, intended, true
}

// goLit: the "..." literal read with strconv.Unquote (Pyroscope selectors, Tempo tags,
// PromQL): every byte string is expressible.
func goLit(p string) (lit string, intended string, ok bool) {
	lit = strconv.Quote(p)
	v, err := strconv.Unquote(lit)
	if err != nil {
		return lit, "", false
	}
	return lit, v, true
}

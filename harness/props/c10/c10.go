// Package c10 decides property C10: request strings can never change the structure of SQL
// sent to ClickHouse. Every string-valued position of the query languages and URL
// parameters is fed hostile payloads through the real reader (controllers, services,
// planners) over a recording fake database; every statement that reaches the database is
// tokenised with the reference ClickHouse lexer (chsim).
//
// Oracle, per (position, payload):
//
//	(a) every statement lexes completely;
//	(b) every statement's token shape (literal contents abstracted) is one of the shapes the
//	    same position produces for a panel of harmless strings;
//	(c) literals: every string literal of the statements that is not a constant of the
//	    position (a literal some panel run produces too) must carry the intended value
//	    — decode to it exactly, or for LIKE positions be a pattern %core% whose un-escaped
//	    core is the value. (When no literal carries the value the position did not reach SQL;
//	    that is counted as class "not-carried", not reported.) "Intended value" is what the
//	    query language's own literal syntax yields for the text that was sent.
package c10

import (
	"fmt"
	"regexp"
	"sort"
	"strings"
	"sync"

	"pgregory.net/rapid"

	"qrynverif/chsim"
	"qrynverif/evid"
	"qrynverif/readersvc"
)

type c10case struct {
	Pos     string   `json:"pos"`
	Payload evid.Str `json:"payload"`
	Var     variant  `json:"var"`
}

var (
	positions  = allPositions()
	posByName  = map[string]*position{}
	rdOnce     sync.Once
	rd         *readersvc.Reader
	panelMu    sync.Mutex
	panelCache = map[string]*panelInfo{}
)

var basePositions, structPositions []*position

func init() {
	st := map[string]bool{}
	for _, p := range structuredPositions() {
		st[p.name] = true
	}
	for _, p := range positions {
		posByName[p.name] = p
		if st[p.name] {
			structPositions = append(structPositions, p)
		} else {
			basePositions = append(basePositions, p)
		}
	}
}

type panelInfo struct {
	shapes map[string]string // statement shape -> panel member that produced it
	consts map[string]bool   // literal values some panel member produces
	err    error
	na     bool
}

func reader() *readersvc.Reader {
	rdOnce.Do(func() { rd = newReader() })
	return rd
}

// statements runs the request and returns the non-auxiliary statements it sent.
func statements(pos *position, p string, v variant) (outcome, []string) {
	r := reader()
	r.DB.ResetLog()
	bigMode.Store(v.Big)
	curOpt = v.Opt
	out := pos.place(r, p, v)
	curOpt = 0
	var st []string
	for _, q := range r.DB.Log() {
		if readersvc.Classify(q) == readersvc.KindVersion {
			continue
		}
		st = append(st, q)
	}
	return out, st
}

// shapeOf: token shape of one statement; for list positions a comma-separated run of
// literals counts as one literal.
func shapeOf(toks []chsim.Token, list bool) string {
	// (list is kept for documentation: since regex alternations may legitimately be rendered
	// as lists, runs of literals are collapsed for every position)
	var parts []string
	for i := 0; i < len(toks); i++ {
		s := toks[i].Shape()
		if s == "'S'" || s == "N" {
			j := i
			for j+2 < len(toks) && toks[j+1].Text == "," && (toks[j+2].Kind == chsim.TokString || toks[j+2].Kind == chsim.TokNumber) {
				j += 2
			}
			if j > i {
				parts = append(parts, "L")
				i = j
				continue
			}
		}
		parts = append(parts, s)
	}
	return strings.Join(parts, " ")
}

func literals(toks []chsim.Token) []string {
	var out []string
	for _, t := range toks {
		if t.Kind == chsim.TokString {
			out = append(out, t.Val)
		}
	}
	return out
}

func panelFor(pos *position, v variant) *panelInfo {
	key := fmt.Sprintf("%s|%v|%d|%v|%d|%d|%d", pos.name, v.Tick, v.Wrap, v.Big, v.Part, v.Op, v.Opt)
	panelMu.Lock()
	defer panelMu.Unlock()
	if pi, ok := panelCache[key]; ok {
		return pi
	}
	pi := &panelInfo{shapes: map[string]string{}, consts: map[string]bool{}}
	members := 0
	for _, h := range pos.panel {
		out, st := statements(pos, h, v)
		if !out.expressible || len(st) == 0 {
			continue
		}
		members++
		for _, q := range st {
			toks, err := chsim.Tokens(q)
			if err != nil {
				pi.err = fmt.Errorf("panel member %q of %s does not lex: %v\n%s", h, pos.name, err, q)
				panelCache[key] = pi
				return pi
			}
			pi.shapes[shapeOf(toks, pos.list)] = h
			// every literal a harmless run produces is a constant of the position (or the
			// harmless string itself): none of them derives from the payload under test
			for _, l := range literals(toks) {
				pi.consts[l] = true
			}
		}
	}
	if members < 2 {
		pi.na = true // this request variant never reaches the database (e.g. topk over line_format)
	}
	panelCache[key] = pi
	return pi
}

func gen(rt *rapid.T) c10case {
	// half of the cases go to the structured-value positions (they have many variants)
	pool := basePositions
	if rapid.Bool().Draw(rt, "structured") {
		pool = structPositions
	}
	pos := rapid.SampledFrom(pool).Draw(rt, "pos")
	c := c10case{Pos: pos.name, Payload: evid.Str(genPayload(rt))}
	if pos.tick && rapid.IntRange(0, 3).Draw(rt, "tick") == 0 {
		c.Var.Tick = true
	}
	if pos.wraps > 1 {
		c.Var.Wrap = rapid.IntRange(0, pos.wraps-1).Draw(rt, "wrap")
	}
	if pos.big && rapid.IntRange(0, 2).Draw(rt, "big") == 0 {
		c.Var.Big = true
	}
	if pos.parts > 1 {
		c.Var.Part = rapid.IntRange(0, pos.parts-1).Draw(rt, "part")
	}
	if pos.ops > 1 {
		c.Var.Op = rapid.IntRange(0, pos.ops-1).Draw(rt, "op")
	}
	// request options: half of the cases use the defaults, the rest one of the variants
	if rapid.Bool().Draw(rt, "nondefault") {
		c.Var.Opt = rapid.IntRange(1, 7).Draw(rt, "opt")
	}
	return c
}

// lineFilterLikeRegion: signature of known finding C10-line-filter-like-escape — the text
// that ends up as the LIKE core (the payload, or the literal of a literal regex) ends with
// a quote, or holds a backslash followed by \ % _ or the end of the text.
func lineFilterLikeRegion(core string) bool {
	if strings.HasSuffix(core, "'") {
		return true
	}
	for i := 0; i < len(core); i++ {
		if core[i] == '\\' && (i+1 == len(core) || core[i+1] == '\\' || core[i+1] == '%' || core[i+1] == '_') {
			return true
		}
	}
	return false
}

func pred(c c10case, o *evid.Obs) error {
	pos := posByName[c.Pos]
	if pos == nil {
		return fmt.Errorf("unknown position %q", c.Pos)
	}
	restore := readersvc.Quiet()
	defer restore()
	p := string(c.Payload)
	pi := panelFor(pos, c.Var)
	if pi.err != nil {
		return pi.err
	}
	o.Tag("pos:"+pos.name, fmt.Sprintf("opt:%d", c.Var.Opt))
	if pi.na {
		o.Discard("variant-not-applicable")
		o.Tag("na:" + pos.name)
		return nil
	}
	out, st := statements(pos, p, c.Var)
	if !out.expressible {
		o.Discard("not-expressible")
		return nil
	}
	if len(st) == 0 {
		// rejected before any SQL was built (query-language lexer/parser, hex decoding, routing)
		o.Discard(fmt.Sprintf("rejected-before-sql:%d", out.status))
		return nil
	}
	if nonTrivial(p) {
		o.NonTrivial()
	}
	var lits []string
	for i, q := range st {
		toks, err := chsim.Tokens(q)
		if err != nil {
			return fmt.Errorf("(a) statement %d for %s with payload %q does not lex: %v\n%s", i, pos.name, p, err, q)
		}
		sh := shapeOf(toks, pos.list)
		if _, ok := pi.shapes[sh]; !ok {
			return fmt.Errorf("(b) statement %d for %s with payload %q has a token structure no harmless string produces:\n%s\nshape: %s", i, pos.name, p, q, sh)
		}
		lits = append(lits, literals(toks)...)
	}
	if pos.kind == kFree {
		o.Tag("structure-only")
		return nil
	}
	kind := pos.kind
	// known finding: LIKE escaping of the line filter
	if (kind == kLike || kind == kRegexLine) && !o.Witness && knownLineFilter {
		core := out.intended
		if kind == kRegexLine {
			if l, _, ok := regexLiteral(out.intended); ok {
				core = l
			} else {
				core = ""
			}
		}
		if lineFilterLikeRegion(core) {
			o.Known("C10-line-filter-like-escape")
			return nil
		}
	}
	carried := 0
	var stray []string
	var alts map[string]bool
	if pos.alts != nil {
		alts = map[string]bool{}
		for _, a := range pos.alts(out.intended) {
			alts[a] = true
		}
	}
	if kind == kExact && strings.Contains(out.intended, "|") {
		// a regex alternation may legitimately be rendered branch by branch
		if alts == nil {
			alts = map[string]bool{}
		}
		for _, a := range alternationPieces(out.intended) {
			alts[a] = true
		}
	}
	for _, l := range lits {
		if alts[l] {
			carried++ // a legitimate piece / derived form of the intended value
			continue
		}
		if dateLit.MatchString(l) {
			continue // a day derived from the request's (or, without start/end, today's) time range
		}
		if pi.consts[l] {
			// a constant of the position; it may coincide with the intended value
			if kind != kAbsent && accepts(kind, out.intended, l) {
				carried++
			}
			continue
		}
		if kind != kAbsent && accepts(kind, out.intended, l) {
			carried++
			continue
		}
		stray = append(stray, l)
	}
	if len(stray) > 0 {
		sort.Strings(stray)
		return fmt.Errorf("(c) %s with payload %q (intended value %q): SQL literal(s) %q are neither constants of the position nor the intended value\n%s", pos.name, p, out.intended, stray, strings.Join(st, "\n"))
	}
	if kind == kAbsent {
		o.Tag("absent-ok")
		return nil
	}
	if carried == 0 {
		// The position did not reach SQL at all (e.g. the >= 15 s metrics shortcut drops
		// label filters — a C08 matter). C10 is satisfied vacuously: no user byte is in the
		// statement. Counted, so a generator that never reaches SQL is visible.
		o.Tag("not-carried", "not-carried:"+pos.name)
		return nil
	}
	o.Tag("carried")
	return nil
}

var dateLit = regexp.MustCompile(`^\d{4}-\d{2}-\d{2}$`)

// alternationPieces: the branches of a (possibly anchored / grouped) regex alternation,
// split at unescaped '|', each also with its backslash escapes removed.
func alternationPieces(re string) []string {
	s := re
	for _, w := range [][2]string{{"^(?:", ")$"}, {"^(", ")$"}, {"(?:", ")"}, {"(", ")"}, {"^", "$"}} {
		if strings.HasPrefix(s, w[0]) && strings.HasSuffix(s, w[1]) && len(s) >= len(w[0])+len(w[1]) {
			s = s[len(w[0]) : len(s)-len(w[1])]
		}
	}
	var out []string
	var cur strings.Builder
	flush := func() {
		raw := cur.String()
		out = append(out, raw)
		var un strings.Builder
		for i := 0; i < len(raw); i++ {
			if raw[i] == '\\' && i+1 < len(raw) {
				i++
			}
			un.WriteByte(raw[i])
		}
		out = append(out, un.String())
		cur.Reset()
	}
	for i := 0; i < len(s); i++ {
		switch {
		case s[i] == '\\' && i+1 < len(s):
			cur.WriteByte(s[i])
			cur.WriteByte(s[i+1])
			i++
		case s[i] == '|':
			flush()
		default:
			cur.WriteByte(s[i])
		}
	}
	flush()
	return out
}

// knownLineFilter: exclude the region of finding C10-line-filter-like-escape from the main
// campaign (set to false once the fix is in the tree under test; the witness then runs as a
// regression).
var knownLineFilter = false

func addInject(r *evid.Run) {
	evid.Add(r, evid.Prop[c10case]{Name: "inject", Quick: 6000, Thorough: 60000, Gen: gen, Pred: pred})
}

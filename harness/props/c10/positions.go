package c10

import (
	"context"
	"database/sql/driver"
	"fmt"
	"net/url"
	"regexp"
	"regexp/syntax"
	"strings"
	"sync/atomic"
	"time"

	clcfg "github.com/metrico/cloki-config/config"
	"github.com/prometheus/prometheus/model/labels"
	"github.com/prometheus/prometheus/storage"

	"qrynverif/chsim"
	"qrynverif/fakesql"
	"qrynverif/readersvc"
)

// matchKind says how the intended value must appear among the SQL string literals.
type matchKind int

const (
	kExact     matchKind = iota // a literal decodes to the value
	kLike                       // a LIKE pattern %core% whose un-escaped core is the value
	kRegexLine                  // line-filter regex: exact (match) or LIKE core of its literal (like/ilike)
	kRegexpFn                   // | regexp "...": the regex with its (?P<name> prefixes reduced to "("
	kAbsent                     // the value must not reach SQL at all (templates: in-process stage)
	kFree                       // structure only ((a) and (b)); used where the position is a path/identifier
)

// variant of a request: literal syntax, surrounding query shape, database answers.
type variant struct {
	Tick bool `json:"tick,omitempty"` // `...` instead of "..." where the language has both
	Wrap int  `json:"wrap,omitempty"` // LogQL: 0 log query, 1 rate[5s], 2 sum by count_over_time[1m], 3 topk/quantile
	Big  bool `json:"big,omitempty"`  // complexity probes answer 2.5e7 (TraceQL / label-values complex path)
	Part int  `json:"part,omitempty"` // structured values: which part holds the payload
	Op   int  `json:"op,omitempty"`   // structured values: which operator / form
	Opt  int  `json:"opt,omitempty"`  // non-default request options (see curOpt)
}

// outcome of placing a payload.
type outcome struct {
	intended    string
	expressible bool
	status      int // HTTP status, or 0 ok / 1 error for direct service calls
}

type position struct {
	name string
	kind matchKind
	// list: the position legitimately renders a variable-length list of literals (JSON path)
	list bool
	// place performs the request with p placed in the position.
	place func(rd *readersvc.Reader, p string, v variant) outcome
	panel []string
	// wraps/ticks the position supports (for the generator)
	wraps int
	tick  bool
	big   bool
	// alts: further literal values that legitimately derive from the intended value in this
	// position (e.g. "<sample type>:<unit>")
	alts func(intended string) []string
	// structured values (structured.go): number of parts / operator forms
	parts int
	ops   int
}

const (
	fromS = int64(1700000000)
	toS   = int64(1700003600)
)

var defaultPanel = []string{"abc", "", "123", "a.*b|c", "(?i)abc", "a b", "x_y", "12.5", "abc|def", "^(abc|d1|e_f)$"}

// mode of the fake database, read by the handler
var bigMode atomic.Bool

func newReader() *readersvc.Reader {
	// a database name is part of every deployment's configuration (Tempo search renders
	// `<name>`.table); an empty one would render an empty quoted identifier
	return readersvc.NewReaderCfg(readersvc.Scripted(func(ctx context.Context, q string, args []driver.NamedValue) (*fakesql.Result, error) {
		if readersvc.Classify(q) == readersvc.KindComplexity {
			n := int64(1)
			if bigMode.Load() {
				// above COMPLEXITY_THRESHOLD (1e7, traceql/transpiler/complexity_evaluator.go): the
				// complex path runs ceil(n / 1e7) = 3 portions; the label-values estimate only
				// needs > 10000
				n = 25000000
			}
			return fakesql.Rows([]string{"c"}, []any{n}), nil
		}
		return &fakesql.Result{FailAfter: -1}, nil
	}), &clcfg.ClokiBaseDataBase{Name: "qryn"})
}

func lit(p string, tick bool) (string, string, bool) {
	if tick {
		return tickLit(p)
	}
	return jsonLit(p)
}

// curOpt is the option variant of the request being placed (set by statements()). get()
// and the direct service calls apply it, so that EVERY position is exercised under the
// non-default options of its request as well (variant.Opt):
//
//	LogQL query_range   1 direction=forward  2 instant query (/loki/api/v1/query)  3 step=60
//	                    4 limit=1000, step=15  5 step=1
//	label / series APIs odd: without start/end (the controller's now-based defaults)
//	/api/search         1 minDuration+maxDuration  2 without start/end  3 limit=100, minDuration=2s
//	/api/v2/search/...  odd: limit=5
//	Prometheus Select   hints: raw / down-sampled x {plain, rate / sum_over_time by (a), no function / count_over_time}
//	Pyroscope           SelectSeries: aggregation SUM / AVERAGE x group by {pod} / none / {pod, a} x step 15 / 60;
//	                    TimeSeries: with / without label names
var curOpt int

func applyOpt(path string, q url.Values) (string, url.Values) {
	o := curOpt
	if o == 0 {
		return path, q
	}
	c := url.Values{}
	for k, v := range q {
		c[k] = v
	}
	switch {
	case path == "/loki/api/v1/query_range":
		switch o % 6 {
		case 1:
			c.Set("direction", "forward")
		case 2:
			path = "/loki/api/v1/query"
			c.Set("time", c.Get("end"))
			c.Del("start")
			c.Del("end")
			c.Del("step")
		case 3:
			c.Set("step", "60")
		case 4:
			c.Set("limit", "1000")
			c.Set("step", "15")
		case 5:
			c.Set("step", "1")
		}
	case strings.Contains(path, "/label/") || strings.HasSuffix(path, "/series"):
		if o%2 == 1 {
			c.Del("start")
			c.Del("end")
		}
	case path == "/api/search":
		switch o % 4 {
		case 1:
			c.Set("minDuration", "1ms")
			c.Set("maxDuration", "5s")
		case 2:
			c.Del("start")
			c.Del("end")
		case 3:
			c.Set("limit", "100")
			c.Set("minDuration", "2s")
		}
	case strings.HasPrefix(path, "/api/v2/search/"):
		if o%2 == 1 {
			c.Set("limit", "5")
		}
	}
	return path, c
}

// promHints: the SelectHints variants (raw path and down-sampled path, with and without
// range functions and grouping).
func promHints(v variant) *storage.SelectHints {
	list := []storage.SelectHints{
		{Start: fromS * 1000, End: toS * 1000, Step: 1000},
		{Start: 1699999995000, End: toS * 1000, Step: 30000, Func: "avg_over_time", Range: 300000},
		{Start: fromS*1000 + 1, End: toS * 1000, Step: 15000, Func: "rate", Range: 60000},
		{Start: 1699999995000, End: toS * 1000, Step: 30000, Func: "sum_over_time", Range: 60000, By: true, Grouping: []string{"a"}},
		{Start: fromS * 1000, End: toS * 1000, Step: 120000, Func: "max_over_time", Range: 60000},
		{Start: 1699999995000, End: toS * 1000, Step: 30000, Func: "count_over_time", Range: 300000},
		{Start: 1699999995000, End: toS * 1000, Step: 30000},
		{Start: 1699999995000, End: toS * 1000, Step: 60000, Func: "last_over_time", Range: 300000, Grouping: []string{"a"}},
	}
	h := list[((v.Wrap%2)+2*v.Opt)%len(list)]
	return &h
}

func get(rd *readersvc.Reader, path string, q url.Values) int {
	path, q = applyOpt(path, q)
	target := path
	if len(q) > 0 {
		target += "?" + q.Encode()
	}
	return rd.Get(target).Code
}

// ---- LogQL -----------------------------------------------------------------------------

var logqlWraps = []func(sel string) string{
	func(s string) string { return s },
	func(s string) string { return "rate(" + s + "[5s])" },
	func(s string) string { return "sum by (a) (count_over_time(" + s + "[1m]))" },
	func(s string) string { return "topk(2, sum by (a) (rate(" + s + "[5s])))" },
}

func logqlPos(name string, kind matchKind, tmpl string, list bool) *position {
	return &position{name: name, kind: kind, list: list, wraps: len(logqlWraps), tick: true, panel: defaultPanel,
		place: func(rd *readersvc.Reader, p string, v variant) outcome {
			l, intended, ok := lit(p, v.Tick)
			if !ok {
				return outcome{}
			}
			q := logqlWraps[v.Wrap%len(logqlWraps)](strings.ReplaceAll(tmpl, "$L", l))
			st := get(rd, "/loki/api/v1/query_range", url.Values{"query": {q}, "start": {fmt.Sprint(fromS * 1e9)}, "end": {fmt.Sprint(toS * 1e9)},
				"step": {"5"}, "limit": {"10"}})
			return outcome{intended: intended, expressible: true, status: st}
		}}
}

// ---- all positions ---------------------------------------------------------------------

func allPositions() []*position {
	var ps []*position
	add := func(p *position) { ps = append(ps, p) }

	// LogQL stream selector values
	add(logqlPos("logql.matcher.eq", kExact, `{a=$L}`, false))
	add(logqlPos("logql.matcher.neq", kExact, `{b="x", a!=$L}`, false))
	add(logqlPos("logql.matcher.re", kExact, `{a=~$L}`, false))
	add(logqlPos("logql.matcher.nre", kExact, `{b="x", a!~$L}`, false))
	// line filters
	add(logqlPos("logql.line.contains", kLike, `{a="b"} |= $L`, false))
	add(logqlPos("logql.line.notcontains", kLike, `{a="b"} != $L`, false))
	add(logqlPos("logql.line.re", kRegexLine, `{a="b"} |~ $L`, false))
	add(logqlPos("logql.line.nre", kRegexLine, `{a="b"} !~ $L`, false))
	// label filters (on stream labels and on extracted labels)
	add(logqlPos("logql.labelfilter.eq", kExact, `{a="b"} | c=$L`, false))
	add(logqlPos("logql.labelfilter.neq", kExact, `{a="b"} | c!=$L`, false))
	add(logqlPos("logql.labelfilter.re", kExact, `{a="b"} | c=~$L`, false))
	add(logqlPos("logql.labelfilter.nre", kExact, `{a="b"} | c!~$L`, false))
	add(logqlPos("logql.labelfilter.json.eq", kExact, `{a="b"} | json x="y" | x=$L or a=$L`, false))
	add(logqlPos("logql.labelfilter.json.re", kExact, `{a="b"} | json x="y" | x=~$L`, false))
	// json path: as a whole (mostly rejected by the path parser) and as a quoted field
	add(logqlPos("logql.json.path", kFree, `{a="b"} | json x=$L`, true))
	add(&position{name: "logql.json.field", kind: kExact, list: true, wraps: len(logqlWraps), panel: defaultPanel,
		place: func(rd *readersvc.Reader, p string, v variant) outcome {
			inner, innerVal, ok := jsonLit(p)
			if !ok {
				return outcome{}
			}
			l, _, ok := jsonLit("y[" + inner + "]")
			if !ok {
				return outcome{}
			}
			q := logqlWraps[v.Wrap%len(logqlWraps)](`{a="b"} | json x=` + l)
			st := get(rd, "/loki/api/v1/query_range", url.Values{"query": {q}, "start": {fmt.Sprint(fromS * 1e9)}, "end": {fmt.Sprint(toS * 1e9)}, "step": {"5"}, "limit": {"10"}})
			return outcome{intended: innerVal, expressible: true, status: st}
		}})
	// regexp parser parameter: a valid named group followed by the payload
	add(&position{name: "logql.regexp", kind: kRegexpFn, wraps: len(logqlWraps), tick: true,
		panel: []string{"abc", "", "123", "a.*b|c", "(?P<y>\\w+)", " (x) ", "[0-9]+"},
		place: func(rd *readersvc.Reader, p string, v variant) outcome {
			l, intended, ok := lit("(?P<x>[a-z]+)"+p, v.Tick)
			if !ok {
				return outcome{}
			}
			q := logqlWraps[v.Wrap%len(logqlWraps)](`{a="b"} | regexp ` + l)
			st := get(rd, "/loki/api/v1/query_range", url.Values{"query": {q}, "start": {fmt.Sprint(fromS * 1e9)}, "end": {fmt.Sprint(toS * 1e9)}, "step": {"5"}, "limit": {"10"}})
			return outcome{intended: intended, expressible: true, status: st}
		}})
	// drop
	add(logqlPos("logql.drop.value", kExact, `{a="b"} | drop c=$L`, false))
	add(logqlPos("logql.drop.value.json", kExact, `{a="b"} | json x="y" | drop x=$L, a`, false))
	// templates run in the in-process engine: nothing of them may reach SQL
	add(logqlPos("logql.line_format", kAbsent, `{a="b"} | line_format $L`, false))
	add(logqlPos("logql.label_format", kAbsent, `{a="b"} | label_format c=$L`, false))

	// Loki label APIs: {name} URL parameter and match[]
	add(&position{name: "loki.label.name", kind: kExact, panel: defaultPanel,
		place: func(rd *readersvc.Reader, p string, v variant) outcome {
			if p == "" || strings.Contains(p, "/") {
				return outcome{} // not a path segment
			}
			st := get(rd, "/loki/api/v1/label/"+url.PathEscape(p)+"/values", url.Values{"start": {fmt.Sprint(fromS * 1e9)}, "end": {fmt.Sprint(toS * 1e9)}})
			return outcome{intended: p, expressible: true, status: st}
		}})
	add(&position{name: "loki.label.match", kind: kExact, tick: true, big: true, panel: defaultPanel,
		place: func(rd *readersvc.Reader, p string, v variant) outcome {
			l, intended, ok := lit(p, v.Tick)
			if !ok {
				return outcome{}
			}
			st := get(rd, "/loki/api/v1/label/job/values", url.Values{"start": {fmt.Sprint(fromS * 1e9)}, "end": {fmt.Sprint(toS * 1e9)},
				"match[]": {`{a=` + l + `}`, `{c=~"d.*"}`}})
			return outcome{intended: intended, expressible: true, status: st}
		}})
	add(&position{name: "loki.series.match", kind: kExact, tick: true, panel: defaultPanel,
		place: func(rd *readersvc.Reader, p string, v variant) outcome {
			l, intended, ok := lit(p, v.Tick)
			if !ok {
				return outcome{}
			}
			st := get(rd, "/loki/api/v1/series", url.Values{"start": {fmt.Sprint(fromS * 1e9)}, "end": {fmt.Sprint(toS * 1e9)},
				"match[]": {`{a=` + l + `, b!~` + l + `}`}})
			return outcome{intended: intended, expressible: true, status: st}
		}})

	// Prometheus: label APIs (match[] is PromQL, re-rendered as LogQL by Prom2LogqlMatch) and the storage.Querier
	add(&position{name: "prom.label.name", kind: kExact, panel: defaultPanel,
		place: func(rd *readersvc.Reader, p string, v variant) outcome {
			if p == "" || strings.Contains(p, "/") {
				return outcome{}
			}
			st := get(rd, "/api/v1/label/"+url.PathEscape(p)+"/values", url.Values{"start": {fmt.Sprint(fromS)}, "end": {fmt.Sprint(toS)}})
			return outcome{intended: p, expressible: true, status: st}
		}})
	add(&position{name: "prom.label.match", kind: kExact, panel: defaultPanel,
		place: func(rd *readersvc.Reader, p string, v variant) outcome {
			l, intended, _ := goLit(p)
			st := get(rd, "/api/v1/label/job/values", url.Values{"start": {fmt.Sprint(fromS)}, "end": {fmt.Sprint(toS)},
				"match[]": {`up{a=` + l + `, b=~` + l + `}`}})
			return outcome{intended: intended, expressible: true, status: st}
		}})
	add(&position{name: "prom.series.match", kind: kExact, panel: defaultPanel,
		place: func(rd *readersvc.Reader, p string, v variant) outcome {
			l, intended, _ := goLit(p)
			st := get(rd, "/api/v1/series", url.Values{"start": {fmt.Sprint(fromS)}, "end": {fmt.Sprint(toS)}, "match[]": {`{a!=` + l + `, b!~` + l + `}`}})
			return outcome{intended: intended, expressible: true, status: st}
		}})
	for i, mt := range []labels.MatchType{labels.MatchEqual, labels.MatchNotEqual, labels.MatchRegexp, labels.MatchNotRegexp} {
		mt := mt
		add(&position{name: "prom.select." + []string{"eq", "neq", "re", "nre"}[i], kind: kExact, wraps: 2, panel: defaultPanel,
			place: func(rd *readersvc.Reader, p string, v variant) outcome {
				m, err := labels.NewMatcher(mt, "a", p)
				if err != nil {
					return outcome{} // the PromQL engine would not produce this matcher (invalid regex)
				}
				// PromQL regex matchers are fully anchored; qryn renders the anchored pattern
				// "^(?:" + value + ")$" into match() (reader/promql/transpiler/shared.go matcherValue)
				want := p
				if mt == labels.MatchRegexp || mt == labels.MatchNotRegexp {
					want = "^(?:" + p + ")$"
				}
				hints := promHints(v)
				q, err := rd.Prom.SetOidAndDB(context.Background()).Querier(context.Background(), hints.Start, hints.End)
				if err != nil {
					return outcome{intended: want, expressible: true, status: 1}
				}
				set := q.Select(false, hints, labels.MustNewMatcher(labels.MatchEqual, "__name__", "up"), m)
				for set.Next() {
				}
				st := 0
				if set.Err() != nil {
					st = 1
				}
				return outcome{intended: want, expressible: true, status: st}
			}})
	}

	// TraceQL
	traceql := func(name string, kind matchKind, tmpl string) {
		add(&position{name: name, kind: kind, tick: true, big: true, panel: defaultPanel,
			place: func(rd *readersvc.Reader, p string, v variant) outcome {
				l, intended, ok := lit(p, v.Tick)
				if !ok {
					return outcome{}
				}
				st := get(rd, "/api/search", url.Values{"q": {strings.ReplaceAll(tmpl, "$L", l)}, "start": {fmt.Sprint(fromS)}, "end": {fmt.Sprint(toS)}, "limit": {"10"}})
				return outcome{intended: intended, expressible: true, status: st}
			}})
	}
	traceql("traceql.attr.eq", kExact, `{.a=$L}`)
	traceql("traceql.attr.neq", kExact, `{.a!=$L}`)
	traceql("traceql.attr.re", kExact, `{.a=~$L}`)
	traceql("traceql.attr.nre", kExact, `{.a!~$L && .b="c"}`)
	traceql("traceql.name.eq", kExact, `{name=$L}`)
	traceql("traceql.resource.eq", kExact, `{resource.service.name=$L || .b=$L}`)
	traceql("traceql.complex", kExact, `{.a=$L && .n>10} | count() > 2 || {.c=~$L}`)
	// dotted attribute name: raw payload after the dot (the lexer restricts it)
	add(&position{name: "traceql.attr.name", kind: kExact, big: true, panel: []string{"abc", "a.b", "x_y", "http.status_code", "a1"},
		place: func(rd *readersvc.Reader, p string, v variant) outcome {
			// one Label_name token of the TraceQL lexer (traceql/parser/lexer_rules v2.go):
			// anything else is either rejected or is TraceQL syntax, not a name
			if !traceqlName.MatchString(p) {
				return outcome{}
			}
			st := get(rd, "/api/search", url.Values{"q": {`{.` + p + `="v"}`}, "start": {fmt.Sprint(fromS)}, "end": {fmt.Sprint(toS)}, "limit": {"10"}})
			return outcome{intended: p, expressible: true, status: st}
		}})
	add(&position{name: "tempo.tagsv2.q", kind: kExact, tick: true, big: true, panel: defaultPanel,
		place: func(rd *readersvc.Reader, p string, v variant) outcome {
			l, intended, ok := lit(p, v.Tick)
			if !ok {
				return outcome{}
			}
			st := get(rd, "/api/v2/search/tags", url.Values{"q": {`{.a=` + l + `}`}, "start": {fmt.Sprint(fromS)}, "end": {fmt.Sprint(toS)}})
			return outcome{intended: intended, expressible: true, status: st}
		}})
	add(&position{name: "tempo.valuesv2.tag", kind: kExact, big: true, wraps: 2, panel: []string{"abc", ".abc", "span.x", "resource.a.b", "name", "123", "a b"},
		place: func(rd *readersvc.Reader, p string, v variant) outcome {
			if p == "" || strings.Contains(p, "/") {
				return outcome{}
			}
			q := url.Values{"start": {fmt.Sprint(fromS)}, "end": {fmt.Sprint(toS)}}
			if v.Wrap%2 == 1 {
				q.Set("q", `{.a="b"}`)
			}
			st := get(rd, "/api/v2/search/tag/"+url.PathEscape(p)+"/values", q)
			return outcome{intended: p, expressible: true, status: st}
		}})
	add(&position{name: "tempo.values.tag", kind: kExact, panel: defaultPanel,
		place: func(rd *readersvc.Reader, p string, v variant) outcome {
			if p == "" || strings.Contains(p, "/") {
				return outcome{}
			}
			st := get(rd, "/api/search/tag/"+url.PathEscape(p)+"/values", nil)
			return outcome{intended: p, expressible: true, status: st}
		}})
	add(&position{name: "tempo.search.tagvalue", kind: kExact, panel: defaultPanel,
		place: func(rd *readersvc.Reader, p string, v variant) outcome {
			l, intended, _ := goLit(p)
			st := get(rd, "/api/search", url.Values{"tags": {`a=` + l + ` name=` + l}, "start": {fmt.Sprint(fromS)}, "end": {fmt.Sprint(toS)}, "limit": {"10"}, "minDuration": {"1ms"}})
			return outcome{intended: intended, expressible: true, status: st}
		}})
	add(&position{name: "tempo.search.tagname", kind: kExact, panel: defaultPanel,
		place: func(rd *readersvc.Reader, p string, v variant) outcome {
			l, intended, _ := goLit(p)
			st := get(rd, "/api/search", url.Values{"tags": {l + `=b`}, "start": {fmt.Sprint(fromS)}, "end": {fmt.Sprint(toS)}, "limit": {"10"}})
			return outcome{intended: intended, expressible: true, status: st}
		}})
	add(&position{name: "tempo.search.bare", kind: kExact, panel: defaultPanel,
		place: func(rd *readersvc.Reader, p string, v variant) outcome {
			// unquoted literal of the tags lexer (tempo/tags.go): [^ !=~"]+ ; other bytes are
			// operators / quotes of the tags syntax itself. The lexer's \s+ also ends a literal.
			if !tempoBare.MatchString(p) {
				return outcome{}
			}
			st := get(rd, "/api/search", url.Values{"tags": {`a=` + p}, "start": {fmt.Sprint(fromS)}, "end": {fmt.Sprint(toS)}, "limit": {"10"}})
			return outcome{intended: p, expressible: true, status: st}
		}})
	add(&position{name: "tempo.trace.id", kind: kExact, panel: []string{"0123456789abcdef0123456789abcdef", "00", "abcdef", "ABCDEF01"},
		place: func(rd *readersvc.Reader, p string, v variant) outcome {
			if p == "" || strings.Contains(p, "/") {
				return outcome{}
			}
			st := get(rd, "/api/traces/"+url.PathEscape(p), url.Values{"start": {fmt.Sprint(fromS)}, "end": {fmt.Sprint(toS)}})
			return outcome{intended: p, expressible: true, status: st}
		}})

	// Pyroscope (the controllers hand the strings to ProfService unchanged)
	tf, tt := time.Unix(fromS, 0), time.Unix(toS, 0)
	tid := "process_cpu:cpu:nanoseconds:cpu:nanoseconds"
	prof := func(name string, run func(rd *readersvc.Reader, sel string, raw string) error, usesSel bool) {
		add(&position{name: name, kind: kExact, tick: usesSel, panel: defaultPanel,
			place: func(rd *readersvc.Reader, p string, v variant) outcome {
				sel := ""
				intended := p
				if usesSel {
					var l string
					if v.Tick {
						// `...` : strings.Trim of the backticks, no escapes (prof/parser/model.go)
						if strings.Contains(p, "`") {
							return outcome{}
						}
						l = "`" + p + "`"
					} else {
						l, intended, _ = goLit(p)
					}
					sel = `{service_name=` + l + `, a!=` + l + `, c=~` + l + `, e!~` + l + `}`
				}
				st := 0
				if err := run(rd, sel, p); err != nil {
					st = 1
				}
				return outcome{intended: intended, expressible: true, status: st}
			}})
	}
	ctx := context.Background()
	prof("prof.selector.labelnames", func(rd *readersvc.Reader, sel, raw string) error {
		_, err := rd.Prof.LabelNames(ctx, []string{sel}, tf, tt)
		return err
	}, true)
	prof("prof.selector.labelvalues", func(rd *readersvc.Reader, sel, raw string) error {
		_, err := rd.Prof.LabelValues(ctx, []string{sel}, "pod", tf, tt)
		return err
	}, true)
	prof("prof.selector.merge", func(rd *readersvc.Reader, sel, raw string) error {
		_, err := rd.Prof.MergeStackTraces(ctx, sel, tid, tf, tt)
		return err
	}, true)
	prof("prof.selector.series", func(rd *readersvc.Reader, sel, raw string) error {
		return selectSeries(rd, sel, tid, []string{"pod"})
	}, true)
	prof("prof.selector.timeseries", func(rd *readersvc.Reader, sel, raw string) error {
		_, err := rd.Prof.TimeSeries(ctx, []string{sel}, []string{"pod"}, tf, tt)
		return err
	}, true)
	prof("prof.labelvalues.name", func(rd *readersvc.Reader, sel, raw string) error {
		_, err := rd.Prof.LabelValues(ctx, nil, raw, tf, tt)
		return err
	}, false)
	prof("prof.series.groupby", func(rd *readersvc.Reader, sel, raw string) error {
		return selectSeries(rd, `{service_name="svc"}`, tid, []string{raw})
	}, false)
	prof("prof.timeseries.label", func(rd *readersvc.Reader, sel, raw string) error {
		_, err := rd.Prof.TimeSeries(ctx, []string{`{service_name="svc"}`}, []string{raw}, tf, tt)
		return err
	}, false)
	// Tempo scopes: a leading "span." / "resource." / "." of a tag or attribute name is a
	// scope prefix, not part of the stored key (tempoService.go Values, attr_condition.go)
	for _, p := range ps {
		switch p.name {
		case "tempo.values.tag", "tempo.valuesv2.tag", "traceql.attr.name":
			p.alts = func(v string) []string {
				var out []string
				for _, pre := range []string{"span.", "resource.", "."} {
					if strings.HasPrefix(v, pre) {
						out = append(out, strings.TrimPrefix(v, pre))
					}
				}
				return out
			}
		}
	}
	return append(ps, structuredPositions()...)
}

// ---- acceptance of a literal -------------------------------------------------------------

var (
	traceqlName = regexp.MustCompile(`^[a-zA-Z_][.a-zA-Z0-9_-]*$`)
	tempoBare   = regexp.MustCompile(`^[^\s!=~"]+$`)
)

var namedGroup = regexp.MustCompile(`^\(\?P<([a-zA-Z_][0-9a-zA-Z_]*)>`)

// stripGroupNames mirrors what the `| regexp` planner must preserve: the regex with every
// "(?P<name>" written as "(" (an escaped "\(" is not a group). Returns the names too.
func stripGroupNames(re string) (string, []string) {
	var b strings.Builder
	var names []string
	for i := 0; i < len(re); {
		switch {
		case re[i] == '\\' && i+1 < len(re):
			b.WriteString(re[i : i+2])
			i += 2
		case strings.HasPrefix(re[i:], "(?P<"):
			if m := namedGroup.FindStringSubmatch(re[i:]); m != nil {
				names = append(names, m[1])
				b.WriteByte('(')
				i += len(m[0])
				continue
			}
			b.WriteByte(re[i])
			i++
		default:
			b.WriteByte(re[i])
			i++
		}
	}
	return b.String(), names
}

// regexLiteral: if the regex is a plain literal (possibly case-insensitive) returns it —
// then the line-filter planner may use LIKE / ILIKE instead of match().
func regexLiteral(re string) (string, bool, bool) {
	exp, err := syntax.Parse(re, syntax.PerlX)
	if err != nil || exp.Op != syntax.OpLiteral || exp.Flags&^(syntax.PerlX|syntax.FoldCase) != 0 {
		return "", false, false
	}
	return string(exp.Rune), exp.Flags&syntax.FoldCase != 0, true
}

// accepts: does the decoded SQL literal v carry the intended value for this kind?
func accepts(kind matchKind, intended, v string) bool {
	switch kind {
	case kExact:
		return v == intended
	case kLike:
		core, ok := chsim.LikeCore(v)
		return ok && core == intended
	case kRegexLine:
		if v == intended {
			return true
		}
		if l, fold, ok := regexLiteral(intended); ok {
			core, ok2 := chsim.LikeCore(v)
			if ok2 && (core == l || (fold && strings.EqualFold(core, l))) {
				return true
			}
		}
		return false
	case kRegexpFn:
		s, names := stripGroupNames(intended)
		if v == s {
			return true
		}
		for _, n := range names {
			if v == n {
				return true
			}
		}
		return false
	}
	return false
}

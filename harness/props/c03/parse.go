package c03

// parse.go: calling qryn's exported parsing functions the way the controllers do
// (writer/controller/builder.go doParse: parser(r.Context(), body, FPCache.DB(node)) and
// draining the response channel), and flattening the responses into rows.

import (
	"bytes"
	"context"
	"fmt"
	"io"
	"sync"
	"sync/atomic"
	"time"
	"unsafe"

	clconfig "github.com/metrico/cloki-config"
	cfgsrv "github.com/metrico/cloki-config/config"
	"github.com/metrico/qryn/writer/config"
	"github.com/metrico/qryn/writer/model"
	"github.com/metrico/qryn/writer/utils/logger"
	"github.com/metrico/qryn/writer/utils/numbercache"
	"github.com/metrico/qryn/writer/utils/unmarshal"

	"qrynverif/gen"
)

// SampleRow is one row of a samples request.
type SampleRow struct {
	FP    uint64
	Ts    int64
	Line  string
	Val   float64
	Type  uint8
	TTL   uint16
	Resp  int // index of the response that carried it
	Index int
}

// SeriesRow is one row of a time-series request.
type SeriesRow struct {
	FP     uint64
	Date   time.Time
	Labels string
	Type   uint8
	TTL    uint16
	Resp   int
}

// Parsed is everything a parser emitted for one body.
type Parsed struct {
	Samples   []SampleRow
	Series    []SeriesRow
	Responses int
	WithRows  int // responses that carry at least one sample row
	Err       error  // first error response, if any
	Shape     string // non-empty: a response whose parallel arrays differ in length
}

var (
	setupOnce sync.Once
	cacheMu   sync.Mutex
	nodeMap   = map[string]*model.DataDatabasesMap{}
	fpCache   *numbercache.Cache[uint64]
	caseSeq   atomic.Uint64
)

// Setup initialises the process-global state the parsers read: config.Cloki (fingerprint
// type, unmarshal.go:267) and the logger (errors of tamed panics are logged with a stack).
func Setup(fpType uint) {
	setupOnce.Do(func() {
		logger.Logger.SetOutput(io.Discard)
		// the real cache type (plugin/qryn_writer_db.go:264), one per process; every case
		// uses its own DB prefix, which is what makes cases independent of each other
		fpCache = numbercache.NewCache[uint64](time.Hour*24*365, func(v uint64) []byte {
			return unsafe.Slice((*byte)(unsafe.Pointer(&v)), 8)
		}, nodeMap)
	})
	if config.Cloki == nil || config.Cloki.Setting == nil {
		config.Cloki = &clconfig.ClokiConfig{Setting: &cfgsrv.ClokiBaseSettingServer{}}
	}
	config.Cloki.Setting.FingerPrintType = fpType
}

// FreshCache returns a view of the process cache that has seen nothing yet.
// distributed=true mimics a cluster node (the cache then never suppresses a series row).
func FreshCache(distributed bool) numbercache.ICache[uint64] {
	cacheMu.Lock()
	defer cacheMu.Unlock()
	name := fmt.Sprintf("n%d", caseSeq.Add(1))
	m := &model.DataDatabasesMap{}
	if distributed {
		m.ClusterName = "c"
	}
	nodeMap[name] = m
	db := fpCache.DB(name)
	delete(nodeMap, name) // DB() copied what it needs
	return db
}

// ParserOf maps a protocol to the exported parsing function its controller uses
// (writer/controller/insertController.go, promController.go, datadogController.go).
func ParserOf(p gen.Proto) unmarshal.ParsingFunction {
	switch p {
	case gen.LokiJSON:
		return unmarshal.DecodePushRequestStringV2
	case gen.LokiProto:
		return unmarshal.UnmarshalProtoV2
	case gen.PromRW:
		return unmarshal.UnmarshallMetricsWriteProtoV2
	case gen.Influx:
		return unmarshal.UnmarshalInfluxDBLogsV2
	case gen.DDLogs:
		return unmarshal.UnmarshallDatadogV2JSONV2
	case gen.DDMetrics:
		return unmarshal.UnmarshallDatadogMetricsV2JSONV2
	case gen.OTLPLogs:
		return unmarshal.UnmarshalOTLPLogsV2
	}
	panic("c03: unknown protocol " + string(p))
}

// Context builds the parser context the controller of the protocol builds.
func Context(p gen.Proto, b gen.Body) context.Context {
	ctx := context.Background()
	switch p {
	case gen.Influx: // insertController.go:72 ?precision=
		ctx = context.WithValue(ctx, "precision", gen.InfluxPrecision(b))
	case gen.DDLogs: // datadogController.go:15
		ctx = context.WithValue(ctx, "ddsource", "unknown")
	}
	return ctx
}

// ContextTTL is Context plus the values withRequestContext puts into every request context
// (controller/middleware.go:197-200): META and TTL_DAYS (uint16, 0 when the header is absent).
func ContextTTL(p gen.Proto, b gen.Body, ttlDays uint16) context.Context {
	ctx := context.WithValue(Context(p, b), "META", "")
	return context.WithValue(ctx, "TTL_DAYS", ttlDays)
}

// Run feeds body to the parser and collects every response.
func Run(parser unmarshal.ParsingFunction, ctx context.Context, body []byte, cache numbercache.ICache[uint64]) *Parsed {
	out := &Parsed{}
	ch := parser(ctx, bytes.NewReader(body), cache)
	for r := range ch {
		if r.Error != nil {
			if out.Err == nil {
				out.Err = r.Error
			}
			continue
		}
		ri := out.Responses
		out.Responses++
		if r.SamplesRequest != nil {
			s := r.SamplesRequest.(*model.TimeSamplesData)
			n := len(s.MTimestampNS)
			if len(s.MFingerprint) != n || len(s.MMessage) != n || len(s.MValue) != n || len(s.MType) != n || len(s.MTTLDays) != n {
				if out.Shape == "" {
					out.Shape = fmt.Sprintf("response %d: samples arrays differ in length: fingerprint=%d timestamp=%d message=%d value=%d type=%d ttl=%d",
						ri, len(s.MFingerprint), n, len(s.MMessage), len(s.MValue), len(s.MType), len(s.MTTLDays))
				}
				continue
			}
			if n > 0 {
				out.WithRows++
			}
			for i := 0; i < n; i++ {
				out.Samples = append(out.Samples, SampleRow{FP: s.MFingerprint[i], Ts: s.MTimestampNS[i], Line: s.MMessage[i], Val: s.MValue[i], Type: s.MType[i], TTL: s.MTTLDays[i], Resp: ri, Index: i})
			}
		}
		if r.TimeSeriesRequest != nil {
			t := r.TimeSeriesRequest.(*model.TimeSeriesData)
			n := len(t.MFingerprint)
			if len(t.MDate) != n || len(t.MLabels) != n || len(t.MType) != n || len(t.MTTLDays) != n {
				if out.Shape == "" {
					out.Shape = fmt.Sprintf("response %d: series arrays differ in length: fingerprint=%d date=%d labels=%d type=%d ttl=%d",
						ri, n, len(t.MDate), len(t.MLabels), len(t.MType), len(t.MTTLDays))
				}
				continue
			}
			for i := 0; i < n; i++ {
				out.Series = append(out.Series, SeriesRow{FP: t.MFingerprint[i], Date: t.MDate[i], Labels: t.MLabels[i], Type: t.MType[i], TTL: t.MTTLDays[i], Resp: ri})
			}
		}
	}
	return out
}

// ParseBody encodes and parses a logical body with a fresh cache.
func ParseBody(p gen.Proto, b gen.Body, distributed bool) *Parsed {
	return Run(ParserOf(p), Context(p, b), gen.Encode(p, b), FreshCache(distributed))
}

// ParseBodyTTL is ParseBody with a TTL supplied by the request context (0 = none).
func ParseBodyTTL(p gen.Proto, b gen.Body, distributed bool, ttlDays uint16) *Parsed {
	return Run(ParserOf(p), ContextTTL(p, b, ttlDays), gen.Encode(p, b), FreshCache(distributed))
}

package c03

import (
	"runtime/debug"
	"testing"

	"qrynverif/evid"
)

func TestProp(t *testing.T) {
	// bodies above the 1 MiB threshold make this check allocation-bound; the live heap is small
	debug.SetGCPercent(400)
	r := evid.New(t, "C03", evid.Config{
		Level: "exploration",
		Rule:  "generated logical bodies (label sets x chunks x entries) encoded for 7 ingest protocols and parsed by the exported parsers; non-trivial: >=2 chunks with entries and >=1 chunk boundary (>=2 parser responses carrying rows, or >=1000 remote-write points)",
		Assumptions: []string{
			"label names of one stream stay distinct after sanitisation",
			"timestamps are positive and multiples of the protocol's resolution",
			"OTLP bodies carry resource and scope; Influx log lines carry a string field message",
		},
	})
	AddIngest(r)
	r.Main()
}

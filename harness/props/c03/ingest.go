package c03

// ingest.go: C03 - every submitted entry becomes exactly one faithful sample row.
//
// Domain: a logical body (gen.Body: label sets, chunks of entries) serialised by the
// harness' own encoder of one of seven protocols, parsed by the exported parsing function
// of that protocol with a cache that has seen nothing.
// Oracle: the multiset of sample rows (timestamp_ns, line, value, type) grouped by
// fingerprint equals the model's entries grouped by expected label set. Fingerprints are
// never recomputed: a fingerprint is tied to a label set through the series row that
// carries it (its label document decodes to the set); entries of one set share one
// fingerprint, different sets get different ones. Every response is rectangular.

import (
	"fmt"
	"math"
	"sort"
	"strings"
	"time"

	"pgregory.net/rapid"

	"qrynverif/evid"
	"qrynverif/gen"
)

// FindingDocNotJSON is the id of the label-document finding (DESIGN.md section 4 item 8):
// a label set holding bytes that JSON cannot carry has no decodable document; rows of such
// a set are then matched by content instead of through the document.
const FindingDocNotJSON = "C04-label-doc-invalid-utf8"

type ingestCase struct {
	Proto       gen.Proto `json:"proto"`
	FPType      uint      `json:"fp_type"` // 1 CityHash (default), 0 Bernstein (32 bit)
	Distributed bool      `json:"distributed,omitempty"`
	CtxTTL      uint16    `json:"ctx_ttl,omitempty"` // TTL_DAYS of the request context (0 = header absent)
	Body        gen.Body  `json:"body"`
}

type rowKey struct {
	ts   int64
	tp   uint8
	ttl  uint16
	val  uint64
	line string
}

func valBits(v float64) uint64 {
	if v == 0 {
		return 0 // -0 and +0 are the same value
	}
	return math.Float64bits(v)
}

func (k rowKey) String() string {
	return fmt.Sprintf("(ts=%d type=%d ttl=%d value=%v line=%q)", k.ts, k.tp, k.ttl, math.Float64frombits(k.val), clip(k.line, 80))
}

func clip(s string, n int) string {
	if len(s) > n {
		return fmt.Sprintf("%s…(%d bytes)", s[:n], len(s))
	}
	return s
}

type stream struct {
	key    string
	labels []gen.Label
	rows   map[rowKey]int
	n      int
	types  map[uint8]bool
	ttls   map[uint16]bool
	known  bool // label set has no JSON document (finding region)
}

func diffRows(want, got map[rowKey]int) string {
	var miss, extra []string
	for k, n := range want {
		if got[k] < n {
			miss = append(miss, fmt.Sprintf("%s x%d", k, n-got[k]))
		}
	}
	for k, n := range got {
		if want[k] < n {
			extra = append(extra, fmt.Sprintf("%s x%d", k, n-want[k]))
		}
	}
	sort.Strings(miss)
	sort.Strings(extra)
	if len(miss) == 0 && len(extra) == 0 {
		return ""
	}
	cut := func(s []string) string {
		if len(s) > 4 {
			return strings.Join(s[:4], ", ") + fmt.Sprintf(", … (%d in all)", len(s))
		}
		return strings.Join(s, ", ")
	}
	return fmt.Sprintf("submitted but not stored: [%s]; stored but not submitted: [%s]", cut(miss), cut(extra))
}

func keysOf(m map[uint16]bool) []int {
	var out []int
	for k := range m {
		out = append(out, int(k))
	}
	sort.Ints(out)
	return out
}

// tagTTLShapes records in which shapes the special label met a decoder that hands one
// label buffer to the builder several times.
func tagTTLShapes(p gen.Proto, ttl, all []gen.FlatChunk, o *evid.Obs) {
	if len(ttl) == 0 {
		return
	}
	o.Tag("ttl-label")
	if p == gen.Influx {
		for i := 0; i+1 < len(all); i++ {
			if gen.HasTTLLabel(all[i].Labels) >= 0 && gen.InfluxMergesWithNext(all, i) {
				o.Tag("ttl-label:influx-two-fields-one-line")
				break
			}
		}
	}
	seen := map[string]int{}
	for _, fc := range ttl {
		seen[gen.CanonKey(fc.Labels)]++
	}
	for _, n := range seen {
		if n > 1 {
			o.Tag("ttl-label:repeated-stream")
			break
		}
	}
}

func withRows(streams map[string]*stream) int {
	n := 0
	for _, s := range streams {
		if s.n > 0 {
			n++
		}
	}
	return n
}

func hasReplacementChar(ls []gen.Label) bool {
	for _, l := range ls {
		if strings.ContainsRune(string(l.Name), '\ufffd') || strings.ContainsRune(string(l.Value), '\ufffd') {
			return true
		}
	}
	return false
}

func labelsStr(ls []gen.Label) string {
	var ps []string
	for _, l := range ls {
		ps = append(ps, fmt.Sprintf("%q=%q", clip(string(l.Name), 40), clip(string(l.Value), 60)))
	}
	return "{" + strings.Join(ps, ", ") + "}"
}

func predIngest(c ingestCase, o *evid.Obs) error {
	Setup(c.FPType)
	p := c.Proto
	chunks := c.Body.Expand()
	unit := gen.TsUnit(p, c.Body)

	// ---- the model: expected streams
	streams := map[string]*stream{}
	var order []string
	points, bytesz, withEntries, several, empty := 0, 0, 0, false, false
	var ttlChunks []gen.FlatChunk
	ttlTags := map[string]bool{}
	rwCarry := 0
	for _, fc := range chunks {
		exp, ttl := gen.ExpectedStored(p, fc.Labels, c.CtxTTL)
		if i := gen.HasTTLLabel(fc.Labels); i >= 0 {
			switch {
			case i == 0:
				ttlTags["ttl-label:first"] = true
			case i == len(fc.Labels)-1:
				ttlTags["ttl-label:last"] = true
			default:
				ttlTags["ttl-label:middle"] = true
			}
			if gen.TTLOf(string(fc.Labels[i].Value)) == 0 {
				ttlTags["ttl-label:invalid-value"] = true
			}
			if c.CtxTTL != 0 {
				ttlTags["ttl-label+ctx-ttl"] = true
			}
			// metricsProtobuf.go:21: the point counter runs across series; a series that
			// crosses a multiple of 1000 reaches the builder in several calls with one buffer
			if n := rwCarry + len(fc.Entries); p == gen.PromRW && (n/1000 >= 2 || n/1000 == 1 && n%1000 > 0) {
				ttlTags["ttl-label:series-flushed-in-pieces"] = true
			}
			ttlChunks = append(ttlChunks, fc)
		}
		rwCarry = (rwCarry + len(fc.Entries)) % 1000
		k := gen.CanonKey(exp)
		s := streams[k]
		if s == nil {
			s = &stream{key: k, labels: exp, rows: map[rowKey]int{}, types: map[uint8]bool{}, ttls: map[uint16]bool{}, known: !gen.DocRepresentable(exp)}
			streams[k] = s
			order = append(order, k)
		} else {
			several = true
		}
		if len(fc.Entries) > 0 {
			withEntries++
		} else {
			empty = true
		}
		for _, e := range fc.Entries {
			if e.Ts%unit != 0 {
				o.Discard("timestamp finer than the protocol's resolution")
				return nil
			}
			line := gen.ExpectedLine(p, e)
			s.rows[rowKey{e.Ts, e.Kind, ttl, valBits(e.Val), line}]++
			s.ttls[ttl] = true
			s.n++
			s.types[e.Kind] = true
			points++
			bytesz += len(line) + 26
		}
	}

	// ---- the real parser
	res := ParseBodyTTL(p, c.Body, c.Distributed, c.CtxTTL)
	if c.CtxTTL != 0 {
		o.Tag("ctx-ttl")
	}
	tagTTLShapes(p, ttlChunks, chunks, o)
	for _, t := range []string{"ttl-label:first", "ttl-label:middle", "ttl-label:last", "ttl-label:invalid-value", "ttl-label+ctx-ttl", "ttl-label:series-flushed-in-pieces"} {
		if ttlTags[t] {
			o.Tag(t)
		}
	}

	o.Tag("proto="+string(p), fmt.Sprintf("fp-type=%d", c.FPType))
	if c.Distributed {
		o.Tag("distributed-node")
	}
	if points >= 1000 {
		o.Tag("points>=1000")
	}
	if bytesz > 1<<20 {
		o.Tag("rows>1MiB")
	}
	switch {
	case res.WithRows >= 3:
		o.Tag("responses-with-rows>=3")
	case res.WithRows == 2:
		o.Tag("responses-with-rows=2")
	}
	if len(streams) >= 2 {
		o.Tag("streams>=2")
	}
	if several {
		o.Tag("set-in-several-chunks")
	}
	if empty {
		o.Tag("chunk-without-entries")
	}
	classifyBody(p, chunks, o)

	if res.Shape != "" {
		return fmt.Errorf("%s: %s (body of %d points in %d chunks)", p, res.Shape, points, len(chunks))
	}
	if res.Err != nil {
		return fmt.Errorf("%s: well-formed body (%d points in %d chunks) rejected: %v", p, points, len(chunks), res.Err)
	}

	// ---- fingerprint -> label set through the series rows
	got := map[uint64]map[rowKey]int{}
	var fpOrder []uint64
	for _, r := range res.Samples {
		m := got[r.FP]
		if m == nil {
			m = map[rowKey]int{}
			got[r.FP] = m
			fpOrder = append(fpOrder, r.FP)
		}
		m[rowKey{r.Ts, r.Type, r.TTL, valBits(r.Val), r.Line}]++
	}
	fpKey := map[uint64]string{}
	keyFP := map[string]uint64{}
	knownRegion := 0
	for _, s := range streams {
		if s.known {
			knownRegion++
		}
	}
	unresolved := 0
	for _, sr := range res.Series {
		ls, err := gen.DecodeLabelDoc(sr.Labels)
		k := ""
		if err == nil {
			k = gen.CanonKey(ls)
			if _, ok := streams[k]; !ok {
				err = fmt.Errorf("label document %q decodes to %s, which is the label set of no submitted stream", clip(sr.Labels, 300), labelsStr(ls))
			}
		}
		if err != nil {
			// tolerated only when it can stem from bytes JSON cannot carry: the document is
			// not JSON at all, or it carries U+FFFD where the set has a stray byte
			if knownRegion > 0 && !o.Witness && (ls == nil || hasReplacementChar(ls)) {
				unresolved++
				continue
			}
			return fmt.Errorf("%s: series row (fingerprint %d): %v", p, sr.FP, err)
		}
		if prev, ok := fpKey[sr.FP]; ok && prev != k {
			if c.FPType == 0 {
				o.Discard("32-bit fingerprint collision")
				return nil
			}
			return fmt.Errorf("%s: fingerprint %d is carried by series rows of two label sets: %s and %s", p, sr.FP, labelsStr(streams[prev].labels), labelsStr(streams[k].labels))
		}
		if prev, ok := keyFP[k]; ok && prev != sr.FP {
			return fmt.Errorf("%s: label set %s has two fingerprints: %d and %d", p, labelsStr(streams[k].labels), prev, sr.FP)
		}
		fpKey[sr.FP], keyFP[k] = k, sr.FP
		if !streams[k].ttls[sr.TTL] {
			return fmt.Errorf("%s: series row of %s carries TTL %d, its entries were submitted with TTL %v", p, labelsStr(ls), sr.TTL, keysOf(streams[k].ttls))
		}
		if _, ok := got[sr.FP]; !ok {
			return fmt.Errorf("%s: series row for %s (fingerprint %d) but no sample row carries that fingerprint", p, labelsStr(ls), sr.FP)
		}
	}
	if unresolved > 0 {
		o.Known(FindingDocNotJSON)
	}

	if c.FPType == 0 && len(got) < withRows(streams) {
		// fewer fingerprints than streams: two label sets collided in the 32-bit Bernstein
		// hash, which that configuration accepts by design
		o.Discard("32-bit fingerprint collision")
		return nil
	}

	// ---- rows per fingerprint against entries per stream
	matched := map[string]bool{}
	for _, fp := range fpOrder {
		k, ok := fpKey[fp]
		if !ok {
			// no decodable document: allowed only for sets in the finding region; identify the
			// stream by content
			for _, cand := range order {
				s := streams[cand]
				if s.known && !matched[cand] && s.n > 0 && diffRows(s.rows, got[fp]) == "" {
					if _, taken := keyFP[cand]; !taken {
						k, ok = cand, true
						break
					}
				}
			}
			if !ok {
				var some []string
				for rk := range got[fp] {
					some = append(some, rk.String())
					if len(some) == 3 {
						break
					}
				}
				return fmt.Errorf("%s: %d sample rows carry fingerprint %d; no series row ties it to a submitted label set (the body holds label sets with bytes JSON cannot carry, those are matched by content) and its rows equal the entries of no such stream (rows: %s)", p, len(got[fp]), fp, strings.Join(some, ", "))
			}
			keyFP[k] = fp
		}
		s := streams[k]
		if d := diffRows(s.rows, got[fp]); d != "" {
			return fmt.Errorf("%s: stream %s (fingerprint %d, %d entries submitted): %s", p, labelsStr(s.labels), fp, s.n, d)
		}
		matched[k] = true
	}
	for _, k := range order {
		s := streams[k]
		if s.n > 0 && !matched[k] {
			return fmt.Errorf("%s: stream %s: %d entries submitted, no sample row stored", p, labelsStr(s.labels), s.n)
		}
	}

	if withEntries >= 2 && (res.WithRows >= 2 || p == gen.PromRW && points >= 1000) {
		o.NonTrivial()
	}
	return nil
}

func classifyBody(p gen.Proto, chunks []gen.FlatChunk, o *evid.Obs) {
	seen := map[string]bool{}
	tag := func(t string) {
		if !seen[t] {
			seen[t] = true
			o.Tag(t)
		}
	}
	days := map[int64]bool{}
	for _, fc := range chunks {
		if p == gen.LokiJSON {
			if gen.LokiUsesLegacy(fc) {
				tag("layout=labels+entries")
			} else {
				tag("layout=stream+values")
			}
		}
		for _, l := range fc.Labels {
			for _, cl := range gen.StrClasses(string(l.Value)) {
				tag("label-value:" + cl)
			}
			if gen.SanitizeName(string(l.Name)) != string(l.Name) {
				tag("label-name:needs-sanitising")
			}
		}
		for i, e := range fc.Entries {
			if i > 50 {
				break
			}
			days[e.Ts/int64(24*time.Hour)] = true
			switch e.Kind {
			case gen.KindLog:
				tag("kind=log")
			case gen.KindMetric:
				tag("kind=metric")
			default:
				tag("kind=both")
			}
			if e.Kind != gen.KindMetric {
				for _, cl := range gen.StrClasses(e.Line) {
					tag("line:" + cl)
				}
			}
			if math.IsNaN(e.Val) || math.IsInf(e.Val, 0) {
				tag("value:nan-or-inf")
			}
			if p == gen.LokiJSON && gen.LokiUsesLegacy(fc) && e.Style&2 != 0 {
				tag("ts=rfc3339")
			}
			if p == gen.Influx && gen.InfluxUnsigned(e) {
				tag("influx:unsigned-field")
			}
			if p == gen.Influx && gen.InfluxHasExtraField(e) {
				tag("influx:logfmt-line")
			}
		}
	}
	if len(days) >= 2 {
		tag("days>=2")
	}
}

func genIngest(p gen.Proto) func(rt *rapid.T) ingestCase {
	return func(rt *rapid.T) ingestCase {
		c := ingestCase{Proto: p, FPType: 1}
		if rapid.IntRange(0, 5).Draw(rt, "bernstein") == 0 {
			c.FPType = 0
		}
		c.Distributed = rapid.IntRange(0, 7).Draw(rt, "distributed") == 0
		c.Body = gen.BodyOf(rt, p, "")
		hasTTL := false
		for _, s := range c.Body.Sets {
			if gen.HasTTLLabel(s) >= 0 {
				hasTTL = true
			}
		}
		// a TTL supplied with the request (X-Ttl-Days header -> TTL_DAYS): a third of the
		// bodies with the special label, a tenth of the others
		if hasTTL && rapid.IntRange(0, 2).Draw(rt, "ctx-ttl") == 0 || !hasTTL && rapid.IntRange(0, 9).Draw(rt, "ctx-ttl") == 0 {
			c.CtxTTL = uint16(rapid.SampledFrom([]int{1, 14, 90}).Draw(rt, "ctx-ttl-days"))
		}
		return c
	}
}

// AddIngest registers one sub-check per protocol.
func AddIngest(r *evid.Run) {
	for _, p := range gen.Protos {
		evid.Add(r, evid.Prop[ingestCase]{Name: "ingest-" + string(p), Quick: 400, Thorough: 2000, Gen: genIngest(p), Pred: predIngest})
	}
}

package c03

import (
	"context"
	"fmt"
	"testing"

	"github.com/metrico/qryn/writer/utils/unmarshal"
)

// FuzzLokiJSON: native fuzzing of the Loki JSON decoder with arbitrary bytes (thorough
// tier). The oracle lives in the target: every response is rectangular (all parallel
// arrays of the samples request and of the series request have one length), a body that is
// accepted ties every sample row to a series row of the same request (fresh cache), and no
// panic escapes the parser goroutine (that would kill this process, which the fuzzing
// engine reports as a crasher).
func FuzzLokiJSON(f *testing.F) {
	f.Add([]byte(`{"streams":[{"stream":{"job":"a","k8s.pod":"x\u0001"},"values":[["1699920000000000000","line"],["1699920000000000001","l2",1.5],["1699920000000000002","l3",{"trace":"t"}]]}]}`))
	f.Add([]byte(`{"streams":[{"labels":"{job=\"a\", b=\"q\\\"\"}","entries":[{"ts":"2023-11-14T00:00:00.5+02:00","line":"z"},{"timestamp":"1699920000000000000","value":1e3},{"line":"both","value":-0.5,"ts":"17"}]}]}`))
	f.Add([]byte(`{"meta":{"streams":[1]},"streams":[{"values":[],"stream":{}},{"stream":{"a":"b"},"values":[["5","x"]],"unknown":[[]]}]}`))
	f.Fuzz(func(t *testing.T, body []byte) {
		if len(body) > 1<<16 {
			t.Skip()
		}
		Setup(1)
		res := Run(unmarshal.DecodePushRequestStringV2, context.Background(), body, FreshCache(false))
		if res.Shape != "" {
			t.Fatalf("non-rectangular response: %s", res.Shape)
		}
		if res.Err != nil {
			return
		}
		have := map[uint64]bool{}
		for _, s := range res.Series {
			have[s.FP] = true
		}
		for _, r := range res.Samples {
			if !have[r.FP] {
				t.Fatalf("accepted body: sample row %s carries fingerprint %d without a series row in the same request", fmt.Sprintf("(ts=%d line=%q)", r.Ts, r.Line), r.FP)
			}
		}
	})
}

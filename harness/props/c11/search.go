package c11

// Sub-check "search": traceql_transpiler.Plan(script).Process(ctx) is run exactly as
// TempoService.SearchTraceQL does, against a fake database that executes every statement
// with the reference interpreter (chsim) over the generated tables. The complexity
// statement that precedes each search is executed too (must be valid) and answered by
// script, so both the simple and the per-portion processor run. The traces and spans that
// come back are compared with the direct evaluator refeval.EvalTraceQL.

import (
	"context"
	"errors"
	"fmt"
	"os"
	"regexp"
	"sort"
	"strconv"
	"strings"
	"time"

	"github.com/metrico/qryn/reader/logql/logql_transpiler_v2/shared"
	"github.com/metrico/qryn/reader/model"
	traceql_parser "github.com/metrico/qryn/reader/traceql/parser"
	traceql_transpiler "github.com/metrico/qryn/reader/traceql/transpiler"

	"qrynverif/evid"
	"qrynverif/fakesql"
	"qrynverif/refeval"
)

const complexityThreshold = 10_000_000 // traceql_transpiler.COMPLEXITY_THRESHOLD

// Known-finding regions (excluded from the campaign by construction, witnesses replayed).
const (
	kfChainDrop  = "C11-chain-drops-sel" // chains of >= 3 selectors lose operands
	kfAndSpan    = "C11-and-same-span"   // `&&` of selectors intersects span rows instead of traces
	kfPortion    = "C11-portion-narrows-window" // per-portion processor moves From to the winners' earliest start
)

func plannerCtx(c *searchCase, db *fakesql.DB) *shared.PlannerContext {
	ctx, cancel := context.WithCancel(context.Background())
	return &shared.PlannerContext{
		IsCluster: false,
		// SearchTraceQL receives time.Unix(seconds, 0) (tempoController.parseTraceSearchParams);
		// UTC keeps the date bounds out of C13's time-zone territory.
		From:                 time.Unix(c.From, 0).UTC(),
		To:                   time.Unix(c.To, 0).UTC(),
		Limit:                int64(c.Limit),
		Ctx:                  ctx,
		CancelCtx:            cancel,
		CHDb:                 db.Session(),
		VersionInfo:          map[string]int64{},
		TracesAttrsTable:     "tempo_traces_attrs_gin", // tables.PopulateTableNames, single node
		TracesAttrsDistTable: "tempo_traces_attrs_gin",
		TracesTable:          "tempo_traces",
		TracesDistTable:      "tempo_traces",
		TracesKVTable:        "tempo_traces_kv",
		TracesKVDistTable:    "tempo_traces_kv",
	}
}

// stmtFailure inspects the statements sent; returns (discardReason, violation).
func stmtFailure(stmts []stmtRec) (string, error) {
	for _, s := range stmts {
		switch classify(s.Err) {
		case errUnsupported:
			return "chsim-unsupported", nil
		case errRejected:
			return "", fmt.Errorf("generated statement is rejected (%v):\n%s", s.Err, s.SQL)
		}
	}
	return "", nil
}

type searchOut struct {
	got    map[string][]string
	traces []model.TraceInfo
	err    error
	stmts  []stmtRec
	conv   error
}

func runSearch(c *searchCase, text string) (out searchOut, parseErr error) {
	script, err := traceql_parser.Parse(text)
	if err != nil {
		return out, err
	}
	be := &chBackend{db: BuildCHDB(&c.DB), complexity: c.Complexity, convert: convertSearchRow}
	fdb := fakesql.New(be.handle)
	defer fdb.Close()
	pctx := plannerCtx(c, fdb)
	defer pctx.CancelCtx()
	planner, err := traceql_transpiler.Plan(script)
	if err != nil {
		out.err = err
		return out, nil
	}
	ch, err := planner.Process(pctx)
	if err != nil {
		out.err = err
		out.stmts = be.statements()
		return out, nil
	}
	out.got = map[string][]string{}
	for batch := range ch {
		for _, tr := range batch {
			out.traces = append(out.traces, tr)
			var ids []string
			for _, s := range tr.SpanSet.Spans {
				ids = append(ids, s.SpanID)
			}
			if _, dup := out.got[tr.TraceID]; dup {
				out.err = fmt.Errorf("trace %s returned twice", tr.TraceID)
			}
			out.got[tr.TraceID] = ids
		}
	}
	out.stmts = be.statements()
	out.conv = be.convErr
	return out, nil
}

func describe(c *searchCase, text string, stmts []stmtRec) string {
	var b strings.Builder
	fmt.Fprintf(&b, "query: %s\nwindow: [%d, %d) s, limit %d, scripted complexity %d\n", text, c.From, c.To, c.Limit, c.Complexity)
	for _, tr := range c.DB.Traces {
		fmt.Fprintf(&b, "trace %s\n", tr.ID)
		for _, s := range tr.Spans {
			in := "in "
			if s.TS < c.From*1e9 || s.TS >= c.To*1e9 {
				in = "OUT"
			}
			fmt.Fprintf(&b, "  span %s %s ts=%d dur=%d name=%q svc=%q %v\n", s.ID, in, s.TS, s.Dur, s.Name, s.Service, s.Attrs)
		}
	}
	for i, s := range stmts {
		q := s.SQL
		if len(q) > 1500 && os.Getenv("C11_DEBUG") == "" {
			q = q[:1500] + "…"
		}
		fmt.Fprintf(&b, "stmt %d (%d rows, err %v): %s\n", i, s.Rows, s.Err, q)
	}
	return b.String()
}

func predSearch(c searchCase, o *evid.Obs) error {
	text := c.Q.String()
	from, to := c.From*1e9, c.To*1e9

	// ---- reference ------------------------------------------------------------------
	readings := []refeval.TQReading{refeval.TQReadStd}
	mixedExpr := false
	for i := range c.Q.Sels {
		if c.Q.Sels[i].Expr.MixedOps() {
			mixedExpr = true
		}
	}
	if mixedExpr || c.Q.MixedChain() {
		// precedence of unparenthesised mixed chains: accept the standard reading and qryn's parse
		readings = append(readings, refeval.TQReadRight)
		o.Tag("mixed-precedence")
	}
	var refs [][]refeval.TQTraceResult
	var refErr error
	for _, r := range readings {
		res, err := refeval.EvalTraceQL(&c.Q, &c.DB, from, to, r)
		if err != nil {
			refErr = err
			break
		}
		refs = append(refs, res)
	}
	if refErr != nil && !errors.Is(refErr, refeval.ErrTQUnsupported) {
		return fmt.Errorf("harness: reference failed: %v", refErr)
	}

	// ---- known-finding regions ----------------------------------------------------------
	if !o.Witness && refErr == nil {
		if len(c.Q.Sels) >= 3 && !noExclude(kfChainDrop) {
			o.Known(kfChainDrop)
			o.Discard("known:" + kfChainDrop)
			return nil
		}
		if len(c.Q.Sels) == 2 && c.Q.Ops[0] == "&&" && !noExclude(kfAndSpan) {
			o.Known(kfAndSpan)
			o.Discard("known:" + kfAndSpan)
			return nil
		}
	}

	// ---- qryn ---------------------------------------------------------------------------
	out, perr := runSearch(&c, text)
	if perr != nil {
		return fmt.Errorf("generated script %q rejected by the parser: %v", text, perr)
	}
	if out.conv != nil {
		return fmt.Errorf("harness: result conversion failed: %v\n%s", out.conv, describe(&c, text, out.stmts))
	}
	if refErr != nil {
		// outside the supported language: the planner is expected to answer with an error
		if out.err != nil {
			o.Discard("unsupported-query")
		} else {
			o.Discard("unsupported-by-reference-only")
		}
		return nil
	}
	if reason, verr := stmtFailure(out.stmts); verr != nil {
		return fmt.Errorf("%w\n%s", verr, describe(&c, text, nil))
	} else if reason != "" {
		o.Discard(reason)
		return nil
	}
	if out.err != nil {
		return fmt.Errorf("query inside the supported language fails: %v\n%s", out.err, describe(&c, text, out.stmts))
	}
	// every result row must have reached the caller (a Scan failure ends the stream silently)
	last := out.stmts[len(out.stmts)-1]
	if last.Rows != len(out.traces) {
		return fmt.Errorf("harness: final statement produced %d rows, %d traces were delivered\n%s", last.Rows, len(out.traces), describe(&c, text, out.stmts))
	}

	// ---- classification -----------------------------------------------------------------
	o.Tag(fmt.Sprintf("selectors=%d", len(c.Q.Sels)))
	complexPath := c.Complexity >= complexityThreshold
	if complexPath {
		o.Tag("per-portion-processor")
	} else {
		o.Tag("simple-processor")
	}
	hasAgg, empty := false, false
	for i := range c.Q.Sels {
		if c.Q.Sels[i].Agg != nil {
			hasAgg = true
			o.Tag("agg:" + c.Q.Sels[i].Agg.Fn)
		}
		if c.Q.Sels[i].Expr == nil {
			empty = true
			o.Tag("empty-selector")
		}
	}
	_ = hasAgg
	nyes, ndc := 0, 0
	for _, t := range refs[0] {
		switch t.State {
		case refeval.TQYes:
			nyes++
		case refeval.TQDontCare:
			ndc++
		}
	}
	if ndc > 0 {
		o.Tag("dont-care-aggregate")
	}
	if nyes > c.Limit {
		o.Tag("limit-binds")
	}
	if nyes > 0 && nyes < len(c.DB.Traces) {
		o.NonTrivial()
		o.Tag("strict-subset")
	} else if nyes == 0 {
		o.Tag("selects-none")
	} else {
		o.Tag("selects-all")
	}

	sharedIDTags(&c, refs[0], from, to, o)
	aggTags(&c, refs[0], from, to, o)
	patternTags(&c, from, to, o)
	orTags(&c, from, to, o)
	numericTags(&c, from, to, o)

	// The per-portion processor (complex_request_processor.go) moves From to the earliest
	// start among the current winners whenever an iteration fills the page. The known finding
	// C11-portion-narrows-window is the case where that move changes what is read: some span
	// lies between the requested From and the start of a trace that can win (a span of a
	// newer candidate cut off, or a span before the window admitted). Only there the
	// comparison is skipped; everywhere else the portioned search has to return exactly what
	// the simple one returns.
	if complexPath {
		portionTags(&c, refs[0], o)
		if nyes+ndc >= c.Limit && portionMoveMatters(&c, refs) && !o.Witness && !noExclude(kfPortion) {
			o.Known(kfPortion)
			o.Tag("skipped:portion-window")
			return nil
		}
		o.Tag("portioned-compared")
	}

	// ---- comparison -----------------------------------------------------------------------
	skipRecency := empty || hasAnd(c.Q.Ops)
	var firstDiff string
	for i := range refs {
		d := refeval.TQCheckSearchResult(refs[i], c.Limit, out.got, skipRecency)
		if d == "" {
			return nil
		}
		if i == 0 {
			firstDiff = d
		}
	}
	return fmt.Errorf("%s\nreturned: %s\nreference: %s\n%s", firstDiff, fmtGot(out.got), fmtRef(refs[0]), describe(&c, text, out.stmts))
}

// portionMoveMatters: From only ever moves to the start (earliest span, inside or outside
// the window — traces_info reads all of tempo_traces) of a trace the query can select. The
// move changes what is read when such a start lies before the requested From and a span
// lies in between (admitted although outside the window), or when it lies inside the
// window and some trace has in-window spans on both sides of it (its earlier spans are cut).
func portionMoveMatters(c *searchCase, refs [][]refeval.TQTraceResult) bool {
	from := c.From * 1e9
	for ti := range c.DB.Traces {
		selectable := false
		for _, ref := range refs {
			if ref[ti].State != refeval.TQNo {
				selectable = true
			}
		}
		if !selectable {
			continue
		}
		start := c.DB.Traces[ti].Spans[0].TS
		for _, sp := range c.DB.Traces[ti].Spans {
			if sp.TS < start {
				start = sp.TS
			}
		}
		to := c.To * 1e9
		for _, tr := range c.DB.Traces {
			before, after := false, false
			for _, sp := range tr.Spans {
				if start < from && sp.TS >= start && sp.TS < from {
					return true // a span before the requested window would be admitted
				}
				if sp.TS >= from && sp.TS < start {
					before = true
				}
				if sp.TS >= start && sp.TS < to {
					after = true
				}
			}
			if before && after {
				return true // this trace would lose its spans before the new From
			}
			// a trace lying entirely before `start` is older than every current winner
			// (their latest match is >= their start >= the new From): dropping it is harmless
		}
	}
	return false
}

// portionOf asks the reference interpreter for the partition of every trace
// (cityHash64(trace_id) % n, the expression attr_condition.go renders).
func portionOf(db *refeval.TQDB, n int64) map[string]int64 {
	res, err := BuildCHDB(db).Query(fmt.Sprintf("SELECT lower(hex(trace_id)) as id, cityHash64(trace_id) %% %d as p FROM tempo_traces GROUP BY trace_id", n))
	out := map[string]int64{}
	if err != nil {
		return out
	}
	for _, r := range res.Rows {
		id, _ := r[0].(string)
		p, _ := toInt64(r[1])
		out[id] = p
	}
	return out
}

// portionTags classifies a per-portion case: how many portions hold matching traces, and
// whether a trace of the final page lives in a portion after the one that first fills the
// page (the winners of earlier portions have to be displaced).
func portionTags(c *searchCase, ref []refeval.TQTraceResult, o *evid.Obs) {
	n := (c.Complexity + complexityThreshold - 1) / complexityThreshold
	o.Tag(fmt.Sprintf("portions=%d", n))
	part := portionOf(&c.DB, n)
	if len(part) == 0 {
		return
	}
	var yes []refeval.TQTraceResult
	perPortion := map[int64]int{}
	for _, t := range ref {
		if t.State == refeval.TQYes {
			yes = append(yes, t)
			perPortion[part[t.ID]]++
		}
	}
	o.Tag(fmt.Sprintf("portions-with-matches=%d", len(perPortion)))
	if len(yes) <= c.Limit {
		return
	}
	cum, fills := 0, int64(-1)
	for p := int64(0); p < n; p++ {
		cum += perPortion[p]
		if cum >= c.Limit {
			fills = p
			break
		}
	}
	sort.Slice(yes, func(i, j int) bool { return yes[i].Recent > yes[j].Recent })
	for _, t := range yes[:c.Limit] {
		if fills >= 0 && part[t.ID] > fills {
			o.Tag("later-portion-newer")
			return
		}
	}
}

// sharedIDTags: span ids repeating across traces. "decisive" = a span id is carried by a
// matched span of a selected trace and by an in-window span of another trace that is not
// matched (a lookup by span_id alone would pick the foreign span up), with at least two
// selected traces whose matched span ids differ.
func sharedIDTags(c *searchCase, ref []refeval.TQTraceResult, from, to int64, o *evid.Obs) {
	owners := map[string]int{}
	for _, tr := range c.DB.Traces {
		for _, sp := range tr.Spans {
			owners[sp.ID]++
		}
	}
	sharedAny := false
	for _, n := range owners {
		if n > 1 {
			sharedAny = true
		}
	}
	if !sharedAny {
		return
	}
	o.Tag("span-ids-repeat-across-traces")
	matched := map[string]bool{} // span ids matched somewhere
	sets := map[string]bool{}
	nsel := 0
	for _, t := range ref {
		if t.State != refeval.TQYes {
			continue
		}
		nsel++
		sets[strings.Join(t.Spans, ",")] = true
		for _, id := range t.Spans {
			matched[id] = true
		}
	}
	foreign := false
	for ti, tr := range c.DB.Traces {
		mine := map[string]bool{}
		if ref[ti].State == refeval.TQYes {
			for _, id := range ref[ti].Spans {
				mine[id] = true
			}
		}
		for _, sp := range tr.Spans {
			if sp.TS >= from && sp.TS < to && matched[sp.ID] && !mine[sp.ID] {
				foreign = true
			}
		}
	}
	if foreign && nsel >= 2 && len(sets) >= 2 {
		o.Tag("span-ids-repeat:decisive")
	}
}

// aggTags: count thresholds around the span cap, and aggregates over an attribute that a term
// inside an `||` of the same selector also tests, with a matched span whose value fails it.
func aggTags(c *searchCase, ref []refeval.TQTraceResult, from, to int64, o *evid.Obs) {
	if len(c.Q.Sels) != 1 || c.Q.Sels[0].Agg == nil {
		return
	}
	sel := &c.Q.Sels[0]
	if sel.Agg.Fn == "count" {
		n, err := strconv.ParseFloat(sel.Agg.Num, 64)
		if err != nil || n < 99 {
			return
		}
		o.Tag("count-threshold>=99")
		plain, err := refeval.EvalTraceQL(&refeval.TQScript{Sels: []refeval.TQSelector{{Expr: sel.Expr}}}, &c.DB, from, to, refeval.TQReadStd)
		if err != nil {
			return
		}
		for _, t := range plain {
			if len(t.Spans) > refeval.TQSpanCap {
				o.Tag("count:trace-above-span-cap")
				if float64(len(t.Spans)) >= n && n > float64(refeval.TQSpanCap) {
					o.Tag("count:threshold-between-cap-and-count")
				}
				break
			}
		}
		return
	}
	key, isDur, err := refeval.TQKeyOfLabel(sel.Agg.Attr)
	if err != nil || isDur || sel.Expr == nil || !sel.Expr.MixedOps() && !hasOr(sel.Expr) {
		return
	}
	var same []*refeval.TQTerm
	sel.Expr.Terms(func(t *refeval.TQTerm) {
		if k, d, e := refeval.TQKeyOfLabel(t.Label); e == nil && !d && k == key {
			same = append(same, t)
		}
	})
	if len(same) == 0 {
		return
	}
	o.Tag("agg-over-filtered-attr")
	matched := map[string]bool{}
	for _, t := range ref {
		for _, id := range t.Spans {
			matched[t.ID+"/"+id] = true
		}
	}
	for ti := range c.DB.Traces {
		for si := range c.DB.Traces[ti].Spans {
			sp := &c.DB.Traces[ti].Spans[si]
			if !matched[c.DB.Traces[ti].ID+"/"+sp.ID] {
				continue
			}
			for _, t := range same {
				one := refeval.TQDB{Traces: []refeval.TQTrace{{ID: "t", Spans: []refeval.TQSpan{*sp}}}}
				r, err := refeval.EvalTraceQL(&refeval.TQScript{Sels: []refeval.TQSelector{{Expr: &refeval.TQExpr{Heads: []refeval.TQHead{{Term: t}}}}}}, &one, from, to, refeval.TQReadStd)
				if err != nil {
					continue
				}
				for _, kv := range sp.AllAttrs() {
					if _, isNum := refeval.TQNumericAttr(kv.V); kv.K == key && isNum && r[0].State == refeval.TQNo {
						o.Tag("agg-over-filtered-attr:decisive")
						return
					}
				}
			}
		}
	}
}

func hasOr(e *refeval.TQExpr) bool {
	for _, op := range e.Ops {
		if op == "||" {
			return true
		}
	}
	for _, h := range e.Heads {
		if h.Paren != nil && hasOr(h.Paren) {
			return true
		}
	}
	return false
}

// patternTags: kinds of regex patterns in the query (and whether a span in the window carries,
// under the same key, a value that matches only because of / fails only without the flag or
// escape), and fractional duration literals with a span duration (or, for aggregates, any
// span duration) between the truncated and the written bound.
func patternTags(c *searchCase, from, to int64, o *evid.Obs) {
	inWindow := func(f func(sp *refeval.TQSpan)) {
		for ti := range c.DB.Traces {
			for si := range c.DB.Traces[ti].Spans {
				sp := &c.DB.Traces[ti].Spans[si]
				if sp.TS >= from && sp.TS < to {
					f(sp)
				}
			}
		}
	}
	between := func(num, unit string) {
		if !strings.Contains(num, ".") {
			return
		}
		o.Tag("dur-fractional-literal")
		full, err1 := refeval.TQDurationNs(num, unit)
		ip, _, _ := strings.Cut(num, ".")
		trunc, err2 := refeval.TQDurationNs(ip, unit)
		if err1 != nil || err2 != nil {
			return
		}
		if trunc > full {
			trunc, full = full, trunc
		}
		hit := false
		inWindow(func(sp *refeval.TQSpan) {
			if sp.Dur >= trunc && sp.Dur <= full && trunc != full {
				hit = true
			}
		})
		if hit {
			o.Tag("dur-between-truncated-and-written")
		}
	}
	for i := range c.Q.Sels {
		c.Q.Sels[i].Expr.Terms(func(t *refeval.TQTerm) {
			if t.Val.Kind == "dur" && t.Label == "duration" {
				between(t.Val.Num, t.Val.Unit)
			}
			if t.Val.Kind != "str" || (t.Op != "=~" && t.Op != "!~") {
				return
			}
			p := t.Val.Str
			kind := ""
			switch {
			case strings.Contains(p, "(?i"):
				kind = "flagged"
			case strings.Contains(p, `\.`):
				kind = "escaped-literal"
			case strings.Contains(p, "|"):
				kind = "alternation"
			case strings.HasPrefix(p, "^") || strings.HasSuffix(p, "$"):
				kind = "anchored"
			default:
				return
			}
			o.Tag("regex:" + kind)
			// does the flag / escape decide for some span? compare with the pattern stripped of it
			plain := strings.NewReplacer("(?i)", "", "(?i:", "(?:", `\.`, ".").Replace(p)
			re1, e1 := regexp.Compile(p)
			re2, e2 := regexp.Compile(plain)
			key, _, kerr := refeval.TQKeyOfLabel(t.Label)
			if e1 != nil || e2 != nil || kerr != nil || plain == p {
				return
			}
			inWindow(func(sp *refeval.TQSpan) {
				for _, kv := range sp.AllAttrs() {
					if kv.K == key && re1.MatchString(kv.V) != re2.MatchString(kv.V) {
						o.Tag("regex:flag-or-escape-decides")
					}
				}
			})
		})
		if a := c.Q.Sels[i].Agg; a != nil && a.Attr == "duration" {
			between(strings.TrimPrefix(a.Num, "-"), a.Unit)
		}
	}
}

// orTags classifies `{A} || {B}` cases: does the limit cut into what one operand alone
// matches, and does a selected trace carry spans that only A and spans that only B matches.
func orTags(c *searchCase, from, to int64, o *evid.Obs) {
	if len(c.Q.Sels) != 2 || c.Q.Ops[0] != "||" {
		return
	}
	o.Tag("or-chain")
	var per [2][]refeval.TQTraceResult
	for i := 0; i < 2; i++ {
		res, err := refeval.EvalTraceQL(&refeval.TQScript{Sels: []refeval.TQSelector{c.Q.Sels[i]}}, &c.DB, from, to, refeval.TQReadStd)
		if err != nil {
			return
		}
		per[i] = res
	}
	cut, disjoint := false, false
	for i := 0; i < 2; i++ {
		n := 0
		for _, t := range per[i] {
			if t.State == refeval.TQYes {
				n++
			}
		}
		if n > c.Limit {
			cut = true
		}
	}
	for ti := range c.DB.Traces {
		a, b := per[0][ti], per[1][ti]
		if a.State != refeval.TQYes || b.State != refeval.TQYes {
			continue
		}
		inA, inB := map[string]bool{}, map[string]bool{}
		for _, s := range a.Spans {
			inA[s] = true
		}
		for _, s := range b.Spans {
			inB[s] = true
		}
		onlyA, onlyB := false, false
		for s := range inA {
			if !inB[s] {
				onlyA = true
			}
		}
		for s := range inB {
			if !inA[s] {
				onlyB = true
			}
		}
		if onlyA && onlyB {
			disjoint = true
		}
	}
	if cut {
		o.Tag("or:limit-below-one-operand's-matches")
	}
	if disjoint {
		o.Tag("or:trace-with-spans-of-different-operands")
	}
	if cut && disjoint {
		o.Tag("or:both")
	}
}

// numericTags: numeric comparison terms with a zero or negative threshold, and whether a
// span in the window carries a non-numeric / empty value for that key or lacks it.
func numericTags(c *searchCase, from, to int64, o *evid.Obs) {
	nonpos, against := false, false
	for i := range c.Q.Sels {
		c.Q.Sels[i].Expr.Terms(func(t *refeval.TQTerm) {
			if t.Val.Kind != "num" {
				return
			}
			f, err := strconv.ParseFloat(t.Val.Num, 64)
			key, isDur, kerr := refeval.TQKeyOfLabel(t.Label)
			if err != nil || kerr != nil || isDur || f > 0 {
				return
			}
			nonpos = true
			for ti := range c.DB.Traces {
				for si := range c.DB.Traces[ti].Spans {
					sp := &c.DB.Traces[ti].Spans[si]
					if sp.TS < from || sp.TS >= to {
						continue
					}
					found := false
					for _, kv := range sp.AllAttrs() {
						if kv.K == key {
							found = true
							if _, isNum := refeval.TQNumericAttr(kv.V); !isNum {
								against = true
							}
						}
					}
					if !found {
						against = true
					}
				}
			}
		})
	}
	if nonpos {
		o.Tag("num-threshold<=0")
	}
	if against {
		o.Tag("num-threshold<=0-vs-nonnumeric-or-missing")
	}
}

// noExclude switches the known-finding exclusions off (development aid).
func noExclude(id string) bool {
	v := os.Getenv("C11_NOEXCLUDE")
	return v == "all" || (v != "" && strings.Contains(","+v+",", ","+id+","))
}

type plannerContext = shared.PlannerContext

func hasAnd(ops []string) bool {
	for _, o := range ops {
		if o == "&&" {
			return true
		}
	}
	return false
}

func fmtGot(got map[string][]string) string {
	var ids []string
	for id := range got {
		ids = append(ids, id)
	}
	sort.Strings(ids)
	var b strings.Builder
	for _, id := range ids {
		s := append([]string(nil), got[id]...)
		sort.Strings(s)
		fmt.Fprintf(&b, "%s%v ", id, s)
	}
	return b.String()
}

func fmtRef(ref []refeval.TQTraceResult) string {
	var b strings.Builder
	for _, t := range ref {
		st := map[refeval.TQTri]string{refeval.TQNo: "no", refeval.TQYes: "YES", refeval.TQDontCare: "dont-care"}[t.State]
		fmt.Fprintf(&b, "%s:%s%v@%d ", t.ID, st, t.Spans, t.Recent)
	}
	return b.String()
}

func addSearch(r *evid.Run) {
	evid.Add(r, evid.Prop[searchCase]{Name: "search", Quick: 2500, Thorough: 20000, Gen: genSearchCase, Pred: predSearch})
}

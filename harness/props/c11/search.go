package c11

// Sub-check "search": traceql_transpiler.Plan(script).Process(ctx) is run exactly as
// TempoService.SearchTraceQL does, against a fake database that executes every statement
// with the reference interpreter (chsim) over the generated tables. The complexity
// statement that precedes each search is executed too (must be valid) and answered by
// script, so both the simple and the per-portion processor run. The traces and spans that
// come back are compared with the direct evaluator refeval.EvalTraceQL.

import (
	"context"
	"errors"
	"fmt"
	"os"
	"sort"
	"strings"
	"time"

	"github.com/metrico/qryn/reader/logql/logql_transpiler_v2/shared"
	"github.com/metrico/qryn/reader/model"
	traceql_parser "github.com/metrico/qryn/reader/traceql/parser"
	traceql_transpiler "github.com/metrico/qryn/reader/traceql/transpiler"

	"qrynverif/evid"
	"qrynverif/fakesql"
	"qrynverif/refeval"
)

const complexityThreshold = 10_000_000 // traceql_transpiler.COMPLEXITY_THRESHOLD

// Known-finding regions (excluded from the campaign by construction, witnesses replayed).
const (
	kfChainDrop  = "C11-chain-drops-sel" // chains of >= 3 selectors lose operands
	kfAndSpan    = "C11-and-same-span"   // `&&` of selectors intersects span rows instead of traces
	kfPortion    = "C11-portion-narrows-window" // per-portion processor moves From to the winners' earliest start
)

func plannerCtx(c *searchCase, db *fakesql.DB) *shared.PlannerContext {
	ctx, cancel := context.WithCancel(context.Background())
	return &shared.PlannerContext{
		IsCluster: false,
		// SearchTraceQL receives time.Unix(seconds, 0) (tempoController.parseTraceSearchParams);
		// UTC keeps the date bounds out of C13's time-zone territory.
		From:                 time.Unix(c.From, 0).UTC(),
		To:                   time.Unix(c.To, 0).UTC(),
		Limit:                int64(c.Limit),
		Ctx:                  ctx,
		CancelCtx:            cancel,
		CHDb:                 db.Session(),
		VersionInfo:          map[string]int64{},
		TracesAttrsTable:     "tempo_traces_attrs_gin", // tables.PopulateTableNames, single node
		TracesAttrsDistTable: "tempo_traces_attrs_gin",
		TracesTable:          "tempo_traces",
		TracesDistTable:      "tempo_traces",
		TracesKVTable:        "tempo_traces_kv",
		TracesKVDistTable:    "tempo_traces_kv",
	}
}

// stmtFailure inspects the statements sent; returns (discardReason, violation).
func stmtFailure(stmts []stmtRec) (string, error) {
	for _, s := range stmts {
		switch classify(s.Err) {
		case errUnsupported:
			return "chsim-unsupported", nil
		case errRejected:
			return "", fmt.Errorf("generated statement is rejected (%v):\n%s", s.Err, s.SQL)
		}
	}
	return "", nil
}

type searchOut struct {
	got    map[string][]string
	traces []model.TraceInfo
	err    error
	stmts  []stmtRec
	conv   error
}

func runSearch(c *searchCase, text string) (out searchOut, parseErr error) {
	script, err := traceql_parser.Parse(text)
	if err != nil {
		return out, err
	}
	be := &chBackend{db: BuildCHDB(&c.DB), complexity: c.Complexity, convert: convertSearchRow}
	fdb := fakesql.New(be.handle)
	defer fdb.Close()
	pctx := plannerCtx(c, fdb)
	defer pctx.CancelCtx()
	planner, err := traceql_transpiler.Plan(script)
	if err != nil {
		out.err = err
		return out, nil
	}
	ch, err := planner.Process(pctx)
	if err != nil {
		out.err = err
		out.stmts = be.statements()
		return out, nil
	}
	out.got = map[string][]string{}
	for batch := range ch {
		for _, tr := range batch {
			out.traces = append(out.traces, tr)
			var ids []string
			for _, s := range tr.SpanSet.Spans {
				ids = append(ids, s.SpanID)
			}
			if _, dup := out.got[tr.TraceID]; dup {
				out.err = fmt.Errorf("trace %s returned twice", tr.TraceID)
			}
			out.got[tr.TraceID] = ids
		}
	}
	out.stmts = be.statements()
	out.conv = be.convErr
	return out, nil
}

func describe(c *searchCase, text string, stmts []stmtRec) string {
	var b strings.Builder
	fmt.Fprintf(&b, "query: %s\nwindow: [%d, %d) s, limit %d, scripted complexity %d\n", text, c.From, c.To, c.Limit, c.Complexity)
	for _, tr := range c.DB.Traces {
		fmt.Fprintf(&b, "trace %s\n", tr.ID)
		for _, s := range tr.Spans {
			in := "in "
			if s.TS < c.From*1e9 || s.TS >= c.To*1e9 {
				in = "OUT"
			}
			fmt.Fprintf(&b, "  span %s %s ts=%d dur=%d name=%q svc=%q %v\n", s.ID, in, s.TS, s.Dur, s.Name, s.Service, s.Attrs)
		}
	}
	for i, s := range stmts {
		q := s.SQL
		if len(q) > 1500 && os.Getenv("C11_DEBUG") == "" {
			q = q[:1500] + "…"
		}
		fmt.Fprintf(&b, "stmt %d (%d rows, err %v): %s\n", i, s.Rows, s.Err, q)
	}
	return b.String()
}

func predSearch(c searchCase, o *evid.Obs) error {
	text := c.Q.String()
	from, to := c.From*1e9, c.To*1e9

	// ---- reference ------------------------------------------------------------------
	readings := []refeval.TQReading{refeval.TQReadStd}
	mixedExpr := false
	for i := range c.Q.Sels {
		if c.Q.Sels[i].Expr.MixedOps() {
			mixedExpr = true
		}
	}
	if mixedExpr || c.Q.MixedChain() {
		// precedence of unparenthesised mixed chains: accept the standard reading and qryn's parse
		readings = append(readings, refeval.TQReadRight)
		o.Tag("mixed-precedence")
	}
	var refs [][]refeval.TQTraceResult
	var refErr error
	for _, r := range readings {
		res, err := refeval.EvalTraceQL(&c.Q, &c.DB, from, to, r)
		if err != nil {
			refErr = err
			break
		}
		refs = append(refs, res)
	}
	if refErr != nil && !errors.Is(refErr, refeval.ErrTQUnsupported) {
		return fmt.Errorf("harness: reference failed: %v", refErr)
	}

	// ---- known-finding regions ----------------------------------------------------------
	if !o.Witness && refErr == nil {
		if len(c.Q.Sels) >= 3 && !noExclude(kfChainDrop) {
			o.Known(kfChainDrop)
			o.Discard("known:" + kfChainDrop)
			return nil
		}
		if len(c.Q.Sels) == 2 && c.Q.Ops[0] == "&&" && !noExclude(kfAndSpan) {
			o.Known(kfAndSpan)
			o.Discard("known:" + kfAndSpan)
			return nil
		}
	}

	// ---- qryn ---------------------------------------------------------------------------
	out, perr := runSearch(&c, text)
	if perr != nil {
		return fmt.Errorf("generated script %q rejected by the parser: %v", text, perr)
	}
	if out.conv != nil {
		return fmt.Errorf("harness: result conversion failed: %v\n%s", out.conv, describe(&c, text, out.stmts))
	}
	if refErr != nil {
		// outside the supported language: the planner is expected to answer with an error
		if out.err != nil {
			o.Discard("unsupported-query")
		} else {
			o.Discard("unsupported-by-reference-only")
		}
		return nil
	}
	if reason, verr := stmtFailure(out.stmts); verr != nil {
		return fmt.Errorf("%w\n%s", verr, describe(&c, text, nil))
	} else if reason != "" {
		o.Discard(reason)
		return nil
	}
	if out.err != nil {
		return fmt.Errorf("query inside the supported language fails: %v\n%s", out.err, describe(&c, text, out.stmts))
	}
	// every result row must have reached the caller (a Scan failure ends the stream silently)
	last := out.stmts[len(out.stmts)-1]
	if last.Rows != len(out.traces) {
		return fmt.Errorf("harness: final statement produced %d rows, %d traces were delivered\n%s", last.Rows, len(out.traces), describe(&c, text, out.stmts))
	}

	// ---- classification -----------------------------------------------------------------
	o.Tag(fmt.Sprintf("selectors=%d", len(c.Q.Sels)))
	complexPath := c.Complexity >= complexityThreshold
	if complexPath {
		o.Tag("per-portion-processor")
	} else {
		o.Tag("simple-processor")
	}
	hasAgg, empty := false, false
	for i := range c.Q.Sels {
		if c.Q.Sels[i].Agg != nil {
			hasAgg = true
			o.Tag("agg:" + c.Q.Sels[i].Agg.Fn)
		}
		if c.Q.Sels[i].Expr == nil {
			empty = true
			o.Tag("empty-selector")
		}
	}
	_ = hasAgg
	nyes, ndc := 0, 0
	for _, t := range refs[0] {
		switch t.State {
		case refeval.TQYes:
			nyes++
		case refeval.TQDontCare:
			ndc++
		}
	}
	if ndc > 0 {
		o.Tag("dont-care-aggregate")
	}
	if nyes > c.Limit {
		o.Tag("limit-binds")
	}
	if nyes > 0 && nyes < len(c.DB.Traces) {
		o.NonTrivial()
		o.Tag("strict-subset")
	} else if nyes == 0 {
		o.Tag("selects-none")
	} else {
		o.Tag("selects-all")
	}

	// The per-portion processor (complex_request_processor.go) moves From to the earliest
	// start among the current winners whenever an iteration fills the page; later candidates
	// then lose their earlier spans. Only pages that can never fill are compared.
	if complexPath && nyes+ndc >= c.Limit && !o.Witness && !noExclude(kfPortion) {
		o.Known(kfPortion)
		o.Tag("skipped:portion-window")
		return nil
	}

	// ---- comparison -----------------------------------------------------------------------
	skipRecency := empty || hasAnd(c.Q.Ops)
	var firstDiff string
	for i := range refs {
		d := refeval.TQCheckSearchResult(refs[i], c.Limit, out.got, skipRecency)
		if d == "" {
			return nil
		}
		if i == 0 {
			firstDiff = d
		}
	}
	return fmt.Errorf("%s\nreturned: %s\nreference: %s\n%s", firstDiff, fmtGot(out.got), fmtRef(refs[0]), describe(&c, text, out.stmts))
}

// noExclude switches the known-finding exclusions off (development aid).
func noExclude(id string) bool {
	v := os.Getenv("C11_NOEXCLUDE")
	return v == "all" || (v != "" && strings.Contains(","+v+",", ","+id+","))
}

type plannerContext = shared.PlannerContext

func hasAnd(ops []string) bool {
	for _, o := range ops {
		if o == "&&" {
			return true
		}
	}
	return false
}

func fmtGot(got map[string][]string) string {
	var ids []string
	for id := range got {
		ids = append(ids, id)
	}
	sort.Strings(ids)
	var b strings.Builder
	for _, id := range ids {
		s := append([]string(nil), got[id]...)
		sort.Strings(s)
		fmt.Fprintf(&b, "%s%v ", id, s)
	}
	return b.String()
}

func fmtRef(ref []refeval.TQTraceResult) string {
	var b strings.Builder
	for _, t := range ref {
		st := map[refeval.TQTri]string{refeval.TQNo: "no", refeval.TQYes: "YES", refeval.TQDontCare: "dont-care"}[t.State]
		fmt.Fprintf(&b, "%s:%s%v@%d ", t.ID, st, t.Spans, t.Recent)
	}
	return b.String()
}

func addSearch(r *evid.Run) {
	evid.Add(r, evid.Prop[searchCase]{Name: "search", Quick: 2500, Thorough: 20000, Gen: genSearchCase, Pred: predSearch})
}

package c11

// Generators: TraceQL scripts (own AST, refeval.TQScript) and small trace databases.
//
// Grammar restrictions and their justification (qryn, /repo/reader/traceql/parser):
//   - labels match Label_name `(\.[a-zA-Z_][.a-zA-Z0-9_-]*|[a-zA-Z_][.a-zA-Z0-9_-]*)` (lexer_rules v2.go);
//   - numbers are `-?digits[.digits]`, durations `digits[.digits]unit` without sign (model_v2.go Value);
//   - strings are JSON-escaped double-quoted or back-ticked (QuotedString.Unquote);
//   - aggregator `| fn(attr?) cmp -?digits[.digits] unit?` (model_v2.go Aggregator).
// A minority of the scripts is deliberately outside the *supported* language (ordering
// operator on a string, regex on a number, unknown intrinsic, `d` unit, unit on a count):
// the parser accepts them and the planner answers with an error; those are discards and
// keep the boundary of the domain honest.

import (
	"fmt"
	"strings"

	"pgregory.net/rapid"

	"qrynverif/refeval"
)

var (
	attrKeys   = []string{"a", "b", "c", "http.status-code", "k_1"}
	queryKeys  = []string{"a", "a", "b", "b", "c", "http.status-code", "k_1", "zz", "service.name", "name"}
	prefixes   = []string{".", ".", "span.", "resource."}
	strVals    = []string{"x", "y", "xy", "GET", "", `a"b`, `a\b`, "it's", "1", "2.000000", "svcA", "op1", "error", "ERROR", "Error", "warn", "WARN", "a.b", "axb"}
	numAttrs   = []string{"0", "1", "2", "3", "10", "-3", "1.500000", "2.000000", "-1.500000"}
	oddAttrs   = []string{"1x", "abc", "true", ""}
	spanNames  = []string{"op1", "op2", "GET /", "x", "2"}
	services   = []string{"svcA", "svcB", "x"}
	regexes    = []string{"x", "^x", "x$", "^x$", "x|y", "^(x|y)$", ".*", "^$", "[0-9]+", `\d+`, `^\d+$`, "a.b", "G.T", "^x.*", "(?i)get", "o+p", `a\\b`, `a"b`,
		// literals under flags, escaped / anchored literals, alternations (RE2 decides; qryn renders match(), unanchored)
		"(?i)error", "(?i:warn)", `a\.b`, "^error$", "^ERROR", "error$", "(?i)^a\\.b$", "error|warn", "(?i)err(or)?$", "[Ee]rror", "a.b$", "(?i)x"}
	numConsts  = []string{"0", "0", "1", "2", "3", "10", "-3", "-2", "-1", "1.5", "2.0", "2.", "-1.5", "100", "2.000000"}
	durConsts  = []refeval.TQValue{{Kind: "dur", Num: "1", Unit: "s"}, {Kind: "dur", Num: "1.5", Unit: "s"}, {Kind: "dur", Num: "2", Unit: "s"}, {Kind: "dur", Num: "1500", Unit: "ms"}, {Kind: "dur", Num: "1", Unit: "ms"}, {Kind: "dur", Num: "1.5", Unit: "ms"}, {Kind: "dur", Num: "500", Unit: "ns"}, {Kind: "dur", Num: "1", Unit: "us"}, {Kind: "dur", Num: "0.5", Unit: "us"}, {Kind: "dur", Num: "1", Unit: "m"}, {Kind: "dur", Num: "1", Unit: "h"}, {Kind: "dur", Num: "0", Unit: "s"}, {Kind: "dur", Num: "0.001", Unit: "s"}, {Kind: "dur", Num: "2.25", Unit: "m"}, {Kind: "dur", Num: "0.5", Unit: "ms"}, {Kind: "dur", Num: "1.5", Unit: "s"}, {Kind: "dur", Num: "1.25", Unit: "s"}}
	// 300 µs / 1.2 s / 130 s lie between the truncated and the written value of 0.5ms / 1.5s / 2.25m
	spanDurs   = []int64{0, 500, 1000, 300_000, 1_000_000, 1_500_000, 1_000_000_000, 1_200_000_000, 1_500_000_000, 2_000_000_000, 60_000_000_000, 130_000_000_000, 140_000_000_000, 3_600_000_000_000}
	strOps     = []string{"=", "!=", "=~", "!~"}
	cmpOps     = []string{"=", "!=", "<", "<=", ">", ">="}
	aggFns     = []string{"count", "avg", "min", "max", "sum"}
	windowBase = []int64{1_700_000_000, 1_700_006_350} // the second window crosses a UTC midnight
)

const windowWidthS = 100

// rapid's integer generators favour small and boundary values, which would make the first
// pool element and the rare branches dominate. spread() maps the drawn value through a
// multiplicative hash (0 stays 0, so cases still shrink towards the first element / the
// common branch) to get a near-uniform choice.
func spread(rt *rapid.T, label string) uint64 {
	x := rapid.Uint64().Draw(rt, label)
	return (x * 0x9E3779B97F4A7C15) >> 24
}

func pick[T any](rt *rapid.T, xs []T, label string) T {
	return xs[int(spread(rt, label)%uint64(len(xs)))]
}

func chance(rt *rapid.T, percent int, label string) bool {
	return int(spread(rt, label)%100) >= 100-percent
}

func genLabel(rt *rapid.T) string {
	switch n := int(spread(rt, "labelKind") % 100); {
	case n < 64:
		return pick(rt, prefixes, "prefix") + pick(rt, queryKeys, "key")
	case n < 76:
		return "name"
	case n < 99:
		return "duration"
	default:
		return pick(rt, []string{"status", "kind", "a"}, "bareLabel") // unsupported intrinsic / bare name
	}
}

func genTerm(rt *rapid.T) *refeval.TQTerm {
	t := &refeval.TQTerm{Label: genLabel(rt)}
	if t.Label == "duration" {
		t.Op = pick(rt, cmpOps, "op")
		switch n := int(spread(rt, "durVal") % 100); {
		case n < 97:
			t.Val = pick(rt, durConsts, "dur")
		case n < 98:
			t.Val = refeval.TQValue{Kind: "dur", Num: "1", Unit: "d"} // grammar ok, planner rejects
		case n < 99:
			t.Val = refeval.TQValue{Kind: "num", Num: "1"} // not a duration
		default:
			t.Op = pick(rt, []string{"=~", "!~"}, "badDurOp")
			t.Val = pick(rt, durConsts, "dur")
		}
		return t
	}
	switch n := int(spread(rt, "valKind") % 100); {
	case n < 40:
		t.Val = refeval.TQValue{Kind: "str", Str: pick(rt, strVals, "str"), Tick: chance(rt, 25, "tick")}
		t.Op = pick(rt, []string{"=", "=", "!="}, "op")
	case n < 57:
		t.Val = refeval.TQValue{Kind: "str", Str: pick(rt, regexes, "re"), Tick: chance(rt, 40, "tick")}
		t.Op = pick(rt, []string{"=~", "=~", "!~"}, "op")
	case n < 58:
		t.Val = refeval.TQValue{Kind: "str", Str: pick(rt, strVals, "str")}
		t.Op = pick(rt, []string{"<", "<=", ">", ">="}, "op") // unsupported on strings
	case n < 98:
		t.Val = refeval.TQValue{Kind: "num", Num: pick(rt, numConsts, "num")}
		t.Op = pick(rt, cmpOps, "op")
	case n < 99:
		t.Val = refeval.TQValue{Kind: "num", Num: pick(rt, numConsts, "num")}
		t.Op = pick(rt, []string{"=~", "!~"}, "op") // unsupported on numbers
	default:
		t.Val = pick(rt, durConsts, "dur") // attribute compared with a duration: unsupported
		t.Op = pick(rt, cmpOps, "op")
	}
	return t
}

func genExpr(rt *rapid.T, depth int, seen *[]*refeval.TQTerm) *refeval.TQExpr {
	n := pick(rt, []int{1, 1, 2, 2, 2, 3, 3, 4}, "heads")
	if depth > 0 && n == 1 {
		n = 2
	}
	e := &refeval.TQExpr{}
	uniform := chance(rt, 65, "uniformOps")
	op0 := pick(rt, []string{"&&", "||"}, "op0")
	for i := 0; i < n; i++ {
		if i > 0 {
			if uniform {
				e.Ops = append(e.Ops, op0)
			} else {
				e.Ops = append(e.Ops, pick(rt, []string{"&&", "||"}, "opi"))
			}
		}
		if depth < 2 && chance(rt, 22, "paren") {
			e.Heads = append(e.Heads, refeval.TQHead{Paren: genExpr(rt, depth+1, seen)})
			continue
		}
		var t *refeval.TQTerm
		if len(*seen) > 0 && chance(rt, 22, "repeat") {
			cp := *pick(rt, *seen, "seen") // repeated term (shares a bit in the planner)
			t = &cp
		} else {
			t = genTerm(rt)
			*seen = append(*seen, t)
		}
		e.Heads = append(e.Heads, refeval.TQHead{Term: t})
	}
	return e
}

func genAgg(rt *rapid.T) *refeval.TQAgg {
	a := &refeval.TQAgg{Fn: pick(rt, aggFns, "fn"), Cmp: pick(rt, cmpOps, "cmp")}
	if a.Fn == "count" {
		a.Num = pick(rt, []string{"0", "1", "1", "2", "2", "3", "1.5"}, "cnt")
		if chance(rt, 1, "cntUnit") {
			a.Unit = "s" // unsupported
		}
		return a
	}
	if chance(rt, 45, "aggDur") {
		a.Attr = "duration"
		d := pick(rt, durConsts, "aggDurVal")
		a.Num, a.Unit = d.Num, d.Unit
		if chance(rt, 5, "negDur") {
			a.Num = "-" + a.Num
		}
		if chance(rt, 1, "noUnit") {
			a.Unit = "" // unsupported: duration aggregate against a plain number
		}
		if chance(rt, 1, "dayUnit") {
			a.Unit = "d"
		}
		return a
	}
	a.Attr = pick(rt, prefixes, "aggPrefix") + pick(rt, attrKeys, "aggKey")
	a.Num = pick(rt, numConsts, "aggNum")
	if chance(rt, 1, "attrUnit") && !strings.HasSuffix(a.Num, ".") { // "2.ms" would lex as 2 .ms
		a.Unit = "ms" // unsupported
	}
	return a
}

func genSelector(rt *rapid.T, allowEmpty bool) refeval.TQSelector {
	if allowEmpty && chance(rt, 4, "emptySel") {
		return refeval.TQSelector{}
	}
	var seen []*refeval.TQTerm
	s := refeval.TQSelector{Expr: genExpr(rt, 0, &seen)}
	if chance(rt, 35, "agg") {
		s.Agg = genAgg(rt)
	}
	return s
}

func genScript(rt *rapid.T) refeval.TQScript {
	n := pick(rt, []int{1, 1, 1, 1, 1, 1, 2, 2, 2, 3}, "nsel")
	q := refeval.TQScript{}
	for i := 0; i < n; i++ {
		if i > 0 {
			q.Ops = append(q.Ops, pick(rt, []string{"&&", "||"}, "chainOp"))
		}
		q.Sels = append(q.Sels, genSelector(rt, n == 1))
	}
	return q
}

// genSimpleScript: one selector (what PlanTagsV2 / PlanValuesV2 accept).
func genSimpleScript(rt *rapid.T) refeval.TQScript {
	return refeval.TQScript{Sels: []refeval.TQSelector{genSelector(rt, false)}}
}

func genAttrVal(rt *rapid.T) string {
	switch n := int(spread(rt, "attrValKind") % 100); {
	case n < 45:
		return pick(rt, numAttrs, "numAttr")
	case n < 85:
		return pick(rt, strVals, "strAttr")
	default:
		return pick(rt, oddAttrs, "oddAttr")
	}
}

// genTS draws a span start relative to the window [from, to): mostly inside (on a coarse
// grid so that ties between traces happen), the edges, just outside, and another day.
func genTS(rt *rapid.T, from, to int64) int64 {
	switch n := int(spread(rt, "tsKind") % 100); {
	case n < 66:
		return from + int64(spread(rt, "slot")%10)*10_000_000_000 + int64(rapid.IntRange(0, 2).Draw(rt, "jitter"))
	case n < 74:
		return from
	case n < 79:
		return to - 1
	case n < 85:
		return to
	case n < 90:
		return from - 1 - int64(rapid.IntRange(0, 50).Draw(rt, "before"))*1_000_000_000
	case n < 95:
		return to + 1 + int64(rapid.IntRange(0, 50).Draw(rt, "after"))*1_000_000_000
	case n < 98:
		return from - 86_400_000_000_000 + int64(rapid.IntRange(0, 90).Draw(rt, "dayBefore"))*1_000_000_000
	default:
		return from + 86_400_000_000_000 + int64(rapid.IntRange(0, 90).Draw(rt, "dayAfter"))*1_000_000_000
	}
}

// spanID: a span id is unique within its trace only. In "shared" databases most spans take
// an id that depends on their position alone, so the same 8-byte id occurs in several
// traces (on matching and on non-matching spans); any stage that identifies a span by
// span_id instead of (trace_id, span_id) then picks up foreign spans.
func spanID(rt *rapid.T, shared bool, ti, si, salt int) string {
	if shared && chance(rt, 75, "sharedSpanID") {
		return fmt.Sprintf("5bad%010x%02x", 0, si+1)
	}
	return fmt.Sprintf("%08x%06x%02x", ti+1, si+1, salt)
}

func genDB(rt *rapid.T, from, to int64) refeval.TQDB {
	shared := chance(rt, 35, "sharedSpanIDs")
	db := refeval.TQDB{}
	nt := rapid.IntRange(1, 5).Draw(rt, "ntraces")
	for ti := 0; ti < nt; ti++ {
		salt := rapid.Uint16().Draw(rt, "traceSalt")
		tr := refeval.TQTrace{ID: fmt.Sprintf("%016x%012x%04x", uint64(ti+1)*0x9E3779B97F4A7C15, ti+1, salt)}
		ns := rapid.IntRange(1, 5).Draw(rt, "nspans")
		for si := 0; si < ns; si++ {
			sp := refeval.TQSpan{
				ID:      spanID(rt, shared, ti, si, rapid.IntRange(0, 255).Draw(rt, "spanSalt")),
				TS:      genTS(rt, from, to),
				Dur:     pick(rt, spanDurs, "dur"),
				Name:    pick(rt, spanNames, "spanName"),
				Service: pick(rt, services, "service"),
			}
			for _, k := range attrKeys {
				if chance(rt, 45, "hasAttr") {
					sp.Attrs = append(sp.Attrs, refeval.TQKV{K: k, V: genAttrVal(rt)})
				}
			}
			tr.Spans = append(tr.Spans, sp)
		}
		db.Traces = append(db.Traces, tr)
	}
	return db
}

// searchCase is one case of the search / tags / values checks.
type searchCase struct {
	Q     refeval.TQScript `json:"q"`
	Text  string           `json:"text"` // Q printed (informative; Pred re-prints Q)
	DB    refeval.TQDB     `json:"db"`
	From  int64            `json:"from_s"`
	To    int64            `json:"to_s"`
	Limit int              `json:"limit"`
	// Complexity is the scripted answer to the complexity-evaluation statement: below
	// COMPLEXITY_THRESHOLD the simple processor runs, above it the per-portion processor.
	Complexity int64  `json:"complexity"`
	Key        string `json:"key,omitempty"` // tag whose values are asked (values check)
}

func genWindow(rt *rapid.T) (int64, int64) {
	from := pick(rt, windowBase, "base")
	return from, from + windowWidthS
}

// ---- the "portion spread" class ----------------------------------------------------------
//
// Many matching traces, a small limit and >= 3 portions, so that the per-portion processor
// has to carry winners from portion to portion and replace them by newer traces of later
// portions. Each trace lives in its own time band (all its spans inside the window, bands
// of different traces disjoint, order of the bands a random permutation, so recency is
// independent of the hash partition). With disjoint bands the processor's narrowing of
// From to the oldest winner's start can neither cut a span of a newer trace nor admit a
// span outside the window, so the result has to be exactly the `limit` most recent
// matching traces over all portions (the known finding C11-portion-narrows-window does
// not apply; see portionMoveMatters in search.go).

var (
	spreadTerms = []refeval.TQTerm{
		{Label: ".a", Op: "=", Val: refeval.TQValue{Kind: "str", Str: "x"}},
		{Label: "span.a", Op: "!=", Val: refeval.TQValue{Kind: "str", Str: "y"}},
		{Label: ".b", Op: ">=", Val: refeval.TQValue{Kind: "num", Num: "1"}},
		{Label: "resource.b", Op: "<", Val: refeval.TQValue{Kind: "num", Num: "10"}},
		{Label: "name", Op: "=~", Val: refeval.TQValue{Kind: "str", Str: "op"}},
		{Label: "duration", Op: ">=", Val: refeval.TQValue{Kind: "dur", Num: "1", Unit: "ms"}},
		{Label: ".service.name", Op: "=", Val: refeval.TQValue{Kind: "str", Str: "svcA"}},
	}
	spreadAggs = []refeval.TQAgg{
		{Fn: "count", Cmp: ">=", Num: "1"},
		{Fn: "count", Cmp: "<", Num: "3"},
		{Fn: "max", Attr: ".b", Cmp: ">=", Num: "1"},
		{Fn: "min", Attr: "duration", Cmp: ">=", Num: "1", Unit: "ms"},
	}
)

func genSpreadSelector(rt *rapid.T) refeval.TQSelector {
	n := pick(rt, []int{1, 1, 2, 2, 3}, "spreadHeads")
	e := &refeval.TQExpr{}
	op := pick(rt, []string{"||", "||", "&&"}, "spreadOp")
	for i := 0; i < n; i++ {
		if i > 0 {
			e.Ops = append(e.Ops, op)
		}
		t := pick(rt, spreadTerms, "spreadTerm")
		e.Heads = append(e.Heads, refeval.TQHead{Term: &t})
	}
	s := refeval.TQSelector{Expr: e}
	if chance(rt, 30, "spreadAgg") {
		a := pick(rt, spreadAggs, "spreadAggKind")
		s.Agg = &a
	}
	return s
}

func genSpreadDB(rt *rapid.T, from int64) refeval.TQDB {
	shared := chance(rt, 35, "sharedSpanIDs")
	nt := rapid.IntRange(6, 10).Draw(rt, "spreadTraces")
	slots := make([]int, nt)
	for i := range slots {
		slots[i] = i
	}
	slots = rapid.Permutation(slots).Draw(rt, "bands")
	width := int64(windowWidthS) * 1_000_000_000 / int64(nt)
	db := refeval.TQDB{}
	for ti := 0; ti < nt; ti++ {
		salt := rapid.Uint16().Draw(rt, "traceSalt")
		tr := refeval.TQTrace{ID: fmt.Sprintf("%016x%012x%04x", uint64(ti+1)*0x9E3779B97F4A7C15, ti+1, salt)}
		base := from + int64(slots[ti])*width
		ns := rapid.IntRange(1, 3).Draw(rt, "spreadSpans")
		for si := 0; si < ns; si++ {
			sp := refeval.TQSpan{
				ID:      spanID(rt, shared, ti, si, 0),
				TS:      base + int64(spread(rt, "bandOffset")%uint64(width/2)),
				Dur:     pick(rt, []int64{0, 1_000_000, 2_000_000, 1_500_000_000}, "dur"),
				Name:    pick(rt, []string{"op1", "op2", "x"}, "spanName"),
				Service: pick(rt, []string{"svcA", "svcA", "svcB"}, "service"),
			}
			if chance(rt, 85, "hasA") {
				sp.Attrs = append(sp.Attrs, refeval.TQKV{K: "a", V: pick(rt, []string{"x", "x", "x", "y"}, "aVal")})
			}
			if chance(rt, 75, "hasB") {
				sp.Attrs = append(sp.Attrs, refeval.TQKV{K: "b", V: pick(rt, []string{"1", "2", "3", "0", "abc"}, "bVal")})
			}
			tr.Spans = append(tr.Spans, sp)
		}
		db.Traces = append(db.Traces, tr)
	}
	return db
}

func genSpreadCase(rt *rapid.T) searchCase {
	c := searchCase{}
	if chance(rt, 70, "spreadQuery") {
		c.Q = refeval.TQScript{Sels: []refeval.TQSelector{genSpreadSelector(rt)}}
		if chance(rt, 25, "spreadChain") {
			c.Q.Sels = append(c.Q.Sels, genSpreadSelector(rt))
			c.Q.Ops = []string{"||"}
		}
	} else {
		c.Q = refeval.TQScript{Sels: []refeval.TQSelector{genSelector(rt, false)}}
	}
	c.Text = c.Q.String()
	c.From, c.To = genWindow(rt)
	c.DB = genSpreadDB(rt, c.From*1e9)
	c.Limit = pick(rt, []int{1, 2, 2, 3}, "limit")
	portions := pick(rt, []int64{3, 3, 4, 5}, "portions")
	c.Complexity = (portions-1)*10_000_000 + 1 + int64(spread(rt, "complexityJitter")%9_000_000)
	return c
}

// ---- the "or spread" class --------------------------------------------------------------------
//
// `{A} || {B}` where A and B look at different attributes, 4–8 traces of 2–4 spans whose
// spans match A only, B only, both or neither at different (distinct) times, and a limit
// (1–3) usually smaller than the number of traces one operand alone matches. A returned
// trace must carry every in-window span matched by either operand (older span matching
// only B, newest span matching only A, ...). B's pool holds the numeric comparisons with
// zero and negative thresholds; `b` values are numeric, non-numeric, empty or missing (a
// non-numeric value satisfies no numeric comparison).
// Chains of three operands are not generated here: every chain of >= 3 selectors is in the
// region of the known finding C11-chain-drops-sel (statement rejected by ClickHouse).

var (
	orTermsA = []refeval.TQTerm{
		{Label: ".a", Op: "=", Val: refeval.TQValue{Kind: "str", Str: "x"}},
		{Label: "span.a", Op: "!=", Val: refeval.TQValue{Kind: "str", Str: "x"}},
		{Label: ".a", Op: "=~", Val: refeval.TQValue{Kind: "str", Str: "^(x|y)$"}},
		{Label: "name", Op: "=", Val: refeval.TQValue{Kind: "str", Str: "op1"}},
		{Label: ".a", Op: "=~", Val: refeval.TQValue{Kind: "str", Str: "(?i)error"}},
		{Label: ".a", Op: "!~", Val: refeval.TQValue{Kind: "str", Str: "(?i:warn)"}},
		{Label: "span.a", Op: "=~", Val: refeval.TQValue{Kind: "str", Str: `a\.b`, Tick: true}},
		{Label: ".a", Op: "=~", Val: refeval.TQValue{Kind: "str", Str: "^error$"}},
		{Label: ".a", Op: "=~", Val: refeval.TQValue{Kind: "str", Str: "error|a.b"}},
	}
	orValsA  = []string{"x", "x", "y", "z", "error", "ERROR", "Error", "warn", "WARN", "a.b", "axb"}
	orTermsB = []refeval.TQTerm{
		{Label: ".b", Op: ">", Val: refeval.TQValue{Kind: "num", Num: "-2"}},
		{Label: ".b", Op: ">=", Val: refeval.TQValue{Kind: "num", Num: "0"}},
		{Label: "resource.b", Op: "<", Val: refeval.TQValue{Kind: "num", Num: "0"}},
		{Label: ".b", Op: "<=", Val: refeval.TQValue{Kind: "num", Num: "-1"}},
		{Label: "span.b", Op: "!=", Val: refeval.TQValue{Kind: "num", Num: "0"}},
		{Label: ".b", Op: ">=", Val: refeval.TQValue{Kind: "num", Num: "2"}},
		{Label: "duration", Op: ">=", Val: refeval.TQValue{Kind: "dur", Num: "1", Unit: "s"}},
	}
	orValsB = []string{"-3", "-1", "0", "2", "5", "abc", "", "1x"}
)

func genOrOperand(rt *rapid.T, pool []refeval.TQTerm) refeval.TQSelector {
	t := pick(rt, pool, "orTerm")
	e := &refeval.TQExpr{Heads: []refeval.TQHead{{Term: &t}}}
	if chance(rt, 25, "orSecondTerm") {
		t2 := pick(rt, pool, "orTerm2")
		e.Heads = append(e.Heads, refeval.TQHead{Term: &t2})
		e.Ops = []string{pick(rt, []string{"||", "&&"}, "orInnerOp")}
	}
	s := refeval.TQSelector{Expr: e}
	if chance(rt, 12, "orAgg") {
		s.Agg = &refeval.TQAgg{Fn: "count", Cmp: pick(rt, []string{">=", "<", "="}, "orAggCmp"), Num: pick(rt, []string{"1", "2"}, "orAggNum")}
	}
	return s
}

func genOrSpreadCase(rt *rapid.T) searchCase {
	c := searchCase{}
	a, b := genOrOperand(rt, orTermsA), genOrOperand(rt, orTermsB)
	if chance(rt, 50, "orSwap") {
		a, b = b, a
	}
	c.Q = refeval.TQScript{Sels: []refeval.TQSelector{a, b}, Ops: []string{"||"}}
	c.Text = c.Q.String()
	c.From, c.To = genWindow(rt)
	from := c.From * 1e9
	nt := rapid.IntRange(4, 8).Draw(rt, "orTraces")
	shared := chance(rt, 35, "sharedSpanIDs")
	used := map[int64]bool{}
	for ti := 0; ti < nt; ti++ {
		salt := rapid.Uint16().Draw(rt, "traceSalt")
		tr := refeval.TQTrace{ID: fmt.Sprintf("%016x%012x%04x", uint64(ti+1)*0x9E3779B97F4A7C15, ti+1, salt)}
		ns := rapid.IntRange(2, 4).Draw(rt, "orSpans")
		for si := 0; si < ns; si++ {
			// distinct start times over the whole window (no ties between traces)
			ts := from + int64(spread(rt, "orTs")%uint64(windowWidthS*1000))*1_000_000
			for used[ts] {
				ts += 1
			}
			used[ts] = true
			if chance(rt, 6, "orOutside") {
				ts = from - 1 - int64(spread(rt, "orBefore")%50)*1_000_000_000
			}
			sp := refeval.TQSpan{
				ID:      spanID(rt, shared, ti, si, 0),
				TS:      ts,
				Dur:     pick(rt, []int64{0, 1_000_000, 1_000_000_000, 2_000_000_000}, "dur"),
				Name:    pick(rt, []string{"op1", "op2"}, "spanName"),
				Service: "svcA",
			}
			if chance(rt, 70, "hasA") {
				sp.Attrs = append(sp.Attrs, refeval.TQKV{K: "a", V: pick(rt, orValsA, "aVal")})
			}
			if chance(rt, 75, "hasB") {
				sp.Attrs = append(sp.Attrs, refeval.TQKV{K: "b", V: pick(rt, orValsB, "bVal")})
			}
			tr.Spans = append(tr.Spans, sp)
		}
		c.DB.Traces = append(c.DB.Traces, tr)
	}
	c.Limit = pick(rt, []int{1, 1, 2, 2, 3}, "limit")
	c.Complexity = int64(pick(rt, []int{0, 5, 5, 5, 9_999_999, 25_000_000}, "complexity"))
	return c
}

// ---- the "big count" class -------------------------------------------------------------------
//
// `| count() <op> N` with N around and above 100: one trace with 120–250 matching spans, traces
// with exactly 99 / 100 / 101 matching spans and a small one. The count is the number of
// matching spans, whatever the size of the span arrays shown (at most 100 per trace).

func genBigCountCase(rt *rapid.T) searchCase {
	c := searchCase{}
	c.From, c.To = genWindow(rt)
	from := c.From * 1e9
	sizes := []int{rapid.IntRange(120, 250).Draw(rt, "bigSpans"), 99, 100, 101, rapid.IntRange(1, 5).Draw(rt, "smallSpans")}
	keep := rapid.IntRange(2, len(sizes)).Draw(rt, "bigTraces")
	sizes = rapid.Permutation(sizes).Draw(rt, "bigOrder")[:keep]
	thresholds := []string{"99", "100", "101", "120", "150", "250"}
	for ti, n := range sizes {
		thresholds = append(thresholds, fmt.Sprintf("%d", n))
		tr := refeval.TQTrace{ID: fmt.Sprintf("%016x%012x%04x", uint64(ti+1)*0x9E3779B97F4A7C15, ti+1, 0)}
		extra := rapid.IntRange(0, 3).Draw(rt, "nonMatching")
		for si := 0; si < n+extra; si++ {
			sp := refeval.TQSpan{
				ID:      fmt.Sprintf("%08x%06x%02x", ti+1, si+1, 0),
				TS:      from + int64(ti)*1_000_000_000 + int64(si)*1_000_000,
				Dur:     1_000_000,
				Name:    "op1",
				Service: "svcA",
				Attrs:   []refeval.TQKV{{K: "a", V: "x"}},
			}
			if si >= n {
				sp.Attrs[0].V = "y" // does not match
			}
			tr.Spans = append(tr.Spans, sp)
		}
		c.DB.Traces = append(c.DB.Traces, tr)
	}
	t := refeval.TQTerm{Label: pick(rt, []string{".a", "span.a"}, "bigLabel"), Op: "=", Val: refeval.TQValue{Kind: "str", Str: "x"}}
	c.Q = refeval.TQScript{Sels: []refeval.TQSelector{{
		Expr: &refeval.TQExpr{Heads: []refeval.TQHead{{Term: &t}}},
		Agg:  &refeval.TQAgg{Fn: "count", Cmp: pick(rt, cmpOps, "bigCmp"), Num: pick(rt, thresholds, "bigN")},
	}}}
	c.Text = c.Q.String()
	c.Limit = pick(rt, []int{2, 5, 20}, "limit")
	c.Complexity = int64(pick(rt, []int{5, 5, 5, 25_000_000}, "complexity"))
	return c
}

// ---- the "aggregate over a filtered attribute" class -----------------------------------------
//
// `{A || .b <op> n} | fn(.b) cmp m`: the selector has a term on the aggregated attribute inside
// an `||`; spans match through A while their `b` fails the term. The aggregate runs over
// the values of ALL matched spans.

func genAggSameAttrCase(rt *rapid.T) searchCase {
	c := genOrSpreadCase(rt) // database: a in x/y/z/error..., b numeric / non-numeric / missing
	ta := pick(rt, orTermsA[:4], "aggTermA")
	tb := pick(rt, orTermsB[:6], "aggTermB")
	heads := []refeval.TQHead{{Term: &ta}, {Term: &tb}}
	if chance(rt, 50, "aggSwap") {
		heads[0], heads[1] = heads[1], heads[0]
	}
	c.Q = refeval.TQScript{Sels: []refeval.TQSelector{{
		Expr: &refeval.TQExpr{Heads: heads, Ops: []string{"||"}},
		Agg: &refeval.TQAgg{Fn: pick(rt, []string{"avg", "min", "max", "sum"}, "aggFn"), Attr: pick(rt, []string{".b", "span.b", "resource.b"}, "aggAttr"),
			Cmp: pick(rt, cmpOps, "aggCmp"), Num: pick(rt, []string{"-1", "0", "1", "2", "3.5", "5"}, "aggNum")},
	}}}
	c.Text = c.Q.String()
	c.Limit = pick(rt, []int{2, 3, 20}, "limit")
	c.Complexity = int64(pick(rt, []int{0, 5, 5, 5, 9_999_999}, "complexity"))
	return c
}

func genSearchCase(rt *rapid.T) searchCase {
	switch n := int(spread(rt, "searchClass") % 100); {
	case n < 22:
		return genSpreadCase(rt)
	case n < 38:
		return genOrSpreadCase(rt)
	case n < 46:
		return genAggSameAttrCase(rt)
	case n < 50:
		return genBigCountCase(rt)
	}
	c := searchCase{Q: genScript(rt)}
	c.Text = c.Q.String()
	c.From, c.To = genWindow(rt)
	c.DB = genDB(rt, c.From*1e9, c.To*1e9)
	c.Limit = pick(rt, []int{1, 1, 2, 2, 3, 5, 6, 20}, "limit")
	c.Complexity = int64(pick(rt, []int{0, 5, 5, 9_999_999, 10_000_001, 25_000_000}, "complexity"))
	return c
}

func genTagsCase(rt *rapid.T) searchCase {
	c := searchCase{Q: genSimpleScript(rt)}
	c.Text = c.Q.String()
	c.From, c.To = genWindow(rt)
	c.DB = genDB(rt, c.From*1e9, c.To*1e9)
	c.Limit = pick(rt, []int{0, 0, 1, 2, 5, 50}, "limit")
	c.Complexity = int64(pick(rt, []int{0, 5, 5, 5, 10_000_001}, "complexity"))
	c.Key = pick(rt, append([]string{"name", "service.name", "zz"}, attrKeys...), "key")
	return c
}

// ---- exported for other property packages (C14) ---------------------------------------

// GenScript draws a TraceQL script.
func GenScript(rt *rapid.T) refeval.TQScript { return genScript(rt) }

// GenDB draws a small trace database around the window [from, to) (nanoseconds).
func GenDB(rt *rapid.T, from, to int64) refeval.TQDB { return genDB(rt, from, to) }

// GenWindow draws a search window (seconds).
func GenWindow(rt *rapid.T) (int64, int64) { return genWindow(rt) }

// SpreadCase is the exported view of a "portion spread" case.
type SpreadCase struct {
	Q          refeval.TQScript
	DB         refeval.TQDB
	FromS, ToS int64
	Limit      int
	Complexity int64
}

// GenSpread draws a case of the "portion spread" class (>= 3 portions, small limit, many
// matching traces in disjoint time bands).
func GenSpread(rt *rapid.T) SpreadCase {
	c := genSpreadCase(rt)
	return SpreadCase{Q: c.Q, DB: c.DB, FromS: c.From, ToS: c.To, Limit: c.Limit, Complexity: c.Complexity}
}

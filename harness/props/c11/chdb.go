package c11

// Layout of a refeval.TQDB in the tables the generated SQL reads, and the chsim-backed
// fake database the real request processors run against.
//
// Layout = what the writer stores (writer/utils/unmarshal/builder.go onSpan,
// writer/service/impl/tempoInsertService.go, ctrl/qryn/sql/traces.sql):
//   tempo_traces:            oid '0', trace_id FixedString(16) raw bytes, span_id FixedString(8) raw
//                            bytes, parent_id, name, timestamp_ns, duration_ns, service_name,
//                            payload_type 2 (OTLP), payload
//   tempo_traces_attrs_gin:  one row per (span, attribute): oid '0', date = UTC day of
//                            timestamp_ns, key, val, trace_id, span_id, timestamp_ns, duration
//   tempo_traces_kv:         the materialized view tempo_traces_kv_mv: oid, date, key,
//                            cityHash64(val) % 10000 as val_id (not modelled: 0), val
// and the `_dist` names as aliases.

import (
	"context"
	"database/sql/driver"
	"encoding/hex"
	"errors"
	"fmt"
	"strings"
	"sync"

	"qrynverif/chsim"
	"qrynverif/fakesql"
	"qrynverif/refeval"
)

func rawID(h string) string {
	b, err := hex.DecodeString(h)
	if err != nil {
		panic("bad generated id " + h)
	}
	return string(b)
}

// BuildCHDB lays the trace database out in chsim tables.
func BuildCHDB(db *refeval.TQDB) *chsim.DB {
	var traces, attrs, kv [][]any
	seenKV := map[string]bool{}
	for ti := range db.Traces {
		tr := &db.Traces[ti]
		tid := rawID(tr.ID)
		for si := range tr.Spans {
			sp := &tr.Spans[si]
			sid := rawID(sp.ID)
			traces = append(traces, []any{"0", tid, sid, "", sp.Name, sp.TS, sp.Dur, sp.Service, int8(2), ""})
			// floor division: timestamps are positive
			date := chsim.Date(sp.TS / 1_000_000_000 / 86400)
			for _, a := range sp.AllAttrs() {
				attrs = append(attrs, []any{"0", date, a.K, a.V, tid, sid, sp.TS, sp.Dur})
				k := fmt.Sprintf("%d\x00%s\x00%s", date, a.K, a.V)
				if !seenKV[k] {
					seenKV[k] = true
					kv = append(kv, []any{"0", date, a.K, uint64(0), a.V})
				}
			}
		}
	}
	c := chsim.NewDB()
	c.AddTable("tempo_traces", []string{"oid", "trace_id", "span_id", "parent_id", "name", "timestamp_ns", "duration_ns", "service_name", "payload_type", "payload"}, traces)
	c.AddTable("tempo_traces_attrs_gin", []string{"oid", "date", "key", "val", "trace_id", "span_id", "timestamp_ns", "duration"}, attrs)
	c.AddTable("tempo_traces_kv", []string{"oid", "date", "key", "val_id", "val"}, kv)
	c.Alias("tempo_traces_dist", "tempo_traces")
	c.Alias("tempo_traces_attrs_gin_dist", "tempo_traces_attrs_gin")
	c.Alias("tempo_traces_kv_dist", "tempo_traces_kv")
	return c
}

// stmtRec is one statement qryn sent and how the reference interpreter took it.
type stmtRec struct {
	SQL  string
	Err  error
	Rows int
}

type errClass int

const (
	errNone        errClass = iota
	errUnsupported          // outside chsim's subset: discard
	errRejected             // ClickHouse would reject the statement (syntax or analysis)
)

func classify(err error) errClass {
	switch {
	case err == nil:
		return errNone
	case errors.Is(err, chsim.ErrUnsupported):
		return errUnsupported
	default:
		return errRejected
	}
}

// chBackend answers statements with chsim; the complexity-evaluation statement is parsed
// and executed too (it must be valid) but answered by script.
type chBackend struct {
	mu         sync.Mutex
	db         *chsim.DB
	complexity int64
	stmts      []stmtRec
	convert    func(cols []string, row []any) ([]any, error)
	convErr    error
}

func isComplexityStmt(q string) bool { return strings.Contains(q, "pre_final") }

func (b *chBackend) handle(ctx context.Context, q string, args []driver.NamedValue) (*fakesql.Result, error) {
	res, err := b.db.Query(q)
	b.mu.Lock()
	defer b.mu.Unlock()
	rec := stmtRec{SQL: q, Err: err}
	if err != nil {
		b.stmts = append(b.stmts, rec)
		return nil, err
	}
	rec.Rows = len(res.Rows)
	b.stmts = append(b.stmts, rec)
	if isComplexityStmt(q) {
		return fakesql.Rows([]string{"_count"}, []any{b.complexity}), nil
	}
	out := &fakesql.Result{Cols: res.Cols, FailAfter: -1}
	for _, row := range res.Rows {
		r := row
		if b.convert != nil {
			r, err = b.convert(res.Cols, row)
			if err != nil {
				b.convErr = err
				return nil, err
			}
		}
		out.Rows = append(out.Rows, r)
	}
	return out, nil
}

func (b *chBackend) statements() []stmtRec {
	b.mu.Lock()
	defer b.mu.Unlock()
	return append([]stmtRec(nil), b.stmts...)
}

func toInt64(v any) (int64, error) {
	switch x := v.(type) {
	case int64:
		return x, nil
	case int32:
		return int64(x), nil
	case int16:
		return int64(x), nil
	case int8:
		return int64(x), nil
	case uint64:
		return int64(x), nil
	case uint32:
		return int64(x), nil
	case uint16:
		return int64(x), nil
	case uint8:
		return int64(x), nil
	case int:
		return int64(x), nil
	}
	return 0, fmt.Errorf("harness: %T is not an integer", v)
}

func toFloat64(v any) (float64, error) {
	if f, ok := v.(float64); ok {
		return f, nil
	}
	i, err := toInt64(v)
	return float64(i), err
}

func toStrings(v any) ([]string, error) {
	arr, ok := v.([]any)
	if !ok {
		return nil, fmt.Errorf("harness: %T is not an array", v)
	}
	out := make([]string, len(arr))
	for i, e := range arr {
		s, ok := e.(string)
		if !ok {
			return nil, fmt.Errorf("harness: array element %T is not a string", e)
		}
		out[i] = s
	}
	return out, nil
}

func toInt64s(v any) ([]int64, error) {
	arr, ok := v.([]any)
	if !ok {
		return nil, fmt.Errorf("harness: %T is not an array", v)
	}
	out := make([]int64, len(arr))
	for i, e := range arr {
		n, err := toInt64(e)
		if err != nil {
			return nil, err
		}
		out[i] = n
	}
	return out, nil
}

// convertSearchRow shapes a row of the final search statement the way clickhouse-go hands
// it to TraceQLRequestProcessor's Scan: String, Array(String), Array(Int64), Array(Int64),
// Int64, Float64, String, String.
func convertSearchRow(cols []string, row []any) ([]any, error) {
	if len(row) != 8 {
		return nil, fmt.Errorf("harness: search row has %d columns (%v), 8 expected", len(row), cols)
	}
	out := make([]any, 8)
	var err error
	out[0] = row[0]
	if out[1], err = toStrings(row[1]); err != nil {
		return nil, err
	}
	if out[2], err = toInt64s(row[2]); err != nil {
		return nil, err
	}
	if out[3], err = toInt64s(row[3]); err != nil {
		return nil, err
	}
	if out[4], err = toInt64(row[4]); err != nil {
		return nil, err
	}
	if out[5], err = toFloat64(row[5]); err != nil {
		return nil, err
	}
	for _, i := range []int{6, 7} {
		if row[i] == nil {
			out[i] = ""
		} else {
			out[i] = row[i]
		}
	}
	return out, nil
}

// ---- exported for C14 -----------------------------------------------------------------

// Stmt is one statement the fake database received.
type Stmt struct {
	SQL  string
	Err  error
	Rows int
}

// SearchBackend is the chsim-backed fake database of the search check: statements are
// executed over the laid-out trace tables and rows are shaped for TraceQLRequestProcessor.
type SearchBackend struct{ be *chBackend }

// NewSearchBackend lays db out and returns the backend (complexity: scripted answer of the
// complexity statement, irrelevant when the per-portion processor is driven directly).
func NewSearchBackend(db *refeval.TQDB, complexity int64) *SearchBackend {
	return &SearchBackend{&chBackend{db: BuildCHDB(db), complexity: complexity, convert: convertSearchRow}}
}

// Handle is the fakesql.Handler.
func (b *SearchBackend) Handle(ctx context.Context, q string, args []driver.NamedValue) (*fakesql.Result, error) {
	return b.be.handle(ctx, q, args)
}

// Statements returns what was received so far.
func (b *SearchBackend) Statements() []Stmt {
	var out []Stmt
	for _, s := range b.be.statements() {
		out = append(out, Stmt{s.SQL, s.Err, s.Rows})
	}
	return out
}

// CH gives the interpreter holding the tables.
func (b *SearchBackend) CH() *chsim.DB { return b.be.db }

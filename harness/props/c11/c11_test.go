package c11

import (
	"testing"

	"qrynverif/evid"
)

func TestProp(t *testing.T) {
	r := evid.New(t, "C11", evid.Config{
		Level: "exploration",
		Rule:  "generated TraceQL scripts x generated trace databases; non-trivial: the reference selects a non-empty strict subset of the traces (search), of the keys/values (tags, values); >=2 terms (grammar)",
		Assumptions: []string{
			"chsim (reference ClickHouse-subset interpreter) executes the generated SQL as ClickHouse would",
			"regex matching is unanchored RE2 as in ClickHouse match(); comparisons on a missing or wrongly typed attribute are false",
			"unparenthesised chains mixing && and ||: the standard reading (&& binds tighter) and qryn's parse (equal precedence, right associative) are both accepted",
		},
	})
	addGrammar(r)
	addSearch(r)
	addTags(r)
	r.Main()
}

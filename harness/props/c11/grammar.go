package c11

// Sub-check "grammar": every generated script is accepted by qryn's TraceQL parser and the
// parser sees the structure the generator meant (same flat chains, labels, operators,
// decoded values, aggregator). This keeps the generator inside the accepted language and
// validates the printer / string quoting the other sub-checks rely on.

import (
	"fmt"

	traceql_parser "github.com/metrico/qryn/reader/traceql/parser"
	"pgregory.net/rapid"

	"qrynverif/evid"
	"qrynverif/refeval"
)

type grammarCase struct {
	Q    refeval.TQScript `json:"q"`
	Text string           `json:"text"`
}

func genGrammarCase(rt *rapid.T) grammarCase {
	q := genScript(rt)
	return grammarCase{Q: q, Text: q.String()}
}

func sameValue(want refeval.TQValue, got traceql_parser.Value) error {
	switch want.Kind {
	case "str":
		if got.StrVal == nil {
			return fmt.Errorf("string %s parsed as %+v", want.String(), got)
		}
		s, err := got.StrVal.Unquote()
		if err != nil {
			return fmt.Errorf("string %s cannot be unquoted: %v", want.String(), err)
		}
		if s != want.Str {
			return fmt.Errorf("string %s decodes to %q, want %q", want.String(), s, want.Str)
		}
	case "num":
		if got.FVal != want.Num || got.StrVal != nil || got.TimeVal != "" {
			return fmt.Errorf("number %s parsed as %+v", want.Num, got)
		}
	case "dur":
		if got.TimeVal != want.Num+want.Unit {
			return fmt.Errorf("duration %s%s parsed as %+v", want.Num, want.Unit, got)
		}
	}
	return nil
}

func sameExpr(want *refeval.TQExpr, got *traceql_parser.AttrSelectorExp) error {
	cur := got
	for i, h := range want.Heads {
		if cur == nil {
			return fmt.Errorf("parser saw %d heads, generator wrote %d", i, len(want.Heads))
		}
		switch {
		case h.Term != nil:
			if cur.Head == nil {
				return fmt.Errorf("head %d: term %s parsed as a group", i, h.Term)
			}
			if cur.Head.Label != h.Term.Label || cur.Head.Op != h.Term.Op {
				return fmt.Errorf("head %d: term %s parsed as %s %s", i, h.Term, cur.Head.Label, cur.Head.Op)
			}
			if err := sameValue(h.Term.Val, cur.Head.Val); err != nil {
				return fmt.Errorf("head %d: %w", i, err)
			}
		case h.Paren != nil:
			if cur.ComplexHead == nil {
				return fmt.Errorf("head %d: group parsed as a term", i)
			}
			if err := sameExpr(h.Paren, cur.ComplexHead); err != nil {
				return err
			}
		}
		if i < len(want.Ops) {
			if cur.AndOr != want.Ops[i] {
				return fmt.Errorf("operator %d: %q parsed as %q", i, want.Ops[i], cur.AndOr)
			}
		} else if cur.AndOr != "" || cur.Tail != nil {
			return fmt.Errorf("parser saw more heads than the %d written", len(want.Heads))
		}
		cur = cur.Tail
	}
	return nil
}

func sameScript(want refeval.TQScript, got *traceql_parser.TraceQLScript) error {
	cur := got
	for i, s := range want.Sels {
		if cur == nil {
			return fmt.Errorf("parser saw %d selectors, generator wrote %d", i, len(want.Sels))
		}
		if (s.Expr == nil) != (cur.Head.AttrSelector == nil) {
			return fmt.Errorf("selector %d: emptiness differs", i)
		}
		if s.Expr != nil {
			if err := sameExpr(s.Expr, cur.Head.AttrSelector); err != nil {
				return fmt.Errorf("selector %d: %w", i, err)
			}
		}
		if (s.Agg == nil) != (cur.Head.Aggregator == nil) {
			return fmt.Errorf("selector %d: aggregator presence differs", i)
		}
		if s.Agg != nil {
			a := cur.Head.Aggregator
			if a.Fn != s.Agg.Fn || a.Attr != s.Agg.Attr || a.Cmp != s.Agg.Cmp || a.Num != s.Agg.Num || a.Measurement != s.Agg.Unit {
				return fmt.Errorf("selector %d: aggregator %s parsed as %+v", i, s.Agg, *a)
			}
		}
		if i < len(want.Ops) {
			if cur.AndOr != want.Ops[i] {
				return fmt.Errorf("chain operator %d: %q parsed as %q", i, want.Ops[i], cur.AndOr)
			}
		} else if cur.AndOr != "" || cur.Tail != nil {
			return fmt.Errorf("parser saw more selectors than the %d written", len(want.Sels))
		}
		cur = cur.Tail
	}
	return nil
}

func predGrammar(c grammarCase, o *evid.Obs) error {
	text := c.Q.String()
	script, err := traceql_parser.Parse(text)
	if err != nil {
		return fmt.Errorf("generated script %q rejected by the parser: %v", text, err)
	}
	if err := sameScript(c.Q, script); err != nil {
		return fmt.Errorf("script %q: %w", text, err)
	}
	nterms := 0
	for i := range c.Q.Sels {
		c.Q.Sels[i].Expr.Terms(func(*refeval.TQTerm) { nterms++ })
		if c.Q.Sels[i].Agg != nil {
			o.Tag("agg")
		}
		if c.Q.Sels[i].Expr.MixedOps() {
			o.Tag("mixed-ops")
		}
	}
	o.Tag(fmt.Sprintf("selectors=%d", len(c.Q.Sels)))
	if nterms >= 2 {
		o.NonTrivial()
	}
	return nil
}

func addGrammar(r *evid.Run) {
	evid.Add(r, evid.Prop[grammarCase]{Name: "grammar", Quick: 3000, Thorough: 20000, Gen: genGrammarCase, Pred: predGrammar})
}

package c11

// Sub-checks "tags" and "values": traceql_transpiler.PlanTagsV2 / PlanValuesV2 as
// TempoService.TagsV2 / ValuesV2 run them (single selector). Meaning taken from the
// planner's own structure (select_tags_planner.go): the attribute keys (values of one key)
// carried by the spans the selector matches inside the window; with limit > 0 the first
// `limit` in ascending order. The statement must be valid; the returned names are compared
// as a set with the direct evaluator (duplicates are not part of the property).

import (
	"errors"
	"fmt"
	"sort"

	traceql_parser "github.com/metrico/qryn/reader/traceql/parser"
	traceql_transpiler "github.com/metrico/qryn/reader/traceql/transpiler"

	"qrynverif/evid"
	"qrynverif/fakesql"
	"qrynverif/refeval"
)

const kfTagsGroupBy = "C11-tags-not-aggregate" // SELECT key ... GROUP BY trace_id, span_id

func predTagsValues(values bool) func(c searchCase, o *evid.Obs) error {
	return func(c searchCase, o *evid.Obs) error {
		text := c.Q.String()
		from, to := c.From*1e9, c.To*1e9
		sel := &c.Q.Sels[0]
		// reference: spans matched by the selector (the aggregate comparison is not applied by
		// these planners: no AggregatorPlanner in tagsV2Planner / valuesV2Planner)
		plain := refeval.TQScript{Sels: []refeval.TQSelector{{Expr: sel.Expr}}}
		readings := []refeval.TQReading{refeval.TQReadStd}
		if sel.Expr.MixedOps() {
			readings = append(readings, refeval.TQReadRight)
			o.Tag("mixed-precedence")
		}
		var wants []map[string]bool
		var refErr error
		universe := map[string]bool{}
		for _, r := range readings {
			res, err := refeval.EvalTraceQL(&plain, &c.DB, from, to, r)
			if err != nil {
				refErr = err
				break
			}
			want := map[string]bool{}
			for ti, tr := range res {
				matched := map[string]bool{}
				for _, id := range tr.Spans {
					matched[id] = true
				}
				for si := range c.DB.Traces[ti].Spans {
					sp := &c.DB.Traces[ti].Spans[si]
					if sp.TS < from || sp.TS >= to {
						continue
					}
					for _, kv := range sp.AllAttrs() {
						name := kv.K
						if values {
							if kv.K != c.Key {
								continue
							}
							name = kv.V
						}
						universe[name] = true
						if matched[sp.ID] {
							want[name] = true
						}
					}
				}
			}
			wants = append(wants, want)
		}
		if refErr != nil && !errors.Is(refErr, refeval.ErrTQUnsupported) {
			return fmt.Errorf("harness: reference failed: %v", refErr)
		}
		script, err := traceql_parser.Parse(text)
		if err != nil {
			return fmt.Errorf("generated script %q rejected by the parser: %v", text, err)
		}
		be := &chBackend{db: BuildCHDB(&c.DB), complexity: c.Complexity}
		fdb := fakesql.New(be.handle)
		defer fdb.Close()
		pctx := plannerCtx(&c, fdb)
		defer pctx.CancelCtx()
		var got []string
		var qerr error
		func() {
			var planner interface {
				Process(*plannerContext) (chan []string, error)
			}
			if values {
				planner, qerr = traceql_transpiler.PlanValuesV2(script, c.Key)
			} else {
				planner, qerr = traceql_transpiler.PlanTagsV2(script)
			}
			if qerr != nil {
				return
			}
			var ch chan []string
			ch, qerr = planner.Process(pctx)
			if qerr != nil {
				return
			}
			for batch := range ch {
				got = append(got, batch...)
			}
		}()
		stmts := be.statements()
		complexPath := c.Complexity >= complexityThreshold
		if refErr != nil {
			o.Discard("unsupported-query")
			return nil
		}
		if reason, verr := stmtFailure(stmts); verr != nil {
			return fmt.Errorf("%w\n%s", verr, describe(&c, text, nil))
		} else if reason != "" {
			o.Discard(reason)
			return nil
		}
		if qerr != nil {
			return fmt.Errorf("query inside the supported language fails: %v\n%s", qerr, describe(&c, text, stmts))
		}
		if complexPath {
			// above the threshold the processors fall back to "all tags / all values of the
			// window's days" (complex_tags_v2_processor.go): a deliberate approximation; only
			// validity of the statement is checked there.
			o.Tag("complex-fallback-all")
			return nil
		}
		o.Tag("simple-processor")
		if c.Limit > 0 {
			o.Tag("limited")
		}
		gotSet := map[string]bool{}
		for _, g := range got {
			gotSet[g] = true
		}
		want := wants[0]
		if len(want) > 0 && len(want) < len(universe) {
			o.NonTrivial()
			o.Tag("strict-subset")
		} else if len(want) == 0 {
			o.Tag("selects-none")
		} else {
			o.Tag("selects-all")
		}
		var firstDiff string
		for i, w := range wants {
			d := diffNames(w, gotSet, c.Limit)
			if d == "" {
				return nil
			}
			if i == 0 {
				firstDiff = d
			}
		}
		return fmt.Errorf("%s\nreturned: %v\nreference: %v\n%s", firstDiff, got, sortedKeys(want), describe(&c, text, stmts))
	}
}

func sortedKeys(m map[string]bool) []string {
	var out []string
	for k := range m {
		out = append(out, k)
	}
	sort.Strings(out)
	return out
}

// diffNames: without limit the sets are equal; with a limit the returned names are the
// smallest ones (a prefix of the sorted reference set; duplicates may have used up slots).
func diffNames(want, got map[string]bool, limit int) string {
	for g := range got {
		if !want[g] {
			return fmt.Sprintf("%q is returned but no matching span carries it", g)
		}
	}
	ws := sortedKeys(want)
	if limit <= 0 {
		for _, w := range ws {
			if !got[w] {
				return fmt.Sprintf("%q is carried by a matching span but is not returned", w)
			}
		}
		return ""
	}
	if len(ws) > 0 && len(got) == 0 {
		return "nothing returned although matching spans carry names"
	}
	if len(got) > limit {
		return fmt.Sprintf("%d names returned, limit %d", len(got), limit)
	}
	gs := sortedKeys(got)
	for i, g := range gs {
		if ws[i] != g {
			return fmt.Sprintf("limit %d: %q returned but the smaller %q is not", limit, g, ws[i])
		}
	}
	return ""
}

func addTags(r *evid.Run) {
	evid.Add(r, evid.Prop[searchCase]{Name: "tags", Quick: 800, Thorough: 8000, Gen: genTagsCase, Pred: predTagsValues(false)})
	evid.Add(r, evid.Prop[searchCase]{Name: "values", Quick: 800, Thorough: 8000, Gen: genTagsCase, Pred: predTagsValues(true)})
}

package c01

import (
	"fmt"
	"strings"
	"testing"

	"pgregory.net/rapid"

	"qrynverif/evid"
	"qrynverif/fakech"
	"qrynverif/inssvc"
)

// ---- C01: a push is acknowledged only after ClickHouse accepted all of its rows ----------
//
// Oracle (invariants over the observed history; every row carries a unique marker):
//
//	(1) a submission (one IInsertServiceV2.Request) answered with success has all of its rows
//	    in one INSERT that returned nil, and that INSERT had returned before the answer;
//	(2) a submission answered with an error while the INSERT that carried its rows succeeded,
//	    or answered before that INSERT returned, contradicts "resolved with the outcome of the
//	    INSERT that carried its rows";
//	(3) an HTTP push answered 2xx has every row its body must produce (decided by the body
//	    generator) in an INSERT that had returned nil before the response; a push of which
//	    some part failed on every attempt is answered with an error status;
//	(4) every request gets exactly one answer; once the database accepts everything and all
//	    services are flushed, nothing stays unanswered;
//	(5) single worker, direct pushes only: the executor predicts every flush; the number of
//	    INSERTs in flight and of answers must match the prediction after every action.

// CheckAck decides (1)–(5) on a trace.
func CheckAck(a *inssvc.Analysis) error {
	tr := a.T
	if tr.ModelErr != "" {
		return fmt.Errorf("model mismatch: %s", tr.ModelErr)
	}
	for _, p := range a.Parts {
		for n, s := range p.Subs {
			if len(s.Rows) == 0 {
				continue
			}
			answered, err, tick := s.Answer()
			if !answered {
				continue // reported through Unanswered
			}
			blk := a.BlockOf(s)
			what := fmt.Sprintf("submission %d (%s, request %d, attempt %d, %d rows, first row %q)", s.ID, s.Kind, p.ReqID, n+1, len(s.Rows), s.Rows[0].Marker)
			for wi, werr := range s.Waiters() {
				if werr != err {
					return fmt.Errorf("%s: two waiters on the same promise got different answers: the first %v, additional waiter %d %v (exactly one answer per request)", what, err, wi+1, werr)
				}
			}
			if err == nil {
				if blk == nil {
					return fmt.Errorf("%s was acknowledged but no INSERT contains its rows", what)
				}
				if miss := missing(a, s, blk); miss != "" {
					return fmt.Errorf("%s was acknowledged with INSERT #%d, which lacks %s", what, blk.Seq, miss)
				}
				if !blk.Done {
					return fmt.Errorf("%s was acknowledged while INSERT #%d carrying its rows was still running", what, blk.Seq)
				}
				if blk.Err != nil {
					return fmt.Errorf("%s was acknowledged although INSERT #%d carrying its rows failed: %v", what, blk.Seq, blk.Err)
				}
				if blk.EndSeq > tick {
					return fmt.Errorf("%s was acknowledged (tick %d) before INSERT #%d carrying its rows returned (tick %d)", what, tick, blk.Seq, blk.EndSeq)
				}
				continue
			}
			if blk != nil && !tr.Stopped[s.Kind] {
				if blk.Done && blk.EndSeq > tick {
					return fmt.Errorf("%s was answered with %q (tick %d) before INSERT #%d carrying its rows returned (tick %d)", what, err, tick, blk.Seq, blk.EndSeq)
				}
				if blk.OKResult() && missing(a, s, blk) == "" {
					return fmt.Errorf("%s was answered with %q although INSERT #%d carrying all its rows succeeded", what, err, blk.Seq)
				}
			}
		}
	}
	for _, rq := range tr.Reqs {
		if !rq.HTTP {
			continue
		}
		done, status, writes, tick := rq.Result()
		if !done {
			continue
		}
		if writes == 0 {
			// the handler returned without writing anything: net/http answers with an implicit 200
			why := "its rows"
			for _, e := range rq.Expect {
				if a.Find(e, tick) == nil {
					why = fmt.Sprintf("its row %s/%q is in no successful INSERT", e.Table, e.Marker)
					break
				}
			}
			return fmt.Errorf("http request %d (%s): the handler wrote no status at all, the client sees an implicit 200 OK; %s%s", rq.ID, rq.Proto, why, lastErrOf(a, rq.ID))
		}
		if writes != 1 {
			return fmt.Errorf("http request %d (%s) wrote %d response headers, exactly one answer is expected", rq.ID, rq.Proto, writes)
		}
		if status >= 200 && status < 300 {
			for _, e := range rq.Expect {
				if a.Find(e, tick) == nil {
					where := "is in no INSERT at all"
					if o := a.Find(e, 0); o != nil {
						where = fmt.Sprintf("is only in INSERT #%d that returned at tick %d", o.Call.Seq, o.Call.EndSeq)
					} else if occ := anyOcc(a, e); occ != nil {
						where = fmt.Sprintf("is only in INSERT #%d whose outcome was %v", occ.Call.Seq, occ.Call.Err)
					}
					return fmt.Errorf("http request %d (%s) was answered %d at tick %d, but its row %s/%q %s", rq.ID, rq.Proto, status, tick, e.Table, e.Marker, where)
				}
			}
			continue
		}
	}
	for _, p := range a.Parts {
		rq := a.ReqByID[p.ReqID]
		if rq == nil || !rq.HTTP || len(p.Subs) == 0 || len(p.Subs[0].Rows) == 0 {
			continue
		}
		done, status, _, _ := rq.Result()
		if !done || len(p.Subs) < tr.H.Cfg.Attempts() {
			continue
		}
		allFailed := true
		for _, s := range p.Subs {
			if ok, err, _ := s.Answer(); !ok || err == nil {
				allFailed = false
			}
		}
		if allFailed && status < 400 {
			_, lastErr, _ := p.Subs[len(p.Subs)-1].Answer()
			return fmt.Errorf("http request %d (%s): all %d attempts of its %s part failed (last error, class %s: %v), but the status is %d",
				rq.ID, rq.Proto, len(p.Subs), p.Kind, fakech.ClassOf(lastErr), lastErr, status)
		}
	}
	if tr.Unanswered != "" {
		return fmt.Errorf("no answer although the database accepts everything and every service was flushed: %s", tr.Unanswered)
	}
	return nil
}

func lastErrOf(a *inssvc.Analysis, reqID int) string {
	for _, p := range a.Parts {
		if p.ReqID != reqID {
			continue
		}
		for i := len(p.Subs) - 1; i >= 0; i-- {
			if ok, err, _ := p.Subs[i].Answer(); ok && err != nil {
				return fmt.Sprintf(" (attempt %d of its %s part failed with class %s: %v)", i+1, p.Kind, fakech.ClassOf(err), err)
			}
		}
	}
	return ""
}

func anyOcc(a *inssvc.Analysis, e inssvc.Expect) *inssvc.Occ {
	pre := e.Table + "|" + e.Marker
	for k, occs := range a.ByMarker {
		if (e.Prefix && strings.HasPrefix(k, pre)) || k == pre {
			if len(occs) > 0 {
				return &occs[0]
			}
		}
	}
	return nil
}

func missing(a *inssvc.Analysis, s *inssvc.Submission, blk *fakech.Call) string {
	n := 0
	first := ""
	for _, r := range s.Rows {
		found := false
		for _, o := range a.ByMarker[r.Table+"|"+r.Marker] {
			if o.Call == blk {
				found = true
				break
			}
		}
		if !found {
			if n == 0 {
				first = r.Marker
			}
			n++
		}
	}
	if n == 0 {
		return ""
	}
	return fmt.Sprintf("%d of its %d rows (first %q)", n, len(s.Rows), first)
}

// Classify tags a trace and applies the non-trivial rule: an INSERT failed or was held
// while another request of the same service arrived (a batch swap separated two requests),
// or a retry happened.
func Classify(a *inssvc.Analysis, o *evid.Obs) {
	tr := a.T
	if tr.Exact {
		o.Tag("mode:exact")
	} else {
		o.Tag("mode:invariants")
	}
	o.Tag(fmt.Sprintf("workers:%d", tr.H.Cfg.Workers))
	switch n := tr.H.Cfg.Attempts(); {
	case n == 0:
		o.Tag("cfg:retry_attempts=0")
	case n == 1:
		o.Tag("cfg:retry_attempts=1")
	case n <= 4:
		o.Tag("cfg:retry_attempts=2..4")
	default:
		o.Tag("cfg:retry_attempts=1000")
	}
	switch ms := tr.H.Cfg.IntervalMs; {
	case ms == 0:
		o.Tag("cfg:interval=1h")
	case ms == 1:
		o.Tag("cfg:interval=1ms")
	default:
		o.Tag("cfg:interval=2..20ms")
	}
	switch q := tr.H.Cfg.MaxQueueSize; {
	case q == 0:
		o.Tag("queue:unlimited")
	case q <= 2000:
		o.Tag("queue:tiny")
	default:
		o.Tag("queue:large")
	}
	failed, retry, swap := 0, false, false
	for _, c := range tr.Calls {
		if c.Done && c.Err != nil {
			failed++
		}
		if !(c.Gated || (c.Done && c.Err != nil)) {
			continue
		}
		k := inssvc.KindOfCall(c)
		for _, s := range tr.Subs {
			if s.Kind == k && s.Tick > c.Seq && len(s.Rows) > 0 && (c.Gated && (c.EndSeq == 0 || s.Tick < c.EndSeq) || c.Err != nil) {
				swap = true
			}
		}
	}
	for _, p := range a.Parts {
		if len(p.Subs) > 1 {
			retry = true
		}
	}
	if failed > 0 {
		o.Tag("insert-failed")
	}
	seenClass := map[string]bool{}
	for _, c := range tr.Calls {
		if c.Done && c.Err != nil {
			if cl := fakech.ClassOf(c.Err); !seenClass[cl] {
				seenClass[cl] = true
				o.Tag("err:" + cl)
			}
		}
	}
	// HTTP pushes of which a part failed on every attempt, by the class of the last error
	for _, p := range a.Parts {
		rq := a.ReqByID[p.ReqID]
		if rq == nil || !rq.HTTP || len(p.Subs) < tr.H.Cfg.Attempts() || len(p.Subs[0].Rows) == 0 {
			continue
		}
		all := true
		var last error
		for _, s := range p.Subs {
			ok, err, _ := s.Answer()
			if !ok || err == nil {
				all = false
			}
			last = err
		}
		if all {
			o.Tag("http-retries-exhausted:" + fakech.ClassOf(last))
		}
	}
	parts, retried := a.Chunked()
	for id, n := range parts {
		if n >= 2 {
			o.Tag("http-body-chunked(>=2 requests)")
			if retried[id] {
				o.Tag("http-body-chunked+retried-part")
			}
		}
	}
	if retry {
		o.Tag("retry")
	}
	if swap {
		o.Tag("swap-separated-requests")
	}
	if tr.H.Cfg.AsyncNode {
		o.Tag("cfg:node-async_insert=on")
	} else {
		o.Tag("cfg:node-async_insert=off")
	}
	for _, rq := range tr.Reqs {
		if rq.HTTP {
			switch rq.Hdr.Async {
			case "":
			case "0", "1":
				o.Tag("hdr:X-Async-Insert=" + rq.Hdr.Async)
				if rq.Hdr.Async == "1" && !tr.H.Cfg.AsyncNode {
					o.Tag("hdr:X-Async-Insert=1-on-sync-node")
				}
			default:
				o.Tag("hdr:X-Async-Insert=junk")
			}
			if rq.Hdr.TTL != "" {
				o.Tag("hdr:X-Ttl-Days")
			}
			if rq.Hdr.Meta != "" {
				o.Tag("hdr:X-Scope-Meta")
			}
			if rq.Hdr.DSN != "" {
				o.Tag("hdr:X-CH-DSN")
			}
			if rq.Hdr.Enc != "" {
				o.Tag("hdr:Content-Encoding=" + rq.Hdr.Enc)
				if d, st, _, _ := rq.Result(); d && rq.Hdr.Enc == "gzip" && st/100 == 2 {
					o.Tag("hdr:Content-Encoding=gzip:2xx")
				}
			}
			o.Tag("http:" + rq.Proto)
			if d, st, _, _ := rq.Result(); d {
				o.Tag(fmt.Sprintf("status:%dxx", st/100))
			}
		}
	}
	if tr.H.Cfg.Attempts() == 0 {
		for _, rq := range tr.Reqs {
			if rq.HTTP {
				o.Tag("http-with-retry_attempts=0")
				break
			}
		}
	}
	for _, ac := range tr.H.Actions {
		if ac.Op == "refuse" || ac.Op == "stop" {
			o.Tag("op:" + ac.Op)
		}
		if ac.Rows > 10000 {
			o.Tag("rows>10000")
		}
	}
	if len(tr.Calls) == 0 {
		o.Tag("no-insert")
	}
	if swap || retry {
		o.NonTrivial()
	}
}

func addHistory(r *evid.Run) {
	evid.Add(r, evid.Prop[inssvc.History]{
		Name: "history", Quick: 300, Thorough: 2000,
		Gen: func(rt *rapid.T) inssvc.History {
			max := 25
			if r.Tier == "thorough" {
				max = 60
			}
			return inssvc.GenHistory(rt, inssvc.GenOpts{MaxActions: max, HTTP: true, BigRows: true, Refuse: true})
		},
		Pred: func(h inssvc.History, o *evid.Obs) error {
			h, known := inssvc.StripKnown(h, o.Witness)
			for _, id := range known {
				o.Known(id)
			}
			tr := inssvc.RunHistory(h)
			if tr.NotQuiet {
				o.Discard("not-quiet-before-stop")
				return nil
			}
			a := inssvc.Analyse(tr)
			Classify(a, o)
			return CheckAck(a)
		},
	})
}

func addStress(r *evid.Run, quick, thorough int) {
	evid.Add(r, evid.Prop[inssvc.Stress]{
		Name: "stress", Quick: quick, Thorough: thorough,
		Gen: func(rt *rapid.T) inssvc.Stress { return inssvc.GenStress(rt, 8, 12) },
		WAL: true,
		Pred: func(s inssvc.Stress, o *evid.Obs) error {
			if RaceT != nil {
				// under the race detector every case runs as a sub-test: a data race reported inside
				// qryn while the case runs fails that sub-test, and so this case. A schedule in which
				// the detector fires is one under which none of the guarantees can be relied on; the
				// unchanged tree is race-free on these paths (the drivers shut down quiescently).
				var err error
				notQuiet = false
				ok := RaceT.Run("case", func(*testing.T) { err = stressBody(s, o) })
				if notQuiet {
					return nil // discarded: no race attribution either
				}
				if err == nil && !ok {
					return fmt.Errorf("the race detector reported a data race while this stress case ran (report above: \"WARNING: DATA RACE\"): " +
						"unsynchronised access in the promise / insert-service code during concurrent pushes")
				}
				return err
			}
			return stressBody(s, o)
		},
	})
}

// RaceT is set by TestRace.
var RaceT *testing.T

// notQuiet is set by stressBody when the case was discarded because the writer did not
// become quiescent before shutdown (cases run one at a time).
var notQuiet bool

func stressBody(s inssvc.Stress, o *evid.Obs) error {
	runs := 1
	if o.Witness {
		runs = 20 // free-running schedules are not replayable: try the case repeatedly
	}
	for i := 0; i < runs; i++ {
		tr := inssvc.RunStress(s)
		if tr.NotQuiet {
			o.Discard("not-quiet-before-stop")
			notQuiet = true
			return nil
		}
		a := inssvc.Analyse(tr)
		if i == 0 {
			Classify(a, o)
		}
		if err := CheckAck(a); err != nil {
			return err
		}
	}
	return nil
}

package c01

import (
	"testing"

	"qrynverif/evid"
)

var cfg = evid.Config{
	Level: "exploration",
	Rule: "gated histories of push / flush / release(ok|error) / refused reconnect over the real insert services and handlers, plus free-running stress; " +
		"non-trivial: an INSERT failed or was held while another request of the same service arrived (a batch swap separated two requests), or a retry happened",
	Assumptions: []string{
		"the fake ClickHouse client reports a block as accepted or rejected as a whole (ch-go sends one block per Do)",
		"hand-built requests keep all per-row arrays the same length and account Size > 0 for a non-empty request, as the real parsers do",
		"retry_timeout_s = 0 (retries are immediate); retry_attempts 1..4",
		"with several parallel workers or handler goroutines the batching is not predicted; the marker invariants decide",
		"liveness is 'answered within 30 s once the database accepts everything and all services are flushed'",
	},
}

func TestProp(t *testing.T) {
	r := evid.New(t, "C01", cfg)
	addHistory(r)
	addStress(r, 0, 0) // not run here (TestRace does); registered so that stress replay files can be replayed
	r.Main()
}

// TestRace is the free-running driver; the driver builds it with -race.
func TestRace(t *testing.T) {
	r := evid.New(t, "C01", cfg)
	RaceT = t
	defer func() { RaceT = nil }()
	addStress(r, 40, 250)
	r.Main()
}

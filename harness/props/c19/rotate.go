package c19

import (
	"encoding/json"
	"fmt"
	"os"
	"path/filepath"
	"sort"
	"strings"
	"sync"
	"time"

	"github.com/metrico/qryn/ctrl/qryn/maintenance"
	"pgregory.net/rapid"

	"qrynverif/evid"
	"qrynverif/fakech"
)

// ---- C19: retention settings converge to the configuration; re-applying them is a no-op ----
//
// Domain: maintenance.Rotate (what ctrl.Rotate reaches through RotateAll/rotateDB) on the
// ctrl fake whose catalogue was produced by maintenance.Update (main.go initDB: Init, then
// Rotate), for generated retention configurations, with a fault at any call, and sequences
// of configuration changes between runs.
//
// Oracle: a table of what the configuration implies per data table (written from the
// property statement: drop after ttl_days, tier moves never earlier than one minute for
// sample tables / one day for index tables), compared with the modelled TTL and storage
// policy after every successful run; a history invariant on the settings markers; and a
// statement-log check that an unchanged configuration issues no ALTER.

type move struct {
	// Dur is a Go duration string, as in the configuration (ttl_policy[].ttl_policy is parsed
	// with time.ParseDuration by rotateDB, maintain.go:99).
	Dur  string `json:"dur"`
	Disk string `json:"disk"`
}

type rotCfg struct {
	Days   int    `json:"ttl_days"`
	Moves  []move `json:"moves"`
	Policy string `json:"storage_policy,omitempty"`
}

type faultAt struct {
	At   int    `json:"at"`   // index of the call within the run
	Mode string `json:"mode"` // before | after
	// Fault sequence on the statement call At issues: every further attempt qryn makes at the
	// same statement text (a re-issue inside the run, or the re-execution by a restart) fails
	// again, K times in all (0 counts as 1); Persist: every attempt during the whole run fails.
	K       int  `json:"k,omitempty"`
	Persist bool `json:"persist,omitempty"`
}

type env struct {
	Clustered  bool `json:"clustered"`
	Replicated bool `json:"replicated"`
}

const dbName = "qryn"

type nullLogger struct{}

func (nullLogger) Error(args ...any) {}
func (nullLogger) Debug(args ...any) {}
func (nullLogger) Info(args ...any)  {}

func (e env) cluster() string {
	if e.Clustered {
		return "qcluster"
	}
	return ""
}

func runRotate(conn *fakech.CtrlConn, e env, cfg rotCfg) error {
	pol := make([]maintenance.RotatePolicy, len(cfg.Moves))
	for i, m := range cfg.Moves {
		d, err := time.ParseDuration(m.Dur)
		if err != nil {
			panic("generator produced an unparsable duration: " + m.Dur)
		}
		pol[i] = maintenance.RotatePolicy{TTL: d, MoveTo: m.Disk}
	}
	// rotateDB (maintain.go:108): distributed == (ClusterName != "")
	return maintenance.Rotate(conn, e.cluster(), e.Clustered, pol, cfg.Days, cfg.Policy, nullLogger{})
}

// ---- the database Rotate finds: produced by the real Update ---------------------------------

// baseCache: schema catalogue per (environment, ttl days, policy); bounded, because the generated
// checks draw thousands of distinct keys (rebuilding one costs a few milliseconds).
var baseCache boundedCache

type boundedCache struct {
	mu sync.Mutex
	m  map[string]any
}

const boundedCacheMax = 48

func (c *boundedCache) Load(k string) (any, bool) {
	c.mu.Lock()
	defer c.mu.Unlock()
	v, ok := c.m[k]
	return v, ok
}

func (c *boundedCache) Store(k string, v any) {
	c.mu.Lock()
	defer c.mu.Unlock()
	if c.m == nil || len(c.m) >= boundedCacheMax {
		c.m = map[string]any{}
	}
	c.m[k] = v
}

func baseCatalog(e env, cfg rotCfg) (*fakech.CtrlCatalog, error) {
	key := fmt.Sprintf("%v/%v/%d/%s", e.Clustered, e.Replicated, cfg.Days, cfg.Policy)
	if v, ok := baseCache.Load(key); ok {
		return v.(*fakech.CtrlCatalog).Clone(), nil
	}
	mode := maintenance.CLUST_MODE_SINGLE
	if e.Replicated {
		mode = maintenance.CLUST_MODE_CLOUD
	}
	if e.Clustered {
		mode |= maintenance.CLUST_MODE_DISTRIBUTED
	}
	conn := fakech.NewCtrlConn(dbName)
	if err := maintenance.Update(conn, dbName, e.cluster(), mode, cfg.Days, cfg.Policy, "", false, nullLogger{}); err != nil {
		return nil, fmt.Errorf("schema initialisation on the fake failed: %v", err)
	}
	baseCache.Store(key, conn.Cat)
	return conn.Cat.Clone(), nil
}

// ---- what a configuration implies ------------------------------------------------------------

type tableSpec struct {
	name    string
	timeCol string // the column retention is measured on
	minMove int64  // seconds: tier moves never earlier than this
	group   int    // storage-policy group
}

// Sample tables (one row per event, nanosecond timestamps): one minute; index tables
// (one row per series/attribute per day, `date` column): one day.
var dataTables = []tableSpec{
	{"samples_v3", "timestamp_ns", 60, 0},
	{"time_series", "date", 86400, 0},
	{"time_series_gin", "date", 86400, 0},
	{"tempo_traces", "timestamp_ns", 60, 1},
	{"tempo_traces_attrs_gin", "date", 86400, 1},
	{"tempo_traces_kv", "date", 86400, 1},
	{"metrics_15s", "timestamp_ns", 60, 2},
}

type ttlWant struct {
	Seconds int64
	Action  string
	Target  string
}

func wantTTL(cfg rotCfg, t tableSpec) []ttlWant {
	var out []ttlWant
	for _, m := range cfg.Moves {
		d, _ := time.ParseDuration(m.Dur)
		s := int64(d / time.Second) // whole seconds
		if s < t.minMove {
			s = t.minMove
		}
		out = append(out, ttlWant{s, "disk", m.Disk})
	}
	out = append(out, ttlWant{int64(cfg.Days) * 86400, "delete", ""})
	sortWant(out)
	return out
}

func sortWant(w []ttlWant) {
	sort.Slice(w, func(i, j int) bool {
		if w[i].Seconds != w[j].Seconds {
			return w[i].Seconds < w[j].Seconds
		}
		if w[i].Action != w[j].Action {
			return w[i].Action < w[j].Action
		}
		return w[i].Target < w[j].Target
	})
}

// checkConverged: after a successful run every data table's TTL and storage policy equal
// what the configuration implies.
func checkConverged(cat *fakech.CtrlCatalog, cfg rotCfg) error {
	return checkConvergedSkip(cat, cfg, nil)
}

// checkConvergedSkip: skip(table, "ttl"|"policy") exempts one aspect of one table (region of a known finding).
func checkConvergedSkip(cat *fakech.CtrlCatalog, cfg rotCfg, skip func(table, aspect string) bool) error {
	for _, t := range dataTables {
		o := cat.Table(t.name)
		if o == nil {
			return fmt.Errorf("data table %s does not exist", t.name)
		}
		items, err := fakech.CtrlParseTTL(o.TTL)
		if err != nil {
			return fmt.Errorf("table %s: TTL %q not understood: %v", t.name, o.TTL, err)
		}
		var got []ttlWant
		for _, it := range items {
			if !strings.Contains(it.Base, t.timeCol) {
				return fmt.Errorf("table %s: TTL element measured on %q, not on its time column %s (TTL %q)", t.name, it.Base, t.timeCol, o.TTL)
			}
			got = append(got, ttlWant{it.Seconds, it.Action, it.Target})
		}
		sortWant(got)
		want := wantTTL(cfg, t)
		if fmt.Sprint(got) != fmt.Sprint(want) && !(skip != nil && skip(t.name, "ttl")) {
			return fmt.Errorf("table %s: TTL is %q = %v, the configuration %s implies %v (seconds, action, disk)", t.name, o.TTL, got, cfgStr(cfg), want)
		}
		if cfg.Policy != "" && o.Settings["storage_policy"] != cfg.Policy && !(skip != nil && skip(t.name, "policy")) {
			return fmt.Errorf("table %s: storage policy is %q, configured %q", t.name, o.Settings["storage_policy"], cfg.Policy)
		}
	}
	return nil
}

func cfgStr(c rotCfg) string {
	b, _ := json.Marshal(c)
	return string(b)
}

// ---- settings markers ---------------------------------------------------------------------------

type markerGroup struct {
	kind   string // ttl | policy
	tables []string
}

// Which tables a marker of type 'rotate' vouches for (rotate.go Rotate).
var markerGroups = map[string][]markerGroup{
	"v3_storage_policy":        {{"policy", []string{"time_series", "time_series_gin", "samples_v3"}}},
	"v1_traces_storage_policy": {{"policy", []string{"tempo_traces", "tempo_traces_attrs_gin", "tempo_traces_kv"}}},
	// one name is used for two markers (finding C19-shared-marker): told apart by the value
	"metrics_15s":                {{"policy", []string{"metrics_15s"}}, {"ttl", []string{"metrics_15s"}}},
	"metrics_15s_storage_policy": {{"policy", []string{"metrics_15s"}}},
	"v3_samples_days":            {{"ttl", []string{"samples_v3"}}},
	"v3_time_series_days":        {{"ttl", []string{"time_series", "time_series_gin"}}},
	"v1_traces_days":             {{"ttl", []string{"tempo_traces"}}},
	"tempo_attrs_v1":             {{"ttl", []string{"tempo_traces_attrs_gin", "tempo_traces_kv"}}},
}

func ttlEqual(a, b string) bool {
	ia, ea := fakech.CtrlParseTTL(a)
	ib, eb := fakech.CtrlParseTTL(b)
	if ea != nil || eb != nil {
		return fakech.CtrlCanon(a) == fakech.CtrlCanon(b)
	}
	return fmt.Sprint(ia) == fmt.Sprint(ib)
}

func markerKind(value string) string {
	if items, err := fakech.CtrlParseTTL(value); err == nil && len(items) > 0 {
		return "ttl"
	}
	return "policy"
}

// staleSkip computes the region of known finding C19-stale-marker-after-interrupted-change for a
// run that applies cfg, per marker group: a table of the group was ALTERed after the group's
// marker was last written (an interrupted change), still differs from what the marker says,
// and cfg asks for exactly the marker's value again — the unchanged code compares marker and
// desired value, skips the group, and that table keeps the interrupted run's value. A group
// whose marker was written by the interrupted run is NOT in the region (marker != desired:
// the code re-alters it, so it must converge).
func (w *world) staleSkip(cfg rotCfg) func(table, aspect string) bool {
	if w.o.Witness || !knownIDs()[findStale] {
		return nil
	}
	cat := w.conn.Cat
	markers := map[string]string{} // name/kind -> value
	for _, r := range cat.LatestSettings() {
		if r.Type == "rotate" && r.Value != "" {
			markers[r.Name+"/"+markerKind(r.Value)] = r.Value
		}
	}
	skipped := map[string]bool{}
	for name, gs := range markerGroups {
		for _, g := range gs {
			m, ok := markers[name+"/"+g.kind]
			if !ok {
				continue
			}
			for _, tn := range g.tables {
				t := cat.Table(tn)
				if t == nil || w.lastAlter[tn+"/"+g.kind] <= w.lastMarker[name+"/"+g.kind] {
					continue
				}
				switch g.kind {
				case "policy":
					if t.Settings["storage_policy"] != m && cfg.Policy == m {
						skipped[tn+"/policy"] = true
					}
				case "ttl":
					if ttlEqual(t.TTL, m) {
						continue
					}
					var spec tableSpec
					for _, d := range dataTables {
						if d.name == tn {
							spec = d
						}
					}
					items, err := fakech.CtrlParseTTL(m)
					if err != nil {
						continue
					}
					var got []ttlWant
					for _, it := range items {
						got = append(got, ttlWant{it.Seconds, it.Action, it.Target})
					}
					sortWant(got)
					if fmt.Sprint(got) == fmt.Sprint(wantTTL(cfg, spec)) {
						skipped[tn+"/ttl"] = true
					}
				}
			}
		}
	}
	if len(skipped) == 0 {
		return nil
	}
	return func(table, aspect string) bool {
		if skipped[table+"/"+aspect] {
			if !w.knownOnce {
				w.knownOnce = true
				w.o.Known(findStale)
			}
			w.o.Tag("stale-marker-region:" + aspect)
			return true
		}
		return false
	}
}

// checkMarker: a marker is recorded only when every table of its group already carries the
// recorded value.
func checkMarker(r fakech.CtrlSettingRow, cat *fakech.CtrlCatalog, o *evid.Obs) error {
	if r.Type != "rotate" || r.Value == "" {
		return nil
	}
	gs, ok := markerGroups[r.Name]
	if !ok {
		o.Tag("marker-unknown-name")
		return nil
	}
	items, perr := fakech.CtrlParseTTL(r.Value)
	kind := "policy"
	if perr == nil && len(items) > 0 {
		kind = "ttl"
	}
	for _, g := range gs {
		if g.kind != kind {
			continue
		}
		for _, tn := range g.tables {
			t := cat.Table(tn)
			if t == nil {
				return fmt.Errorf("marker %s recorded although table %s does not exist", r.Name, tn)
			}
			if kind == "ttl" && !ttlEqual(t.TTL, r.Value) {
				return fmt.Errorf("marker %s=%q recorded although table %s has TTL %q (not altered yet)", r.Name, r.Value, tn, t.TTL)
			}
			if kind == "policy" && t.Settings["storage_policy"] != r.Value {
				return fmt.Errorf("marker %s=%q recorded although table %s has storage policy %q (not altered yet)", r.Name, r.Value, tn, t.Settings["storage_policy"])
			}
		}
		return nil
	}
	o.Tag("marker-kind-unknown")
	return nil
}

// ---- known findings -------------------------------------------------------------------------------

const (
	findShared = "C19-metrics15s-shared-marker"
	findInt32  = "C19-move-interval-int32"
	findStale  = "C19-stale-marker-after-interrupted-change"
)

var (
	knownOnce sync.Once
	knownSet  map[string]bool
)

func knownIDs() map[string]bool {
	knownOnce.Do(func() {
		knownSet = map[string]bool{}
		root := os.Getenv("VERIF_ROOT")
		if root == "" {
			root = "/verif"
		}
		fs, _ := filepath.Glob(filepath.Join(root, "known_findings.d", "*.json"))
		fs = append(fs, filepath.Join(root, "known_findings.json"))
		for _, fn := range fs {
			b, err := os.ReadFile(fn)
			if err != nil {
				continue
			}
			var doc struct {
				Findings []evid.Finding `json:"findings"`
			}
			if json.Unmarshal(b, &doc) != nil {
				continue
			}
			for _, f := range doc.Findings {
				if f.Property == "C19" && f.Status == "known" {
					knownSet[f.ID] = true
				}
			}
		}
	})
	return knownSet
}

func (c rotCfg) overflowsInt32() bool {
	for _, m := range c.Moves {
		d, _ := time.ParseDuration(m.Dur)
		if int64(d/time.Second) > 1<<31-1 {
			return true
		}
	}
	return false
}

// ---- one database under test -------------------------------------------------------------------------

var (
	statMu       sync.Mutex
	unrecQueries int
)

type world struct {
	e         env
	conn      *fakech.CtrlConn
	o         *evid.Obs
	armed     *faultAt // fault (sequence) in force, nil: none
	armedRun  int
	target    string // canonical text of the statement the sequence is on ("" until call At was seen)
	targetQ   bool
	failed    int // attempts failed so far
	fired     *fakech.CtrlCall
	firedN    int // faults fired in the current run
	reissued  bool
	pending   int // ALTERs applied in this run since the last marker write
	betweenAM bool
	markerErr error
	// order of events, for the per-group region of the known stale-marker finding
	seq        int
	lastAlter  map[string]int // table/aspect -> sequence number of the last applied ALTER of that aspect
	lastMarker map[string]int // marker name/kind -> sequence number of the last applied marker write
	knownOnce  bool
	killUsed   bool
}

func newWorld(e env, cat *fakech.CtrlCatalog, o *evid.Obs) *world {
	w := &world{e: e, conn: fakech.NewCtrlConnOn(cat), o: o, lastAlter: map[string]int{}, lastMarker: map[string]int{}}
	w.conn.Decide = func(c *fakech.CtrlCall) fakech.CtrlFaultMode {
		f := w.armed
		if f == nil {
			return fakech.CtrlNoFault
		}
		if w.target == "" {
			if c.Run != w.armedRun || c.Index != f.At {
				return fakech.CtrlNoFault
			}
			w.target, w.targetQ = fakech.CtrlCanon(c.SQL), c.Query
		} else if w.targetQ != c.Query || w.target != fakech.CtrlCanon(c.SQL) {
			return fakech.CtrlNoFault
		}
		if f.Persist {
			if c.Run != w.armedRun {
				return fakech.CtrlNoFault
			}
		} else if w.failed >= max(f.K, 1) {
			return fakech.CtrlNoFault
		}
		w.failed++
		if w.firedN > 0 {
			w.reissued = true
		}
		w.firedN++
		w.fired = c
		if w.pending > 0 || (!c.Query && c.Stmt.Kind == "alter" && (f.Mode == "after" || f.Mode == "kill-after")) {
			w.betweenAM = true
		}
		switch f.Mode {
		case "after":
			return fakech.CtrlFailAfter
		case "kill-before":
			return fakech.CtrlKillBefore
		case "kill-after":
			return fakech.CtrlKillAfter
		}
		return fakech.CtrlFailBefore
	}
	w.conn.AfterApply = func(c *fakech.CtrlCall, cat *fakech.CtrlCatalog) {
		switch {
		case c.Stmt.Kind == "alter":
			w.pending++
			for _, cmd := range c.Stmt.Cmds {
				switch {
				case cmd.Op == "modify_ttl":
					w.seq++
					w.lastAlter[c.Stmt.Table+"/ttl"] = w.seq
				case cmd.Op == "modify_setting":
					if _, ok := cmd.Settings["storage_policy"]; ok {
						w.seq++
						w.lastAlter[c.Stmt.Table+"/policy"] = w.seq
					}
				}
			}
		case c.Stmt.Kind == "insert" && c.Stmt.Table == "settings":
			w.pending = 0
			if r, ok := c.Stmt.SettingRow(); ok {
				if r.Type == "rotate" && r.Value != "" {
					w.seq++
					w.lastMarker[r.Name+"/"+markerKind(r.Value)] = w.seq
				}
				if w.markerErr == nil {
					w.markerErr = checkMarker(r, cat, w.o)
				}
			}
		}
	}
	return w
}

// run executes one Rotate; f == nil: no fault. It returns whether the run reported success,
// and an error for violations that can be decided during the run.
func (w *world) run(cfg rotCfg, f *faultAt) (ok bool, run int, verr error) {
	run = w.conn.BeginRun()
	w.armed, w.armedRun, w.target, w.failed = f, run, "", 0
	return w.exec(cfg, run)
}

// restart executes one more Rotate with the fault sequence of the previous run still in force
// (attempts at its statement keep failing until K is used up).
func (w *world) restart(cfg rotCfg) (ok bool, run int, verr error) {
	return w.exec(cfg, w.conn.BeginRun())
}

func (w *world) exec(cfg rotCfg, run int) (ok bool, _ int, verr error) {
	w.fired, w.firedN, w.pending = nil, 0, 0
	var err error
	if w.armed != nil && strings.HasPrefix(w.armed.Mode, "kill") {
		// the process is killed at the fault point: Rotate runs in its own goroutine which the
		// fake parks forever (no deferred function, no error path runs); leaked on purpose
		w.killUsed = true
		done := make(chan error, 1)
		go func() {
			defer func() {
				if p := recover(); p != nil {
					done <- fmt.Errorf("panic: %v", p)
				}
			}()
			done <- runRotate(w.conn, w.e, cfg)
		}()
		select {
		case err = <-done:
		case <-w.conn.Parked():
			w.o.Tag("killed-run")
			err = fmt.Errorf("killed at the fault point")
		}
	} else {
		err = runRotate(w.conn, w.e, cfg)
	}
	if _, uq := w.conn.Unrecognised(); uq > 0 {
		statMu.Lock()
		unrecQueries += uq
		statMu.Unlock()
		w.o.Discard("query-not-modelled")
		return false, run, errDiscard
	}
	if w.markerErr != nil {
		return false, run, w.markerErr
	}
	if err != nil && w.fired == nil {
		calls := w.conn.RunCalls(run)
		last := calls[len(calls)-1]
		return false, run, fmt.Errorf("a run without any fault fails with configuration %s: %v (at: %s)", cfgStr(cfg), err, short(last.SQL))
	}
	if err == nil && w.fired != nil {
		// legitimate only if the statement was re-issued and succeeded within the run
		w.o.Tag("success-after-fault-in-same-run")
		if verr := neverSucceeded(w.conn.RunCalls(run)); verr != nil {
			return false, run, verr
		}
	}
	return err == nil, run, nil
}

// neverSucceeded: a run that reports success must not contain a statement all of whose
// attempts in that run failed before taking effect.
func neverSucceeded(calls []*fakech.CtrlCall) error {
	type rec struct {
		tries, ok int
		first     *fakech.CtrlCall
	}
	seen := map[string]*rec{}
	var order []string
	for _, c := range calls {
		if c.Query {
			continue // a read has no effect; what the code does without its answer is judged by the state checks
		}
		k := fakech.CtrlCanon(c.SQL)
		r := seen[k]
		if r == nil {
			r = &rec{first: c}
			seen[k] = r
			order = append(order, k)
		}
		r.tries++
		if c.Applied {
			r.ok++
		}
	}
	for _, k := range order {
		if r := seen[k]; r.ok == 0 {
			return fmt.Errorf("the run reports success although %d attempt(s) at this statement all failed and it never took effect in the run: %s => %s", r.tries, short(r.first.SQL), r.first.Err)
		}
	}
	return nil
}

var errDiscard = fmt.Errorf("c19-discard-query-not-modelled")

// undiscard turns the internal discard marker back into "no verdict".
func undiscard(err error) error {
	if err != nil && strings.Contains(err.Error(), errDiscard.Error()) {
		return nil
	}
	return err
}

func short(s string) string {
	s = strings.Join(strings.Fields(s), " ")
	if len(s) > 200 {
		return s[:200] + "…"
	}
	return s
}

// settle: after a successful run with cfg the state must equal the configuration, and one
// more run with the same configuration must issue no ALTER.
func (w *world) settle(cfg rotCfg, what string) error {
	skip := w.staleSkip(cfg)
	if err := checkConvergedSkip(w.conn.Cat, cfg, skip); err != nil {
		return fmt.Errorf("%s: %v", what, err)
	}
	ok, run, verr := w.run(cfg, nil)
	if verr != nil {
		return verr
	}
	if !ok {
		return fmt.Errorf("%s: the next run with the unchanged configuration fails", what)
	}
	var alters []string
	for _, c := range w.conn.RunCalls(run) {
		if !c.Query && c.Stmt.Kind == "alter" {
			alters = append(alters, short(c.SQL))
		}
	}
	if len(alters) > 0 {
		if cfg.Policy != "" && !w.o.Witness && knownIDs()[findShared] {
			onlyM15 := true
			for _, a := range alters {
				onlyM15 = onlyM15 && strings.Contains(a, "ALTER TABLE metrics_15s ")
			}
			if onlyM15 {
				w.o.Known(findShared)
				return nil
			}
		}
		return fmt.Errorf("%s: a second run with the unchanged configuration %s issues %d ALTER statement(s): %s", what, cfgStr(cfg), len(alters), strings.Join(alters, " | "))
	}
	return checkConvergedSkip(w.conn.Cat, cfg, skip)
}

// ---- check 1+3: one configuration change with a fault at every call ------------------------------------

type transCase struct {
	Env  env     `json:"env"`
	From *rotCfg `json:"from,omitempty"` // nil: first rotation after schema creation
	To   rotCfg  `json:"to"`
	// Fault: nil = every call × {before, after} is tried in turn (generated check);
	// set = exactly this one (enumerated check, replay of a shrunk inner failure).
	Fault *faultAt `json:"fault,omitempty"`
}

func predTransition(c transCase, o *evid.Obs) error { return undiscard(predTransition0(c, o)) }

func predTransition0(c transCase, o *evid.Obs) error {
	if !o.Witness && knownIDs()[findInt32] && (c.To.overflowsInt32() || (c.From != nil && c.From.overflowsInt32())) {
		o.Known(findInt32)
		return nil
	}
	first := c.To
	if c.From != nil {
		first = *c.From
	}
	base, err := baseCatalog(c.Env, first)
	if err != nil {
		return err
	}
	o.Tag(fmt.Sprintf("clustered:%v", c.Env.Clustered), fmt.Sprintf("moves:%d", len(c.To.Moves)), fmt.Sprintf("policy:%v", c.To.Policy != ""))
	if c.To.Policy != "" && len(c.To.Moves) > 0 {
		o.NonTrivial()
	}
	if c.From != nil {
		w := newWorld(c.Env, base, o)
		ok, _, verr := w.run(*c.From, nil)
		if verr == errDiscard {
			return nil
		}
		if verr != nil {
			return verr
		}
		if !ok {
			return fmt.Errorf("first rotation fails")
		}
		if err := w.settle(*c.From, "after the first configuration"); err != nil {
			return err
		}
		switch {
		case cfgStr(*c.From) == cfgStr(c.To):
			o.Tag("change:none")
		default:
			o.Tag("change:yes")
		}
	} else {
		o.Tag("change:first-rotation")
	}
	// length of the uninterrupted change
	probe := newWorld(c.Env, base.Clone(), o)
	ok, prun, verr := probe.run(c.To, nil)
	if verr == errDiscard {
		return nil
	}
	if verr != nil {
		return verr
	}
	if !ok {
		return fmt.Errorf("rotation fails")
	}
	n := len(probe.conn.RunCalls(prun))
	if err := probe.settle(c.To, "uninterrupted change"); err != nil {
		return err
	}
	var faults []faultAt
	if c.Fault != nil {
		faults = []faultAt{*c.Fault}
	} else {
		for i := 0; i < n; i++ {
			// single faults, and per call one consecutive-failure sequence and one persistent failure
			faults = append(faults, faultAt{At: i, Mode: "before"}, faultAt{At: i, Mode: "after"},
				faultAt{At: i, Mode: "before", K: 2 + i%4}, faultAt{At: i, Mode: []string{"before", "after"}[i%2], Persist: true})
		}
	}
	for _, f := range faults {
		f := f
		w := newWorld(c.Env, base.Clone(), o)
		ok, _, verr := w.run(c.To, &f)
		if verr == errDiscard {
			return nil
		}
		if verr != nil {
			return fmt.Errorf("fault %s at call %d: %v", f.Mode, f.At, verr)
		}
		if w.fired == nil {
			o.Tag("fault-not-reached")
			continue
		}
		o.Tag("fault:"+f.Mode+"@"+callClass(w.fired), seqTag(f))
		firedSQL := short(w.fired.SQL)
		// the interrupted run is completed by the next (by the first one the fault sequence lets through)
		for restarts := 0; !ok; restarts++ {
			if restarts >= max(f.K, 1)+2 {
				return fmt.Errorf("after fault %s (%s) at call %d (%s): %d restarts do not complete the change", f.Mode, seqTag(f), f.At, firedSQL, restarts)
			}
			var verr error
			ok, _, verr = w.restart(c.To)
			if verr != nil {
				return fmt.Errorf("restart %d after fault %s (%s) at call %d (%s): %v", restarts+1, f.Mode, seqTag(f), f.At, firedSQL, verr)
			}
		}
		if w.reissued {
			o.Tag("seq:re-issued-in-same-run")
		}
		if err := w.settle(c.To, fmt.Sprintf("after fault %s at call %d (%s) and a restart", f.Mode, f.At, firedSQL)); err != nil {
			return err
		}
	}
	return nil
}

func seqTag(f faultAt) string {
	switch {
	case f.Persist:
		return "seq:persist"
	default:
		return fmt.Sprintf("seq:k=%d", max(f.K, 1))
	}
}

func callClass(c *fakech.CtrlCall) string {
	switch {
	case c.Query:
		return "marker-read"
	case c.Stmt.Kind == "insert":
		return "marker-write"
	case c.Stmt.Kind == "alter":
		for _, cmd := range c.Stmt.Cmds {
			if cmd.Op == "modify_ttl" {
				return "alter-ttl"
			}
			if cmd.Op == "modify_setting" {
				if _, ok := cmd.Settings["storage_policy"]; ok {
					return "alter-policy"
				}
			}
		}
		return "alter-settings"
	}
	return c.Stmt.Kind
}

var disks = []string{"cold", "s3", "archive_1", "disk2"}
var policies = []string{"tiered", "hot_cold"}

func genDur(rt *rapid.T) string {
	switch rapid.IntRange(0, 11).Draw(rt, "durkind") {
	case 0:
		return fmt.Sprintf("%dms", rapid.IntRange(0, 5000).Draw(rt, "ms"))
	case 1, 2:
		return fmt.Sprintf("%ds", rapid.IntRange(0, 200).Draw(rt, "s"))
	case 3:
		return fmt.Sprintf("%dm%ds", rapid.IntRange(0, 3000).Draw(rt, "m"), rapid.IntRange(0, 59).Draw(rt, "s"))
	case 4, 5, 6:
		return fmt.Sprintf("%dh", rapid.IntRange(0, 24*40).Draw(rt, "h"))
	case 7:
		return fmt.Sprintf("%dh%dm", rapid.IntRange(20, 30).Draw(rt, "h"), rapid.IntRange(0, 59).Draw(rt, "m")) // around the one-day clamp
	case 8:
		return fmt.Sprintf("%ds", rapid.IntRange(55, 65).Draw(rt, "s")) // around the one-minute clamp
	case 9:
		return fmt.Sprintf("%dh", 24*rapid.IntRange(30, 3650).Draw(rt, "days"))
	case 10:
		// decades; below 79 years so that now + interval still fits ClickHouse's DateTime (2106)
		return fmt.Sprintf("%dh", 8760*rapid.IntRange(10, 78).Draw(rt, "years"))
	default:
		// a negative duration parses (time.ParseDuration) and must be clamped like any too-small one
		return fmt.Sprintf("-%dm", rapid.IntRange(1, 100).Draw(rt, "negm"))
	}
}

func genCfg(rt *rapid.T) rotCfg {
	c := rotCfg{Moves: []move{}}
	// ttl_days > 0: upgradeDB refuses 0 before Rotate is ever reached (maintain.go:24; main.go:131 default 7)
	c.Days = rapid.OneOf(rapid.IntRange(1, 30), rapid.IntRange(1, 3650)).Draw(rt, "days")
	nm := rapid.IntRange(0, 3).Draw(rt, "nmoves")
	for i := 0; i < nm; i++ {
		// a tier move names the disk it moves to (an entry without move_to would be a second DELETE rule)
		c.Moves = append(c.Moves, move{Dur: genDur(rt), Disk: rapid.SampledFrom(disks).Draw(rt, "disk")})
	}
	if rapid.Bool().Draw(rt, "haspolicy") {
		c.Policy = rapid.SampledFrom(policies).Draw(rt, "policy")
	}
	return c
}

// mutate derives a nearby configuration (one aspect changed), so that changes touch one marker kind at a time.
func mutate(rt *rapid.T, c rotCfg) rotCfg {
	n := rotCfg{Days: c.Days, Policy: c.Policy, Moves: append([]move{}, c.Moves...)}
	switch rapid.IntRange(0, 4).Draw(rt, "mut") {
	case 0:
		n.Days = rapid.IntRange(1, 400).Draw(rt, "days2")
	case 1:
		n.Policy = rapid.SampledFrom(append([]string{""}, policies...)).Draw(rt, "policy2")
	case 2:
		if len(n.Moves) > 0 {
			n.Moves = n.Moves[:len(n.Moves)-1]
		} else {
			n.Moves = append(n.Moves, move{genDur(rt), rapid.SampledFrom(disks).Draw(rt, "disk2")})
		}
	case 3:
		if len(n.Moves) < 3 {
			n.Moves = append(n.Moves, move{genDur(rt), rapid.SampledFrom(disks).Draw(rt, "disk2")})
		} else {
			n.Moves[0].Dur = genDur(rt)
		}
	default:
		return genCfg(rt)
	}
	return n
}

func genEnv(rt *rapid.T) env {
	return env{Clustered: rapid.Bool().Draw(rt, "clustered"), Replicated: rapid.Bool().Draw(rt, "replicated")}
}

func genTransition(rt *rapid.T) transCase {
	c := transCase{Env: genEnv(rt)}
	c.To = genCfg(rt)
	switch rapid.IntRange(0, 3).Draw(rt, "fromkind") {
	case 0:
	case 1:
		f := genCfg(rt)
		c.From = &f
	default:
		f := mutate(rt, c.To)
		c.From = &f
	}
	return c
}

func addTransition(r *evid.Run) {
	evid.Add(r, evid.Prop[transCase]{Name: "change-all-faults", Quick: 120, Thorough: 800, Gen: genTransition, Pred: predTransition})
}

// Enumerated variant: fixed configuration changes × every call × {before, after}.
var enumCfgs = []rotCfg{
	{Days: 7, Moves: []move{}},
	{Days: 7, Moves: []move{}, Policy: "tiered"},
	{Days: 30, Moves: []move{{"72h", "cold"}}, Policy: "tiered"},
	{Days: 30, Moves: []move{{"30s", "cold"}, {"720h", "s3"}}, Policy: "hot_cold"},
	{Days: 365, Moves: []move{{"1h", "cold"}, {"48h", "s3"}, {"8760h", "archive_1"}}},
}

func enumerateTransitions(yield func(transCase)) {
	for _, cl := range []bool{false, true} {
		e := env{Clustered: cl, Replicated: cl}
		for fi := -1; fi < len(enumCfgs); fi++ {
			for ti := range enumCfgs {
				if fi == ti {
					continue
				}
				c := transCase{Env: e, To: enumCfgs[ti]}
				if fi >= 0 {
					f := enumCfgs[fi]
					c.From = &f
				}
				// an upper bound of the calls of one run: 3 policy groups and 5 TTL groups
				// (1 read + 2 ALTERs per table + 1 write); faults beyond the end are "not reached"
				for at := 0; at < 37; at++ {
					for _, m := range []string{"before", "after"} {
						for k := 1; k <= 5; k++ {
							cc := c
							cc.Fault = &faultAt{At: at, Mode: m, K: k}
							yield(cc)
						}
						cc := c
						cc.Fault = &faultAt{At: at, Mode: m, Persist: true}
						yield(cc)
					}
				}
			}
		}
	}
}

func addEnum(r *evid.Run) {
	evid.Add(r, evid.Prop[transCase]{Name: "change-one-fault", Quick: 600, Thorough: 0, Enumerate: enumerateTransitions, Pred: predTransition})
}

// ---- check 2: histories of runs, faults and configuration changes ------------------------------------------

type histStep struct {
	Cfg   int      `json:"cfg"` // index into Pool
	Fault *faultAt `json:"fault,omitempty"`
}

type histCase struct {
	Env   env        `json:"env"`
	Pool  []rotCfg   `json:"pool"`
	Steps []histStep `json:"steps"`
}

func genHistory(rt *rapid.T) histCase {
	c := histCase{Env: genEnv(rt)}
	c.Pool = append(c.Pool, genCfg(rt))
	np := rapid.IntRange(1, 2).Draw(rt, "npool")
	for i := 0; i < np; i++ {
		c.Pool = append(c.Pool, mutate(rt, c.Pool[rapid.IntRange(0, len(c.Pool)-1).Draw(rt, "of")]))
	}
	ns := rapid.IntRange(2, 8).Draw(rt, "nsteps")
	cur := 0
	for i := 0; i < ns; i++ {
		if i > 0 && rapid.IntRange(0, 2).Draw(rt, "switch") > 0 {
			// a configuration change: a run with an unchanged configuration only reads the markers
			cur = (cur + rapid.IntRange(1, len(c.Pool)-1).Draw(rt, "cfg")) % len(c.Pool)
		}
		st := histStep{Cfg: cur}
		if rapid.IntRange(0, 2).Draw(rt, "faulty") > 0 {
			st.Fault = &faultAt{At: rapid.IntRange(0, 36).Draw(rt, "at"), Mode: rapid.SampledFrom([]string{"before", "after"}).Draw(rt, "fmode")}
			// fault sequences inside this run: K consecutive attempts at the statement, or all of them
			switch rapid.IntRange(0, 3).Draw(rt, "seqkind") {
			case 0:
				st.Fault.K = rapid.IntRange(2, 5).Draw(rt, "k")
			case 1:
				st.Fault.Persist = true
			}
			if rapid.IntRange(0, 7).Draw(rt, "kill") == 0 {
				st.Fault.Mode = "kill-" + st.Fault.Mode // killed there instead of seeing an error
			}
		}
		c.Steps = append(c.Steps, st)
	}
	return c
}

func predHistory(c histCase, o *evid.Obs) error { return undiscard(predHistory0(c, o)) }

func predHistory0(c histCase, o *evid.Obs) error {
	if len(c.Pool) == 0 || len(c.Steps) == 0 {
		o.Discard("empty")
		return nil
	}
	for _, s := range c.Steps {
		if s.Cfg < 0 || s.Cfg >= len(c.Pool) {
			o.Discard("bad-index")
			return nil
		}
	}
	if !o.Witness {
		if knownIDs()[findInt32] {
			for _, p := range c.Pool {
				if p.overflowsInt32() {
					o.Known(findInt32)
					return nil
				}
			}
		}
	}
	base, err := baseCatalog(c.Env, c.Pool[c.Steps[0].Cfg])
	if err != nil {
		return err
	}
	w := newWorld(c.Env, base, o)
	defer func() {
		if w.killUsed {
			w.conn.Discard() // parked goroutines keep the connection alive: release what it holds
		}
	}()
	o.Tag(fmt.Sprintf("clustered:%v", c.Env.Clustered))
	var trail []string
	lastOK := true
	changesAfterFault, fired := 0, 0
	if staleRegion(c) {
		// shape in which the known stale-marker finding can occur; the exclusion itself is
		// per marker group and per table (world.staleSkip), the rest of the history is judged
		o.Tag("revert-after-interrupted-change")
	}
	for i, s := range c.Steps {
		cfg := c.Pool[s.Cfg]
		if i > 0 && !lastOK && s.Cfg != c.Steps[i-1].Cfg {
			changesAfterFault++
		}
		w.betweenAM = false
		ok, _, verr := w.run(cfg, s.Fault)
		if verr == errDiscard {
			return nil
		}
		desc := fmt.Sprintf("run %d: cfg#%d", i, s.Cfg)
		if w.fired != nil {
			fired++
			desc += fmt.Sprintf(" fault %s at %s", w.fired.Fault, short(w.fired.SQL))
			o.Tag("fault:"+string(w.fired.Fault)+"@"+callClass(w.fired), seqTag(*s.Fault))
			if w.reissued {
				o.Tag("seq:re-issued-in-same-run")
			}
			if w.betweenAM && cfg.Policy != "" && len(cfg.Moves) > 0 {
				o.NonTrivial()
			}
		}
		trail = append(trail, desc)
		if verr != nil {
			return fmt.Errorf("%v\n  history: %s", verr, strings.Join(trail, "; "))
		}
		lastOK = ok
		if ok {
			if err := w.settle(cfg, fmt.Sprintf("after %s", desc)); err != nil {
				return fmt.Errorf("%v\n  history: %s", err, strings.Join(trail, "; "))
			}
		}
	}
	if !lastOK {
		cfg := c.Pool[c.Steps[len(c.Steps)-1].Cfg]
		ok, _, verr := w.run(cfg, nil)
		if verr != nil {
			return fmt.Errorf("%v\n  history: %s; clean restart", verr, strings.Join(trail, "; "))
		}
		if !ok {
			return fmt.Errorf("clean restart fails")
		}
		if err := w.settle(cfg, "after the final restart"); err != nil {
			return fmt.Errorf("%v\n  history: %s; clean restart", err, strings.Join(trail, "; "))
		}
	}
	o.Tag(fmt.Sprintf("faults-fired:%d", min(fired, 4)), fmt.Sprintf("config-changes-after-interrupted-run:%d", min(changesAfterFault, 3)))
	return nil
}

var aspects = []string{"ttl-sample", "ttl-index", "policy"}

// aspect is the effective value a configuration implies for one kind of marker ("" = Rotate
// does not touch it).
func aspect(c rotCfg, k string) string {
	switch k {
	case "ttl-sample":
		return fmt.Sprint(wantTTL(c, tableSpec{minMove: 60}))
	case "ttl-index":
		return fmt.Sprint(wantTTL(c, tableSpec{minMove: 86400}))
	}
	return c.Policy
}

// staleRegion is the signature of known finding C19-stale-marker-after-interrupted-change, a
// predicate over the case alone: for one kind of marker, a run applies value G, a later run
// with another value carries a fault (may be interrupted between the ALTERs and the marker
// write), and a later run applies G again with no fault-free run of another value in between.
func staleRegion(c histCase) bool {
	for _, k := range aspects {
		v := make([]string, len(c.Steps))
		for i, s := range c.Steps {
			v[i] = aspect(c.Pool[s.Cfg], k)
		}
		for a := 0; a < len(v); a++ {
			for b := a + 1; b < len(v); b++ {
				if c.Steps[b].Fault == nil || v[b] == "" || v[b] == v[a] {
					continue
				}
				for e := b + 1; e < len(v); e++ {
					if v[e] == "" || v[e] != v[a] {
						if c.Steps[e].Fault == nil && v[e] != "" {
							break // a clean run of another value rewrites the whole group
						}
						continue
					}
					return true
				}
			}
		}
	}
	return false
}

func addHistory(r *evid.Run) {
	evid.Add(r, evid.Prop[histCase]{Name: "history", Quick: 2000, Thorough: 15000, Gen: genHistory, Pred: predHistory})
}

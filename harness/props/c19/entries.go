package c19

import (
	"fmt"
	"strings"

	"pgregory.net/rapid"

	"qrynverif/evid"
	"qrynverif/fakech"
	"qrynverif/props/c18"
)

// ---- C19 through the real entry point: ctrl.Rotate over a list of databases -----------------------
//
// Domain: ctrl.Init then ctrl.Rotate(config, "qryn") with 1–4 DATABASE_DATA entries (see
// c18.GenEntries: nodes, cluster names, database names) each with its own retention
// (ttl days, tier moves, storage policy), 0–2 fault sequences on a statement of one database
// during Rotate, restarted until it reports success; then optionally a second configuration
// (retention of some entries changed) rotated without fault.
// Oracle: whenever ctrl.Rotate reports success EVERY configured database is converged to ITS
// OWN retention (checkConverged), markers are written only after their group's ALTERs, one
// more ctrl.Rotate issues no ALTER in any database, and Rotate must not report success while
// a statement of some database never took effect in that attempt.

type rotEntriesCase struct {
	Entries []c18.Entry      `json:"entries"`
	Faults  []c18.EntryFault `json:"faults,omitempty"`
	// Second: retention of the second configuration per distinct database (first-appearance
	// order); nil = no second phase.
	Second []rotCfg `json:"second,omitempty"`
}

func entryCfg(e c18.Entry) rotCfg {
	c := rotCfg{Days: e.TTLDays, Policy: e.Policy, Moves: []move{}}
	for _, m := range e.Moves {
		c.Moves = append(c.Moves, move{m.Dur, m.Disk})
	}
	return c
}

func setRetention(e *c18.Entry, c rotCfg) {
	e.TTLDays, e.Policy, e.Moves = c.Days, c.Policy, nil
	for _, m := range c.Moves {
		e.Moves = append(e.Moves, c18.Move{Dur: m.Dur, Disk: m.Disk})
	}
}

func genRotEntries(rt *rapid.T) rotEntriesCase {
	c := rotEntriesCase{}
	c.Entries = c18.GenEntries(rt, func(rt *rapid.T, e *c18.Entry) { setRetention(e, genCfg(rt)) })
	keys := entryKeys(c.Entries)
	c.Faults = c18.GenEntryFaults(rt, len(keys), 36)
	if rapid.Bool().Draw(rt, "second") {
		first := map[string]rotCfg{}
		for _, e := range c.Entries {
			first[lkey(e)] = entryCfg(e)
		}
		for _, k := range keys {
			if rapid.Bool().Draw(rt, "change") {
				c.Second = append(c.Second, mutate(rt, first[k]))
			} else {
				c.Second = append(c.Second, first[k])
			}
		}
	}
	return c
}

func lkey(e c18.Entry) string {
	if e.Cluster != "" {
		return "c" + e.Cluster + "/" + e.DB
	}
	return fmt.Sprintf("n%d/%s", e.Node, e.DB)
}

func entryKeys(es []c18.Entry) []string {
	var out []string
	seen := map[string]bool{}
	for _, e := range es {
		if k := lkey(e); !seen[k] {
			seen[k] = true
			out = append(out, k)
		}
	}
	return out
}

func describeEntries(es []c18.Entry) string {
	var out []string
	for i, e := range es {
		out = append(out, fmt.Sprintf("#%d node%d cluster=%q db=%s %s", i, e.Node, e.Cluster, e.DB, cfgStr(entryCfg(e))))
	}
	return strings.Join(out, "; ")
}

func predRotEntries(c rotEntriesCase, o *evid.Obs) error { return undiscard(predRotEntries0(c, o)) }

func predRotEntries0(c rotEntriesCase, o *evid.Obs) error {
	if len(c.Entries) == 0 {
		o.Discard("empty")
		return nil
	}
	if !o.Witness && knownIDs()[findInt32] {
		for _, e := range c.Entries {
			if entryCfg(e).overflowsInt32() {
				o.Known(findInt32)
				return nil
			}
		}
	}
	w, err := c18.NewWorld(c.Entries)
	if err != nil {
		o.Discard("no-loopback-listener")
		return nil
	}
	defer w.Close()
	in := c18.NewInjector(w, c.Faults)
	var markerErr error
	in.Hook = func(key string, cl *fakech.CtrlCall, cat *fakech.CtrlCatalog) {
		if cl.Stmt.Kind == "insert" && cl.Stmt.Table == "settings" && markerErr == nil {
			if r, ok := cl.Stmt.SettingRow(); ok {
				if e := checkMarker(r, cat, o); e != nil {
					markerErr = fmt.Errorf("database %s: %v", key, e)
				}
			}
		}
	}
	o.Tag(fmt.Sprintf("entries:%d", len(c.Entries)), fmt.Sprintf("databases:%d", len(w.Order)))
	clusters := map[string]int{}
	for _, e := range c.Entries {
		clusters[e.Cluster]++
	}
	for cl, n := range clusters {
		if n > 1 {
			if cl == "" {
				o.Tag("several-unclustered-entries")
			} else {
				o.Tag("several-entries-on-one-cluster")
			}
		}
	}
	distinctRetention := map[string]bool{}
	for _, e := range c.Entries {
		distinctRetention[cfgStr(entryCfg(e))] = true
	}
	if len(w.Order) > 1 && len(distinctRetention) > 1 {
		o.NonTrivial()
	}

	// schema first (main.go initDB: Init, then Rotate); no fault there
	in.Armed = false
	cfg := w.Config(c.Entries)
	in.Begin(-1)
	if err := c18.RunInit(cfg); err != nil {
		return fmt.Errorf("ctrl.Init fails without any fault: %v [entries: %s]", err, describeEntries(c.Entries))
	}
	in.Armed = true

	infra := func() bool {
		if pe := w.ProtoErrors(); len(pe) > 0 {
			statMu.Lock()
			protoProblems++
			statMu.Unlock()
			o.Discard("protocol-problem")
			return true
		}
		for _, k := range w.Order {
			if db := w.Farm.DB(k); db != nil {
				if _, uq := db.Unrecognised(); uq > 0 {
					statMu.Lock()
					unrecQueries += uq
					statMu.Unlock()
					o.Discard("query-not-modelled")
					return true
				}
			}
		}
		return false
	}
	lastRun := func(k string) []*fakech.CtrlCall {
		db := w.Farm.DB(k)
		calls := db.Calls()
		if len(calls) == 0 {
			return nil
		}
		return db.RunCalls(calls[len(calls)-1].Run)
	}
	// settle: every entry converged to its own retention; one more Rotate issues no ALTER anywhere
	attempt := 0
	settle := func(entries []c18.Entry, what string) error {
		for i, e := range entries {
			db := w.Farm.DB(w.Keys[i])
			if db == nil {
				return fmt.Errorf("%s: database of entry #%d (%s) does not exist", what, i, w.Keys[i])
			}
			if err := checkConverged(db.Cat, entryCfg(e)); err != nil {
				return fmt.Errorf("%s: ctrl.Rotate reports success but entry #%d (%s) is not converged to its own retention: %v [entries: %s]", what, i, w.Keys[i], err, describeEntries(entries))
			}
		}
		in.Armed = false
		defer func() { in.Armed = true }()
		attempt++
		in.Begin(1000 + attempt)
		if err := c18.RunRotate(w.Config(entries)); err != nil {
			return fmt.Errorf("%s: the next ctrl.Rotate with the unchanged configuration fails: %v", what, err)
		}
		for _, k := range w.Order {
			for _, cl := range lastRun(k) {
				if !cl.Query && cl.Stmt.Kind == "alter" {
					return fmt.Errorf("%s: a second ctrl.Rotate with the unchanged configuration issues an ALTER in database %s: %s [entries: %s]", what, k, short(cl.SQL), describeEntries(entries))
				}
			}
		}
		return nil
	}

	maxAttempt, extra := 0, 0
	for _, f := range c.Faults {
		maxAttempt = max(maxAttempt, f.Attempt)
		extra += max(f.K, 1)
	}
	completed := false
	attempts := 0
	var lastErr error
	for a := 0; a < maxAttempt+extra+3; a++ {
		attempts++
		in.Begin(a)
		nFired := len(in.Fired)
		lastErr = c18.RunRotate(cfg)
		if infra() {
			return nil
		}
		if markerErr != nil {
			return fmt.Errorf("%v [entries: %s]", markerErr, describeEntries(c.Entries))
		}
		if lastErr == nil {
			if len(in.Fired) > nFired {
				o.Tag("success-after-fault-in-same-run")
				for _, k := range w.Order {
					if verr := neverSucceeded(lastRun(k)); verr != nil {
						return fmt.Errorf("database %s: %v [entries: %s]", k, verr, describeEntries(c.Entries))
					}
				}
			}
			completed = true
			break
		}
		if len(in.Fired) == nFired && in.FiredAdmin == 0 {
			return fmt.Errorf("ctrl.Rotate fails without any fault: %v [entries: %s]", lastErr, describeEntries(c.Entries))
		}
	}
	o.Tag(fmt.Sprintf("attempts:%d", min(attempts, 8)), fmt.Sprintf("faults-fired:%d", min(len(in.Fired)+in.FiredAdmin, 6)))
	for _, f := range in.Fired {
		o.Tag("fault:" + string(f.Fault) + "@" + callClass(f))
	}
	if !completed {
		return fmt.Errorf("ctrl.Rotate cannot complete: %d attempts all fail; last error: %v [entries: %s]", attempts, lastErr, describeEntries(c.Entries))
	}
	if err := settle(c.Entries, "first configuration"); err != nil {
		return err
	}
	if markerErr != nil {
		return markerErr
	}
	if len(c.Second) == len(w.Order) && len(c.Second) > 0 {
		o.Tag("second-configuration")
		entries2 := append([]c18.Entry(nil), c.Entries...)
		pos := map[string]int{}
		for i, k := range w.Order {
			pos[k] = i
		}
		for i := range entries2 {
			setRetention(&entries2[i], c.Second[pos[w.Keys[i]]])
		}
		in.Armed = false
		attempt++
		in.Begin(2000 + attempt)
		if err := c18.RunRotate(w.Config(entries2)); err != nil {
			return fmt.Errorf("ctrl.Rotate with the second configuration fails without any fault: %v [entries: %s]", err, describeEntries(entries2))
		}
		if infra() {
			return nil
		}
		if markerErr != nil {
			return markerErr
		}
		if err := settle(entries2, "second configuration"); err != nil {
			return err
		}
	}
	return nil
}

var protoProblems int

func addRotEntries(r *evid.Run) {
	evid.Add(r, evid.Prop[rotEntriesCase]{Name: "rotate-entries", Quick: 100, Thorough: 500, Gen: genRotEntries, Pred: predRotEntries})
}

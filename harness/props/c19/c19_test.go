package c19

import (
	"fmt"
	"testing"

	"qrynverif/evid"
)

func TestProp(t *testing.T) {
	r := evid.New(t, "C19", evid.Config{
		Level: "fault_enumeration",
		Rule: "maintenance.Rotate on the ctrl fake (catalogue produced by maintenance.Update) over generated retention configurations, a fault at every call, " +
			"and histories of runs / faults / configuration changes; non-trivial: configuration with a storage policy and >= 1 tier move " +
			"(history: additionally a fault that lands between an ALTER and the marker write of its group)",
		Assumptions: []string{
			"ClickHouse is modelled: ALTER … MODIFY TTL / MODIFY SETTING replace the table's TTL / setting atomically; ALTER of a missing table fails; disks and policies named in the configuration exist",
			"a crash is an error returned at a statement boundary, before or after the statement took effect",
			"ttl_days >= 1 (Init refuses 0 before Rotate runs); every tier move names a disk; durations are time.ParseDuration strings below 79 years (ClickHouse DateTime ends in 2106)",
			"data tables = the seven tables the retention mechanism governs (samples_v3, time_series, time_series_gin, tempo_traces, tempo_traces_attrs_gin, tempo_traces_kv, metrics_15s); profiles tables are not rotated by this code base at all (see NOTES.md)",
		},
		Exhaustive: true,
	})
	addEnum(r)
	addTransition(r)
	addHistory(r)
	addRotEntries(r)
	r.Main()
	statMu.Lock()
	defer statMu.Unlock()
	if unrecQueries > 0 {
		fmt.Printf("INCONCLUSIVE property=C19: the ctrl fake could not answer %d quer(ies) qryn issued (query text changed?)\n", unrecQueries)
	}
}
